(* P_LedgerC04.v — property C04 (bridge solvency) over the ledger model: instances of the generic invariant of
   P_Ledger.v (conservation per token group, supply of a bridge denomination per chain, bank/supply consistency),
   the frame property, the escrow identity and the "withdrawable" statement with its refutation. *)
From Coq Require Import ZArith List Bool Lia.
From FxV Require Import model.M_Ledger proofs.P_Ledger.
Import ListNotations.
Open Scope Z_scope.

(* ------------------------------------------------------------------------------------------------ *)
(** * User holdings as a linear observable *)

Definition reps : list Z := [0; 1; 2; 3; 4; 5; 6; 7; 8; 9].
(* everything account a holds of token t: the ten denominations 10t..10t+9 and the ERC-20 balance *)
Definition ucell (t a : Z) : lin :=
  lin_add (lin_sum (fun r => lin_cell (CB a (10 * t + r))) reps) (lin_cell (CE t a)).
Definition Vb (U : list Z) (t : Z) : lin := lin_sum (ucell t) U.

Definition ind (b : bool) : Z := if b then 1 else 0.
Definition dtok (d : Z) : Z := d / 10.

Lemma dtok_spec d t : (dtok d =? t) = ((10 * t <=? d) && (d <=? 10 * t + 9)).
Proof.
  unfold dtok. pose proof (Z.div_mod d 10 ltac:(lia)). pose proof (Z.mod_pos_bound d 10 ltac:(lia)).
  destruct (Z.eqb_spec (d / 10) t), (Z.leb_spec (10 * t) d), (Z.leb_spec d (10 * t + 9)); cbn [andb]; try reflexivity; lia.
Qed.

Lemma coef_ucell_CB t a a' d : coef (ucell t a) (CB a' d) = ind (a =? a') * ind (dtok d =? t).
Proof.
  rewrite dtok_spec.
  unfold ucell, reps, ind, lin_sum. cbn [coef lin_add lin_cell lin_zero fold_right cell_eqb].
  destruct (Z.eqb_spec a a'); cbn [andb].
  - destruct (Z.leb_spec (10 * t) d), (Z.leb_spec d (10 * t + 9)); cbn [andb];
      repeat match goal with |- context [?x =? ?y] => destruct (Z.eqb_spec x y) end; lia.
  - lia.
Qed.
Lemma coef_ucell_CE t a t' a' : coef (ucell t a) (CE t' a') = ind (a =? a') * ind (t' =? t).
Proof.
  unfold ucell, reps, ind, lin_sum. cbn [coef lin_add lin_cell lin_zero fold_right cell_eqb].
  destruct (Z.eqb_spec a a'), (Z.eqb_spec t t'), (Z.eqb_spec t' t); cbn [andb]; try lia; congruence.
Qed.
Lemma coef_ucell_CS t a d : coef (ucell t a) (CS d) = 0.
Proof. reflexivity. Qed.
Lemma coef_ucell_CT t a t' : coef (ucell t a) (CT t') = 0.
Proof. reflexivity. Qed.

Lemma sum_ind_NoDup U a : NoDup U -> fold_right (fun a0 acc => ind (a0 =? a) + acc) 0 U = ind (memZ a U).
Proof.
  induction 1 as [|a0 U Hn Hd IH]; cbn; [reflexivity|].
  rewrite IH. rewrite (Z.eqb_sym a a0). destruct (Z.eqb_spec a0 a); cbn; [|reflexivity].
  subst. unfold memZ. destruct (existsb (Z.eqb a) U) eqn:E; [|reflexivity].
  apply existsb_exists in E. destruct E as [y [Hy Hyy]]. apply Z.eqb_eq in Hyy. subst. contradiction.
Qed.

Lemma coefV_CB U t a d : NoDup U -> coef (Vb U t) (CB a d) = ind (memZ a U) * ind (dtok d =? t).
Proof.
  intros H. unfold Vb. rewrite lin_sum_coef. rewrite <- (sum_ind_NoDup U a H).
  clear H. induction U as [|a0 U IH]; cbn -[ucell]; [reflexivity|].
  rewrite IH, coef_ucell_CB. lia.
Qed.
Lemma coefV_CE U t t' a : NoDup U -> coef (Vb U t) (CE t' a) = ind (memZ a U) * ind (t' =? t).
Proof.
  intros H. unfold Vb. rewrite lin_sum_coef. rewrite <- (sum_ind_NoDup U a H).
  clear H. induction U as [|a0 U IH]; cbn -[ucell]; [reflexivity|].
  rewrite IH, coef_ucell_CE. lia.
Qed.
Lemma coefV_CS U t d : coef (Vb U t) (CS d) = 0.
Proof. unfold Vb. rewrite lin_sum_coef. induction U; cbn -[ucell]; [reflexivity|]. rewrite IHU, coef_ucell_CS. lia. Qed.
Lemma coefV_CT U t t' : coef (Vb U t) (CT t') = 0.
Proof. unfold Vb. rewrite lin_sum_coef. induction U; cbn -[ucell]; [reflexivity|]. rewrite IHU, coef_ucell_CT. lia. Qed.

(* the user set: no duplicates, no module account *)
Definition is_module (a : Z) : bool := (1 <=? a) && (a <=? 24).
Definition users (U : list Z) : Prop := NoDup U /\ forall a, In a U -> is_module a = false.

Lemma users_mod U a : users U -> is_module a = true -> memZ a U = false.
Proof.
  intros [_ H] Hm. unfold memZ. destruct (existsb (Z.eqb a) U) eqn:E; [|reflexivity].
  apply existsb_exists in E. destruct E as [y [Hy Hyy]]. apply Z.eqb_eq in Hyy. subst. rewrite (H _ Hy) in Hm. discriminate.
Qed.
Lemma users_in U a : In a U -> memZ a U = true.
Proof. intros H. apply existsb_exists. exists a. split; [assumption|apply Z.eqb_refl]. Qed.

Lemma cacc_module c : is_module (cacc c) = true.
Proof. unfold cacc, chain_ok, is_module. destruct (1 <=? c) eqn:E1, (c <=? 8) eqn:E2; cbn [andb]; lia. Qed.

Lemma dtok_intro i r : 0 <= r <= 9 -> dtok (10 * i + r) = i.
Proof. intros H. apply Z.eqb_eq. rewrite dtok_spec. apply andb_true_iff. split; apply Z.leb_le; lia. Qed.
Lemma dtok_base t : dtok (base_of t) = t_id t.
Proof. unfold base_of. replace (10 * t_id t) with (10 * t_id t + 0) by lia. apply dtok_intro. lia. Qed.
Lemma dtok_alias t c : dtok (alias_of t c) = t_id t.
Proof.
  unfold alias_of, chain_ok. destruct (t_kind t).
  - replace (10 * t_id t) with (10 * t_id t + 0) by lia. apply dtok_intro. lia.
  - apply dtok_intro. destruct (Z.leb_spec 1 c), (Z.leb_spec c 8); cbn [andb]; lia.
  - apply dtok_intro. destruct (Z.leb_spec 1 c), (Z.leb_spec c 8); cbn [andb]; lia.
Qed.
Lemma dtok_ibc t : dtok (ibc_of t) = t_id t.
Proof. unfold ibc_of. apply dtok_intro. lia. Qed.
Lemma dtok_rep t r : dtok (denom_rep t r) = t_id t.
Proof. unfold denom_rep. destruct (r =? 0); [apply dtok_base|]. destruct (r =? 9); [apply dtok_ibc|apply dtok_alias]. Qed.

(* ------------------------------------------------------------------------------------------------ *)
(** * Effect of every balance program on the user holdings *)

Lemma dtok_FX : dtok FX = 0. Proof. reflexivity. Qed.
Lemma dtok_0 : dtok 0 = 0. Proof. reflexivity. Qed.

Ltac memU U HU :=
  repeat match goal with
  | H : In ?a U |- context [memZ ?a U] => rewrite (users_in U a H)
  | |- context [memZ A_ERC20 U] => rewrite (users_mod U A_ERC20 HU eq_refl)
  | |- context [memZ A_IBC U] => rewrite (users_mod U A_IBC HU eq_refl)
  | |- context [memZ A_WFX U] => rewrite (users_mod U A_WFX HU eq_refl)
  | |- context [memZ A_EVM U] => rewrite (users_mod U A_EVM HU eq_refl)
  | |- context [memZ A_PRE U] => rewrite (users_mod U A_PRE HU eq_refl)
  | |- context [memZ (cacc ?c) U] => rewrite (users_mod U (cacc c) HU (cacc_module c))
  end.

Ltac prims := cbn [pdelta app send mint burn erc20_mint erc20_burn erc20_transfer].

Ltac vb_fin U HU :=
  prims; rewrite ?pdelta_app; prims;
  rewrite ?coefV_CB, ?coefV_CE, ?coefV_CS, ?coefV_CT by (apply HU);
  memU U HU;
  rewrite ?dtok_base, ?dtok_alias, ?dtok_ibc, ?dtok_rep, ?dtok_FX, ?dtok_0;
  unfold ind;
  repeat match goal with |- context [if ?x =? ?y then _ else _] => destruct (Z.eqb_spec x y) end;
  try lia.

Section VB.
Variables (U : list Z) (t : Z).
Hypothesis HU : users U.
Let co := coef (Vb U t).
Definition tki (tk : token) : Z := ind (t_id tk =? t).

Lemma vb_send a b d x : In a U -> In b U -> pdelta co (send a b d x) = 0.
Proof. intros; subst co; vb_fin U HU. Qed.

Lemma vb_convert_coin tk a b x : In a U -> In b U -> pdelta co (convert_coin tk a b x) = 0.
Proof. intros; subst co; unfold convert_coin, tki; destruct (t_kind tk); cbn [pdelta]; vb_fin U HU. Qed.

Lemma vb_convert_erc20 tk a b x : In a U -> In b U -> pdelta co (convert_erc20 tk a b x) = 0.
Proof. intros; subst co; unfold convert_erc20, tki; destruct (t_kind tk); cbn [pdelta]; vb_fin U HU. Qed.

Lemma vb_convert_denom_to_target tk a src tg x : In a U -> pdelta co (convert_denom_to_target tk a src tg x) = 0.
Proof.
  intros; subst co; unfold convert_denom_to_target.
  destruct (is_fx tk || negb (has_aliases tk)); [reflexivity|].
  destruct (src =? old_target tk tg); [reflexivity|].
  destruct (t_kind tk); destruct (src =? 0); try destruct (old_target tk tg =? 0); vb_fin U HU.
Qed.

Lemma vb_msg_convert_denom tk a b src tg x : In a U -> In b U -> pdelta co (msg_convert_denom tk a b src tg x) = 0.
Proof.
  intros Ha Hb. unfold msg_convert_denom. cbn [pdelta]. rewrite pdelta_app, vb_convert_denom_to_target by assumption.
  cbn [pdelta]. destruct (a =? b); [reflexivity|]. subst co; vb_fin U HU.
Qed.

Lemma vb_bridge_token_to_base tk c a x : In a U -> pdelta co (bridge_token_to_base tk c a x) = tki tk * x.
Proof.
  intros; subst co; unfold bridge_token_to_base, deposit_bridge_token, conversion_coin, tki. cbn [pdelta].
  destruct (t_kind tk); vb_fin U HU.
Qed.

Lemma vb_base_to_bridge_token tk c a x : In a U -> pdelta co (base_to_bridge_token tk c a x) = - (tki tk * x).
Proof.
  intros; subst co; unfold base_to_bridge_token, withdraw_bridge_token, conversion_coin, tki. cbn [pdelta].
  destruct (t_kind tk); vb_fin U HU.
Qed.

Lemma vb_handler_origin_token a x : In a U -> pdelta co (handler_origin_token a x) = 0.
Proof. intros; subst co; unfold handler_origin_token; vb_fin U HU. Qed.

Lemma vb_handler_erc20_token tk a x : In a U -> pdelta co (handler_erc20_token tk a x) = 0.
Proof. intros; subst co; unfold handler_erc20_token; destruct (t_kind tk); vb_fin U HU. Qed.

Lemma vb_ibc_to_base tk a x : In a U -> pdelta co (ibc_to_base tk a x) = 0.
Proof. intros; subst co; unfold ibc_to_base; cbn [pdelta]; vb_fin U HU. Qed.
Lemma vb_base_to_ibc tk a x : In a U -> pdelta co (base_to_ibc tk a x) = 0.
Proof. intros; subst co; unfold base_to_ibc; cbn [pdelta]; vb_fin U HU. Qed.

Lemma vb_add_bridge_fee tk c a x : In a U -> pdelta co (add_bridge_fee_prog tk c a x) = - (tki tk * x).
Proof. intros; subst co; unfold add_bridge_fee_prog, tki; destruct (origin_or_converted tk); vb_fin U HU. Qed.

Lemma vb_ibc_mint tk a x : In a U ->
  pdelta co (Chk (t_ibc tk && negb (is_fx tk)) :: mint A_IBC (ibc_of tk) x ++ send A_IBC a (ibc_of tk) x) = tki tk * x.
Proof. intros; subst co; unfold tki; cbn [pdelta]; vb_fin U HU. Qed.

Lemma vb_wfx_deposit a x : In a U -> pdelta co (send a A_WFX FX x ++ erc20_mint 0 a x) = 0.
Proof. intros; subst co; vb_fin U HU. Qed.
Lemma vb_wfx_withdraw a x : In a U -> pdelta co (erc20_burn 0 a x ++ send A_WFX a FX x) = 0.
Proof. intros; subst co; vb_fin U HU. Qed.
Lemma vb_erc20_transfer tt a b x : In a U -> In b U -> pdelta co (erc20_transfer tt a b x) = 0.
Proof. intros; subst co; vb_fin U HU. Qed.

End VB.

(* ------------------------------------------------------------------------------------------------ *)
(** * C04 conservation: instance of the generic invariant *)

Section HOLD.
Variables (g : cfg) (U : list Z) (t : Z).
Hypothesis HU : users U.

Definition wT (c i : Z) : Z := ind (i =? t).
Definition gdT (gh : ghost) : Z := get1 t (dept gh).
Definition geT (gh : ghost) : Z := get1 t (exet gh).

Lemma vb_refund_mint c tk x : pdelta (coef (Vb U t)) (refund_mint c tk x) = 0.
Proof. unfold refund_mint. cbn [pdelta]. destruct (origin_or_converted tk); vb_fin U HU. Qed.
Lemma vb_refund_unlock c a tk x : In a U -> pdelta (coef (Vb U t)) (refund_unlock c a tk x) = tki t tk * x.
Proof. intros. unfold refund_unlock, tki. vb_fin U HU. Qed.

Lemma blocks_hold : blocks g U (Vb U t) wT gdT geT 0 1.
Proof.
  constructor; intros; try (apply dB_pdelta); [| | | | | | |reflexivity| | | | | | | | | | | | |].
  - rewrite vb_base_to_bridge_token by assumption. reflexivity.
  - rewrite vb_bridge_token_to_base by assumption. reflexivity.
  - apply vb_convert_coin; assumption.
  - apply vb_convert_erc20; assumption.
  - apply vb_convert_denom_to_target; assumption.
  - apply vb_msg_convert_denom; assumption.
  - rewrite vb_add_bridge_fee by assumption. reflexivity.
  - rewrite vb_refund_mint. lia.
  - rewrite vb_refund_unlock by assumption. unfold wT, tki. lia.
  - apply vb_handler_origin_token; assumption.
  - apply vb_handler_erc20_token; assumption.
  - apply vb_send; assumption.
  - apply vb_erc20_transfer; assumption.
  - apply vb_wfx_deposit; assumption.
  - apply vb_wfx_withdraw; assumption.
  - rewrite vb_ibc_mint by assumption. reflexivity.
  - apply vb_ibc_to_base; assumption.
  - apply vb_base_to_ibc; assumption.
  - unfold gdT, geT, wT, ind. cbn [dept exet]. rewrite get1_set1, (Z.eqb_sym t i).
    destruct (Z.eqb_spec i t); [subst|]; split; lia.
  - unfold gdT, geT, wT, ind. cbn [dept exet]. rewrite get1_set1, (Z.eqb_sym t i).
    destruct (Z.eqb_spec i t); [subst|]; split; lia.
Qed.

End HOLD.

(* the statement in the property's words *)
Definition user_holdings (U : list Z) (t : Z) (s : state) : Z := Vb U t (sb s).
Definition in_flight (t : Z) (s : state) : Z := infl (wT t) (sr s).
Definition deposited (t : Z) (s : state) : Z := get1 t (dept (sg s)).
Definition executed_out (t : Z) (s : state) : Z := get1 t (exet (sg s)).

Theorem conservation U g t s0 ops : users U -> recs_wf U (sr s0) -> Forall (op_ok U) ops ->
  let s := steps g s0 ops in
  user_holdings U t s + in_flight t s =
  user_holdings U t s0 + in_flight t s0 + (deposited t s - deposited t s0) - (executed_out t s - executed_out t s0).
Proof.
  intros HU W Hops s.
  destruct (steps_keeps g U (Vb U t) (wT t) (gdT t) (geT t) 0 1 (blocks_hold g U t HU) ops Hops s0 W) as [E _]. fold s in E.
  unfold V, gdT, geT in E. unfold user_holdings, in_flight, deposited, executed_out. lia.
Qed.

(* user_holdings is the sum over the users of every denomination 10t..10t+9 and the ERC-20 balance *)
Lemma user_holdings_unfold U t s :
  user_holdings U t s =
  fold_right (fun a acc => (fold_right (fun r acc' => get2 (a, 10 * t + r) (bank (sb s)) + acc') 0 reps
                            + get2 (t, a) (ebal (sb s))) + acc) 0 U.
Proof.
  unfold user_holdings, Vb. rewrite lin_sum_L. induction U as [|a U IH]; [reflexivity|].
  cbn [fold_right]. rewrite <- IH. reflexivity.
Qed.

(* in_flight is the sum of amount+fee over the pool and the batches and of the token's amounts over the bridge calls *)
Lemma in_flight_unfold t s :
  in_flight t s =
  sumZ (map (fun p => ind (p_tok p =? t) * (p_amt p + p_fee p)) (pool (sr s)))
  + sumZ (map (fun p => ind (p_tok p =? t) * (p_amt p + p_fee p)) (flat_map b_txs (batches (sr s))))
  + sumZ (map (fun b => sumZ (map (fun q => ind (fst q =? t) * snd q) (c_toks b))) (calls (sr s))).
Proof. reflexivity. Qed.

(* ------------------------------------------------------------------------------------------------ *)
(** * Supply of a module-owned token's bridge denomination on one chain *)

Section SUP.
Variables (g : cfg) (U : list Z) (i c : Z) (tkI : token).
Hypothesis HU : users U.
Hypothesis Hc : chain_ok c = true.
Hypothesis Hi : find_tok g i = Some tkI.
Hypothesis Hk : t_kind tkI = KMod.

Definition wS (c' i' : Z) : Z := ind ((c' =? c) && (i' =? i)).
Definition gdS (gh : ghost) : Z := get2 (i, c) (depc gh).
Definition geS (gh : ghost) : Z := get2 (i, c) (exec gh).
Definition lS : lin := lin_cell (CS (10 * i + c)).

Lemma fromcfg_kindS tk : fromcfg g tk -> t_id tk = i -> t_kind tk = KMod.
Proof. unfold fromcfg. intros H E. rewrite E, Hi in H. injection H as <-. assumption. Qed.

Ltac sup_fin tk Htk :=
  apply dB_pdelta; blk_unfold; den_unfold; unfold lS, wS, ind;
  assert (Hcc : 1 <= c <= 8) by (unfold chain_ok in Hc; apply andb_true_iff in Hc as [H1 H2]; apply Z.leb_le in H1, H2; lia);
  (destruct (Z.eqb_spec (t_id tk) i) as [Eid|Eid];
   [pose proof (fromcfg_kindS tk Htk Eid) as K; rewrite ?K | destruct (t_kind tk)]);
  split_leb; split_eqb; split_if; pd_cbn; cbn [coef lin_cell cell_eqb]; split_eqb; try lia.

Lemma blocks_sup : blocks g U lS wS gdS geS 1 0.
Proof.
  constructor; [intros tk c' a x Htk Ha|intros tk c' a x Htk Ha|intros tk a b x Htk Ha Hb|intros tk a b x Htk Ha Hb|
                intros tk a src tg x Htk Ha|intros tk a b src tg x Htk Ha Hb|intros tk c' a x Htk Ha|reflexivity|
                intros tk c' x Htk|intros tk c' a x Htk Ha|intros a x Ha|intros tk a x Htk Ha|intros a b d x Ha Hb|
                intros i' a b x Ha Hb|intros a x Ha|intros a x Ha|intros tk a x Htk Ha|intros tk a x Htk Ha|intros tk a x Htk Ha| |].
  - sup_fin tk Htk.
  - sup_fin tk Htk.
  - sup_fin tk Htk.
  - sup_fin tk Htk.
  - sup_fin tk Htk.
  - sup_fin tk Htk.
  - sup_fin tk Htk.
  - sup_fin tk Htk.
  - sup_fin tk Htk.
  - apply dB_pdelta. unfold handler_origin_token, lS. pd_cbn. cbn [coef lin_cell cell_eqb]. lia.
  - sup_fin tk Htk.
  - apply dB_pdelta. unfold lS. pd_cbn. cbn [coef lin_cell cell_eqb]. lia.
  - apply dB_pdelta. unfold lS. pd_cbn. cbn [coef lin_cell cell_eqb]. lia.
  - apply dB_pdelta. unfold lS. pd_cbn. cbn [coef lin_cell cell_eqb]. lia.
  - apply dB_pdelta. unfold lS. pd_cbn. cbn [coef lin_cell cell_eqb]. lia.
  - sup_fin tk Htk.
  - sup_fin tk Htk.
  - sup_fin tk Htk.
  - intros gh i' c' x. unfold gdS, geS, wS, ind. cbn [depc exec]. rewrite get2_set2. unfold key_eqb. cbn [fst snd].
    rewrite (Z.eqb_sym i i'), (Z.eqb_sym c c'). destruct (i' =? i), (c' =? c); cbn [andb]; split; lia.
  - intros gh i' c' x. unfold gdS, geS, wS, ind. cbn [depc exec]. rewrite get2_set2. unfold key_eqb. cbn [fst snd].
    rewrite (Z.eqb_sym i i'), (Z.eqb_sym c c'). destruct (i' =? i), (c' =? c); cbn [andb]; split; lia.
Qed.

End SUP.
