(* P_LedgerC08.v — property C08, conversion half, over the ledger model: the pair-books equations are invariants of EVERY
   operation of M_Ledger (conversions, bridge operations, precompile entry points, refunds), as instances of the generic
   invariant of P_Ledger.v with weight 0. *)
From Coq Require Import ZArith List Bool Lia.
From FxV Require Import model.M_Ledger proofs.P_Ledger proofs.P_LedgerC04.
Import ListNotations.
Open Scope Z_scope.

Definition w0 (c i : Z) : Z := 0.
Definition g0 (gh : ghost) : Z := 0.

Lemma user_range U a : users U -> In a U -> a < 1 \/ 25 < a.
Proof.
  intros [_ H] Ha. specialize (H a Ha). unfold is_module in H.
  destruct (Z.leb_spec 1 a), (Z.leb_spec a 25); cbn in H; try discriminate; lia.
Qed.
Lemma cacc_range c : 1 <= cacc c <= 8.
Proof. unfold cacc, chain_ok. destruct (Z.leb_spec 1 c), (Z.leb_spec c 8); cbn [andb]; lia. Qed.

Ltac acc_facts U HU :=
  repeat match goal with
  | H : In ?a U |- _ => lazymatch goal with | _ : a < 1 \/ 25 < a |- _ => fail | _ => pose proof (user_range U a HU H) end
  end;
  repeat match goal with
  | |- context [cacc ?c] => lazymatch goal with | _ : 1 <= cacc c <= 8 |- _ => fail | _ => pose proof (cacc_range c) end
  end.

Lemma alias_range tk c : 10 * t_id tk <= alias_of tk c <= 10 * t_id tk + 8.
Proof. unfold alias_of, chain_ok. destruct (t_kind tk); destruct (Z.leb_spec 1 c), (Z.leb_spec c 8); cbn [andb]; lia. Qed.
Lemma rep_range tk r : 10 * t_id tk <= denom_rep tk r <= 10 * t_id tk + 9.
Proof.
  unfold denom_rep, base_of, ibc_of. destruct (r =? 0); [lia|]. destruct (r =? 9); [lia|]. pose proof (alias_range tk r). lia.
Qed.
Ltac den_facts :=
  repeat match goal with
  | |- context [alias_of ?tk ?c] => lazymatch goal with | _ : 10 * t_id tk <= alias_of tk c <= _ |- _ => fail | _ => pose proof (alias_range tk c) end
  end;
  repeat match goal with
  | |- context [denom_rep ?tk ?r] => lazymatch goal with | _ : 10 * t_id tk <= denom_rep tk r <= _ |- _ => fail | _ => pose proof (rep_range tk r) end
  end;
  unfold base_of, ibc_of in *.

Lemma on_chain_ok tk c : on_chain tk c = true -> chain_ok c = true.
Proof. unfold on_chain. intros H. apply andb_true_iff in H as [H _]. assumption. Qed.

(* a valid representation is the base denomination exactly when it is rep 0 (tokens other than FX) *)
Lemma rep_is_base tk r : has_rep tk r = true -> t_kind tk <> KFX -> (10 * t_id tk =? denom_rep tk r) = (r =? 0).
Proof.
  intros Hr Hk. unfold denom_rep, has_rep in *. destruct (Z.eqb_spec r 0); [unfold base_of; apply Z.eqb_refl|].
  destruct (Z.eqb_spec r 9); [unfold ibc_of; apply Z.eqb_neq; lia|].
  apply on_chain_ok in Hr. unfold alias_of. rewrite Hr. unfold chain_ok in Hr. apply andb_true_iff in Hr as [H1 H2].
  apply Z.leb_le in H1, H2. destruct (t_kind tk); [congruence|apply Z.eqb_neq; lia|apply Z.eqb_neq; lia].
Qed.
Lemma has_rep_old_target tk tg : has_rep tk (old_target tk tg) = true.
Proof.
  unfold old_target, has_rep. destruct (Z.eqb_spec tg 0); [reflexivity|]. destruct (on_chain tk tg) eqn:E; [|reflexivity].
  rewrite (proj2 (Z.eqb_neq tg 0)) by assumption.
  destruct (Z.eqb_spec tg 9); [|assumption]. subst. apply on_chain_ok in E. discriminate E.
Qed.
Lemma no_convert_false tk r : no_convert tk r = false -> is_fx tk = false /\ has_rep tk r = true.
Proof.
  unfold no_convert. intros H. apply orb_false_elim in H as [H H2]. apply orb_false_elim in H as [H _].
  apply negb_false_iff in H2. auto.
Qed.
Lemma is_fx_false tk : is_fx tk = false -> t_kind tk <> KFX.
Proof. unfold is_fx. destruct (t_kind tk); congruence. Qed.

(* bring the facts about the representations of the convert-denom programs into the goal *)
Ltac rep_facts tk :=
  repeat match goal with
  | H : no_convert tk ?r = false |- _ => apply no_convert_false in H; destruct H as [? ?]
  end;
  repeat match goal with
  | Hf : is_fx tk = false, Hr : has_rep tk ?r = true |- context [10 * t_id tk =? denom_rep tk ?r] =>
      rewrite (rep_is_base tk r Hr (is_fx_false tk Hf))
  | Hf : is_fx tk = false |- context [10 * t_id tk =? denom_rep tk (old_target tk ?tg)] =>
      rewrite (rep_is_base tk (old_target tk tg) (has_rep_old_target tk tg) (is_fx_false tk Hf))
  end.

(* common shape of a block proof: prune by the token (is it the watched one? then its kind is known), open the program,
   evaluate the coefficients, split the remaining comparisons *)
Ltac c8_unf := idtac.
Ltac c8_blk U HU tk i Hkind :=
  apply dB_pdelta; unfold w0; c8_unf; blk_unfold;
  destruct (Z.eqb_spec (t_id tk) i) as [Eid|Eid];
  [ rewrite ?(Hkind tk) by assumption; split_prog; pd_rw; cbn [coef lin_add lin_scale lin_cell lin_zero cell_eqb];
    rewrite <- ?Eid; rep_facts tk
  | destruct (t_kind tk); split_prog; pd_rw; cbn [coef lin_add lin_scale lin_cell lin_zero cell_eqb] ];
  unfold A_ERC20, A_IBC, A_WFX, A_EVM, A_PRE, A_ESC, FX in *; acc_facts U HU; den_facts; split_eqb; try lia.
Ltac c8_plain U HU :=
  apply dB_pdelta; unfold w0; c8_unf; blk_unfold; split_prog; pd_rw; cbn [coef lin_add lin_scale lin_cell lin_zero cell_eqb];
  unfold A_ERC20, A_IBC, A_WFX, A_EVM, A_PRE, A_ESC, FX in *; acc_facts U HU; split_eqb; try lia.

Ltac c8_intros :=
  constructor; [intros tk c' a x Htk Ha|intros tk c' a x Htk Ha|intros tk a b x Htk Ha Hb|intros tk a b x Htk Ha Hb|
                intros tk a src tg x Htk Ha|intros tk a b src tg x Htk Ha Hb|intros tk c' a x Htk Ha|reflexivity|
                intros tk c' x Htk|intros tk c' a x Htk Ha|intros a x Ha|intros tk a x Htk Ha|intros a b d' x Ha Hb|
                intros i' a b x Ha Hb|intros a x Ha|intros a x Ha|intros tk a x Htk Ha|intros tk a x Htk Ha|intros tk a x Htk Ha|
                intros tk a x Htk Ha|intros tk a x Htk Ha|intros; split; reflexivity|intros; split; reflexivity].

(* ------------------------------------------------------------------------------------------------ *)
(** * module-owned pair: coins escrowed by the erc20 module = ERC-20 totalSupply *)
Section EMOD.
Variables (g : cfg) (U : list Z) (i : Z) (tkI : token).
Hypothesis HU : users U.
Hypothesis Hi : find_tok g i = Some tkI.
Hypothesis Hk : t_kind tkI = KMod.
Hypothesis Hi0 : i <> 0.
Definition lM : lin := lin_add (lin_cell (CB 20 (10 * i))) (lin_scale (-1) (lin_cell (CT i))).
Lemma kindM tk : fromcfg g tk -> t_id tk = i -> t_kind tk = KMod.
Proof. unfold fromcfg. intros H E. rewrite E, Hi in H. injection H as <-. assumption. Qed.

Ltac c8_unf ::= unfold lM.
Lemma blocks_emod : blocks g U lM w0 g0 g0 0 1.
Proof.
  c8_intros.
  - c8_blk U HU tk i kindM.
  - c8_blk U HU tk i kindM.
  - c8_blk U HU tk i kindM.
  - c8_blk U HU tk i kindM.
  - c8_blk U HU tk i kindM.
  - c8_blk U HU tk i kindM.
  - c8_blk U HU tk i kindM.
  - c8_blk U HU tk i kindM.
  - c8_blk U HU tk i kindM.
  - c8_plain U HU.
  - c8_blk U HU tk i kindM.
  - c8_plain U HU.
  - c8_plain U HU.
  - c8_plain U HU.
  - c8_plain U HU.
  - c8_blk U HU tk i kindM.
  - c8_blk U HU tk i kindM.
  - c8_blk U HU tk i kindM.
  - c8_blk U HU tk i kindM.
  - c8_blk U HU tk i kindM.
Qed.
End EMOD.

(* ------------------------------------------------------------------------------------------------ *)
(** * FX: coins held by the WFX contract = WFX totalSupply *)
Section EFX.
Variables (g : cfg) (U : list Z) (tk0 : token).
Hypothesis HU : users U.
Hypothesis H0 : find_tok g 0 = Some tk0.
Hypothesis Hk : t_kind tk0 = KFX.
Definition lF : lin := lin_add (lin_cell (CB 22 0)) (lin_scale (-1) (lin_cell (CT 0))).
Lemma kindF tk : fromcfg g tk -> t_id tk = 0 -> t_kind tk = KFX.
Proof. unfold fromcfg. intros H E. rewrite E, H0 in H. injection H as <-. assumption. Qed.
Lemma no_convert_fx tk src : t_kind tk = KFX -> no_convert tk src = true.
Proof. intros K. unfold no_convert, is_fx. rewrite K. reflexivity. Qed.

Ltac fx_blk tk :=
  apply dB_pdelta; unfold w0, lF; blk_unfold;
  destruct (Z.eqb_spec (t_id tk) 0) as [Eid|Eid];
  [ rewrite ?(kindF tk) by assumption; rewrite ?(no_convert_fx tk) by (apply kindF; assumption)
  | destruct (t_kind tk) ];
  split_prog; pd_rw; cbn [coef lin_add lin_scale lin_cell lin_zero cell_eqb];
  unfold A_ERC20, A_IBC, A_WFX, A_EVM, A_PRE, A_ESC, FX in *; acc_facts U HU; den_facts; split_eqb; try lia.
Ltac c8_unf ::= unfold lF.

Lemma blocks_efx : blocks g U lF w0 g0 g0 0 1.
Proof.
  c8_intros.
  - fx_blk tk.
  - fx_blk tk.
  - fx_blk tk.
  - fx_blk tk.
  - fx_blk tk.
  - fx_blk tk.
  - fx_blk tk.
  - fx_blk tk.
  - fx_blk tk.
  - c8_plain U HU.
  - fx_blk tk.
  - c8_plain U HU.
  - c8_plain U HU.
  - c8_plain U HU.
  - c8_plain U HU.
  - fx_blk tk.
  - fx_blk tk.
  - fx_blk tk.
  - fx_blk tk.
  - fx_blk tk.
Qed.
End EFX.

(* ------------------------------------------------------------------------------------------------ *)
(** * every ERC-20: the balances of the erc20 module and the users add up to totalSupply *)
Section ESUM.
Variables (g : cfg) (U : list Z) (i : Z).
Hypothesis HU : users U.
Definition HE : list Z := 20 :: U.
Definition lS2 : lin := lin_add (lin_sum (fun a => lin_cell (CE i a)) HE) (lin_scale (-1) (lin_cell (CT i))).

Lemma NoDup_HE : NoDup HE.
Proof.
  destruct HU as [Hn Hm]. apply NoDup_cons; [|assumption]. intros Hin. specialize (Hm _ Hin). discriminate Hm.
Qed.
Lemma coefS2_CE i' a : coef lS2 (CE i' a) = ind (memZ a HE) * ind (i' =? i).
Proof.
  unfold lS2. cbn [coef lin_add lin_scale lin_cell cell_eqb]. rewrite lin_sum_coef, Z.mul_0_r, Z.add_0_r.
  rewrite <- (sum_ind_NoDup HE a NoDup_HE). induction HE as [|a0 l IH]; cbn [fold_right]; [reflexivity|].
  rewrite IH. cbn [coef lin_cell cell_eqb]. generalize (fold_right (fun a1 acc => ind (a1 =? a) + acc) 0 l). intros F.
  unfold ind. rewrite (Z.eqb_sym i i'). destruct (i' =? i), (a0 =? a); cbn [andb]; lia.
Qed.
Lemma coefS2_CT i' : coef lS2 (CT i') = - ind (i' =? i).
Proof.
  unfold lS2. cbn [coef lin_add lin_scale lin_cell cell_eqb]. rewrite lin_sum_coef.
  assert (E : fold_right (fun a acc => coef (lin_cell (CE i a)) (CT i') + acc) 0 HE = 0)
    by (induction HE as [|? ? IHH]; cbn [fold_right]; [reflexivity|rewrite IHH; reflexivity]).
  rewrite E. unfold ind. rewrite (Z.eqb_sym i i'). destruct (i' =? i); lia.
Qed.
Lemma coefS2_CB a d : coef lS2 (CB a d) = 0.
Proof.
  unfold lS2. cbn [coef lin_add lin_scale lin_cell cell_eqb]. rewrite lin_sum_coef.
  assert (E : fold_right (fun a0 acc => coef (lin_cell (CE i a0)) (CB a d) + acc) 0 HE = 0)
    by (induction HE as [|? ? IHH]; cbn [fold_right]; [reflexivity|rewrite IHH; reflexivity]). lia.
Qed.
Lemma coefS2_CS d : coef lS2 (CS d) = 0.
Proof.
  unfold lS2. cbn [coef lin_add lin_scale lin_cell cell_eqb]. rewrite lin_sum_coef.
  assert (E : fold_right (fun a0 acc => coef (lin_cell (CE i a0)) (CS d) + acc) 0 HE = 0)
    by (induction HE as [|? ? IHH]; cbn [fold_right]; [reflexivity|rewrite IHH; reflexivity]). lia.
Qed.
Lemma memE_user a : In a U -> memZ a HE = true.
Proof. intros H. apply existsb_exists. exists a. split; [right; assumption|apply Z.eqb_refl]. Qed.

Ltac memE :=
  repeat match goal with
  | H : In ?a U |- context [memZ ?a HE] => rewrite (memE_user a H)
  | |- context [memZ A_ERC20 HE] => change (memZ A_ERC20 HE) with true
  end.
Ltac es_blk := apply dB_pdelta; unfold w0; blk_unfold; try match goal with K : t_kind _ = _ |- _ => rewrite ?K end;
               split_prog; pd_rw; rewrite ?coefS2_CB, ?coefS2_CS, ?coefS2_CE, ?coefS2_CT; memE; cbn [ind]; try lia.

Lemma blocks_esum : blocks g U lS2 w0 g0 g0 0 1.
Proof.
  c8_intros.
  all: try (destruct (t_kind tk) eqn:K).
  all: try solve [es_blk].
Qed.
End ESUM.

(* ------------------------------------------------------------------------------------------------ *)
(** * externally-owned pair: ERC-20 escrowed by the erc20 module = coin supply over base + aliases, net of base coins
      parked in the erc20 module account by the older ConvertDenom rule *)
Section EEXT.
Variables (g : cfg) (U : list Z) (i : Z) (tkI : token).
Hypothesis HU : users U.
Hypothesis Hi : find_tok g i = Some tkI.
Hypothesis Hk : t_kind tkI = KExt.
Hypothesis Hibc : t_ibc tkI = false.
Hypothesis Hi0 : i <> 0.
Definition lX : lin :=
  lin_add (lin_cell (CE i 20))
    (lin_add (lin_scale (-1) (lin_sum (fun r => lin_cell (CS (10 * i + r))) reps)) (lin_cell (CB 20 (10 * i)))).
Lemma tokX tk : fromcfg g tk -> t_id tk = i -> tk = tkI.
Proof. unfold fromcfg. intros H E. rewrite E, Hi in H. injection H as <-. reflexivity. Qed.
Lemma kindX tk : fromcfg g tk -> t_id tk = i -> t_kind tk = KExt.
Proof. intros H E. rewrite (tokX tk H E). assumption. Qed.

Lemma coefX_CS d : coef lX (CS d) = - ind (dtok d =? i).
Proof.
  rewrite dtok_spec. unfold lX, reps, ind, lin_sum. cbn [coef lin_add lin_scale lin_cell lin_zero fold_right cell_eqb].
  destruct (Z.leb_spec (10 * i) d), (Z.leb_spec d (10 * i + 9)); cbn [andb];
    repeat match goal with |- context [?x =? ?y] => destruct (Z.eqb_spec x y) end; lia.
Qed.
Lemma coefX_CB a d : coef lX (CB a d) = ind ((20 =? a) && (10 * i =? d)).
Proof. unfold lX, reps, lin_sum, ind. cbn [coef lin_add lin_scale lin_cell lin_zero fold_right cell_eqb]. destruct ((20 =? a) && (10 * i =? d)); lia. Qed.
Lemma coefX_CE i' a : coef lX (CE i' a) = ind ((i =? i') && (20 =? a)).
Proof. unfold lX, reps, lin_sum, ind. cbn [coef lin_add lin_scale lin_cell lin_zero fold_right cell_eqb]. destruct ((i =? i') && (20 =? a)); lia. Qed.
Lemma coefX_CT i' : coef lX (CT i') = 0.
Proof. unfold lX, reps, lin_sum. cbn [coef lin_add lin_scale lin_cell lin_zero fold_right cell_eqb]. lia. Qed.

Ltac x_blk tk Htk :=
  apply dB_pdelta; unfold w0; blk_unfold;
  destruct (Z.eqb_spec (t_id tk) i) as [Eid|Eid];
  [ rewrite ?(kindX tk Htk Eid); split_prog; pd_rw; rewrite ?coefX_CB, ?coefX_CS, ?coefX_CE, ?coefX_CT;
    rewrite ?dtok_base, ?dtok_alias, ?dtok_ibc, ?dtok_rep; rewrite <- ?Eid; rep_facts tk; rewrite ?Z.eqb_refl
  | destruct (t_kind tk); split_prog; pd_rw; rewrite ?coefX_CB, ?coefX_CS, ?coefX_CE, ?coefX_CT;
    rewrite ?dtok_base, ?dtok_alias, ?dtok_ibc, ?dtok_rep ];
  unfold ind, A_ERC20, A_IBC, A_WFX, A_EVM, A_PRE, A_ESC, FX in *; acc_facts U HU; den_facts; split_eqb; try lia.
Ltac x_plain :=
  apply dB_pdelta; unfold w0; blk_unfold; split_prog; pd_rw; rewrite ?coefX_CB, ?coefX_CS, ?coefX_CE, ?coefX_CT;
  unfold ind, A_ERC20, A_IBC, A_WFX, A_EVM, A_PRE, A_ESC, FX, dtok in *; acc_facts U HU; split_eqb; try lia.
(* the IBC programs of the watched token cannot run: it has no IBC alias *)
Ltac x_ibc tk Htk :=
  destruct (Z.eqb_spec (t_id tk) i) as [Eid|Eid];
  [ intros b0 b1 Hrun; cbn [runB run_act ibc_to_base base_to_ibc] in Hrun; rewrite (tokX tk Htk Eid), Hibc in Hrun; discriminate Hrun
  | apply dB_pdelta; unfold w0; blk_unfold; destruct (t_kind tk); split_prog; pd_rw;
    rewrite ?coefX_CB, ?coefX_CS, ?coefX_CE, ?coefX_CT; rewrite ?dtok_base, ?dtok_alias, ?dtok_ibc, ?dtok_rep;
    unfold ind, A_ERC20, A_IBC, A_WFX, A_EVM, A_PRE, A_ESC, FX in *; acc_facts U HU; den_facts; split_eqb; try lia ].

(* BaseCoinToIBCCoin / the ICS-20 send of the watched token cannot run either (no IBC alias, not FX) *)
Ltac x_ibc2 tk Htk :=
  destruct (Z.eqb_spec (t_id tk) i) as [Eid|Eid];
  [ intros b0 b1 Hrun; unfold base_to_ibc, ibc_send, is_fx in Hrun; rewrite (tokX tk Htk Eid), Hk in Hrun;
    cbn [runB run_act] in Hrun; rewrite Hibc in Hrun; discriminate Hrun
  | apply dB_pdelta; unfold w0; blk_unfold; unfold is_fx; destruct (t_kind tk); split_prog; pd_rw;
    rewrite ?coefX_CB, ?coefX_CS, ?coefX_CE, ?coefX_CT; rewrite ?dtok_base, ?dtok_alias, ?dtok_ibc, ?dtok_rep;
    unfold ind, A_ERC20, A_IBC, A_WFX, A_EVM, A_PRE, A_ESC, FX in *; acc_facts U HU; den_facts; split_eqb; try lia ].

Lemma blocks_eext : blocks g U lX w0 g0 g0 0 1.
Proof.
  c8_intros.
  - x_blk tk Htk.
  - x_blk tk Htk.
  - x_blk tk Htk.
  - x_blk tk Htk.
  - x_blk tk Htk.
  - x_blk tk Htk.
  - x_blk tk Htk.
  - x_blk tk Htk.
  - x_blk tk Htk.
  - x_plain.
  - x_blk tk Htk.
  - x_plain.
  - x_plain.
  - x_plain.
  - x_plain.
  - x_ibc tk Htk.
  - x_ibc tk Htk.
  - x_ibc2 tk Htk.
  - x_ibc2 tk Htk.
  - x_blk tk Htk.
Qed.
End EEXT.

(* ------------------------------------------------------------------------------------------------ *)
(** * The pair-books theorems, for all histories *)

Definition escrow_mod (i : Z) (s : state) : Z := get2 (20, 10 * i) (bank (sb s)).      (* coins held by the erc20 module *)
Definition escrow_wfx (s : state) : Z := get2 (22, 0) (bank (sb s)).                    (* FX held by the WFX contract *)
Definition erc_total (i : Z) (s : state) : Z := get1 i (etot (sb s)).
Definition erc_escrow (i : Z) (s : state) : Z := get2 (i, 20) (ebal (sb s)).            (* ERC-20 held by the erc20 module *)
Definition coin_supply (i : Z) (s : state) : Z :=                                       (* over base + every alias *)
  fold_right (fun r acc => get1 (10 * i + r) (supply (sb s)) + acc) 0 reps.
Definition erc_sum (U : list Z) (i : Z) (s : state) : Z :=
  fold_right (fun a acc => get2 (i, a) (ebal (sb s)) + acc) 0 (20 :: U).

Theorem module_owned_backed U g i tkI s0 ops :
  users U -> find_tok g i = Some tkI -> t_kind tkI = KMod -> i <> 0 -> recs_wf U (sr s0) -> Forall (op_ok U) ops ->
  let s := steps g s0 ops in
  escrow_mod i s - erc_total i s = escrow_mod i s0 - erc_total i s0.
Proof.
  intros HU Hi Hk Hi0 W Hops s.
  destruct (steps_keeps g U (lM i) w0 g0 g0 0 1 (blocks_emod g U i tkI HU Hi Hk Hi0) ops Hops s0 W) as [E _].
  fold s in E. unfold V in E. rewrite !infl_w0 in E. unfold lM, g0 in E. cbn [L lin_add lin_scale lin_cell cget] in E.
  unfold escrow_mod, erc_total. lia.
Qed.

Theorem fx_backed U g tk0 s0 ops :
  users U -> find_tok g 0 = Some tk0 -> t_kind tk0 = KFX -> recs_wf U (sr s0) -> Forall (op_ok U) ops ->
  let s := steps g s0 ops in
  escrow_wfx s - erc_total 0 s = escrow_wfx s0 - erc_total 0 s0.
Proof.
  intros HU H0 Hk W Hops s.
  destruct (steps_keeps g U lF w0 g0 g0 0 1 (blocks_efx g U tk0 HU H0 Hk) ops Hops s0 W) as [E _].
  fold s in E. unfold V in E. rewrite !infl_w0 in E. unfold lF, g0 in E. cbn [L lin_add lin_scale lin_cell cget] in E.
  unfold escrow_wfx, erc_total. lia.
Qed.

Theorem external_backed U g i tkI s0 ops :
  users U -> find_tok g i = Some tkI -> t_kind tkI = KExt -> t_ibc tkI = false -> i <> 0 ->
  recs_wf U (sr s0) -> Forall (op_ok U) ops ->
  let s := steps g s0 ops in
  erc_escrow i s - (coin_supply i s - escrow_mod i s) = erc_escrow i s0 - (coin_supply i s0 - escrow_mod i s0).
Proof.
  intros HU Hi Hk Hb Hi0 W Hops s.
  destruct (steps_keeps g U (lX i) w0 g0 g0 0 1 (blocks_eext g U i tkI HU Hi Hk Hb Hi0) ops Hops s0 W) as [E _].
  fold s in E. unfold V in E. rewrite !infl_w0 in E.
  assert (HL : forall st, lX i (sb st) = erc_escrow i st - coin_supply i st + escrow_mod i st).
  { intros st. unfold lX, erc_escrow, coin_supply, escrow_mod. cbn [L lin_add lin_scale lin_cell cget]. rewrite lin_sum_L.
    cbn [L lin_cell cget]. set (X := fold_right _ _ _). lia. }
  rewrite !HL in E. unfold g0 in E. lia.
Qed.

Theorem sum_balances U g i s0 ops :
  users U -> recs_wf U (sr s0) -> Forall (op_ok U) ops ->
  let s := steps g s0 ops in
  erc_sum U i s - erc_total i s = erc_sum U i s0 - erc_total i s0.
Proof.
  intros HU W Hops s.
  destruct (steps_keeps g U (lS2 U i) w0 g0 g0 0 1 (blocks_esum g U i HU) ops Hops s0 W) as [E _].
  fold s in E. unfold V in E. rewrite !infl_w0 in E.
  assert (HL : forall st, lS2 U i (sb st) = erc_sum U i st - erc_total i st).
  { intros st. unfold lS2, erc_sum, erc_total, HE. cbn [L lin_add lin_scale lin_cell cget]. rewrite lin_sum_L.
    cbn [L lin_cell cget]. set (X := fold_right _ _ _). lia. }
  rewrite !HL in E. unfold g0 in E. lia.
Qed.

(* ------------------------------------------------------------------------------------------------ *)
(** * A conversion moves exactly the amount, from the sender to the receiver, and nothing else *)

Lemma cell_delta c0 p b b' : runB p b = Some b' -> cget c0 b' = cget c0 b + pdelta (coef (lin_cell c0)) p.
Proof. intros H. exact (runB_lin (lin_cell c0) p b b' H). Qed.

Ltac cx_fin :=
  pd_rw; cbn [coef lin_cell cell_eqb]; unfold A_ERC20, A_WFX, is_module, base_of in *; split_eqb; split_leb; try lia; try discriminate.

Theorem convert_coin_exact tk a r x b b' :
  runB (convert_coin tk a r x) b = Some b' -> is_module a = false -> is_module r = false ->
  cget (CB a (base_of tk)) b' = cget (CB a (base_of tk)) b - x /\
  cget (CE (t_id tk) r) b' = cget (CE (t_id tk) r) b + x /\
  (forall u d, is_module u = false -> (u =? a) && (d =? base_of tk) = false -> cget (CB u d) b' = cget (CB u d) b) /\
  (forall u j, is_module u = false -> (u =? r) && (j =? t_id tk) = false -> cget (CE j u) b' = cget (CE j u) b).
Proof.
  intros H Ha Hr. repeat split; [| |intros u d Hu Hne|intros u j Hu Hne]; rewrite (cell_delta _ _ _ _ H);
    unfold convert_coin; destruct (t_kind tk); cx_fin.
Qed.

Theorem convert_erc20_exact tk a r x b b' :
  runB (convert_erc20 tk a r x) b = Some b' -> is_module a = false -> is_module r = false ->
  cget (CE (t_id tk) a) b' = cget (CE (t_id tk) a) b - x /\
  cget (CB r (base_of tk)) b' = cget (CB r (base_of tk)) b + x /\
  (forall u j, is_module u = false -> (u =? a) && (j =? t_id tk) = false -> cget (CE j u) b' = cget (CE j u) b) /\
  (forall u d, is_module u = false -> (u =? r) && (d =? base_of tk) = false -> cget (CB u d) b' = cget (CB u d) b).
Proof.
  intros H Ha Hr. repeat split; [| |intros u j Hu Hne|intros u d Hu Hne]; rewrite (cell_delta _ _ _ _ H);
    unfold convert_erc20; destruct (t_kind tk); cx_fin.
Qed.
