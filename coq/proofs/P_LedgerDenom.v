(* P_LedgerDenom.v — MsgConvertDenom moves exactly the amount. *)
From Coq Require Import ZArith List Bool Lia.
From FxV Require Import model.M_Ledger proofs.P_Ledger proofs.P_LedgerC04 proofs.P_LedgerC08.
Import ListNotations.
Open Scope Z_scope.

(* ---------------------------------------------------------------------------------------------------------- *)
(** * MsgConvertDenom: the sender gives x of the source denomination, the receiver gets x of the target denomination *)

(* the denominations of a token that is not the native coin are told apart by their representation *)
Lemma denom_rep_inj tk p q : is_fx tk = false -> has_rep tk p = true -> has_rep tk q = true -> p <> q ->
  denom_rep tk p <> denom_rep tk q.
Proof.
  unfold is_fx, has_rep, denom_rep, on_chain, alias_of, base_of, ibc_of, chain_ok. intros Hf Hp Hq Hne.
  destruct (t_kind tk); [discriminate| |];
    destruct (Z.eqb_spec p 0), (Z.eqb_spec q 0), (Z.eqb_spec p 9), (Z.eqb_spec q 9); try lia;
    repeat match goal with H : (_ && _) = true |- _ => apply andb_true_iff in H as [? ?] end;
    repeat match goal with H : (_ <=? _) = true |- _ => apply Z.leb_le in H end;
    repeat match goal with |- context [if ?b then _ else _] => destruct b eqn:? end;
    repeat match goal with H : (_ && _) = false |- _ => apply andb_false_iff in H as [H|H]; apply Z.leb_gt in H end; lia.
Qed.

(* what is in circulation of a denomination: its supply minus what the erc20 module account holds of it *)
Definition circulating (d : Z) (b : bals) : Z := cget (CS d) b - cget (CB A_ERC20 d) b.

Theorem convert_denom_exact tk a r src tg x b b' :
  runB (msg_convert_denom tk a r src tg x) b = Some b' -> is_module a = false -> is_module r = false ->
  has_rep tk src = true -> converted_rep tk src tg <> src ->
  let S := denom_rep tk src in let T := denom_rep tk (converted_rep tk src tg) in
  S <> T /\
  cget (CB a S) b' = cget (CB a S) b - x /\
  cget (CB r T) b' = cget (CB r T) b + x /\
  (forall u d, u <> A_ERC20 -> (u =? a) && (d =? S) = false -> (u =? r) && (d =? T) = false -> cget (CB u d) b' = cget (CB u d) b) /\
  (forall j u, cget (CE j u) b' = cget (CE j u) b) /\ (forall j, cget (CT j) b' = cget (CT j) b) /\
  circulating S b' = circulating S b - x /\ circulating T b' = circulating T b + x /\
  (forall d, d <> S -> d <> T -> cget (CS d) b' = cget (CS d) b /\ cget (CB A_ERC20 d) b' = cget (CB A_ERC20 d) b).
Proof.
  intros H Ha Hr Hs Hc S T.
  assert (Hnc : no_convert tk src = false).
  { unfold converted_rep in Hc. destruct (no_convert tk src); [contradiction|reflexivity]. }
  assert (Hfx : is_fx tk = false).
  { unfold no_convert in Hnc. destruct (is_fx tk); [discriminate|reflexivity]. }
  assert (Hcr : converted_rep tk src tg = old_target tk tg) by (unfold converted_rep; rewrite Hnc; reflexivity).
  assert (Ht : has_rep tk (old_target tk tg) = true).
  { unfold old_target, has_rep. destruct (Z.eqb_spec tg 0); [reflexivity|]. destruct (on_chain tk tg) eqn:E; [|reflexivity].
    destruct (Z.eqb_spec tg 9) as [->|]; [unfold on_chain, chain_ok in E; cbn in E; discriminate|].
    rewrite (proj2 (Z.eqb_neq tg 0) n). exact E. }
  assert (HST : S <> T).
  { unfold S, T. rewrite Hcr. apply denom_rep_inj; try assumption. rewrite <- Hcr. auto. }
  assert (Hab : a <> A_ERC20 /\ r <> A_ERC20).
  { unfold is_module, A_ERC20 in *. split; intros ->; discriminate. }
  destruct Hab as [HaE HrE].
  assert (Hprog : msg_convert_denom tk a r src tg x =
                  Chk (has_rep tk src) ::
                  (send a A_ERC20 S x ++
                   (match t_kind tk with
                    | KMod => if src =? 0 then burn A_ERC20 (base_of tk) x else if old_target tk tg =? 0 then mint A_ERC20 (base_of tk) x else []
                    | _ => if src =? 0 then mint A_ERC20 T x else if old_target tk tg =? 0 then burn A_ERC20 S x else [] end) ++
                   send A_ERC20 a T x) ++
                  Chk (negb (converted_rep tk src tg =? src)) ::
                  (if a =? r then [] else Chk (negb (blocked r)) :: send a A_ERC20 T x ++ send A_ERC20 r T x)).
  { unfold msg_convert_denom, convert_denom_to_target. rewrite Hnc. cbv zeta.
    rewrite <- Hcr. rewrite (proj2 (Z.eqb_neq src (converted_rep tk src tg))) by auto. reflexivity. }
  assert (HS0 : src = 0 -> S = base_of tk) by (intros ->; reflexivity).
  assert (HT0 : old_target tk tg = 0 -> T = base_of tk) by (intros E; unfold T; rewrite Hcr, E; reflexivity).
  rewrite Hprog in H. clear Hprog.
  split; [exact HST|]. unfold circulating.
  repeat split; try (intros u d Hu H1 H2); try (intros j u); try (intros j); try (intros d Hd1 Hd2);
    rewrite ?(cell_delta _ _ _ _ H); pd_rw;
    destruct (t_kind tk); destruct (Z.eqb_spec src 0) as [E0|E0]; destruct (Z.eqb_spec (old_target tk tg) 0) as [E1|E1];
    destruct (Z.eqb_spec a r) as [Ear|Ear]; try (rewrite (HS0 E0) in * ); try (rewrite (HT0 E1) in * );
    pd_rw; cbn [coef lin_cell cell_eqb]; split_eqb; try lia; try congruence.
Qed.

