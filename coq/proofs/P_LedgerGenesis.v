(* P_LedgerGenesis.v — the pair books from genesis, with registration as an operation. *)
From Coq Require Import ZArith List Bool Lia.
From FxV Require Import model.M_Ledger proofs.P_Ledger proofs.P_LedgerC04 proofs.P_LedgerC08.
Import ListNotations.
Open Scope Z_scope.

(* ---------------------------------------------------------------------------------------------------------- *)
(** * The pair books from genesis, with registration as an operation (model/M_LedgerGenesis.v) *)
From FxV Require Import model.M_LedgerGenesis.

(* nothing of any pair exists yet: no ERC-20 of a module-owned pair or of the native coin has been issued and nothing is
   escrowed for it; of an externally-owned token's (pre-existing) ERC-20 the erc20 module holds nothing and no coin has been
   minted for it; every ERC-20's total supply is the sum of its holders' balances *)
Definition at_genesis (U : list Z) (g : cfg) (s0 : state) : Prop :=
  recs_wf U (sr s0) /\
  (forall i, erc_sum U i s0 = erc_total i s0) /\
  (forall i tk, find_tok g i = Some tk ->
     match t_kind tk with
     | KFX => escrow_wfx s0 = 0 /\ erc_total 0 s0 = 0
     | KMod => escrow_mod i s0 = 0 /\ erc_total i s0 = 0
     | KExt => erc_escrow i s0 = 0 /\ coin_supply i s0 = 0 /\ escrow_mod i s0 = 0
     end).

Definition gop_ok (U : list Z) (o : gop) : Prop := match o with GRegister _ => True | GOp o => op_ok U o end.

(* the ledger state of the chain is the ledger state after the operations that were let through *)
Lemma gsteps_as_steps U g : forall gops gs, Forall (gop_ok U) gops ->
  exists ops, Forall (op_ok U) ops /\ g_st (gsteps g gs gops) = steps g (g_st gs) ops.
Proof.
  induction gops as [|o gops IH]; intros gs H; cbn [gsteps fold_left].
  - exists []. split; [constructor|reflexivity].
  - inversion H as [|o' l Ho Hl]; subst. fold (gsteps g (fst (gstep g gs o)) gops).
    destruct o as [t|o]; cbn [gstep gop_ok] in *.
    + destruct (find_tok g t); [destruct (memZ t (g_reg gs))|]; cbn [fst];
        match goal with |- context [gsteps g ?gs' gops] => destruct (IH gs' Hl) as [ops [Hops E]] end;
        exists ops; (split; [assumption|exact E]).
    + destruct (forallb (fun t => memZ t (g_reg gs)) (op_tokens o)); cbn [fst].
      * match goal with |- context [gsteps g ?gs' gops] => destruct (IH gs' Hl) as [ops [Hops E]] end.
        exists (o :: ops). split; [constructor; assumption|]. rewrite E. reflexivity.
      * destruct (IH gs Hl) as [ops [Hops E]]. exists ops. split; [assumption|exact E].
Qed.

Theorem books_from_genesis U g s0 gops :
  users U -> at_genesis U g s0 -> Forall (gop_ok U) gops ->
  let s := g_st (gsteps g (genesis s0) gops) in
  (forall i, erc_sum U i s = erc_total i s) /\
  (forall i tk, find_tok g i = Some tk -> t_kind tk = KMod -> i <> 0 -> escrow_mod i s = erc_total i s) /\
  (forall tk, find_tok g 0 = Some tk -> t_kind tk = KFX -> escrow_wfx s = erc_total 0 s) /\
  (forall i tk, find_tok g i = Some tk -> t_kind tk = KExt -> t_ibc tk = false -> i <> 0 ->
     erc_escrow i s = coin_supply i s - escrow_mod i s).
Proof.
  intros HU [W [Hsum Hg]] Hops. destruct (gsteps_as_steps U g gops (genesis s0) Hops) as [ops [Ho E]].
  cbv zeta. rewrite E. cbn [genesis g_st]. repeat split.
  - intros i. pose proof (sum_balances U g i s0 ops HU W Ho) as S. cbv zeta in S. specialize (Hsum i). lia.
  - intros i tk Hi Hk Hi0. pose proof (module_owned_backed U g i tk s0 ops HU Hi Hk Hi0 W Ho) as S. cbv zeta in S.
    specialize (Hg i tk Hi). rewrite Hk in Hg. lia.
  - intros tk Hi Hk. pose proof (fx_backed U g tk s0 ops HU Hi Hk W Ho) as S. cbv zeta in S.
    specialize (Hg 0 tk Hi). rewrite Hk in Hg. lia.
  - intros i tk Hi Hk Hb Hi0. pose proof (external_backed U g i tk s0 ops HU Hi Hk Hb Hi0 W Ho) as S. cbv zeta in S.
    specialize (Hg i tk Hi). rewrite Hk in Hg. lia.
Qed.

(* before its registration a token cannot be named: the operation is refused and nothing changes *)
Theorem unregistered_refused g gs o t :
  In t (op_tokens o) -> memZ t (g_reg gs) = false -> gstep g gs (GOp o) = (gs, false).
Proof.
  intros Hin Hm. cbn [gstep]. destruct (forallb (fun t0 => memZ t0 (g_reg gs)) (op_tokens o)) eqn:E; [|reflexivity].
  rewrite forallb_forall in E. rewrite (E t Hin) in Hm. discriminate.
Qed.
(* registration happens once, for a token of the configuration, and touches no balance *)
Theorem register_spec g gs t :
  g_st (fst (gstep g gs (GRegister t))) = g_st gs /\
  (snd (gstep g gs (GRegister t)) = true <-> (find_tok g t <> None /\ memZ t (g_reg gs) = false)) /\
  (snd (gstep g gs (GRegister t)) = true -> g_reg (fst (gstep g gs (GRegister t))) = t :: g_reg gs).
Proof.
  cbn [gstep]. destruct (find_tok g t) as [tk|]; [destruct (memZ t (g_reg gs))|]; cbn [fst snd g_st g_reg];
    repeat split; try reflexivity; try discriminate; try (intros [? ?]; congruence); intros; congruence.
Qed.

(* the conditions are satisfiable and the statement is not vacuous: users hold FX and an externally-owned ERC-20 at genesis;
   the module-owned pair is registered, bridged in and converted; the externally-owned pair is registered and converted both
   ways; conversions of the native coin; an operation on the not yet registered token is refused *)
Definition gx_s0 : state :=
  {| sb := {| bank := [((100, 0), 5000); ((1, 0), 1000000)]; supply := [(0, 1005000)];
              ebal := [((2, 100), 800); ((2, 101), 200)]; etot := [(2, 1000)]; disabled := [] |};
     sr := {| pool := []; batches := []; calls := []; txid := []; batchid := []; callid := []; height := [(1, 1000)];
              rel := []; frommsg := [] |};
     sg := {| dept := []; exet := []; depc := []; exec := [] |} |}.
Definition gx_hist : list gop :=
  [ GOp (OSendToFx 1 1 100 1000 0); GRegister 1; GRegister 1; GOp (OSendToFx 1 1 100 1000 0); GOp (OConvertCoin 1 100 101 400);
    GOp (OConvertERC20 2 100 100 300); GRegister 2; GOp (OConvertERC20 2 100 100 300); GOp (OConvertCoin 2 100 101 100);
    GOp (OConvertCoin 0 100 100 700); GOp (OConvertERC20 1 101 101 150) ].
Fixpoint gaccepted (g : cfg) (s : gstate) (l : list gop) : list bool :=
  match l with [] => [] | o :: r => snd (gstep g s o) :: gaccepted g (fst (gstep g s o)) r end.
Example genesis_nonvacuous :
  users ex_U /\ at_genesis ex_U ex_cfg gx_s0 /\ Forall (gop_ok ex_U) gx_hist /\
  gaccepted ex_cfg (genesis gx_s0) gx_hist = [false; true; false; true; true; false; true; true; true; true; true] /\
  let s := g_st (gsteps ex_cfg (genesis gx_s0) gx_hist) in
  (escrow_mod 1 s, erc_total 1 s) = (250, 250) /\ (escrow_wfx s, erc_total 0 s) = (700, 700) /\
  (erc_escrow 2 s, coin_supply 2 s, escrow_mod 2 s) = (200, 200, 0) /\ (erc_sum ex_U 2 s, erc_total 2 s) = (1000, 1000).
Proof.
  split; [exact (proj1 ex_wf)|]. split.
  - split; [split; intros b []|]. split.
    + intros i. unfold erc_sum, erc_total, ex_U, gx_s0. cbn [sb ebal etot fold_right get2 get1 key_eqb fst snd].
      unfold key_eqb. cbn [fst snd]. destruct (Z.eqb_spec i 2) as [->|]; cbn; reflexivity.
    + intros i tk Hi. unfold ex_cfg in Hi. cbn [find_tok t_id] in Hi.
      repeat match type of Hi with (if ?b then _ else _) = _ => destruct b eqn:? end; try discriminate;
        injection Hi as <-; cbn [t_kind];
        repeat match goal with H : (_ =? _) = true |- _ => apply Z.eqb_eq in H; subst end; vm_compute; auto.
  - split; [unfold gx_hist, ex_U; repeat (apply Forall_cons; [cbn [gop_ok op_ok]; try exact I; repeat split; cbn; tauto|]); apply Forall_nil|].
    vm_compute. repeat split.
Qed.
