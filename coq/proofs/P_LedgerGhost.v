(* P_LedgerGhost.v — WHEN the ghost counters of M_Ledger move.
   The conservation / supply theorems of P_LedgerC04 are stated with the counters dept / exet / depc / exec that the model's
   own steps maintain.  Here: every accepted step moves them by exactly the EVENTS of that step — the deposits the executed
   inbound claim carries and the withdrawals the observed / handed-over outbound records carry — read off the operation (and,
   for an executed batch / a successful bridge-call result, off the stored record the operation names), and a refused step
   moves nothing.  Consequently the counters are sums over the operation list and conservation can be read without them. *)
From Coq Require Import ZArith List Bool Lia.
From FxV Require Import model.M_Ledger proofs.P_Ledger proofs.P_LedgerC04.
Import ListNotations.
Open Scope Z_scope.

(* an event: (token, chain, amount); chain 9 = the IBC channel *)
Definition ev := (Z * Z * Z)%type.
Definition ev_tok (t : Z) (l : list ev) : Z := sumZ (map (fun e => if fst (fst e) =? t then snd e else 0) l).
Definition ev_on (t c : Z) (l : list ev) : Z :=
  sumZ (map (fun e => if (fst (fst e) =? t) && (snd (fst e) =? c) then snd e else 0) l).
Definition evs_of (c : Z) (toks : list (Z * Z)) : list ev := map (fun p => (fst p, c, snd p)) toks.

(* deposits: what an executed inbound event credits *)
Definition dep_events (o : op) : list ev :=
  match o with
  | OSendToFx c t _ x _ => [(t, c, x)]                       (* executed MsgSendToFxClaim: its amount *)
  | OBridgeCallIn c _ _ _ toks _ _ _ => evs_of c toks          (* executed MsgBridgeCallClaim: its token list *)
  | OIbcMint t _ x => [(t, 9, x)]                            (* inbound IBC voucher *)
  | OIbcRecv t _ x => [(t, 9, x)]                            (* inbound ICS-20 packet (native coin coming back) *)
  | _ => []
  end.
(* withdrawals: what leaves fxcore for good in this step *)
Definition exe_events (r : recs) (o : op) : list ev :=
  match o with
  | OSendToFx _ t _ x tg => if tg =? 2 then [(t, 9, x)] else []          (* deposit forwarded over IBC at once *)
  | OPreCrossChainIbc t _ amt _ => [(t, 9, amt)]                        (* crossChain towards an IBC channel *)
  | OBatchExecuted c _ t n =>                                           (* observed MsgSendToExternalClaim: the batch's total *)
      match find_batch c t n (batches r) with Some b => [(t, c, total_of (b_txs b))] | None => [] end
  | OBridgeCallResult c n true =>                                       (* successful result: the call's token list *)
      match find_call c n (calls r) with Some b => evs_of c (c_toks b) | None => [] end
  | _ => []
  end.

Lemma ev_tok_app t a b : ev_tok t (a ++ b) = ev_tok t a + ev_tok t b.
Proof. unfold ev_tok. rewrite map_app. apply sumZ_app. Qed.
Lemma ev_on_app t c a b : ev_on t c (a ++ b) = ev_on t c a + ev_on t c b.
Proof. unfold ev_on. rewrite map_app. apply sumZ_app. Qed.

(* the four counters of (t, c) moved from s to s' by the deposit events d and the withdrawal events e *)
Definition GD (t c : Z) (s s' : state) (d e : list ev) : Prop :=
  get1 t (dept (sg s')) = get1 t (dept (sg s)) + ev_tok t d /\
  get1 t (exet (sg s')) = get1 t (exet (sg s)) + ev_tok t e /\
  get2 (t, c) (depc (sg s')) = get2 (t, c) (depc (sg s)) + ev_on t c d /\
  get2 (t, c) (exec (sg s')) = get2 (t, c) (exec (sg s)) + ev_on t c e.

Lemma GD_same t c s s' : sg s' = sg s -> GD t c s s' [] [].
Proof. intros E. unfold GD. rewrite E. unfold ev_tok, ev_on. cbn. repeat split; lia. Qed.
Lemma GD_trans t c s s1 s2 d1 e1 d2 e2 : GD t c s s1 d1 e1 -> GD t c s1 s2 d2 e2 -> GD t c s s2 (d1 ++ d2) (e1 ++ e2).
Proof.
  intros [A1 [A2 [A3 A4]]] [B1 [B2 [B3 B4]]]. unfold GD. rewrite !ev_tok_app, !ev_on_app. repeat split; lia.
Qed.

Lemma GD_dep_add t c i c' x s s' : dep_add i c' x s = Some s' -> GD t c s s' [(i, c', x)] [].
Proof.
  intros H. unfold dep_add, updG in H. injection H as <-. unfold GD, ev_tok, ev_on. cbn [sg dept exet depc exec map sumZ fold_right fst snd].
  rewrite get1_set1, get2_set2. unfold key_eqb. cbn [fst snd]. rewrite (Z.eqb_sym t i), (Z.eqb_sym c c').
  destruct (Z.eqb_spec i t) as [->|]; cbn [andb]; [destruct (Z.eqb_spec c' c) as [->|]|]; repeat split; lia.
Qed.
Lemma GD_exe_add t c i c' x s s' : exe_add i c' x s = Some s' -> GD t c s s' [] [(i, c', x)].
Proof.
  intros H. unfold exe_add, updG in H. injection H as <-. unfold GD, ev_tok, ev_on. cbn [sg dept exet depc exec map sumZ fold_right fst snd].
  rewrite get1_set1, get2_set2. unfold key_eqb. cbn [fst snd]. rewrite (Z.eqb_sym t i), (Z.eqb_sym c c').
  destruct (Z.eqb_spec i t) as [->|]; cbn [andb]; [destruct (Z.eqb_spec c' c) as [->|]|]; repeat split; lia.
Qed.
Lemma GD_each_dep t c c' toks : forall s s', each_dep c' toks s = Some s' -> GD t c s s' (evs_of c' toks) [].
Proof.
  induction toks as [|[i x] toks IH]; cbn [each_dep]; intros s s' H.
  - injection H as <-. apply GD_same. reflexivity.
  - apply bind_inv in H as [s1 [E H]]. apply (GD_trans t c s s1 s' [(i, c', x)] [] _ []); [apply GD_dep_add; exact E|apply IH; exact H].
Qed.
Lemma GD_each_exe t c c' toks : forall s s', each_exe c' toks s = Some s' -> GD t c s s' [] (evs_of c' toks).
Proof.
  induction toks as [|[i x] toks IH]; cbn [each_exe]; intros s s' H.
  - injection H as <-. apply GD_same. reflexivity.
  - apply bind_inv in H as [s1 [E H]]. apply (GD_trans t c s s1 s' [] [(i, c', x)] [] _); [apply GD_exe_add; exact E|apply IH; exact H].
Qed.

(* ---- computations that do not touch the ghost ---- *)
Definition gk (m : M) : Prop := forall s s', m s = Some s' -> sg s' = sg s.
Lemma gk_bind m f : gk m -> gk f -> gk (m ;; f).
Proof. intros Hm Hf s s' H. apply bind_inv in H as [s1 [E H]]. rewrite (Hf _ _ H). apply Hm. exact E. Qed.
Lemma gk_ret : gk ret. Proof. intros s s' [= <-]. reflexivity. Qed.
Lemma gk_fail : gk fail. Proof. intros s s' H. discriminate H. Qed.
Lemma gk_guard b : gk (guard b). Proof. intros s s' H. apply guard_inv in H as [_ ->]. reflexivity. Qed.
Lemma gk_doB p : gk (doB p). Proof. intros s s' H. apply doB_inv in H as [b [_ ->]]. reflexivity. Qed.
Lemma gk_updR f : gk (updR f). Proof. intros s s' [= <-]. reflexivity. Qed.
Lemma gk_if (b : bool) m1 m2 : gk m1 -> gk m2 -> gk (if b then m1 else m2).
Proof. destruct b; auto. Qed.
Lemma gk_with_tok g i f : (forall tk, gk (f tk)) -> gk (with_tok g i f).
Proof. intros H. unfold with_tok. destruct (find_tok g i); [apply H|apply gk_fail]. Qed.

Ltac gk_auto := repeat first [apply gk_bind | apply gk_ret | apply gk_guard | apply gk_doB | apply gk_updR | apply gk_fail | apply gk_if].

Lemma gk_add_to_outgoing_pool tk c a amt fee : gk (add_to_outgoing_pool tk c a amt fee).
Proof. intros s s' H. unfold add_to_outgoing_pool in H. revert H. apply (gk_bind _ _ (gk_doB _) (gk_updR _)). Qed.
Lemma gk_cancel_send g c a id : gk (cancel_send g c a id).
Proof.
  intros s s' H. unfold cancel_send in H. destruct (find_ptx c id (pool (sr s))) as [p|]; [|discriminate].
  destruct (find_tok g (p_tok p)) as [tk|]; [|discriminate]. revert H.
  match goal with |- ?m s = Some s' -> _ => assert (K : gk m) by gk_auto; apply K end.
Qed.
Lemma gk_add_bridge_fee tk c a id x : gk (add_bridge_fee tk c a id x).
Proof.
  intros s s' H. unfold add_bridge_fee in H. destruct (find_ptx c id (pool (sr s))) as [p|]; [|discriminate]. revert H.
  match goal with |- ?m s = Some s' -> _ => assert (K : gk m) by gk_auto; apply K end.
Qed.
Lemma gk_request_batch tk c to : gk (request_batch tk c to).
Proof.
  intros s s' H. unfold request_batch in H. cbv zeta in H. revert H.
  match goal with |- ?m s = Some s' -> _ => assert (K : gk m) by gk_auto; apply K end.
Qed.
Lemma gk_cleanup_batches c : gk (cleanup_batches c).
Proof. intros s s' H. unfold cleanup_batches in H. revert H. apply gk_updR. Qed.
Lemma gk_bridge_call_refund g b : gk (bridge_call_refund g b).
Proof. intros s s' H. unfold bridge_call_refund in H. revert H. apply gk_doB. Qed.
Lemma gk_each_refund g l : gk (each_refund g l).
Proof. induction l as [|b l IH]; cbn [each_refund]; [apply gk_ret|apply gk_bind; [apply gk_bridge_call_refund|exact IH]]. Qed.
Lemma gk_cleanup_calls g c h : gk (cleanup_calls g c h).
Proof.
  intros s s' H. unfold cleanup_calls in H. destruct (timed_out c h (calls (sr s))) as [gone rest]. revert H.
  apply gk_bind; [apply gk_each_refund|apply gk_updR].
Qed.
Lemma gk_add_outgoing_bridge_call g c a rf toks to : gk (add_outgoing_bridge_call g c a rf toks to).
Proof.
  intros s s' H. unfold add_outgoing_bridge_call in H. revert H.
  match goal with |- ?m s = Some s' -> _ => assert (K : gk m) by gk_auto; apply K end.
Qed.
Lemma gk_del_call c n : gk (del_call c n). Proof. apply gk_updR. Qed.
Lemma gk_toggle i : gk (toggle i). Proof. intros s s' [= <-]. reflexivity. Qed.
Lemma gk_pre_cross_chain tk c a amt fee nat : gk (pre_cross_chain tk c a amt fee nat).
Proof.
  unfold pre_cross_chain. apply gk_bind; [apply gk_guard|]. apply gk_bind; [destruct nat; gk_auto|].
  apply gk_bind; [apply gk_add_to_outgoing_pool|destruct nat; gk_auto].
Qed.
Lemma gk_pre_bridge_call g c a rf v toks to : gk (pre_bridge_call g c a rf v toks to).
Proof.
  unfold pre_bridge_call. apply gk_bind; [destruct (0 <? v); gk_auto|]. apply gk_bind; [apply gk_doB|apply gk_add_outgoing_bridge_call].
Qed.
Lemma gk_pre_increase_fee tk c a id x nat : gk (pre_increase_fee tk c a id x nat).
Proof.
  unfold pre_increase_fee. apply gk_bind; [destruct nat; gk_auto|]. apply gk_bind; [apply gk_doB|].
  apply gk_bind; [apply gk_guard|apply gk_add_bridge_fee].
Qed.

(* the clean-ups after an observed claim leave the ghost alone, and setting the height leaves the stored records alone *)
Lemma observe_inv g c h m s s' : observe g c h m s = Some s' ->
  exists s1 s2, s1 = {| sb := sb s; sr := set_height (set1 c h (height (sr s))) (sr s); sg := sg s |} /\
                m s1 = Some s2 /\ sg s' = sg s2.
Proof.
  intros H. unfold observe in H. apply bind_inv in H as [s1 [E1 H]]. apply bind_inv in H as [s2 [E2 H]].
  apply bind_inv in H as [s3 [E3 H]]. unfold updR in E1. injection E1 as <-.
  eexists; eexists. split; [reflexivity|]. split; [exact E2|].
  rewrite (gk_cleanup_calls _ _ _ _ _ H). apply (gk_cleanup_batches _ _ _ E3).
Qed.

(* ---- the counters after one accepted operation ---- *)
Lemma with_tok_inv g i f s s' : with_tok g i f s = Some s' -> exists tk, find_tok g i = Some tk /\ t_id tk = i /\ f tk s = Some s'.
Proof.
  unfold with_tok. destruct (find_tok g i) as [tk|] eqn:E; [|discriminate]. intros H. exists tk. split; [reflexivity|].
  split; [eapply find_tok_id; exact E|exact H].
Qed.

Lemma run_ghost g t c o s s' : run g o s = Some s' -> GD t c s s' (dep_events o) (exe_events (sr s) o).
Proof.
  intros H. destruct o; cbn [run dep_events exe_events] in *.
  - (* SendToFx *)
    apply with_tok_inv in H as [tk [_ [Eid H]]]. unfold send_to_fx in H. rewrite Eid in H.
    apply bind_inv in H as [s1 [E1 H]]. apply bind_inv in H as [s2 [E2 H]].
    pose proof (gk_doB _ _ _ E1) as K1. pose proof (GD_dep_add t c _ _ _ _ _ E2) as D.
    assert (D1 : GD t c s s2 [(t0, c0, x)] []).
    { destruct D as [A [B [C0 D0]]]. unfold GD. rewrite <- K1. auto. }
    destruct (Z.eqb_spec target 1) as [->|Hne].
    + pose proof (gk_doB _ _ _ H) as K. destruct D1 as [A [B [C0 D0]]]. unfold GD. rewrite K.
      change (1 =? 2) with false. unfold ev_tok, ev_on in *; cbn [map sumZ fold_right] in *; repeat split; lia.
    + destruct (target =? 2).
      * apply bind_inv in H as [s3 [E3 H]]. apply bind_inv in H as [s4 [E4 H]]. apply bind_inv in H as [s5 [E5 H]].
        apply guard_inv in E3 as [_ ->]. pose proof (gk_doB _ _ _ E4) as K4. pose proof (gk_doB _ _ _ E5) as K5.
        pose proof (GD_exe_add t c _ _ _ _ _ H) as X.
        assert (X1 : GD t c s2 s' [] [(t0, 9, x)]).
        { destruct X as [A [B [C0 D0]]]. unfold GD. rewrite <- K4, <- K5. auto. }
        exact (GD_trans _ _ _ _ _ _ _ _ _ D1 X1).
      * injection H as <-. exact D1.
  - (* SendToExternal *)
    apply bind_inv in H as [s1 [E1 H]]. apply guard_inv in E1 as [_ ->]. apply with_tok_inv in H as [tk [_ [_ H]]].
    apply GD_same. eapply gk_add_to_outgoing_pool. exact H.
  - apply GD_same. eapply gk_cancel_send. exact H.
  - apply with_tok_inv in H as [tk [_ [_ H]]]. apply GD_same. eapply gk_add_bridge_fee. exact H.
  - apply with_tok_inv in H as [tk [_ [_ H]]]. apply GD_same. eapply gk_request_batch. exact H.
  - (* Observe *)
    apply observe_inv in H as [s1 [s2 [-> [E K]]]]. injection E as <-. apply GD_same. exact K.
  - (* BatchExecuted *)
    apply with_tok_inv in H as [tk [_ [Eid H]]]. apply observe_inv in H as [s1 [s2 [-> [E K]]]].
    unfold batch_executed in E. cbn [sr set_height batches] in E. rewrite Eid in E.
    destruct (find_batch c0 t0 n (batches (sr s))) as [b|]; [|discriminate].
    apply bind_inv in E as [s3 [E3 E]]. apply bind_inv in E as [s4 [E4 E]]. apply bind_inv in E as [s5 [E5 E]].
    pose proof (GD_exe_add t c _ _ _ _ _ E) as X. destruct X as [A [B [C0 D0]]]. unfold GD. rewrite K.
    rewrite (gk_updR _ _ _ E5), (gk_updR _ _ _ E4), (gk_updR _ _ _ E3) in A, B, C0, D0. cbn [sg] in *.
    unfold ev_tok, ev_on in *. cbn [map sumZ fold_right] in *. repeat split; lia.
  - (* BridgeCallMsg *)
    apply bind_inv in H as [s1 [E1 H]]. apply guard_inv in E1 as [_ ->]. apply bind_inv in H as [s2 [E2 H]].
    apply GD_same. rewrite (gk_updR _ _ _ H). eapply gk_add_outgoing_bridge_call. exact E2.
  - (* BridgeCallResult *)
    unfold bridge_call_result in H. destruct (find_call c0 n (calls (sr s))) as [b|]; [|discriminate].
    apply bind_inv in H as [s1 [E1 H]]. pose proof (gk_del_call _ _ _ _ H) as K. destruct success.
    + pose proof (GD_each_exe t c _ _ _ _ E1) as [A [B [C0 D0]]]. unfold GD. rewrite K. auto.
    + apply GD_same. rewrite K. eapply gk_bridge_call_refund. exact E1.
  - (* BridgeCallIn *)
    unfold bridge_call_in in H. apply bind_inv in H as [s1 [E1 H]]. apply bind_inv in H as [s2 [E2 H]].
    pose proof (gk_doB _ _ _ E1) as K1. pose proof (GD_each_dep t c _ _ _ _ E2) as [A [B [C0 D0]]].
    assert (K : sg s' = sg s2).
    { destruct (if evm_ok then doB (each_tok g (fun t1 x => base_to_evm t1 (bridge_call_receiver sender to call_to) x) (pos_toks toks)) s2 else None) as [s3|] eqn:E3.
      - injection H as <-. destruct evm_ok; [|discriminate]. eapply gk_doB. exact E3.
      - revert H. apply gk_bind; [|apply gk_add_outgoing_bridge_call]. destruct (_ =? _); [apply gk_ret|apply gk_doB]. }
    unfold GD. rewrite K, <- K1. auto.
  - apply with_tok_inv in H as [tk [_ [_ H]]]. apply GD_same. eapply gk_doB. exact H.
  - apply with_tok_inv in H as [tk [_ [_ H]]]. apply GD_same. eapply gk_doB. exact H.
  - apply bind_inv in H as [s1 [E1 H]]. apply guard_inv in E1 as [_ ->]. apply with_tok_inv in H as [tk [_ [_ H]]]. apply GD_same. eapply gk_doB. exact H.
  - apply GD_same. eapply gk_toggle. exact H.
  - apply with_tok_inv in H as [tk [_ [_ H]]]. apply GD_same. eapply gk_pre_cross_chain. exact H.
  - apply GD_same. eapply gk_pre_bridge_call. exact H.
  - apply GD_same. eapply gk_cancel_send. exact H.
  - apply with_tok_inv in H as [tk [_ [_ H]]]. apply GD_same. eapply gk_pre_increase_fee. exact H.
  - apply GD_same. eapply gk_doB. exact H.
  - apply GD_same. eapply gk_doB. exact H.
  - apply GD_same. eapply gk_doB. exact H.
  - apply GD_same. eapply gk_doB. exact H.
  - (* IbcMint *)
    apply with_tok_inv in H as [tk [_ [_ H]]]. apply bind_inv in H as [s1 [E1 H]].
    pose proof (gk_doB _ _ _ E1) as K1. pose proof (GD_dep_add t c _ _ _ _ _ H) as [A [B [C0 D0]]]. unfold GD. rewrite <- K1. auto.
  - apply with_tok_inv in H as [tk [_ [_ H]]]. apply GD_same. eapply gk_doB. exact H.
  - apply with_tok_inv in H as [tk [_ [_ H]]]. apply GD_same. eapply gk_doB. exact H.
  - (* PreCrossChainIbc *)
    apply with_tok_inv in H as [tk [_ [Eid H]]]. unfold pre_cross_chain_ibc in H. rewrite Eid in H.
    apply bind_inv in H as [s1 [E1 H]]. apply guard_inv in E1 as [_ ->]. apply bind_inv in H as [s2 [E2 H]]. apply bind_inv in H as [s3 [E3 H]].
    assert (K2 : sg s2 = sg s).
    { revert E2. destruct native; match goal with |- ?m s = Some s2 -> _ => assert (K : gk m) by gk_auto; apply K end. }
    pose proof (gk_doB _ _ _ E3) as K3. pose proof (GD_exe_add t c _ _ _ _ _ H) as [A [B [C0 D0]]]. unfold GD. rewrite <- K2, <- K3. auto.
  - (* IbcRecv *)
    apply with_tok_inv in H as [tk [_ [Eid H]]]. unfold ibc_recv in H. rewrite Eid in H. destruct (is_fx tk); [|discriminate].
    apply bind_inv in H as [s1 [E1 H]]. apply guard_inv in E1 as [_ ->]. apply bind_inv in H as [s2 [E2 H]].
    pose proof (gk_doB _ _ _ E2) as K2. pose proof (GD_dep_add t c _ _ _ _ _ H) as [A [B [C0 D0]]]. unfold GD. rewrite <- K2. auto.
Qed.

(* ---- the statement per step: accepted -> exactly the events of the step; refused -> nothing ---- *)
Definition step_deps (g : cfg) (s : state) (o : op) : list ev := if snd (step g s o) then dep_events o else [].
Definition step_exes (g : cfg) (s : state) (o : op) : list ev := if snd (step g s o) then exe_events (sr s) o else [].

Theorem counters_move_with_the_step g t c s o :
  let s' := fst (step g s o) in
  deposited t s' = deposited t s + ev_tok t (step_deps g s o) /\
  executed_out t s' = executed_out t s + ev_tok t (step_exes g s o) /\
  dep_via c t s' = dep_via c t s + ev_on t c (step_deps g s o) /\
  exe_via c t s' = exe_via c t s + ev_on t c (step_exes g s o).
Proof.
  unfold step_deps, step_exes, step, deposited, executed_out, dep_via, exe_via. destruct (run g o s) as [s1|] eqn:E; cbn [fst snd].
  - exact (run_ghost g t c o s s1 E).
  - unfold ev_tok, ev_on. cbn. repeat split; lia.
Qed.

(* ---- the counters as sums over the operation list ---- *)
Fixpoint deps_of (g : cfg) (s : state) (ops : list op) : list ev :=
  match ops with [] => [] | o :: r => step_deps g s o ++ deps_of g (fst (step g s o)) r end.
Fixpoint exes_of (g : cfg) (s : state) (ops : list op) : list ev :=
  match ops with [] => [] | o :: r => step_exes g s o ++ exes_of g (fst (step g s o)) r end.

Theorem counters_are_sums g t c ops : forall s,
  deposited t (steps g s ops) = deposited t s + ev_tok t (deps_of g s ops) /\
  executed_out t (steps g s ops) = executed_out t s + ev_tok t (exes_of g s ops) /\
  dep_via c t (steps g s ops) = dep_via c t s + ev_on t c (deps_of g s ops) /\
  exe_via c t (steps g s ops) = exe_via c t s + ev_on t c (exes_of g s ops).
Proof.
  induction ops as [|o ops IH]; intros s; cbn [steps fold_left deps_of exes_of].
  - unfold ev_tok, ev_on. cbn. repeat split; lia.
  - fold (steps g (fst (step g s o)) ops). destruct (IH (fst (step g s o))) as [A [B [C0 D0]]].
    destruct (counters_move_with_the_step g t c s o) as [A1 [B1 [C1 D1]]]. cbv zeta in A1, B1, C1, D1.
    rewrite !ev_tok_app, !ev_on_app. repeat split; lia.
Qed.

(* conservation without the model-maintained counters: holdings + in-flight = initial + deposits observed - withdrawals
   executed, the two sums taken over the events of the accepted steps of the operation list *)
Theorem conservation_over_the_op_list U g t s0 ops : users U -> recs_wf U (sr s0) -> Forall (op_ok U) ops ->
  let s := steps g s0 ops in
  user_holdings U t s + in_flight t s =
  user_holdings U t s0 + in_flight t s0 + ev_tok t (deps_of g s0 ops) - ev_tok t (exes_of g s0 ops).
Proof.
  intros HU W Hops. cbv zeta. pose proof (conservation U g t s0 ops HU W Hops) as C. cbv zeta in C.
  destruct (counters_are_sums g t 0 ops s0) as [A [B _]]. lia.
Qed.

(* ---- non-vacuity over whole histories ---- *)
Fixpoint accepted (g : cfg) (s : state) (ops : list op) : list bool :=
  match ops with [] => [] | o :: r => snd (step g s o) :: accepted g (fst (step g s o)) r end.

(* a deposit of the module-owned token is executed, its whole amount is sent back out (amount + fee), batched, and the batch
   is observed as executed: every step is accepted, the user is back where it started, nothing is in flight, the bridge
   denomination minted for the deposit has been burned, the events are the one deposit and the one withdrawal *)
Definition ex_round : list op :=
  [ OSendToFx 1 1 100 1000 0; OSendToExternal 1 1 100 990 10; ORequestBatch 1 1 2000; OBatchExecuted 1 1001 1 1 ].
Example round_trip_nonvacuous :
  Forall (op_ok ex_U) ex_round /\ accepted ex_cfg ex_s0 ex_round = [true; true; true; true] /\
  let s1 := steps ex_cfg ex_s0 (firstn 1 ex_round) in let s3 := steps ex_cfg ex_s0 (firstn 3 ex_round) in
  let s := steps ex_cfg ex_s0 ex_round in
  (user_holdings ex_U 1 ex_s0, user_holdings ex_U 1 s1, user_holdings ex_U 1 s3, user_holdings ex_U 1 s) = (0, 1000, 0, 0) /\
  (in_flight 1 s1, in_flight 1 s3, in_flight 1 s) = (0, 1000, 0) /\
  (supply_of 11 s1, supply_of 11 s3, supply_of 11 s) = (1000, 0, 0) /\
  deps_of ex_cfg ex_s0 ex_round = [(1, 1, 1000)] /\ exes_of ex_cfg ex_s0 ex_round = [(1, 1, 1000)] /\
  (deposited 1 s, executed_out 1 s, net_in 1 1 s) = (1000, 1000, 0).
Proof. split; [unfold ex_round, ex_U; ok_tac|]. vm_compute. repeat split. Qed.

(* the longer mixed history of P_LedgerC04 (two deposits, sends of two tokens, a conversion, a batch, a precompile send that is
   cancelled, a two-token bridge call with a successful result): every one of its eleven steps is accepted *)
Example mixed_history_all_accepted :
  accepted ex_cfg ex_s0 ex_hist = [true; true; true; true; true; true; true; true; true; true; true] /\
  deps_of ex_cfg ex_s0 ex_hist = [(1, 1, 1000); (1, 2, 500)] /\
  exes_of ex_cfg ex_s0 ex_hist = [(1, 1, 107); (0, 1, 20); (1, 1, 30)].
Proof. vm_compute. repeat split. Qed.

(* ---- the premises of withdrawable_guarded hold together ----
   (1) find_tok, (2) on_chain: environment (the token is registered and has a bridge token on chain c);
   (3) a <> cacc c: environment (a user is not the chain's module account);
   (4) 0 < amt, (5) 0 < fee: MsgSendToExternal.ValidateBasic;
   (6) amt + fee <= the holder's base balance: the hypothesis of the property itself ("a holder");
   (7)-(9) three balances are not negative: environment (sdk bank balances never are);
   (10) module-owned token: the chain module holds amt + fee of the bridge denomination — the residue of finding C04-1:
        without the older-rule refund parking the denomination in the erc20 module this would follow from
        amt + fee <= net_in (escrow_identity); C04-2 and C04-4 concern other entry points (bridge-call refunds, IBC). *)
Definition ex_tk1 : token := {| t_id := 1; t_kind := KMod; t_chains := [1; 2]; t_ibc := false |}.
Example withdrawable_guarded_premises_satisfiable :
  let s := steps ex_cfg ex_s0 [OSendToFx 1 1 100 1000 0] in
  find_tok ex_cfg 1 = Some ex_tk1 /\ on_chain ex_tk1 1 = true /\ 100 <> cacc 1 /\ 0 < 990 /\ 0 < 10 /\
  990 + 10 <= cget (CB 100 (base_of ex_tk1)) (sb s) /\
  0 <= cget (CB (cacc 1) (base_of ex_tk1)) (sb s) /\ 0 <= cget (CB 100 (alias_of ex_tk1 1)) (sb s) /\
  0 <= cget (CB (cacc 1) (alias_of ex_tk1 1)) (sb s) /\
  (t_kind ex_tk1 = KMod -> 990 + 10 <= cget (CB (cacc 1) (alias_of ex_tk1 1)) (sb s)) /\
  snd (step ex_cfg s (OSendToExternal 1 1 100 990 10)) = true.
Proof.
  cbv zeta. split; [reflexivity|]. split; [reflexivity|]. split; [vm_compute; discriminate|]. split; [lia|]. split; [lia|].
  split; [vm_compute; discriminate|]. split; [vm_compute; discriminate|]. split; [vm_compute; discriminate|].
  split; [vm_compute; discriminate|]. split; [intros _; vm_compute; discriminate|]. vm_compute. reflexivity.
Qed.
