(* P_Migrate.v — the C14 statements, assembled from the P_Migrate* files. *)
From Coq Require Import ZArith List Bool Lia.
From FxV Require Import model.M_Migrate model.M_MigrateSpec proofs.P_MigrateBase proofs.P_MigrateAuth
  proofs.P_MigrateMove proofs.P_MigrateExec proofs.P_MigrateChar proofs.P_MigrateMoved proofs.P_MigrateIdx
  proofs.P_MigrateInv proofs.P_MigrateMature proofs.P_MigrateHist.
Import ListNotations.
Open Scope Z_scope.

Section WithSig.
  Variable sigT : Type.
  Variable recover : addr -> addr -> sigT -> option addr.

  Lemma accepted_parts : forall s from to sg s',
    migrate_tx sigT recover s from to sg = Ok s' ->
    from <> to /\ staking_validate from to s = Ok tt /\
    exists s1, staking_execute from to (bank_move from to s) = Ok s1 /\ s' = set_record from to s1.
  Proof.
    intros s from to sg s' H. apply migrate_tx_inv in H. destruct H as (N & _ & H).
    apply migrate_account_inv in H. destruct H as (_ & _ & _ & V & _ & s1 & X & E). eauto.
  Qed.

  Theorem moves_everything : forall s from to sg s',
    wf s -> migrate_tx sigT recover s from to sg = Ok s' -> moved from to s s'.
  Proof.
    intros s from to sg s' W H. apply migrate_tx_inv in H. destruct H as (N & _ & H).
    apply migrate_account_moved; assumption.
  Qed.

  Theorem auth : forall s from to sg s',
    migrate_tx sigT recover s from to sg = Ok s' ->
    (from <> to /\ exists x, sg = Some x /\ recover from to x = Some to) /\
    has_record s from = false /\ has_record s to = false /\
    is_validator s from = false /\ is_validator s to = false /\ ~ has_staking s to.
  Proof.
    intros s from to sg s' H. split; [eapply accepted_signed; eauto|].
    apply migrate_tx_inv in H. destruct H as (_ & _ & H). apply migrate_account_inv in H.
    destruct H as (R1 & R2 & _ & V & _). split; [exact R1|]. split; [exact R2|].
    pose proof (staking_validate_target_clean _ _ _ V) as C. apply staking_validate_inv in V. tauto.
  Qed.

  Theorem refused : forall s from to sg,
    has_record s from = true \/ has_record s to = true \/
    is_validator s from = true \/ is_validator s to = true \/ has_staking s to \/
    (forall x, sg = Some x -> recover from to x <> Some to) ->
    forall s', migrate_tx sigT recover s from to sg <> Ok s'.
  Proof.
    intros s from to sg H s' A. pose proof (auth _ _ _ _ _ A) as (S & R1 & R2 & V1 & V2 & C).
    destruct S as (_ & x & Sx & Rx).
    destruct H as [H|[H|[H|[H|[H|H]]]]]; try congruence; try contradiction. exact (H x Sx Rx).
  Qed.

  (* vesting: an accepted migration left nothing behind, locked or not; it is refused while anything held is locked *)
  Theorem source_emptied : forall s from to sg s',
    wf s -> migrate_tx sigT recover s from to sg = Ok s' ->
    (forall d, bal_of s' from d = 0) /\
    (forall d x, sget k2_eqb (from, d) (bal s) = Some x -> locked_of s from d <= 0).
  Proof.
    intros s from to sg s' W H. pose proof (moves_everything _ _ _ _ _ W H) as M.
    pose proof (auth _ _ _ _ _ H) as ((N & _) & _). split.
    - intros d. rewrite (mv_bal _ _ _ _ M). apply (sel_from from to _ _ _ N).
    - apply migrate_tx_inv in H. destruct H as (_ & _ & H). apply migrate_account_unlocked in H.
      apply bank_blocked_false. exact H.
  Qed.

  (* what happens to a vesting source, read off the code: it is refused while anything it holds is locked
     (locked_refused); once accepted its account object and vesting schedule stay where they are — neither account
     kind nor any locked amount changes, nothing is carried over to the target *)
  Theorem vesting_not_carried : forall s from to sg s',
    wf s -> migrate_tx sigT recover s from to sg = Ok s' ->
    accts s' = accts s /\ locked s' = locked s /\ (forall a d, locked_of s' a d = locked_of s a d).
  Proof.
    intros s from to sg s' W H. pose proof (moves_everything _ _ _ _ _ W H) as M.
    split; [apply (mv_accts _ _ _ _ M)|]. split; [apply (mv_locked _ _ _ _ M)|].
    intros a d. unfold locked_of. rewrite (mv_locked _ _ _ _ M). reflexivity.
  Qed.

  Theorem locked_refused : forall s from to sg d x,
    sget k2_eqb (from, d) (bal s) = Some x -> 0 < locked_of s from d ->
    forall s', migrate_tx sigT recover s from to sg <> Ok s'.
  Proof.
    intros s from to sg d x G L s' A. apply migrate_tx_inv in A. destruct A as (_ & _ & A).
    apply migrate_account_unlocked in A. pose proof (bank_blocked_false _ _ A d x G). lia.
  Qed.

  (* governance: refused while source or target is proposer, depositor or voter of an open proposal *)
  Theorem gov_block : forall s from to sg,
    govwfb s = true -> involved_open s from \/ involved_open s to ->
    forall s', migrate_tx sigT recover s from to sg <> Ok s'.
  Proof.
    intros s from to sg G H s' A. apply migrate_tx_inv in A. destruct A as (_ & _ & A).
    apply migrate_account_inv in A. destruct A as (_ & _ & _ & _ & V & _).
    exact (gov_validate_refuses _ _ _ (involved_open_seen _ _ _ G H) V).
  Qed.

  (* the scan refuses exactly the queued proposals that involve the pair *)
  Theorem gov_exact : forall s from to, queued_exist s ->
    (gov_validate from to s = Ok tt <-> ~ seen_inactive s from to /\ ~ seen_active s from to).
  Proof. exact (fun s from to => gov_validate_exact from to s). Qed.

  (* indexes: all five stay exact; every moved entry is found by its id under the target's key *)
  Theorem indexes : forall s from to sg s',
    wf s -> migrate_tx sigT recover s from to sg = Ok s' ->
    (idx71_ok s -> idx71_ok s') /\ (idx33_ok s -> idx33_ok s') /\ (idx35_ok s -> idx35_ok s') /\
    (idx36_ok s -> idx36_ok s') /\ (idx38_ok s -> idx38_ok s') /\
    (forall kv e, In kv (ubds (stake s)) -> fst (fst kv) = from -> In e (u_entries (snd kv)) ->
       exists k, sget Z.eqb (ue_id e) (unbidx (stake s')) = Some k /\ In (ue_id e, k) (unb_writes from to s)) /\
    (forall kv e, In kv (reds (stake s)) -> fst (fst kv) = from -> In e (r_entries (snd kv)) ->
       exists k, sget Z.eqb (re_id e) (unbidx (stake s')) = Some k /\ In (re_id e, k) (unb_writes from to s)).
  Proof.
    intros s from to sg s' W H. pose proof (moves_everything _ _ _ _ _ W H) as M.
    pose proof (auth _ _ _ _ _ H) as ((N & _) & _ & _ & _ & _ & C). apply wf_unpack in W.
    split; [apply (idx71_kept from to s s' M C)|]. split; [apply (idx33_kept from to s s' M C)|].
    split; [apply (idx35_kept from to s s' M C)|]. split; [apply (idx36_kept from to s s' M C)|].
    split; [apply (idx38_kept from to s s' M C W)|]. apply (moved_entries_indexed from to s s' M).
  Qed.

  Theorem queue_others : forall s from to sg s',
    wf s -> migrate_tx sigT recover s from to sg = Ok s' ->
    forall t i, (forall p : Z * Z, fst p <> from -> nth_error (ubd_slice s t) i = Some p -> nth_error (ubd_slice s' t) i = Some p) /\
                (forall p : Z * (Z * Z), fst p <> from -> nth_error (red_slice s t) i = Some p -> nth_error (red_slice s' t) i = Some p) /\
                length (ubd_slice s' t) = length (ubd_slice s t).
  Proof.
    intros s from to sg s' W H t i. pose proof (moves_everything _ _ _ _ _ W H) as M.
    split; [intros p; apply (queue_others_untouched from to s s' M t i p)|].
    split; [intros p; apply (red_queue_others_untouched from to s s' M t i p)|]. apply (proj1 (queue_shape from to s s' M t)).
  Qed.

  (* invariants carried across a migration, so that statements chain over histories *)
  Theorem wf_preserved : forall s from to sg s',
    wf s -> migrate_tx sigT recover s from to sg = Ok s' -> wfP s' /\ (qcoverP s -> qcoverP s').
  Proof.
    intros s from to sg s' W H. apply accepted_parts in H. destruct H as (N & V & s1 & X & ->).
    apply wf_unpack in W. split; [eapply wf_after | eapply qcover_after]; eassumption.
  Qed.

  (* maturation after migration = migration after maturation *)
  Theorem matured_funds : forall s from to sg s',
    wf s -> qcoverb s = true -> migrate_tx sigT recover s from to sg = Ok s' ->
    forall t,
    (forall a v, ubd_of (staking_endblock t s') a v =
       sel from to a (option_map (to_ubd to) (ubd_of (staking_endblock t s) from v)) None (ubd_of (staking_endblock t s) a v)) /\
    (from <> pool_nb (cfg s) -> to <> pool_nb (cfg s) -> forall a d, a <> pool_nb (cfg s) ->
       bal_of (staking_endblock t s') a d =
         sel from to a (bal_of (staking_endblock t s) to d + bal_of (staking_endblock t s) from d) 0
                       (bal_of (staking_endblock t s) a d)).
  Proof.
    intros s from to sg s' W Q H t. apply accepted_parts in H. destruct H as (N & V & s1 & X & ->).
    apply wf_unpack in W. apply qcover_unpack in Q. split.
    - intros a v. apply mature_commutes_ubd; assumption.
    - intros Nf Nt a d Na. apply mature_commutes_bal; assumption.
  Qed.

  (* the end blocker itself, on any well-formed state: every entry whose time has come is completed and paid *)
  Theorem endblock_pays : forall s t, wf s -> qcoverb s = true ->
    (forall a v, ubd_of (staking_endblock t s) a v = immature_opt t (ubd_of s a v)) /\
    (forall a d, a <> pool_nb (cfg s) ->
       bal_of (staking_endblock t s) a d = bal_of s a d + (if d =? bond_denom (cfg s) then payout t s a else 0)).
  Proof.
    intros s t W Q. apply wf_unpack in W. apply qcover_unpack in Q. split.
    - intros a v. apply endblock_ubd; assumption.
    - intros a d Na. apply endblock_bal; assumption.
  Qed.
End WithSig.
