(* P_MigrateAuth.v — what an accepted migration establishes (signature, records, validator
   operators, target's staking records, governance scan) and that a migration record is for ever. *)
From Coq Require Import ZArith List Bool Lia.
From FxV Require Import model.M_Migrate model.M_MigrateSpec proofs.P_MigrateBase.
Import ListNotations.
Open Scope Z_scope.

(* ---------- inversion of the msg server ---------- *)
Lemma migrate_account_inv : forall s from to s',
  migrate_account s from to = Ok s' ->
  has_record s from = false /\ has_record s to = false /\ check_from s from = Ok tt /\
  staking_validate from to s = Ok tt /\ gov_validate from to s = Ok tt /\
  exists s1, staking_execute from to (bank_move from to s) = Ok s1 /\ s' = set_record from to s1.
Proof.
  intros s from to s'. unfold migrate_account.
  destruct (has_record s from); [discriminate|]. destruct (has_record s to); [discriminate|].
  intros H. apply bind_ok in H. destruct H as [[] [H1 H]].
  apply bind_ok in H. destruct H as [[] [H2 H]].
  apply bind_ok in H. destruct H as [[] [H3 H]].
  apply bind_ok in H. destruct H as [s0 [H0 H]]. unfold bank_execute in H0.
  destruct (bank_blocked from s); [discriminate|]. inversion H0. subst s0.
  apply bind_ok in H. destruct H as [s1 [H4 H]]. inversion H. subst.
  repeat split; try assumption. exists s1. split; [exact H4 | reflexivity].
Qed.

(* nothing of a held denomination may be locked (vesting): SendCoins of the whole balance would fail *)
Lemma migrate_account_unlocked : forall s from to s',
  migrate_account s from to = Ok s' -> bank_blocked from s = false.
Proof.
  intros s from to s'. unfold migrate_account.
  destruct (has_record s from); [discriminate|]. destruct (has_record s to); [discriminate|].
  intros H. apply bind_ok in H. destruct H as [[] [H1 H]].
  apply bind_ok in H. destruct H as [[] [H2 H]].
  apply bind_ok in H. destruct H as [[] [H3 H]].
  apply bind_ok in H. destruct H as [s0 [H0 H]]. unfold bank_execute in H0.
  destruct (bank_blocked from s); [discriminate | reflexivity].
Qed.

Lemma bank_blocked_false : forall s from, bank_blocked from s = false ->
  forall d x, sget k2_eqb (from, d) (bal s) = Some x -> locked_of s from d <= 0.
Proof.
  intros s from H d x G. unfold bank_blocked in H.
  assert (I : In ((from, d), x) (filter (fun kv : Z * Z * Z => fst (fst kv) =? from) (bal s))).
  { apply filter_In. split; [apply (sget_in k2_eqb k2_eqb_ok); exact G | cbn; apply Z.eqb_refl]. }
  destruct (Z_le_gt_dec (locked_of s from d) 0) as [L|L]; [exact L|]. exfalso.
  assert (existsb (fun kv : Z * Z * Z => snd kv - locked_of s from (snd (fst kv)) <? snd kv)
            (filter (fun kv : Z * Z * Z => fst (fst kv) =? from) (bal s)) = true); [|congruence].
  apply existsb_exists. exists ((from, d), x). split; [exact I|]. cbn. apply Z.ltb_lt. lia.
Qed.

Section WithSig.
  Variable sigT : Type.
  Variable recover : addr -> addr -> sigT -> option addr.

  Lemma migrate_tx_inv : forall s from to sg s',
    migrate_tx sigT recover s from to sg = Ok s' ->
    from <> to /\ (exists x, sg = Some x /\ recover from to x = Some to) /\ migrate_account s from to = Ok s'.
  Proof.
    intros s from to sg s'. unfold migrate_tx, validate_basic.
    destruct (from =? to) eqn:E; [discriminate|]. apply Z.eqb_neq in E.
    destruct sg as [x|]; [|discriminate].
    destruct (recover from to x) as [a|] eqn:R; [|discriminate].
    destruct (a =? to) eqn:E2; [|discriminate]. apply Z.eqb_eq in E2. subst a. cbn.
    intros H. split; [exact E|]. split; [exists x; auto | exact H].
  Qed.

  (* accepted => signed by the target key over exactly this (source, target) pair *)
  Lemma accepted_signed : forall s from to sg s',
    migrate_tx sigT recover s from to sg = Ok s' ->
    from <> to /\ exists x, sg = Some x /\ recover from to x = Some to.
  Proof. intros. apply migrate_tx_inv in H. tauto. Qed.

  (* a signature made for another pair, or by another key, is refused *)
  Lemma wrong_signature_refused : forall s from to sg,
    (forall x, sg = Some x -> recover from to x <> Some to) ->
    migrate_tx sigT recover s from to sg = Err ESig \/ migrate_tx sigT recover s from to sg = Err ESame.
  Proof.
    intros s from to sg H. unfold migrate_tx, validate_basic.
    destruct (from =? to); [right; reflexivity|]. left.
    destruct sg as [x|]; [|reflexivity].
    destruct (recover from to x) as [a|] eqn:R; [|reflexivity].
    destruct (a =? to) eqn:E; [|reflexivity]. apply Z.eqb_eq in E. subst. exfalso. eapply H; eauto.
  Qed.
End WithSig.

(* ---------- staking validation ---------- *)
Lemma existsb_from2_false {V} (a : addr) (m : list (k2 * V)) :
  existsb (from_rec2 a) m = false -> forall v, sget k2_eqb (a, v) m = None.
Proof.
  intros H v. apply (notin_sget_none k2_eqb k2_eqb_ok). intros X.
  apply in_map_iff in X. destruct X as [[k x] [E X]]. cbn in E. subst k.
  assert (existsb (from_rec2 a) m = true); [|congruence].
  apply existsb_exists. exists ((a, v), x). split; [exact X|]. unfold from_rec2. cbn. apply Z.eqb_refl.
Qed.

Lemma existsb_from3_false {V} (a : addr) (m : list (k3 * V)) :
  existsb (from_rec3 a) m = false -> forall v w, sget k3_eqb (a, (v, w)) m = None.
Proof.
  intros H v w. apply (notin_sget_none k3_eqb k3_eqb_ok). intros X.
  apply in_map_iff in X. destruct X as [[k x] [E X]]. cbn in E. subst k.
  assert (existsb (from_rec3 a) m = true); [|congruence].
  apply existsb_exists. exists ((a, (v, w)), x). split; [exact X|]. unfold from_rec3. cbn. apply Z.eqb_refl.
Qed.

Lemma existsb_from2_true {V} (a v : addr) (m : list (k2 * V)) :
  sget k2_eqb (a, v) m <> None -> existsb (from_rec2 a) m = true.
Proof.
  intros H. destruct (existsb (from_rec2 a) m) eqn:E; [reflexivity|].
  exfalso. apply H. apply existsb_from2_false. exact E.
Qed.

Lemma existsb_from3_true {V} (a v w : addr) (m : list (k3 * V)) :
  sget k3_eqb (a, (v, w)) m <> None -> existsb (from_rec3 a) m = true.
Proof.
  intros H. destruct (existsb (from_rec3 a) m) eqn:E; [reflexivity|].
  exfalso. apply H. apply existsb_from3_false. exact E.
Qed.

Lemma staking_validate_inv : forall from to s,
  staking_validate from to s = Ok tt ->
  is_validator s from = false /\ is_validator s to = false /\
  existsb (from_rec2 to) (dels (stake s)) = false /\ existsb (from_rec2 to) (ubds (stake s)) = false /\
  existsb (from_rec3 to) (reds (stake s)) = false.
Proof.
  intros from to s. unfold staking_validate, is_validator.
  destruct (shas Z.eqb from (vals s)); [discriminate|].
  destruct (shas Z.eqb to (vals s)); [discriminate|].
  destruct (existsb (from_rec2 to) (dels (stake s))); [discriminate|].
  destruct (existsb (from_rec2 to) (ubds (stake s))); [discriminate|].
  destruct (existsb (from_rec3 to) (reds (stake s))); [discriminate|]. tauto.
Qed.

Lemma staking_validate_target_clean : forall from to s,
  staking_validate from to s = Ok tt -> ~ has_staking s to.
Proof.
  intros from to s H. apply staking_validate_inv in H. destruct H as (_ & _ & H1 & H2 & H3).
  unfold has_staking, del_of, ubd_of, red_of. intros [[v X]|[[v X]|[v [w X]]]]; apply X.
  - apply existsb_from2_false. exact H1.
  - apply existsb_from2_false. exact H2.
  - apply existsb_from3_false. exact H3.
Qed.

Lemma staking_validate_refuses : forall from to s,
  is_validator s from = true \/ is_validator s to = true \/ has_staking s to ->
  staking_validate from to s <> Ok tt.
Proof.
  intros from to s H V. pose proof (staking_validate_target_clean _ _ _ V) as C.
  apply staking_validate_inv in V. destruct V as (V1 & V2 & _).
  destruct H as [H|[H|H]]; [congruence | congruence | contradiction].
Qed.

(* ---------- governance scan: exact characterisation ---------- *)
Lemma walk_all_ok : forall cb q,
  walk_all cb q = Ok tt <-> (forall te pid, In (te, pid) q -> cb pid = Ok tt).
Proof.
  intros cb q. induction q as [|[te pid] r [IH1 IH2]]; cbn.
  - split; [intros _ ? ? [] | reflexivity].
  - split.
    + intros H. apply bind_ok in H. destruct H as [[] [H1 H2]]. pose proof (IH1 H2) as H3.
      intros te' pid' [X|X]; [inversion X; subst; exact H1 | eapply H3; eauto].
    + intros H. rewrite (H te pid (or_introl eq_refl)). cbn. apply IH2.
      intros te' pid' X. apply (H te' pid'). right. exact X.
Qed.

Lemma dep_cb_ok : forall g from to pid,
  dep_cb g from to pid = Ok tt <->
  exists p, sget Z.eqb pid (props g) = Some p /\
    ((from =? p_proposer p) || (to =? p_proposer p) || has_deposit g pid from || has_deposit g pid to) = false.
Proof.
  intros g from to pid. unfold dep_cb. destruct (sget Z.eqb pid (props g)) as [p|].
  - destruct ((from =? p_proposer p) || (to =? p_proposer p)) eqn:E1; cbn.
    + split; [discriminate | intros [p' [X Y]]; inversion X; subst; rewrite E1 in Y; discriminate].
    + destruct (has_deposit g pid from || has_deposit g pid to) eqn:E2.
      * split; [discriminate|]. intros [p' [X Y]]. inversion X; subst. rewrite E1 in Y. cbn in Y.
        rewrite E2 in Y. discriminate.
      * split; [|reflexivity]. intros _. exists p. split; [reflexivity|]. rewrite E1. cbn. exact E2.
  - split; [discriminate | intros [p [X _]]; discriminate].
Qed.

Lemma vote_cb_ok : forall g from to pid,
  vote_cb g from to pid = Ok tt <->
  exists p, sget Z.eqb pid (props g) = Some p /\
    ((from =? p_proposer p) || (to =? p_proposer p) || has_deposit g pid from || has_deposit g pid to
      || has_vote g pid from || has_vote g pid to) = false.
Proof.
  intros g from to pid. unfold vote_cb. split.
  - intros H. apply bind_ok in H. destruct H as [[] [H1 H2]]. apply dep_cb_ok in H1.
    destruct H1 as [p [X Y]]. exists p. split; [exact X|].
    destruct (has_vote g pid from || has_vote g pid to) eqn:E; [discriminate|].
    repeat rewrite orb_false_iff in *. intuition.
  - intros [p [X Y]]. repeat rewrite orb_false_iff in Y.
    destruct Y as [[[[[Y1 Y2] Y3] Y4] Y5] Y6].
    assert (D : dep_cb g from to pid = Ok tt).
    { apply dep_cb_ok. exists p. split; [exact X|]. rewrite Y1, Y2, Y3, Y4. reflexivity. }
    rewrite D. cbn. rewrite Y5, Y6. reflexivity.
Qed.

(* the scan passes exactly when no QUEUED proposal involves the pair *)
Lemma gov_validate_exact : forall from to s,
  queued_exist s ->
  (gov_validate from to s = Ok tt <-> ~ seen_inactive s from to /\ ~ seen_active s from to).
Proof.
  intros from to s [Q1 Q2]. unfold gov_validate. split.
  - intros H. apply bind_ok in H. destruct H as [[] [H1 H2]].
    rewrite walk_all_ok in H1, H2. split.
    + intros (te & pid & p & I & G & B). specialize (H1 te pid I). apply dep_cb_ok in H1.
      destruct H1 as [p' [X Y]]. rewrite G in X. inversion X. subst. congruence.
    + intros (te & pid & p & I & G & B). specialize (H2 te pid I). apply vote_cb_ok in H2.
      destruct H2 as [p' [X Y]]. rewrite G in X. inversion X. subst. congruence.
  - intros [N1 N2].
    assert (W1 : walk_all (dep_cb (gov s) from to) (inactiveq (gov s)) = Ok tt).
    { apply walk_all_ok. intros te pid I. apply dep_cb_ok.
      destruct (sget Z.eqb pid (props (gov s))) as [p|] eqn:G; [|exfalso; eapply Q1; eauto].
      exists p. split; [reflexivity|]. match goal with |- ?b = false => destruct b eqn:B; [|reflexivity] end.
      exfalso. apply N1. exists te, pid, p. tauto. }
    rewrite W1. cbn. apply walk_all_ok. intros te pid I. apply vote_cb_ok.
    destruct (sget Z.eqb pid (props (gov s))) as [p|] eqn:G; [|exfalso; eapply Q2; eauto].
    exists p. split; [reflexivity|]. match goal with |- ?b = false => destruct b eqn:B; [|reflexivity] end.
    exfalso. apply N2. exists te, pid, p. tauto.
Qed.

Lemma gov_validate_refuses : forall from to s,
  seen_inactive s from to \/ seen_active s from to -> gov_validate from to s <> Ok tt.
Proof.
  intros from to s H V. unfold gov_validate in V. apply bind_ok in V. destruct V as [[] [H1 H2]].
  rewrite walk_all_ok in H1, H2. destruct H as [H|H]; destruct H as (te & pid & p & I & G & B).
  - specialize (H1 te pid I). apply dep_cb_ok in H1. destruct H1 as [p' [X Y]]. rewrite G in X. inversion X. subst. congruence.
  - specialize (H2 te pid I). apply vote_cb_ok in H2. destruct H2 as [p' [X Y]]. rewrite G in X. inversion X. subst. congruence.
Qed.

(* with the gov store shape (govwfb): involvement in ANY open proposal is seen *)
Lemma govwf_unpack : forall s, govwfb s = true ->
  (forall pid p, In (pid, p) (props (gov s)) -> p_status p = PDeposit -> In (p_dep_end p, pid) (inactiveq (gov s))) /\
  (forall pid p, In (pid, p) (props (gov s)) -> p_status p = PVoting -> In (p_vote_end p, pid) (activeq (gov s))) /\
  (forall pid a, has_vote (gov s) pid a = true -> exists p, sget Z.eqb pid (props (gov s)) = Some p /\ p_status p = PVoting) /\
  queued_exist s.
Proof.
  intros s H. unfold govwfb in H. repeat rewrite andb_true_iff in H. destruct H as [[[H1 H2] H3] H4].
  rewrite forallb_forall in H1, H2, H3, H4. repeat split.
  - intros pid p I St. specialize (H1 _ I). cbn in H1. rewrite St in H1. apply existsb_exists in H1.
    destruct H1 as [[te q] [X E]]. cbn in E. apply andb_true_iff in E. destruct E as [E1 E2].
    apply Z.eqb_eq in E1, E2. subst. exact X.
  - intros pid p I St. specialize (H1 _ I). cbn in H1. rewrite St in H1. apply existsb_exists in H1.
    destruct H1 as [[te q] [X E]]. cbn in E. apply andb_true_iff in E. destruct E as [E1 E2].
    apply Z.eqb_eq in E1, E2. subst. exact X.
  - intros pid a Hv. unfold has_vote in Hv. apply (shas_true_iff k2_eqb k2_eqb_ok) in Hv.
    apply in_map_iff in Hv. destruct Hv as [[k u] [E I]]. cbn in E. subst k. specialize (H2 _ I). cbn in H2.
    destruct (sget Z.eqb pid (props (gov s))) as [p|]; [|discriminate]. exists p. split; [reflexivity|].
    destruct (p_status p); [discriminate | reflexivity | discriminate].
  - intros te pid I N. specialize (H3 _ I). cbn in H3. unfold shas in H3. destruct (sget Z.eqb pid (props (gov s))); [congruence | discriminate].
  - intros te pid I N. specialize (H4 _ I). cbn in H4. unfold shas in H4. destruct (sget Z.eqb pid (props (gov s))); [congruence | discriminate].
Qed.

Lemma involved_open_seen : forall s from to,
  govwfb s = true -> involved_open s from \/ involved_open s to ->
  seen_inactive s from to \/ seen_active s from to.
Proof.
  intros s from to G H. destruct (govwf_unpack s G) as (Gd & Gv & Gvote & _).
  assert (K : forall a, involved_open s a -> (a = from \/ a = to) -> seen_inactive s from to \/ seen_active s from to).
  { intros a (pid & p & S & O & Inv) Ha. pose proof (sget_in Z.eqb Zeqb_ok _ _ _ S) as I.
    unfold involved in Inv. unfold is_open in O. destruct (p_status p) eqn:St; [| |discriminate].
    - (* deposit period: no votes exist *)
      left. exists (p_dep_end p), pid, p. split; [apply Gd; assumption|]. split; [exact S|].
      assert (Nv : has_vote (gov s) pid a = false).
      { destruct (has_vote (gov s) pid a) eqn:Hv; [|reflexivity]. destruct (Gvote pid a Hv) as [p' [S' St']].
        rewrite S in S'. inversion S'. subst. congruence. }
      rewrite Nv, orb_false_r in Inv. apply orb_true_iff in Inv.
      destruct Ha as [->| ->]; destruct Inv as [X|X]; rewrite X; repeat rewrite ?orb_true_r, ?orb_true_l; reflexivity.
    - right. exists (p_vote_end p), pid, p. split; [apply Gv; assumption|]. split; [exact S|].
      repeat rewrite orb_true_iff in Inv.
      destruct Ha as [->| ->]; destruct Inv as [[X|X]|X]; rewrite X; repeat rewrite ?orb_true_r, ?orb_true_l; reflexivity. }
  destruct H as [H|H]; [apply (K from H); left | apply (K to H); right]; reflexivity.
Qed.

(* ---------- the migration record is written and never removed ---------- *)
Lemma has_record_set_record : forall from to s a,
  has_record (set_record from to s) a = (a =? to) || (a =? from) || has_record s a.
Proof.
  intros from to s a. unfold has_record, shas, set_record. cbn [mig set_mig recs].
  destruct (Z.eqb_spec a to) as [->|N1].
  - rewrite (sget_sset_same Z.eqb Zeqb_ok). reflexivity.
  - rewrite (sget_sset_other Z.eqb Zeqb_ok) by exact N1. destruct (Z.eqb_spec a from) as [->|N2].
    + rewrite (sget_sset_same Z.eqb Zeqb_ok). reflexivity.
    + rewrite (sget_sset_other Z.eqb Zeqb_ok) by exact N2. reflexivity.
Qed.
