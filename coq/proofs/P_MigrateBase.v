(* P_MigrateBase.v — lemmas on the association-list stores of M_Migrate and the inversion of an
   accepted migration into the facts its validation established. *)
From Coq Require Import ZArith List Bool Lia Permutation.
From FxV Require Import model.M_Migrate model.M_MigrateSpec.
Import ListNotations.
Open Scope Z_scope.

(* ---------- key equality ---------- *)
Definition eqb_ok {K} (eqb : K -> K -> bool) : Prop := forall a b, eqb a b = true <-> a = b.

Lemma Zeqb_ok : eqb_ok Z.eqb.
Proof. intros a b. apply Z.eqb_eq. Qed.

Lemma pkeqb_ok {R} (reqb : R -> R -> bool) : eqb_ok reqb -> eqb_ok (pkeqb reqb).
Proof.
  intros H [a r] [b q]. unfold pkeqb. cbn [fst snd]. rewrite andb_true_iff, Z.eqb_eq, (H r q).
  split; [intros [-> ->]; reflexivity | intros E; inversion E; auto].
Qed.

Lemma k2_eqb_ok : eqb_ok k2_eqb.
Proof. apply pkeqb_ok, Zeqb_ok. Qed.
Lemma k3_eqb_ok : eqb_ok k3_eqb.
Proof. apply pkeqb_ok, k2_eqb_ok. Qed.

Lemma eqb_refl' {K} (eqb : K -> K -> bool) : eqb_ok eqb -> forall a, eqb a a = true.
Proof. intros H a. apply H. reflexivity. Qed.

Lemma eqb_neq {K} (eqb : K -> K -> bool) : eqb_ok eqb -> forall a b, a <> b -> eqb a b = false.
Proof. intros H a b N. destruct (eqb a b) eqn:E; [apply H in E; contradiction | reflexivity]. Qed.

Lemma eqb_false_neq {K} (eqb : K -> K -> bool) : eqb_ok eqb -> forall a b, eqb a b = false -> a <> b.
Proof. intros H a b E ->. rewrite (eqb_refl' eqb H) in E. discriminate. Qed.

Lemma eqb_dec {K} (eqb : K -> K -> bool) : eqb_ok eqb -> forall a b : K, a = b \/ a <> b.
Proof. intros H a b. destruct (eqb a b) eqn:E; [left; apply H; exact E | right; eapply eqb_false_neq; eauto]. Qed.

(* ---------- sget / sdel / sset ---------- *)
Section StoreLemmas.
  Context {K V : Type} (eqb : K -> K -> bool) (Hk : eqb_ok eqb).

  Lemma sget_sdel_same : forall k (m : list (K * V)), sget eqb k (sdel eqb k m) = None.
  Proof.
    intros k m. induction m as [|[k' v] r IH]; cbn; [reflexivity|].
    destruct (eqb k k') eqn:E; [exact IH|]. cbn. rewrite E. exact IH.
  Qed.

  Lemma sget_sdel_other : forall k k' (m : list (K * V)), k <> k' -> sget eqb k (sdel eqb k' m) = sget eqb k m.
  Proof.
    intros k k' m N. induction m as [|[k0 v] r IH]; cbn; [reflexivity|].
    destruct (eqb k' k0) eqn:E.
    - apply Hk in E. subst k0. rewrite (eqb_neq eqb Hk k k' N). exact IH.
    - cbn. destruct (eqb k k0); [reflexivity | exact IH].
  Qed.

  Lemma sget_sset_same : forall k v (m : list (K * V)), sget eqb k (sset eqb k v m) = Some v.
  Proof. intros. unfold sset. cbn. rewrite (eqb_refl' eqb Hk). reflexivity. Qed.

  Lemma sget_sset_other : forall k k' v (m : list (K * V)), k <> k' -> sget eqb k (sset eqb k' v m) = sget eqb k m.
  Proof.
    intros k k' v m N. unfold sset. cbn. rewrite (eqb_neq eqb Hk k k' N). apply sget_sdel_other. exact N.
  Qed.

  Lemma sget_in : forall k v (m : list (K * V)), sget eqb k m = Some v -> In (k, v) m.
  Proof.
    intros k v m. induction m as [|[k' v'] r IH]; cbn; [discriminate|].
    destruct (eqb k k') eqn:E.
    - intros H. inversion H. subst. apply Hk in E. subst. left. reflexivity.
    - intros H. right. apply IH. exact H.
  Qed.

  Lemma sget_none_notin : forall k (m : list (K * V)), sget eqb k m = None -> ~ In k (map fst m).
  Proof.
    intros k m. induction m as [|[k' v'] r IH]; cbn; [intros _ []|].
    destruct (eqb k k') eqn:E; [discriminate|].
    intros H [X|X]; [subst; rewrite (eqb_refl' eqb Hk) in E; discriminate | exact (IH H X)].
  Qed.

  Lemma notin_sget_none : forall k (m : list (K * V)), ~ In k (map fst m) -> sget eqb k m = None.
  Proof.
    intros k m. induction m as [|[k' v'] r IH]; cbn; [reflexivity|].
    intros N. destruct (eqb k k') eqn:E.
    - apply Hk in E. subst. exfalso. apply N. left. reflexivity.
    - apply IH. intros X. apply N. right. exact X.
  Qed.

  Lemma in_sget_nodup : forall k v (m : list (K * V)), NoDup (map fst m) -> In (k, v) m -> sget eqb k m = Some v.
  Proof.
    intros k v m. induction m as [|[k' v'] r IH]; cbn; [intros _ []|].
    intros ND [X|X].
    - inversion X. subst. rewrite (eqb_refl' eqb Hk). reflexivity.
    - inversion ND as [|? ? N1 N2]. subst. destruct (eqb k k') eqn:E.
      + apply Hk in E. subst. exfalso. apply N1. apply (in_map fst) in X. exact X.
      + apply IH; assumption.
  Qed.

  Lemma shas_true_iff : forall k (m : list (K * V)), shas eqb k m = true <-> In k (map fst m).
  Proof.
    intros k m. unfold shas. destruct (sget eqb k m) eqn:E.
    - split; [intros _ | reflexivity]. apply sget_in in E. apply (in_map fst) in E. exact E.
    - split; [discriminate|]. intros X. exfalso. eapply sget_none_notin; eauto.
  Qed.

  Lemma sdel_notin : forall k (m : list (K * V)), ~ In k (map fst m) -> sdel eqb k m = m.
  Proof.
    intros k m. induction m as [|[k' v'] r IH]; cbn; [reflexivity|].
    intros N. destruct (eqb k k') eqn:E.
    - apply Hk in E. subst. exfalso. apply N. left. reflexivity.
    - f_equal. apply IH. intros X. apply N. right. exact X.
  Qed.

  Lemma sdel_filter : forall k (m : list (K * V)), sdel eqb k m = filter (fun kv => negb (eqb k (fst kv))) m.
  Proof.
    intros k m. induction m as [|[k' v'] r IH]; cbn; [reflexivity|].
    destruct (eqb k k'); cbn; [exact IH | f_equal; exact IH].
  Qed.

  Lemma sdel_keys_incl : forall k k' (m : list (K * V)), In k' (map fst (sdel eqb k m)) -> In k' (map fst m) /\ k' <> k.
  Proof.
    intros k k' m. rewrite sdel_filter. intros H. apply in_map_iff in H. destruct H as [[a b] [E H]].
    apply filter_In in H. destruct H as [H1 H2]. cbn in *. subst. split.
    - apply (in_map fst) in H1. exact H1.
    - intros ->. rewrite (eqb_refl' eqb Hk) in H2. discriminate.
  Qed.

  Lemma sdel_nodup : forall k (m : list (K * V)), NoDup (map fst m) -> NoDup (map fst (sdel eqb k m)).
  Proof.
    intros k m. induction m as [|[k' v'] r IH]; cbn; [auto|].
    intros ND. inversion ND as [|? ? N1 N2]. subst.
    destruct (eqb k k'); [apply IH; exact N2|]. cbn. constructor.
    - intros X. apply sdel_keys_incl in X. apply N1. tauto.
    - apply IH. exact N2.
  Qed.

  Lemma sset_nodup : forall k v (m : list (K * V)), NoDup (map fst m) -> NoDup (map fst (sset eqb k v m)).
  Proof.
    intros k v m ND. unfold sset. cbn. constructor.
    - intros X. apply sdel_keys_incl in X. tauto.
    - apply sdel_nodup. exact ND.
  Qed.

  Lemma sget_filter_key : forall (P : K -> bool) k (m : list (K * V)),
    P k = true -> sget eqb k (filter (fun kv => P (fst kv)) m) = sget eqb k m.
  Proof.
    intros P k m HP. induction m as [|[k' v'] r IH]; cbn; [reflexivity|].
    destruct (P k') eqn:E; cbn.
    - destruct (eqb k k'); [reflexivity | exact IH].
    - destruct (eqb k k') eqn:E2; [apply Hk in E2; subst; congruence | exact IH].
  Qed.

  Lemma filter_nodup_keys : forall (P : K * V -> bool) (m : list (K * V)), NoDup (map fst m) -> NoDup (map fst (filter P m)).
  Proof.
    intros P m. induction m as [|x r IH]; cbn; [auto|].
    intros ND. inversion ND as [|? ? N1 N2]. subst. destruct (P x); [|apply IH; exact N2].
    cbn. constructor; [|apply IH; exact N2].
    intros X. apply N1. apply in_map_iff in X. destruct X as [y [E Y]]. apply filter_In in Y.
    rewrite <- E. apply in_map. tauto.
  Qed.

  Lemma nodupb_ok : forall l : list K, nodupb eqb l = true -> NoDup l.
  Proof.
    induction l as [|x r IH]; cbn; [constructor|].
    rewrite andb_true_iff, negb_true_iff. intros [H1 H2]. constructor; [|apply IH; exact H2].
    intros X. assert (existsb (eqb x) r = true); [|congruence].
    apply existsb_exists. exists x. split; [exact X | apply eqb_refl'; exact Hk].
  Qed.

  (* lookups are invariant under permutation when keys are unique *)
  Lemma sget_perm : forall (m m' : list (K * V)) k, NoDup (map fst m) -> Permutation m m' -> sget eqb k m = sget eqb k m'.
  Proof.
    intros m m' k ND P.
    assert (ND' : NoDup (map fst m')) by (eapply Permutation_NoDup; [apply Permutation_map; exact P | exact ND]).
    destruct (sget eqb k m) eqn:E.
    - symmetry. apply in_sget_nodup; [exact ND'|]. eapply Permutation_in; [exact P|]. apply sget_in. exact E.
    - symmetry. apply notin_sget_none. intros X. eapply sget_none_notin; [exact E|].
      eapply Permutation_in; [apply Permutation_sym, Permutation_map; exact P | exact X].
  Qed.
End StoreLemmas.

(* ---------- sums ---------- *)
Lemma sumZ_app {A} (f : A -> Z) (l1 l2 : list A) : sumZ f (l1 ++ l2) = sumZ f l1 + sumZ f l2.
Proof. unfold sumZ. induction l1; cbn; [reflexivity | rewrite IHl1; lia]. Qed.

Lemma sumZ_cons {A} (f : A -> Z) (x : A) (l : list A) : sumZ f (x :: l) = f x + sumZ f l.
Proof. reflexivity. Qed.

Lemma sumZ_perm {A} (f : A -> Z) (l1 l2 : list A) : Permutation l1 l2 -> sumZ f l1 = sumZ f l2.
Proof. induction 1; rewrite ?sumZ_cons; lia. Qed.

Lemma sumZ_map {A B} (f : B -> Z) (g : A -> B) (l : list A) : sumZ f (map g l) = sumZ (fun x => f (g x)) l.
Proof. induction l; [reflexivity | cbn [map]; rewrite !sumZ_cons, IHl; reflexivity]. Qed.

Lemma sumZ_ext {A} (f g : A -> Z) (l : list A) : (forall x, In x l -> f x = g x) -> sumZ f l = sumZ g l.
Proof.
  induction l; [reflexivity|]. intros H. rewrite !sumZ_cons. rewrite IHl; [rewrite (H a); [reflexivity | left; reflexivity]|].
  intros x X. apply H. right. exact X.
Qed.

Lemma sumZ_filter_split {A} (f : A -> Z) (P : A -> bool) (l : list A) :
  sumZ f l = sumZ f (filter P l) + sumZ f (filter (fun x => negb (P x)) l).
Proof. induction l; [reflexivity|]. cbn [filter]. destruct (P a); cbn [negb]; rewrite !sumZ_cons; lia. Qed.

Section SumStore.
  Context {K V : Type} (eqb : K -> K -> bool) (Hk : eqb_ok eqb) (w : K * V -> Z).

  Definition wopt (k : K) (o : option V) : Z := match o with Some v => w (k, v) | None => 0 end.

  Lemma sum_sdel : forall k (m : list (K * V)), NoDup (map fst m) ->
    sumZ w (sdel eqb k m) = sumZ w m - wopt k (sget eqb k m).
  Proof.
    intros k m. induction m as [|[k' v'] r IH]; [intros; reflexivity|].
    intros ND. inversion ND as [|? ? N1 N2]. subst. cbn [sdel sget]. destruct (eqb k k') eqn:E.
    - apply Hk in E. subst. rewrite (sdel_notin eqb Hk k' r N1). rewrite sumZ_cons. cbn [wopt]. lia.
    - rewrite !sumZ_cons. rewrite IH by exact N2. lia.
  Qed.

  Lemma sum_sset : forall k v (m : list (K * V)), NoDup (map fst m) ->
    sumZ w (sset eqb k v m) = sumZ w m - wopt k (sget eqb k m) + w (k, v).
  Proof. intros. unfold sset. rewrite sumZ_cons. rewrite sum_sdel by assumption. lia. Qed.
End SumStore.

(* ---------- outcome plumbing ---------- *)
Lemma bind_ok {A B} (x : outcome A) (f : A -> outcome B) (b : B) :
  bind x f = Ok b -> exists a, x = Ok a /\ f a = Ok b.
Proof. destruct x; cbn; [eauto | discriminate | discriminate]. Qed.

(* ---------- state-update algebra ---------- *)
Lemma stake_set_stake s x : stake (set_stake s x) = x. Proof. reflexivity. Qed.
Lemma start_set_start s x : start (set_start s x) = x. Proof. reflexivity. Qed.
Lemma bal_set_bal s x : bal (set_bal s x) = x. Proof. reflexivity. Qed.
