(* P_MigrateChar.v — the state after an accepted migration, pointwise. *)
From Coq Require Import ZArith List Bool Lia Permutation.
From FxV Require Import model.M_Migrate model.M_MigrateSpec proofs.P_MigrateBase proofs.P_MigrateAuth
  proofs.P_MigrateMove proofs.P_MigrateExec.
Import ListNotations.
Open Scope Z_scope.

Lemma existsb_Zeqb_in : forall (x : Z) l, existsb (Z.eqb x) l = true <-> In x l.
Proof.
  intros x l. rewrite existsb_exists. split.
  - intros [y [Y E]]. apply Z.eqb_eq in E. subst. exact Y.
  - intros X. exists x. split; [exact X | apply Z.eqb_refl].
Qed.

Section Char.
  Variables from to : Z.
  Hypothesis Hft : from <> to.

  (* ---------- starting info ---------- *)
  Lemma start_step_get : forall acc kv a v,
    sget k2_eqb (a, v) (start_step from to acc kv) =
      if v =? d_val (snd kv) then
        (if a =? to then match sget k2_eqb (from, v) acc with Some si => Some si | None => sget k2_eqb (to, v) acc end
         else if a =? from then None else sget k2_eqb (a, v) acc)
      else sget k2_eqb (a, v) acc.
  Proof.
    intros acc kv a v. unfold start_step. set (v0 := d_val (snd kv)).
    destruct (Z.eqb_spec v v0) as [->|Nv].
    - destruct (sget k2_eqb (from, v0) acc) as [si|] eqn:E.
      + destruct (Z.eqb_spec a to) as [->|N1]; [apply (sget_sset_same k2_eqb k2_eqb_ok)|].
        rewrite (sget_sset_other k2_eqb k2_eqb_ok) by congruence.
        destruct (Z.eqb_spec a from) as [->|N2]; [apply (sget_sdel_same k2_eqb)|].
        apply (sget_sdel_other k2_eqb k2_eqb_ok). congruence.
      + destruct (Z.eqb_spec a to) as [->|N1]; [reflexivity|].
        destruct (Z.eqb_spec a from) as [->|N2]; [exact E | reflexivity].
    - destruct (sget k2_eqb (from, v0) acc) as [si|]; [|reflexivity].
      rewrite (sget_sset_other k2_eqb k2_eqb_ok) by congruence.
      apply (sget_sdel_other k2_eqb k2_eqb_ok). congruence.
  Qed.

  Lemma start_fold_get : forall L acc a v,
    sget k2_eqb (a, v) (fold_left (start_step from to) L acc) =
      if existsb (Z.eqb v) (map (fun kv : k2 * del_rec => d_val (snd kv)) L) then
        (if a =? to then match sget k2_eqb (from, v) acc with Some si => Some si | None => sget k2_eqb (to, v) acc end
         else if a =? from then None else sget k2_eqb (a, v) acc)
      else sget k2_eqb (a, v) acc.
  Proof.
    induction L as [|kv L IH]; intros acc a v; [reflexivity|].
    cbn [fold_left map existsb]. rewrite IH. rewrite !start_step_get.
    destruct (Z.eqb_spec v (d_val (snd kv))) as [E|N]; cbn [orb].
    - assert (Ft : (from =? to) = false) by (apply Z.eqb_neq; exact Hft).
      assert (Tf : (to =? from) = false) by (apply Z.eqb_neq; congruence).
      destruct (existsb (Z.eqb v) (map (fun kv0 : k2 * del_rec => d_val (snd kv0)) L));
      destruct (Z.eqb_spec a to) as [->|N1]; rewrite ?Z.eqb_refl, ?Ft, ?Tf; try reflexivity;
      destruct (Z.eqb_spec a from) as [->|N2]; rewrite ?Z.eqb_refl, ?Ft, ?Tf; try reflexivity;
      try (destruct (sget k2_eqb (from, v) acc); reflexivity).
    - reflexivity.
  Qed.

  (* ---------- instances of the generic rename ---------- *)
  Lemma dels_fold_is_move : forall m,
    (forall kv, In kv m -> fst kv = (d_del (snd kv), d_val (snd kv))) ->
    fold_left (dels_step to) (filter (from_rec2 from) m) m = move_all Z.eqb from to (to_del to) m.
  Proof.
    intros m H. unfold move_all. apply fold_left_ext_in. intros acc kv I. apply filter_In in I. destruct I as [I _].
    unfold dels_step, move1, to_del. pose proof (H kv I) as E. destruct kv as [k r]. cbn [fst snd] in *. subst k. reflexivity.
  Qed.

  Lemma ubds_fold_is_move : forall m,
    (forall kv, In kv m -> fst kv = (u_del (snd kv), u_val (snd kv))) ->
    fold_left (ubds_step to) (filter (from_rec2 from) m) m = move_all Z.eqb from to (to_ubd to) m.
  Proof.
    intros m H. unfold move_all. apply fold_left_ext_in. intros acc kv I. apply filter_In in I. destruct I as [I _].
    unfold ubds_step, move1, to_ubd. pose proof (H kv I) as E. destruct kv as [k r]. cbn [fst snd] in *. subst k. reflexivity.
  Qed.

  Lemma reds_fold_is_move : forall m,
    (forall kv, In kv m -> fst kv = (r_del (snd kv), (r_src (snd kv), r_dst (snd kv)))) ->
    fold_left (reds_step to) (filter (from_rec3 from) m) m = move_all k2_eqb from to (to_red to) m.
  Proof.
    intros m H. unfold move_all. apply fold_left_ext_in. intros acc kv I. apply filter_In in I. destruct I as [I _].
    unfold reds_step, move1, to_red. pose proof (H kv I) as E. destruct kv as [k r]. cbn [fst snd] in *. subst k. reflexivity.
  Qed.

  Lemma idx33_fold_is : forall (L : list (k2 * ubd_rec)) idx,
    fold_left (idx33_step from to) L idx =
    fold_left (idx_step Z.eqb from to) (map (fun kv => u_val (snd kv)) L) idx.
  Proof. intros. rewrite fold_left_map. reflexivity. Qed.

  Lemma idx71_fold_is : forall (L : list (k2 * del_rec)) idx,
    fold_left (idx71_step from to) L idx =
    fold_left (idx_step Z.eqb from to) (map (fun kv => d_val (snd kv)) L) idx.
  Proof. intros. rewrite fold_left_map. reflexivity. Qed.

  Lemma idx3x_fold_is : forall (L : list (k3 * red_rec)) idx,
    fold_left (idx3x_step from to) L idx =
    fold_left (idx_step k2_eqb from to) (map (fun kv => (r_src (snd kv), r_dst (snd kv))) L) idx.
  Proof. intros. rewrite fold_left_map. reflexivity. Qed.

  Lemma ubdq_fold_is : forall (L : list (k2 * ubd_rec)) q,
    fold_left (ubdq_step from to) L q =
    fold_left (mig_q_entry (fun p : k2 => fst p =? from) (ren_pair from to))
              (concat (map (fun kv => map ue_time (u_entries (snd kv))) L)) q.
  Proof.
    intros. rewrite fold_left_concat, fold_left_map. apply fold_left_ext_in. intros acc kv _.
    unfold ubdq_step. rewrite fold_left_map. reflexivity.
  Qed.

  Lemma redq_fold_is : forall (L : list (k3 * red_rec)) q,
    fold_left (redq_step from to) L q =
    fold_left (mig_q_entry (fun p : k3 => fst p =? from) (ren_trip from to))
              (concat (map (fun kv => map re_time (r_entries (snd kv))) L)) q.
  Proof.
    intros. rewrite fold_left_concat, fold_left_map. apply fold_left_ext_in. intros acc kv _.
    unfold redq_step. rewrite fold_left_map. reflexivity.
  Qed.

  (* the unbonding-id index writes, as one list *)
  Definition wstep (m : list (Z * ukey)) (x : Z * ukey) := sset Z.eqb (fst x) (snd x) m.

  Lemma unb_u_fold_is : forall (L : list (k2 * ubd_rec)) m,
    fold_left (unb_u_step to) L m =
    fold_left wstep (concat (map (fun kv : k2 * ubd_rec =>
       map (fun e => (ue_id e, UKubd to (u_val (snd kv)))) (u_entries (snd kv))) L)) m.
  Proof.
    intros. rewrite fold_left_concat, fold_left_map. apply fold_left_ext_in. intros acc kv _.
    unfold unb_u_step. rewrite fold_left_map. reflexivity.
  Qed.

  Lemma unb_r_fold_is : forall (L : list (k3 * red_rec)) m,
    fold_left (unb_r_step to) L m =
    fold_left wstep (concat (map (fun kv : k3 * red_rec =>
       map (fun e => (re_id e, UKred to (r_src (snd kv)) (r_dst (snd kv)))) (r_entries (snd kv))) L)) m.
  Proof.
    intros. rewrite fold_left_concat, fold_left_map. apply fold_left_ext_in. intros acc kv _.
    unfold unb_r_step. rewrite fold_left_map. reflexivity.
  Qed.

  Lemma wfold_inv : forall W m id k, sget Z.eqb id (fold_left wstep W m) = Some k ->
    In (id, k) W \/ (~ In id (map fst W) /\ sget Z.eqb id m = Some k).
  Proof.
    induction W as [|[i x] W IH]; intros m id k H; [right; split; [intros [] | exact H]|].
    cbn [fold_left] in H. apply IH in H. destruct H as [H|[N H]]; [left; right; exact H|].
    unfold wstep in H. cbn [fst snd] in H. destruct (Z.eq_dec id i) as [->|Ni].
    - rewrite (sget_sset_same Z.eqb Zeqb_ok) in H. inversion H. left. left. reflexivity.
    - rewrite (sget_sset_other Z.eqb Zeqb_ok) in H by exact Ni. right. split; [|exact H].
      intros [X|X]; [cbn in X; congruence | exact (N X)].
  Qed.

  Lemma wfold_has : forall W m id, In id (map fst W) -> sget Z.eqb id (fold_left wstep W m) <> None.
  Proof.
    induction W as [|[i x] W IH]; intros m id I; [destruct I|]. cbn [fold_left].
    destruct (in_dec Z.eq_dec id (map fst W)) as [Y|N]; [apply IH; exact Y|].
    destruct I as [E|I]; [|contradiction]. cbn in E. subst i.
    assert (G : forall W' m', ~ In id (map fst W') -> sget Z.eqb id (fold_left wstep W' m') = sget Z.eqb id m').
    { induction W' as [|[j y] W' IH']; intros m' N'; [reflexivity|]. cbn [fold_left]. rewrite IH'.
      - unfold wstep. cbn [fst snd]. apply (sget_sset_other Z.eqb Zeqb_ok). intros ->. apply N'. left. reflexivity.
      - intros Y. apply N'. right. exact Y. }
    rewrite G by exact N. unfold wstep. cbn [fst snd]. rewrite (sget_sset_same Z.eqb Zeqb_ok). discriminate.
  Qed.

  Lemma ren_addr_idem : forall a, ren_addr from to (ren_addr from to a) = ren_addr from to a.
  Proof.
    intros a. unfold ren_addr. destruct (Z.eqb_spec a from) as [->|N].
    - replace (to =? from) with false by (symmetry; apply Z.eqb_neq; congruence). reflexivity.
    - replace (a =? from) with false by (symmetry; apply Z.eqb_neq; exact N). reflexivity.
  Qed.
End Char.
