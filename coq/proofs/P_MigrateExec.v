(* P_MigrateExec.v — closed form of DistrStakingMigrate.Execute / BankMigrate.Execute on the model
   state and the pointwise characterisation of the state after an accepted migration. *)
From Coq Require Import ZArith List Bool Lia Permutation.
From FxV Require Import model.M_Migrate model.M_MigrateSpec proofs.P_MigrateBase proofs.P_MigrateAuth proofs.P_MigrateMove.
Import ListNotations.
Open Scope Z_scope.

Lemma fold_left_map {A B C} (f : A -> C -> A) (g : B -> C) (l : list B) (a : A) :
  fold_left f (map g l) a = fold_left (fun a x => f a (g x)) l a.
Proof. revert a. induction l as [|x r IH]; intros a; [reflexivity | cbn; apply IH]. Qed.

(* ---------- well-formedness, unpacked ---------- *)
Lemma wf_unpack : forall s, wf s -> wfP s.
Proof.
  intros s H. unfold wf, wfb in H. repeat rewrite andb_true_iff in H.
  destruct H as [[[[[[[[H1 H2] H3] H4] H5] H6] H7] H8] H9].
  constructor.
  - apply (nodupb_ok k2_eqb k2_eqb_ok). exact H1.
  - apply (nodupb_ok k2_eqb k2_eqb_ok). exact H2.
  - apply (nodupb_ok k2_eqb k2_eqb_ok). exact H3.
  - apply (nodupb_ok k2_eqb k2_eqb_ok). exact H4.
  - apply (nodupb_ok k3_eqb k3_eqb_ok). exact H5.
  - intros kv I. rewrite forallb_forall in H6. apply k2_eqb_ok. apply (H6 kv I).
  - intros kv I. rewrite forallb_forall in H7. apply k2_eqb_ok. apply (H7 kv I).
  - intros kv I. rewrite forallb_forall in H8. apply k3_eqb_ok. apply (H8 kv I).
  - intros k I. rewrite forallb_forall in H9. apply in_map_iff in I. destruct I as [kv [E I]].
    specialize (H9 kv I). rewrite E in H9. apply (shas_true_iff k2_eqb k2_eqb_ok). exact H9.
Qed.

(* ---------- record algebra ---------- *)
Lemma eta_dels : forall s, s = set_stake (set_start s (start s)) (set_dels (stake s) (dels (stake s)) (idx71 (stake s))).
Proof. intros [c n h a v b st [d i7 u i3 q r i5 i6 rq ui] g m lk]. reflexivity. Qed.
Lemma eta_ubd : forall s, s = set_stake s (set_unbidx (set_ubd (stake s) (ubds (stake s)) (idx33 (stake s)) (ubdq (stake s))) (unbidx (stake s))).
Proof. intros [c n h a v b st [d i7 u i3 q r i5 i6 rq ui] g m lk]. reflexivity. Qed.
Lemma eta_red : forall s, s = set_stake s (set_unbidx (set_red (stake s) (reds (stake s)) (idx35 (stake s)) (idx36 (stake s)) (redq (stake s))) (unbidx (stake s))).
Proof. intros [c n h a v b st [d i7 u i3 q r i5 i6 rq ui] g m lk]. reflexivity. Qed.

Section Exec.
  Variables from to : addr.

  (* ----- delegations + starting info ----- *)
  Definition dels_step (m : list (k2 * del_rec)) (kv : k2 * del_rec) :=
    sset k2_eqb (to, d_val (snd kv)) {| d_del := to; d_val := d_val (snd kv); d_shares := d_shares (snd kv) |}
         (sdel k2_eqb (fst kv) m).
  Definition start_step (m : list (k2 * start_rec)) (kv : k2 * del_rec) :=
    match sget k2_eqb (from, d_val (snd kv)) m with
    | Some si => sset k2_eqb (to, d_val (snd kv)) si (sdel k2_eqb (from, d_val (snd kv)) m)
    | None => m
    end.

  Lemma fold_del_step_not_ok : forall L (x : outcome state), (forall s, x <> Ok s) ->
    forall s, fold_left (mig_del_step from to) L x <> Ok s.
  Proof.
    induction L as [|kv L IH]; intros x H s; cbn; [apply H|].
    apply IH. intros s'. destruct x; cbn; [exfalso; eapply H; reflexivity | discriminate | discriminate].
  Qed.

  Definition idx71_step (m : list (k2 * unit)) (kv : k2 * del_rec) :=
    sset k2_eqb (to, d_val (snd kv)) tt (sdel k2_eqb (from, d_val (snd kv)) m).

  Lemma closed_compose : forall s A B C (F : list (k2 * start_rec) -> list (k2 * start_rec))
      (G : list (k2 * del_rec) -> list (k2 * del_rec)) (H : list (k2 * unit) -> list (k2 * unit)),
    let s' := set_stake (set_start s A) (set_dels (stake s) B C) in
    set_stake (set_start s' (F (start s'))) (set_dels (stake s') (G (dels (stake s'))) (H (idx71 (stake s'))))
    = set_stake (set_start s (F A)) (set_dels (stake s) (G B) (H C)).
  Proof. intros [c n h a v b st [d i7 u i3 q r i5 i6 rq ui] g m lk] A B C F G H. reflexivity. Qed.

  Lemma mig_del_step_ok : forall s kv s',
    mig_del_step from to (Ok s) kv = Ok s' ->
    s' = set_stake (set_start s (start_step (start s) kv))
                   (set_dels (stake s) (dels_step (dels (stake s)) kv) (idx71_step (idx71 (stake s)) kv)).
  Proof.
    intros s kv s'. unfold mig_del_step, start_step, dels_step, idx71_step. cbn [bind].
    destruct (sget k2_eqb (from, d_val (snd kv)) (start s)) as [si|]; [|discriminate].
    intros H. inversion H. destruct s as [c n h a v b st [d i7 u i3 q r i5 i6 rq ui] g m lk]. reflexivity.
  Qed.

  Lemma mig_dels_closed : forall L s s1,
    fold_left (mig_del_step from to) L (Ok s) = Ok s1 ->
    s1 = set_stake (set_start s (fold_left start_step L (start s)))
                   (set_dels (stake s) (fold_left dels_step L (dels (stake s))) (fold_left idx71_step L (idx71 (stake s)))).
  Proof.
    induction L as [|kv L IH]; intros s s1 H.
    - cbn in H. inversion H. subst. cbn. apply eta_dels.
    - cbn [fold_left] in H. destruct (mig_del_step from to (Ok s) kv) as [s'| |] eqn:E.
      + apply IH in H. apply mig_del_step_ok in E. subst s'. rewrite H. cbn [fold_left].
        apply (closed_compose s _ _ _ (fold_left start_step L) (fold_left dels_step L) (fold_left idx71_step L)).
      + exfalso. eapply fold_del_step_not_ok; [|exact H]. intros; discriminate.
      + exfalso. eapply fold_del_step_not_ok; [|exact H]. intros; discriminate.
  Qed.

  (* ----- unbonding delegations ----- *)
  Definition ubds_step (m : list (k2 * ubd_rec)) (kv : k2 * ubd_rec) :=
    sset k2_eqb (to, u_val (snd kv)) {| u_del := to; u_val := u_val (snd kv); u_entries := u_entries (snd kv) |}
         (sdel k2_eqb (fst kv) m).
  Definition idx33_step (m : list (k2 * unit)) (kv : k2 * ubd_rec) :=
    sset k2_eqb (to, u_val (snd kv)) tt (sdel k2_eqb (from, u_val (snd kv)) m).
  Definition ubdq_step (q : list (time * list k2)) (kv : k2 * ubd_rec) :=
    fold_left (fun q e => mig_q_entry (fun p : k2 => fst p =? from) (ren_pair from to) q (ue_time e))
              (u_entries (snd kv)) q.

  Definition unb_u_step (m : list (Z * ukey)) (kv : k2 * ubd_rec) :=
    fold_left (fun m e => sset Z.eqb (ue_id e) (UKubd to (u_val (snd kv))) m) (u_entries (snd kv)) m.

  Lemma mig_ubds_closed : forall L s,
    fold_left (mig_ubd_step from to) L s =
    set_stake s (set_unbidx (set_ubd (stake s) (fold_left ubds_step L (ubds (stake s)))
                                   (fold_left idx33_step L (idx33 (stake s)))
                                   (fold_left ubdq_step L (ubdq (stake s))))
                            (fold_left unb_u_step L (unbidx (stake s)))).
  Proof.
    induction L as [|kv L IH]; intros s.
    - cbn. apply eta_ubd.
    - cbn [fold_left]. rewrite IH.
      destruct s as [c n h a v b st [d i7 u i3 q r i5 i6 rq ui] g m lk]. reflexivity.
  Qed.

  (* ----- redelegations ----- *)
  Definition reds_step (m : list (k3 * red_rec)) (kv : k3 * red_rec) :=
    sset k3_eqb (to, (r_src (snd kv), r_dst (snd kv)))
         {| r_del := to; r_src := r_src (snd kv); r_dst := r_dst (snd kv); r_entries := r_entries (snd kv) |}
         (sdel k3_eqb (fst kv) m).
  Definition idx3x_step (m : list (k3 * unit)) (kv : k3 * red_rec) :=
    sset k3_eqb (to, (r_src (snd kv), r_dst (snd kv))) tt (sdel k3_eqb (from, (r_src (snd kv), r_dst (snd kv))) m).
  Definition redq_step (q : list (time * list k3)) (kv : k3 * red_rec) :=
    fold_left (fun q e => mig_q_entry (fun p : k3 => fst p =? from) (ren_trip from to) q (re_time e))
              (r_entries (snd kv)) q.

  Definition unb_r_step (m : list (Z * ukey)) (kv : k3 * red_rec) :=
    fold_left (fun m e => sset Z.eqb (re_id e) (UKred to (r_src (snd kv)) (r_dst (snd kv))) m) (r_entries (snd kv)) m.

  Lemma mig_reds_closed : forall L s,
    fold_left (mig_red_step from to) L s =
    set_stake s (set_unbidx (set_red (stake s) (fold_left reds_step L (reds (stake s)))
                                   (fold_left idx3x_step L (idx35 (stake s)))
                                   (fold_left idx3x_step L (idx36 (stake s)))
                                   (fold_left redq_step L (redq (stake s))))
                            (fold_left unb_r_step L (unbidx (stake s)))).
  Proof.
    induction L as [|kv L IH]; intros s.
    - cbn. apply eta_red.
    - cbn [fold_left]. rewrite IH.
      destruct s as [c n h a v b st [d i7 u i3 q r i5 i6 rq ui] g m lk]. reflexivity.
  Qed.

  (* ----- the whole handler in closed form ----- *)
  Definition Ld (s : state) := filter (from_rec2 from) (dels (stake s)).
  Definition Lu (s : state) := filter (from_rec2 from) (ubds (stake s)).
  Definition Lr (s : state) := filter (from_rec3 from) (reds (stake s)).

  Definition stake_after (s : state) : stk :=
    let k := stake s in
    {| dels := fold_left dels_step (Ld s) (dels k);
       idx71 := fold_left idx71_step (Ld s) (idx71 k);
       ubds := fold_left ubds_step (Lu s) (ubds k);
       idx33 := fold_left idx33_step (Lu s) (idx33 k);
       ubdq := fold_left ubdq_step (Lu s) (ubdq k);
       reds := fold_left reds_step (Lr s) (reds k);
       idx35 := fold_left idx3x_step (Lr s) (idx35 k);
       idx36 := fold_left idx3x_step (Lr s) (idx36 k);
       redq := fold_left redq_step (Lr s) (redq k);
       unbidx := fold_left unb_r_step (Lr s) (fold_left unb_u_step (Lu s) (unbidx k)) |}.

  Lemma staking_execute_closed : forall s s1,
    staking_execute from to s = Ok s1 ->
    s1 = set_stake (set_start s (fold_left start_step (Ld s) (start s))) (stake_after s).
  Proof.
    intros s s1 H. unfold staking_execute in H. apply bind_ok in H. destruct H as [sa [H1 H2]].
    apply mig_dels_closed in H1. inversion H2 as [H3]. clear H2.
    rewrite mig_reds_closed, mig_ubds_closed. subst sa.
    destruct s as [c n h a v b st [d i7 u i3 q r i5 i6 rq ui] g m lk]. reflexivity.
  Qed.
End Exec.

(* ---------- bank ---------- *)
Lemma get_bal_put_same : forall a d x m, get_bal a d (put_bal a d x m) = x.
Proof.
  intros a d x m. unfold get_bal, put_bal. destruct (Z.eqb_spec x 0) as [->|N].
  - rewrite (sget_sdel_same k2_eqb). reflexivity.
  - rewrite (sget_sset_same k2_eqb k2_eqb_ok). reflexivity.
Qed.

Lemma get_bal_put_other : forall a d a' d' x m, (a', d') <> (a, d) -> get_bal a' d' (put_bal a d x m) = get_bal a' d' m.
Proof.
  intros a d a' d' x m N. unfold get_bal, put_bal. destruct (x =? 0).
  - rewrite (sget_sdel_other k2_eqb k2_eqb_ok) by exact N. reflexivity.
  - rewrite (sget_sset_other k2_eqb k2_eqb_ok) by exact N. reflexivity.
Qed.

Lemma put_bal_nodup : forall a d x m, NoDup (map fst m) -> NoDup (map fst (put_bal a d x m)).
Proof.
  intros. unfold put_bal. destruct (x =? 0); [apply (sdel_nodup k2_eqb k2_eqb_ok) | apply (sset_nodup k2_eqb k2_eqb_ok)]; assumption.
Qed.

Lemma get_bal_send1 : forall a b d x m a' d', a <> b ->
  get_bal a' d' (send1 a b d x m) =
    if d' =? d then (if a' =? b then get_bal b d m + x else if a' =? a then get_bal a d m - x else get_bal a' d' m)
    else get_bal a' d' m.
Proof.
  intros a b d x m a' d' N. unfold send1.
  destruct (Z.eqb_spec d' d) as [->|Nd].
  - destruct (Z.eqb_spec a' b) as [->|Nb].
    + rewrite get_bal_put_same. rewrite get_bal_put_other by congruence. reflexivity.
    + rewrite get_bal_put_other by congruence. destruct (Z.eqb_spec a' a) as [->|Na].
      * apply get_bal_put_same.
      * apply get_bal_put_other. congruence.
  - rewrite !get_bal_put_other by congruence. reflexivity.
Qed.

Lemma send1_nodup : forall a b d x m, NoDup (map fst m) -> NoDup (map fst (send1 a b d x m)).
Proof. intros. unfold send1. apply put_bal_nodup, put_bal_nodup. assumption. Qed.

(* supply of a denomination = sum over the store *)
Definition wden (d : Z) (kv : k2 * Z) : Z := if snd (fst kv) =? d then snd kv else 0.

Lemma sum_put_bal : forall d0 a d x m, NoDup (map fst m) ->
  sumZ (wden d0) (put_bal a d x m) = sumZ (wden d0) m - (if d =? d0 then get_bal a d m else 0) + (if d =? d0 then x else 0).
Proof.
  intros d0 a d x m ND. unfold put_bal, get_bal. destruct (Z.eqb_spec x 0) as [->|N].
  - rewrite (sum_sdel k2_eqb k2_eqb_ok) by exact ND. unfold wopt, wden. cbn [fst snd].
    destruct (sget k2_eqb (a, d) m); destruct (d =? d0); lia.
  - rewrite (sum_sset k2_eqb k2_eqb_ok) by exact ND. unfold wopt, wden. cbn [fst snd].
    destruct (sget k2_eqb (a, d) m); destruct (d =? d0); lia.
Qed.

Lemma sum_send1 : forall d0 a b d x m, NoDup (map fst m) -> a <> b ->
  sumZ (wden d0) (send1 a b d x m) = sumZ (wden d0) m.
Proof.
  intros d0 a b d x m ND N. unfold send1. rewrite sum_put_bal by (apply put_bal_nodup; exact ND).
  rewrite sum_put_bal by exact ND. rewrite get_bal_put_other by congruence.
  destruct (d =? d0); lia.
Qed.

Section BankFold.
  Variables from to : Z.
  Hypothesis Hft : from <> to.

  Definition bank_step (m : list (k2 * Z)) (kv : k2 * Z) := send1 from to (snd (fst kv)) (snd kv) m.

  Lemma bank_fold_get : forall L m,
    NoDup (map fst L) -> (forall kv, In kv L -> fst (fst kv) = from) ->
    forall a d, get_bal a d (fold_left bank_step L m) =
      match sget k2_eqb (from, d) L with
      | Some x => if a =? to then get_bal to d m + x else if a =? from then get_bal from d m - x else get_bal a d m
      | None => get_bal a d m
      end.
  Proof.
    induction L as [|[[f0 d0] x0] L IH]; intros m ND Hf a d; [reflexivity|].
    inversion ND as [|? ? N1 N2]. subst.
    assert (Ef : f0 = from) by (apply (Hf _ (or_introl eq_refl))). subst f0.
    cbn [fold_left]. rewrite IH; [|exact N2 | intros kv I; apply Hf; right; exact I].
    assert (B : bank_step m ((from, d0), x0) = send1 from to d0 x0 m) by reflexivity. rewrite B. clear B.
    assert (S : sget k2_eqb (from, d) (((from, d0), x0) :: L) = if d =? d0 then Some x0 else sget k2_eqb (from, d) L).
    { cbn [sget]. unfold k2_eqb at 1, pkeqb. cbn [fst snd]. rewrite Z.eqb_refl. reflexivity. }
    rewrite S. clear S.
    destruct (Z.eqb_spec d d0) as [->|Nd].
    - rewrite (notin_sget_none k2_eqb k2_eqb_ok _ _ N1). rewrite get_bal_send1 by exact Hft. rewrite Z.eqb_refl.
      destruct (a =? to); [reflexivity|]. destruct (a =? from); reflexivity.
    - assert (G : forall a', get_bal a' d (send1 from to d0 x0 m) = get_bal a' d m).
      { intros a'. rewrite get_bal_send1 by exact Hft.
        replace (d =? d0) with false; [reflexivity | symmetry; apply Z.eqb_neq; exact Nd]. }
      rewrite !G. reflexivity.
  Qed.

  Lemma bank_fold_nodup : forall L m, NoDup (map fst m) -> NoDup (map fst (fold_left bank_step L m)).
  Proof. induction L as [|kv L IH]; intros m ND; [exact ND|]. cbn. apply IH. apply send1_nodup. exact ND. Qed.

  Lemma bank_fold_sum : forall d0 L m, NoDup (map fst m) -> sumZ (wden d0) (fold_left bank_step L m) = sumZ (wden d0) m.
  Proof.
    induction L as [|kv L IH]; intros m ND; [reflexivity|]. cbn [fold_left].
    rewrite IH by (apply send1_nodup; exact ND). apply sum_send1; assumption.
  Qed.
End BankFold.

Lemma bank_execute_char : forall from to s, from <> to -> NoDup (map fst (bal s)) ->
  forall a d, bal_of (bank_move from to s) a d =
    if a =? to then bal_of s to d + bal_of s from d else if a =? from then 0 else bal_of s a d.
Proof.
  intros from to s N ND a d. unfold bal_of, bank_move. cbn [bal set_bal].
  change (match sget k2_eqb (a, d) ?m with Some x => x | None => 0 end) with (get_bal a d m).
  pose proof (bank_fold_get from to N (filter (fun kv : k2 * Z => fst (fst kv) =? from) (bal s)) (bal s)) as H.
  unfold bank_step in H. rewrite H; clear H.
  - rewrite (sget_filter_key k2_eqb k2_eqb_ok (fun k : k2 => fst k =? from)) by (cbn; apply Z.eqb_refl).
    unfold get_bal. destruct (sget k2_eqb (from, d) (bal s)) as [x|] eqn:E.
    + destruct (a =? to); [reflexivity|]. destruct (a =? from); [lia | reflexivity].
    + destruct (Z.eqb_spec a to) as [->|]; [lia|]. destruct (Z.eqb_spec a from) as [->|]; [|reflexivity].
      rewrite E. reflexivity.
  - apply (filter_nodup_keys (fun kv : k2 * Z => fst (fst kv) =? from)). exact ND.
  - intros kv I. apply filter_In in I. destruct I as [_ I]. apply Z.eqb_eq in I. exact I.
Qed.

Lemma bank_execute_supply : forall from to s d, from <> to -> NoDup (map fst (bal s)) ->
  supply (bank_move from to s) d = supply s d.
Proof.
  intros from to s d N ND. unfold supply, bank_move. cbn [bal set_bal].
  change (fun kv : k2 * Z => if snd (fst kv) =? d then snd kv else 0) with (wden d).
  apply (bank_fold_sum from to N). exact ND.
Qed.
