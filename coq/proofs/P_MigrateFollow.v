(* P_MigrateFollow.v — follow-up transactions (delegate, undelegate, withdraw) preserve the relation `sim`
   between the migrated world and the world without migration: whatever the source could have done, the
   target can do with the same result up to renaming; hence every sequence of follow-ups commutes with
   the migration.  The validator side (`env`, `ask`, `env_next`) is universally quantified. *)
From Coq Require Import ZArith List Bool Lia Permutation.
From FxV Require Import model.M_Migrate model.M_MigrateSpec model.M_MigrateFollow
  proofs.P_MigrateBase proofs.P_MigrateAuth proofs.P_MigrateMove proofs.P_MigrateExec proofs.P_MigrateChar
  proofs.P_MigrateMoved proofs.P_MigrateIdx proofs.P_MigrateInv proofs.P_MigrateMature proofs.P_MigrateHist.
Import ListNotations.
Open Scope Z_scope.

(* ---------- point lookups ---------- *)
Definition at2 (b w a v : Z) : bool := (b =? a) && (w =? v).

Lemma at2_true : forall b w a v, at2 b w a v = true <-> (b, w) = (a, v).
Proof.
  intros. unfold at2. rewrite andb_true_iff, !Z.eqb_eq. split; [intros [-> ->]; reflexivity | intros E; inversion E; auto].
Qed.

Lemma sget_sset_k2 {V} : forall b w a v (x : V) m,
  sget k2_eqb (b, w) (sset k2_eqb (a, v) x m) = if at2 b w a v then Some x else sget k2_eqb (b, w) m.
Proof.
  intros. destruct (at2 b w a v) eqn:E.
  - apply at2_true in E. rewrite E. apply (sget_sset_same k2_eqb k2_eqb_ok).
  - apply (sget_sset_other k2_eqb k2_eqb_ok). intros X. apply at2_true in X. congruence.
Qed.

Lemma sget_sdel_k2 {V} : forall b w a v (m : list (Z * Z * V)),
  sget k2_eqb (b, w) (sdel k2_eqb (a, v) m) = if at2 b w a v then None else sget k2_eqb (b, w) m.
Proof.
  intros. destruct (at2 b w a v) eqn:E.
  - apply at2_true in E. rewrite E. apply (sget_sdel_same k2_eqb).
  - apply (sget_sdel_other k2_eqb k2_eqb_ok). intros X. apply at2_true in X. congruence.
Qed.

(* the relation between the two worlds survives a point update made at (a, v) in one and at (ren a, v) in the other *)
Lemma rel_update {V} (F : option V -> option V) (from to a v : Z) (x : option V)
      (G G' H H' : Z -> Z -> option V) :
  from <> to -> a <> to -> F None = None ->
  (forall b w, G' b w = sel from to b (F (G from w)) None (G b w)) ->
  (forall w, G to w = None) ->
  (forall b w, H b w = if at2 b w a v then x else G b w) ->
  (forall b w, H' b w = if at2 b w (ren_addr from to a) v then (if a =? from then F x else x) else G' b w) ->
  (forall b w, H' b w = sel from to b (F (H from w)) None (H b w)) /\ (forall w, H to w = None).
Proof.
  intros Hft Na F0 R C Hh Hh'. split.
  - intros b w. rewrite Hh', R, !Hh. unfold ren_addr, sel, at2.
    destruct (Z.eqb_spec a from) as [->|Naf].
    + (* the migrant acts *)
      destruct (Z.eqb_spec b to) as [->|Nbt].
      * rewrite Z.eqb_refl. cbn [andb]. destruct (w =? v); reflexivity.
      * cbn [andb]. destruct (Z.eqb_spec b from) as [->|Nbf]; [|reflexivity].
        reflexivity.
    + destruct (Z.eqb_spec b to) as [->|Nbt].
      * replace (to =? a) with false by (symmetry; apply Z.eqb_neq; congruence).
        replace (from =? a) with false by (symmetry; apply Z.eqb_neq; congruence). reflexivity.
      * destruct (Z.eqb_spec b from) as [->|Nbf].
        -- replace (from =? a) with false by (symmetry; apply Z.eqb_neq; congruence). reflexivity.
        -- destruct ((b =? a) && (w =? v)); reflexivity.
  - intros w. rewrite Hh. unfold at2. replace (to =? a) with false by (symmetry; apply Z.eqb_neq; congruence). apply C.
Qed.

(* ---------- balances ---------- *)
Lemma bal_of_credit : forall c d x s b d',
  bal_of (credit c d x s) b d' = bal_of s b d' + (if at2 b d' c d then x else 0).
Proof.
  intros. unfold credit, bal_of. destruct (Z.eqb_spec x 0) as [->|Nx].
  - destruct (at2 b d' c d); lia.
  - cbn [bal set_bal]. change (match sget k2_eqb (b, d') ?m with Some y => y | None => 0 end) with (get_bal b d' m).
    destruct (at2 b d' c d) eqn:E.
    + apply at2_true in E. inversion E. subst. rewrite get_bal_put_same. reflexivity.
    + rewrite get_bal_put_other; [lia|]. intros X. apply at2_true in X. congruence.
Qed.

Lemma credit_keeps : forall c d x s,
  start (credit c d x s) = start s /\ stake (credit c d x s) = stake s /\ cfg (credit c d x s) = cfg s /\
  now (credit c d x s) = now s /\ height (credit c d x s) = height s /\ gov (credit c d x s) = gov s /\
  mig (credit c d x s) = mig s.
Proof. intros. unfold credit. destruct (x =? 0); repeat split; reflexivity. Qed.

Lemma credit_bal_nodup : forall c d x s, NoDup (map fst (bal s)) -> NoDup (map fst (bal (credit c d x s))).
Proof. intros. unfold credit. destruct (x =? 0); [assumption|]. cbn. apply put_bal_nodup. assumption. Qed.

(* ---------- what one follow-up transaction does, as a point update ---------- *)
Record effect := {
  e_del : option del_rec; e_start : option start_rec; e_ubd : option ubd_rec;
  e_da : Z;              (* change of the actor's balance of the bond denom *)
  e_dp : Z;              (* change of the not-bonded pool *)
  e_q : option time      (* a pair (actor, validator) appended to this queue slice *)
}.

Definition applied (s : state) (a v : Z) (f : effect) (t : state) : Prop :=
  (forall b w, del_of t b w = if at2 b w a v then e_del f else del_of s b w) /\
  (forall b w, start_of t b w = if at2 b w a v then e_start f else start_of s b w) /\
  (forall b w, ubd_of t b w = if at2 b w a v then e_ubd f else ubd_of s b w) /\
  (forall b d, bal_of t b d = bal_of s b d + (if at2 b d a (bond_denom (cfg s)) then e_da f else 0)
                                          + (if at2 b d (pool_nb (cfg s)) (bond_denom (cfg s)) then e_dp f else 0)) /\
  (forall tau, ubd_slice t tau =
     match e_q f with Some qt => if tau =? qt then ubd_slice s tau ++ [(a, v)] else ubd_slice s tau | None => ubd_slice s tau end) /\
  cfg t = cfg s /\ now t = now s /\ height t = height s.

Definition eff_of (o : fop) (s : state) (ans : vans) : effect :=
  match o with
  | FWithdraw a v =>
    {| e_del := del_of s a v; e_start := Some (a_start ans); e_ubd := ubd_of s a v;
       e_da := a_reward ans; e_dp := 0; e_q := None |}
  | FDelegate a v amt =>
    {| e_del := Some {| d_del := a; d_val := v;
                        d_shares := (match del_of s a v with Some r => d_shares r | None => 0 end) + a_amt ans |};
       e_start := Some (a_start ans); e_ubd := ubd_of s a v;
       e_da := (match del_of s a v with Some _ => a_reward ans | None => 0 end) - amt;
       e_dp := if a_bonded ans then 0 else amt; e_q := None |}
  | FUndelegate a v sh =>
    let rest := (match del_of s a v with Some r => d_shares r | None => 0 end) - sh in
    let olde := match ubd_of s a v with Some u => u_entries u | None => [] end in
    {| e_del := if rest =? 0 then None else Some {| d_del := a; d_val := v; d_shares := rest |};
       e_start := if rest =? 0 then None else Some (a_start ans);
       e_ubd := Some {| u_del := a; u_val := v;
                        u_entries := fst (add_entry (height s) (a_time ans) (a_amt ans) (a_id ans) olde) |};
       e_da := a_reward ans; e_dp := if a_bonded ans then a_amt ans else 0; e_q := Some (a_time ans) |}
  | FRedelegate a v _ _ =>   (* two updates: treated in P_MigrateFollowR.v *)
    {| e_del := del_of s a v; e_start := start_of s a v; e_ubd := ubd_of s a v; e_da := 0; e_dp := 0; e_q := None |}
  end.

Definition fquery (o : fop) (s : state) : query :=
  match o with
  | FDelegate a v amt => mkq 1 s a v amt
  | FUndelegate a v sh => mkq 2 s a v sh
  | FWithdraw a v => mkq 3 s a v 0
  | FRedelegate a v _ sh => mkq 4 s a v sh
  end.

Definition fval (o : fop) : Z := match o with FDelegate _ v _ => v | FUndelegate _ v _ => v | FWithdraw _ v => v | FRedelegate _ v _ _ => v end.
Definition is_red (o : fop) : bool := match o with FRedelegate _ _ _ _ => true | _ => false end.

Lemma qget_sset : forall {P} t t' (l : list P) q, qget t' (sset Z.eqb t l q) = if t' =? t then l else qget t' q.
Proof.
  intros. unfold qget. destruct (Z.eqb_spec t' t) as [->|N].
  - rewrite (sget_sset_same Z.eqb Zeqb_ok). reflexivity.
  - rewrite (sget_sset_other Z.eqb Zeqb_ok) by exact N. reflexivity.
Qed.

Section Spec.
  Variable env : Type.
  Variable ask : env -> query -> vans.
  Variable env_next : env -> query -> env.

  Lemma withdraw_applied : forall e s a v e1 t,
    f_withdraw env ask env_next e s a v = Ok (e1, t) ->
    e1 = env_next e (mkq 3 s a v 0) /\ applied s a v (eff_of (FWithdraw a v) s (ask e (mkq 3 s a v 0))) t.
  Proof.
    intros e s a v e1 t. unfold f_withdraw. fold (del_of s a v).
    destruct (del_of s a v) as [r|] eqn:D; [|discriminate]. intros H. inversion H. subst. clear H.
    split; [reflexivity|]. set (ans := ask e (mkq 3 s a v 0)).
    destruct (credit_keeps a (bond_denom (cfg s)) (a_reward ans) s) as (Ks & Kk & Kc & Kn & Kh & _).
    unfold applied. cbn [eff_of e_del e_start e_ubd e_da e_dp e_q]. repeat split.
    - intros b w. unfold del_of. cbn [stake set_start]. rewrite Kk. fold (del_of s b w).
      destruct (at2 b w a v) eqn:E; [|reflexivity]. apply at2_true in E. inversion E. reflexivity.
    - intros b w. unfold start_of. cbn [start set_start]. rewrite Ks. apply sget_sset_k2.
    - intros b w. unfold ubd_of. cbn [stake set_start]. rewrite Kk.
      destruct (at2 b w a v) eqn:E; [|reflexivity]. apply at2_true in E. inversion E. reflexivity.
    - intros b d. unfold bal_of at 1. cbn [bal set_start]. fold (bal_of (credit a (bond_denom (cfg s)) (a_reward ans) s) b d).
      rewrite bal_of_credit. destruct (at2 b d (pool_nb (cfg s)) (bond_denom (cfg s))); lia.
    - intros tau. unfold ubd_slice. cbn [stake set_start]. rewrite Kk. reflexivity.
    - cbn. exact Kc. - cbn. exact Kn. - cbn. exact Kh.
  Qed.
End Spec.

Definition same_rest (s0 s : state) : Prop :=
  start s0 = start s /\ stake s0 = stake s /\ cfg s0 = cfg s /\ now s0 = now s /\ height s0 = height s.

Lemma same_rest_refl : forall s, same_rest s s.
Proof. intros. repeat split. Qed.

Lemma same_rest_credit : forall c d x s0 s, same_rest s0 s -> same_rest (credit c d x s0) s.
Proof.
  intros c d x s0 s (A & B & C & D & E). destruct (credit_keeps c d x s0) as (A' & B' & C' & D' & E' & _).
  repeat split; congruence.
Qed.

Lemma add_entry_nonempty : forall h t x id es, fst (add_entry h t x id es) <> [].
Proof.
  intros h t x id es. induction es as [|e r IH]; cbn; [discriminate|].
  destruct ((ue_height e =? h) && (ue_time e =? t)); cbn; [discriminate|].
  destruct (add_entry h t x id r); cbn. discriminate.
Qed.

Lemma add_entry_times : forall h t x id es e, In e (fst (add_entry h t x id es)) ->
  ue_time e = t \/ exists e0, In e0 es /\ ue_time e0 = ue_time e.
Proof.
  intros h t x id es. induction es as [|e0 r IH]; intros e I; cbn in I.
  - destruct I as [<-|[]]. left. reflexivity.
  - destruct ((ue_height e0 =? h) && (ue_time e0 =? t)) eqn:E; cbn in I.
    + destruct I as [<-|I]; right; [exists e0; split; [left; reflexivity | reflexivity] | exists e; split; [right; exact I | reflexivity]].
    + destruct (add_entry h t x id r) as [r' n] eqn:A. cbn in I. destruct I as [<-|I].
      * right. exists e0. split; [left; reflexivity | reflexivity].
      * cbn in IH. destruct (IH e I) as [X|[e1 [I1 X]]]; [left; exact X | right; exists e1; split; [right; exact I1 | exact X]].
Qed.

Section Spec2.
  Variable env : Type.
  Variable ask : env -> query -> vans.
  Variable env_next : env -> query -> env.

  Lemma delegate_applied : forall e s a v amt e1 t,
    f_delegate env ask env_next e s a v amt = Ok (e1, t) ->
    e1 = env_next e (mkq 1 s a v amt) /\ applied s a v (eff_of (FDelegate a v amt) s (ask e (mkq 1 s a v amt))) t.
  Proof.
    intros e s a v amt e1 t. unfold f_delegate. set (ans := ask e (mkq 1 s a v amt)).
    set (d := bond_denom (cfg s)). fold (del_of s a v).
    set (s1 := match del_of s a v with Some _ => credit a d (a_reward ans) s | None => s end).
    destruct (bal_of s1 a d <? amt); [discriminate|]. intros H. inversion H. subst e1. clear H.
    split; [reflexivity|].
    set (s2 := credit a d (- amt) s1). set (s3 := if a_bonded ans then s2 else credit (pool_nb (cfg s)) d amt s2) in *.
    assert (R1 : same_rest s1 s) by (unfold s1; destruct (del_of s a v); [apply same_rest_credit|]; apply same_rest_refl).
    assert (R3 : same_rest s3 s).
    { unfold s3, s2. destruct (a_bonded ans); repeat apply same_rest_credit; exact R1. }
    destruct R3 as (Ks & Kk & Kc & Kn & Kh).
    assert (B3 : forall b d', bal_of s3 b d' = bal_of s b d'
              + (if at2 b d' a d then (match del_of s a v with Some _ => a_reward ans | None => 0 end) - amt else 0)
              + (if at2 b d' (pool_nb (cfg s)) d then (if a_bonded ans then 0 else amt) else 0)).
    { intros b d'. unfold s3, s2, s1. destruct (a_bonded ans); rewrite ?bal_of_credit; destruct (del_of s a v);
        rewrite ?bal_of_credit; destruct (at2 b d' a d); destruct (at2 b d' (pool_nb (cfg s)) d); lia. }
    subst t. unfold applied. cbn [eff_of e_del e_start e_ubd e_da e_dp e_q]. repeat split.
    - intros b w. unfold del_of at 1. unfold set_dels_start. cbn [stake set_stake set_dels dels]. rewrite Kk.
      rewrite sget_sset_k2. reflexivity.
    - intros b w. unfold start_of at 1. unfold set_dels_start. cbn [start set_stake set_start]. rewrite Ks.
      apply sget_sset_k2.
    - intros b w. unfold ubd_of at 1. unfold set_dels_start. cbn [stake set_stake set_dels ubds]. rewrite Kk.
      destruct (at2 b w a v) eqn:E; [|reflexivity]. apply at2_true in E. inversion E. reflexivity.
    - intros b d'. unfold bal_of at 1. unfold set_dels_start. cbn [bal set_stake set_start]. apply B3.
    - intros tau. unfold ubd_slice. unfold set_dels_start. cbn [stake set_stake set_dels ubdq]. rewrite Kk. reflexivity.
    - unfold set_dels_start. cbn. exact Kc.
    - unfold set_dels_start. cbn. exact Kn.
    - unfold set_dels_start. cbn. exact Kh.
  Qed.
End Spec2.

Section Spec3.
  Variable env : Type.
  Variable ask : env -> query -> vans.
  Variable env_next : env -> query -> env.

  Lemma ubd_key_at : forall s a v, wfP s ->
    match sget k2_eqb (a, v) (ubds (stake s)) with Some u => (u_del u, u_val u) | None => (a, v) end = (a, v).
  Proof.
    intros s a v W. destruct (sget k2_eqb (a, v) (ubds (stake s))) as [u|] eqn:E; [|reflexivity].
    apply (sget_in k2_eqb k2_eqb_ok) in E. pose proof (wf_ubdk s W _ E) as K. cbn in K. symmetry. exact K.
  Qed.

  Lemma undelegate_applied : forall e s a v sh e1 t, wfP s ->
    f_undelegate env ask env_next e s a v sh = Ok (e1, t) ->
    e1 = env_next e (mkq 2 s a v sh) /\ applied s a v (eff_of (FUndelegate a v sh) s (ask e (mkq 2 s a v sh))) t.
  Proof.
    intros e s a v sh e1 t W. unfold f_undelegate. rewrite (ubd_key_at s a v W).
    fold (del_of s a v) (ubd_of s a v). destruct (del_of s a v) as [r|] eqn:D; [|discriminate].
    destruct (d_shares r <? sh); [discriminate|]. set (ans := ask e (mkq 2 s a v sh)).
    set (olde := match ubd_of s a v with Some u => u_entries u | None => [] end).
    destruct (a_max ans <=? Z.of_nat (length olde)); [discriminate|].
    set (d := bond_denom (cfg s)). set (s1 := credit a d (a_reward ans) s).
    set (s2 := if a_bonded ans then credit (pool_nb (cfg s)) d (a_amt ans) s1 else s1).
    assert (R2 : same_rest s2 s).
    { unfold s2, s1. destruct (a_bonded ans); repeat apply same_rest_credit; apply same_rest_refl. }
    destruct R2 as (Ks & Kk & Kc & Kn & Kh).
    assert (B2 : forall b d', bal_of s2 b d' = bal_of s b d' + (if at2 b d' a d then a_reward ans else 0)
              + (if at2 b d' (pool_nb (cfg s)) d then (if a_bonded ans then a_amt ans else 0) else 0)).
    { intros b d'. unfold s2, s1. destruct (a_bonded ans); rewrite ?bal_of_credit;
        destruct (at2 b d' a d); destruct (at2 b d' (pool_nb (cfg s)) d); lia. }
    destruct (add_entry (height s) (a_time ans) (a_amt ans) (a_id ans) olde) as [es isnew] eqn:A.
    cbn [fst snd]. intros H. inversion H. subst e1. clear H. split; [reflexivity|]. subst t.
    unfold applied. cbn [eff_of e_del e_start e_ubd e_da e_dp e_q]. rewrite D. fold olde. rewrite A. cbn [fst].
    assert (P : forall X Y, stake (set_stake X Y) = Y) by reflexivity.
    repeat split.
    - intros b w. unfold del_of at 1. rewrite P.
      destruct isnew; destruct (d_shares r - sh =? 0); unfold set_dels_start;
        cbn [set_unbidx set_ubd stake set_stake set_dels dels]; rewrite ?sget_sdel_k2, ?sget_sset_k2; reflexivity.
    - intros b w. unfold start_of at 1.
      destruct (d_shares r - sh =? 0); unfold set_dels_start; cbn [start set_stake set_start]; rewrite Ks;
        rewrite ?sget_sdel_k2, ?sget_sset_k2; reflexivity.
    - intros b w. unfold ubd_of at 1. rewrite P.
      destruct isnew; destruct (d_shares r - sh =? 0); unfold set_dels_start;
        cbn [set_unbidx set_ubd stake set_stake set_dels ubds]; rewrite Kk; rewrite sget_sset_k2; reflexivity.
    - intros b d'. unfold bal_of at 1.
      destruct (d_shares r - sh =? 0); unfold set_dels_start; cbn [bal set_stake set_start]; apply B2.
    - intros tau. unfold ubd_slice at 1. rewrite P.
      destruct isnew; destruct (d_shares r - sh =? 0); unfold set_dels_start;
        cbn [set_unbidx set_ubd stake set_stake set_dels ubdq]; rewrite Kk; rewrite qget_sset;
        destruct (tau =? a_time ans) eqn:E; try reflexivity; apply Z.eqb_eq in E; subst tau; reflexivity.
    - destruct (d_shares r - sh =? 0); unfold set_dels_start; cbn; exact Kc.
    - destruct (d_shares r - sh =? 0); unfold set_dels_start; cbn; exact Kn.
    - destruct (d_shares r - sh =? 0); unfold set_dels_start; cbn; exact Kh.
  Qed.
End Spec3.

(* ---------- a pair of related point updates keeps the two worlds related ---------- *)
Definition eff_ren (from to a : Z) (f : effect) : effect :=
  {| e_del := if a =? from then option_map (to_del to) (e_del f) else e_del f;
     e_start := e_start f;
     e_ubd := if a =? from then option_map (to_ubd to) (e_ubd f) else e_ubd f;
     e_da := e_da f; e_dp := e_dp f; e_q := e_q f |}.

Lemma sim_applied : forall from to a v s s' f t t',
  from <> to -> a <> to -> pool_nb (cfg s) <> from -> pool_nb (cfg s) <> to ->
  sim from to s s' ->
  applied s a v f t -> applied s' (ren_addr from to a) v (eff_ren from to a f) t' ->
  wfP t -> wfP t' -> qcoverP t -> qcoverP t' ->
  sim from to t t'.
Proof.
  intros from to a v s s' f t t' Hft Na Npf Npt S (Ad & As & Au & Ab & Aq & Ac & An & Ah)
         (Ad' & As' & Au' & Ab' & Aq' & Ac' & An' & Ah') W W' Q Q'.
  pose proof (sm_cfg _ _ _ _ S) as Sc.
  destruct (rel_update (option_map (to_del to)) from to a v (e_del f) (del_of s) (del_of s') (del_of t) (del_of t')
              Hft Na eq_refl (sm_del _ _ _ _ S) (fun w => proj1 (sm_clean _ _ _ _ S w)) Ad Ad') as [Rd Cd].
  destruct (rel_update (fun x => x) from to a v (e_start f) (start_of s) (start_of s') (start_of t) (start_of t')
              Hft Na eq_refl (sm_start _ _ _ _ S) (fun w => proj1 (proj2 (sm_clean _ _ _ _ S w))) As) as [Rs Cs].
  { intros b w. rewrite As'. cbn [eff_ren e_start]. destruct (a =? from); reflexivity. }
  destruct (rel_update (option_map (to_ubd to)) from to a v (e_ubd f) (ubd_of s) (ubd_of s') (ubd_of t) (ubd_of t')
              Hft Na eq_refl (sm_ubd _ _ _ _ S) (fun w => proj2 (proj2 (sm_clean _ _ _ _ S w))) Au Au') as [Ru Cu].
  constructor; try assumption.
  - congruence.
  - rewrite An', An. apply (sm_now _ _ _ _ S).
  - rewrite Ah', Ah. apply (sm_height _ _ _ _ S).
  - intros w. repeat split; [apply Cd | apply Cs | apply Cu].
  - intros d. rewrite Ab. pose proof (sm_nonneg _ _ _ _ S d) as N0. unfold at2.
    replace (to =? a) with false by (symmetry; apply Z.eqb_neq; congruence).
    replace (to =? pool_nb (cfg s)) with false by (symmetry; apply Z.eqb_neq; congruence). cbn [andb]. lia.
  - intros b d. rewrite Ab', !Ab, (sm_bal _ _ _ _ S), Sc. cbn [eff_ren e_da e_dp]. unfold sel, at2, ren_addr.
    set (p := pool_nb (cfg s)). set (bd := bond_denom (cfg s)).
    assert (Np1 : p <> from) by exact Npf. assert (Np2 : p <> to) by exact Npt. clearbody p bd.
    destruct (Z.eqb_spec a from) as [->|Naf];
    repeat match goal with |- context [?x =? ?y] => destruct (Z.eqb_spec x y); subst end;
      cbn [andb]; try lia; try congruence.
  - intros tau. rewrite Aq, Aq'. cbn [eff_ren e_q]. pose proof (sm_q _ _ _ _ S tau) as R.
    destruct (e_q f) as [qt|]; [|exact R]. destruct (tau =? qt); [|exact R].
    apply Forall2_app; [exact R|]. constructor; [|constructor]. unfold ren_addr.
    destruct (Z.eqb_spec a from) as [->|]; [right; split; reflexivity | left; reflexivity].
Qed.

(* ---------- follow-ups keep well-formedness and queue coverage (any world) ---------- *)
Lemma in_sset_k2 {V} : forall (kv : Z * Z * V) k x m, In kv (sset k2_eqb k x m) -> kv = (k, x) \/ In kv m.
Proof. intros kv k x m [E|I]; [left; symmetry; exact E | right; eapply in_sdel; exact I]. Qed.

Lemma keys_sset_mono {V} : forall k k0 (x : V) m, In k (map fst m) -> In k (map fst (sset k2_eqb k0 x m)).
Proof.
  intros k k0 x m I. destruct (eqb_dec k2_eqb k2_eqb_ok k k0) as [->|N]; [left; reflexivity|]. right.
  apply in_map_iff in I. destruct I as [kv [E I]]. apply in_map_iff. exists kv. split; [exact E|].
  rewrite (sdel_filter k2_eqb). apply filter_In. split; [exact I|]. apply negb_true_iff.
  apply (eqb_neq k2_eqb k2_eqb_ok). congruence.
Qed.

Lemma keys_sset_inv {V} : forall k k0 (x : V) m, In k (map fst (sset k2_eqb k0 x m)) -> k = k0 \/ In k (map fst m).
Proof.
  intros k k0 x m [E|I]; [left; symmetry; exact E | right]. apply (sdel_keys_incl k2_eqb k2_eqb_ok) in I. tauto.
Qed.

Lemma keys_sdel_mono {V} : forall k k0 (m : list (Z * Z * V)), In k (map fst m) -> k <> k0 -> In k (map fst (sdel k2_eqb k0 m)).
Proof.
  intros k k0 m I N. apply in_map_iff in I. destruct I as [kv [E I]]. apply in_map_iff. exists kv. split; [exact E|].
  rewrite (sdel_filter k2_eqb). apply filter_In. split; [exact I|]. apply negb_true_iff.
  apply (eqb_neq k2_eqb k2_eqb_ok). congruence.
Qed.

(* the shape of the state after a follow-up, list level *)
Record fshape (s : state) (a v : Z) (t : state) : Prop := {
  fs_bal : NoDup (map fst (bal s)) -> NoDup (map fst (bal t));
  fs_start : start t = start s \/ (exists x, start t = sset k2_eqb (a, v) x (start s)) \/ start t = sdel k2_eqb (a, v) (start s);
  fs_dels : dels (stake t) = dels (stake s) \/
            (exists sh, dels (stake t) = sset k2_eqb (a, v) {| d_del := a; d_val := v; d_shares := sh |} (dels (stake s))) \/
            dels (stake t) = sdel k2_eqb (a, v) (dels (stake s));
  fs_sd : (* starting info and delegation at (a, v) exist together *)
          shas k2_eqb (a, v) (start t) = true -> shas k2_eqb (a, v) (dels (stake t)) = true;
  fs_ubds : (ubds (stake t) = ubds (stake s) /\ ubdq (stake t) = ubdq (stake s)) \/
            (exists es tm, es <> [] /\
               (forall e, In e es -> ue_time e = tm \/ exists u e0, ubd_of s a v = Some u /\ In e0 (u_entries u) /\ ue_time e0 = ue_time e) /\
               ubds (stake t) = sset k2_eqb (a, v) {| u_del := a; u_val := v; u_entries := es |} (ubds (stake s)) /\
               ubdq (stake t) = sset Z.eqb tm (qget tm (ubdq (stake s)) ++ [(a, v)]) (ubdq (stake s)));
  fs_reds : reds (stake t) = reds (stake s) /\ redq (stake t) = redq (stake s)
}.

Lemma fshape_wf : forall s a v t, fshape s a v t -> wfP s -> wfP t.
Proof.
  intros s a v t F W. constructor.
  - apply (fs_bal _ _ _ _ F), (wf_bal s W).
  - destruct (fs_start _ _ _ _ F) as [E|[[x E]|E]]; rewrite E;
      [| apply (sset_nodup k2_eqb k2_eqb_ok) | apply (sdel_nodup k2_eqb k2_eqb_ok)]; apply (wf_start s W).
  - destruct (fs_dels _ _ _ _ F) as [E|[[x E]|E]]; rewrite E;
      [| apply (sset_nodup k2_eqb k2_eqb_ok) | apply (sdel_nodup k2_eqb k2_eqb_ok)]; apply (wf_dels s W).
  - destruct (fs_ubds _ _ _ _ F) as [[E _]|(es & tm & _ & _ & E & _)]; rewrite E;
      [| apply (sset_nodup k2_eqb k2_eqb_ok)]; apply (wf_ubds s W).
  - rewrite (proj1 (fs_reds _ _ _ _ F)). apply (wf_reds s W).
  - intros kv I. destruct (fs_dels _ _ _ _ F) as [E|[[x E]|E]]; rewrite E in I.
    + apply (wf_delk s W kv I).
    + apply in_sset_k2 in I. destruct I as [->|I]; [reflexivity | apply (wf_delk s W kv I)].
    + apply in_sdel in I. apply (wf_delk s W kv I).
  - intros kv I. destruct (fs_ubds _ _ _ _ F) as [[E _]|(es & tm & _ & _ & E & _)]; rewrite E in I.
    + apply (wf_ubdk s W kv I).
    + apply in_sset_k2 in I. destruct I as [->|I]; [reflexivity | apply (wf_ubdk s W kv I)].
  - intros kv I. rewrite (proj1 (fs_reds _ _ _ _ F)) in I. apply (wf_redk s W kv I).
  - intros k I. destruct (eqb_dec k2_eqb k2_eqb_ok k (a, v)) as [->|N].
    + apply (shas_true_iff k2_eqb k2_eqb_ok). apply (fs_sd _ _ _ _ F). apply (shas_true_iff k2_eqb k2_eqb_ok). exact I.
    + assert (I0 : In k (map fst (start s))).
      { destruct (fs_start _ _ _ _ F) as [E|[[x E]|E]]; rewrite E in I; [exact I | |].
        - apply keys_sset_inv in I. destruct I; [contradiction | assumption].
        - apply (sdel_keys_incl k2_eqb k2_eqb_ok) in I. tauto. }
      apply (wf_startdel s W) in I0.
      destruct (fs_dels _ _ _ _ F) as [E|[[x E]|E]]; rewrite E;
        [exact I0 | apply keys_sset_mono; exact I0 | apply keys_sdel_mono; assumption].
Qed.

Lemma fshape_qc : forall s a v t, fshape s a v t -> wfP s -> qcoverP s -> qcoverP t.
Proof.
  intros s a v t F W Q. destruct (fs_reds _ _ _ _ F) as [Er Eq].
  destruct (fs_ubds _ _ _ _ F) as [[Eu Euq]|(es & tm & Ne & Tm & Eu & Euq)].
  - constructor.
    + intros kv e I E. rewrite Eu in I. unfold ubd_slice. rewrite Euq. apply (qc_ubd s Q kv e I E).
    + intros kv e I E. rewrite Er in I. unfold red_slice. rewrite Eq. apply (qc_red s Q kv e I E).
    + intros kv I. rewrite Eu in I. apply (qc_ubd_ne s Q kv I).
    + intros kv I. rewrite Er in I. apply (qc_red_ne s Q kv I).
    + rewrite Euq. apply (qc_ubdq s Q).
    + rewrite Eq. apply (qc_redq s Q).
  - assert (Grow : forall p tau, In p (ubd_slice s tau) -> In p (ubd_slice t tau)).
    { intros p tau I. unfold ubd_slice. rewrite Euq, qget_sset. destruct (Z.eqb_spec tau tm) as [->|]; [|exact I].
      apply in_or_app. left. exact I. }
    constructor.
    + intros kv e I E. rewrite Eu in I. apply in_sset_k2 in I. destruct I as [->|I].
      * cbn [fst snd u_entries] in *. destruct (Tm e E) as [T|(u & e0 & G & I0 & T)].
        -- unfold ubd_slice. rewrite Euq, qget_sset, T, Z.eqb_refl. apply in_or_app. right. left. reflexivity.
        -- apply Grow. rewrite <- T. unfold ubd_of in G. apply (sget_in k2_eqb k2_eqb_ok) in G.
           apply (qc_ubd s Q ((a, v), u) e0 G I0).
      * apply Grow. apply (qc_ubd s Q kv e I E).
    + intros kv e I E. rewrite Er in I. unfold red_slice. rewrite Eq. apply (qc_red s Q kv e I E).
    + intros kv I. rewrite Eu in I. apply in_sset_k2 in I. destruct I as [->|I]; [exact Ne | apply (qc_ubd_ne s Q kv I)].
    + intros kv I. rewrite Er in I. apply (qc_red_ne s Q kv I).
    + rewrite Euq. apply (sset_nodup Z.eqb Zeqb_ok). apply (qc_ubdq s Q).
    + rewrite Eq. apply (qc_redq s Q).
Qed.

Lemma nested_credit_nodup : forall s0 s, bal s0 = bal s \/ True -> True. Proof. auto. Qed.

Section Shapes.
  Variable env : Type.
  Variable ask : env -> query -> vans.
  Variable env_next : env -> query -> env.

  Lemma withdraw_shape : forall e s a v e1 t,
    f_withdraw env ask env_next e s a v = Ok (e1, t) -> fshape s a v t.
  Proof.
    intros e s a v e1 t. unfold f_withdraw. destruct (sget k2_eqb (a, v) (dels (stake s))) as [r|] eqn:D; [|discriminate].
    intros H. inversion H. subst. clear H. set (ans := ask e (mkq 3 s a v 0)).
    destruct (credit_keeps a (bond_denom (cfg s)) (a_reward ans) s) as (Ks & Kk & _).
    constructor; cbn [bal start stake set_start].
    - apply credit_bal_nodup.
    - right. left. eexists. rewrite Ks. reflexivity.
    - left. rewrite Kk. reflexivity.
    - intros _. rewrite Kk. unfold shas. rewrite D. reflexivity.
    - left. rewrite Kk. split; reflexivity.
    - rewrite Kk. split; reflexivity.
  Qed.

  Lemma delegate_shape : forall e s a v amt e1 t,
    f_delegate env ask env_next e s a v amt = Ok (e1, t) -> fshape s a v t.
  Proof.
    intros e s a v amt e1 t. unfold f_delegate. set (ans := ask e (mkq 1 s a v amt)). set (d := bond_denom (cfg s)).
    set (s1 := match sget k2_eqb (a, v) (dels (stake s)) with Some _ => credit a d (a_reward ans) s | None => s end).
    destruct (bal_of s1 a d <? amt); [discriminate|]. intros H. inversion H. subst e1 t. clear H.
    set (s2 := credit a d (- amt) s1). set (s3 := if a_bonded ans then s2 else credit (pool_nb (cfg s)) d amt s2).
    assert (R3 : same_rest s3 s).
    { unfold s3, s2, s1. destruct (a_bonded ans); destruct (sget k2_eqb (a, v) (dels (stake s)));
        repeat apply same_rest_credit; apply same_rest_refl. }
    destruct R3 as (Ks & Kk & _).
    assert (B3 : NoDup (map fst (bal s)) -> NoDup (map fst (bal s3))).
    { intros N. unfold s3, s2, s1. destruct (a_bonded ans); destruct (sget k2_eqb (a, v) (dels (stake s)));
        repeat apply credit_bal_nodup; exact N. }
    constructor; unfold set_dels_start; cbn [bal start stake set_stake set_start set_dels dels ubds ubdq reds redq].
    - exact B3.
    - right. left. eexists. rewrite Ks. reflexivity.
    - right. left. eexists. rewrite Kk. reflexivity.
    - intros _. unfold shas. rewrite (sget_sset_same k2_eqb k2_eqb_ok). reflexivity.
    - left. rewrite Kk. split; reflexivity.
    - rewrite Kk. split; reflexivity.
  Qed.

  Lemma undelegate_shape : forall e s a v sh e1 t, wfP s ->
    f_undelegate env ask env_next e s a v sh = Ok (e1, t) -> fshape s a v t.
  Proof.
    intros e s a v sh e1 t W. unfold f_undelegate. rewrite (ubd_key_at s a v W).
    destruct (sget k2_eqb (a, v) (dels (stake s))) as [r|] eqn:D; [|discriminate].
    destruct (d_shares r <? sh); [discriminate|]. set (ans := ask e (mkq 2 s a v sh)).
    fold (ubd_of s a v). set (olde := match ubd_of s a v with Some u => u_entries u | None => [] end).
    destruct (a_max ans <=? Z.of_nat (length olde)); [discriminate|].
    set (d := bond_denom (cfg s)). set (s1 := credit a d (a_reward ans) s).
    set (s2 := if a_bonded ans then credit (pool_nb (cfg s)) d (a_amt ans) s1 else s1).
    assert (R2 : same_rest s2 s).
    { unfold s2, s1. destruct (a_bonded ans); repeat apply same_rest_credit; apply same_rest_refl. }
    destruct R2 as (Ks & Kk & _).
    assert (B2 : NoDup (map fst (bal s)) -> NoDup (map fst (bal s2))).
    { intros N. unfold s2, s1. destruct (a_bonded ans); repeat apply credit_bal_nodup; exact N. }
    pose proof (add_entry_nonempty (height s) (a_time ans) (a_amt ans) (a_id ans) olde) as NE.
    pose proof (add_entry_times (height s) (a_time ans) (a_amt ans) (a_id ans) olde) as TM.
    destruct (add_entry (height s) (a_time ans) (a_amt ans) (a_id ans) olde) as [es isnew] eqn:A.
    cbn [fst snd] in *. intros H. inversion H. subst e1 t. clear H.
    assert (P : forall X Y, stake (set_stake X Y) = Y) by reflexivity.
    constructor.
    - destruct (d_shares r - sh =? 0); unfold set_dels_start; cbn [bal set_stake set_start]; exact B2.
    - destruct (d_shares r - sh =? 0); unfold set_dels_start; cbn [start set_stake set_start]; rewrite Ks;
        [right; right; reflexivity | right; left; eexists; reflexivity].
    - rewrite P. destruct isnew; destruct (d_shares r - sh =? 0); unfold set_dels_start;
        cbn [set_unbidx set_ubd stake set_stake set_dels dels];
        solve [right; right; reflexivity | right; left; eexists; reflexivity].
    - rewrite P. unfold shas.
      destruct isnew; destruct (d_shares r - sh =? 0); unfold set_dels_start;
        cbn [set_unbidx set_ubd stake set_stake set_start set_dels dels start]; rewrite ?Ks;
        rewrite ?(sget_sdel_same k2_eqb), ?(sget_sset_same k2_eqb k2_eqb_ok); auto; discriminate.
    - right. exists es, (a_time ans). split; [exact NE|]. split.
      + intros e0 I. destruct (TM e0 I) as [T|[e1 [I1 T]]]; [left; exact T | right].
        unfold olde in I1. destruct (ubd_of s a v) as [u|] eqn:U; [|destruct I1]. exists u, e1. auto.
      + rewrite P. destruct isnew; destruct (d_shares r - sh =? 0); unfold set_dels_start;
          cbn [set_unbidx set_ubd stake set_stake set_dels ubds ubdq]; rewrite Kk; split; reflexivity.
    - rewrite P. destruct isnew; destruct (d_shares r - sh =? 0); unfold set_dels_start;
        cbn [set_unbidx set_ubd stake set_stake set_dels reds redq]; rewrite Kk; split; reflexivity.
  Qed.
End Shapes.

(* ---------- the step simulation ---------- *)
Section Simulation.
  Variable env : Type.
  Variable ask : env -> query -> vans.
  Variable env_next : env -> query -> env.
  Variables from to : Z.
  Hypothesis Hft : from <> to.

  Definition ren_fop (o : fop) : fop :=
    match o with
    | FDelegate a v amt => FDelegate (ren_addr from to a) v amt
    | FUndelegate a v sh => FUndelegate (ren_addr from to a) v sh
    | FWithdraw a v => FWithdraw (ren_addr from to a) v
    | FRedelegate a v w sh => FRedelegate (ren_addr from to a) v w sh
    end.

  Lemma sel_ren {A} : forall a (x y z : A), a <> to ->
    sel from to (ren_addr from to a) x y z = if a =? from then x else z.
  Proof.
    intros a x y z Na. unfold ren_addr, sel. destruct (Z.eqb_spec a from) as [->|Nf].
    - rewrite Z.eqb_refl. reflexivity.
    - replace (a =? to) with false by (symmetry; apply Z.eqb_neq; exact Na).
      replace (a =? from) with false by (symmetry; apply Z.eqb_neq; exact Nf). reflexivity.
  Qed.

  Section At.
    Variables (s s' : state) (a v : Z).
    Hypothesis S : sim from to s s'.
    Hypothesis Na : a <> to.
    Let a' := ren_addr from to a.

    Lemma at_del : del_of s' a' v = if a =? from then option_map (to_del to) (del_of s a v) else del_of s a v.
    Proof. unfold a'. rewrite (sm_del _ _ _ _ S), sel_ren by exact Na. destruct (Z.eqb_spec a from) as [->|N]; [reflexivity|]. unfold ren_addr. destruct (Z.eqb_spec a from); [contradiction | reflexivity]. Qed.
    Lemma at_start : start_of s' a' v = start_of s a v.
    Proof. unfold a'. rewrite (sm_start _ _ _ _ S), sel_ren by exact Na. destruct (Z.eqb_spec a from) as [->|N]; [reflexivity|]. unfold ren_addr. destruct (Z.eqb_spec a from); [contradiction | reflexivity]. Qed.
    Lemma at_ubd : ubd_of s' a' v = if a =? from then option_map (to_ubd to) (ubd_of s a v) else ubd_of s a v.
    Proof. unfold a'. rewrite (sm_ubd _ _ _ _ S), sel_ren by exact Na. destruct (Z.eqb_spec a from) as [->|N]; [reflexivity|]. unfold ren_addr. destruct (Z.eqb_spec a from); [contradiction | reflexivity]. Qed.

    Lemma at_shares : option_map d_shares (del_of s' a' v) = option_map d_shares (del_of s a v).
    Proof. rewrite at_del. destruct (a =? from); [|reflexivity]. destruct (del_of s a v); reflexivity. Qed.
    Lemma at_entries : match ubd_of s' a' v with Some u => u_entries u | None => [] end
                     = match ubd_of s a v with Some u => u_entries u | None => [] end.
    Proof. rewrite at_ubd. destruct (a =? from); [|reflexivity]. destruct (ubd_of s a v); reflexivity. Qed.

    Lemma at_query : forall k x, mkq k s' a' v x = mkq k s a v x.
    Proof.
      intros k x. unfold mkq. fold (start_of s' a' v) (start_of s a v) (del_of s' a' v) (del_of s a v).
      rewrite at_start, at_shares, (sm_now _ _ _ _ S), (sm_height _ _ _ _ S). reflexivity.
    Qed.

    Lemma at_bal : forall d, bal_of s a d <= bal_of s' a' d.
    Proof.
      intros d. unfold a'. rewrite (sm_bal _ _ _ _ S), sel_ren by exact Na. pose proof (sm_nonneg _ _ _ _ S d).
      destruct (Z.eqb_spec a from) as [->|N]; [lia|]. unfold ren_addr. destruct (Z.eqb_spec a from); [contradiction | lia].
    Qed.
  End At.

  Lemma eff_withdraw : forall s s' a v ans, sim from to s s' -> a <> to ->
    eff_of (FWithdraw (ren_addr from to a) v) s' ans = eff_ren from to a (eff_of (FWithdraw a v) s ans).
  Proof.
    intros s s' a v ans S Na. unfold eff_of, eff_ren. cbn [e_del e_start e_ubd e_da e_dp e_q].
    rewrite (at_del s s' a v S Na), (at_ubd s s' a v S Na). reflexivity.
  Qed.

  Lemma eff_delegate : forall s s' a v amt ans, sim from to s s' -> a <> to ->
    eff_of (FDelegate (ren_addr from to a) v amt) s' ans = eff_ren from to a (eff_of (FDelegate a v amt) s ans).
  Proof.
    intros s s' a v amt ans S Na. unfold eff_of, eff_ren. cbn [e_del e_start e_ubd e_da e_dp e_q].
    rewrite (at_del s s' a v S Na), (at_ubd s s' a v S Na). unfold ren_addr.
    destruct (Z.eqb_spec a from) as [->|]; [|reflexivity]. destruct (del_of s from v); reflexivity.
  Qed.

  Lemma eff_undelegate : forall s s' a v sh ans, sim from to s s' -> a <> to ->
    eff_of (FUndelegate (ren_addr from to a) v sh) s' ans = eff_ren from to a (eff_of (FUndelegate a v sh) s ans).
  Proof.
    intros s s' a v sh ans S Na. unfold eff_of, eff_ren. cbn [e_del e_start e_ubd e_da e_dp e_q].
    rewrite (at_entries s s' a v S Na), (sm_height _ _ _ _ S), (at_del s s' a v S Na). unfold ren_addr.
    destruct (Z.eqb_spec a from) as [->|]; [|reflexivity].
    destruct (del_of s from v) as [r|]; cbn [option_map to_del d_shares];
      match goal with |- context [?x =? 0] => destruct (x =? 0) end; reflexivity.
  Qed.

  Theorem sim_step : forall e s s' o e1 t,
    pool_nb (cfg s) <> from -> pool_nb (cfg s) <> to ->
    sim from to s s' -> factor o <> to -> is_red o = false ->
    fstep env ask env_next e s o = Ok (e1, t) ->
    exists t', fstep env ask env_next e s' (ren_fop o) = Ok (e1, t') /\ sim from to t t'.
  Proof.
    intros e s s' o e1 t Npf Npt S Na NR H. pose proof (sm_wf _ _ _ _ S) as W. pose proof (sm_wf' _ _ _ _ S) as W'.
    destruct o as [a v amt | a v sh | a v | a v w sh]; [| | |discriminate]; cbn [factor fstep ren_fop] in *.
    - (* delegate *)
      pose proof (delegate_shape env ask env_next _ _ _ _ _ _ _ H) as Sh.
      destruct (delegate_applied env ask env_next _ _ _ _ _ _ _ H) as [E1 Ap].
      assert (X : exists t', f_delegate env ask env_next e s' (ren_addr from to a) v amt = Ok (e1, t')).
      { unfold f_delegate in *. rewrite (at_query s s' a v S Na). fold (del_of s' (ren_addr from to a) v). fold (del_of s a v) in H.
        rewrite (sm_cfg _ _ _ _ S). set (ans := ask e (mkq 1 s a v amt)) in *. set (d := bond_denom (cfg s)) in *.
        match goal with |- exists _, (if ?c then _ else _) = _ => assert (C : c = false); [|rewrite C; rewrite E1; eexists; reflexivity] end.
        match type of H with (if ?c then _ else _) = _ => destruct c eqn:C0; [discriminate|] end.
        apply Z.ltb_ge in C0. apply Z.ltb_ge.
        rewrite (at_del s s' a v S Na). pose proof (at_bal s s' a S Na d) as B.
        destruct (del_of s a v) as [r|]; [|destruct (a =? from); exact (Z.le_trans _ _ _ C0 B)].
        assert (G : bal_of (credit (ren_addr from to a) d (a_reward ans) s') (ren_addr from to a) d >= amt).
        { rewrite bal_of_credit. rewrite bal_of_credit in C0. unfold at2 in *. rewrite !Z.eqb_refl in *. cbn [andb] in *. lia. }
        destruct (a =? from); cbn [option_map]; lia. }
      destruct X as [t' X]. exists t'. split; [exact X|].
      pose proof (delegate_shape env ask env_next _ _ _ _ _ _ _ X) as Sh'.
      destruct (delegate_applied env ask env_next _ _ _ _ _ _ _ X) as [_ Ap'].
      rewrite (at_query s s' a v S Na), (eff_delegate s s' a v amt _ S Na) in Ap'.
      apply (sim_applied from to a v s s' _ t t' Hft Na Npf Npt S Ap Ap');
        [apply (fshape_wf _ _ _ _ Sh W) | apply (fshape_wf _ _ _ _ Sh' W')
         | apply (fshape_qc _ _ _ _ Sh W (sm_qc _ _ _ _ S)) | apply (fshape_qc _ _ _ _ Sh' W' (sm_qc' _ _ _ _ S))].
    - (* undelegate *)
      pose proof (undelegate_shape env ask env_next _ _ _ _ _ _ _ W H) as Sh.
      destruct (undelegate_applied env ask env_next _ _ _ _ _ _ _ W H) as [E1 Ap].
      assert (X : exists t', f_undelegate env ask env_next e s' (ren_addr from to a) v sh = Ok (e1, t')).
      { unfold f_undelegate in *. rewrite (at_query s s' a v S Na).
        fold (del_of s' (ren_addr from to a) v) (ubd_of s' (ren_addr from to a) v). fold (del_of s a v) (ubd_of s a v) in H.
        pose proof (at_shares s s' a v S Na) as Esh. pose proof (at_entries s s' a v S Na) as Een.
        destruct (del_of s a v) as [r|]; [|discriminate].
        destruct (del_of s' (ren_addr from to a) v) as [r'|]; [|discriminate]. cbn in Esh. inversion Esh as [Er]. rewrite Er.
        destruct (d_shares r <? sh); [discriminate|]. rewrite Een.
        match type of H with (if ?c then _ else _) = _ => destruct c; [discriminate|] end.
        match goal with |- exists _, (let '(es, isnew) := ?ae in _) = _ => destruct ae end.
        rewrite E1. eexists. reflexivity. }
      destruct X as [t' X]. exists t'. split; [exact X|].
      pose proof (undelegate_shape env ask env_next _ _ _ _ _ _ _ W' X) as Sh'.
      destruct (undelegate_applied env ask env_next _ _ _ _ _ _ _ W' X) as [_ Ap'].
      rewrite (at_query s s' a v S Na), (eff_undelegate s s' a v sh _ S Na) in Ap'.
      apply (sim_applied from to a v s s' _ t t' Hft Na Npf Npt S Ap Ap');
        [apply (fshape_wf _ _ _ _ Sh W) | apply (fshape_wf _ _ _ _ Sh' W')
         | apply (fshape_qc _ _ _ _ Sh W (sm_qc _ _ _ _ S)) | apply (fshape_qc _ _ _ _ Sh' W' (sm_qc' _ _ _ _ S))].
    - (* withdraw *)
      pose proof (withdraw_shape env ask env_next _ _ _ _ _ _ H) as Sh.
      destruct (withdraw_applied env ask env_next _ _ _ _ _ _ H) as [E1 Ap].
      assert (X : exists t', f_withdraw env ask env_next e s' (ren_addr from to a) v = Ok (e1, t')).
      { unfold f_withdraw in *. rewrite (at_query s s' a v S Na).
        fold (del_of s' (ren_addr from to a) v). fold (del_of s a v) in H. rewrite (at_del s s' a v S Na).
        destruct (del_of s a v) as [r|]; [|discriminate]. rewrite E1. destruct (a =? from); eexists; reflexivity. }
      destruct X as [t' X]. exists t'. split; [exact X|].
      pose proof (withdraw_shape env ask env_next _ _ _ _ _ _ X) as Sh'.
      destruct (withdraw_applied env ask env_next _ _ _ _ _ _ X) as [_ Ap'].
      rewrite (at_query s s' a v S Na), (eff_withdraw s s' a v _ S Na) in Ap'.
      apply (sim_applied from to a v s s' _ t t' Hft Na Npf Npt S Ap Ap');
        [apply (fshape_wf _ _ _ _ Sh W) | apply (fshape_wf _ _ _ _ Sh' W')
         | apply (fshape_qc _ _ _ _ Sh W (sm_qc _ _ _ _ S)) | apply (fshape_qc _ _ _ _ Sh' W' (sm_qc' _ _ _ _ S))].
  Qed.
End Simulation.

(* ---------- the migration establishes the relation ---------- *)
Lemma qrel_map_ren : forall from to l, qrel from to l (map (ren_pair from to) l).
Proof.
  intros from to l. induction l as [|[a v] l IH]; cbn; constructor; [|exact IH].
  unfold ren_pair, ren_addr. cbn. destruct (Z.eqb_spec a from) as [->|]; [right; split; reflexivity | left; reflexivity].
Qed.

Lemma qrel_refl : forall from to l, qrel from to l l.
Proof. intros. induction l; constructor; [left; reflexivity | assumption]. Qed.

Lemma balpos_nonneg : forall s, balposb s = true -> forall a d, 0 <= bal_of s a d.
Proof.
  intros s H a d. unfold bal_of. destruct (sget k2_eqb (a, d) (bal s)) as [x|] eqn:E; [|lia].
  apply (sget_in k2_eqb k2_eqb_ok) in E. unfold balposb in H. rewrite forallb_forall in H.
  specialize (H _ E). cbn in H. apply Z.leb_le in H. exact H.
Qed.

(* (what is needed of the balances is only that the target's are not negative) *)
Theorem sim_after_migration_w : forall (sigT : Type) (recover : Z -> Z -> sigT -> option Z) s from to sg s',
  wf s -> qcoverb s = true -> (forall d, 0 <= bal_of s to d) ->
  migrate_tx sigT recover s from to sg = Ok s' -> sim from to s s'.
Proof.
  intros sigT recover s from to sg s' W Q B H.
  apply migrate_tx_inv in H. destruct H as (N & _ & H). pose proof (migrate_account_moved _ _ _ _ W N H) as M.
  apply migrate_account_inv in H. destruct H as (_ & _ & _ & V & _ & s1 & X & ->).
  apply wf_unpack in W. apply qcover_unpack in Q.
  pose proof (staking_validate_target_clean _ _ _ V) as C.
  constructor.
  - exact W.
  - eapply wf_after; eassumption.
  - exact Q.
  - eapply qcover_after; eassumption.
  - apply (mv_cfg _ _ _ _ M).
  - apply (proj1 (mv_clock _ _ _ _ M)).
  - apply (proj2 (mv_clock _ _ _ _ M)).
  - intros v. assert (D : del_of s to v = None) by (apply (to_no_del to s C)).
    split; [exact D|]. split; [apply (start_none_without_del s W); exact D | apply (to_no_ubd to s C)].
  - exact B.
  - apply (mv_bal _ _ _ _ M).
  - apply (mv_del _ _ _ _ M).
  - apply (mv_start _ _ _ _ M).
  - apply (mv_ubd _ _ _ _ M).
  - intros t. rewrite (mv_ubdq _ _ _ _ M). destruct (existsb (Z.eqb t) (ubd_times s from)); [apply qrel_map_ren | apply qrel_refl].
Qed.

Theorem sim_after_migration : forall (sigT : Type) (recover : Z -> Z -> sigT -> option Z) s from to sg s',
  wf s -> qcoverb s = true -> balposb s = true ->
  migrate_tx sigT recover s from to sg = Ok s' -> sim from to s s'.
Proof. intros sigT recover s from to sg s' W Q B H. eapply sim_after_migration_w; eauto. intros d. apply balpos_nonneg. exact B. Qed.

(* ---------- follow-ups, then maturation ---------- *)
Lemma payout_filter : forall t a (m : list (Z * Z * ubd_rec)),
  sumZ (w_pay t a) m = sumZ (fun kv => sum_bal (filter (ubd_mature t) (u_entries (snd kv)))) (filter (fun kv => fst (fst kv) =? a) m).
Proof.
  intros t a m. induction m as [|kv m IH]; [reflexivity|]. rewrite sumZ_cons. cbn [filter]. unfold w_pay at 1.
  destruct (fst (fst kv) =? a); [rewrite sumZ_cons|]; rewrite IH; lia.
Qed.

Lemma payout_by_lookup : forall t a a' (f : ubd_rec -> ubd_rec) (m m' : list (Z * Z * ubd_rec)),
  NoDup (map fst m) -> NoDup (map fst m') -> (forall u, u_entries (f u) = u_entries u) ->
  (forall v, sget k2_eqb (a', v) m' = option_map f (sget k2_eqb (a, v) m)) ->
  sumZ (w_pay t a') m' = sumZ (w_pay t a) m.
Proof.
  intros t a a' f m m' N N' Fe L. rewrite !payout_filter.
  set (ren := fun kv : Z * Z * ubd_rec => ((a', snd (fst kv)), f (snd kv))).
  set (A := filter (fun kv : Z * Z * ubd_rec => fst (fst kv) =? a) m).
  set (A' := filter (fun kv : Z * Z * ubd_rec => fst (fst kv) =? a') m').
  assert (P : Permutation (map ren A) A').
  { apply NoDup_Permutation.
    - apply (NoDup_map_inv fst). rewrite map_map. unfold ren. cbn [fst].
      assert (NA : NoDup (map fst A)) by (apply filter_nodup_keys; exact N).
      assert (KA : forall kv, In kv A -> fst (fst kv) = a).
      { intros kv I. apply filter_In in I. destruct I as [_ I]. apply Z.eqb_eq in I. exact I. }
      clearbody A. induction A as [|kv A IH]; [constructor|]. cbn. inversion NA as [|? ? X Y]. subst. constructor.
      + intros I. apply X. apply in_map_iff in I. destruct I as [kv' [E I]]. apply in_map_iff. exists kv'. split; [|exact I].
        inversion E as [E2]. destruct kv as [[d r] u], kv' as [[d' r'] u']. cbn in *.
        pose proof (KA _ (or_introl eq_refl)) as K1. pose proof (KA _ (or_intror I)) as K2. cbn in K1, K2. congruence.
      + apply IH; [exact Y|]. intros kv' I. apply KA. right. exact I.
    - apply (NoDup_map_inv fst). apply filter_nodup_keys. exact N'.
    - intros [[d r] u]. split.
      + intros I. apply in_map_iff in I. destruct I as [[[d0 r0] u0] [E I]]. unfold ren in E. cbn in E. inversion E. subst.
        apply filter_In in I. destruct I as [I C]. cbn in C. apply Z.eqb_eq in C. subst d0.
        apply filter_In. split; [|cbn; apply Z.eqb_refl].
        apply (sget_in k2_eqb k2_eqb_ok). rewrite L. rewrite (in_sget_nodup k2_eqb k2_eqb_ok _ _ _ N I). reflexivity.
      + intros I. apply filter_In in I. destruct I as [I C]. cbn in C. apply Z.eqb_eq in C. subst d.
        pose proof (in_sget_nodup k2_eqb k2_eqb_ok _ _ _ N' I) as G. rewrite L in G.
        destruct (sget k2_eqb (a, r) m) as [u0|] eqn:G0; [|discriminate]. cbn in G. inversion G. subst u.
        apply in_map_iff. exists ((a, r), u0). split; [reflexivity|]. apply filter_In. split; [|cbn; apply Z.eqb_refl].
        apply (sget_in k2_eqb k2_eqb_ok). exact G0. }
  rewrite <- (sumZ_perm _ _ _ P), sumZ_map. apply sumZ_ext. intros kv _. unfold ren. cbn [snd]. rewrite Fe. reflexivity.
Qed.

Lemma payout_none : forall t a (m : list (Z * Z * ubd_rec)), (forall v, sget k2_eqb (a, v) m = None) -> sumZ (w_pay t a) m = 0.
Proof.
  intros t a m H. rewrite <- (sumZ_zero m). apply sumZ_ext. intros [[d r] u] I. unfold w_pay. cbn [fst snd].
  destruct (Z.eqb_spec d a) as [->|]; [|reflexivity]. exfalso.
  pose proof (sget_none_notin k2_eqb k2_eqb_ok _ _ (H r)) as X. apply X. apply (in_map fst) in I. exact I.
Qed.

Theorem sim_endblock : forall from to s s' t,
  from <> to -> sim from to s s' ->
  (forall a v, ubd_of (staking_endblock t s') a v =
     sel from to a (option_map (to_ubd to) (ubd_of (staking_endblock t s) from v)) None (ubd_of (staking_endblock t s) a v)) /\
  (from <> pool_nb (cfg s) -> to <> pool_nb (cfg s) -> forall a d, a <> pool_nb (cfg s) ->
     bal_of (staking_endblock t s') a d =
       sel from to a (bal_of (staking_endblock t s) to d + bal_of (staking_endblock t s) from d) 0
                     (bal_of (staking_endblock t s) a d)).
Proof.
  intros from to s s' t Hft S.
  pose proof (sm_wf _ _ _ _ S) as W. pose proof (sm_wf' _ _ _ _ S) as W'.
  pose proof (sm_qc _ _ _ _ S) as Q. pose proof (sm_qc' _ _ _ _ S) as Q'. pose proof (sm_cfg _ _ _ _ S) as C.
  split.
  - intros a v. rewrite (endblock_ubd t s' W' Q'), !(endblock_ubd t s W Q), (sm_ubd _ _ _ _ S).
    unfold sel. destruct (a =? to); [apply immature_to_ubd|]. destruct (a =? from); reflexivity.
  - intros Nf Nt a d Na.
    rewrite (endblock_bal t s' W' Q') by (rewrite C; exact Na). rewrite C.
    rewrite !(endblock_bal t s W Q) by assumption. rewrite (sm_bal _ _ _ _ S).
    assert (Pto : payout t s' to = payout t s from).
    { unfold payout. apply (payout_by_lookup t from to (to_ubd to)); [apply (wf_ubds s W) | apply (wf_ubds s' W') | reflexivity|].
      intros v. change (sget k2_eqb (to, v) (ubds (stake s'))) with (ubd_of s' to v). rewrite (sm_ubd _ _ _ _ S). apply sel_to. }
    assert (Pt0 : payout t s to = 0).
    { unfold payout. apply payout_none. intros v. apply (proj2 (proj2 (sm_clean _ _ _ _ S v))). }
    assert (Pf0 : payout t s' from = 0).
    { unfold payout. apply payout_none. intros v. change (sget k2_eqb (from, v) (ubds (stake s'))) with (ubd_of s' from v).
      rewrite (sm_ubd _ _ _ _ S). apply sel_from. exact Hft. }
    unfold sel. destruct (Z.eqb_spec a to) as [->|N1]; [rewrite Pto, Pt0; destruct (d =? bond_denom (cfg s)); lia|].
    destruct (Z.eqb_spec a from) as [->|N2]; [rewrite Pf0; destruct (d =? bond_denom (cfg s)); lia|].
    assert (Pa : payout t s' a = payout t s a).
    { unfold payout. apply (payout_by_lookup t a a (fun u => u)); [apply (wf_ubds s W) | apply (wf_ubds s' W') | reflexivity|].
      intros v. change (sget k2_eqb (a, v) (ubds (stake s'))) with (ubd_of s' a v). rewrite (sm_ubd _ _ _ _ S).
      rewrite sel_other by assumption. unfold ubd_of. destruct (sget k2_eqb (a, v) (ubds (stake s))); reflexivity. }
    rewrite Pa. reflexivity.
Qed.

