(* P_MigrateFollowR.v — redelegation as a follow-up: its three parts (unbond at the source validator, delegate at
   the destination, redelegation entry + queue) preserve the relation between the migrated world and the world
   without migration, now extended by the redelegation records, the by-destination index and the redelegation
   queue (`sim2`).  Then: every sequence of delegate / undelegate / withdraw / redelegate commutes with the
   migration. *)
From Coq Require Import ZArith List Bool Lia Permutation.
From FxV Require Import model.M_Migrate model.M_MigrateSpec model.M_MigrateFollow
  proofs.P_MigrateBase proofs.P_MigrateAuth proofs.P_MigrateMove proofs.P_MigrateExec proofs.P_MigrateChar
  proofs.P_MigrateMoved proofs.P_MigrateIdx proofs.P_MigrateInv proofs.P_MigrateMature proofs.P_MigrateHist
  proofs.P_MigrateFollow.
Import ListNotations.
Open Scope Z_scope.

(* ---------- point lookups on (delegator, (src, dst)) keys ---------- *)
Definition at3 (b x y a v w : Z) : bool := (b =? a) && ((x =? v) && (y =? w)).

Lemma at3_true : forall b x y a v w, at3 b x y a v w = true <-> (b, (x, y)) = (a, (v, w)).
Proof.
  intros. unfold at3. rewrite !andb_true_iff, !Z.eqb_eq. split; [intros [-> [-> ->]]; reflexivity | intros E; inversion E; auto].
Qed.

Lemma sget_sset_k3 {V} : forall b x y a v w (r : V) m,
  sget k3_eqb (b, (x, y)) (sset k3_eqb (a, (v, w)) r m) = if at3 b x y a v w then Some r else sget k3_eqb (b, (x, y)) m.
Proof.
  intros. destruct (at3 b x y a v w) eqn:E.
  - apply at3_true in E. rewrite E. apply (sget_sset_same k3_eqb k3_eqb_ok).
  - apply (sget_sset_other k3_eqb k3_eqb_ok). intros X. apply at3_true in X. congruence.
Qed.

Lemma rel_update3 {V} (F : option V -> option V) (from to a v w : Z) (x : option V)
      (G G' H H' : Z -> Z -> Z -> option V) :
  from <> to -> a <> to -> F None = None ->
  (forall b p q, G' b p q = sel from to b (F (G from p q)) None (G b p q)) ->
  (forall p q, G to p q = None) ->
  (forall b p q, H b p q = if at3 b p q a v w then x else G b p q) ->
  (forall b p q, H' b p q = if at3 b p q (ren_addr from to a) v w then (if a =? from then F x else x) else G' b p q) ->
  (forall b p q, H' b p q = sel from to b (F (H from p q)) None (H b p q)) /\ (forall p q, H to p q = None).
Proof.
  intros Hft Na F0 R C Hh Hh'. split.
  - intros b p q. rewrite Hh', R, !Hh. unfold ren_addr, sel, at3.
    destruct (Z.eqb_spec a from) as [->|Naf].
    + destruct (Z.eqb_spec b to) as [->|Nbt].
      * rewrite Z.eqb_refl. cbn [andb]. destruct ((p =? v) && (q =? w)); reflexivity.
      * cbn [andb]. destruct (Z.eqb_spec b from) as [->|Nbf]; reflexivity.
    + destruct (Z.eqb_spec b to) as [->|Nbt].
      * replace (to =? a) with false by (symmetry; apply Z.eqb_neq; congruence).
        replace (from =? a) with false by (symmetry; apply Z.eqb_neq; congruence). reflexivity.
      * destruct (Z.eqb_spec b from) as [->|Nbf].
        -- replace (from =? a) with false by (symmetry; apply Z.eqb_neq; congruence). reflexivity.
        -- destruct ((b =? a) && ((p =? v) && (q =? w))); reflexivity.
  - intros p q. rewrite Hh. unfold at3. replace (to =? a) with false by (symmetry; apply Z.eqb_neq; congruence). apply C.
Qed.

(* ---------- the redelegation side is untouched by a state change that leaves reds, redq and idx36 alone ---------- *)
Definition red_same (s t : state) : Prop :=
  reds (stake t) = reds (stake s) /\ redq (stake t) = redq (stake s) /\ idx36 (stake t) = idx36 (stake s).

Lemma red_same_refl : forall s, red_same s s. Proof. intros; repeat split. Qed.
Lemma red_same_trans : forall s t u, red_same s t -> red_same t u -> red_same s u.
Proof. intros s t u (A & B & C) (A' & B' & C'). repeat split; congruence. Qed.

Lemma simR_same : forall from to s s' t t', simR from to s s' -> red_same s t -> red_same s' t' -> simR from to t t'.
Proof.
  intros from to s s' t t' R (A & B & C) (A' & B' & C').
  constructor.
  - intros v w. unfold red_of, i36_of. rewrite A, C. apply (sr_clean _ _ _ _ R).
  - intros a v w. unfold red_of. rewrite A, A'. apply (sr_red _ _ _ _ R).
  - intros a v w. unfold i36_of. rewrite C, C'. apply (sr_i36 _ _ _ _ R).
  - intros tau. unfold red_slice. rewrite B, B'. apply (sr_q _ _ _ _ R).
Qed.

Lemma credit_red_same : forall c d x s, red_same s (credit c d x s).
Proof. intros. destruct (credit_keeps c d x s) as (_ & K & _). unfold red_same. rewrite K. repeat split. Qed.

(* ---------- part A: unbond at the source validator ---------- *)
Definition eff_unbond (s : state) (a v rest : Z) (ans : vans) : effect :=
  {| e_del := if rest =? 0 then None else Some {| d_del := a; d_val := v; d_shares := rest |};
     e_start := if rest =? 0 then None else Some (a_start ans);
     e_ubd := ubd_of s a v; e_da := a_reward ans; e_dp := 0; e_q := None |}.

Lemma unbond_facts : forall s a v rest ans,
  applied s a v (eff_unbond s a v rest ans) (unbond_at s a v rest ans) /\
  fshape s a v (unbond_at s a v rest ans) /\ red_same s (unbond_at s a v rest ans).
Proof.
  intros s a v rest ans. unfold unbond_at. set (s1 := credit a (bond_denom (cfg s)) (a_reward ans) s).
  assert (R1 : same_rest s1 s) by (apply same_rest_credit, same_rest_refl). destruct R1 as (Ks & Kk & Kc & Kn & Kh).
  split; [|split].
  - unfold applied, eff_unbond. cbn [e_del e_start e_ubd e_da e_dp e_q]. repeat split.
    + intros b w. unfold del_of at 1. destruct (rest =? 0); unfold set_dels_start; cbn [stake set_stake set_dels dels];
        rewrite Kk; rewrite ?sget_sdel_k2, ?sget_sset_k2; reflexivity.
    + intros b w. unfold start_of at 1. destruct (rest =? 0); unfold set_dels_start; cbn [start set_stake set_start];
        rewrite Ks; rewrite ?sget_sdel_k2, ?sget_sset_k2; reflexivity.
    + intros b w. unfold ubd_of at 1. destruct (rest =? 0); unfold set_dels_start; cbn [stake set_stake set_dels ubds];
        rewrite Kk; (destruct (at2 b w a v) eqn:E; [apply at2_true in E; inversion E; reflexivity | reflexivity]).
    + intros b d. unfold bal_of at 1. destruct (rest =? 0); unfold set_dels_start; cbn [bal set_stake set_start];
        fold (bal_of s1 b d); unfold s1; rewrite bal_of_credit;
        destruct (at2 b d (pool_nb (cfg s)) (bond_denom (cfg s))); lia.
    + intros tau. unfold ubd_slice. destruct (rest =? 0); unfold set_dels_start; cbn [stake set_stake set_dels ubdq];
        rewrite Kk; reflexivity.
    + destruct (rest =? 0); unfold set_dels_start; cbn; exact Kc.
    + destruct (rest =? 0); unfold set_dels_start; cbn; exact Kn.
    + destruct (rest =? 0); unfold set_dels_start; cbn; exact Kh.
  - constructor.
    + intros N. destruct (rest =? 0); unfold set_dels_start; cbn [bal set_stake set_start]; apply credit_bal_nodup; exact N.
    + destruct (rest =? 0); unfold set_dels_start; cbn [start set_stake set_start]; rewrite Ks;
        [right; right; reflexivity | right; left; eexists; reflexivity].
    + destruct (rest =? 0); unfold set_dels_start; cbn [stake set_stake set_dels dels]; rewrite Kk;
        [right; right; reflexivity | right; left; eexists; reflexivity].
    + unfold shas. destruct (rest =? 0); unfold set_dels_start; cbn [stake set_stake set_start set_dels dels start];
        rewrite ?Ks, ?Kk; rewrite ?(sget_sdel_same k2_eqb), ?(sget_sset_same k2_eqb k2_eqb_ok); auto; discriminate.
    + left. destruct (rest =? 0); unfold set_dels_start; cbn [stake set_stake set_dels ubds ubdq]; rewrite Kk; split; reflexivity.
    + destruct (rest =? 0); unfold set_dels_start; cbn [stake set_stake set_dels reds redq]; rewrite Kk; split; reflexivity.
  - unfold red_same. destruct (rest =? 0); unfold set_dels_start; cbn [stake set_stake set_dels reds redq idx36]; rewrite Kk;
      repeat split.
Qed.

(* ---------- part B: delegate at the destination validator ---------- *)
Definition eff_deleg (s : state) (a w : Z) (ans : vans) : effect :=
  {| e_del := Some {| d_del := a; d_val := w;
                      d_shares := (match del_of s a w with Some r => d_shares r | None => 0 end) + a_amt ans |};
     e_start := Some (a_start ans); e_ubd := ubd_of s a w;
     e_da := match del_of s a w with Some _ => a_reward ans | None => 0 end; e_dp := 0; e_q := None |}.

Lemma deleg_facts : forall s a w ans,
  applied s a w (eff_deleg s a w ans) (delegate_at s a w ans) /\
  fshape s a w (delegate_at s a w ans) /\ red_same s (delegate_at s a w ans).
Proof.
  intros s a w ans. unfold delegate_at. fold (del_of s a w).
  set (s2 := match del_of s a w with Some _ => credit a (bond_denom (cfg s)) (a_reward ans) s | None => s end).
  assert (R2 : same_rest s2 s) by (unfold s2; destruct (del_of s a w); [apply same_rest_credit|]; apply same_rest_refl).
  destruct R2 as (Ks & Kk & Kc & Kn & Kh).
  split; [|split].
  - unfold applied, eff_deleg. cbn [e_del e_start e_ubd e_da e_dp e_q]. unfold set_dels_start. repeat split.
    + intros b x. unfold del_of at 1. cbn [stake set_stake set_dels dels]. rewrite Kk, sget_sset_k2. reflexivity.
    + intros b x. unfold start_of at 1. cbn [start set_stake set_start]. rewrite Ks. apply sget_sset_k2.
    + intros b x. unfold ubd_of at 1. cbn [stake set_stake set_dels ubds]. rewrite Kk.
      destruct (at2 b x a w) eqn:E; [apply at2_true in E; inversion E; reflexivity | reflexivity].
    + intros b d. unfold bal_of at 1. cbn [bal set_stake set_start]. fold (bal_of s2 b d). unfold s2.
      destruct (del_of s a w); rewrite ?bal_of_credit; destruct (at2 b d a (bond_denom (cfg s)));
        destruct (at2 b d (pool_nb (cfg s)) (bond_denom (cfg s))); lia.
    + intros tau. unfold ubd_slice. cbn [stake set_stake set_dels ubdq]. rewrite Kk. reflexivity.
    + cbn. exact Kc. + cbn. exact Kn. + cbn. exact Kh.
  - constructor; unfold set_dels_start; cbn [bal start stake set_stake set_start set_dels dels ubds ubdq reds redq].
    + intros N. unfold s2. destruct (del_of s a w); [apply credit_bal_nodup|]; exact N.
    + right. left. eexists. rewrite Ks. reflexivity.
    + right. left. eexists. rewrite Kk. reflexivity.
    + intros _. unfold shas. rewrite (sget_sset_same k2_eqb k2_eqb_ok). reflexivity.
    + left. rewrite Kk. split; reflexivity.
    + rewrite Kk. split; reflexivity.
  - unfold red_same, set_dels_start. cbn [stake set_stake set_dels reds redq idx36]. rewrite Kk. repeat split.
Qed.

(* ---------- part C: the redelegation entry ---------- *)
Lemma red_key_at : forall s a v w, wfP s ->
  match sget k3_eqb (a, (v, w)) (reds (stake s)) with Some x => (r_del x, (r_src x, r_dst x)) | None => (a, (v, w)) end = (a, (v, w)).
Proof.
  intros s a v w W. destruct (sget k3_eqb (a, (v, w)) (reds (stake s))) as [x|] eqn:E; [|reflexivity].
  apply (sget_in k3_eqb k3_eqb_ok) in E. pose proof (wf_redk s W _ E) as K. cbn in K. symmetry. exact K.
Qed.

Definition new_red (s : state) (a v w : Z) (entry : red_entry) : red_rec :=
  {| r_del := a; r_src := v; r_dst := w;
     r_entries := (match red_of s a v w with Some x => r_entries x | None => [] end) ++ [entry] |}.

Lemma in_sset_k3 {V} : forall (kv : Z * (Z * Z) * V) k x m, In kv (sset k3_eqb k x m) -> kv = (k, x) \/ In kv m.
Proof.
  intros kv k x m [E|I]; [left; symmetry; exact E | right].
  rewrite (sdel_filter k3_eqb) in I. apply filter_In in I. tauto.
Qed.

Lemma red_entry_facts : forall s a v w entry, wfP s ->
  let t := red_entry_at s a v w entry in
  (* nothing the non-redelegation relation looks at changes *)
  (bal t = bal s /\ start t = start s /\ dels (stake t) = dels (stake s) /\ ubds (stake t) = ubds (stake s) /\
   ubdq (stake t) = ubdq (stake s) /\ cfg t = cfg s /\ now t = now s /\ height t = height s) /\
  (forall b x y, red_of t b x y = if at3 b x y a v w then Some (new_red s a v w entry) else red_of s b x y) /\
  (forall b x y, i36_of t b x y = if at3 b x y a v w then Some tt else i36_of s b x y) /\
  (forall tau, red_slice t tau = if tau =? re_time entry then red_slice s tau ++ [(a, (v, w))] else red_slice s tau) /\
  reds (stake t) = sset k3_eqb (a, (v, w)) (new_red s a v w entry) (reds (stake s)) /\
  redq (stake t) = sset Z.eqb (re_time entry) (qget (re_time entry) (redq (stake s)) ++ [(a, (v, w))]) (redq (stake s)).
Proof.
  intros s a v w entry W. unfold red_entry_at. rewrite (red_key_at s a v w W). cbn [fst snd].
  fold (red_of s a v w). fold (new_red s a v w entry).
  repeat split; try reflexivity.
  - intros b x y. unfold red_of at 1. cbn [stake set_stake set_unbidx set_red reds]. apply sget_sset_k3.
  - intros b x y. unfold i36_of at 1. cbn [stake set_stake set_unbidx set_red idx36]. apply sget_sset_k3.
  - intros tau. unfold red_slice at 1. cbn [stake set_stake set_unbidx set_red redq]. rewrite qget_sset.
    destruct (Z.eqb_spec tau (re_time entry)) as [->|]; reflexivity.
Qed.

Lemma red_entry_wf : forall s a v w entry, wfP s -> wfP (red_entry_at s a v w entry).
Proof.
  intros s a v w entry W. destruct (red_entry_facts s a v w entry W) as ((Eb & Est & Ed & Eu & _) & _ & _ & _ & Er & _).
  constructor.
  - rewrite Eb. apply (wf_bal s W).
  - rewrite Est. apply (wf_start s W).
  - rewrite Ed. apply (wf_dels s W).
  - rewrite Eu. apply (wf_ubds s W).
  - rewrite Er. apply (sset_nodup k3_eqb k3_eqb_ok). apply (wf_reds s W).
  - intros kv I. rewrite Ed in I. apply (wf_delk s W kv I).
  - intros kv I. rewrite Eu in I. apply (wf_ubdk s W kv I).
  - intros kv I. rewrite Er in I. apply in_sset_k3 in I. destruct I as [->|I]; [reflexivity | apply (wf_redk s W kv I)].
  - intros k I. rewrite Est in I. rewrite Ed. apply (wf_startdel s W k I).
Qed.

Lemma red_entry_qc : forall s a v w entry, wfP s -> qcoverP s -> qcoverP (red_entry_at s a v w entry).
Proof.
  intros s a v w entry W Q.
  destruct (red_entry_facts s a v w entry W) as ((_ & _ & _ & Eu & Euq & _) & _ & _ & Sl & Er & Eq).
  assert (Grow : forall p tau, In p (red_slice s tau) -> In p (red_slice (red_entry_at s a v w entry) tau)).
  { intros p tau I. rewrite Sl. destruct (tau =? re_time entry); [apply in_or_app; left|]; exact I. }
  constructor.
  - intros kv e I E. rewrite Eu in I. unfold ubd_slice. rewrite Euq. apply (qc_ubd s Q kv e I E).
  - intros kv e I E. rewrite Er in I. apply in_sset_k3 in I. destruct I as [->|I].
    + cbn [fst snd new_red r_entries] in *. apply in_app_or in E. destruct E as [E|[<-|[]]].
      * apply Grow. destruct (red_of s a v w) as [x|] eqn:G; [|destruct E].
        unfold red_of in G. apply (sget_in k3_eqb k3_eqb_ok) in G. apply (qc_red s Q _ e G E).
      * rewrite Sl, Z.eqb_refl. apply in_or_app. right. left. reflexivity.
    + apply Grow. apply (qc_red s Q kv e I E).
  - intros kv I. rewrite Eu in I. apply (qc_ubd_ne s Q kv I).
  - intros kv I. rewrite Er in I. apply in_sset_k3 in I. destruct I as [->|I]; [|apply (qc_red_ne s Q kv I)].
    cbn. intros X. apply app_eq_nil in X. destruct X as [_ X]. discriminate.
  - rewrite Euq. apply (qc_ubdq s Q).
  - rewrite Eq. apply (sset_nodup Z.eqb Zeqb_ok). apply (qc_redq s Q).
Qed.

(* the non-redelegation relation is not touched by part C *)
Lemma sim_red_entry : forall from to s s' a a' v w e e', sim from to s s' ->
  sim from to (red_entry_at s a v w e) (red_entry_at s' a' v w e').
Proof.
  intros from to s s' a a' v w e e' S.
  pose proof (sm_wf _ _ _ _ S) as W. pose proof (sm_wf' _ _ _ _ S) as W'.
  destruct (red_entry_facts s a v w e W) as ((Eb & Est & Ed & Eu & Euq & Ec & En & Eh) & _).
  destruct (red_entry_facts s' a' v w e' W') as ((Eb' & Est' & Ed' & Eu' & Euq' & Ec' & En' & Eh') & _).
  constructor.
  - apply red_entry_wf; exact W.
  - apply red_entry_wf; exact W'.
  - apply red_entry_qc; [exact W | apply (sm_qc _ _ _ _ S)].
  - apply red_entry_qc; [exact W' | apply (sm_qc' _ _ _ _ S)].
  - rewrite Ec, Ec'. apply (sm_cfg _ _ _ _ S).
  - rewrite En, En'. apply (sm_now _ _ _ _ S).
  - rewrite Eh, Eh'. apply (sm_height _ _ _ _ S).
  - intros x. unfold del_of, start_of, ubd_of. rewrite Ed, Est, Eu. apply (sm_clean _ _ _ _ S).
  - intros d. unfold bal_of. rewrite Eb. apply (sm_nonneg _ _ _ _ S).
  - intros b d. unfold bal_of. rewrite Eb, Eb'. apply (sm_bal _ _ _ _ S).
  - intros b x. unfold del_of. rewrite Ed, Ed'. apply (sm_del _ _ _ _ S).
  - intros b x. unfold start_of. rewrite Est, Est'. apply (sm_start _ _ _ _ S).
  - intros b x. unfold ubd_of. rewrite Eu, Eu'. apply (sm_ubd _ _ _ _ S).
  - intros tau. unfold ubd_slice. rewrite Euq, Euq'. apply (sm_q _ _ _ _ S).
Qed.

(* ---------- the redelegation side after part C ---------- *)
Lemma simR_red_entry : forall from to s s' a v w e,
  from <> to -> a <> to -> sim from to s s' -> simR from to s s' ->
  simR from to (red_entry_at s a v w e) (red_entry_at s' (ren_addr from to a) v w e).
Proof.
  intros from to s s' a v w e Hft Na S R.
  pose proof (sm_wf _ _ _ _ S) as W. pose proof (sm_wf' _ _ _ _ S) as W'.
  destruct (red_entry_facts s a v w e W) as (_ & Fr & Fi & Fq & _).
  destruct (red_entry_facts s' (ren_addr from to a) v w e W') as (_ & Fr' & Fi' & Fq' & _).
  assert (Eold : match red_of s' (ren_addr from to a) v w with Some x => r_entries x | None => [] end
               = match red_of s a v w with Some x => r_entries x | None => [] end).
  { rewrite (sr_red _ _ _ _ R), (sel_ren from to a _ _ _ Na). destruct (Z.eqb_spec a from) as [->|N].
    - destruct (red_of s from v w); reflexivity.
    - unfold ren_addr. destruct (Z.eqb_spec a from); [contradiction | reflexivity]. }
  destruct (rel_update3 (option_map (to_red to)) from to a v w (Some (new_red s a v w e))
              (red_of s) (red_of s') (red_of (red_entry_at s a v w e)) (red_of (red_entry_at s' (ren_addr from to a) v w e))
              Hft Na eq_refl (sr_red _ _ _ _ R) (fun p q => proj1 (sr_clean _ _ _ _ R p q)) Fr) as [Rr Cr].
  { intros b p q. rewrite Fr'. destruct (at3 b p q (ren_addr from to a) v w); [|reflexivity].
    unfold new_red. rewrite Eold. unfold ren_addr. destruct (Z.eqb_spec a from) as [->|]; reflexivity. }
  destruct (rel_update3 (fun x => x) from to a v w (Some tt)
              (i36_of s) (i36_of s') (i36_of (red_entry_at s a v w e)) (i36_of (red_entry_at s' (ren_addr from to a) v w e))
              Hft Na eq_refl (sr_i36 _ _ _ _ R) (fun p q => proj2 (sr_clean _ _ _ _ R p q)) Fi) as [Ri Ci].
  { intros b p q. rewrite Fi'. destruct (a =? from); reflexivity. }
  constructor.
  - intros p q. split; [apply Cr | apply Ci].
  - exact Rr.
  - exact Ri.
  - intros tau. rewrite Fq, Fq'. pose proof (sr_q _ _ _ _ R tau) as Q0.
    destruct (tau =? re_time e); [|exact Q0]. apply Forall2_app; [exact Q0|]. constructor; [|constructor].
    unfold ren_addr. destruct (Z.eqb_spec a from) as [->|]; [right; split; reflexivity | left; reflexivity].
Qed.

(* ---------- the other follow-ups leave the redelegation side alone ---------- *)
Section RedSame.
  Variable env : Type.
  Variable ask : env -> query -> vans.
  Variable env_next : env -> query -> env.

  Lemma fstep_red_same : forall e s o e1 t, wfP s -> is_red o = false ->
    fstep env ask env_next e s o = Ok (e1, t) -> red_same s t.
  Proof.
    intros e s o e1 t W NR H. destruct o as [a v amt | a v sh | a v | a v w sh]; [| | |discriminate]; cbn [fstep] in H.
    - unfold f_delegate in H. set (ans := ask e (mkq 1 s a v amt)) in *. set (d := bond_denom (cfg s)) in *.
      set (s1 := match sget k2_eqb (a, v) (dels (stake s)) with Some _ => credit a d (a_reward ans) s | None => s end) in *.
      destruct (bal_of s1 a d <? amt); [discriminate|]. inversion H. subst e1 t. clear H.
      set (s2 := credit a d (- amt) s1). set (s3 := if a_bonded ans then s2 else credit (pool_nb (cfg s)) d amt s2).
      assert (R3 : same_rest s3 s).
      { unfold s3, s2, s1. destruct (a_bonded ans); destruct (sget k2_eqb (a, v) (dels (stake s)));
          repeat apply same_rest_credit; apply same_rest_refl. }
      destruct R3 as (_ & Kk & _). unfold red_same, set_dels_start. cbn [stake set_stake set_dels reds redq idx36].
      rewrite Kk. repeat split.
    - unfold f_undelegate in H. rewrite (ubd_key_at s a v W) in H.
      destruct (sget k2_eqb (a, v) (dels (stake s))) as [r|]; [|discriminate].
      destruct (d_shares r <? sh); [discriminate|]. set (ans := ask e (mkq 2 s a v sh)) in *.
      match type of H with (if ?c then _ else _) = _ => destruct c; [discriminate|] end.
      set (d := bond_denom (cfg s)) in *. set (s1 := credit a d (a_reward ans) s) in *.
      set (s2 := if a_bonded ans then credit (pool_nb (cfg s)) d (a_amt ans) s1 else s1) in *.
      assert (R2 : same_rest s2 s).
      { unfold s2, s1. destruct (a_bonded ans); repeat apply same_rest_credit; apply same_rest_refl. }
      destruct R2 as (_ & Kk & _).
      match type of H with (let '(es, isnew) := ?ae in _) = _ => destruct ae as [es isnew] end.
      inversion H. subst e1 t. clear H. unfold red_same.
      assert (P : forall X Y, stake (set_stake X Y) = Y) by reflexivity. rewrite P.
      destruct isnew; destruct (d_shares r - sh =? 0); unfold set_dels_start;
        cbn [set_unbidx set_ubd stake set_stake set_dels reds redq idx36]; rewrite Kk; repeat split.
    - unfold f_withdraw in H. destruct (sget k2_eqb (a, v) (dels (stake s))); [|discriminate].
      inversion H. subst e1 t. clear H. set (ans := ask e (mkq 3 s a v 0)).
      destruct (credit_keeps a (bond_denom (cfg s)) (a_reward ans) s) as (_ & Kk & _).
      unfold red_same. cbn [stake set_start]. rewrite Kk. repeat split.
  Qed.
End RedSame.

(* ---------- HasReceivingRedelegation in the two worlds ---------- *)
Lemma receiving_iff : forall s b v, receiving s b v = true <-> exists x, i36_of s b x v <> None.
Proof.
  intros s b v. unfold receiving, i36_of. rewrite existsb_exists. split.
  - intros [[[d [x y]] u] [I C]]. cbn in C. apply andb_true_iff in C. destruct C as [C1 C2].
    apply Z.eqb_eq in C1, C2. subst d y. exists x. intros N.
    apply (sget_none_notin k3_eqb k3_eqb_ok) in N. apply N. apply (in_map fst) in I. exact I.
  - intros [x N]. destruct (sget k3_eqb (b, (x, v)) (idx36 (stake s))) as [u|] eqn:E; [|congruence].
    apply (sget_in k3_eqb k3_eqb_ok) in E. exists ((b, (x, v)), u). split; [exact E|]. cbn. rewrite !Z.eqb_refl. reflexivity.
Qed.

Lemma receiving_sim : forall from to s s' a v, a <> to -> simR from to s s' ->
  receiving s a v = false -> receiving s' (ren_addr from to a) v = false.
Proof.
  intros from to s s' a v Na R H. destruct (receiving s' (ren_addr from to a) v) eqn:E; [|reflexivity].
  apply receiving_iff in E. destruct E as [x N]. rewrite (sr_i36 _ _ _ _ R), (sel_ren from to a _ _ _ Na) in N.
  assert (receiving s a v = true); [|congruence]. apply receiving_iff. exists x.
  destruct (Z.eqb_spec a from) as [->|Nf]; [exact N|]. unfold ren_addr in N. destruct (Z.eqb_spec a from); [contradiction | exact N].
Qed.

(* ---------- the redelegation step ---------- *)
Section RedStep.
  Variable env : Type.
  Variable ask : env -> query -> vans.
  Variable env_next : env -> query -> env.
  Variables from to : Z.
  Hypothesis Hft : from <> to.

  Lemma eff_unbond_ren : forall s s' a v rest ans, sim from to s s' -> a <> to ->
    eff_unbond s' (ren_addr from to a) v rest ans = eff_ren from to a (eff_unbond s a v rest ans).
  Proof.
    intros s s' a v rest ans S Na. unfold eff_unbond, eff_ren. cbn [e_del e_start e_ubd e_da e_dp e_q].
    rewrite (at_ubd from to s s' a v S Na). unfold ren_addr.
    destruct (Z.eqb_spec a from) as [->|]; [|reflexivity]. destruct (rest =? 0); reflexivity.
  Qed.

  Lemma eff_deleg_ren : forall s s' a w ans, sim from to s s' -> a <> to ->
    eff_deleg s' (ren_addr from to a) w ans = eff_ren from to a (eff_deleg s a w ans).
  Proof.
    intros s s' a w ans S Na. unfold eff_deleg, eff_ren. cbn [e_del e_start e_ubd e_da e_dp e_q].
    rewrite (at_del from to s s' a w S Na), (at_ubd from to s s' a w S Na). unfold ren_addr.
    destruct (Z.eqb_spec a from) as [->|]; [|reflexivity]. destruct (del_of s from w); reflexivity.
  Qed.

  Lemma sim2_unbond : forall s s' a v rest ans,
    pool_nb (cfg s) <> from -> pool_nb (cfg s) <> to -> a <> to -> sim2 from to s s' ->
    sim2 from to (unbond_at s a v rest ans) (unbond_at s' (ren_addr from to a) v rest ans).
  Proof.
    intros s s' a v rest ans Npf Npt Na [S R].
    destruct (unbond_facts s a v rest ans) as (Ap & Sh & Rs).
    destruct (unbond_facts s' (ren_addr from to a) v rest ans) as (Ap' & Sh' & Rs').
    rewrite (eff_unbond_ren s s' a v rest ans S Na) in Ap'. split.
    - apply (sim_applied from to a v s s' _ _ _ Hft Na Npf Npt S Ap Ap');
        [apply (fshape_wf _ _ _ _ Sh (sm_wf _ _ _ _ S)) | apply (fshape_wf _ _ _ _ Sh' (sm_wf' _ _ _ _ S))
         | apply (fshape_qc _ _ _ _ Sh (sm_wf _ _ _ _ S) (sm_qc _ _ _ _ S))
         | apply (fshape_qc _ _ _ _ Sh' (sm_wf' _ _ _ _ S) (sm_qc' _ _ _ _ S))].
    - apply (simR_same from to s s' _ _ R Rs Rs').
  Qed.

  Lemma sim2_deleg : forall s s' a w ans,
    pool_nb (cfg s) <> from -> pool_nb (cfg s) <> to -> a <> to -> sim2 from to s s' ->
    sim2 from to (delegate_at s a w ans) (delegate_at s' (ren_addr from to a) w ans).
  Proof.
    intros s s' a w ans Npf Npt Na [S R].
    destruct (deleg_facts s a w ans) as (Ap & Sh & Rs).
    destruct (deleg_facts s' (ren_addr from to a) w ans) as (Ap' & Sh' & Rs').
    rewrite (eff_deleg_ren s s' a w ans S Na) in Ap'. split.
    - apply (sim_applied from to a w s s' _ _ _ Hft Na Npf Npt S Ap Ap');
        [apply (fshape_wf _ _ _ _ Sh (sm_wf _ _ _ _ S)) | apply (fshape_wf _ _ _ _ Sh' (sm_wf' _ _ _ _ S))
         | apply (fshape_qc _ _ _ _ Sh (sm_wf _ _ _ _ S) (sm_qc _ _ _ _ S))
         | apply (fshape_qc _ _ _ _ Sh' (sm_wf' _ _ _ _ S) (sm_qc' _ _ _ _ S))].
    - apply (simR_same from to s s' _ _ R Rs Rs').
  Qed.

  Lemma unbond_cfg : forall s a v rest ans, cfg (unbond_at s a v rest ans) = cfg s.
  Proof. intros. destruct (unbond_facts s a v rest ans) as ((_ & _ & _ & _ & _ & C & _) & _). exact C. Qed.
  Lemma deleg_cfg : forall s a w ans, cfg (delegate_at s a w ans) = cfg s.
  Proof. intros. destruct (deleg_facts s a w ans) as ((_ & _ & _ & _ & _ & C & _) & _). exact C. Qed.

  Theorem sim2_redelegate : forall e s s' a v w sh e2 t,
    pool_nb (cfg s) <> from -> pool_nb (cfg s) <> to -> a <> to -> sim2 from to s s' ->
    f_redelegate env ask env_next e s a v w sh = Ok (e2, t) ->
    exists t', f_redelegate env ask env_next e s' (ren_addr from to a) v w sh = Ok (e2, t') /\ sim2 from to t t'.
  Proof.
    intros e s s' a v w sh e2 t Npf Npt Na [S R] H. unfold f_redelegate in *.
    destruct (v =? w); [discriminate|].
    destruct (receiving s a v) eqn:Rc; [discriminate|]. rewrite (receiving_sim from to s s' a v Na R Rc).
    fold (del_of s a v) in H. fold (del_of s' (ren_addr from to a) v).
    pose proof (at_shares from to s s' a v S Na) as Esh.
    destruct (del_of s a v) as [r|]; [|discriminate].
    destruct (del_of s' (ren_addr from to a) v) as [r'|]; [|discriminate]. cbn in Esh. inversion Esh as [Er]. rewrite Er.
    destruct (d_shares r <? sh); [discriminate|].
    rewrite (at_query from to s s' a v S Na).
    fold (red_of s a v w) in H. fold (red_of s' (ren_addr from to a) v w).
    assert (Eold : match red_of s' (ren_addr from to a) v w with Some x => r_entries x | None => [] end
                 = match red_of s a v w with Some x => r_entries x | None => [] end).
    { rewrite (sr_red _ _ _ _ R), (sel_ren from to a _ _ _ Na). destruct (Z.eqb_spec a from) as [->|N].
      - destruct (red_of s from v w); reflexivity.
      - unfold ren_addr. destruct (Z.eqb_spec a from); [contradiction | reflexivity]. }
    rewrite Eold. set (ans1 := ask e (mkq 4 s a v sh)) in *. set (e1 := env_next e (mkq 4 s a v sh)) in *.
    match type of H with (if ?c then _ else _) = _ => destruct c; [discriminate|] end.
    set (rest := d_shares r - sh) in *.
    pose proof (sim2_unbond s s' a v rest ans1 Npf Npt Na (conj S R)) as [SA RA].
    set (sA := unbond_at s a v rest ans1) in *. set (sA' := unbond_at s' (ren_addr from to a) v rest ans1) in *.
    rewrite (at_query from to sA sA' a w SA Na).
    set (ans2 := ask e1 (mkq 5 sA a w (a_amt ans1))) in *.
    assert (CA : cfg sA = cfg s) by apply unbond_cfg.
    pose proof (sim2_deleg sA sA' a w ans2) as SB. rewrite CA in SB. specialize (SB Npf Npt Na (conj SA RA)). destruct SB as [SB RB].
    rewrite (sm_height _ _ _ _ S).
    inversion H. subst e2 t. clear H. eexists. split; [reflexivity|]. split.
    - apply sim_red_entry. exact SB.
    - apply simR_red_entry; assumption.
  Qed.
End RedStep.

(* ---------- all four follow-ups, sequences ---------- *)
Section Sequences.
  Variable env : Type.
  Variable ask : env -> query -> vans.
  Variable env_next : env -> query -> env.
  Variables from to : Z.
  Hypothesis Hft : from <> to.

  Theorem sim2_step : forall e s s' o e1 t,
    pool_nb (cfg s) <> from -> pool_nb (cfg s) <> to ->
    sim2 from to s s' -> factor o <> to ->
    fstep env ask env_next e s o = Ok (e1, t) ->
    exists t', fstep env ask env_next e s' (ren_fop from to o) = Ok (e1, t') /\ sim2 from to t t'.
  Proof.
    intros e s s' o e1 t Npf Npt [S R] Na H. destruct (is_red o) eqn:IR.
    - destruct o as [| | | a v w sh]; try discriminate. cbn [fstep ren_fop factor] in *.
      apply (sim2_redelegate env ask env_next from to Hft e s s' a v w sh e1 t Npf Npt Na (conj S R) H).
    - destruct (sim_step env ask env_next from to Hft e s s' o e1 t Npf Npt S Na IR H) as [t' [H' S']].
      exists t'. split; [exact H'|]. split; [exact S'|].
      apply (simR_same from to s s' t t' R).
      + apply (fstep_red_same env ask env_next e s o e1 t (sm_wf _ _ _ _ S) IR H).
      + apply (fstep_red_same env ask env_next e s' (ren_fop from to o) e1 t' (sm_wf' _ _ _ _ S)); [|exact H'].
        destruct o; cbn in *; congruence.
  Qed.

  Fixpoint fruns (e : env) (s : state) (ops : list fop) : outcome (env * state) :=
    match ops with
    | [] => Ok (e, s)
    | o :: r => match fstep env ask env_next e s o with
                | Ok (e1, t) => fruns e1 t r
                | Err x => Err x
                | Panic => Panic
                end
    end.

  Lemma fstep_cfg : forall e s o e1 t, wfP s -> fstep env ask env_next e s o = Ok (e1, t) -> cfg t = cfg s.
  Proof.
    intros e s o e1 t W H. destruct o as [a v amt | a v sh | a v | a v w sh]; cbn [fstep] in H.
    - destruct (delegate_applied env ask env_next _ _ _ _ _ _ _ H) as [_ (_ & _ & _ & _ & _ & C & _)]. exact C.
    - destruct (undelegate_applied env ask env_next _ _ _ _ _ _ _ W H) as [_ (_ & _ & _ & _ & _ & C & _)]. exact C.
    - destruct (withdraw_applied env ask env_next _ _ _ _ _ _ H) as [_ (_ & _ & _ & _ & _ & C & _)]. exact C.
    - unfold f_redelegate in H. destruct (v =? w); [discriminate|]. destruct (receiving s a v); [discriminate|].
      destruct (sget k2_eqb (a, v) (dels (stake s))) as [r|]; [|discriminate]. destruct (d_shares r <? sh); [discriminate|].
      match type of H with (if ?c then _ else _) = _ => destruct c; [discriminate|] end.
      inversion H. subst t. clear H.
      match goal with |- cfg (red_entry_at ?sb _ _ _ ?en) = _ =>
        assert (WB : wfP sb); [|destruct (red_entry_facts sb a v w en WB) as ((_ & _ & _ & _ & _ & C & _) & _); rewrite C] end.
      + match goal with |- wfP (delegate_at ?sa _ _ _) =>
          destruct (deleg_facts sa a w (ask (env_next e (mkq 4 s a v sh)) (mkq 5 sa a w (a_amt (ask e (mkq 4 s a v sh)))))) as (_ & Sh & _);
          apply (fshape_wf _ _ _ _ Sh) end.
        match goal with |- wfP (unbond_at s a v ?rest ?ans) => destruct (unbond_facts s a v rest ans) as (_ & Sh2 & _); apply (fshape_wf _ _ _ _ Sh2 W) end.
      + rewrite deleg_cfg, unbond_cfg. reflexivity.
  Qed.

  (* whatever the source could have done without migrating, the target can do after the migration, step by step with
     the same validator-side answers, and the two worlds stay related *)
  Theorem sim2_run : forall ops e s s' e1 t,
    pool_nb (cfg s) <> from -> pool_nb (cfg s) <> to ->
    sim2 from to s s' -> (forall o, In o ops -> factor o <> to) ->
    fruns e s ops = Ok (e1, t) ->
    exists t', fruns e s' (map (ren_fop from to) ops) = Ok (e1, t') /\ sim2 from to t t'.
  Proof.
    induction ops as [|o ops IH]; intros e s s' e1 t Npf Npt S Ha H.
    - cbn in H. inversion H. subst. exists s'. split; [reflexivity | exact S].
    - cbn [fruns] in H. destruct (fstep env ask env_next e s o) as [[e2 t2]| |] eqn:E; try discriminate.
      destruct (sim2_step e s s' o e2 t2 Npf Npt S (Ha o (or_introl eq_refl)) E) as [t2' [E' S2]].
      pose proof (fstep_cfg _ _ _ _ _ (sm_wf _ _ _ _ (proj1 S)) E) as C.
      destruct (IH e2 t2 t2' e1 t) as [t' [R S']]; try assumption; try (rewrite C; assumption).
      { intros o' I. apply Ha. right. exact I. }
      exists t'. split; [|exact S']. cbn [map fruns]. rewrite E'. exact R.
  Qed.
End Sequences.

(* ---------- the migration establishes the extended relation ---------- *)
Lemma qrel3_map_ren : forall from to l, qrel3 from to l (map (ren_trip from to) l).
Proof.
  intros from to l. induction l as [|[a v] l IH]; cbn; constructor; [|exact IH].
  unfold ren_trip, ren_addr. cbn. destruct (Z.eqb_spec a from) as [->|]; [right; split; reflexivity | left; reflexivity].
Qed.
Lemma qrel3_refl : forall from to l, qrel3 from to l l.
Proof. intros. induction l; constructor; [left; reflexivity | assumption]. Qed.

Lemma option_unit_eq : forall a b : option unit,
  (match a with Some _ => true | None => false end) = (match b with Some _ => true | None => false end) -> a = b.
Proof. intros [[]|] [[]|]; cbn; congruence. Qed.

Theorem sim2_after_migration_w : forall (sigT : Type) (recover : Z -> Z -> sigT -> option Z) s from to sg s',
  wf s -> qcoverb s = true -> (forall d, 0 <= bal_of s to d) -> idx36_ok s ->
  migrate_tx sigT recover s from to sg = Ok s' -> sim2 from to s s'.
Proof.
  intros sigT recover s from to sg s' W Q B I36 H. split; [eapply sim_after_migration_w; eassumption|].
  apply migrate_tx_inv in H. destruct H as (N & _ & H). pose proof (migrate_account_moved _ _ _ _ W N H) as M.
  apply migrate_account_inv in H. destruct H as (_ & _ & _ & V & _).
  pose proof (staking_validate_target_clean _ _ _ V) as C.
  assert (Cr : forall v w, red_of s to v w = None) by (apply (to_no_red to s C)).
  assert (Ci : forall v w, i36_of s to v w = None).
  { intros v w. pose proof (I36 (to, (v, w))) as X. unfold shas in X. fold (i36_of s to v w) in X.
    change (sget k3_eqb (to, (v, w)) (reds (stake s))) with (red_of s to v w) in X. rewrite Cr in X.
    destruct (i36_of s to v w); [discriminate | reflexivity]. }
  constructor.
  - intros v w. split; [apply Cr | apply Ci].
  - apply (mv_red _ _ _ _ M).
  - intros a v w. apply option_unit_eq. pose proof (mv_i36 _ _ _ _ M a v w) as X. unfold in36, shas in X.
    fold (i36_of s' a v w) (i36_of s to v w) (i36_of s from v w) (i36_of s a v w) in X. rewrite X. unfold sel.
    pose proof (I36 (from, (v, w))) as Y. unfold shas in Y. fold (i36_of s from v w) in Y.
    destruct (a =? to).
    + rewrite Ci, orb_false_r. unfold has_red, shas. exact (eq_sym Y).
    + destruct (a =? from); [|reflexivity]. unfold has_red, shas. rewrite <- Y.
      destruct (i36_of s from v w); reflexivity.
  - intros t. rewrite (mv_redq _ _ _ _ M). destruct (existsb (Z.eqb t) (red_times s from)); [apply qrel3_map_ren | apply qrel3_refl].
Qed.

Theorem sim2_after_migration : forall (sigT : Type) (recover : Z -> Z -> sigT -> option Z) s from to sg s',
  wf s -> qcoverb s = true -> balposb s = true -> idx36_ok s ->
  migrate_tx sigT recover s from to sg = Ok s' -> sim2 from to s s'.
Proof. intros sigT recover s from to sg s' W Q B I36 H. eapply sim2_after_migration_w; eauto. intros d. apply balpos_nonneg. exact B. Qed.

(* ---------- assembled ---------- *)
Theorem followups_commute_w : forall (sigT : Type) (recover : Z -> Z -> sigT -> option Z)
    (env : Type) (ask : env -> query -> vans) (env_next : env -> query -> env)
    s from to sg s' e ops e1 t,
  wf s -> qcoverb s = true -> (forall d, 0 <= bal_of s to d) -> idx36_ok s ->
  pool_nb (cfg s) <> from -> pool_nb (cfg s) <> to ->
  migrate_tx sigT recover s from to sg = Ok s' ->
  (forall o, In o ops -> factor o <> to) ->
  fruns env ask env_next e s ops = Ok (e1, t) ->
  exists t', fruns env ask env_next e s' (map (ren_fop from to) ops) = Ok (e1, t') /\ sim2 from to t t'.
Proof.
  intros sigT recover env ask env_next s from to sg s' e ops e1 t W Q B I Npf Npt H Ha R.
  pose proof (sim2_after_migration_w sigT recover s from to sg s' W Q B I H) as S.
  apply migrate_tx_inv in H. destruct H as (N & _).
  apply (sim2_run env ask env_next from to N ops e s s' e1 t Npf Npt S Ha R).
Qed.

Theorem followups_commute : forall (sigT : Type) (recover : Z -> Z -> sigT -> option Z)
    (env : Type) (ask : env -> query -> vans) (env_next : env -> query -> env)
    s from to sg s' e ops e1 t,
  wf s -> qcoverb s = true -> balposb s = true -> idx36_ok s ->
  pool_nb (cfg s) <> from -> pool_nb (cfg s) <> to ->
  migrate_tx sigT recover s from to sg = Ok s' ->
  (forall o, In o ops -> factor o <> to) ->
  fruns env ask env_next e s ops = Ok (e1, t) ->
  exists t', fruns env ask env_next e s' (map (ren_fop from to) ops) = Ok (e1, t') /\ sim2 from to t t'.
Proof.
  intros sigT recover env ask env_next s from to sg s' e ops e1 t W Q B. apply followups_commute_w; try assumption.
  intros d. apply balpos_nonneg. exact B.
Qed.

(* a concrete run: validator-side answers fixed, the source's would-be actions replayed by the target *)
Definition ex_ask (_ : unit) (q : query) : vans :=
  {| a_reward := 7; a_start := {| st_period := 9; st_stake := 1; st_height := q_height q |};
     a_amt := q_arg q; a_bonded := true; a_time := q_now q + 1000; a_id := 50 + q_kind q; a_max := 7 |}.
Definition ex_next (e : unit) (_ : query) : unit := e.
Definition ex_ops : list fop :=
  [FUndelegate 1 13 200; FWithdraw 1 13; FDelegate 1 13 50; FRedelegate 1 13 14 100; FUndelegate 9 13 900].

Theorem followups_example :
  let s := ex_init in let s' := ex_after in
  exists t t', fruns unit ex_ask ex_next tt s ex_ops = Ok (tt, t) /\
               fruns unit ex_ask ex_next tt s' (map (ren_fop 1 5) ex_ops) = Ok (tt, t') /\
  del_of t 1 13 = Some {| d_del := 1; d_val := 13; d_shares := 450 |} /\
  del_of t' 5 13 = Some {| d_del := 5; d_val := 13; d_shares := 450 |} /\ del_of t' 1 13 = None /\
  del_of t' 5 14 = Some {| d_del := 5; d_val := 14; d_shares := 100 |} /\
  option_map (fun r => length (r_entries r)) (red_of t 1 13 14) = Some 1%nat /\
  option_map (fun r => length (r_entries r)) (red_of t' 5 13 14) = Some 1%nat /\ red_of t' 1 13 14 = None /\
  option_map (fun u => length (u_entries u)) (ubd_of t' 5 13) = Some 3%nat /\
  del_of t 9 13 = None /\ del_of t' 9 13 = None /\
  bal_of t 1 0 = 5000 + 7 + 7 + 7 + 7 - 50 /\ bal_of t' 5 0 = 5003 + 7 + 7 + 7 + 7 - 50 /\ bal_of t' 1 0 = 0 /\
  red_slice t' 1010 = [(5, (13, 14))] /\ receiving t' 5 14 = true /\ receiving t 1 14 = true.
Proof.
  cbv zeta. eexists. eexists. split; [vm_compute; reflexivity|]. split; [vm_compute; reflexivity|].
  repeat split; vm_compute; reflexivity.
Qed.

(* ---------- validator slash (unbonding entries) keeps the two worlds related ---------- *)
Section SumByValidator.
  Variable G : Z -> list ubd_entry -> Z.      (* depends on the validator and the entries, not on the delegator *)
  Let g (kv : Z * Z * ubd_rec) : Z := G (snd (fst kv)) (u_entries (snd kv)).
  Let sel_d (a : Z) (kv : Z * Z * ubd_rec) : bool := fst (fst kv) =? a.

  Lemma sum_filter_lookup : forall a a' (f : ubd_rec -> ubd_rec) (m m' : list (Z * Z * ubd_rec)),
    NoDup (map fst m) -> NoDup (map fst m') -> (forall u, u_entries (f u) = u_entries u) ->
    (forall v, sget k2_eqb (a', v) m' = option_map f (sget k2_eqb (a, v) m)) ->
    sumZ g (filter (sel_d a') m') = sumZ g (filter (sel_d a) m).
  Proof.
    intros a a' f m m' N N' Fe L.
    set (ren := fun kv : Z * Z * ubd_rec => ((a', snd (fst kv)), f (snd kv))).
    set (A := filter (sel_d a) m). set (A' := filter (sel_d a') m').
    assert (P : Permutation (map ren A) A').
    { apply NoDup_Permutation.
      - apply (NoDup_map_inv fst). rewrite map_map. unfold ren. cbn [fst].
        assert (NA : NoDup (map fst A)) by (apply filter_nodup_keys; exact N).
        assert (KA : forall kv, In kv A -> fst (fst kv) = a).
        { intros kv I. apply filter_In in I. destruct I as [_ I]. apply Z.eqb_eq in I. exact I. }
        clearbody A. induction A as [|kv A IH]; [constructor|]. cbn. inversion NA as [|? ? X Y]. subst. constructor.
        + intros I. apply X. apply in_map_iff in I. destruct I as [kv' [E I]]. apply in_map_iff. exists kv'. split; [|exact I].
          inversion E as [E2]. destruct kv as [[d r] u], kv' as [[d' r'] u']. cbn in *.
          pose proof (KA _ (or_introl eq_refl)) as K1. pose proof (KA _ (or_intror I)) as K2. cbn in K1, K2. congruence.
        + apply IH; [exact Y|]. intros kv' I. apply KA. right. exact I.
      - apply (NoDup_map_inv fst). apply filter_nodup_keys. exact N'.
      - intros [[d r] u]. split.
        + intros I. apply in_map_iff in I. destruct I as [[[d0 r0] u0] [E I]]. unfold ren in E. cbn in E. inversion E. subst.
          apply filter_In in I. destruct I as [I C]. unfold sel_d in C. cbn in C. apply Z.eqb_eq in C. subst d0.
          apply filter_In. split; [|unfold sel_d; cbn; apply Z.eqb_refl].
          apply (sget_in k2_eqb k2_eqb_ok). rewrite L. rewrite (in_sget_nodup k2_eqb k2_eqb_ok _ _ _ N I). reflexivity.
        + intros I. apply filter_In in I. destruct I as [I C]. unfold sel_d in C. cbn in C. apply Z.eqb_eq in C. subst d.
          pose proof (in_sget_nodup k2_eqb k2_eqb_ok _ _ _ N' I) as Gt. rewrite L in Gt.
          destruct (sget k2_eqb (a, r) m) as [u0|] eqn:G0; [|discriminate]. cbn in Gt. inversion Gt. subst u.
          apply in_map_iff. exists ((a, r), u0). split; [reflexivity|]. apply filter_In. split; [|unfold sel_d; cbn; apply Z.eqb_refl].
          apply (sget_in k2_eqb k2_eqb_ok). exact G0. }
    rewrite <- (sumZ_perm _ _ _ P), sumZ_map. apply sumZ_ext. intros kv _. unfold g, ren. cbn [fst snd]. rewrite Fe. reflexivity.
  Qed.

  Lemma sum_filter_none : forall a (m : list (Z * Z * ubd_rec)), (forall v, sget k2_eqb (a, v) m = None) ->
    sumZ g (filter (sel_d a) m) = 0.
  Proof.
    intros a m H. assert (E : filter (sel_d a) m = []); [|rewrite E; reflexivity].
    induction m as [|[[d r] u] m IH]; [reflexivity|]. cbn [filter]. unfold sel_d at 1. cbn [fst].
    destruct (Z.eqb_spec d a) as [->|N].
    - specialize (H r). cbn in H. unfold k2_eqb, pkeqb in H. cbn in H. rewrite !Z.eqb_refl in H. discriminate.
    - apply IH. intros v. specialize (H v). cbn in H. unfold k2_eqb, pkeqb in H. cbn [fst snd] in H.
      replace (a =? d) with false in H by (symmetry; apply Z.eqb_neq; congruence). exact H.
  Qed.

  (* the delegators other than the pair: same records on both sides *)
  Lemma sum_filter_others : forall from to (m m' : list (Z * Z * ubd_rec)),
    NoDup (map fst m) -> NoDup (map fst m') ->
    (forall a v, a <> from -> a <> to -> sget k2_eqb (a, v) m' = sget k2_eqb (a, v) m) ->
    sumZ g (filter (fun kv => negb (sel_d from kv) && negb (sel_d to kv)) m')
    = sumZ g (filter (fun kv => negb (sel_d from kv) && negb (sel_d to kv)) m).
  Proof.
    intros from to m m' N N' L. apply sumZ_perm. apply NoDup_Permutation.
    - apply (NoDup_map_inv fst). apply filter_nodup_keys. exact N'.
    - apply (NoDup_map_inv fst). apply filter_nodup_keys. exact N.
    - intros [[d r] u]. rewrite !filter_In. unfold sel_d. cbn [fst].
      split; intros [I C]; (split; [|exact C]); apply andb_true_iff in C; destruct C as [C1 C2];
        apply negb_true_iff in C1, C2; apply Z.eqb_neq in C1, C2; apply (sget_in k2_eqb k2_eqb_ok).
      + rewrite <- (L d r C1 C2). apply (in_sget_nodup k2_eqb k2_eqb_ok _ _ _ N' I).
      + rewrite (L d r C1 C2). apply (in_sget_nodup k2_eqb k2_eqb_ok _ _ _ N I).
  Qed.

  Lemma sum_three_way : forall from to (m : list (Z * Z * ubd_rec)), from <> to ->
    sumZ g m = sumZ g (filter (sel_d from) m) + sumZ g (filter (sel_d to) m)
               + sumZ g (filter (fun kv => negb (sel_d from kv) && negb (sel_d to kv)) m).
  Proof.
    intros from to m Hft. induction m as [|[[d r] u] m IH]; [reflexivity|]. rewrite sumZ_cons, IH. cbn [filter].
    assert (Hs : forall a, sel_d a (d, r, u) = (d =? a)) by reflexivity. rewrite !Hs.
    destruct (Z.eqb_spec d from) as [->|N1].
    - replace (from =? to) with false by (symmetry; apply Z.eqb_neq; exact Hft). cbn [negb andb]. rewrite sumZ_cons. lia.
    - destruct (Z.eqb_spec d to) as [->|N2]; cbn [negb andb]; rewrite sumZ_cons; lia.
  Qed.

  Lemma sum_sim : forall from to s s', from <> to -> sim from to s s' ->
    sumZ g (ubds (stake s')) = sumZ g (ubds (stake s)).
  Proof.
    intros from to s s' Hft S. pose proof (sm_wf _ _ _ _ S) as W. pose proof (sm_wf' _ _ _ _ S) as W'.
    rewrite (sum_three_way from to (ubds (stake s')) Hft), (sum_three_way from to (ubds (stake s)) Hft).
    rewrite (sum_filter_none from (ubds (stake s'))).
    2:{ intros v. change (sget k2_eqb (from, v) (ubds (stake s'))) with (ubd_of s' from v). rewrite (sm_ubd _ _ _ _ S). apply sel_from. exact Hft. }
    rewrite (sum_filter_none to (ubds (stake s))).
    2:{ intros v. apply (proj2 (proj2 (sm_clean _ _ _ _ S v))). }
    rewrite (sum_filter_lookup from to (to_ubd to) (ubds (stake s)) (ubds (stake s')) (wf_ubds s W) (wf_ubds s' W')).
    2:{ reflexivity. }
    2:{ intros v. change (sget k2_eqb (to, v) (ubds (stake s'))) with (ubd_of s' to v). rewrite (sm_ubd _ _ _ _ S). apply sel_to. }
    rewrite (sum_filter_others from to (ubds (stake s)) (ubds (stake s')) (wf_ubds s W) (wf_ubds s' W')).
    2:{ intros a v N1 N2. change (sget k2_eqb (a, v) (ubds (stake s'))) with (ubd_of s' a v). rewrite (sm_ubd _ _ _ _ S). apply sel_other; assumption. }
    lia.
  Qed.
End SumByValidator.

Lemma sget_map_kv {V} (phi : Z * Z -> V -> V) : forall k (m : list (Z * Z * V)),
  sget k2_eqb k (map (fun kv => (fst kv, phi (fst kv) (snd kv))) m) = option_map (phi k) (sget k2_eqb k m).
Proof.
  intros k m. induction m as [|[k' x] m IH]; [reflexivity|]. cbn [map sget fst snd].
  destruct (k2_eqb k k') eqn:E; [apply k2_eqb_ok in E; subst; reflexivity | exact IH].
Qed.

Definition slash_phi (nw v ih fr : Z) (k : Z * Z) (u : ubd_rec) : ubd_rec := if snd k =? v then slash_rec nw ih fr u else u.
Definition slash_G (nw v ih fr : Z) (w : Z) (es : list ubd_entry) : Z :=
  if w =? v then sum_bal es - sum_bal (map (slash_entry nw ih fr) es) else 0.

Lemma slash_entry_time : forall nw ih fr e, ue_time (slash_entry nw ih fr e) = ue_time e.
Proof. intros. unfold slash_entry. destruct ((ue_height e <? ih) || ((ue_time e <=? nw) && (ue_hold e <=? 0))); reflexivity. Qed.

Lemma slash_facts : forall s v ih fr,
  let t := slash_ubds s v ih fr in
  ubds (stake t) = map (fun kv => (fst kv, slash_phi (now s) v ih fr (fst kv) (snd kv))) (ubds (stake s)) /\
  (forall b d, bal_of t b d = bal_of s b d +
     (if at2 b d (pool_nb (cfg s)) (bond_denom (cfg s))
      then - sumZ (fun kv : Z * Z * ubd_rec => slash_G (now s) v ih fr (snd (fst kv)) (u_entries (snd kv))) (ubds (stake s)) else 0)) /\
  (NoDup (map fst (bal s)) -> NoDup (map fst (bal t))) /\
  start t = start s /\ dels (stake t) = dels (stake s) /\ ubdq (stake t) = ubdq (stake s) /\ red_same s t /\
  cfg t = cfg s /\ now t = now s /\ height t = height s.
Proof.
  intros s v ih fr. unfold slash_ubds.
  set (k := stake s). set (s0 := set_stake s (set_ubd k _ (idx33 k) (ubdq k))).
  set (x := - fold_right _ 0 (ubds k)).
  destruct (credit_keeps (pool_nb (cfg s)) (bond_denom (cfg s)) x s0) as (Ks & Kk & Kc & Kn & Kh & _).
  repeat split.
  - cbn zeta. rewrite Kk. unfold s0. cbn [stake set_stake set_ubd ubds]. apply map_ext. intros [kk u]. unfold slash_phi. cbn [fst snd].
    destruct (snd kk =? v); reflexivity.
  - intros b d. cbn zeta. rewrite bal_of_credit. unfold s0 at 1. unfold bal_of at 1. cbn [bal set_stake]. fold (bal_of s b d).
    unfold s0. cbn [cfg set_stake]. destruct (at2 b d (pool_nb (cfg s)) (bond_denom (cfg s))); [|reflexivity].
    f_equal.
  - intros N. apply credit_bal_nodup. exact N.
  - cbn zeta. rewrite Ks. reflexivity.
  - cbn zeta. rewrite Kk. reflexivity.
  - cbn zeta. rewrite Kk. reflexivity.
  - cbn zeta. rewrite Kk. reflexivity.
  - cbn zeta. rewrite Kk. reflexivity.
  - cbn zeta. rewrite Kk. reflexivity.
  - cbn zeta. rewrite Kc. reflexivity.
  - cbn zeta. rewrite Kn. reflexivity.
  - cbn zeta. rewrite Kh. reflexivity.
Qed.

Lemma slash_wf_qc : forall s v ih fr, wfP s -> qcoverP s ->
  wfP (slash_ubds s v ih fr) /\ qcoverP (slash_ubds s v ih fr).
Proof.
  intros s v ih fr W Q.
  destruct (slash_facts s v ih fr) as (Eu & _ & Bn & Est & Ed & Euq & (Er & Erq & _) & _).
  assert (Keys : map fst (ubds (stake (slash_ubds s v ih fr))) = map fst (ubds (stake s))).
  { rewrite Eu, map_map. reflexivity. }
  assert (Inv : forall kv, In kv (ubds (stake (slash_ubds s v ih fr))) ->
            exists u0, In (fst kv, u0) (ubds (stake s)) /\ u_del (snd kv) = u_del u0 /\ u_val (snd kv) = u_val u0 /\
                       (u_entries (snd kv) = u_entries u0 \/ u_entries (snd kv) = map (slash_entry (now s) ih fr) (u_entries u0))).
  { intros kv I. rewrite Eu in I. apply in_map_iff in I. destruct I as [[k0 u0] [E I]]. subst kv. cbn [fst snd].
    exists u0. split; [exact I|]. unfold slash_phi. cbn [snd]. destruct (snd k0 =? v); cbn; auto. }
  split; constructor.
  - apply Bn, (wf_bal s W).
  - rewrite Est. apply (wf_start s W).
  - rewrite Ed. apply (wf_dels s W).
  - rewrite Keys. apply (wf_ubds s W).
  - rewrite Er. apply (wf_reds s W).
  - intros kv I. rewrite Ed in I. apply (wf_delk s W kv I).
  - intros kv I. destruct (Inv kv I) as (u0 & I0 & D & Vv & _). rewrite D, Vv. apply (wf_ubdk s W _ I0).
  - intros kv I. rewrite Er in I. apply (wf_redk s W kv I).
  - intros k0 I. rewrite Est in I. rewrite Ed. apply (wf_startdel s W k0 I).
  - intros kv e I E. unfold ubd_slice. rewrite Euq. destruct (Inv kv I) as (u0 & I0 & _ & _ & [En|En]); rewrite En in E.
    + apply (qc_ubd s Q _ e I0 E).
    + apply in_map_iff in E. destruct E as [e0 [<- E0]]. rewrite slash_entry_time. apply (qc_ubd s Q _ e0 I0 E0).
  - intros kv e I E. rewrite Er in I. unfold red_slice. rewrite Erq. apply (qc_red s Q kv e I E).
  - intros kv I. destruct (Inv kv I) as (u0 & I0 & _ & _ & [En|En]); rewrite En; pose proof (qc_ubd_ne s Q _ I0) as NE; cbn in NE.
    + exact NE.
    + destruct (u_entries u0); [contradiction | discriminate].
  - intros kv I. rewrite Er in I. apply (qc_red_ne s Q kv I).
  - rewrite Euq. apply (qc_ubdq s Q).
  - rewrite Erq. apply (qc_redq s Q).
Qed.

Theorem sim2_slash : forall from to s s' v ih fr,
  from <> to -> pool_nb (cfg s) <> from -> pool_nb (cfg s) <> to ->
  sim2 from to s s' -> sim2 from to (slash_ubds s v ih fr) (slash_ubds s' v ih fr).
Proof.
  intros from to s s' v ih fr Hft Npf Npt [S R].
  destruct (slash_facts s v ih fr) as (Eu & Eb & _ & Est & Ed & Euq & Rs & Ec & En & Eh).
  destruct (slash_facts s' v ih fr) as (Eu' & Eb' & _ & Est' & Ed' & Euq' & Rs' & Ec' & En' & Eh').
  destruct (slash_wf_qc s v ih fr (sm_wf _ _ _ _ S) (sm_qc _ _ _ _ S)) as [Wt Qt].
  destruct (slash_wf_qc s' v ih fr (sm_wf' _ _ _ _ S) (sm_qc' _ _ _ _ S)) as [Wt' Qt'].
  pose proof (sm_now _ _ _ _ S) as Nw. pose proof (sm_cfg _ _ _ _ S) as Cf. pose proof (sm_height _ _ _ _ S) as Hh.
  assert (Lu : forall t0 b w, ubd_of (slash_ubds t0 v ih fr) b w = option_map (slash_phi (now t0) v ih fr (b, w)) (ubd_of t0 b w)).
  { intros t0 b w. unfold ubd_of. rewrite (proj1 (slash_facts t0 v ih fr)). apply sget_map_kv. }
  split; [|apply (simR_same from to s s' _ _ R Rs Rs')].
  constructor; try assumption.
  - congruence.
  - congruence.
  - congruence.
  - intros w. unfold del_of, start_of. rewrite Ed, Est. destruct (sm_clean _ _ _ _ S w) as (A & B & C).
    split; [exact A|]. split; [exact B|]. rewrite Lu, C. reflexivity.
  - intros d. rewrite Eb. unfold at2. replace (to =? pool_nb (cfg s)) with false by (symmetry; apply Z.eqb_neq; congruence).
    cbn [andb]. pose proof (sm_nonneg _ _ _ _ S d). lia.
  - intros b d. rewrite Eb', !Eb, (sm_bal _ _ _ _ S), Cf, Nw.
    rewrite (sum_sim (slash_G (now s) v ih fr) from to s s' Hft S). unfold sel, at2.
    set (p := pool_nb (cfg s)). assert (Np1 : p <> from) by exact Npf. assert (Np2 : p <> to) by exact Npt. clearbody p.
    repeat match goal with |- context [?x =? ?y] => destruct (Z.eqb_spec x y); subst end; cbn [andb]; try lia; try congruence.
  - intros b w. unfold del_of. rewrite Ed, Ed'. apply (sm_del _ _ _ _ S).
  - intros b w. unfold start_of. rewrite Est, Est'. apply (sm_start _ _ _ _ S).
  - intros b w. rewrite !Lu, (sm_ubd _ _ _ _ S), Nw. unfold sel, slash_phi. cbn [snd].
    destruct (b =? to).
    + destruct (ubd_of s from w); [|reflexivity]. cbn. destruct (w =? v); reflexivity.
    + destruct (b =? from); reflexivity.
  - intros tau. unfold ubd_slice. rewrite Euq, Euq'. apply (sm_q _ _ _ _ S).
Qed.
