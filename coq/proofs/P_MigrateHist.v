(* P_MigrateHist.v — statements over histories (a migration record is for ever: no second migration),
   and the concrete witnesses: governance scan blind to open proposals, stale indexes, refund to the
   emptied source, non-vacuity examples. *)
From Coq Require Import ZArith List Bool Lia Permutation.
From FxV Require Import model.M_Migrate model.M_MigrateSpec model.M_MigrateCorr proofs.P_MigrateBase proofs.P_MigrateAuth
  proofs.P_MigrateMove proofs.P_MigrateExec proofs.P_MigrateChar proofs.P_MigrateMoved proofs.P_MigrateIdx
  proofs.P_MigrateInv proofs.P_MigrateMature.
Import ListNotations.
Open Scope Z_scope.

(* ---------- the migrate store is only ever extended ---------- *)
Lemma fold_keeps {A B X} (P : A -> X) (f : A -> B -> A) :
  (forall a x, P (f a x) = P a) -> forall l a, P (fold_left f l a) = P a.
Proof. intros H. induction l as [|x l IH]; intros a; [reflexivity|]. cbn. rewrite IH. apply H. Qed.

Lemma pay_mig : forall a b d x s, mig (pay a b d x s) = mig s.
Proof. intros. unfold pay. destruct (x =? 0); reflexivity. Qed.

Lemma cu_mig : forall t s p, mig (complete_unbonding t s p) = mig s.
Proof.
  intros. unfold complete_unbonding. destruct (sget k2_eqb p (ubds (stake s))) as [u|]; [|reflexivity].
  destruct (filter (fun e => negb (ubd_mature t e)) (u_entries u)); cbn [mig set_stake]; apply pay_mig.
Qed.

Lemma cr_mig : forall t s p, mig (complete_redelegation t s p) = mig s.
Proof.
  intros. unfold complete_redelegation. destruct (sget k3_eqb p (reds (stake s))) as [u|]; [|reflexivity].
  destruct (filter (fun e => negb (red_mature t e)) (r_entries u)); reflexivity.
Qed.

Lemma sebl_mig : forall t s, mig (staking_endblock t s) = mig s.
Proof.
  intros. unfold staking_endblock. rewrite (fold_keeps mig _ (cr_mig t)). cbn [mig set_stake].
  rewrite (fold_keeps mig _ (cu_mig t)). reflexivity.
Qed.

Lemma settle_mig : forall pid b s, mig (settle_deposits pid b s) = mig s.
Proof.
  intros. unfold settle_deposits. cbn [mig set_gov].
  apply (fold_keeps mig). intros a x. destruct b; [reflexivity | apply pay_mig].
Qed.

Lemma drop_mig : forall s x, mig (drop_inactive s x) = mig s.
Proof.
  intros. unfold drop_inactive. destruct (sget Z.eqb (snd x) (props (gov s))); [|reflexivity].
  rewrite settle_mig. reflexivity.
Qed.

Lemma close_mig : forall b c s x, mig (close_active b c s x) = mig s.
Proof.
  intros. unfold close_active. destruct (sget Z.eqb (snd x) (props (gov s))); [|reflexivity].
  destruct (memZ (snd x) c); [reflexivity|]. rewrite settle_mig. reflexivity.
Qed.

Lemma valset_mig : forall vs s, mig (valset_update vs s) = mig s.
Proof. intros. unfold valset_update. destruct (v_pool vs =? 0); reflexivity. Qed.

Lemma end_block_mig : forall t n b c vs s, mig (end_block t n b c vs s) = mig s.
Proof.
  intros. unfold end_block. cbn [mig set_clock]. rewrite sebl_mig, valset_mig. unfold gov_endblock.
  rewrite (fold_keeps mig _ (close_mig b c)), (fold_keeps mig _ drop_mig). reflexivity.
Qed.

Lemma add_deposit_mig : forall pid a amt s s', add_deposit pid a amt s = Ok s' -> mig s' = mig s.
Proof.
  intros pid a amt s s'. unfold add_deposit. destruct (sget Z.eqb pid (props (gov s))) as [p|]; [|discriminate].
  destruct (p_status p); try discriminate;
    (destruct ((amt <? 0) || (bal_of s a (bond_denom (cfg s)) - Z.max 0 (locked_of s a (bond_denom (cfg s))) <? amt)); [discriminate|]; intros H; inversion H; cbn [mig set_gov]; apply pay_mig).
Qed.

Lemma submit_mig : forall a amt x vp m s s', submit_proposal a amt x vp m s = Ok s' -> mig s' = mig s.
Proof.
  intros a amt x vp m s s'. unfold submit_proposal.
  match goal with |- match ?x with _ => _ end = _ -> _ => destruct x as [s2| |] eqn:E end; try discriminate.
  intros H. inversion H. subst. apply add_deposit_mig in E. exact E.
Qed.

Lemma vote_mig : forall a pid s s', cast_vote a pid s = Ok s' -> mig s' = mig s.
Proof.
  intros a pid s s'. unfold cast_vote. destruct (sget Z.eqb pid (props (gov s))) as [p|]; [|discriminate].
  destruct (p_status p); try discriminate. intros H. inversion H. reflexivity.
Qed.

Section Hist.
  Variable sigT : Type.
  Variable recover : addr -> addr -> sigT -> option addr.

  Lemma migrate_tx_records : forall s from to sg s' a,
    migrate_tx sigT recover s from to sg = Ok s' ->
    has_record s' a = (a =? to) || (a =? from) || has_record s a.
  Proof.
    intros s from to sg s' a H. apply migrate_tx_inv in H. destruct H as (_ & _ & H).
    apply migrate_account_inv in H. destruct H as (_ & _ & _ & _ & _ & s1 & X & ->).
    rewrite has_record_set_record. f_equal. apply staking_execute_closed in X. rewrite X. reflexivity.
  Qed.

  Lemma sget_map_values {V W} (g : V -> W) : forall k (m : list (Z * V)),
    sget Z.eqb k (map (fun kv => (fst kv, g (snd kv))) m) = option_map g (sget Z.eqb k m).
  Proof.
    intros k m. induction m as [|[k' v] m IH]; [reflexivity|]. cbn. destruct (k =? k'); [reflexivity | exact IH].
  Qed.

  (* the restart keeps every record: this uses the generated fact genesis_import_keeps_records = true *)
  Lemma export_import_keeps_record : forall h s a, has_record (export_import h s) a = has_record s a.
  Proof.
    intros h s a. unfold export_import, has_record, shas. cbn [Gen_C14.genesis_import_keeps_records mig set_mig recs].
    rewrite sget_map_values. destruct (sget Z.eqb a (recs (mig s))); reflexivity.
  Qed.

  Lemma step_keeps_record : forall s o a, has_record s a = true -> has_record (step sigT recover s o) a = true.
  Proof.
    intros s o a H. destruct o as [f t sg | t n b c | b amt x vp m | b pid amt | b pid | h]; cbn [step].
    - destruct (migrate_tx sigT recover s f t sg) as [s'| |] eqn:E; cbn [keep]; try exact H.
      rewrite (migrate_tx_records _ _ _ _ _ a E), H. apply orb_true_r.
    - unfold has_record. rewrite end_block_mig. exact H.
    - destruct (submit_proposal b amt x vp m s) as [s'| |] eqn:E; cbn [keep]; try exact H.
      unfold has_record. rewrite (submit_mig _ _ _ _ _ _ _ E). exact H.
    - destruct (add_deposit pid b amt s) as [s'| |] eqn:E; cbn [keep]; try exact H.
      unfold has_record. rewrite (add_deposit_mig _ _ _ _ _ E). exact H.
    - destruct (cast_vote b pid s) as [s'| |] eqn:E; cbn [keep]; try exact H.
      unfold has_record. rewrite (vote_mig _ _ _ _ E). exact H.
    - rewrite export_import_keeps_record. exact H.
  Qed.

  Lemma run_keeps_record : forall ops s a, has_record s a = true -> has_record (run sigT recover s ops) a = true.
  Proof.
    induction ops as [|o ops IH]; intros s a H; [exact H|]. cbn. apply IH. apply step_keeps_record. exact H.
  Qed.

  (* once: after an accepted migration, no later migration involving either address is accepted, whatever happens
     in between — migrations, blocks, governance, restarts from an exported genesis *)
  Theorem once : forall s from to sg s',
    migrate_tx sigT recover s from to sg = Ok s' ->
    forall ops f t sg2, f = from \/ f = to \/ t = from \/ t = to ->
    forall s2, migrate_tx sigT recover (run sigT recover s' ops) f t sg2 <> Ok s2.
  Proof.
    intros s from to sg s' H ops f t sg2 Hx s2 A.
    assert (Rf : has_record (run sigT recover s' ops) from = true).
    { apply run_keeps_record. rewrite (migrate_tx_records _ _ _ _ _ from H), Z.eqb_refl. rewrite orb_true_r. reflexivity. }
    assert (Rt : has_record (run sigT recover s' ops) to = true).
    { apply run_keeps_record. rewrite (migrate_tx_records _ _ _ _ _ to H), Z.eqb_refl. reflexivity. }
    apply migrate_tx_inv in A. destruct A as (_ & _ & A). apply migrate_account_inv in A.
    destruct A as (R1 & R2 & _). destruct Hx as [E|[E|[E|E]]]; subst; congruence.
  Qed.
End Hist.

(* ---------- concrete witnesses ---------- *)
Lemma matchb_ok {K V} (eqb : K -> K -> bool) : eqb_ok eqb -> forall (m : list (K * V)) ix,
  matchb eqb m ix = true -> idx_matches eqb m ix.
Proof.
  intros Hk m ix H k. unfold matchb in H. apply andb_true_iff in H. destruct H as [H1 H2].
  rewrite forallb_forall in H1, H2. apply eq_iff_eq_true. rewrite !(shas_true_iff eqb Hk). split.
  - intros I. apply in_map_iff in I. destruct I as [kv [E I]]. specialize (H2 kv I). rewrite E in H2.
    apply (shas_true_iff eqb Hk). exact H2.
  - intros I. apply in_map_iff in I. destruct I as [kv [E I]]. specialize (H1 kv I). rewrite E in H1.
    apply (shas_true_iff eqb Hk). exact H1.
Qed.

(* sources 1,2,3 (secp256k1 accounts); targets 5,6,7; another delegator 9; validator 13;
   source 1 has a delegation and an unbonding entry whose completion time it shares with delegator 9 *)
Definition ex_cfg : config :=
  {| bond_denom := 0; pool_nb := 90; gov_acc := 91; max_dep_period := 1000; voting_period := 1000;
     min_deposit := 10000; burn_prevote := false |}.

Definition ex_init : state :=
  mk_st ex_cfg 10 5 [(1, 2); (2, 2); (3, 2); (5, 1); (9, 3); (13, 2)] [13]
    [((1, 0), 5000); ((1, 1), 77); ((2, 0), 5000); ((3, 0), 5000); ((5, 0), 3); ((9, 0), 50000); ((90, 0), 300)]
    [((1, 13), SI 2 700 4); ((9, 13), SI 2 900 4); ((13, 13), SI 1 100 0)]
    [((1, 13), D 1 13 700); ((9, 13), D 9 13 900); ((13, 13), D 13 13 100)]
    [(1, 13); (9, 13); (13, 13)]
    [((1, 13), U 1 13 [UE 4 500 100 100 1 0; UE 4 800 50 50 3 0]); ((9, 13), U 9 13 [UE 4 500 150 150 2 0])]
    [(1, 13); (9, 13)]
    [(500, [(1, 13); (9, 13)]); (800, [(1, 13)])]
    [] [] [] []
    [(1, UKubd 1 13); (2, UKubd 9 13); (3, UKubd 1 13)]
    [] [] [] [] [] 1
    [] [] [] [].

(* the same state with 2000 of source 2's 5000 still locked by a vesting schedule *)
Definition ex_vesting : state :=
  {| cfg := cfg ex_init; now := now ex_init; height := height ex_init; accts := accts ex_init; vals := vals ex_init;
     bal := bal ex_init; start := start ex_init; stake := stake ex_init; gov := gov ex_init; mig := mig ex_init;
     locked := [((2, 0), 2000)] |}.

Definition no_recover : Z -> Z -> unit -> option Z := fun _ _ _ => None.

(* proposal 1: source 1 proposes, stays in the deposit period; proposal 2 (by 9) is in its voting period,
   source 2 deposits on it, source 3 votes on it *)
Definition ex_gov_ops : list (op unit) := [OSubmit unit 1 1000 false 1000 10000; OSubmit unit 9 10000 false 1000 10000; ODeposit unit 2 2 500; OVote unit 3 2].
Definition ex_gov : state := run unit no_recover ex_init ex_gov_ops.

Lemma accept_by_server : forall sigT (recover : Z -> Z -> sigT -> option Z) s from to x s',
  (from =? to) = false -> recover from to x = Some to -> migrate_account s from to = Ok s' ->
  migrate_tx sigT recover s from to (Some x) = Ok s'.
Proof.
  intros sigT recover s from to x s' N R H. unfold migrate_tx, validate_basic. rewrite N, R, Z.eqb_refl. exact H.
Qed.

Definition sig_any : Z -> Z -> unit -> option Z := fun _ to _ => Some to.

(* the governance clause on a concrete history: all three participants are refused *)
Theorem gov_block_example :
  wf ex_gov /\ govwfb ex_gov = true /\ now ex_gov = 10 /\
  (involved_open ex_gov 1 /\ involved_open ex_gov 2 /\ involved_open ex_gov 3) /\
  migrate_tx unit sig_any ex_gov 1 5 (Some tt) = Err EGov /\
  migrate_tx unit sig_any ex_gov 2 6 (Some tt) = Err EGov /\
  migrate_tx unit sig_any ex_gov 3 7 (Some tt) = Err EGov /\
  migrate_tx unit sig_any ex_gov 6 7 (Some tt) = Err EAccount.
Proof.
  split; [vm_compute; reflexivity|]. split; [vm_compute; reflexivity|]. split; [vm_compute; reflexivity|]. split.
  - repeat split.
    + exists 1. eexists. split; [vm_compute; reflexivity|]. split; vm_compute; reflexivity.
    + exists 2. eexists. split; [vm_compute; reflexivity|]. split; vm_compute; reflexivity.
    + exists 2. eexists. split; [vm_compute; reflexivity|]. split; vm_compute; reflexivity.
  - repeat split; vm_compute; reflexivity.
Qed.

(* an expedited proposal (voting period 100, opening deposit 500) proposed by source 1 fails at its first end time: the end
   blocker converts it into a regular proposal (new end = voting start + default period), it stays queued and open, and
   its proposer is still refused; after the regular end it is closed and the migration goes through *)
Theorem gov_expedited_example :
  let s1 := run unit sig_any ex_init [OSubmit unit 1 600 true 100 500; OEndBlock unit 200 205 [] [1] no_vside] in
  let s2 := run unit sig_any ex_init [OSubmit unit 1 600 true 100 500; OEndBlock unit 200 205 [] [1] no_vside; OEndBlock unit 1100 1105 [] [] no_vside] in
  govwfb s1 = true /\ involved_open s1 1 /\ activeq (gov s1) = [(1010, 1)] /\
  migrate_tx unit sig_any s1 1 5 (Some tt) = Err EGov /\
  (exists s', migrate_tx unit sig_any s2 1 5 (Some tt) = Ok s').
Proof.
  cbv zeta. split; [vm_compute; reflexivity|]. split.
  - exists 1. eexists. split; [vm_compute; reflexivity|]. split; vm_compute; reflexivity.
  - split; [vm_compute; reflexivity|]. split; [vm_compute; reflexivity|]. eexists. vm_compute. reflexivity.
Qed.

(* ---- BEFORE commit f80617f (finding C14-1, fixed): the scan stopped at the block time.  This is a
   statement about the OLD validation function, kept as a regression witness; it is not the model. ---- *)
Fixpoint walk_until (t : time) (cb : Z -> outcome unit) (q : list (time * Z)) : outcome unit :=
  match q with
  | [] => Ok tt
  | (te, pid) :: r => if te <=? t then bind (cb pid) (fun _ => walk_until t cb r) else walk_until t cb r
  end.
Definition prefix_gov_validate (from to : addr) (s : state) : outcome unit :=
  bind (walk_until (now s) (dep_cb (gov s) from to) (inactiveq (gov s))) (fun _ =>
  walk_until (now s) (vote_cb (gov s) from to) (activeq (gov s))).

Lemma walk_until_future : forall t cb q, (forall te pid, In (te, pid) q -> t < te) -> walk_until t cb q = Ok tt.
Proof.
  intros t cb q. induction q as [|[te pid] r IH]; intros H; [reflexivity|]. cbn.
  replace (te <=? t) with false by (symmetry; apply Z.leb_gt; apply (H te pid); left; reflexivity).
  apply IH. intros te' pid' I. apply (H te' pid'). right. exact I.
Qed.

Theorem prefix_scan_was_blind : forall s from to,
  (forall te pid, In (te, pid) (inactiveq (gov s)) -> now s < te) ->
  (forall te pid, In (te, pid) (activeq (gov s)) -> now s < te) ->
  prefix_gov_validate from to s = Ok tt.
Proof.
  intros s from to H1 H2. unfold prefix_gov_validate. rewrite walk_until_future by exact H1. cbn.
  apply walk_until_future. exact H2.
Qed.

Theorem prefix_scan_example :
  prefix_gov_validate 1 5 ex_gov = Ok tt /\ gov_validate 1 5 ex_gov = Err EGov.
Proof. split; vm_compute; reflexivity. Qed.

(* indexes, concretely: all five exact before and after *)
Definition ex_after : state := run unit sig_any ex_init [OMigrate unit 1 5 (Some tt)].

Theorem index_example :
  wf ex_init /\ qcoverb ex_init = true /\
  idx71_ok ex_init /\ idx33_ok ex_init /\ idx38b ex_init = true /\
  migrate_tx unit sig_any ex_init 1 5 (Some tt) = Ok ex_after /\
  idx71_ok ex_after /\ idx33_ok ex_after /\ idx38b ex_after = true /\
  in71 ex_after 1 13 = false /\ in71 ex_after 5 13 = true /\
  sget Z.eqb 1 (unbidx (stake ex_after)) = Some (UKubd 5 13) /\ sget Z.eqb 2 (unbidx (stake ex_after)) = Some (UKubd 9 13).
Proof.
  split; [vm_compute; reflexivity|]. split; [vm_compute; reflexivity|].
  split; [apply (matchb_ok k2_eqb k2_eqb_ok); vm_compute; reflexivity|].
  split; [apply (matchb_ok k2_eqb k2_eqb_ok); vm_compute; reflexivity|].
  split; [vm_compute; reflexivity|]. split; [vm_compute; reflexivity|].
  split; [apply (matchb_ok k2_eqb k2_eqb_ok); vm_compute; reflexivity|].
  split; [apply (matchb_ok k2_eqb k2_eqb_ok); vm_compute; reflexivity|].
  repeat split; vm_compute; reflexivity.
Qed.

Theorem locked_example :
  wf ex_vesting /\ bal_of ex_vesting 2 0 = 5000 /\ locked_of ex_vesting 2 0 = 2000 /\
  migrate_tx unit sig_any ex_vesting 2 6 (Some tt) = Err EFunds /\
  (exists s', migrate_tx unit sig_any ex_vesting 1 5 (Some tt) = Ok s') /\
  (exists s', migrate_tx unit sig_any ex_init 2 6 (Some tt) = Ok s' /\ bal_of s' 2 0 = 0 /\ bal_of s' 6 0 = 5000).
Proof.
  split; [vm_compute; reflexivity|]. split; [vm_compute; reflexivity|]. split; [vm_compute; reflexivity|].
  split; [vm_compute; reflexivity|]. split; eexists; [|split; [|split]]; vm_compute; reflexivity.
Qed.

(* ---- BEFORE commit 11e9a2c (finding C14-3, fixed): AppModule.InitGenesis dropped the exported records.  A statement
   about the OLD import step, kept as a regression witness; it is not the model. ---- *)
Definition prefix_export_import (s : state) : state := set_mig s {| recs := []; dir_from := []; dir_to := [] |}.

Theorem prefix_once_lost_on_import :
  let s0 := run unit sig_any ex_init [OMigrate unit 3 7 (Some tt)] in
  let s := prefix_export_import s0 in
  wf s /\ has_record s0 7 = true /\ has_record s0 3 = true /\ has_record s 7 = false /\ has_record s 3 = false /\
  (exists s', migrate_tx unit sig_any s 2 7 (Some tt) = Ok s' /\ bal_of s' 7 0 = 10000) /\
  (exists s', migrate_tx unit sig_any s 3 6 (Some tt) = Ok s').
Proof.
  cbv zeta. repeat (split; [vm_compute; reflexivity|]). split; eexists; [split|]; vm_compute; reflexivity.
Qed.

(* today: the restart keeps the records and the used addresses stay refused *)
Theorem once_across_import_example :
  let s := run unit sig_any ex_init [OMigrate unit 3 7 (Some tt); OExportImport unit 9] in
  has_record s 7 = true /\ has_record s 3 = true /\
  migrate_tx unit sig_any s 2 7 (Some tt) = Err EMigrated /\ migrate_tx unit sig_any s 3 6 (Some tt) = Err EMigrated.
Proof. cbv zeta. repeat split; vm_compute; reflexivity. Qed.

(* the portfolio theorem is about something: the example's source holds two denominations, a delegation with
   starting info and an unbonding record with two entries, one in a slice shared with delegator 9 *)
Theorem moved_nonvacuous :
  wf ex_init /\ qcoverb ex_init = true /\ migrate_tx unit sig_any ex_init 1 5 (Some tt) = Ok ex_after /\
  bal_of ex_after 5 0 = 5003 /\ bal_of ex_after 5 1 = 77 /\ bal_of ex_after 1 0 = 0 /\
  del_of ex_after 5 13 = Some (D 5 13 700) /\ start_of ex_after 5 13 = Some (SI 2 700 4) /\
  ubd_of ex_after 5 13 = Some (U 5 13 [UE 4 500 100 100 1 0; UE 4 800 50 50 3 0]) /\
  ubd_slice ex_after 500 = [(5, 13); (9, 13)] /\ ubd_slice ex_after 800 = [(5, 13)] /\
  bal_of (staking_endblock 600 ex_after) 5 0 = 5103 /\ bal_of (staking_endblock 600 ex_after) 9 0 = 50150 /\
  bal_of (staking_endblock 600 ex_after) 1 0 = 0.
Proof. repeat split; vm_compute; reflexivity. Qed.
