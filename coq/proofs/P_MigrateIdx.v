(* P_MigrateIdx.v — consequences of `moved`: which staking indexes stay consistent and which go
   stale; well-formedness and queue coverage are preserved by an accepted migration. *)
From Coq Require Import ZArith List Bool Lia Permutation.
From FxV Require Import model.M_Migrate model.M_MigrateSpec proofs.P_MigrateBase proofs.P_MigrateAuth
  proofs.P_MigrateMove proofs.P_MigrateExec proofs.P_MigrateChar proofs.P_MigrateMoved.
Import ListNotations.
Open Scope Z_scope.

Lemma sel_to {A} from to (x y z : A) : sel from to to x y z = x.
Proof. unfold sel. rewrite Z.eqb_refl. reflexivity. Qed.
Lemma sel_from {A} from to (x y z : A) : from <> to -> sel from to from x y z = y.
Proof. intros N. unfold sel. replace (from =? to) with false by (symmetry; apply Z.eqb_neq; exact N). rewrite Z.eqb_refl. reflexivity. Qed.
Lemma sel_other {A} from to a (x y z : A) : a <> from -> a <> to -> sel from to a x y z = z.
Proof.
  intros N1 N2. unfold sel. replace (a =? to) with false by (symmetry; apply Z.eqb_neq; exact N2).
  replace (a =? from) with false by (symmetry; apply Z.eqb_neq; exact N1). reflexivity.
Qed.

Lemma shas_option_map {K V} (eqb : K -> K -> bool) (k : K) (m : list (K * V)) (f : V -> V) :
  match option_map f (sget eqb k m) with Some _ => true | None => false end = shas eqb k m.
Proof. unfold shas. destruct (sget eqb k m); reflexivity. Qed.

Section Idx.
  Variables (from to : Z) (s s' : state).
  Hypothesis Hft : from <> to.
  Hypothesis M : moved from to s s'.
  Hypothesis Clean : ~ has_staking s to.

  Lemma to_no_del : forall v, del_of s to v = None.
  Proof. intros v. destruct (del_of s to v) eqn:E; [|reflexivity]. exfalso. apply Clean. left. exists v. congruence. Qed.
  Lemma to_no_ubd : forall v, ubd_of s to v = None.
  Proof. intros v. destruct (ubd_of s to v) eqn:E; [|reflexivity]. exfalso. apply Clean. right. left. exists v. congruence. Qed.
  Lemma to_no_red : forall v w, red_of s to v w = None.
  Proof. intros v w. destruct (red_of s to v w) eqn:E; [|reflexivity]. exfalso. apply Clean. right. right. exists v, w. congruence. Qed.

  (* the three indexes the code rewrites stay exact *)
  Lemma idx33_kept : idx33_ok s -> idx33_ok s'.
  Proof.
    intros H [a v]. specialize (H (a, v)) as Ha. pose proof (H (to, v)) as Ht. pose proof (H (from, v)) as Hf.
    change (shas k2_eqb (a, v) (idx33 (stake s'))) with (in33 s' a v). rewrite (mv_i33 _ _ _ _ M).
    unfold shas at 1. change (sget k2_eqb (a, v) (ubds (stake s'))) with (ubd_of s' a v). rewrite (mv_ubd _ _ _ _ M).
    unfold in33, has_ubd in *. unfold sel. destruct (a =? to).
    - rewrite Ht. unfold shas at 2. change (sget k2_eqb (to, v) (ubds (stake s))) with (ubd_of s to v). rewrite to_no_ubd.
      rewrite orb_false_r. unfold ubd_of. symmetry. apply shas_option_map.
    - destruct (a =? from).
      + rewrite Hf. destruct (shas k2_eqb (from, v) (ubds (stake s))); reflexivity.
      + exact Ha.
  Qed.

  Lemma idx35_kept : idx35_ok s -> idx35_ok s'.
  Proof.
    intros H [a [v w]]. specialize (H (a, (v, w))) as Ha. pose proof (H (to, (v, w))) as Ht. pose proof (H (from, (v, w))) as Hf.
    change (shas k3_eqb (a, (v, w)) (idx35 (stake s'))) with (in35 s' a v w). rewrite (mv_i35 _ _ _ _ M).
    unfold shas at 1. change (sget k3_eqb (a, (v, w)) (reds (stake s'))) with (red_of s' a v w). rewrite (mv_red _ _ _ _ M).
    unfold in35, has_red in *. unfold sel. destruct (a =? to).
    - rewrite Ht. unfold shas at 2. change (sget k3_eqb (to, (v, w)) (reds (stake s))) with (red_of s to v w). rewrite to_no_red.
      rewrite orb_false_r. unfold red_of. symmetry. apply shas_option_map.
    - destruct (a =? from).
      + rewrite Hf. destruct (shas k3_eqb (from, (v, w)) (reds (stake s))); reflexivity.
      + exact Ha.
  Qed.

  Lemma idx36_kept : idx36_ok s -> idx36_ok s'.
  Proof.
    intros H [a [v w]]. specialize (H (a, (v, w))) as Ha. pose proof (H (to, (v, w))) as Ht. pose proof (H (from, (v, w))) as Hf.
    change (shas k3_eqb (a, (v, w)) (idx36 (stake s'))) with (in36 s' a v w). rewrite (mv_i36 _ _ _ _ M).
    unfold shas at 1. change (sget k3_eqb (a, (v, w)) (reds (stake s'))) with (red_of s' a v w). rewrite (mv_red _ _ _ _ M).
    unfold in36, has_red in *. unfold sel. destruct (a =? to).
    - rewrite Ht. unfold shas at 2. change (sget k3_eqb (to, (v, w)) (reds (stake s))) with (red_of s to v w). rewrite to_no_red.
      rewrite orb_false_r. unfold red_of. symmetry. apply shas_option_map.
    - destruct (a =? from).
      + rewrite Hf. destruct (shas k3_eqb (from, (v, w)) (reds (stake s))); reflexivity.
      + exact Ha.
  Qed.

  (* DelegationByValIndex (0x71) is not rewritten: exact description of the result *)
  Lemma idx71_stale : idx71_ok s -> forall v, del_of s from v <> None ->
    in71 s' from v = true /\ del_of s' from v = None /\ in71 s' to v = false /\ del_of s' to v <> None.
  Proof.
    intros H v D. unfold in71. rewrite (mv_i71 _ _ _ _ M). rewrite !(mv_del _ _ _ _ M), sel_to, sel_from by exact Hft.
    pose proof (H (from, v)) as Hf. pose proof (H (to, v)) as Ht. rewrite Hf, Ht. unfold shas.
    change (sget k2_eqb (from, v) (dels (stake s))) with (del_of s from v).
    change (sget k2_eqb (to, v) (dels (stake s))) with (del_of s to v). rewrite to_no_del.
    destruct (del_of s from v); [|congruence]. cbn. repeat split; congruence.
  Qed.

  Lemma idx71_exact : idx71_ok s -> (idx71_ok s' <-> forall v, del_of s from v = None).
  Proof.
    intros H. split.
    - intros H' v. destruct (del_of s from v) eqn:E; [|reflexivity]. exfalso.
      destruct (idx71_stale H v) as (A & B & _); [congruence|]. specialize (H' (from, v)).
      unfold in71 in A. rewrite A in H'. unfold shas in H'. change (sget k2_eqb (from, v) (dels (stake s'))) with (del_of s' from v) in H'.
      rewrite B in H'. discriminate.
    - intros N [a v]. rewrite (mv_i71 _ _ _ _ M), (H (a, v)). unfold shas.
      change (sget k2_eqb (a, v) (dels (stake s'))) with (del_of s' a v).
      change (sget k2_eqb (a, v) (dels (stake s))) with (del_of s a v).
      rewrite (mv_del _ _ _ _ M). unfold sel. destruct (Z.eqb_spec a to) as [->|N1].
      + rewrite N, to_no_del. reflexivity.
      + destruct (Z.eqb_spec a from) as [->|N2]; [rewrite N|]; reflexivity.
  Qed.

  (* UnbondingIndex (0x38) is not rewritten either: it keeps pointing at the source's deleted key *)
  Lemma idx38_stale : forall id v, sget Z.eqb id (unbidx (stake s)) = Some (UKubd from v) ->
    sget Z.eqb id (unbidx (stake s')) = Some (UKubd from v) /\ ubd_of s' from v = None.
  Proof.
    intros id v H. rewrite (mv_unb _ _ _ _ M). split; [exact H|].
    rewrite (mv_ubd _ _ _ _ M). apply sel_from. exact Hft.
  Qed.

  Lemma idx38_stale_red : forall id v w, sget Z.eqb id (unbidx (stake s)) = Some (UKred from v w) ->
    sget Z.eqb id (unbidx (stake s')) = Some (UKred from v w) /\ red_of s' from v w = None.
  Proof.
    intros id v w H. rewrite (mv_unb _ _ _ _ M). split; [exact H|].
    rewrite (mv_red _ _ _ _ M). apply sel_from. exact Hft.
  Qed.

  (* other delegators' queue entries: untouched, in place *)
  Lemma ren_pair_other : forall p : k2, fst p <> from -> ren_pair from to p = p.
  Proof. intros [a v] N. unfold ren_pair, ren_addr. cbn in *. replace (a =? from) with false by (symmetry; apply Z.eqb_neq; exact N). reflexivity. Qed.
  Lemma ren_trip_other : forall p : k3, fst p <> from -> ren_trip from to p = p.
  Proof. intros [a v] N. unfold ren_trip, ren_addr. cbn in *. replace (a =? from) with false by (symmetry; apply Z.eqb_neq; exact N). reflexivity. Qed.

  Lemma queue_shape : forall t,
    length (ubd_slice s' t) = length (ubd_slice s t) /\
    forall i p, nth_error (ubd_slice s t) i = Some p ->
      nth_error (ubd_slice s' t) i = Some p \/ (fst p = from /\ nth_error (ubd_slice s' t) i = Some (to, snd p)).
  Proof.
    intros t. rewrite (mv_ubdq _ _ _ _ M). destruct (existsb (Z.eqb t) (ubd_times s from)).
    - split; [apply map_length|]. intros i p H. rewrite nth_error_map, H. cbn.
      destruct (Z.eq_dec (fst p) from) as [E|N].
      + right. split; [exact E|]. unfold ren_pair, ren_addr. rewrite E, Z.eqb_refl. reflexivity.
      + left. rewrite ren_pair_other by exact N. reflexivity.
    - split; [reflexivity|]. intros i p H. left. exact H.
  Qed.

  Lemma queue_others_untouched : forall t i p, fst p <> from ->
    nth_error (ubd_slice s t) i = Some p -> nth_error (ubd_slice s' t) i = Some p.
  Proof. intros t i p N H. destruct (proj2 (queue_shape t) i p H) as [X|[X _]]; [exact X | contradiction]. Qed.

  Lemma red_queue_others_untouched : forall t i p, fst p <> from ->
    nth_error (red_slice s t) i = Some p -> nth_error (red_slice s' t) i = Some p.
  Proof.
    intros t i p N H. rewrite (mv_redq _ _ _ _ M). destruct (existsb (Z.eqb t) (red_times s from)); [|exact H].
    rewrite nth_error_map, H. cbn. rewrite ren_trip_other by exact N. reflexivity.
  Qed.
End Idx.
