(* P_MigrateIdx.v — consequences of `moved`: which staking indexes stay consistent and which go
   stale; well-formedness and queue coverage are preserved by an accepted migration. *)
From Coq Require Import ZArith List Bool Lia Permutation.
From FxV Require Import model.M_Migrate model.M_MigrateSpec proofs.P_MigrateBase proofs.P_MigrateAuth
  proofs.P_MigrateMove proofs.P_MigrateExec proofs.P_MigrateChar proofs.P_MigrateMoved.
Import ListNotations.
Open Scope Z_scope.

Lemma sel_to {A} from to (x y z : A) : sel from to to x y z = x.
Proof. unfold sel. rewrite Z.eqb_refl. reflexivity. Qed.
Lemma sel_from {A} from to (x y z : A) : from <> to -> sel from to from x y z = y.
Proof. intros N. unfold sel. replace (from =? to) with false by (symmetry; apply Z.eqb_neq; exact N). rewrite Z.eqb_refl. reflexivity. Qed.
Lemma sel_other {A} from to a (x y z : A) : a <> from -> a <> to -> sel from to a x y z = z.
Proof.
  intros N1 N2. unfold sel. replace (a =? to) with false by (symmetry; apply Z.eqb_neq; exact N2).
  replace (a =? from) with false by (symmetry; apply Z.eqb_neq; exact N1). reflexivity.
Qed.

Lemma shas_option_map {K V} (eqb : K -> K -> bool) (k : K) (m : list (K * V)) (f : V -> V) :
  match option_map f (sget eqb k m) with Some _ => true | None => false end = shas eqb k m.
Proof. unfold shas. destruct (sget eqb k m); reflexivity. Qed.

Section Idx.
  Variables (from to : Z) (s s' : state).
  Hypothesis Hft : from <> to.
  Hypothesis M : moved from to s s'.
  Hypothesis Clean : ~ has_staking s to.

  Lemma to_no_del : forall v, del_of s to v = None.
  Proof. intros v. destruct (del_of s to v) eqn:E; [|reflexivity]. exfalso. apply Clean. left. exists v. congruence. Qed.
  Lemma to_no_ubd : forall v, ubd_of s to v = None.
  Proof. intros v. destruct (ubd_of s to v) eqn:E; [|reflexivity]. exfalso. apply Clean. right. left. exists v. congruence. Qed.
  Lemma to_no_red : forall v w, red_of s to v w = None.
  Proof. intros v w. destruct (red_of s to v w) eqn:E; [|reflexivity]. exfalso. apply Clean. right. right. exists v, w. congruence. Qed.

  (* the three indexes the code rewrites stay exact *)
  Lemma idx33_kept : idx33_ok s -> idx33_ok s'.
  Proof.
    intros H [a v]. specialize (H (a, v)) as Ha. pose proof (H (to, v)) as Ht. pose proof (H (from, v)) as Hf.
    change (shas k2_eqb (a, v) (idx33 (stake s'))) with (in33 s' a v). rewrite (mv_i33 _ _ _ _ M).
    unfold shas at 1. change (sget k2_eqb (a, v) (ubds (stake s'))) with (ubd_of s' a v). rewrite (mv_ubd _ _ _ _ M).
    unfold in33, has_ubd in *. unfold sel. destruct (a =? to).
    - rewrite Ht. unfold shas at 2. change (sget k2_eqb (to, v) (ubds (stake s))) with (ubd_of s to v). rewrite to_no_ubd.
      rewrite orb_false_r. unfold ubd_of. symmetry. apply shas_option_map.
    - destruct (a =? from).
      + rewrite Hf. destruct (shas k2_eqb (from, v) (ubds (stake s))); reflexivity.
      + exact Ha.
  Qed.

  Lemma idx35_kept : idx35_ok s -> idx35_ok s'.
  Proof.
    intros H [a [v w]]. specialize (H (a, (v, w))) as Ha. pose proof (H (to, (v, w))) as Ht. pose proof (H (from, (v, w))) as Hf.
    change (shas k3_eqb (a, (v, w)) (idx35 (stake s'))) with (in35 s' a v w). rewrite (mv_i35 _ _ _ _ M).
    unfold shas at 1. change (sget k3_eqb (a, (v, w)) (reds (stake s'))) with (red_of s' a v w). rewrite (mv_red _ _ _ _ M).
    unfold in35, has_red in *. unfold sel. destruct (a =? to).
    - rewrite Ht. unfold shas at 2. change (sget k3_eqb (to, (v, w)) (reds (stake s))) with (red_of s to v w). rewrite to_no_red.
      rewrite orb_false_r. unfold red_of. symmetry. apply shas_option_map.
    - destruct (a =? from).
      + rewrite Hf. destruct (shas k3_eqb (from, (v, w)) (reds (stake s))); reflexivity.
      + exact Ha.
  Qed.

  Lemma idx36_kept : idx36_ok s -> idx36_ok s'.
  Proof.
    intros H [a [v w]]. specialize (H (a, (v, w))) as Ha. pose proof (H (to, (v, w))) as Ht. pose proof (H (from, (v, w))) as Hf.
    change (shas k3_eqb (a, (v, w)) (idx36 (stake s'))) with (in36 s' a v w). rewrite (mv_i36 _ _ _ _ M).
    unfold shas at 1. change (sget k3_eqb (a, (v, w)) (reds (stake s'))) with (red_of s' a v w). rewrite (mv_red _ _ _ _ M).
    unfold in36, has_red in *. unfold sel. destruct (a =? to).
    - rewrite Ht. unfold shas at 2. change (sget k3_eqb (to, (v, w)) (reds (stake s))) with (red_of s to v w). rewrite to_no_red.
      rewrite orb_false_r. unfold red_of. symmetry. apply shas_option_map.
    - destruct (a =? from).
      + rewrite Hf. destruct (shas k3_eqb (from, (v, w)) (reds (stake s))); reflexivity.
      + exact Ha.
  Qed.

  (* DelegationByValIndex (0x71), rewritten since 048dbe3 *)
  Lemma idx71_kept : idx71_ok s -> idx71_ok s'.
  Proof.
    intros H [a v]. specialize (H (a, v)) as Ha. pose proof (H (to, v)) as Ht. pose proof (H (from, v)) as Hf.
    change (shas k2_eqb (a, v) (idx71 (stake s'))) with (in71 s' a v). rewrite (mv_i71 _ _ _ _ M).
    unfold shas at 1. change (sget k2_eqb (a, v) (dels (stake s'))) with (del_of s' a v). rewrite (mv_del _ _ _ _ M).
    unfold in71, has_del in *. unfold sel. destruct (a =? to).
    - rewrite Ht. unfold shas at 2. change (sget k2_eqb (to, v) (dels (stake s))) with (del_of s to v). rewrite to_no_del.
      rewrite orb_false_r. unfold del_of. symmetry. apply shas_option_map.
    - destruct (a =? from).
      + rewrite Hf. destruct (shas k2_eqb (from, v) (dels (stake s))); reflexivity.
      + exact Ha.
  Qed.

  (* UnbondingIndex (0x38), rewritten since 048dbe3 *)
  Hypothesis W : wfP s.

  Lemma writes_inv : forall id k, In (id, k) (unb_writes from to s) ->
    (exists kv e, In kv (ubds (stake s)) /\ fst (fst kv) = from /\ In e (u_entries (snd kv)) /\
                  id = ue_id e /\ k = UKubd to (u_val (snd kv))) \/
    (exists kv e, In kv (reds (stake s)) /\ fst (fst kv) = from /\ In e (r_entries (snd kv)) /\
                  id = re_id e /\ k = UKred to (r_src (snd kv)) (r_dst (snd kv))).
  Proof.
    intros id k I. unfold unb_writes in I. apply in_app_or in I. destruct I as [I|I]; [left | right];
      apply in_concat in I; destruct I as [l [L I]]; apply in_map_iff in L; destruct L as [kv [E L]]; subst l;
      apply in_map_iff in I; destruct I as [e [E I]]; inversion E; subst; apply filter_In in L; destruct L as [L F];
      exists kv, e; repeat split; auto; unfold from_rec2, from_rec3 in F; apply Z.eqb_eq in F; exact F.
  Qed.

  Lemma in_writes_ubd : forall kv e, In kv (ubds (stake s)) -> fst (fst kv) = from -> In e (u_entries (snd kv)) ->
    In (ue_id e) (map fst (unb_writes from to s)).
  Proof.
    intros kv e I F E. unfold unb_writes. rewrite map_app. apply in_or_app. left.
    apply in_map_iff. exists (ue_id e, UKubd to (u_val (snd kv))). split; [reflexivity|].
    apply in_concat. eexists. split; [apply in_map_iff; exists kv; split; [reflexivity|]|].
    - apply filter_In. split; [exact I|]. unfold from_rec2. rewrite F. apply Z.eqb_refl.
    - apply in_map_iff. exists e. auto.
  Qed.

  Lemma in_writes_red : forall kv e, In kv (reds (stake s)) -> fst (fst kv) = from -> In e (r_entries (snd kv)) ->
    In (re_id e) (map fst (unb_writes from to s)).
  Proof.
    intros kv e I F E. unfold unb_writes. rewrite map_app. apply in_or_app. right.
    apply in_map_iff. exists (re_id e, UKred to (r_src (snd kv)) (r_dst (snd kv))). split; [reflexivity|].
    apply in_concat. eexists. split; [apply in_map_iff; exists kv; split; [reflexivity|]|].
    - apply filter_In. split; [exact I|]. unfold from_rec3. rewrite F. apply Z.eqb_refl.
    - apply in_map_iff. exists e. auto.
  Qed.

  Lemma existsb_id_in {E} (idf : E -> Z) : forall (l : list E) id,
    existsb (fun e => idf e =? id) l = true <-> exists e, In e l /\ idf e = id.
  Proof.
    intros l id. rewrite existsb_exists. split; intros [e [I X]]; exists e; split; auto; apply Z.eqb_eq; exact X.
  Qed.

  Lemma idx38_kept : idx38_ok s -> idx38_ok s'.
  Proof.
    intros [Hu Hr]. split.
    - intros id d v H. apply (mv_unb _ _ _ _ M) in H. destruct H as [H|[N H]].
      + apply writes_inv in H. destruct H as [(kv & e & I & F & E & -> & K)|(kv & e & _ & _ & _ & _ & K)]; [|discriminate].
        inversion K. subst d v. pose proof (wf_ubdk s W kv I) as Kk.
        destruct kv as [[a r] u]. cbn [fst snd] in *.
        assert (Kr : r = u_val u) by (inversion Kk; reflexivity). subst r a.
        assert (G : ubd_of s from (u_val u) = Some u).
        { unfold ubd_of. apply (in_sget_nodup k2_eqb k2_eqb_ok); [apply (wf_ubds s W) | exact I]. }
        exists (to_ubd to u). split.
        * rewrite (mv_ubd _ _ _ _ M), sel_to, G. reflexivity.
        * cbn. apply (existsb_id_in ue_id). exists e. auto.
      + destruct (Hu id d v H) as [u [G X]]. exists u. split; [|exact X].
        rewrite (mv_ubd _ _ _ _ M). destruct (Z.eq_dec d to) as [->|Nt]; [rewrite to_no_ubd in G; discriminate|].
        destruct (Z.eq_dec d from) as [->|Nf]; [|rewrite sel_other by assumption; exact G].
        exfalso. apply N. apply (existsb_id_in ue_id) in X. destruct X as [e [Ie <-]].
        apply (in_writes_ubd ((from, v), u) e); [apply (sget_in k2_eqb k2_eqb_ok); exact G | reflexivity | exact Ie].
    - intros id d v w H. apply (mv_unb _ _ _ _ M) in H. destruct H as [H|[N H]].
      + apply writes_inv in H. destruct H as [(kv & e & _ & _ & _ & _ & K)|(kv & e & I & F & E & -> & K)]; [discriminate|].
        inversion K. subst d v w. pose proof (wf_redk s W kv I) as Kk.
        destruct kv as [[a r] u]. cbn [fst snd] in *.
        assert (Kr : r = (r_src u, r_dst u)) by (inversion Kk; reflexivity). subst r a.
        assert (G : red_of s from (r_src u) (r_dst u) = Some u).
        { unfold red_of. apply (in_sget_nodup k3_eqb k3_eqb_ok); [apply (wf_reds s W) | exact I]. }
        exists (to_red to u). split.
        * rewrite (mv_red _ _ _ _ M), sel_to, G. reflexivity.
        * cbn. apply (existsb_id_in re_id). exists e. auto.
      + destruct (Hr id d v w H) as [u [G X]]. exists u. split; [|exact X].
        rewrite (mv_red _ _ _ _ M). destruct (Z.eq_dec d to) as [->|Nt]; [rewrite to_no_red in G; discriminate|].
        destruct (Z.eq_dec d from) as [->|Nf]; [|rewrite sel_other by assumption; exact G].
        exfalso. apply N. apply (existsb_id_in re_id) in X. destruct X as [e [Ie <-]].
        apply (in_writes_red ((from, (v, w)), u) e); [apply (sget_in k3_eqb k3_eqb_ok); exact G | reflexivity | exact Ie].
  Qed.

  (* every moved entry can be found by its id, and the index names the target *)
  Lemma moved_entries_indexed :
    (forall kv e, In kv (ubds (stake s)) -> fst (fst kv) = from -> In e (u_entries (snd kv)) ->
       exists k, sget Z.eqb (ue_id e) (unbidx (stake s')) = Some k /\ In (ue_id e, k) (unb_writes from to s)) /\
    (forall kv e, In kv (reds (stake s)) -> fst (fst kv) = from -> In e (r_entries (snd kv)) ->
       exists k, sget Z.eqb (re_id e) (unbidx (stake s')) = Some k /\ In (re_id e, k) (unb_writes from to s)).
  Proof.
    split; intros kv e I F E.
    - pose proof (in_writes_ubd kv e I F E) as Iw. pose proof (mv_unb_has _ _ _ _ M _ Iw) as Hn.
      destruct (sget Z.eqb (ue_id e) (unbidx (stake s'))) as [k|] eqn:G; [|congruence]. exists k. split; [reflexivity|].
      destruct (mv_unb _ _ _ _ M _ _ G) as [X|[X _]]; [exact X | contradiction].
    - pose proof (in_writes_red kv e I F E) as Iw. pose proof (mv_unb_has _ _ _ _ M _ Iw) as Hn.
      destruct (sget Z.eqb (re_id e) (unbidx (stake s'))) as [k|] eqn:G; [|congruence]. exists k. split; [reflexivity|].
      destruct (mv_unb _ _ _ _ M _ _ G) as [X|[X _]]; [exact X | contradiction].
  Qed.

  (* other delegators' queue entries: untouched, in place *)
  Lemma ren_pair_other : forall p : k2, fst p <> from -> ren_pair from to p = p.
  Proof. intros [a v] N. unfold ren_pair, ren_addr. cbn in *. replace (a =? from) with false by (symmetry; apply Z.eqb_neq; exact N). reflexivity. Qed.
  Lemma ren_trip_other : forall p : k3, fst p <> from -> ren_trip from to p = p.
  Proof. intros [a v] N. unfold ren_trip, ren_addr. cbn in *. replace (a =? from) with false by (symmetry; apply Z.eqb_neq; exact N). reflexivity. Qed.

  Lemma queue_shape : forall t,
    length (ubd_slice s' t) = length (ubd_slice s t) /\
    forall i p, nth_error (ubd_slice s t) i = Some p ->
      nth_error (ubd_slice s' t) i = Some p \/ (fst p = from /\ nth_error (ubd_slice s' t) i = Some (to, snd p)).
  Proof.
    intros t. rewrite (mv_ubdq _ _ _ _ M). destruct (existsb (Z.eqb t) (ubd_times s from)).
    - split; [apply map_length|]. intros i p H. rewrite nth_error_map, H. cbn.
      destruct (Z.eq_dec (fst p) from) as [E|N].
      + right. split; [exact E|]. unfold ren_pair, ren_addr. rewrite E, Z.eqb_refl. reflexivity.
      + left. rewrite ren_pair_other by exact N. reflexivity.
    - split; [reflexivity|]. intros i p H. left. exact H.
  Qed.

  Lemma queue_others_untouched : forall t i p, fst p <> from ->
    nth_error (ubd_slice s t) i = Some p -> nth_error (ubd_slice s' t) i = Some p.
  Proof. intros t i p N H. destruct (proj2 (queue_shape t) i p H) as [X|[X _]]; [exact X | contradiction]. Qed.

  Lemma red_queue_others_untouched : forall t i p, fst p <> from ->
    nth_error (red_slice s t) i = Some p -> nth_error (red_slice s' t) i = Some p.
  Proof.
    intros t i p N H. rewrite (mv_redq _ _ _ _ M). destruct (existsb (Z.eqb t) (red_times s from)); [|exact H].
    rewrite nth_error_map, H. cbn. rewrite ren_trip_other by exact N. reflexivity.
  Qed.
End Idx.
