(* P_MigrateInv.v — an accepted migration preserves well-formedness (wfP) and queue coverage (qcoverP). *)
From Coq Require Import ZArith List Bool Lia Permutation.
From FxV Require Import model.M_Migrate model.M_MigrateSpec proofs.P_MigrateBase proofs.P_MigrateAuth
  proofs.P_MigrateMove proofs.P_MigrateExec proofs.P_MigrateChar proofs.P_MigrateMoved proofs.P_MigrateIdx.
Import ListNotations.
Open Scope Z_scope.

Lemma start_fold_nodup : forall from to L acc, NoDup (map fst acc) ->
  NoDup (map fst (fold_left (start_step from to) L acc)).
Proof.
  intros from to. induction L as [|kv L IH]; intros acc ND; [exact ND|]. cbn [fold_left]. apply IH.
  unfold start_step. destruct (sget k2_eqb (from, d_val (snd kv)) acc); [|exact ND].
  apply (sset_nodup k2_eqb k2_eqb_ok), (sdel_nodup k2_eqb k2_eqb_ok). exact ND.
Qed.

Lemma q_entry_nodup {P} (isf : P -> bool) (ren : P -> P) : forall ts q, NoDup (map fst q) ->
  NoDup (map fst (fold_left (mig_q_entry isf ren) ts q)).
Proof.
  induction ts as [|t ts IH]; intros q ND; [exact ND|]. cbn [fold_left]. apply IH.
  unfold mig_q_entry. destruct (existsb isf (qget t q)); [|exact ND].
  apply (sset_nodup Z.eqb Zeqb_ok). exact ND.
Qed.

Lemma in_ren_kv {R V} (from to : Z) (f : V -> V) (m : list ((Z * R) * V)) kv :
  In kv (map (ren_kv from to f) m) ->
  exists kv0, In kv0 m /\
    ((fst (fst kv0) = from /\ kv = ((to, snd (fst kv0)), f (snd kv0))) \/ (fst (fst kv0) <> from /\ kv = kv0)).
Proof.
  intros I. apply in_map_iff in I. destruct I as [kv0 [E I]]. exists kv0. split; [exact I|].
  unfold ren_kv, isfrom in E. destruct (Z.eqb_spec (fst (fst kv0)) from) as [F|F]; [left | right]; split; auto.
Qed.

Section Inv.
  Variables from to : Z.
  Variables s s1 : state.
  Hypothesis Hft : from <> to.
  Hypothesis W : wfP s.
  Hypothesis V : staking_validate from to s = Ok tt.
  Hypothesis X : staking_execute from to (bank_move from to s) = Ok s1.

  Let s' := set_record from to s1.
  Let M : moved from to s s' := is_moved from to s s1 Hft W V X.
  Let Clean : ~ has_staking s to := staking_validate_target_clean _ _ _ V.

  Let Vd : existsb (from_rec2 to) (dels (stake s)) = false.
  Proof. pose proof (staking_validate_inv _ _ _ V) as H. tauto. Qed.
  Let Vu : existsb (from_rec2 to) (ubds (stake s)) = false.
  Proof. pose proof (staking_validate_inv _ _ _ V) as H. tauto. Qed.
  Let Vr : existsb (from_rec3 to) (reds (stake s)) = false.
  Proof. pose proof (staking_validate_inv _ _ _ V) as H. tauto. Qed.

  Lemma perm_dels : Permutation (dels (stake s')) (map (ren_kv from to (to_del to)) (dels (stake s))).
  Proof.
    unfold s'. rewrite (p_dels from to s s1 W X).
    apply (move_all_perm Z.eqb Zeqb_ok from to (to_del to) Hft); [apply (wf_dels s W) | apply no_to_keys2; exact Vd].
  Qed.
  Lemma perm_ubds : Permutation (ubds (stake s')) (map (ren_kv from to (to_ubd to)) (ubds (stake s))).
  Proof.
    unfold s'. rewrite (p_ubds from to s s1 W X).
    apply (move_all_perm Z.eqb Zeqb_ok from to (to_ubd to) Hft); [apply (wf_ubds s W) | apply no_to_keys2; exact Vu].
  Qed.
  Lemma perm_reds : Permutation (reds (stake s')) (map (ren_kv from to (to_red to)) (reds (stake s))).
  Proof.
    unfold s'. rewrite (p_reds from to s s1 W X).
    apply (move_all_perm k2_eqb k2_eqb_ok from to (to_red to) Hft); [apply (wf_reds s W) | apply no_to_keys3; exact Vr].
  Qed.

  Lemma wf_after : wfP s'.
  Proof.
    constructor.
    - unfold s'. rewrite (p_bal from to s s1 X). unfold bank_move. cbn [bal set_bal].
      apply (bank_fold_nodup from to). apply (wf_bal s W).
    - unfold s'. rewrite (p_start from to s s1 X). apply start_fold_nodup. apply (wf_start s W).
    - unfold s'. rewrite (p_dels from to s s1 W X). apply (move_all_nodup Z.eqb Zeqb_ok). apply (wf_dels s W).
    - unfold s'. rewrite (p_ubds from to s s1 W X). apply (move_all_nodup Z.eqb Zeqb_ok). apply (wf_ubds s W).
    - unfold s'. rewrite (p_reds from to s s1 W X). apply (move_all_nodup k2_eqb k2_eqb_ok). apply (wf_reds s W).
    - intros kv I. apply (Permutation_in _ perm_dels) in I. apply in_ren_kv in I.
      destruct I as [kv0 [I0 [[F E]|[F E]]]]; subst kv.
      + cbn. pose proof (wf_delk s W kv0 I0) as K. rewrite K. reflexivity.
      + apply (wf_delk s W kv0 I0).
    - intros kv I. apply (Permutation_in _ perm_ubds) in I. apply in_ren_kv in I.
      destruct I as [kv0 [I0 [[F E]|[F E]]]]; subst kv.
      + cbn. pose proof (wf_ubdk s W kv0 I0) as K. rewrite K. reflexivity.
      + apply (wf_ubdk s W kv0 I0).
    - intros kv I. apply (Permutation_in _ perm_reds) in I. apply in_ren_kv in I.
      destruct I as [kv0 [I0 [[F E]|[F E]]]]; subst kv.
      + cbn. pose proof (wf_redk s W kv0 I0) as K. rewrite K. reflexivity.
      + apply (wf_redk s W kv0 I0).
    - intros [a v] I. apply (shas_true_iff k2_eqb k2_eqb_ok) in I. apply (shas_true_iff k2_eqb k2_eqb_ok).
      unfold shas in *. change (sget k2_eqb (a, v) (start s')) with (start_of s' a v) in I.
      change (sget k2_eqb (a, v) (dels (stake s'))) with (del_of s' a v).
      rewrite (mv_start _ _ _ _ M) in I. rewrite (mv_del _ _ _ _ M). unfold sel in *.
      assert (K : forall b, start_of s b v <> None -> del_of s b v <> None).
      { intros b Hb Hd. apply Hb. apply (start_none_without_del s W). exact Hd. }
      destruct (a =? to).
      + destruct (start_of s from v) eqn:E; [|discriminate]. specialize (K from). rewrite E in K.
        destruct (del_of s from v); [reflexivity|]. exfalso. apply K; [discriminate | reflexivity].
      + destruct (a =? from); [discriminate|].
        destruct (start_of s a v) eqn:E; [|discriminate]. specialize (K a). rewrite E in K.
        destruct (del_of s a v); [reflexivity|]. exfalso. apply K; [discriminate | reflexivity].
  Qed.

  Lemma time_in_ubd_times : forall kv e, In kv (ubds (stake s)) -> fst (fst kv) = from -> In e (u_entries (snd kv)) ->
    existsb (Z.eqb (ue_time e)) (ubd_times s from) = true.
  Proof.
    intros kv e I F E. apply existsb_Zeqb_in. unfold ubd_times. apply in_concat.
    exists (map ue_time (u_entries (snd kv))). split; [|apply in_map; exact E].
    apply in_map_iff. exists kv. split; [reflexivity|]. apply filter_In. split; [exact I|].
    unfold from_rec2. rewrite F. apply Z.eqb_refl.
  Qed.

  Lemma time_in_red_times : forall kv e, In kv (reds (stake s)) -> fst (fst kv) = from -> In e (r_entries (snd kv)) ->
    existsb (Z.eqb (re_time e)) (red_times s from) = true.
  Proof.
    intros kv e I F E. apply existsb_Zeqb_in. unfold red_times. apply in_concat.
    exists (map re_time (r_entries (snd kv))). split; [|apply in_map; exact E].
    apply in_map_iff. exists kv. split; [reflexivity|]. apply filter_In. split; [exact I|].
    unfold from_rec3. rewrite F. apply Z.eqb_refl.
  Qed.

  Lemma qcover_after : qcoverP s -> qcoverP s'.
  Proof.
    intros Q. constructor.
    - intros kv e I E. apply (Permutation_in _ perm_ubds) in I. apply in_ren_kv in I.
      destruct I as [kv0 [I0 [[F K]|[F K]]]]; subst kv.
      + cbn [fst snd to_ubd u_entries] in *. rewrite (mv_ubdq _ _ _ _ M).
        rewrite (time_in_ubd_times kv0 e I0 F E).
        pose proof (qc_ubd s Q kv0 e I0 E) as C. apply (in_map (ren_pair from to)) in C.
        destruct kv0 as [[a r] u]. cbn in *. subst a. unfold ren_pair, ren_addr in C. cbn in C. rewrite Z.eqb_refl in C. exact C.
      + rewrite (mv_ubdq _ _ _ _ M). pose proof (qc_ubd s Q kv0 e I0 E) as C.
        destruct (existsb (Z.eqb (ue_time e)) (ubd_times s from)); [|exact C].
        apply (in_map (ren_pair from to)) in C. rewrite (ren_pair_other from to) in C by exact F. exact C.
    - intros kv e I E. apply (Permutation_in _ perm_reds) in I. apply in_ren_kv in I.
      destruct I as [kv0 [I0 [[F K]|[F K]]]]; subst kv.
      + cbn [fst snd to_red r_entries] in *. rewrite (mv_redq _ _ _ _ M).
        rewrite (time_in_red_times kv0 e I0 F E).
        pose proof (qc_red s Q kv0 e I0 E) as C. apply (in_map (ren_trip from to)) in C.
        destruct kv0 as [[a r] u]. cbn in *. subst a. unfold ren_trip, ren_addr in C. cbn in C. rewrite Z.eqb_refl in C. exact C.
      + rewrite (mv_redq _ _ _ _ M). pose proof (qc_red s Q kv0 e I0 E) as C.
        destruct (existsb (Z.eqb (re_time e)) (red_times s from)); [|exact C].
        apply (in_map (ren_trip from to)) in C. rewrite (ren_trip_other from to) in C by exact F. exact C.
    - intros kv I. apply (Permutation_in _ perm_ubds) in I. apply in_ren_kv in I.
      destruct I as [kv0 [I0 [[F K]|[F K]]]]; subst kv; [cbn|]; apply (qc_ubd_ne s Q kv0 I0).
    - intros kv I. apply (Permutation_in _ perm_reds) in I. apply in_ren_kv in I.
      destruct I as [kv0 [I0 [[F K]|[F K]]]]; subst kv; [cbn|]; apply (qc_red_ne s Q kv0 I0).
    - unfold s'. rewrite (s1_closed from to s s1 X). cbn [stake set_record set_mig set_stake stake_after ubdq].
      rewrite ubdq_fold_is. apply q_entry_nodup. apply (qc_ubdq s Q).
    - unfold s'. rewrite (s1_closed from to s s1 X). cbn [stake set_record set_mig set_stake stake_after redq].
      rewrite redq_fold_is. apply q_entry_nodup. apply (qc_redq s Q).
  Qed.
End Inv.

(* boolean -> propositional queue coverage *)
Lemma qcover_unpack : forall s, qcoverb s = true -> qcoverP s.
Proof.
  intros s H. unfold qcoverb in H. repeat rewrite andb_true_iff in H. destruct H as [[[H1 H2] H3] H4].
  rewrite forallb_forall in H1, H2. constructor.
  - intros kv e I E. specialize (H1 kv I). apply andb_true_iff in H1. destruct H1 as [_ H1].
    rewrite forallb_forall in H1. specialize (H1 e E). apply existsb_exists in H1. destruct H1 as [p [P K]].
    apply k2_eqb_ok in K. subst. exact P.
  - intros kv e I E. specialize (H2 kv I). apply andb_true_iff in H2. destruct H2 as [_ H2].
    rewrite forallb_forall in H2. specialize (H2 e E). apply existsb_exists in H2. destruct H2 as [p [P K]].
    apply k3_eqb_ok in K. subst. exact P.
  - intros kv I N. specialize (H1 kv I). rewrite N in H1. discriminate.
  - intros kv I N. specialize (H2 kv I). rewrite N in H2. discriminate.
  - apply (nodupb_ok Z.eqb Zeqb_ok). exact H3.
  - apply (nodupb_ok Z.eqb Zeqb_ok). exact H4.
Qed.
