(* P_MigrateMature.v — the maturation part of the staking end blocker, characterised on well-formed
   states, and: maturation commutes with migration (the target is paid exactly what the source would
   have been paid, the source nothing). *)
From Coq Require Import ZArith List Bool Lia Permutation.
From FxV Require Import model.M_Migrate model.M_MigrateSpec proofs.P_MigrateBase proofs.P_MigrateAuth
  proofs.P_MigrateMove proofs.P_MigrateExec proofs.P_MigrateChar proofs.P_MigrateMoved proofs.P_MigrateIdx
  proofs.P_MigrateInv.
Import ListNotations.
Open Scope Z_scope.

Definition immature (t : time) (u : ubd_rec) : option ubd_rec :=
  match filter (fun e => negb (ubd_mature t e)) (u_entries u) with
  | [] => None
  | rest => Some {| u_del := u_del u; u_val := u_val u; u_entries := rest |}
  end.
Definition immature_opt (t : time) (o : option ubd_rec) : option ubd_rec :=
  match o with Some u => immature t u | None => None end.

Definition w_pay (t : time) (a : Z) (kv : k2 * ubd_rec) : Z :=
  if fst (fst kv) =? a then sum_bal (filter (ubd_mature t) (u_entries (snd kv))) else 0.
(* what the end blocker at time t owes to address a *)
Definition payout (t : time) (s : state) (a : Z) : Z := sumZ (w_pay t a) (ubds (stake s)).

(* the unbonding phase of staking_endblock *)
Definition ub_phase (t : time) (s : state) : state :=
  let k := stake s in
  fold_left (complete_unbonding t) (due t (ubdq k)) (set_stake s (set_ubd k (ubds k) (idx33 k) (undue t (ubdq k)))).

Lemma filter_idem {A} (P : A -> bool) (l : list A) : filter P (filter P l) = filter P l.
Proof. rewrite filter_filter. apply filter_ext. intros x. destruct (P x); reflexivity. Qed.

Lemma filter_neg_empty {A} (P : A -> bool) (l : list A) : filter P (filter (fun x => negb (P x)) l) = [].
Proof. induction l as [|x r IH]; cbn; [reflexivity|]. destruct (P x) eqn:E; cbn; [exact IH | rewrite E; exact IH]. Qed.

Lemma immature_idem : forall t o, immature_opt t (immature_opt t o) = immature_opt t o.
Proof.
  intros t [u|]; [|reflexivity]. cbn. unfold immature.
  destruct (filter (fun e => negb (ubd_mature t e)) (u_entries u)) as [|e r] eqn:E; [reflexivity|].
  cbn [immature_opt]. unfold immature. cbn [u_entries u_del u_val]. rewrite <- E, filter_idem, E. reflexivity.
Qed.

Lemma send1_other_denom : forall a b d x m a' d', d' <> d -> get_bal a' d' (send1 a b d x m) = get_bal a' d' m.
Proof.
  intros. unfold send1. rewrite (get_bal_put_other b d a' d') by congruence.
  apply get_bal_put_other. congruence.
Qed.
Lemma send1_other_addr : forall a b d x m a' d', a' <> a -> a' <> b -> get_bal a' d' (send1 a b d x m) = get_bal a' d' m.
Proof.
  intros. unfold send1. rewrite (get_bal_put_other b d a' d') by congruence.
  apply get_bal_put_other. congruence.
Qed.

(* the part of well-formedness the unbonding phase needs and keeps *)
Record ubI (s : state) : Prop := {
  ui_nodup : NoDup (map fst (ubds (stake s)));
  ui_key : forall kv, In kv (ubds (stake s)) -> fst kv = (u_del (snd kv), u_val (snd kv))
}.

Lemma wfP_ubI : forall s, wfP s -> ubI s.
Proof. intros s W. constructor; [apply (wf_ubds s W) | apply (wf_ubdk s W)]. Qed.

Section Step.
  Variable t : time.

  Lemma cu_cfg : forall s p, cfg (complete_unbonding t s p) = cfg s.
  Proof.
    intros s p. unfold complete_unbonding. destruct (sget k2_eqb p (ubds (stake s))) as [u|]; [|reflexivity].
    unfold pay. destruct (filter (fun e => negb (ubd_mature t e)) (u_entries u));
      destruct (sum_bal (filter (ubd_mature t) (u_entries u)) =? 0); reflexivity.
  Qed.

  Lemma cu_ubds : forall s p, ubI s -> forall p',
    sget k2_eqb p' (ubds (stake (complete_unbonding t s p))) =
      if k2_eqb p' p then immature_opt t (sget k2_eqb p (ubds (stake s))) else sget k2_eqb p' (ubds (stake s)).
  Proof.
    intros s p I p'. unfold complete_unbonding.
    destruct (sget k2_eqb p (ubds (stake s))) as [u|] eqn:E.
    - assert (K : (u_del u, u_val u) = p).
      { apply (sget_in k2_eqb k2_eqb_ok) in E. pose proof (ui_key s I _ E) as K. cbn in K. symmetry. exact K. }
      rewrite K. cbn [immature_opt]. unfold immature.
      destruct (filter (fun e => negb (ubd_mature t e)) (u_entries u)) as [|e r];
        cbn [stake set_stake set_ubd ubds].
      + destruct (k2_eqb p' p) eqn:Ep.
        * apply k2_eqb_ok in Ep. subst. apply (sget_sdel_same k2_eqb).
        * apply (sget_sdel_other k2_eqb k2_eqb_ok). eapply eqb_false_neq; [apply k2_eqb_ok | exact Ep].
      + destruct (k2_eqb p' p) eqn:Ep.
        * apply k2_eqb_ok in Ep. subst. apply (sget_sset_same k2_eqb k2_eqb_ok).
        * apply (sget_sset_other k2_eqb k2_eqb_ok). eapply eqb_false_neq; [apply k2_eqb_ok | exact Ep].
    - destruct (k2_eqb p' p) eqn:Ep; [|reflexivity]. apply k2_eqb_ok in Ep. subst. exact E.
  Qed.

  Lemma in_sdel {V} : forall k (kv : k2 * V) m, In kv (sdel k2_eqb k m) -> In kv m.
  Proof. intros k kv m I. rewrite (sdel_filter k2_eqb) in I. apply filter_In in I. tauto. Qed.

  Lemma cu_ubI : forall s p, ubI s -> ubI (complete_unbonding t s p).
  Proof.
    intros s p I. unfold complete_unbonding.
    destruct (sget k2_eqb p (ubds (stake s))) as [u|] eqn:E; [|exact I].
    destruct (filter (fun e => negb (ubd_mature t e)) (u_entries u)) as [|e r]; constructor;
      cbn [stake set_stake set_ubd ubds].
    - apply (sdel_nodup k2_eqb k2_eqb_ok), (ui_nodup s I).
    - intros kv X. apply in_sdel in X. apply (ui_key s I kv X).
    - apply (sset_nodup k2_eqb k2_eqb_ok), (ui_nodup s I).
    - intros kv [X|X]; [subst kv; reflexivity|]. apply in_sdel in X. apply (ui_key s I kv X).
  Qed.

  Lemma cu_fold_ubI : forall ps s, ubI s -> ubI (fold_left (complete_unbonding t) ps s).
  Proof. induction ps as [|p ps IH]; intros s I; [exact I|]. cbn. apply IH, cu_ubI, I. Qed.

  Lemma cu_fold_cfg : forall ps s, cfg (fold_left (complete_unbonding t) ps s) = cfg s.
  Proof. induction ps as [|p ps IH]; intros s; [reflexivity|]. cbn. rewrite IH. apply cu_cfg. Qed.

  Lemma cu_fold_ubds : forall ps s, ubI s -> forall p',
    sget k2_eqb p' (ubds (stake (fold_left (complete_unbonding t) ps s))) =
      if existsb (k2_eqb p') ps then immature_opt t (sget k2_eqb p' (ubds (stake s))) else sget k2_eqb p' (ubds (stake s)).
  Proof.
    induction ps as [|p ps IH]; intros s I p'; [reflexivity|].
    cbn [fold_left existsb]. rewrite IH by (apply cu_ubI; exact I). rewrite cu_ubds by exact I.
    destruct (k2_eqb p' p) eqn:Ep; cbn [orb].
    - apply k2_eqb_ok in Ep. subst p'. destruct (existsb (k2_eqb p) ps); [apply immature_idem | reflexivity].
    - reflexivity.
  Qed.

  (* balances: the potential  balance + owed  is invariant *)
  Lemma sum_bal_neg_empty : forall l, sum_bal (filter (ubd_mature t) (filter (fun e => negb (ubd_mature t e)) l)) = 0.
  Proof. intros l. rewrite filter_neg_empty. reflexivity. Qed.

  Lemma cu_bal_other_denom : forall s p a d, d <> bond_denom (cfg s) ->
    get_bal a d (bal (complete_unbonding t s p)) = get_bal a d (bal s).
  Proof.
    intros s p a d N. unfold complete_unbonding. destruct (sget k2_eqb p (ubds (stake s))) as [u|]; [|reflexivity].
    assert (B : forall x, get_bal a d (bal (pay (pool_nb (cfg s)) (u_del u) (bond_denom (cfg s)) x s)) = get_bal a d (bal s)).
    { intros x. unfold pay. destruct (x =? 0); [reflexivity|]. cbn [bal set_bal].
      apply send1_other_denom. exact N. }
    destruct (filter (fun e => negb (ubd_mature t e)) (u_entries u)); cbn [bal set_stake]; apply B.
  Qed.

  Lemma cu_potential : forall s p a, ubI s -> a <> pool_nb (cfg s) ->
    get_bal a (bond_denom (cfg s)) (bal (complete_unbonding t s p)) + payout t (complete_unbonding t s p) a
    = get_bal a (bond_denom (cfg s)) (bal s) + payout t s a.
  Proof.
    intros s p a I Na. unfold complete_unbonding.
    destruct (sget k2_eqb p (ubds (stake s))) as [u|] eqn:E; [|reflexivity].
    assert (K : (u_del u, u_val u) = p).
    { apply (sget_in k2_eqb k2_eqb_ok) in E. pose proof (ui_key s I _ E) as K. cbn in K. symmetry. exact K. }
    rewrite K. set (x := sum_bal (filter (ubd_mature t) (u_entries u))).
    set (bond := bond_denom (cfg s)). set (pool := pool_nb (cfg s)).
    assert (Na' : a <> pool) by exact Na.
    assert (B : get_bal a bond (bal (pay pool (u_del u) bond x s)) = get_bal a bond (bal s) + (if u_del u =? a then x else 0)).
    { unfold pay. destruct (Z.eqb_spec x 0) as [Z0|NZ].
      - rewrite Z0. destruct (u_del u =? a); lia.
      - cbn [bal set_bal]. destruct (Z.eq_dec (u_del u) pool) as [Ep|Np].
        + rewrite Ep. rewrite send1_other_addr by congruence.
          replace (pool =? a) with false by (symmetry; apply Z.eqb_neq; congruence). lia.
        + rewrite get_bal_send1 by congruence. rewrite Z.eqb_refl.
          destruct (Z.eqb_spec a (u_del u)) as [->|Nd].
          * rewrite Z.eqb_refl. reflexivity.
          * replace (a =? pool) with false by (symmetry; apply Z.eqb_neq; exact Na').
            replace (u_del u =? a) with false by (symmetry; apply Z.eqb_neq; congruence). lia. }
    assert (Wp : w_pay t a (p, u) = if u_del u =? a then x else 0).
    { unfold w_pay. cbn [fst snd]. rewrite <- K. reflexivity. }
    unfold payout.
    destruct (filter (fun e => negb (ubd_mature t e)) (u_entries u)) as [|e r] eqn:R;
      cbn [bal set_stake stake set_ubd ubds]; rewrite B.
    - rewrite (sum_sdel k2_eqb k2_eqb_ok) by (apply (ui_nodup s I)). rewrite E. cbn [wopt]. rewrite Wp. lia.
    - rewrite (sum_sset k2_eqb k2_eqb_ok) by (apply (ui_nodup s I)). rewrite E. cbn [wopt]. rewrite Wp.
      assert (W0 : w_pay t a (p, {| u_del := u_del u; u_val := u_val u; u_entries := e :: r |}) = 0).
      { unfold w_pay. cbn [fst snd u_entries]. rewrite <- R, sum_bal_neg_empty. destruct (fst p =? a); reflexivity. }
      rewrite W0. lia.
  Qed.

  Lemma cu_fold_potential : forall ps s a, ubI s -> a <> pool_nb (cfg s) ->
    get_bal a (bond_denom (cfg s)) (bal (fold_left (complete_unbonding t) ps s))
      + payout t (fold_left (complete_unbonding t) ps s) a
    = get_bal a (bond_denom (cfg s)) (bal s) + payout t s a.
  Proof.
    induction ps as [|p ps IH]; intros s a I Na; [reflexivity|]. cbn [fold_left].
    pose proof (IH (complete_unbonding t s p) a (cu_ubI s p I)) as H. rewrite cu_cfg in H.
    rewrite H by exact Na. apply cu_potential; assumption.
  Qed.

  Lemma cu_fold_other_denom : forall ps s a d, d <> bond_denom (cfg s) ->
    get_bal a d (bal (fold_left (complete_unbonding t) ps s)) = get_bal a d (bal s).
  Proof.
    induction ps as [|p ps IH]; intros s a d N; [reflexivity|]. cbn [fold_left].
    rewrite IH by (rewrite cu_cfg; exact N). apply cu_bal_other_denom. exact N.
  Qed.
End Step.

(* ---------- the redelegation phase touches neither balances nor unbonding delegations ---------- *)
Lemma cr_keeps : forall t s p,
  bal (complete_redelegation t s p) = bal s /\ ubds (stake (complete_redelegation t s p)) = ubds (stake s) /\
  cfg (complete_redelegation t s p) = cfg s.
Proof.
  intros t s p. unfold complete_redelegation. destruct (sget k3_eqb p (reds (stake s))) as [r|]; [|auto].
  destruct (filter (fun e => negb (red_mature t e)) (r_entries r)); auto.
Qed.

Lemma cr_fold_keeps : forall t ps s,
  bal (fold_left (complete_redelegation t) ps s) = bal s /\
  ubds (stake (fold_left (complete_redelegation t) ps s)) = ubds (stake s) /\
  cfg (fold_left (complete_redelegation t) ps s) = cfg s.
Proof.
  intros t. induction ps as [|p ps IH]; intros s; [auto|]. cbn [fold_left].
  destruct (IH (complete_redelegation t s p)) as (A & B & C). destruct (cr_keeps t s p) as (A' & B' & C').
  rewrite A, B, C. auto.
Qed.

Lemma sebl_is_ub_phase : forall t s,
  bal (staking_endblock t s) = bal (ub_phase t s) /\ ubds (stake (staking_endblock t s)) = ubds (stake (ub_phase t s)).
Proof.
  intros t s. unfold staking_endblock. fold (ub_phase t s).
  match goal with |- context [fold_left (complete_redelegation t) ?ps ?x] => destruct (cr_fold_keeps t ps x) as (A & B & _) end.
  split; [exact A | exact B].
Qed.

(* ---------- characterisation of the end blocker on covered queues ---------- *)
Lemma in_due {P} : forall (t t0 : time) (q : list (time * list P)) p,
  t0 <= t -> In p (qget t0 q) -> In p (due t q).
Proof.
  intros t t0 q p L I. unfold qget in I. destruct (sget Z.eqb t0 q) as [l|] eqn:E; [|destruct I].
  apply (sget_in Z.eqb Zeqb_ok) in E. unfold due. apply in_concat. exists l. split; [|exact I].
  apply in_map_iff. exists (t0, l). split; [reflexivity|]. apply filter_In. split; [exact E|]. cbn. apply Z.leb_le. exact L.
Qed.

Section EndBlock.
  Variables (t : time) (s : state).
  Hypothesis W : wfP s.
  Hypothesis Q : qcoverP s.

  Let s0 := set_stake s (set_ubd (stake s) (ubds (stake s)) (idx33 (stake s)) (undue t (ubdq (stake s)))).
  Let I0 : ubI s0.
  Proof. constructor; [apply (wf_ubds s W) | apply (wf_ubdk s W)]. Qed.

  Lemma uncovered_immature : forall p, existsb (k2_eqb p) (due t (ubdq (stake s))) = false ->
    immature_opt t (sget k2_eqb p (ubds (stake s))) = sget k2_eqb p (ubds (stake s)).
  Proof.
    intros p N. destruct (sget k2_eqb p (ubds (stake s))) as [u|] eqn:E; [|reflexivity].
    apply (sget_in k2_eqb k2_eqb_ok) in E. cbn [immature_opt]. unfold immature.
    assert (F : filter (fun e => negb (ubd_mature t e)) (u_entries u) = u_entries u).
    { apply filter_true_id. intros e Ie. apply negb_true_iff. destruct (ubd_mature t e) eqn:Mt; [|reflexivity].
      exfalso. unfold ubd_mature in Mt. apply andb_true_iff in Mt. destruct Mt as [Mt _]. apply Z.leb_le in Mt.
      pose proof (qc_ubd s Q (p, u) e E Ie) as C. cbn [fst snd] in C.
      assert (In p (due t (ubdq (stake s)))) by (eapply in_due; eauto).
      assert (existsb (k2_eqb p) (due t (ubdq (stake s))) = true); [|congruence].
      apply existsb_exists. exists p. split; [assumption | apply (eqb_refl' k2_eqb k2_eqb_ok)]. }
    rewrite F. pose proof (qc_ubd_ne s Q (p, u) E) as NE. cbn in NE.
    destruct u as [d v es]. cbn in *. destruct es; [contradiction | reflexivity].
  Qed.

  Theorem endblock_ubd : forall a v, ubd_of (staking_endblock t s) a v = immature_opt t (ubd_of s a v).
  Proof.
    intros a v. unfold ubd_of. rewrite (proj2 (sebl_is_ub_phase t s)). unfold ub_phase. fold s0.
    rewrite (cu_fold_ubds t _ s0 I0). cbn [s0 stake set_stake set_ubd ubds].
    destruct (existsb (k2_eqb (a, v)) (due t (ubdq (stake s)))) eqn:E; [reflexivity|].
    symmetry. apply uncovered_immature. exact E.
  Qed.

  Lemma payout_after_zero : forall a, payout t (ub_phase t s) a = 0.
  Proof.
    intros a. unfold payout.
    assert (Z0 : forall kv, In kv (ubds (stake (ub_phase t s))) -> w_pay t a kv = 0).
    { intros [p u] I.
      assert (I1 : ubI (ub_phase t s)) by (unfold ub_phase; apply cu_fold_ubI; exact I0).
      pose proof (in_sget_nodup k2_eqb k2_eqb_ok p u _ (ui_nodup _ I1) I) as G.
      destruct p as [b v]. pose proof (endblock_ubd b v) as EB. unfold ubd_of in EB.
      rewrite (proj2 (sebl_is_ub_phase t s)), G in EB.
      unfold w_pay. cbn [fst snd]. destruct (b =? a); [|reflexivity].
      destruct (sget k2_eqb (b, v) (ubds (stake s))) as [u0|]; [|discriminate]. cbn [immature_opt] in EB.
      unfold immature in EB. destruct (filter (fun e => negb (ubd_mature t e)) (u_entries u0)) as [|e r] eqn:R; [discriminate|].
      inversion EB. cbn [u_entries]. rewrite <- R. apply sum_bal_neg_empty. }
    induction (ubds (stake (ub_phase t s))) as [|kv m IH]; [reflexivity|].
    rewrite sumZ_cons, (Z0 kv (or_introl eq_refl)), IH; [reflexivity|]. intros kv' I. apply Z0. right. exact I.
  Qed.

  Theorem endblock_bal : forall a d, a <> pool_nb (cfg s) ->
    bal_of (staking_endblock t s) a d = bal_of s a d + (if d =? bond_denom (cfg s) then payout t s a else 0).
  Proof.
    intros a d Na. unfold bal_of.
    change (match sget k2_eqb (a, d) ?m with Some x => x | None => 0 end) with (get_bal a d m).
    rewrite (proj1 (sebl_is_ub_phase t s)).
    destruct (Z.eqb_spec d (bond_denom (cfg s))) as [->|Nd].
    - pose proof (cu_fold_potential t (due t (ubdq (stake s))) s0 a I0 Na) as P.
      fold (ub_phase t s) in P. rewrite payout_after_zero in P. cbn [s0 cfg set_stake bal] in P.
      unfold payout in P at 1. cbn [s0 stake set_stake set_ubd ubds] in P. fold (payout t s a) in P.
      change (ub_phase t s) with (fold_left (complete_unbonding t) (due t (ubdq (stake s))) s0). lia.
    - unfold ub_phase. fold s0. rewrite cu_fold_other_denom by exact Nd. cbn. lia.
  Qed.
End EndBlock.

Lemma sumZ_zero {A} (l : list A) : sumZ (fun _ => 0) l = 0.
Proof. induction l as [|x l IH]; [reflexivity | rewrite sumZ_cons, IH; reflexivity]. Qed.

(* ---------- migration commutes with maturation ---------- *)
Lemma immature_to_ubd : forall t to o,
  immature_opt t (option_map (to_ubd to) o) = option_map (to_ubd to) (immature_opt t o).
Proof.
  intros t to [u|]; [|reflexivity]. cbn. unfold immature. cbn [u_entries to_ubd].
  destruct (filter (fun e => negb (ubd_mature t e)) (u_entries u)); reflexivity.
Qed.

Section Commute.
  Variables from to : Z.
  Variables s s1 : state.
  Hypothesis Hft : from <> to.
  Hypothesis W : wfP s.
  Hypothesis Q : qcoverP s.
  Hypothesis V : staking_validate from to s = Ok tt.
  Hypothesis X : staking_execute from to (bank_move from to s) = Ok s1.

  Let s' := set_record from to s1.
  Let M : moved from to s s' := is_moved from to s s1 Hft W V X.
  Let W' : wfP s' := wf_after from to s s1 Hft W V X.
  Let Q' : qcoverP s' := qcover_after from to s s1 Hft W V X Q.

  Lemma payout_moved : forall t a,
    payout t s' a = sel from to a (payout t s from) 0 (payout t s a).
  Proof.
    intros t a. unfold payout at 1.
    rewrite (sumZ_perm _ _ _ (perm_ubds from to s s1 Hft W V X)), sumZ_map.
    assert (Vu : forall r, ~ In (to, r) (map fst (ubds (stake s)))).
    { apply no_to_keys2. pose proof (staking_validate_inv _ _ _ V). tauto. }
    unfold sel. destruct (Z.eqb_spec a to) as [->|N1].
    - unfold payout. apply sumZ_ext. intros [[b r] u] I. unfold ren_kv, isfrom, w_pay. cbn [fst snd].
      destruct (Z.eqb_spec b from) as [->|Nb]; cbn [fst snd to_ubd u_entries].
      + rewrite Z.eqb_refl. reflexivity.
      + destruct (Z.eqb_spec b to) as [->|Nt]; [|reflexivity].
        exfalso. apply (Vu r). apply (in_map fst) in I. exact I.
    - destruct (Z.eqb_spec a from) as [->|N2].
      + rewrite <- (sumZ_ext (fun _ => 0)).
        * apply sumZ_zero.
        * intros [[b r] u] _. unfold ren_kv, isfrom, w_pay. cbn [fst snd].
          destruct (Z.eqb_spec b from) as [->|Nb]; cbn [fst snd].
          -- replace (to =? from) with false by (symmetry; apply Z.eqb_neq; congruence). reflexivity.
          -- replace (b =? from) with false by (symmetry; apply Z.eqb_neq; exact Nb). reflexivity.
      + unfold payout. apply sumZ_ext. intros [[b r] u] _. unfold ren_kv, isfrom, w_pay. cbn [fst snd].
        destruct (Z.eqb_spec b from) as [->|Nb]; cbn [fst snd].
        * replace (to =? a) with false by (symmetry; apply Z.eqb_neq; congruence).
          replace (from =? a) with false by (symmetry; apply Z.eqb_neq; congruence). reflexivity.
        * reflexivity.
  Qed.

  Lemma payout_target_zero : forall t, payout t s to = 0.
  Proof.
    intros t. unfold payout.
    assert (Vu : forall r, ~ In (to, r) (map fst (ubds (stake s)))).
    { apply no_to_keys2. pose proof (staking_validate_inv _ _ _ V). tauto. }
    rewrite <- (sumZ_ext (fun _ => 0)).
    - apply sumZ_zero.
    - intros [[b r] u] I. unfold w_pay. cbn [fst snd]. destruct (Z.eqb_spec b to) as [->|]; [|reflexivity].
      exfalso. apply (Vu r). apply (in_map fst) in I. exact I.
  Qed.

  (* after the end blocker at any time t: the target holds what the source would have held *)
  Theorem mature_commutes_ubd : forall t a v,
    ubd_of (staking_endblock t s') a v =
      sel from to a (option_map (to_ubd to) (ubd_of (staking_endblock t s) from v)) None (ubd_of (staking_endblock t s) a v).
  Proof.
    intros t a v. rewrite (endblock_ubd t s' W' Q'), !(endblock_ubd t s W Q), (mv_ubd _ _ _ _ M).
    unfold sel. destruct (a =? to); [apply immature_to_ubd|]. destruct (a =? from); reflexivity.
  Qed.

  Theorem mature_commutes_bal : forall t a d,
    from <> pool_nb (cfg s) -> to <> pool_nb (cfg s) -> a <> pool_nb (cfg s) ->
    bal_of (staking_endblock t s') a d =
      sel from to a (bal_of (staking_endblock t s) to d + bal_of (staking_endblock t s) from d) 0
                    (bal_of (staking_endblock t s) a d).
  Proof.
    intros t a d Nf Nt Na. pose proof (mv_cfg _ _ _ _ M) as C.
    rewrite (endblock_bal t s' W' Q') by (rewrite C; exact Na). rewrite C.
    rewrite !(endblock_bal t s W Q) by assumption.
    rewrite (mv_bal _ _ _ _ M), payout_moved, payout_target_zero. unfold sel.
    destruct (a =? to); [destruct (d =? bond_denom (cfg s)); lia|].
    destruct (a =? from); [destruct (d =? bond_denom (cfg s)); lia | reflexivity].
  Qed.
End Commute.
