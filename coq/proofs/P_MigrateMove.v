(* P_MigrateMove.v — the key-by-key rewrite loops of DistrStakingMigrate.Execute, characterised:
   a generic "rename the delegator part of every key" fold is a permutation of the renamed store,
   and the model's loops (which read addresses from record VALUES) are instances of it on
   well-formed states. *)
From Coq Require Import ZArith List Bool Lia Permutation.
From FxV Require Import model.M_Migrate model.M_MigrateSpec proofs.P_MigrateBase.
Import ListNotations.
Open Scope Z_scope.

Lemma fold_left_ext_in {A B} (f g : A -> B -> A) (l : list B) (a : A) :
  (forall acc x, In x l -> f acc x = g acc x) -> fold_left f l a = fold_left g l a.
Proof.
  revert a. induction l as [|x r IH]; cbn; [reflexivity|]. intros a H.
  rewrite (H a x (or_introl eq_refl)). apply IH. intros acc y Y. apply H. right. exact Y.
Qed.

Lemma filter_true_id {A} (P : A -> bool) (l : list A) : (forall x, In x l -> P x = true) -> filter P l = l.
Proof.
  induction l as [|x r IH]; cbn; [reflexivity|]. intros H. rewrite (H x (or_introl eq_refl)). f_equal.
  apply IH. intros y Y. apply H. right. exact Y.
Qed.

Lemma filter_filter {A} (P Q : A -> bool) (l : list A) : filter P (filter Q l) = filter (fun x => Q x && P x) l.
Proof. induction l as [|x r IH]; cbn; [reflexivity|]. destruct (Q x); cbn; [destruct (P x); rewrite IH; reflexivity | exact IH]. Qed.

Lemma filter_split_perm {A} (P : A -> bool) (l : list A) :
  Permutation (filter P l ++ filter (fun x => negb (P x)) l) l.
Proof.
  induction l as [|x r IH]; cbn; [constructor|]. destruct (P x); cbn.
  - constructor. exact IH.
  - apply Permutation_sym. apply Permutation_cons_app. apply Permutation_sym. exact IH.
Qed.

Section Move.
  Context {R V : Type} (reqb : R -> R -> bool) (Hr : eqb_ok reqb).
  Notation K := (Z * R)%type.
  Notation keqb := (pkeqb reqb).
  Let Hk : eqb_ok keqb := pkeqb_ok reqb Hr.
  Variables (from to : Z) (f : V -> V).
  Hypothesis Hft : from <> to.

  Definition isfrom (kv : K * V) : bool := fst (fst kv) =? from.
  Definition ren_kv (kv : K * V) : K * V := if isfrom kv then ((to, snd (fst kv)), f (snd kv)) else kv.
  Definition move1 (m : list (K * V)) (kv : K * V) : list (K * V) :=
    sset keqb (to, snd (fst kv)) (f (snd kv)) (sdel keqb (fst kv) m).

  Lemma keqb_sym : forall a b : K, keqb a b = keqb b a.
  Proof.
    intros a b. destruct (keqb a b) eqn:E.
    - apply Hk in E. subst. symmetry. apply (eqb_refl' keqb Hk).
    - symmetry. apply (eqb_neq keqb Hk). intros ->. rewrite (eqb_refl' keqb Hk) in E. discriminate.
  Qed.

  Lemma existsb_keys_in : forall (k : K) (l : list K), existsb (keqb k) l = true <-> In k l.
  Proof.
    intros k l. rewrite existsb_exists. split.
    - intros [x [X E]]. apply Hk in E. subst. exact X.
    - intros X. exists k. split; [exact X | apply (eqb_refl' keqb Hk)].
  Qed.

  Lemma move_fold_nodup : forall L acc, NoDup (map fst acc) -> NoDup (map fst (fold_left move1 L acc)).
  Proof.
    induction L as [|kv L IH]; cbn; [auto|]. intros acc ND. apply IH. unfold move1.
    apply (sset_nodup keqb Hk). apply (sdel_nodup keqb Hk). exact ND.
  Qed.

  Lemma move_fold_perm : forall L acc,
    NoDup (map fst acc) -> NoDup (map fst L) -> incl L acc ->
    (forall kv, In kv L -> isfrom kv = true) ->
    (forall kv, In kv L -> ~ In (to, snd (fst kv)) (map fst acc)) ->
    Permutation (fold_left move1 L acc)
                (map ren_kv L ++ filter (fun kv => negb (existsb (keqb (fst kv)) (map fst L))) acc).
  Proof.
    induction L as [|kv L IH]; intros acc NDa NDl Inc Hf Hto.
    - cbn. rewrite filter_true_id; [apply Permutation_refl | reflexivity].
    - cbn [fold_left map]. inversion NDl as [|? ? N1 N2]. subst.
      destruct kv as [[d r] v]. assert (Hd : d = from).
      { specialize (Hf _ (or_introl eq_refl)). unfold isfrom in Hf. cbn in Hf. apply Z.eqb_eq in Hf. exact Hf. }
      subst d. cbn [fst] in N1.
      assert (Eacc : move1 acc ((from, r), v) = ((to, r), f v) :: sdel keqb (from, r) acc).
      { unfold move1, sset. cbn [fst snd]. f_equal. apply (sdel_notin keqb Hk).
        intros X. apply (sdel_keys_incl keqb Hk) in X. destruct X as [X _].
        exact (Hto _ (or_introl eq_refl) X). }
      rewrite Eacc.
      assert (P := IH (((to, r), f v) :: sdel keqb (from, r) acc)).
      assert (Pre : Permutation (fold_left move1 L (((to, r), f v) :: sdel keqb (from, r) acc))
              (map ren_kv L ++ filter (fun kv => negb (existsb (keqb (fst kv)) (map fst L)))
                                      (((to, r), f v) :: sdel keqb (from, r) acc))).
      { apply P; clear P.
        - cbn. constructor.
          + intros X. apply (sdel_keys_incl keqb Hk) in X. destruct X as [X _]. exact (Hto _ (or_introl eq_refl) X).
          + apply (sdel_nodup keqb Hk). exact NDa.
        - exact N2.
        - intros kv' I. right. rewrite (sdel_filter keqb). apply filter_In. split.
          + apply Inc. right. exact I.
          + apply negb_true_iff. apply (eqb_neq keqb Hk). intros E. apply N1. rewrite E. apply in_map. exact I.
        - intros kv' I. apply Hf. right. exact I.
        - intros kv' I [X|X].
          + inversion X as [E]. apply N1. specialize (Hf kv' (or_intror I)). unfold isfrom in Hf. apply Z.eqb_eq in Hf.
            destruct kv' as [[d' r'] v']. cbn in *. subst. apply (in_map fst) in I. exact I.
          + apply (sdel_keys_incl keqb Hk) in X. destruct X as [X _]. exact (Hto kv' (or_intror I) X). }
      eapply Permutation_trans; [exact Pre|]. clear Pre P.
      cbn [filter fst]. assert (Nto : existsb (keqb (to, r)) (map fst L) = false).
      { destruct (existsb (keqb (to, r)) (map fst L)) eqn:E; [|reflexivity]. apply existsb_keys_in in E.
        apply in_map_iff in E. destruct E as [kv' [E I]]. specialize (Hf kv' (or_intror I)). unfold isfrom in Hf.
        apply Z.eqb_eq in Hf. rewrite E in Hf. cbn in Hf. congruence. }
      rewrite Nto. cbn [negb].
      replace (ren_kv (from, r, v)) with ((to, r), f v) by (unfold ren_kv, isfrom; cbn [fst snd]; rewrite Z.eqb_refl; reflexivity).
      rewrite (sdel_filter keqb), filter_filter.
      rewrite (filter_ext _ (fun kv => negb (existsb (keqb (fst kv)) (map fst (((from, r), v) :: L))))).
      + apply Permutation_sym. cbn [app]. apply Permutation_cons_app. apply Permutation_refl.
      + intros kv'. cbn [map existsb fst]. rewrite negb_orb. rewrite (keqb_sym (from, r) (fst kv')). reflexivity.
  Qed.

  (* the whole-store rename: every record of `from` *)
  Definition move_all (m : list (K * V)) : list (K * V) := fold_left move1 (filter isfrom m) m.

  Lemma minus_from : forall m : list (K * V),
    filter (fun kv => negb (existsb (keqb (fst kv)) (map fst (filter isfrom m)))) m
    = filter (fun kv => negb (isfrom kv)) m.
  Proof.
    intros m. apply filter_ext_in. intros kv X. f_equal. destruct (isfrom kv) eqn:E.
    - apply existsb_keys_in. apply in_map. apply filter_In. tauto.
    - destruct (existsb (keqb (fst kv)) (map fst (filter isfrom m))) eqn:E2; [|reflexivity].
      apply existsb_keys_in in E2. apply in_map_iff in E2. destruct E2 as [kv' [E2 I]].
      apply filter_In in I. destruct I as [_ I]. unfold isfrom in *. rewrite E2 in I. congruence.
  Qed.

  Lemma move_all_perm : forall m,
    NoDup (map fst m) -> (forall r, ~ In (to, r) (map fst m)) ->
    Permutation (move_all m) (map ren_kv m).
  Proof.
    intros m ND Nto. unfold move_all.
    eapply Permutation_trans.
    - apply move_fold_perm.
      + exact ND.
      + apply (filter_nodup_keys isfrom). exact ND.
      + intros x X. apply filter_In in X. tauto.
      + intros kv X. apply filter_In in X. tauto.
      + intros kv _. apply Nto.
    - rewrite minus_from.
      assert (E : filter (fun kv => negb (isfrom kv)) m = map ren_kv (filter (fun kv => negb (isfrom kv)) m)).
      { rewrite <- (map_id (filter _ m)) at 1. apply map_ext_in. intros kv X. apply filter_In in X.
        destruct X as [_ X]. unfold ren_kv. apply negb_true_iff in X. rewrite X. reflexivity. }
      rewrite E, <- map_app. apply Permutation_map. apply filter_split_perm.
  Qed.

  (* lookups in the renamed store *)
  Lemma ren_get_to : forall m r, (forall q, ~ In (to, q) (map fst m)) ->
    sget keqb (to, r) (map ren_kv m) = option_map f (sget keqb (from, r) m).
  Proof.
    induction m as [|[[d q] v] m IH]; intros r Nto; [reflexivity|].
    assert (Nto' : forall q0, ~ In (to, q0) (map fst m)) by (intros q0 X; apply (Nto q0); right; exact X).
    cbn [map]. unfold ren_kv at 1, isfrom. cbn [fst snd]. destruct (d =? from) eqn:E.
    - apply Z.eqb_eq in E. subst d. cbn [sget]. unfold pkeqb at 1 3. cbn [fst snd]. rewrite !Z.eqb_refl. cbn [andb].
      destruct (reqb r q); [reflexivity | apply IH; exact Nto'].
    - apply Z.eqb_neq in E. cbn [sget]. unfold pkeqb at 1 3. cbn [fst snd].
      assert (Dt : d <> to) by (intros ->; apply (Nto q); left; reflexivity).
      replace (to =? d) with false by (symmetry; apply Z.eqb_neq; congruence).
      replace (from =? d) with false by (symmetry; apply Z.eqb_neq; congruence).
      cbn [andb]. apply IH. exact Nto'.
  Qed.

  Lemma ren_get_from : forall m r, sget keqb (from, r) (map ren_kv m) = None.
  Proof.
    induction m as [|[[d q] v] m IH]; intros r; [reflexivity|].
    cbn [map]. unfold ren_kv at 1, isfrom. cbn [fst snd]. destruct (d =? from) eqn:E.
    - cbn [sget]. unfold pkeqb at 1. cbn [fst snd].
      replace (from =? to) with false by (symmetry; apply Z.eqb_neq; exact Hft). cbn [andb]. apply IH.
    - cbn [sget]. unfold pkeqb at 1. cbn [fst snd]. rewrite Z.eqb_sym, E. cbn [andb]. apply IH.
  Qed.

  Lemma ren_get_other : forall m a r, a <> from -> a <> to ->
    sget keqb (a, r) (map ren_kv m) = sget keqb (a, r) m.
  Proof.
    induction m as [|[[d q] v] m IH]; intros a r Na Nb; [reflexivity|].
    cbn [map]. unfold ren_kv at 1, isfrom. cbn [fst snd]. destruct (d =? from) eqn:E.
    - apply Z.eqb_eq in E. subst d. cbn [sget]. unfold pkeqb at 1 3. cbn [fst snd].
      replace (a =? to) with false by (symmetry; apply Z.eqb_neq; exact Nb).
      replace (a =? from) with false by (symmetry; apply Z.eqb_neq; exact Na). cbn [andb]. apply IH; assumption.
    - cbn [sget]. destruct (keqb (a, r) (d, q)); [reflexivity | apply IH; assumption].
  Qed.

  (* lookups after the fold *)
  Lemma move_all_get : forall m, NoDup (map fst m) -> (forall r, ~ In (to, r) (map fst m)) ->
    forall a r, sget keqb (a, r) (move_all m) =
      if a =? to then option_map f (sget keqb (from, r) m)
      else if a =? from then None else sget keqb (a, r) m.
  Proof.
    intros m ND Nto a r.
    rewrite (sget_perm keqb Hk (move_all m) (map ren_kv m)).
    - destruct (Z.eqb_spec a to) as [->|N1]; [apply ren_get_to; exact Nto|].
      destruct (Z.eqb_spec a from) as [->|N2]; [apply ren_get_from | apply ren_get_other; assumption].
    - apply move_fold_nodup. exact ND.
    - apply move_all_perm; assumption.
  Qed.

  Lemma move_all_nodup : forall m, NoDup (map fst m) -> NoDup (map fst (move_all m)).
  Proof. intros. apply move_fold_nodup. assumption. Qed.

  (* sums that do not look at the delegator are unchanged *)
  Lemma move_all_sum : forall (w : K * V -> Z) m,
    NoDup (map fst m) -> (forall r, ~ In (to, r) (map fst m)) ->
    (forall kv, w (ren_kv kv) = w kv) -> sumZ w (move_all m) = sumZ w m.
  Proof.
    intros w m ND Nto Hw. rewrite (sumZ_perm w _ _ (move_all_perm m ND Nto)), sumZ_map.
    apply sumZ_ext. intros x _. apply Hw.
  Qed.
End Move.

(* ---------- renaming a list of keys in a unit-valued index ---------- *)
Section IdxMove.
  Context {R : Type} (reqb : R -> R -> bool) (Hr : eqb_ok reqb).
  Notation keqb := (pkeqb reqb).
  Let Hk : eqb_ok keqb := pkeqb_ok reqb Hr.
  Variables (from to : Z).
  Hypothesis Hft : from <> to.

  Definition idx_step (m : list ((Z * R) * unit)) (r : R) := sset keqb (to, r) tt (sdel keqb (from, r) m).

  Lemma idx_fold_has : forall rs m a r,
    shas keqb (a, r) (fold_left idx_step rs m) =
      if a =? to then existsb (reqb r) rs || shas keqb (to, r) m
      else if a =? from then negb (existsb (reqb r) rs) && shas keqb (from, r) m
      else shas keqb (a, r) m.
  Proof.
    induction rs as [|q rs IH]; intros m a r.
    - cbn. destruct (Z.eqb_spec a to) as [->|]; [reflexivity|]. destruct (Z.eqb_spec a from) as [->|]; reflexivity.
    - cbn [fold_left existsb]. rewrite IH. unfold idx_step. unfold shas.
      destruct (Z.eqb_spec a to) as [->|N1].
      + destruct (reqb r q) eqn:E.
        * apply Hr in E. subst q. rewrite (sget_sset_same keqb Hk). cbn. rewrite orb_true_r. reflexivity.
        * rewrite (sget_sset_other keqb Hk).
          2:{ intros X. inversion X. subst. rewrite (eqb_refl' reqb Hr) in E. discriminate. }
          rewrite (sget_sdel_other keqb Hk); [cbn; reflexivity|]. intros X. inversion X. congruence.
      + destruct (Z.eqb_spec a from) as [->|N2].
        * rewrite (sget_sset_other keqb Hk) by (intros X; inversion X; congruence).
          destruct (reqb r q) eqn:E.
          -- apply Hr in E. subst q. rewrite (sget_sdel_same keqb). cbn. rewrite andb_false_r. reflexivity.
          -- rewrite (sget_sdel_other keqb Hk); [cbn; reflexivity|]. intros X. inversion X. subst.
             rewrite (eqb_refl' reqb Hr) in E. discriminate.
        * rewrite (sget_sset_other keqb Hk) by (intros X; inversion X; congruence).
          rewrite (sget_sdel_other keqb Hk) by (intros X; inversion X; congruence). reflexivity.
  Qed.
End IdxMove.

(* ---------- the queue rewrite ---------- *)
Section QueueMove.
  Context {P : Type} (isf : P -> bool) (ren : P -> P).
  Hypothesis ren_idem : forall p, ren (ren p) = ren p.
  Hypothesis ren_noop : forall p, isf p = false -> ren p = p.

  Lemma map_ren_noop : forall l, existsb isf l = false -> map ren l = l.
  Proof.
    induction l as [|p l IH]; cbn; [reflexivity|]. rewrite orb_false_iff. intros [A B].
    rewrite ren_noop by exact A. f_equal. apply IH. exact B.
  Qed.

  Lemma qget_entry : forall q t t',
    qget t' (mig_q_entry isf ren q t) = if t' =? t then map ren (qget t q) else qget t' q.
  Proof.
    intros q t t'. unfold mig_q_entry. destruct (existsb isf (qget t q)) eqn:E.
    - unfold qget at 1. destruct (Z.eqb_spec t' t) as [->|N].
      + rewrite (sget_sset_same Z.eqb Zeqb_ok). reflexivity.
      + rewrite (sget_sset_other Z.eqb Zeqb_ok) by exact N. reflexivity.
    - destruct (Z.eqb_spec t' t) as [->|N]; [|reflexivity]. symmetry. apply map_ren_noop. exact E.
  Qed.

  Lemma qget_entries : forall ts q t',
    qget t' (fold_left (mig_q_entry isf ren) ts q) =
      if existsb (Z.eqb t') ts then map ren (qget t' q) else qget t' q.
  Proof.
    induction ts as [|t ts IH]; intros q t'; [reflexivity|].
    cbn [fold_left existsb]. rewrite IH, qget_entry. destruct (Z.eqb_spec t' t) as [->|N].
    - cbn. destruct (existsb (Z.eqb t) ts); [|reflexivity]. rewrite map_map.
      apply map_ext. intros p. apply ren_idem.
    - cbn. reflexivity.
  Qed.
End QueueMove.

Lemma fold_left_concat {A B} (f : A -> B -> A) (ls : list (list B)) (a : A) :
  fold_left f (concat ls) a = fold_left (fun a l => fold_left f l a) ls a.
Proof.
  revert a. induction ls as [|l ls IH]; intros a; [reflexivity|]. cbn. rewrite fold_left_app. apply IH.
Qed.
