(* P_MigrateMoved.v — an accepted migration satisfies `moved` (M_MigrateSpec): everything of the
   source is at the target, the source has nothing, nobody else and no total changed. *)
From Coq Require Import ZArith List Bool Lia Permutation.
From FxV Require Import model.M_Migrate model.M_MigrateSpec proofs.P_MigrateBase proofs.P_MigrateAuth
  proofs.P_MigrateMove proofs.P_MigrateExec proofs.P_MigrateChar.
Import ListNotations.
Open Scope Z_scope.

Lemma shas_sget {K V} (eqb : K -> K -> bool) (k : K) (m : list (K * V)) :
  shas eqb k m = match sget eqb k m with Some _ => true | None => false end.
Proof. reflexivity. Qed.

(* validators named by the source's records = keys of the source *)
Lemma vals_of_from2 {V} (val_of : V -> Z) (from v : Z) (m : list (k2 * V)) :
  (forall kv, In kv m -> snd (fst kv) = val_of (snd kv)) ->
  existsb (Z.eqb v) (map (fun kv => val_of (snd kv)) (filter (from_rec2 from) m)) = shas k2_eqb (from, v) m.
Proof.
  intros H. apply eq_iff_eq_true. rewrite existsb_Zeqb_in, (shas_true_iff k2_eqb k2_eqb_ok). split.
  - intros I. apply in_map_iff in I. destruct I as [kv [E I]]. apply filter_In in I. destruct I as [I F].
    unfold from_rec2 in F. apply Z.eqb_eq in F. apply in_map_iff. exists kv. split; [|exact I].
    pose proof (H _ I) as Hv. destruct kv as [[a r] x]. cbn in *. subst. reflexivity.
  - intros I. apply in_map_iff in I. destruct I as [kv [E I]]. apply in_map_iff. exists kv. split.
    + pose proof (H _ I) as Hv. destruct kv as [[a r] x]. cbn in *. inversion E. subst. reflexivity.
    + apply filter_In. split; [exact I|]. unfold from_rec2. rewrite E. apply Z.eqb_refl.
Qed.

Lemma vals_of_from3 {V} (val_of : V -> k2) (from : Z) (vw : k2) (m : list (k3 * V)) :
  (forall kv, In kv m -> snd (fst kv) = val_of (snd kv)) ->
  existsb (k2_eqb vw) (map (fun kv => val_of (snd kv)) (filter (from_rec3 from) m)) = shas k3_eqb (from, vw) m.
Proof.
  intros H. apply eq_iff_eq_true. rewrite (shas_true_iff k3_eqb k3_eqb_ok), existsb_exists. split.
  - intros [y [I E]]. apply k2_eqb_ok in E. subst y. apply in_map_iff in I. destruct I as [kv [E I]].
    apply filter_In in I. destruct I as [I F].
    unfold from_rec3 in F. apply Z.eqb_eq in F. apply in_map_iff. exists kv. split; [|exact I].
    pose proof (H _ I) as Hv. destruct kv as [[a r] x]. cbn in *. subst. reflexivity.
  - intros I. apply in_map_iff in I. destruct I as [kv [E I]]. exists vw. split; [|apply (eqb_refl' k2_eqb k2_eqb_ok)].
    apply in_map_iff. exists kv. split.
    + pose proof (H _ I) as Hv. destruct kv as [[a r] x]. cbn in *. inversion E. subst. reflexivity.
    + apply filter_In. split; [exact I|]. unfold from_rec3. rewrite E. apply Z.eqb_refl.
Qed.

Lemma no_to_keys2 {V} (to : Z) (m : list (k2 * V)) :
  existsb (from_rec2 to) m = false -> forall r, ~ In (to, r) (map fst m).
Proof.
  intros H r I. pose proof (existsb_from2_false to m H r) as N.
  apply (sget_none_notin k2_eqb k2_eqb_ok) in N. contradiction.
Qed.

Lemma no_to_keys3 {V} (to : Z) (m : list (k3 * V)) :
  existsb (from_rec3 to) m = false -> forall r, ~ In (to, r) (map fst m).
Proof.
  intros H [v w] I. pose proof (existsb_from3_false to m H v w) as N.
  apply (sget_none_notin k3_eqb k3_eqb_ok) in N. contradiction.
Qed.

Section Moved.
  Variables from to : Z.
  Variables s s1 : state.
  Hypothesis Hft : from <> to.
  Hypothesis W : wfP s.
  Hypothesis V : staking_validate from to s = Ok tt.
  Hypothesis X : staking_execute from to (bank_move from to s) = Ok s1.

  Let s' := set_record from to s1.

  Lemma s1_closed :
    s1 = set_stake (set_start (bank_move from to s) (fold_left (start_step from to) (Ld from s) (start s)))
                   (stake_after from to s).
  Proof. apply staking_execute_closed in X. exact X. Qed.

  Let Vd : existsb (from_rec2 to) (dels (stake s)) = false.
  Proof. apply staking_validate_inv in V. tauto. Qed.
  Let Vu : existsb (from_rec2 to) (ubds (stake s)) = false.
  Proof. apply staking_validate_inv in V. tauto. Qed.
  Let Vr : existsb (from_rec3 to) (reds (stake s)) = false.
  Proof. apply staking_validate_inv in V. tauto. Qed.

  Lemma p_dels : dels (stake s') = move_all Z.eqb from to (to_del to) (dels (stake s)).
  Proof.
    unfold s'. rewrite s1_closed. cbn [stake set_record set_mig set_stake stake_after dels].
    apply dels_fold_is_move. apply (wf_delk s W).
  Qed.

  Lemma p_ubds : ubds (stake s') = move_all Z.eqb from to (to_ubd to) (ubds (stake s)).
  Proof.
    unfold s'. rewrite s1_closed. cbn [stake set_record set_mig set_stake stake_after ubds].
    apply ubds_fold_is_move. apply (wf_ubdk s W).
  Qed.

  Lemma p_reds : reds (stake s') = move_all k2_eqb from to (to_red to) (reds (stake s)).
  Proof.
    unfold s'. rewrite s1_closed. cbn [stake set_record set_mig set_stake stake_after reds].
    apply reds_fold_is_move. apply (wf_redk s W).
  Qed.

  Lemma p_start : start s' = fold_left (start_step from to) (Ld from s) (start s).
  Proof. unfold s'. rewrite s1_closed. reflexivity. Qed.

  Lemma p_bal : bal s' = bal (bank_move from to s).
  Proof. unfold s'. rewrite s1_closed. reflexivity. Qed.

  Lemma m_del : forall a v, del_of s' a v = sel from to a (option_map (to_del to) (del_of s from v)) None (del_of s a v).
  Proof.
    intros a v. unfold del_of. rewrite p_dels. unfold k2_eqb.
    rewrite (move_all_get Z.eqb Zeqb_ok from to (to_del to) Hft _ (wf_dels s W) (no_to_keys2 to _ Vd)). reflexivity.
  Qed.

  Lemma m_ubd : forall a v, ubd_of s' a v = sel from to a (option_map (to_ubd to) (ubd_of s from v)) None (ubd_of s a v).
  Proof.
    intros a v. unfold ubd_of. rewrite p_ubds. unfold k2_eqb.
    rewrite (move_all_get Z.eqb Zeqb_ok from to (to_ubd to) Hft _ (wf_ubds s W) (no_to_keys2 to _ Vu)). reflexivity.
  Qed.

  Lemma m_red : forall a v w, red_of s' a v w = sel from to a (option_map (to_red to) (red_of s from v w)) None (red_of s a v w).
  Proof.
    intros a v w. unfold red_of. rewrite p_reds. unfold k3_eqb.
    rewrite (move_all_get k2_eqb k2_eqb_ok from to (to_red to) Hft _ (wf_reds s W) (no_to_keys3 to _ Vr)). reflexivity.
  Qed.

  Lemma start_none_without_del : forall a v, del_of s a v = None -> start_of s a v = None.
  Proof.
    intros a v H. unfold start_of. apply (notin_sget_none k2_eqb k2_eqb_ok). intros I.
    apply (wf_startdel s W) in I. apply (sget_none_notin k2_eqb k2_eqb_ok) in H. contradiction.
  Qed.

  Lemma m_start : forall a v, start_of s' a v = sel from to a (start_of s from v) None (start_of s a v).
  Proof.
    intros a v. unfold start_of at 1. rewrite p_start, (start_fold_get from to Hft).
    unfold Ld. rewrite (vals_of_from2 d_val from v (dels (stake s))).
    2:{ intros kv I. rewrite (wf_delk s W kv I). reflexivity. }
    fold (start_of s from v) (start_of s to v) (start_of s a v). unfold sel.
    assert (Tn : start_of s to v = None).
    { apply start_none_without_del. unfold del_of. apply existsb_from2_false. exact Vd. }
    rewrite shas_sget. fold (del_of s from v). destruct (del_of s from v) eqn:E.
    - destruct (a =? to); [|reflexivity]. rewrite Tn. destruct (start_of s from v); reflexivity.
    - destruct (Z.eqb_spec a to) as [->|N1].
      + rewrite Tn. symmetry. apply start_none_without_del. exact E.
      + destruct (Z.eqb_spec a from) as [->|N2]; [|reflexivity]. apply start_none_without_del. exact E.
  Qed.

  Lemma m_bal : forall a d, bal_of s' a d = sel from to a (bal_of s to d + bal_of s from d) 0 (bal_of s a d).
  Proof.
    intros a d. unfold bal_of at 1. rewrite p_bal. fold (bal_of (bank_move from to s) a d).
    rewrite bank_execute_char by (try exact Hft; apply (wf_bal s W)). reflexivity.
  Qed.

  Lemma m_i71 : forall a v, in71 s' a v =
    sel from to a (has_del s from v || in71 s to v) (negb (has_del s from v) && in71 s from v) (in71 s a v).
  Proof.
    intros a v. unfold in71 at 1. unfold s'. rewrite s1_closed.
    cbn [stake set_record set_mig set_stake stake_after idx71].
    rewrite idx71_fold_is. unfold k2_eqb. rewrite (idx_fold_has Z.eqb Zeqb_ok from to Hft).
    unfold Ld. fold k2_eqb. rewrite (vals_of_from2 d_val from v (dels (stake s))).
    2:{ intros kv I. rewrite (wf_delk s W kv I). reflexivity. }
    reflexivity.
  Qed.

  Lemma p_unbidx : unbidx (stake s') = fold_left wstep (unb_writes from to s) (unbidx (stake s)).
  Proof.
    unfold s'. rewrite s1_closed. cbn [stake set_record set_mig set_stake stake_after unbidx].
    rewrite unb_r_fold_is, unb_u_fold_is, <- fold_left_app. reflexivity.
  Qed.

  Lemma m_i33 : forall a v, in33 s' a v =
    sel from to a (has_ubd s from v || in33 s to v) (negb (has_ubd s from v) && in33 s from v) (in33 s a v).
  Proof.
    intros a v. unfold in33 at 1. unfold s'. rewrite s1_closed.
    cbn [stake set_record set_mig set_stake stake_after idx33].
    rewrite idx33_fold_is. unfold k2_eqb. rewrite (idx_fold_has Z.eqb Zeqb_ok from to Hft).
    unfold Lu. fold k2_eqb. rewrite (vals_of_from2 u_val from v (ubds (stake s))).
    2:{ intros kv I. rewrite (wf_ubdk s W kv I). reflexivity. }
    reflexivity.
  Qed.

  Lemma m_i35 : forall a v w, in35 s' a v w =
    sel from to a (has_red s from v w || in35 s to v w) (negb (has_red s from v w) && in35 s from v w) (in35 s a v w).
  Proof.
    intros a v w. unfold in35 at 1. unfold s'. rewrite s1_closed.
    cbn [stake set_record set_mig set_stake stake_after idx35].
    rewrite idx3x_fold_is. unfold k3_eqb. rewrite (idx_fold_has k2_eqb k2_eqb_ok from to Hft).
    unfold Lr. fold k3_eqb.
    assert (Q := vals_of_from3 (fun r => (r_src r, r_dst r)) from (v, w) (reds (stake s))). cbv beta in Q.
    rewrite Q; [reflexivity|]. intros kv I. rewrite (wf_redk s W kv I). reflexivity.
  Qed.

  Lemma m_i36 : forall a v w, in36 s' a v w =
    sel from to a (has_red s from v w || in36 s to v w) (negb (has_red s from v w) && in36 s from v w) (in36 s a v w).
  Proof.
    intros a v w. unfold in36 at 1. unfold s'. rewrite s1_closed.
    cbn [stake set_record set_mig set_stake stake_after idx36].
    rewrite idx3x_fold_is. unfold k3_eqb. rewrite (idx_fold_has k2_eqb k2_eqb_ok from to Hft).
    unfold Lr. fold k3_eqb.
    assert (Q := vals_of_from3 (fun r => (r_src r, r_dst r)) from (v, w) (reds (stake s))). cbv beta in Q.
    rewrite Q; [reflexivity|]. intros kv I. rewrite (wf_redk s W kv I). reflexivity.
  Qed.

  Lemma ren_pair_idem : forall p, ren_pair from to (ren_pair from to p) = ren_pair from to p.
  Proof. intros [a v]. unfold ren_pair. cbn. rewrite (ren_addr_idem from to Hft). reflexivity. Qed.
  Lemma ren_pair_noop : forall p : k2, (fst p =? from) = false -> ren_pair from to p = p.
  Proof. intros [a v] H. unfold ren_pair, ren_addr. cbn in *. rewrite H. reflexivity. Qed.
  Lemma ren_trip_idem : forall p, ren_trip from to (ren_trip from to p) = ren_trip from to p.
  Proof. intros [a v]. unfold ren_trip. cbn. rewrite (ren_addr_idem from to Hft). reflexivity. Qed.
  Lemma ren_trip_noop : forall p : k3, (fst p =? from) = false -> ren_trip from to p = p.
  Proof. intros [a v] H. unfold ren_trip, ren_addr. cbn in *. rewrite H. reflexivity. Qed.

  Lemma m_ubdq : forall t, ubd_slice s' t =
     if existsb (Z.eqb t) (ubd_times s from) then map (ren_pair from to) (ubd_slice s t) else ubd_slice s t.
  Proof.
    intros t. unfold ubd_slice at 1. unfold s'. rewrite s1_closed.
    cbn [stake set_record set_mig set_stake stake_after ubdq].
    rewrite ubdq_fold_is. rewrite (qget_entries _ _ ren_pair_idem ren_pair_noop). reflexivity.
  Qed.

  Lemma m_redq : forall t, red_slice s' t =
     if existsb (Z.eqb t) (red_times s from) then map (ren_trip from to) (red_slice s t) else red_slice s t.
  Proof.
    intros t. unfold red_slice at 1. unfold s'. rewrite s1_closed.
    cbn [stake set_record set_mig set_stake stake_after redq].
    rewrite redq_fold_is. rewrite (qget_entries _ _ ren_trip_idem ren_trip_noop). reflexivity.
  Qed.

  (* totals *)
  Lemma m_shares : forall v, val_shares s' v = val_shares s v.
  Proof.
    intros v. unfold val_shares. rewrite p_dels.
    apply (move_all_sum Z.eqb Zeqb_ok from to (to_del to) Hft); [apply (wf_dels s W) | apply no_to_keys2; exact Vd |].
    intros [[a r] x]. unfold ren_kv, isfrom. cbn [fst snd]. destruct (a =? from); reflexivity.
  Qed.

  Lemma m_unbonding : forall v, val_unbonding s' v = val_unbonding s v.
  Proof.
    intros v. unfold val_unbonding. rewrite p_ubds.
    apply (move_all_sum Z.eqb Zeqb_ok from to (to_ubd to) Hft); [apply (wf_ubds s W) | apply no_to_keys2; exact Vu |].
    intros [[a r] x]. unfold ren_kv, isfrom. cbn [fst snd]. destruct (a =? from); reflexivity.
  Qed.

  Lemma m_redelegating : forall v w, val_redelegating s' v w = val_redelegating s v w.
  Proof.
    intros v w. unfold val_redelegating. rewrite p_reds.
    apply (move_all_sum k2_eqb k2_eqb_ok from to (to_red to) Hft); [apply (wf_reds s W) | apply no_to_keys3; exact Vr |].
    intros [[a r] x]. unfold ren_kv, isfrom. cbn [fst snd]. destruct (a =? from); reflexivity.
  Qed.

  Lemma m_supply : forall d, supply s' d = supply s d.
  Proof.
    intros d. unfold supply at 1. rewrite p_bal. fold (supply (bank_move from to s) d).
    apply bank_execute_supply; [exact Hft | apply (wf_bal s W)].
  Qed.

  Lemma is_moved : moved from to s s'.
  Proof.
    constructor.
    - exact m_bal. - exact m_del. - exact m_start. - exact m_ubd. - exact m_red.
    - exact m_i71. - exact m_i33. - exact m_i35. - exact m_i36.
    - intros id k H. rewrite p_unbidx in H. apply wfold_inv in H. exact H.
    - intros id I. rewrite p_unbidx. apply wfold_has. exact I.
    - exact m_ubdq. - exact m_redq.
    - unfold s'. rewrite s1_closed. reflexivity.
    - unfold s'. rewrite s1_closed. reflexivity.
    - unfold s'. rewrite s1_closed. reflexivity.
    - unfold s'. rewrite s1_closed. reflexivity.
    - unfold s'. rewrite s1_closed. reflexivity.
    - unfold s'. rewrite s1_closed. split; reflexivity.
    - intros a. unfold s'. rewrite has_record_set_record. f_equal. rewrite s1_closed. reflexivity.
    - exact m_supply. - exact m_shares. - exact m_unbonding. - exact m_redelegating.
  Qed.
End Moved.

Theorem migrate_account_moved : forall s from to s',
  wf s -> from <> to -> migrate_account s from to = Ok s' -> moved from to s s'.
Proof.
  intros s from to s' W N H. apply migrate_account_inv in H.
  destruct H as (_ & _ & _ & V & _ & s1 & X & ->).
  apply is_moved; try assumption. apply wf_unpack. exact W.
Qed.
