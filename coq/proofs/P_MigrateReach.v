(* P_MigrateReach.v — the hypotheses of the C14 step theorems hold on every reachable state.
   `Inv` (M_MigrateHistory.v: wfP, qcoverP, ent_ok, balposP, idx36_ok, govI, acct_ok) holds for `init` and is kept by
   every operation of the history model `hstep`; hence for `snd (hrun (e, init) ops)` for every list of operations and
   every environment whose answers are non-negative amounts (`sane_env`). *)
From Coq Require Import ZArith List Bool Lia Permutation.
From FxV Require Import model.M_Migrate model.M_MigrateSpec model.M_MigrateFollow model.M_MigrateHistory
  proofs.P_MigrateBase proofs.P_MigrateAuth proofs.P_MigrateMove proofs.P_MigrateExec proofs.P_MigrateChar
  proofs.P_MigrateMoved proofs.P_MigrateIdx proofs.P_MigrateInv proofs.P_MigrateMature proofs.P_Migrate
  proofs.P_MigrateFollow proofs.P_MigrateFollowR proofs.P_MigrateReachGov proofs.P_MigrateReachEnd
  proofs.P_MigrateReachFollow.
Import ListNotations.
Open Scope Z_scope.

(* ---------- back from the propositions to the decidable forms the theorems are stated with ---------- *)
Lemma nodupb_complete {K} (eqb : K -> K -> bool) : eqb_ok eqb -> forall l, NoDup l -> nodupb eqb l = true.
Proof.
  intros Hk l N. induction N as [|x r Nx N IH]; [reflexivity|]. cbn. rewrite IH, andb_true_r. apply negb_true_iff.
  destruct (existsb (eqb x) r) eqn:E; [|reflexivity]. apply existsb_exists in E. destruct E as [y [Y E]].
  apply Hk in E. subst y. contradiction.
Qed.

Lemma wf_pack : forall s, wfP s -> wf s.
Proof.
  intros s [W1 W2 W3 W4 W5 W6 W7 W8 W9]. unfold wf, wfb. repeat rewrite andb_true_iff. repeat split.
  - apply (nodupb_complete k2_eqb k2_eqb_ok). exact W1.
  - apply (nodupb_complete k2_eqb k2_eqb_ok). exact W2.
  - apply (nodupb_complete k2_eqb k2_eqb_ok). exact W3.
  - apply (nodupb_complete k2_eqb k2_eqb_ok). exact W4.
  - apply (nodupb_complete k3_eqb k3_eqb_ok). exact W5.
  - apply forallb_forall. intros kv I. apply k2_eqb_ok. apply W6. exact I.
  - apply forallb_forall. intros kv I. apply k2_eqb_ok. apply W7. exact I.
  - apply forallb_forall. intros kv I. apply k3_eqb_ok. apply W8. exact I.
  - apply forallb_forall. intros kv I. apply (shas_true_iff k2_eqb k2_eqb_ok). apply W9. apply in_map. exact I.
Qed.

Lemma qcover_pack : forall s, qcoverP s -> qcoverb s = true.
Proof.
  intros s [Q1 Q2 Q3 Q4 Q5 Q6]. unfold qcoverb. repeat rewrite andb_true_iff. repeat split.
  - apply forallb_forall. intros kv I. apply andb_true_iff. split.
    + pose proof (Q3 kv I) as N. destruct (u_entries (snd kv)); [contradiction | reflexivity].
    + apply forallb_forall. intros e E. apply existsb_exists. exists (fst kv). split; [apply Q1; assumption | apply (eqb_refl' k2_eqb k2_eqb_ok)].
  - apply forallb_forall. intros kv I. apply andb_true_iff. split.
    + pose proof (Q4 kv I) as N. destruct (r_entries (snd kv)); [contradiction | reflexivity].
    + apply forallb_forall. intros e E. apply existsb_exists. exists (fst kv). split; [apply Q2; assumption | apply (eqb_refl' k3_eqb k3_eqb_ok)].
  - apply (nodupb_complete Z.eqb Zeqb_ok). exact Q5.
  - apply (nodupb_complete Z.eqb Zeqb_ok). exact Q6.
Qed.

(* ---------- an accepted migration ---------- *)
Section Migrate.
  Variable sigT : Type.
  Variable recover : Z -> Z -> sigT -> option Z.

  Lemma check_from_key : forall s a, check_from s a = Ok tt -> sget Z.eqb a (accts s) = Some 2.
  Proof.
    intros s a. unfold check_from. destruct (sget Z.eqb a (accts s)) as [k|]; [|discriminate].
    destruct (k =? 0); [discriminate|]. destruct (k =? 1); [discriminate|].
    destruct (Z.eqb_spec k 2) as [->|]; [reflexivity | discriminate].
  Qed.

  Theorem migrate_inv : forall s from to sg s', migrate_tx sigT recover s from to sg = Ok s' -> Inv s -> Inv s'.
  Proof.
    intros s from to sg s' H I. pose proof (wf_pack s (iv_wf s I)) as W.
    pose proof (moves_everything sigT recover s from to sg s' W H) as M.
    destruct (wf_preserved sigT recover s from to sg s' W H) as [W' Q'].
    destruct (indexes sigT recover s from to sg s' W H) as (_ & _ & _ & I36 & _).
    pose proof H as H0. apply migrate_tx_inv in H0. destruct H0 as (N & _ & H0).
    apply migrate_account_inv in H0. destruct H0 as (_ & _ & Cf & V & _ & s1 & X & E'). subst s'.
    apply check_from_key in Cf. destruct (iv_acct s I) as [Ap Ag].
    assert (Nfp : from <> pool_nb (cfg s)) by (intros ->; congruence).
    assert (Nfg : from <> gov_acc (cfg s)) by (intros ->; congruence).
    constructor.
    - exact W'.
    - apply Q', (iv_qc s I).
    - destruct (iv_ent s I) as [Eu Er]. split.
      + intros kv e Ik Ie. pose proof (perm_ubds from to s s1 N (iv_wf s I) V X) as P.
        apply (Permutation_in _ P) in Ik. apply in_ren_kv in Ik. destruct Ik as (kv0 & I0 & [[_ ->]|[_ ->]]).
        * cbn [snd to_ubd u_entries] in Ie. apply (Eu kv0 e I0 Ie).
        * apply (Eu kv0 e I0 Ie).
      + intros kv e Ik Ie. pose proof (perm_reds from to s s1 N (iv_wf s I) V X) as P.
        apply (Permutation_in _ P) in Ik. apply in_ren_kv in Ik. destruct Ik as (kv0 & I0 & [[_ ->]|[_ ->]]).
        * cbn [snd to_red r_entries] in Ie. apply (Er kv0 e I0 Ie).
        * apply (Er kv0 e I0 Ie).
    - intros a d Np Ng. rewrite (mv_cfg _ _ _ _ M) in Np, Ng. rewrite (mv_bal _ _ _ _ M). unfold sel.
      destruct (Z.eqb_spec a to) as [->|Nt].
      + pose proof (iv_bal s I to d Np Ng). pose proof (iv_bal s I from d Nfp Nfg). lia.
      + destruct (a =? from); [lia | apply (iv_bal s I); assumption].
    - apply I36, (iv_i36 s I).
    - rewrite (mv_gov _ _ _ _ M). apply (iv_gov s I).
    - unfold acct_ok. rewrite (mv_cfg _ _ _ _ M), (mv_accts _ _ _ _ M). exact (conj Ap Ag).
  Qed.
End Migrate.

(* ---------- the remaining operations ---------- *)
Lemma export_import_inv : forall h s, Inv s -> Inv (export_import h s).
Proof.
  intros h s I. unfold export_import. destruct Gen_C14.genesis_import_keeps_records;
    (apply (Inv_same s); [exact I | repeat split | reflexivity | reflexivity]).
Qed.

Lemma gov_periods_inv : forall d1 d2 s, Inv s -> Inv (set_gov_periods d1 d2 s).
Proof.
  intros d1 d2 s [W Q E B I36 G A]. constructor.
  - destruct W. constructor; assumption.
  - destruct Q. constructor; assumption.
  - exact E.
  - exact B.
  - exact I36.
  - exact G.
  - exact A.
Qed.

Lemma mint_inv : forall a d x s, 0 <= x -> Inv s -> Inv (credit a d x s).
Proof.
  intros a d x s Px I. destruct (credit_keeps a d x s) as (Es & Ek & Ec & _ & _ & Eg & _).
  destruct (ga_split _ _ (ga_credit a d x s)) as [_ Ea].
  apply (Inv_frame s); [exact I | repeat split; assumption | apply credit_bal_nodup, (wf_bal s (iv_wf s I)) | | rewrite Eg; apply (iv_gov s I)].
  intros b d' Np Ng. rewrite Ec in Np, Ng. rewrite bal_of_credit. pose proof (iv_bal s I b d' Np Ng). destruct (at2 b d' a d); lia.
Qed.

Lemma account_inv : forall a kind s, a <> pool_nb (cfg s) -> a <> gov_acc (cfg s) -> Inv s ->
  Inv (set_accts s (sset Z.eqb a kind (accts s))).
Proof.
  intros a kind s Np Ng [W Q E B I36 G [A1 A2]]. constructor.
  - destruct W. constructor; assumption.
  - destruct Q. constructor; assumption.
  - exact E.
  - exact B.
  - exact I36.
  - exact G.
  - split; cbn [cfg accts set_accts]; rewrite (sget_sset_other Z.eqb Zeqb_ok) by congruence; assumption.
Qed.

(* ---------- the initial state ---------- *)
Theorem init_inv : Inv init.
Proof.
  constructor.
  - apply wf_unpack. vm_compute. reflexivity.
  - apply qcover_unpack. vm_compute. reflexivity.
  - split; intros kv e [].
  - intros a d _ _. apply balpos_nonneg. vm_compute. reflexivity.
  - intros k. reflexivity.
  - constructor; cbn; try (intros; discriminate); try (intros; contradiction); constructor.
  - split; reflexivity.
Qed.

(* ---------- every operation, every history ---------- *)
Section Reach.
  Variable sigT : Type.
  Variable recover : Z -> Z -> sigT -> option Z.
  Variable env : Type.
  Variable ask : env -> query -> vans.
  Variable env_next : env -> query -> env.
  Hypothesis Sane : sane_env env ask.

  Theorem hstep_inv : forall es o, Inv (snd es) -> Inv (snd (hstep sigT recover env ask env_next es o)).
  Proof.
    intros [e s] o I. cbn [snd] in I. destruct o; cbn [hstep snd].
    - destruct (migrate_tx sigT recover s from to sg) as [s'| |] eqn:H; cbn [keep]; try exact I.
      apply (migrate_inv sigT recover s from to sg s' H I).
    - apply end_block_inv, I.
    - destruct (submit_proposal a amt exp vp mind s) as [s'| |] eqn:H; cbn [keep]; try exact I. apply (submit_inv _ _ _ _ _ _ _ H I).
    - destruct (add_deposit pid a amt s) as [s'| |] eqn:H; cbn [keep]; try exact I. apply (add_deposit_inv _ _ _ _ _ H I).
    - destruct (cast_vote a pid s) as [s'| |] eqn:H; cbn [keep]; try exact I. apply (cast_vote_inv _ _ _ _ H I).
    - apply export_import_inv, I.
    - destruct (fstep env ask env_next e s o) as [[e1 t]| |] eqn:H; cbn [fkeep snd]; try exact I.
      apply (fstep_inv env ask env_next Sane e s o e1 t I H).
    - apply slash_inv, I.
    - apply gov_periods_inv, I.
    - exact I.
    - destruct (Z.ltb_spec x 0); [exact I | apply mint_inv; assumption].
    - destruct (Z.eqb_spec a (pool_nb (cfg s))); cbn [orb]; [exact I|].
      destruct (Z.eqb_spec a (gov_acc (cfg s))); [exact I | apply account_inv; assumption].
  Qed.

  Theorem hrun_inv : forall ops es, Inv (snd es) -> Inv (snd (hrun sigT recover env ask env_next es ops)).
  Proof.
    induction ops as [|o ops IH]; intros es I; [exact I|]. cbn [hrun fold_left]. apply IH, hstep_inv, I.
  Qed.

  Theorem reach_inv : forall e ops, Inv (snd (hrun sigT recover env ask env_next (e, init) ops)).
  Proof. intros e ops. apply hrun_inv. exact init_inv. Qed.

  (* the hypotheses of the step theorems, in the form those theorems take them *)
  Theorem reach_hyps : forall e ops, let s := snd (hrun sigT recover env ask env_next (e, init) ops) in
    wf s /\ qcoverb s = true /\ idx36_ok s /\ govwfb s = true /\ queued_exist s /\
    (forall a d, a <> pool_nb (cfg s) -> a <> gov_acc (cfg s) -> 0 <= bal_of s a d).
  Proof.
    intros e ops s. pose proof (reach_inv e ops) as I. fold s in I.
    split; [apply wf_pack, (iv_wf s I)|]. split; [apply qcover_pack, (iv_qc s I)|]. split; [apply (iv_i36 s I)|].
    split; [apply govI_govwfb, (iv_gov s I)|]. split; [|apply (iv_bal s I)].
    destruct (iv_gov s I) as [_ _ G3 G4 _ _ _ _]. split; intros te pid X.
    - destruct (G3 _ _ X) as (p & Sp & _). congruence.
    - destruct (G4 _ _ X) as (p & Sp & _). congruence.
  Qed.
End Reach.
