(* P_MigrateReachEnd.v — the staking end blocker keeps the invariant `Inv` of M_MigrateHistory.v. *)
From Coq Require Import ZArith List Bool Lia.
From FxV Require Import model.M_Migrate model.M_MigrateSpec model.M_MigrateFollow model.M_MigrateHistory
  proofs.P_MigrateBase proofs.P_MigrateMove proofs.P_MigrateExec proofs.P_MigrateMature proofs.P_MigrateReachGov.
Import ListNotations.
Open Scope Z_scope.

(* ---------- redelegation records under CompleteRedelegation: the mirror of P_MigrateMature's unbonding lemmas ---------- *)
Definition immature_r (t : time) (r : red_rec) : option red_rec :=
  match filter (fun e => negb (red_mature t e)) (r_entries r) with
  | [] => None
  | rest => Some {| r_del := r_del r; r_src := r_src r; r_dst := r_dst r; r_entries := rest |}
  end.
Definition immature_r_opt (t : time) (o : option red_rec) : option red_rec :=
  match o with Some r => immature_r t r | None => None end.

Lemma immature_r_idem : forall t o, immature_r_opt t (immature_r_opt t o) = immature_r_opt t o.
Proof.
  intros t [r|]; [|reflexivity]. cbn. unfold immature_r.
  destruct (filter (fun e => negb (red_mature t e)) (r_entries r)) as [|e l] eqn:E; [reflexivity|].
  cbn [immature_r_opt]. unfold immature_r. cbn [r_entries r_del r_src r_dst]. rewrite <- E, filter_idem, E. reflexivity.
Qed.

Lemma in_sdel3 {V} : forall k (kv : k3 * V) m, In kv (sdel k3_eqb k m) -> In kv m.
Proof. intros k kv m I. rewrite (sdel_filter k3_eqb) in I. apply filter_In in I. tauto. Qed.

Lemma shas_sset3 {V} : forall k k0 (v : V) m, shas k3_eqb k (sset k3_eqb k0 v m) = if k3_eqb k k0 then true else shas k3_eqb k m.
Proof.
  intros. unfold shas. destruct (k3_eqb k k0) eqn:E.
  - apply k3_eqb_ok in E. subst. rewrite (sget_sset_same k3_eqb k3_eqb_ok). reflexivity.
  - rewrite (sget_sset_other k3_eqb k3_eqb_ok); [reflexivity|]. eapply eqb_false_neq; [apply k3_eqb_ok | exact E].
Qed.
Lemma shas_sdel3 {V} : forall k k0 (m : list (k3 * V)), shas k3_eqb k (sdel k3_eqb k0 m) = if k3_eqb k k0 then false else shas k3_eqb k m.
Proof.
  intros. unfold shas. destruct (k3_eqb k k0) eqn:E.
  - apply k3_eqb_ok in E. subst. rewrite (sget_sdel_same k3_eqb). reflexivity.
  - rewrite (sget_sdel_other k3_eqb k3_eqb_ok); [reflexivity|]. eapply eqb_false_neq; [apply k3_eqb_ok | exact E].
Qed.

Section Step.
  Variable t : time.

  (* ----- one CompleteUnbonding ----- *)
  Lemma cu_frame : forall s p,
    cfg (complete_unbonding t s p) = cfg s /\ accts (complete_unbonding t s p) = accts s /\
    start (complete_unbonding t s p) = start s /\ gov (complete_unbonding t s p) = gov s /\
    dels (stake (complete_unbonding t s p)) = dels (stake s) /\ reds (stake (complete_unbonding t s p)) = reds (stake s) /\
    idx36 (stake (complete_unbonding t s p)) = idx36 (stake s) /\ redq (stake (complete_unbonding t s p)) = redq (stake s) /\
    ubdq (stake (complete_unbonding t s p)) = ubdq (stake s) /\
    (NoDup (map fst (bal s)) -> NoDup (map fst (bal (complete_unbonding t s p)))).
  Proof.
    intros s p. unfold complete_unbonding. destruct (sget k2_eqb p (ubds (stake s))) as [u|]; [|repeat split; auto].
    set (x := sum_bal (filter (ubd_mature t) (u_entries u))).
    destruct (pay_keeps (pool_nb (cfg s)) (u_del u) (bond_denom (cfg s)) x s) as ((Ec & Ea & Es & Ek) & Eg).
    pose proof (pay_nodup (pool_nb (cfg s)) (u_del u) (bond_denom (cfg s)) x s) as Nb.
    destruct (filter (fun e => negb (ubd_mature t e)) (u_entries u));
      cbn [cfg accts start gov bal stake set_stake set_ubd set_unbidx dels reds idx36 redq ubdq]; repeat split; assumption.
  Qed.

  Lemma cu_wf : forall s p, wfP s -> wfP (complete_unbonding t s p).
  Proof.
    intros s p W. destruct (cu_frame s p) as (_ & _ & Es & _ & Ed & Er & _ & _ & _ & Nb).
    pose proof (cu_ubI t s p (wfP_ubI s W)) as [U1 U2].
    destruct W as [W1 W2 W3 W4 W5 W6 W7 W8 W9].
    constructor; rewrite ?Es, ?Ed, ?Er; auto.
  Qed.

  Lemma cu_fold_frame : forall ps s,
    cfg (fold_left (complete_unbonding t) ps s) = cfg s /\ accts (fold_left (complete_unbonding t) ps s) = accts s /\
    start (fold_left (complete_unbonding t) ps s) = start s /\ gov (fold_left (complete_unbonding t) ps s) = gov s /\
    dels (stake (fold_left (complete_unbonding t) ps s)) = dels (stake s) /\
    reds (stake (fold_left (complete_unbonding t) ps s)) = reds (stake s) /\
    idx36 (stake (fold_left (complete_unbonding t) ps s)) = idx36 (stake s) /\
    redq (stake (fold_left (complete_unbonding t) ps s)) = redq (stake s) /\
    ubdq (stake (fold_left (complete_unbonding t) ps s)) = ubdq (stake s).
  Proof.
    induction ps as [|p ps IH]; intros s; [repeat split|]. cbn [fold_left].
    destruct (IH (complete_unbonding t s p)) as (A1 & A2 & A3 & A4 & A5 & A6 & A7 & A8 & A9).
    destruct (cu_frame s p) as (B1 & B2 & B3 & B4 & B5 & B6 & B7 & B8 & B9 & _).
    repeat split; congruence.
  Qed.

  Lemma cu_fold_wf : forall ps s, wfP s -> wfP (fold_left (complete_unbonding t) ps s).
  Proof. induction ps as [|p ps IH]; intros s W; [exact W|]. cbn. apply IH, cu_wf, W. Qed.

  (* ----- one CompleteRedelegation ----- *)
  Lemma cr_frame : forall s p,
    cfg (complete_redelegation t s p) = cfg s /\ accts (complete_redelegation t s p) = accts s /\
    start (complete_redelegation t s p) = start s /\ gov (complete_redelegation t s p) = gov s /\
    bal (complete_redelegation t s p) = bal s /\
    dels (stake (complete_redelegation t s p)) = dels (stake s) /\ ubds (stake (complete_redelegation t s p)) = ubds (stake s) /\
    ubdq (stake (complete_redelegation t s p)) = ubdq (stake s) /\ redq (stake (complete_redelegation t s p)) = redq (stake s).
  Proof.
    intros s p. unfold complete_redelegation. destruct (sget k3_eqb p (reds (stake s))) as [r|]; [|repeat split].
    destruct (filter (fun e => negb (red_mature t e)) (r_entries r)); repeat split.
  Qed.

  Lemma cr_reds : forall s p, wfP s -> forall p',
    sget k3_eqb p' (reds (stake (complete_redelegation t s p))) =
      if k3_eqb p' p then immature_r_opt t (sget k3_eqb p (reds (stake s))) else sget k3_eqb p' (reds (stake s)).
  Proof.
    intros s p W p'. unfold complete_redelegation.
    destruct (sget k3_eqb p (reds (stake s))) as [r|] eqn:E.
    - assert (K : (r_del r, (r_src r, r_dst r)) = p).
      { apply (sget_in k3_eqb k3_eqb_ok) in E. pose proof (wf_redk s W _ E) as K. cbn in K. symmetry. exact K. }
      rewrite K. cbn [immature_r_opt]. unfold immature_r.
      destruct (filter (fun e => negb (red_mature t e)) (r_entries r)) as [|e l];
        cbn [stake set_stake set_red set_unbidx reds].
      + destruct (k3_eqb p' p) eqn:Ep.
        * apply k3_eqb_ok in Ep. subst. apply (sget_sdel_same k3_eqb).
        * apply (sget_sdel_other k3_eqb k3_eqb_ok). eapply eqb_false_neq; [apply k3_eqb_ok | exact Ep].
      + destruct (k3_eqb p' p) eqn:Ep.
        * apply k3_eqb_ok in Ep. subst. apply (sget_sset_same k3_eqb k3_eqb_ok).
        * apply (sget_sset_other k3_eqb k3_eqb_ok). eapply eqb_false_neq; [apply k3_eqb_ok | exact Ep].
    - destruct (k3_eqb p' p) eqn:Ep; [|reflexivity]. apply k3_eqb_ok in Ep. subst. exact E.
  Qed.

  Lemma cr_wf : forall s p, wfP s -> wfP (complete_redelegation t s p).
  Proof.
    intros s p W. destruct (cr_frame s p) as (_ & _ & Es & _ & Eb & Ed & Eu & _ & _).
    assert (R : NoDup (map fst (reds (stake (complete_redelegation t s p)))) /\
                forall kv, In kv (reds (stake (complete_redelegation t s p))) ->
                           fst kv = (r_del (snd kv), (r_src (snd kv), r_dst (snd kv)))).
    { unfold complete_redelegation. destruct (sget k3_eqb p (reds (stake s))) as [r|] eqn:E;
        [|split; [apply (wf_reds s W) | apply (wf_redk s W)]].
      destruct (filter (fun e => negb (red_mature t e)) (r_entries r)) as [|e l]; cbn [stake set_stake set_red set_unbidx reds]; split.
      - apply (sdel_nodup k3_eqb k3_eqb_ok), (wf_reds s W).
      - intros kv X. apply in_sdel3 in X. apply (wf_redk s W kv X).
      - apply (sset_nodup k3_eqb k3_eqb_ok), (wf_reds s W).
      - intros kv [X|X]; [subst kv; reflexivity|]. apply in_sdel3 in X. apply (wf_redk s W kv X). }
    destruct R as [R1 R2]. destruct W as [W1 W2 W3 W4 W5 W6 W7 W8 W9].
    constructor; rewrite ?Es, ?Eb, ?Ed, ?Eu; auto.
  Qed.

  Lemma cr_i36 : forall s p, wfP s -> idx36_ok s -> idx36_ok (complete_redelegation t s p).
  Proof.
    intros s p W I k. unfold complete_redelegation. destruct (sget k3_eqb p (reds (stake s))) as [r|]; [|apply I].
    destruct (filter (fun e => negb (red_mature t e)) (r_entries r)); cbn [stake set_stake set_red set_unbidx reds idx36].
    - rewrite !shas_sdel3. destruct (k3_eqb k _); [reflexivity | apply I].
    - rewrite !shas_sset3. destruct (k3_eqb k _); [reflexivity | apply I].
  Qed.

  Lemma cr_fold_frame : forall ps s,
    cfg (fold_left (complete_redelegation t) ps s) = cfg s /\ accts (fold_left (complete_redelegation t) ps s) = accts s /\
    start (fold_left (complete_redelegation t) ps s) = start s /\ gov (fold_left (complete_redelegation t) ps s) = gov s /\
    bal (fold_left (complete_redelegation t) ps s) = bal s /\
    dels (stake (fold_left (complete_redelegation t) ps s)) = dels (stake s) /\
    ubds (stake (fold_left (complete_redelegation t) ps s)) = ubds (stake s) /\
    ubdq (stake (fold_left (complete_redelegation t) ps s)) = ubdq (stake s) /\
    redq (stake (fold_left (complete_redelegation t) ps s)) = redq (stake s).
  Proof.
    induction ps as [|p ps IH]; intros s; [repeat split|]. cbn [fold_left].
    destruct (IH (complete_redelegation t s p)) as (A1 & A2 & A3 & A4 & A5 & A6 & A7 & A8 & A9).
    destruct (cr_frame s p) as (B1 & B2 & B3 & B4 & B5 & B6 & B7 & B8 & B9).
    repeat split; congruence.
  Qed.

  Lemma cr_fold_wf_i36 : forall ps s, wfP s -> idx36_ok s ->
    wfP (fold_left (complete_redelegation t) ps s) /\ idx36_ok (fold_left (complete_redelegation t) ps s).
  Proof.
    induction ps as [|p ps IH]; intros s W I; [split; assumption|]. cbn. apply IH; [apply cr_wf, W | apply cr_i36; assumption].
  Qed.

  Lemma cr_fold_reds : forall ps s, wfP s -> forall p',
    sget k3_eqb p' (reds (stake (fold_left (complete_redelegation t) ps s))) =
      if existsb (k3_eqb p') ps then immature_r_opt t (sget k3_eqb p' (reds (stake s))) else sget k3_eqb p' (reds (stake s)).
  Proof.
    induction ps as [|p ps IH]; intros s W p'; [reflexivity|].
    cbn [fold_left existsb]. rewrite IH by (apply cr_wf; exact W). rewrite cr_reds by exact W.
    destruct (k3_eqb p' p) eqn:Ep; cbn [orb].
    - apply k3_eqb_ok in Ep. subst p'. destruct (existsb (k3_eqb p) ps); [apply immature_r_idem | reflexivity].
    - reflexivity.
  Qed.
End Step.

(* ---------- queues ---------- *)
Lemma qget_undue {P} : forall (t t0 : time) (q : list (time * list P)), t < t0 -> qget t0 (undue t q) = qget t0 q.
Proof.
  intros t t0 q L. unfold qget, undue. induction q as [|[k l] q IH]; [reflexivity|]. cbn [filter fst].
  destruct (Z.leb_spec k t); cbn [negb sget].
  - replace (t0 =? k) with false by (symmetry; apply Z.eqb_neq; lia). exact IH.
  - destruct (t0 =? k); [reflexivity | exact IH].
Qed.

Lemma undue_nodup {P} : forall (t : time) (q : list (time * list P)), NoDup (map fst q) -> NoDup (map fst (undue t q)).
Proof. intros. unfold undue. apply filter_nodup_keys. assumption. Qed.

Lemma sum_bal_nonneg : forall l, (forall e, In e l -> 0 <= ue_bal e) -> 0 <= sum_bal l.
Proof.
  induction l as [|e l IH]; intros H; cbn; [lia|]. pose proof (H e (or_introl eq_refl)).
  assert (0 <= sum_bal l) by (apply IH; intros; apply H; right; assumption). unfold sum_bal in *. lia.
Qed.

Lemma sumZ_nonneg {A} (f : A -> Z) : forall l, (forall x, In x l -> 0 <= f x) -> 0 <= sumZ f l.
Proof.
  induction l as [|x l IH]; intros H; [cbn; lia|]. rewrite sumZ_cons. pose proof (H x (or_introl eq_refl)).
  assert (0 <= sumZ f l) by (apply IH; intros; apply H; right; assumption). lia.
Qed.

(* ---------- the staking end blocker ---------- *)
Section EndBlock.
  Variables (t : time) (s : state).
  Hypothesis I : Inv s.

  Let W : wfP s := iv_wf s I.
  Let Q : qcoverP s := iv_qc s I.

  Let s1 := set_stake s (set_ubd (stake s) (ubds (stake s)) (idx33 (stake s)) (undue t (ubdq (stake s)))).
  Let s2 := fold_left (complete_unbonding t) (due t (ubdq (stake s))) s1.
  Let s3 := set_stake s2 (set_red (stake s2) (reds (stake s2)) (idx35 (stake s2)) (idx36 (stake s2)) (undue t (redq (stake s2)))).

  Lemma seb_unfold : staking_endblock t s = fold_left (complete_redelegation t) (due t (redq (stake s2))) s3.
  Proof. reflexivity. Qed.

  Let W1 : wfP s1.
  Proof. apply (wfP_same s); [exact W | reflexivity..]. Qed.
  Let W2 : wfP s2.
  Proof. apply cu_fold_wf. exact W1. Qed.
  Let W3 : wfP s3.
  Proof. apply (wfP_same s2); [exact W2 | reflexivity..]. Qed.

  Let F2 := cu_fold_frame t (due t (ubdq (stake s))) s1.
  Let F4 := cr_fold_frame t (due t (redq (stake s2))) s3.

  Lemma seb_redq2 : redq (stake s2) = redq (stake s).
  Proof. destruct F2 as (_ & _ & _ & _ & _ & _ & _ & E & _). exact E. Qed.
  Lemma seb_reds2 : reds (stake s2) = reds (stake s).
  Proof. destruct F2 as (_ & _ & _ & _ & _ & E & _). exact E. Qed.

  Lemma seb_frame : cfg (staking_endblock t s) = cfg s /\ accts (staking_endblock t s) = accts s /\
    start (staking_endblock t s) = start s /\ gov (staking_endblock t s) = gov s /\
    dels (stake (staking_endblock t s)) = dels (stake s) /\
    ubdq (stake (staking_endblock t s)) = undue t (ubdq (stake s)) /\
    redq (stake (staking_endblock t s)) = undue t (redq (stake s)).
  Proof.
    rewrite seb_unfold. destruct F4 as (A1 & A2 & A3 & A4 & _ & A6 & _ & A8 & A9).
    destruct F2 as (B1 & B2 & B3 & B4 & B5 & _ & _ & B8 & B9). fold s2 in B1, B2, B3, B4, B5, B8, B9.
    rewrite A1, A2, A3, A4, A6, A8, A9. cbn [s3 cfg accts start gov stake set_stake set_red dels ubdq redq].
    rewrite B1, B2, B3, B4, B5, B8, B9. repeat split.
  Qed.

  Lemma seb_wf_i36 : wfP (staking_endblock t s) /\ idx36_ok (staking_endblock t s).
  Proof.
    rewrite seb_unfold. apply cr_fold_wf_i36; [exact W3|].
    intros k. cbn [s3 stake set_stake set_red reds idx36].
    destruct F2 as (_ & _ & _ & _ & _ & Er & Ei & _). fold s2 in Er, Ei. rewrite Er, Ei. apply (iv_i36 s I).
  Qed.

  Lemma uncovered_immature_r : forall p, existsb (k3_eqb p) (due t (redq (stake s))) = false ->
    immature_r_opt t (sget k3_eqb p (reds (stake s))) = sget k3_eqb p (reds (stake s)).
  Proof.
    intros p N. destruct (sget k3_eqb p (reds (stake s))) as [r|] eqn:E; [|reflexivity].
    apply (sget_in k3_eqb k3_eqb_ok) in E. cbn [immature_r_opt]. unfold immature_r.
    assert (F : filter (fun e => negb (red_mature t e)) (r_entries r) = r_entries r).
    { apply filter_true_id. intros e Ie. apply negb_true_iff. destruct (red_mature t e) eqn:Mt; [|reflexivity].
      exfalso. unfold red_mature in Mt. apply andb_true_iff in Mt. destruct Mt as [Mt _]. apply Z.leb_le in Mt.
      pose proof (qc_red s Q (p, r) e E Ie) as C. cbn [fst snd] in C.
      assert (In p (due t (redq (stake s)))) by (eapply in_due; eauto).
      assert (existsb (k3_eqb p) (due t (redq (stake s))) = true); [|congruence].
      apply existsb_exists. exists p. split; [assumption | apply (eqb_refl' k3_eqb k3_eqb_ok)]. }
    rewrite F. pose proof (qc_red_ne s Q (p, r) E) as NE. cbn in NE.
    destruct r as [d v w es]. cbn in *. destruct es; [contradiction | reflexivity].
  Qed.

  Theorem endblock_red : forall a v w, red_of (staking_endblock t s) a v w = immature_r_opt t (red_of s a v w).
  Proof.
    intros a v w. unfold red_of. rewrite seb_unfold. rewrite (cr_fold_reds t _ s3 W3).
    cbn [s3 stake set_stake set_red reds]. rewrite seb_redq2, seb_reds2.
    destruct (existsb (k3_eqb (a, (v, w))) (due t (redq (stake s)))) eqn:E; [reflexivity|].
    symmetry. apply uncovered_immature_r. exact E.
  Qed.

  Theorem staking_endblock_inv : Inv (staking_endblock t s).
  Proof.
    destruct seb_frame as (Ec & Ea & Es & Eg & Ed & Euq & Erq). destruct seb_wf_i36 as [W' I36'].
    destruct (iv_ent s I) as [EntU EntR].
    (* what a record that is still there looks like *)
    assert (KeepU : forall kv, In kv (ubds (stake (staking_endblock t s))) ->
              exists u, In (fst kv, u) (ubds (stake s)) /\ u_entries (snd kv) <> [] /\
                        forall e, In e (u_entries (snd kv)) -> In e (u_entries u) /\ t < ue_time e).
    { intros [[a v] u'] X. pose proof (in_sget_nodup k2_eqb k2_eqb_ok _ _ _ (wf_ubds _ W') X) as G.
      pose proof (endblock_ubd t s W Q a v) as EB. unfold ubd_of in EB. rewrite G in EB.
      destruct (sget k2_eqb (a, v) (ubds (stake s))) as [u|] eqn:Gu; [|discriminate]. cbn [immature_opt] in EB.
      unfold immature in EB. destruct (filter (fun e => negb (ubd_mature t e)) (u_entries u)) as [|e0 r] eqn:R; [discriminate|].
      inversion EB. subst u'. cbn [fst snd u_entries]. apply (sget_in k2_eqb k2_eqb_ok) in Gu.
      exists u. split; [exact Gu|]. split; [discriminate|]. intros e Ie. rewrite <- R in Ie. apply filter_In in Ie.
      destruct Ie as [Ie Im]. split; [exact Ie|]. destruct (EntU _ e Gu Ie) as [Hh _].
      apply negb_true_iff in Im. unfold ubd_mature in Im. apply andb_false_iff in Im. destruct Im as [Im|Im].
      - apply Z.leb_gt in Im. exact Im.
      - apply Z.leb_gt in Im. lia. }
    assert (KeepR : forall kv, In kv (reds (stake (staking_endblock t s))) ->
              exists r, In (fst kv, r) (reds (stake s)) /\ r_entries (snd kv) <> [] /\
                        forall e, In e (r_entries (snd kv)) -> In e (r_entries r) /\ t < re_time e).
    { intros [[a [v w]] r'] X. pose proof (in_sget_nodup k3_eqb k3_eqb_ok _ _ _ (wf_reds _ W') X) as G.
      pose proof (endblock_red a v w) as EB. unfold red_of in EB. rewrite G in EB.
      destruct (sget k3_eqb (a, (v, w)) (reds (stake s))) as [r|] eqn:Gr; [|discriminate]. cbn [immature_r_opt] in EB.
      unfold immature_r in EB. destruct (filter (fun e => negb (red_mature t e)) (r_entries r)) as [|e0 l] eqn:R; [discriminate|].
      inversion EB. subst r'. cbn [fst snd r_entries]. apply (sget_in k3_eqb k3_eqb_ok) in Gr.
      exists r. split; [exact Gr|]. split; [discriminate|]. intros e Ie. rewrite <- R in Ie. apply filter_In in Ie.
      destruct Ie as [Ie Im]. split; [exact Ie|]. pose proof (EntR _ e Gr Ie) as Hh.
      apply negb_true_iff in Im. unfold red_mature in Im. apply andb_false_iff in Im. destruct Im as [Im|Im].
      - apply Z.leb_gt in Im. exact Im.
      - apply Z.leb_gt in Im. lia. }
    constructor.
    - exact W'.
    - constructor.
      + intros kv e Ik Ie. destruct (KeepU kv Ik) as (u & Iu & _ & He). destruct (He e Ie) as [Ie0 Lt].
        unfold ubd_slice. rewrite Euq, qget_undue by exact Lt. apply (qc_ubd s Q (fst kv, u) e Iu Ie0).
      + intros kv e Ik Ie. destruct (KeepR kv Ik) as (r & Ir & _ & He). destruct (He e Ie) as [Ie0 Lt].
        unfold red_slice. rewrite Erq, qget_undue by exact Lt. apply (qc_red s Q (fst kv, r) e Ir Ie0).
      + intros kv Ik. destruct (KeepU kv Ik) as (_ & _ & Ne & _). exact Ne.
      + intros kv Ik. destruct (KeepR kv Ik) as (_ & _ & Ne & _). exact Ne.
      + rewrite Euq. apply undue_nodup, (qc_ubdq s Q).
      + rewrite Erq. apply undue_nodup, (qc_redq s Q).
    - split.
      + intros kv e Ik Ie. destruct (KeepU kv Ik) as (u & Iu & _ & He). destruct (He e Ie) as [Ie0 _]. apply (EntU _ e Iu Ie0).
      + intros kv e Ik Ie. destruct (KeepR kv Ik) as (r & Ir & _ & He). destruct (He e Ie) as [Ie0 _]. apply (EntR _ e Ir Ie0).
    - intros a d Np Ng. rewrite Ec in Np, Ng. rewrite (endblock_bal t s W Q a d Np).
      pose proof (iv_bal s I a d Np Ng). destruct (d =? bond_denom (cfg s)); [|lia].
      assert (0 <= payout t s a); [|lia]. unfold payout. apply sumZ_nonneg. intros kv Ik. unfold w_pay.
      destruct (fst (fst kv) =? a); [|lia]. apply sum_bal_nonneg. intros e Ie. apply filter_In in Ie.
      destruct (EntU kv e Ik (proj1 Ie)) as [_ Hb]. exact Hb.
    - exact I36'.
    - rewrite Eg. apply (iv_gov s I).
    - unfold acct_ok. rewrite Ec, Ea. apply (iv_acct s I).
  Qed.
End EndBlock.

(* ---------- the whole end of a block ---------- *)
Lemma Inv_clock : forall s t h, Inv s -> Inv (set_clock s t h).
Proof. intros s t h I. apply (Inv_same s); [exact I | repeat split | reflexivity | reflexivity]. Qed.

(* the validator part: the unbonding-id index and the not-bonded pool's balance, neither of which `Inv` speaks about *)
Lemma valset_inv : forall vs s, Inv s -> Inv (valset_update vs s).
Proof.
  intros vs s I. unfold valset_update.
  set (k' := set_unbidx (stake s) _). set (s1 := set_stake s k').
  assert (I1 : Inv s1).
  { destruct I as [W Q E B I36 G A]. constructor.
    - destruct W. constructor; assumption.
    - destruct Q. constructor; assumption.
    - exact E.
    - exact B.
    - exact I36.
    - exact G.
    - exact A. }
  destruct (v_pool vs =? 0); [exact I1|].
  apply (Inv_frame s1); [exact I1 | repeat split | cbn [bal set_bal]; apply put_bal_nodup, (wf_bal s1 (iv_wf s1 I1)) | | apply (iv_gov s1 I1)].
  intros a d Np Ng. cbn [cfg set_bal] in Np, Ng. rewrite bal_of_get. cbn [bal set_bal].
  rewrite get_bal_put_other by (intros X; inversion X; contradiction). apply (iv_bal s1 I1 a d Np Ng).
Qed.

Theorem end_block_inv : forall t next burns converts vs s, Inv s -> Inv (end_block t next burns converts vs s).
Proof.
  intros t next burns converts vs s I. unfold end_block. apply Inv_clock. apply staking_endblock_inv. apply valset_inv.
  apply gov_endblock_inv. apply Inv_clock. exact I.
Qed.
