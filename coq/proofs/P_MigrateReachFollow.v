(* P_MigrateReachFollow.v — delegate, undelegate, withdraw, redelegate and the validator slash keep the invariant
   `Inv` of M_MigrateHistory.v, for every environment whose answers are non-negative amounts. *)
From Coq Require Import ZArith List Bool Lia.
From FxV Require Import model.M_Migrate model.M_MigrateSpec model.M_MigrateFollow model.M_MigrateHistory
  proofs.P_MigrateBase proofs.P_MigrateExec proofs.P_MigrateMature proofs.P_MigrateFollow proofs.P_MigrateFollowR
  proofs.P_MigrateReachGov.
Import ListNotations.
Open Scope Z_scope.

(* ---------- the gov store and the account objects are not touched ---------- *)
Definition ga (s : state) : govst * list (Z * Z) := (gov s, accts s).

Lemma ga_credit : forall c d x s, ga (credit c d x s) = ga s.
Proof. intros. unfold credit. destruct (x =? 0); reflexivity. Qed.
Lemma ga_sds : forall s dl ix st, ga (set_dels_start s dl ix st) = ga s.
Proof. reflexivity. Qed.
Lemma ga_split : forall s t, ga t = ga s -> gov t = gov s /\ accts t = accts s.
Proof. intros s t H. unfold ga in H. inversion H. split; reflexivity. Qed.

Lemma unbond_ga : forall s a v rest ans, ga (unbond_at s a v rest ans) = ga s.
Proof. intros. unfold unbond_at. destruct (rest =? 0); rewrite ga_sds; apply ga_credit. Qed.
Lemma deleg_ga : forall s a w ans, ga (delegate_at s a w ans) = ga s.
Proof. intros. unfold delegate_at. rewrite ga_sds. destruct (sget k2_eqb (a, w) (dels (stake s))); [apply ga_credit | reflexivity]. Qed.
Lemma red_entry_ga : forall s a v w en, ga (red_entry_at s a v w en) = ga s.
Proof. reflexivity. Qed.
Lemma slash_ga : forall s v ih fr, ga (slash_ubds s v ih fr) = ga s.
Proof. intros. unfold slash_ubds. rewrite ga_credit. reflexivity. Qed.

(* ---------- one point update of the delegator-keyed records ---------- *)
Lemma at2_pool_false : forall b d p bd, b <> p -> at2 b d p bd = false.
Proof. intros. unfold at2. replace (b =? p) with false by (symmetry; apply Z.eqb_neq; assumption). reflexivity. Qed.

Lemma stage_inv : forall s a v f t, Inv s -> applied s a v f t -> fshape s a v t -> red_same s t -> ga t = ga s ->
  (forall u e, e_ubd f = Some u -> In e (u_entries u) -> ue_hold e <= 0 /\ 0 <= ue_bal e) ->
  (a <> pool_nb (cfg s) -> a <> gov_acc (cfg s) -> 0 <= bal_of s a (bond_denom (cfg s)) + e_da f) ->
  Inv t.
Proof.
  intros s a v f t I (Ad & Ast & Au & Ab & Aq & Ac & An & Ah) Sh (Rr & Rq & Ri) G Hu Hb.
  apply ga_split in G. destruct G as [Gg Ga]. destruct (iv_ent s I) as [EntU EntR].
  pose proof (fshape_wf s a v t Sh (iv_wf s I)) as W'.
  constructor.
  - exact W'.
  - apply (fshape_qc s a v t Sh (iv_wf s I) (iv_qc s I)).
  - split.
    + intros [[b w] u'] e Ik Ie. cbn [snd] in Ie.
      pose proof (in_sget_nodup k2_eqb k2_eqb_ok _ _ _ (wf_ubds t W') Ik) as Gk. fold (ubd_of t b w) in Gk. rewrite Au in Gk.
      destruct (at2 b w a v).
      * apply (Hu u' e Gk Ie).
      * unfold ubd_of in Gk. apply (sget_in k2_eqb k2_eqb_ok) in Gk. apply (EntU _ e Gk Ie).
    + rewrite Rr. exact EntR.
  - intros b d Np Ng. rewrite Ac in Np, Ng. rewrite Ab. rewrite (at2_pool_false b d _ _ Np), Z.add_0_r.
    pose proof (iv_bal s I b d Np Ng). destruct (at2 b d a (bond_denom (cfg s))) eqn:E; [|lia].
    apply at2_true in E. inversion E. subst b d. apply Hb; assumption.
  - intros k. rewrite Rr, Ri. apply (iv_i36 s I).
  - rewrite Gg. apply (iv_gov s I).
  - unfold acct_ok. rewrite Ac, Ga. apply (iv_acct s I).
Qed.

Lemma add_entry_ok : forall h t x id es e, 0 <= x -> (forall e0, In e0 es -> ue_hold e0 <= 0 /\ 0 <= ue_bal e0) ->
  In e (fst (add_entry h t x id es)) -> ue_hold e <= 0 /\ 0 <= ue_bal e.
Proof.
  intros h t x id es e Px. induction es as [|e1 r IH]; intros Old Ie.
  - cbn in Ie. destruct Ie as [<-|[]]. cbn. lia.
  - cbn [add_entry] in Ie. destruct ((ue_height e1 =? h) && (ue_time e1 =? t)).
    + cbn [fst] in Ie. destruct Ie as [<-|Ie].
      * destruct (Old e1 (or_introl eq_refl)). cbn. lia.
      * apply Old. right. exact Ie.
    + destruct (add_entry h t x id r) as [r' n] eqn:A. cbn [fst] in *. destruct Ie as [<-|Ie].
      * apply Old. left. reflexivity.
      * apply IH; [intros e0 I0; apply Old; right; exact I0 | exact Ie].
Qed.

Lemma old_entries_ok : forall s a v u e, Inv s -> ubd_of s a v = Some u -> In e (u_entries u) -> ue_hold e <= 0 /\ 0 <= ue_bal e.
Proof.
  intros s a v u e I G Ie. unfold ubd_of in G. apply (sget_in k2_eqb k2_eqb_ok) in G.
  apply (proj1 (iv_ent s I) _ e G Ie).
Qed.

(* ---------- the redelegation entry ---------- *)
Lemma red_entry_inv : forall s a v w en, Inv s -> re_hold en <= 0 -> Inv (red_entry_at s a v w en).
Proof.
  intros s a v w en I Hh. pose proof (iv_wf s I) as W.
  destruct (red_entry_facts s a v w en W) as ((Eb & Est & Ed & Eu & Euq & Ec & En & Eh) & Fr & Fi & Fq & Er & Eq).
  destruct (iv_ent s I) as [EntU EntR].
  constructor.
  - apply red_entry_wf, W.
  - apply red_entry_qc; [exact W | apply (iv_qc s I)].
  - split.
    + rewrite Eu. exact EntU.
    + intros kv e Ik Ie. rewrite Er in Ik. apply in_sset_k3 in Ik. destruct Ik as [->|Ik]; [|apply (EntR kv e Ik Ie)].
      cbn [snd new_red r_entries] in Ie. apply in_app_or in Ie. destruct Ie as [Ie|[<-|[]]]; [|exact Hh].
      destruct (red_of s a v w) as [x|] eqn:G; [|destruct Ie]. unfold red_of in G. apply (sget_in k3_eqb k3_eqb_ok) in G.
      apply (EntR _ e G Ie).
  - intros b d Np Ng. rewrite Ec in Np, Ng. unfold bal_of. rewrite Eb. apply (iv_bal s I b d Np Ng).
  - intros [b [x y]]. pose proof (iv_i36 s I (b, (x, y))) as Old. unfold shas in *.
    fold (i36_of (red_entry_at s a v w en) b x y) (red_of (red_entry_at s a v w en) b x y).
    fold (i36_of s b x y) (red_of s b x y) in Old. rewrite Fi, Fr. destruct (at3 b x y a v w); [reflexivity | exact Old].
  - apply (iv_gov s I).
  - unfold acct_ok. rewrite Ec. apply (iv_acct s I).
Qed.

(* ---------- the validator slash ---------- *)
Lemma slash_inv : forall s v ih fr, Inv s -> Inv (slash_ubds s v ih fr).
Proof.
  intros s v ih fr I. destruct (slash_facts s v ih fr) as (Eu & Bf & Bn & Est & Ed & Euq & (Er & Erq & Ei) & Ec & _).
  destruct (slash_wf_qc s v ih fr (iv_wf s I) (iv_qc s I)) as [W' Q'].
  destruct (ga_split _ _ (slash_ga s v ih fr)) as [Gg Ga]. destruct (iv_ent s I) as [EntU EntR].
  constructor.
  - exact W'.
  - exact Q'.
  - split.
    + intros kv e Ik Ie. rewrite Eu in Ik. apply in_map_iff in Ik. destruct Ik as [[k0 u0] [<- I0]].
      cbn [fst snd] in Ie. unfold slash_phi in Ie. cbn [snd] in Ie. destruct (snd k0 =? v); [|apply (EntU _ e I0 Ie)].
      cbn [slash_rec u_entries] in Ie. apply in_map_iff in Ie. destruct Ie as [e0 [<- Ie0]].
      destruct (EntU _ e0 I0 Ie0) as [Hh Hb]. unfold slash_entry.
      destruct ((ue_height e0 <? ih) || ((ue_time e0 <=? now s) && (ue_hold e0 <=? 0))); cbn; [split; assumption|]. split; [exact Hh | lia].
    + rewrite Er. exact EntR.
  - intros b d Np Ng. rewrite Ec in Np, Ng. rewrite Bf, (at2_pool_false b d _ _ Np). pose proof (iv_bal s I b d Np Ng). lia.
  - intros k. rewrite Er, Ei. apply (iv_i36 s I).
  - rewrite Gg. apply (iv_gov s I).
  - unfold acct_ok. rewrite Ec, Ga. apply (iv_acct s I).
Qed.

(* ---------- the four follow-up transactions ---------- *)
Section Follow.
  Variable env : Type.
  Variable ask : env -> query -> vans.
  Variable env_next : env -> query -> env.
  Hypothesis Sane : sane_env env ask.

  Lemma withdraw_ga : forall e s a v e1 t, f_withdraw env ask env_next e s a v = Ok (e1, t) -> ga t = ga s.
  Proof.
    intros e s a v e1 t. unfold f_withdraw. destruct (sget k2_eqb (a, v) (dels (stake s))); [|discriminate].
    intros H. inversion H. subst. change (ga (set_start ?x ?y)) with (ga x). apply ga_credit.
  Qed.

  Lemma delegate_ga_funds : forall e s a v amt e1 t, f_delegate env ask env_next e s a v amt = Ok (e1, t) ->
    ga t = ga s /\
    amt <= bal_of s a (bond_denom (cfg s)) + (match del_of s a v with Some _ => a_reward (ask e (mkq 1 s a v amt)) | None => 0 end).
  Proof.
    intros e s a v amt e1 t. unfold f_delegate. fold (del_of s a v). set (ans := ask e (mkq 1 s a v amt)). set (d := bond_denom (cfg s)).
    set (s1 := match del_of s a v with Some _ => credit a d (a_reward ans) s | None => s end).
    destruct (bal_of s1 a d <? amt) eqn:Fu; [discriminate|]. apply Z.ltb_ge in Fu. intros H. inversion H. subst e1 t. clear H. split.
    - rewrite ga_sds. destruct (a_bonded ans); rewrite ?ga_credit; unfold s1; destruct (del_of s a v); rewrite ?ga_credit; reflexivity.
    - unfold s1 in Fu. destruct (del_of s a v); [|lia]. rewrite bal_of_credit in Fu.
      replace (at2 a d a d) with true in Fu by (symmetry; apply at2_true; reflexivity). lia.
  Qed.

  Lemma undelegate_ga : forall e s a v sh e1 t, f_undelegate env ask env_next e s a v sh = Ok (e1, t) -> ga t = ga s.
  Proof.
    intros e s a v sh e1 t. unfold f_undelegate.
    destruct (sget k2_eqb (a, v) (dels (stake s))) as [r|]; [|discriminate]. destruct (d_shares r <? sh); [discriminate|].
    set (ans := ask e (mkq 2 s a v sh)).
    match goal with |- (if ?c then _ else _) = _ -> _ => destruct c; [discriminate|] end.
    match goal with |- context [add_entry ?h ?tm ?x ?id ?es] => destruct (add_entry h tm x id es) as [es' isnew] end.
    intros H. inversion H. subst e1 t. clear H.
    change (ga (set_stake ?x ?y)) with (ga x).
    destruct (d_shares r - sh =? 0); rewrite ga_sds; destruct (a_bonded ans); rewrite ?ga_credit; reflexivity.
  Qed.

  Theorem fstep_inv : forall e s o e1 t, Inv s -> fstep env ask env_next e s o = Ok (e1, t) -> Inv t.
  Proof.
    intros e s o e1 t I H. pose proof (iv_wf s I) as W.
    destruct o as [a v amt | a v sh | a v | a v w sh].
    - pose proof (fstep_red_same env ask env_next e s (FDelegate a v amt) e1 t W eq_refl H) as R. cbn [fstep] in H.
      destruct (delegate_applied env ask env_next _ _ _ _ _ _ _ H) as [_ Ap].
      destruct (delegate_ga_funds _ _ _ _ _ _ _ H) as [G Fu].
      apply (stage_inv s a v _ t I Ap (delegate_shape env ask env_next _ _ _ _ _ _ _ H) R G).
      + cbn [eff_of e_ubd]. intros u e0 Eu Ie. apply (old_entries_ok s a v u e0 I Eu Ie).
      + intros _ _. cbn [eff_of e_da]. lia.
    - pose proof (fstep_red_same env ask env_next e s (FUndelegate a v sh) e1 t W eq_refl H) as R. cbn [fstep] in H.
      destruct (undelegate_applied env ask env_next _ _ _ _ _ _ _ W H) as [_ Ap].
      apply (stage_inv s a v _ t I Ap (undelegate_shape env ask env_next _ _ _ _ _ _ _ W H) R (undelegate_ga _ _ _ _ _ _ _ H)).
      + cbn [eff_of e_ubd]. intros u e0 Eu Ie. inversion Eu. subst u. cbn [u_entries] in Ie.
        eapply add_entry_ok; [apply Sane | | exact Ie].
        intros e2 I2. destruct (ubd_of s a v) as [u0|] eqn:G0; [|destruct I2]. apply (old_entries_ok s a v u0 e2 I G0 I2).
      + intros Np Ng. cbn [eff_of e_da]. pose proof (iv_bal s I a (bond_denom (cfg s)) Np Ng).
        pose proof (proj1 (Sane e (mkq 2 s a v sh))). lia.
    - pose proof (fstep_red_same env ask env_next e s (FWithdraw a v) e1 t W eq_refl H) as R. cbn [fstep] in H.
      destruct (withdraw_applied env ask env_next _ _ _ _ _ _ H) as [_ Ap].
      apply (stage_inv s a v _ t I Ap (withdraw_shape env ask env_next _ _ _ _ _ _ H) R (withdraw_ga _ _ _ _ _ _ H)).
      + cbn [eff_of e_ubd]. intros u e0 Eu Ie. apply (old_entries_ok s a v u e0 I Eu Ie).
      + intros Np Ng. cbn [eff_of e_da]. pose proof (iv_bal s I a (bond_denom (cfg s)) Np Ng).
        pose proof (proj1 (Sane e (mkq 3 s a v 0))). lia.
    - cbn [fstep] in H. unfold f_redelegate in H. destruct (v =? w); [discriminate|]. destruct (receiving s a v); [discriminate|].
      destruct (sget k2_eqb (a, v) (dels (stake s))) as [r|]; [|discriminate]. destruct (d_shares r <? sh); [discriminate|].
      match type of H with (if ?c then _ else _) = _ => destruct c; [discriminate|] end.
      inversion H. subst e1 t. clear H.
      set (ans1 := ask e (mkq 4 s a v sh)). set (rest := d_shares r - sh).
      set (sA := unbond_at s a v rest ans1).
      destruct (unbond_facts s a v rest ans1) as (ApA & ShA & RA).
      assert (IA : Inv sA).
      { apply (stage_inv s a v _ sA I ApA ShA RA (unbond_ga s a v rest ans1)).
        - cbn [eff_unbond e_ubd]. intros u e0 Eu Ie. apply (old_entries_ok s a v u e0 I Eu Ie).
        - intros Np Ng. cbn [eff_unbond e_da]. pose proof (iv_bal s I a (bond_denom (cfg s)) Np Ng).
          pose proof (proj1 (Sane e (mkq 4 s a v sh))). fold ans1 in H0. lia. }
      set (ans2 := ask (env_next e (mkq 4 s a v sh)) (mkq 5 sA a w (a_amt ans1))).
      set (sB := delegate_at sA a w ans2).
      destruct (deleg_facts sA a w ans2) as (ApB & ShB & RB).
      assert (IB : Inv sB).
      { apply (stage_inv sA a w _ sB IA ApB ShB RB (deleg_ga sA a w ans2)).
        - cbn [eff_deleg e_ubd]. intros u e0 Eu Ie. apply (old_entries_ok sA a w u e0 IA Eu Ie).
        - intros Np Ng. cbn [eff_deleg e_da]. pose proof (iv_bal sA IA a (bond_denom (cfg sA)) Np Ng).
          pose proof (proj1 (Sane (env_next e (mkq 4 s a v sh)) (mkq 5 sA a w (a_amt ans1)))) as P. fold ans2 in P.
          destruct (del_of sA a w); lia. }
      apply red_entry_inv; [exact IB | cbn; lia].
  Qed.
End Follow.
