(* P_MigrateReachGov.v — the governance transactions and the gov end blocker keep the invariant `Inv` of
   M_MigrateHistory.v (they touch balances and the gov store only). *)
From Coq Require Import ZArith List Bool Lia.
From FxV Require Import model.M_Migrate model.M_MigrateSpec model.M_MigrateFollow model.M_MigrateHistory
  proofs.P_MigrateBase proofs.P_MigrateExec proofs.P_MigrateMature.
Import ListNotations.
Open Scope Z_scope.

(* ---------- frames ---------- *)
Definition same_sk (s s' : state) : Prop :=
  cfg s' = cfg s /\ accts s' = accts s /\ start s' = start s /\ stake s' = stake s.

Lemma same_sk_refl : forall s, same_sk s s. Proof. intros; repeat split. Qed.
Lemma same_sk_trans : forall s t u, same_sk s t -> same_sk t u -> same_sk s u.
Proof. intros s t u (A & B & C & D) (A' & B' & C' & D'). repeat split; congruence. Qed.

Lemma Inv_frame : forall s s', Inv s -> same_sk s s' ->
  NoDup (map fst (bal s')) -> balposP s' -> govI (gov s') -> Inv s'.
Proof.
  intros s s' I (Ec & Ea & Es & Ek) N B G. destruct I as [W Q E _ I36 _ A].
  constructor.
  - destruct W. constructor; rewrite ?Es, ?Ek; assumption.
  - destruct Q. constructor; unfold ubd_slice, red_slice in *; rewrite ?Ek; assumption.
  - unfold ent_ok in *. rewrite Ek. exact E.
  - exact B.
  - unfold idx36_ok in *. rewrite Ek. exact I36.
  - exact G.
  - unfold acct_ok in *. rewrite Ec, Ea. exact A.
Qed.

(* ---------- balances under pay / burn ---------- *)
Lemma bal_of_get : forall s a d, bal_of s a d = get_bal a d (bal s). Proof. reflexivity. Qed.

Lemma bal_of_pay : forall f t d x s a d', f <> t ->
  bal_of (pay f t d x s) a d' =
    bal_of s a d' + (if d' =? d then (if a =? t then x else if a =? f then - x else 0) else 0).
Proof.
  intros f t d x s a d' N. unfold pay. destruct (Z.eqb_spec x 0) as [->|Nx].
  - destruct (d' =? d); [destruct (a =? t); [|destruct (a =? f)]|]; lia.
  - rewrite !bal_of_get. cbn [bal set_bal]. rewrite get_bal_send1 by exact N.
    destruct (Z.eqb_spec d' d) as [->|]; [|lia].
    destruct (Z.eqb_spec a t) as [->|]; [lia|]. destruct (Z.eqb_spec a f) as [->|]; lia.
Qed.

Lemma bal_of_pay_self : forall f d x s a d', a <> f -> bal_of (pay f f d x s) a d' = bal_of s a d'.
Proof.
  intros f d x s a d' N. unfold pay. destruct (x =? 0); [reflexivity|].
  rewrite !bal_of_get. cbn [bal set_bal]. apply send1_other_addr; exact N.
Qed.

Lemma pay_keeps : forall f t d x s, same_sk s (pay f t d x s) /\ gov (pay f t d x s) = gov s.
Proof. intros. unfold pay. destruct (x =? 0); repeat split. Qed.

Lemma pay_nodup : forall f t d x s, NoDup (map fst (bal s)) -> NoDup (map fst (bal (pay f t d x s))).
Proof. intros. unfold pay. destruct (x =? 0); [assumption|]. cbn. apply send1_nodup. assumption. Qed.

Lemma burn_keeps : forall a d x s, same_sk s (burn_coins a d x s) /\ gov (burn_coins a d x s) = gov s.
Proof. intros. unfold burn_coins. repeat split. Qed.

Lemma bal_of_burn_other : forall a d x s b d', b <> a -> bal_of (burn_coins a d x s) b d' = bal_of s b d'.
Proof. intros. unfold burn_coins. rewrite !bal_of_get. cbn [bal set_bal]. apply get_bal_put_other. congruence. Qed.

(* a payment of a non-negative amount out of the gov account leaves everybody else non-negative *)
Lemma balpos_pay_from_gov : forall t d x s, 0 <= x -> balposP s -> balposP (pay (gov_acc (cfg s)) t d x s).
Proof.
  intros t d x s Px B a d' Np Ng. destruct (pay_keeps (gov_acc (cfg s)) t d x s) as ((Ec & _) & _). rewrite Ec in Np, Ng.
  destruct (Z.eq_dec (gov_acc (cfg s)) t) as [<-|Nt].
  - rewrite bal_of_pay_self by exact Ng. apply B; assumption.
  - rewrite bal_of_pay by exact Nt. pose proof (B a d' Np Ng).
    destruct (d' =? d); [|lia]. destruct (a =? t); [lia|].
    replace (a =? gov_acc (cfg s)) with false by (symmetry; apply Z.eqb_neq; exact Ng). lia.
Qed.

Lemma balpos_burn_gov : forall d x s, balposP s -> balposP (burn_coins (gov_acc (cfg s)) d x s).
Proof.
  intros d x s B a d' Np Ng. destruct (burn_keeps (gov_acc (cfg s)) d x s) as ((Ec & _) & _). rewrite Ec in Np, Ng.
  rewrite bal_of_burn_other by exact Ng. apply B; assumption.
Qed.

(* ---------- settle_deposits ---------- *)
Definition bgood (s0 s : state) : Prop :=
  same_sk s0 s /\ gov s = gov s0 /\ NoDup (map fst (bal s)) /\ balposP s.

Lemma settle_fold : forall (burn : bool) l s0 s, (forall kv : k2 * Z, In kv l -> 0 <= snd kv) -> bgood s0 s ->
  bgood s0 (fold_left (fun s kv =>
              if burn then burn_coins (gov_acc (cfg s)) (bond_denom (cfg s)) (snd kv) s
              else pay (gov_acc (cfg s)) (snd (fst kv)) (bond_denom (cfg s)) (snd kv) s) l s).
Proof.
  intros burn. induction l as [|kv l IH]; intros s0 s P G; [exact G|]. cbn [fold_left]. apply IH.
  - intros kv' I. apply P. right. exact I.
  - destruct G as (K & Gg & N & B). assert (P0 : 0 <= snd kv) by (apply P; left; reflexivity).
    destruct burn.
    + destruct (burn_keeps (gov_acc (cfg s)) (bond_denom (cfg s)) (snd kv) s) as (K1 & G1).
      split; [eapply same_sk_trans; eassumption|]. split; [congruence|]. split.
      * unfold burn_coins. cbn. apply put_bal_nodup. exact N.
      * apply balpos_burn_gov. exact B.
    + destruct (pay_keeps (gov_acc (cfg s)) (snd (fst kv)) (bond_denom (cfg s)) (snd kv) s) as (K1 & G1).
      split; [eapply same_sk_trans; eassumption|]. split; [congruence|]. split.
      * apply pay_nodup. exact N.
      * apply balpos_pay_from_gov; assumption.
Qed.

Lemma settle_facts : forall pid burn s, NoDup (map fst (bal s)) -> balposP s ->
  (forall kv, In kv (deposits (gov s)) -> 0 <= snd kv) ->
  let s' := settle_deposits pid burn s in
  same_sk s s' /\ NoDup (map fst (bal s')) /\ balposP s' /\
  props (gov s') = props (gov s) /\ votes (gov s') = votes (gov s) /\ inactiveq (gov s') = inactiveq (gov s) /\
  activeq (gov s') = activeq (gov s) /\ next_pid (gov s') = next_pid (gov s) /\
  (forall kv, In kv (deposits (gov s')) -> In kv (deposits (gov s))).
Proof.
  intros pid burn s N B D. unfold settle_deposits.
  set (mine := filter (fun kv : k2 * Z => fst (fst kv) =? pid) (deposits (gov s))).
  assert (Pm : forall kv, In kv mine -> 0 <= snd kv).
  { intros kv I. apply filter_In in I. apply D. tauto. }
  pose proof (settle_fold burn mine s s Pm (conj (same_sk_refl s) (conj eq_refl (conj N B)))) as G.
  destruct G as ((Ec & Ea & Es & Ek) & Gg & N' & B'). cbn zeta.
  repeat split; cbn [cfg accts start stake bal gov set_gov props votes inactiveq activeq next_pid deposits]; try assumption.
  intros kv I. apply filter_In in I. tauto.
Qed.

(* ---------- queue deletion ---------- *)
Lemma in_qdel : forall te pid q (x : time * Z), In x (qdel te pid q) <-> In x q /\ (fst x <> te \/ snd x <> pid).
Proof.
  intros. unfold qdel. rewrite filter_In. split; intros [A B]; (split; [exact A|]).
  - apply negb_true_iff, andb_false_iff in B. destruct B as [B|B]; apply Z.eqb_neq in B; auto.
  - apply negb_true_iff, andb_false_iff. destruct B as [B|B]; apply Z.eqb_neq in B; auto.
Qed.

Lemma sget_ssetZ {V} : forall k k' (v : V) m, sget Z.eqb k (sset Z.eqb k' v m) = if k =? k' then Some v else sget Z.eqb k m.
Proof.
  intros. destruct (Z.eqb_spec k k') as [->|N]; [apply (sget_sset_same Z.eqb Zeqb_ok) | apply (sget_sset_other Z.eqb Zeqb_ok); exact N].
Qed.
Lemma sget_sdelZ {V} : forall k k' (m : list (Z * V)), sget Z.eqb k (sdel Z.eqb k' m) = if k =? k' then None else sget Z.eqb k m.
Proof.
  intros. destruct (Z.eqb_spec k k') as [->|N]; [apply (sget_sdel_same Z.eqb) | apply (sget_sdel_other Z.eqb Zeqb_ok); exact N].
Qed.

Lemma status_dec : forall x : pstatus, x = PDeposit \/ x <> PDeposit.
Proof. intros []; [left; reflexivity | right; discriminate | right; discriminate]. Qed.

(* ---------- cast_vote ---------- *)
Lemma cast_vote_inv : forall a pid s s', cast_vote a pid s = Ok s' -> Inv s -> Inv s'.
Proof.
  intros a pid s s' H I. unfold cast_vote in H.
  destruct (sget Z.eqb pid (props (gov s))) as [p|] eqn:E; [|discriminate].
  destruct (p_status p) eqn:St; try discriminate. inversion H. subst s'. clear H.
  apply (Inv_frame s); [exact I | repeat split | apply (wf_bal s (iv_wf s I)) | exact (iv_bal s I) |].
  destruct (iv_gov s I) as [G1 G2 G3 G4 G5 G6 G7 G8]. constructor; cbn [gov set_gov props inactiveq activeq votes next_pid deposits]; try assumption.
  intros kv [<-|X].
  - cbn [fst]. exists p. auto.
  - rewrite (sdel_filter k2_eqb) in X. apply filter_In in X. apply G5. tauto.
Qed.

(* ---------- add_deposit ---------- *)
Lemma add_deposit_inv : forall pid a amt s s', add_deposit pid a amt s = Ok s' -> Inv s -> Inv s'.
Proof.
  intros pid a amt s s' H I. unfold add_deposit in H.
  destruct (sget Z.eqb pid (props (gov s))) as [p|] eqn:E; [|discriminate].
  set (d := bond_denom (cfg s)) in *.
  assert (Hok : p_status p <> PClosed /\
     ((amt <? 0) || (bal_of s a d - Z.max 0 (locked_of s a d) <? amt) = false)).
  { destruct (p_status p); [| |discriminate];
      (destruct ((amt <? 0) || (bal_of s a d - Z.max 0 (locked_of s a d) <? amt)); [discriminate|]; split; [discriminate|reflexivity]). }
  destruct Hok as [Nc Hf]. apply orb_false_iff in Hf. destruct Hf as [Hf1 Hf2]. apply Z.ltb_ge in Hf1, Hf2.
  set (activate := match p_status p with PDeposit => p_min p <=? p_total p + amt | _ => false end) in *.
  set (vend := now s + p_vp p) in *.
  set (old := match sget k2_eqb (pid, a) (deposits (gov s)) with Some x => x | None => 0 end) in *.
  assert (Hs : exists p' iq aq,
     s' = set_gov (pay a (gov_acc (cfg s)) d amt s)
            {| props := sset Z.eqb pid p' (props (gov s)); deposits := sset k2_eqb (pid, a) (old + amt) (deposits (gov s));
               votes := votes (gov s); inactiveq := iq; activeq := aq; next_pid := next_pid (gov s) |} /\
     ((activate = true /\ p_status p = PDeposit /\ p_status p' = PVoting /\ p_vote_end p' = vend /\
       iq = qdel (p_dep_end p) pid (inactiveq (gov s)) /\ aq = activeq (gov s) ++ [(vend, pid)]) \/
      (p_status p' = p_status p /\ p_dep_end p' = p_dep_end p /\ p_vote_end p' = p_vote_end p /\
       iq = inactiveq (gov s) /\ aq = activeq (gov s)))).
  { destruct (p_status p) eqn:St; [| |congruence];
      rewrite Bool.orb_false_intro in H by (apply Z.ltb_ge; assumption); inversion H; clear H.
    - unfold activate. destruct (p_min p <=? p_total p + amt) eqn:Ac.
      + eexists _, _, _. split; [reflexivity|]. left. repeat split; reflexivity.
      + eexists _, _, _. split; [reflexivity|]. right. repeat split; reflexivity.
    - eexists _, _, _. split; [reflexivity|]. right. repeat split; reflexivity. }
  destruct Hs as (p' & iq & aq & -> & Cases). clear H.
  destruct (pay_keeps a (gov_acc (cfg s)) d amt s) as (K & _).
  apply (Inv_frame s); [exact I | exact K | apply pay_nodup, (wf_bal s (iv_wf s I)) | |].
  - (* balances *)
    intros b d' Np Ng. cbn [cfg set_gov] in Np, Ng. destruct K as (Ec & _). rewrite Ec in Np, Ng.
    change (bal_of (set_gov ?x ?g) b d') with (bal_of x b d').
    pose proof (iv_bal s I b d' Np Ng) as Pb.
    destruct (Z.eq_dec a (gov_acc (cfg s))) as [Eg|Ngv].
    + rewrite Eg. rewrite bal_of_pay_self by exact Ng. exact Pb.
    + rewrite bal_of_pay by exact Ngv. destruct (Z.eqb_spec d' d) as [->|]; [|lia].
      replace (b =? gov_acc (cfg s)) with false by (symmetry; apply Z.eqb_neq; exact Ng).
      destruct (Z.eqb_spec b a) as [->|]; lia.
  - (* gov store *)
    destruct (iv_gov s I) as [G1 G2 G3 G4 G5 G6 G7 G8].
    assert (Old0 : 0 <= old).
    { unfold old. destruct (sget k2_eqb (pid, a) (deposits (gov s))) as [x|] eqn:Ed; [|lia].
      apply (sget_in k2_eqb k2_eqb_ok) in Ed. apply (G7 _ Ed). }
    constructor; cbn [gov set_gov props inactiveq activeq votes next_pid deposits].
    + intros pid' q Sq Stq. rewrite sget_ssetZ in Sq. destruct (Z.eqb_spec pid' pid) as [->|Np].
      * inversion Sq. subst q. destruct Cases as [(_ & _ & V & _)|(S1 & S2 & _ & -> & _)]; [congruence|].
        rewrite S2. apply G1; congruence.
      * pose proof (G1 _ _ Sq Stq) as X. destruct Cases as [(_ & _ & _ & _ & -> & _)|(_ & _ & _ & -> & _)]; [|exact X].
        apply in_qdel. split; [exact X|]. right. exact Np.
    + intros pid' q Sq Stq. rewrite sget_ssetZ in Sq. destruct (Z.eqb_spec pid' pid) as [->|Np].
      * inversion Sq. subst q. destruct Cases as [(_ & _ & _ & Ve & _ & ->)|(S1 & _ & S3 & _ & ->)].
        -- rewrite Ve. apply in_or_app. right. left. reflexivity.
        -- rewrite S3. apply G2; congruence.
      * pose proof (G2 _ _ Sq Stq) as X. destruct Cases as [(_ & _ & _ & _ & _ & ->)|(_ & _ & _ & _ & ->)]; [|exact X].
        apply in_or_app. left. exact X.
    + intros te pid' X.
      assert (Xin : In (te, pid') (inactiveq (gov s))).
      { destruct Cases as [(_ & _ & _ & _ & -> & _)|(_ & _ & _ & -> & _)]; [apply in_qdel in X; tauto | exact X]. }
      destruct (G3 _ _ Xin) as (q & Sq & Stq & Te). rewrite sget_ssetZ.
      destruct (Z.eqb_spec pid' pid) as [->|Np]; [|exists q; auto].
      assert (q = p) by congruence. subst q.
      destruct Cases as [(_ & _ & _ & _ & -> & _)|(S1 & S2 & _ & _ & _)].
      * apply in_qdel in X. cbn [fst snd] in X. destruct X as [_ [X|X]]; congruence.
      * exists p'. split; [reflexivity|]. split; congruence.
    + intros te pid' X.
      assert (Xc : In (te, pid') (activeq (gov s)) \/ (te = vend /\ pid' = pid /\ p_status p' = PVoting /\ p_vote_end p' = vend)).
      { destruct Cases as [(_ & _ & V & Ve & _ & ->)|(_ & _ & _ & _ & ->)]; [|left; exact X].
        apply in_app_or in X. destruct X as [X|[X|[]]]; [left; exact X|]. inversion X. subst. right. auto. }
      rewrite sget_ssetZ. destruct Xc as [Xa|(-> & -> & V & Ve)].
      * destruct (G4 _ _ Xa) as (q & Sq & Stq & Te).
        destruct (Z.eqb_spec pid' pid) as [->|Np]; [|exists q; auto].
        assert (q = p) by congruence. subst q. exists p'. split; [reflexivity|].
        destruct Cases as [(_ & Sp & _)|(S1 & _ & S3 & _)]; [congruence|]. split; congruence.
      * rewrite Z.eqb_refl. exists p'. auto.
    + intros kv X. destruct (G5 kv X) as (q & Sq & Stq). rewrite sget_ssetZ.
      destruct (Z.eqb_spec (fst (fst kv)) pid) as [Ep|Np]; [|exists q; auto].
      rewrite Ep in Sq. assert (q = p) by congruence. subst q. exists p'. split; [reflexivity|].
      destruct Cases as [(_ & _ & V & _)|(S1 & _)]; congruence.
    + intros pid' q Sq. rewrite sget_ssetZ in Sq. destruct (Z.eqb_spec pid' pid) as [->|Np]; [apply (G6 _ _ E) | apply (G6 _ _ Sq)].
    + intros kv [<-|X]; [cbn; lia|]. rewrite (sdel_filter k2_eqb) in X. apply filter_In in X. apply G7. tauto.
    + apply (sset_nodup Z.eqb Zeqb_ok). exact G8.
Qed.

(* ---------- submit_proposal ---------- *)
Lemma submit_inv : forall a amt exp vp mind s s', submit_proposal a amt exp vp mind s = Ok s' -> Inv s -> Inv s'.
Proof.
  intros a amt exp vp mind s s' H I. unfold submit_proposal in H.
  set (pid := next_pid (gov s)) in *. set (dend := now s + max_dep_period (cfg s)) in *.
  set (p := {| p_status := PDeposit; p_proposer := a; p_total := 0; p_dep_end := dend; p_vote_end := 0;
               p_vp := vp; p_min := mind; p_exp := exp |}) in *.
  match type of H with context [add_deposit pid a amt ?x] => set (s1 := x) in * end.
  destruct (add_deposit pid a amt s1) as [s2| |] eqn:A; try discriminate. inversion H. subst s2. clear H.
  apply (add_deposit_inv _ _ _ _ _ A).
  apply (Inv_frame s); [exact I | repeat split | apply (wf_bal s (iv_wf s I)) | exact (iv_bal s I) |].
  destruct (iv_gov s I) as [G1 G2 G3 G4 G5 G6 G7 G8].
  assert (Fr : sget Z.eqb pid (props (gov s)) = None).
  { destruct (sget Z.eqb pid (props (gov s))) as [q|] eqn:E; [|reflexivity]. pose proof (G6 _ _ E). unfold pid in *. lia. }
  unfold s1. constructor; cbn [gov set_gov props inactiveq activeq votes next_pid deposits].
  - intros pid' q Sq Stq. rewrite sget_ssetZ in Sq. apply in_or_app. destruct (Z.eqb_spec pid' pid) as [->|Np].
    + inversion Sq. subst q. right. left. reflexivity.
    + left. apply G1; assumption.
  - intros pid' q Sq Stq. rewrite sget_ssetZ in Sq. destruct (Z.eqb_spec pid' pid) as [->|Np].
    + inversion Sq. subst q. discriminate.
    + apply G2; assumption.
  - intros te pid' X. rewrite sget_ssetZ. apply in_app_or in X. destruct X as [X|[X|[]]].
    + destruct (G3 _ _ X) as (q & Sq & R). destruct (Z.eqb_spec pid' pid) as [->|Np]; [congruence | exists q; auto].
    + inversion X. subst. rewrite Z.eqb_refl. exists p. auto.
  - intros te pid' X. rewrite sget_ssetZ. destruct (G4 _ _ X) as (q & Sq & R).
    destruct (Z.eqb_spec pid' pid) as [->|Np]; [congruence | exists q; auto].
  - intros kv X. rewrite sget_ssetZ. destruct (G5 _ X) as (q & Sq & R).
    destruct (Z.eqb_spec (fst (fst kv)) pid) as [Ep|Np]; [congruence | exists q; auto].
  - intros pid' q Sq. rewrite sget_ssetZ in Sq. destruct (Z.eqb_spec pid' pid) as [->|Np]; [lia|].
    pose proof (G6 _ _ Sq). fold pid in H. lia.
  - exact G7.
  - apply (sset_nodup Z.eqb Zeqb_ok). exact G8.
Qed.

(* ---------- the gov end blocker ---------- *)
Lemma govI_ext : forall g g', govI g -> props g' = props g -> votes g' = votes g -> inactiveq g' = inactiveq g ->
  activeq g' = activeq g -> next_pid g' = next_pid g -> (forall kv, In kv (deposits g') -> In kv (deposits g)) -> govI g'.
Proof.
  intros g g' [G1 G2 G3 G4 G5 G6 G7 G8] Ep Ev Ei Ea En D.
  constructor; rewrite ?Ep, ?Ev, ?Ei, ?Ea, ?En; try assumption. intros kv X. apply G7, D, X.
Qed.

Definition st_dep (s : state) (pid : Z) : Prop :=
  match sget Z.eqb pid (props (gov s)) with Some p => p_status p = PDeposit | None => True end.
Definition st_ndep (s : state) (pid : Z) : Prop :=
  match sget Z.eqb pid (props (gov s)) with Some p => p_status p <> PDeposit | None => True end.

Lemma drop_inactive_inv : forall s x, Inv s -> st_dep s (snd x) ->
  Inv (drop_inactive s x) /\ (forall pid, st_dep s pid -> st_dep (drop_inactive s x) pid).
Proof.
  intros s x I Sd. unfold drop_inactive. unfold st_dep in Sd.
  destruct (sget Z.eqb (snd x) (props (gov s))) as [p|] eqn:E; [|split; [exact I | auto]].
  set (pid := snd x) in *.
  match goal with |- context [settle_deposits pid ?b (set_gov s ?g)] => set (g1 := g); set (bn := b) end.
  destruct (iv_gov s I) as [G1 G2 G3 G4 G5 G6 G7 G8].
  assert (Aq : forall y, In y (activeq g1) -> In y (activeq (gov s))).
  { intros y. unfold g1. cbn [activeq]. destruct (p_vote_end p =? 0); [auto|]. intros Y. apply in_qdel in Y. tauto. }
  assert (Gg : govI g1).
  { constructor; unfold g1; cbn [props inactiveq activeq votes next_pid deposits].
    - intros pid' q Sq Stq. rewrite sget_sdelZ in Sq. destruct (Z.eqb_spec pid' pid) as [|Np]; [discriminate|].
      apply in_qdel. split; [apply G1; assumption | right; exact Np].
    - intros pid' q Sq Stq. rewrite sget_sdelZ in Sq. destruct (Z.eqb_spec pid' pid) as [|Np]; [discriminate|].
      pose proof (G2 _ _ Sq Stq) as X. destruct (p_vote_end p =? 0); [exact X|].
      apply in_qdel. split; [exact X | right; exact Np].
    - intros te pid' X. apply in_qdel in X. cbn [fst snd] in X. destruct X as [X Nx].
      destruct (G3 _ _ X) as (q & Sq & Stq & Te). rewrite sget_sdelZ. destruct (Z.eqb_spec pid' pid) as [->|Np]; [|exists q; auto].
      assert (q = p) by congruence. subst q. destruct Nx; congruence.
    - intros te pid' X. apply Aq in X. destruct (G4 _ _ X) as (q & Sq & Stq & Te). rewrite sget_sdelZ.
      destruct (Z.eqb_spec pid' pid) as [->|Np]; [|exists q; auto]. assert (q = p) by congruence. subst q. congruence.
    - intros kv X. destruct (G5 _ X) as (q & Sq & Stq). rewrite sget_sdelZ.
      destruct (Z.eqb_spec (fst (fst kv)) pid) as [Ep|Np]; [|exists q; auto]. rewrite Ep in Sq. assert (q = p) by congruence. subst q. congruence.
    - intros pid' q Sq. rewrite sget_sdelZ in Sq. destruct (pid' =? pid); [discriminate|]. apply (G6 _ _ Sq).
    - exact G7.
    - apply (sdel_nodup Z.eqb Zeqb_ok). exact G8. }
  destruct (settle_facts pid bn (set_gov s g1) (wf_bal s (iv_wf s I)) (iv_bal s I) G7)
    as (K & N & B & Ep & Ev & Ei & Ea & En & D).
  split.
  - apply (Inv_frame s); [exact I | exact K | exact N | exact B |].
    apply (govI_ext g1); assumption.
  - intros pid' S0. unfold st_dep in *. rewrite Ep. cbn [gov set_gov]. unfold g1. cbn [props]. rewrite sget_sdelZ.
    destruct (pid' =? pid); [exact Logic.I | exact S0].
Qed.

Lemma drop_fold_inv : forall l s, Inv s -> (forall x, In x l -> st_dep s (snd x)) -> Inv (fold_left drop_inactive l s).
Proof.
  induction l as [|x l IH]; intros s I P; [exact I|]. cbn [fold_left].
  destruct (drop_inactive_inv s x I (P x (or_introl eq_refl))) as [I1 Keep].
  apply IH; [exact I1|]. intros y Y. apply Keep, P. right. exact Y.
Qed.

Lemma close_active_inv : forall burns converts s x, Inv s -> st_ndep s (snd x) ->
  Inv (close_active burns converts s x) /\ (forall pid, st_ndep s pid -> st_ndep (close_active burns converts s x) pid).
Proof.
  intros burns converts s x I Sd. unfold close_active. unfold st_ndep in Sd.
  destruct (sget Z.eqb (snd x) (props (gov s))) as [p|] eqn:E; [|split; [exact I | auto]].
  set (pid := snd x) in *.
  set (votes' := filter (fun kv : (Z * Z) * unit => negb (fst (fst kv) =? pid)) (votes (gov s))).
  destruct (iv_gov s I) as [G1 G2 G3 G4 G5 G6 G7 G8].
  assert (Gen : forall p' aq, p_status p' <> PDeposit ->
            (p_status p' = PVoting -> In (p_vote_end p', pid) aq) ->
            (forall y, In y aq -> (In y (activeq (gov s)) /\ (fst y <> p_vote_end p \/ snd y <> pid)) \/
                                  (y = (p_vote_end p', pid) /\ p_status p' = PVoting)) ->
            (forall y, In y (activeq (gov s)) -> snd y <> pid -> In y aq) ->
            govI {| props := sset Z.eqb pid p' (props (gov s)); deposits := deposits (gov s); votes := votes';
                    inactiveq := inactiveq (gov s); activeq := aq; next_pid := next_pid (gov s) |}).
  { intros p' aq Nd Hv Haq Hkeep. constructor; cbn [props inactiveq activeq votes next_pid deposits].
    - intros pid' q Sq Stq. rewrite sget_ssetZ in Sq. destruct (Z.eqb_spec pid' pid) as [->|Np]; [congruence | apply G1; assumption].
    - intros pid' q Sq Stq. rewrite sget_ssetZ in Sq. destruct (Z.eqb_spec pid' pid) as [->|Np].
      + inversion Sq. subst q. apply Hv. exact Stq.
      + apply Hkeep; [apply G2; assumption | exact Np].
    - intros te pid' X. destruct (G3 _ _ X) as (q & Sq & Stq & Te). rewrite sget_ssetZ.
      destruct (Z.eqb_spec pid' pid) as [->|Np]; [|exists q; auto]. assert (q = p) by congruence. subst q. congruence.
    - intros te pid' X. rewrite sget_ssetZ. destruct (Haq _ X) as [[Xa Nx]|[Ey V]].
      + destruct (G4 _ _ Xa) as (q & Sq & Stq & Te). cbn [fst snd] in Nx.
        destruct (Z.eqb_spec pid' pid) as [->|Np]; [|exists q; auto]. assert (q = p) by congruence. subst q.
        destruct Nx; congruence.
      + inversion Ey. subst. rewrite Z.eqb_refl. exists p'. auto.
    - intros kv X. apply filter_In in X. destruct X as [X Nk]. apply negb_true_iff, Z.eqb_neq in Nk.
      destruct (G5 _ X) as (q & Sq & Stq). rewrite sget_ssetZ.
      destruct (Z.eqb_spec (fst (fst kv)) pid); [contradiction | exists q; auto].
    - intros pid' q Sq. rewrite sget_ssetZ in Sq. destruct (Z.eqb_spec pid' pid) as [->|Np]; [apply (G6 _ _ E) | apply (G6 _ _ Sq)].
    - exact G7.
    - apply (sset_nodup Z.eqb Zeqb_ok). exact G8. }
  assert (Keep : forall p' pid', p_status p' <> PDeposit -> st_ndep s pid' ->
            match sget Z.eqb pid' (sset Z.eqb pid p' (props (gov s))) with Some q => p_status q <> PDeposit | None => True end).
  { intros p' pid' Nd S0. rewrite sget_ssetZ. destruct (pid' =? pid); [exact Nd | exact S0]. }
  destruct (memZ pid converts).
  - split.
    + apply (Inv_frame s); [exact I | repeat split | apply (wf_bal s (iv_wf s I)) | exact (iv_bal s I) |].
      cbn [gov set_gov]. apply Gen; cbn [p_status p_vote_end].
      * discriminate.
      * intros _. apply in_or_app. right. left. reflexivity.
      * intros y Y. apply in_app_or in Y. destruct Y as [Y|[<-|[]]]; [left; apply in_qdel in Y; exact Y | right; auto].
      * intros y Y Ny. apply in_or_app. left. apply in_qdel. auto.
    + intros pid' S0. unfold st_ndep. cbn [gov set_gov props]. apply Keep; [discriminate | exact S0].
  - match goal with |- context [settle_deposits pid ?b (set_gov s ?g)] => set (g1 := g); set (bn := b) end.
    assert (Gg : govI g1).
    { apply Gen; cbn [p_status p_vote_end].
      - discriminate.
      - discriminate.
      - intros y Y. left. apply in_qdel in Y. exact Y.
      - intros y Y Ny. apply in_qdel. auto. }
    destruct (settle_facts pid bn (set_gov s g1) (wf_bal s (iv_wf s I)) (iv_bal s I) G7)
      as (K & N & B & Ep & Ev & Ei & Ea & En & D).
    split.
    + apply (Inv_frame s); [exact I | exact K | exact N | exact B |]. apply (govI_ext g1); assumption.
    + intros pid' S0. unfold st_ndep. rewrite Ep. cbn [gov set_gov]. unfold g1. cbn [props]. apply Keep; [discriminate | exact S0].
Qed.

Lemma close_fold_inv : forall burns converts l s, Inv s -> (forall x, In x l -> st_ndep s (snd x)) ->
  Inv (fold_left (close_active burns converts) l s).
Proof.
  intros burns converts. induction l as [|x l IH]; intros s I P; [exact I|]. cbn [fold_left].
  destruct (close_active_inv burns converts s x I (P x (or_introl eq_refl))) as [I1 Keep].
  apply IH; [exact I1|]. intros y Y. apply Keep, P. right. exact Y.
Qed.

Theorem gov_endblock_inv : forall t burns converts s, Inv s -> Inv (gov_endblock t burns converts s).
Proof.
  intros t burns converts s I. unfold gov_endblock.
  set (s1 := fold_left drop_inactive (filter (fun x : time * Z => fst x <=? t) (inactiveq (gov s))) s).
  assert (I1 : Inv s1).
  { apply drop_fold_inv; [exact I|]. intros [te pid] X. apply filter_In in X. destruct X as [X _].
    destruct (gi_inq _ (iv_gov s I) _ _ X) as (p & Sp & St & _). unfold st_dep. cbn [snd]. rewrite Sp. exact St. }
  apply close_fold_inv; [exact I1|]. intros [te pid] X. apply filter_In in X. destruct X as [X _].
  destruct (gi_acq _ (iv_gov s1 I1) _ _ X) as (p & Sp & St & _). unfold st_ndep. cbn [snd]. rewrite Sp, St. discriminate.
Qed.

(* govI gives the decidable gov shape the governance theorems are stated with *)
Lemma govI_govwfb : forall s, govI (gov s) -> govwfb s = true.
Proof.
  intros s [G1 G2 G3 G4 G5 G6 G7 G8]. unfold govwfb. rewrite !andb_true_iff. repeat split.
  - apply forallb_forall. intros [pid p] X.
    pose proof (in_sget_nodup Z.eqb Zeqb_ok pid p _ G8 X) as Sg.
    cbn [fst snd]. destruct (p_status p) eqn:St; [| |reflexivity]; apply existsb_exists.
    + exists (p_dep_end p, pid). split; [apply (G1 _ _ Sg St) | cbn; rewrite !Z.eqb_refl; reflexivity].
    + exists (p_vote_end p, pid). split; [apply (G2 _ _ Sg St) | cbn; rewrite !Z.eqb_refl; reflexivity].
  - apply forallb_forall. intros kv X. destruct (G5 _ X) as (q & Sq & Stq). rewrite Sq, Stq. reflexivity.
  - apply forallb_forall. intros [te pid] X. destruct (G3 _ _ X) as (q & Sq & _). unfold shas. cbn [snd]. rewrite Sq. reflexivity.
  - apply forallb_forall. intros [te pid] X. destruct (G4 _ _ X) as (q & Sq & _). unfold shas. cbn [snd]. rewrite Sq. reflexivity.
Qed.

(* ---------- frames ---------- *)
Lemma Inv_same : forall s s', Inv s -> same_sk s s' -> bal s' = bal s -> gov s' = gov s -> Inv s'.
Proof.
  intros s s' I K Eb Eg. apply (Inv_frame s); [exact I | exact K | rewrite Eb; apply (wf_bal s (iv_wf s I)) | | rewrite Eg; apply (iv_gov s I)].
  intros a d Np Ng. destruct K as (Ec & _). rewrite Ec in Np, Ng. unfold bal_of. rewrite Eb. apply (iv_bal s I a d Np Ng).
Qed.

Lemma wfP_same : forall s s', wfP s -> bal s' = bal s -> start s' = start s -> dels (stake s') = dels (stake s) ->
  ubds (stake s') = ubds (stake s) -> reds (stake s') = reds (stake s) -> wfP s'.
Proof. intros s s' [W1 W2 W3 W4 W5 W6 W7 W8 W9] Eb Es Ed Eu Er. constructor; rewrite ?Eb, ?Es, ?Ed, ?Eu, ?Er; assumption. Qed.

