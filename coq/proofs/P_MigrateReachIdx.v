(* P_MigrateReachIdx.v — the by-validator indexes 0x71 (delegations), 0x33 (unbonding delegations) and 0x35
   (redelegations by source) are exact on every reachable state: every operation of the history model writes a record
   store and its index with the same key in the same way (set / delete), or leaves both alone.
   (0x36 is part of `Inv` because the redelegation theorems need it; the unbonding-id index 0x38 is not treated here:
   its ids come from the environment.) *)
From Coq Require Import ZArith List Bool Lia.
From FxV Require Import model.M_Migrate model.M_MigrateSpec model.M_MigrateFollow model.M_MigrateHistory
  proofs.P_MigrateBase proofs.P_MigrateAuth proofs.P_MigrateExec proofs.P_MigrateMature proofs.P_MigrateHist proofs.P_Migrate
  proofs.P_MigrateFollow proofs.P_MigrateFollowR
  proofs.P_MigrateReachGov proofs.P_MigrateReachEnd proofs.P_MigrateReachFollow proofs.P_MigrateReach.
Import ListNotations.
Open Scope Z_scope.

Definition idxP (s : state) : Prop := idx71_ok s /\ idx33_ok s /\ idx35_ok s.

(* ---------- a store and its index written in step ---------- *)
Section Sync.
  Context {K V : Type} (eqb : K -> K -> bool) (Hk : eqb_ok eqb).

  Definition sync (m m' : list (K * V)) (ix ix' : list (K * unit)) : Prop :=
    (m' = m /\ ix' = ix) \/
    (exists k v, m' = sset eqb k v m /\ ix' = sset eqb k tt ix) \/
    (exists k, m' = sdel eqb k m /\ ix' = sdel eqb k ix).

  Lemma shas_sset_g {W} : forall k k0 (v : W) m, shas eqb k (sset eqb k0 v m) = if eqb k k0 then true else shas eqb k m.
  Proof.
    intros. unfold shas. destruct (eqb k k0) eqn:E.
    - apply Hk in E. subst. rewrite (sget_sset_same eqb Hk). reflexivity.
    - rewrite (sget_sset_other eqb Hk); [reflexivity|]. eapply eqb_false_neq; [exact Hk | exact E].
  Qed.
  Lemma shas_sdel_g {W} : forall k k0 (m : list (K * W)), shas eqb k (sdel eqb k0 m) = if eqb k k0 then false else shas eqb k m.
  Proof.
    intros. unfold shas. destruct (eqb k k0) eqn:E.
    - apply Hk in E. subst. rewrite (sget_sdel_same eqb). reflexivity.
    - rewrite (sget_sdel_other eqb Hk); [reflexivity|]. eapply eqb_false_neq; [exact Hk | exact E].
  Qed.

  Lemma sync_matches : forall m m' ix ix', sync m m' ix ix' -> idx_matches eqb m ix -> idx_matches eqb m' ix'.
  Proof.
    intros m m' ix ix' [[-> ->]|[(k0 & v & -> & ->)|(k0 & -> & ->)]] I k.
    - apply I.
    - rewrite !shas_sset_g. destruct (eqb k k0); [reflexivity | apply I].
    - rewrite !shas_sdel_g. destruct (eqb k k0); [reflexivity | apply I].
  Qed.

  Lemma sync_refl : forall m ix, sync m m ix ix. Proof. intros. left. split; reflexivity. Qed.
End Sync.

Definition syncs (s t : state) : Prop :=
  sync k2_eqb (dels (stake s)) (dels (stake t)) (idx71 (stake s)) (idx71 (stake t)) /\
  sync k2_eqb (ubds (stake s)) (ubds (stake t)) (idx33 (stake s)) (idx33 (stake t)) /\
  sync k3_eqb (reds (stake s)) (reds (stake t)) (idx35 (stake s)) (idx35 (stake t)).

Lemma syncs_idxP : forall s t, syncs s t -> idxP s -> idxP t.
Proof.
  intros s t (A & B & C) (I1 & I2 & I3). split; [|split].
  - apply (sync_matches k2_eqb k2_eqb_ok _ _ _ _ A I1).
  - apply (sync_matches k2_eqb k2_eqb_ok _ _ _ _ B I2).
  - apply (sync_matches k3_eqb k3_eqb_ok _ _ _ _ C I3).
Qed.

Lemma syncs_same_stake : forall s t, stake t = stake s -> syncs s t.
Proof. intros s t E. unfold syncs. rewrite E. repeat split; apply sync_refl. Qed.

Lemma idxP_same_stake : forall s t, stake t = stake s -> idxP s -> idxP t.
Proof. intros s t E. apply syncs_idxP, syncs_same_stake, E. Qed.

Lemma stake_credit : forall c d x s, stake (credit c d x s) = stake s.
Proof. intros. destruct (credit_keeps c d x s) as (_ & K & _). exact K. Qed.

(* ---------- follow-ups ---------- *)
Lemma unbond_syncs : forall s a v rest ans, syncs s (unbond_at s a v rest ans).
Proof.
  intros. unfold unbond_at, syncs. set (s1 := credit a (bond_denom (cfg s)) (a_reward ans) s).
  assert (K : stake s1 = stake s) by apply stake_credit.
  destruct (rest =? 0); unfold set_dels_start; cbn [stake set_stake set_dels dels idx71 ubds idx33 reds idx35]; rewrite K;
    (split; [|split; apply sync_refl]).
  - right. right. eexists. split; reflexivity.
  - right. left. eexists _, _. split; reflexivity.
Qed.

Lemma deleg_syncs : forall s a w ans, syncs s (delegate_at s a w ans).
Proof.
  intros. unfold delegate_at, syncs.
  set (s2 := match sget k2_eqb (a, w) (dels (stake s)) with Some _ => credit a (bond_denom (cfg s)) (a_reward ans) s | None => s end).
  assert (K : stake s2 = stake s) by (unfold s2; destruct (sget k2_eqb (a, w) (dels (stake s))); [apply stake_credit | reflexivity]).
  unfold set_dels_start; cbn [stake set_stake set_dels dels idx71 ubds idx33 reds idx35]. rewrite K.
  split; [|split; apply sync_refl]. right. left. eexists _, _. split; reflexivity.
Qed.

Lemma red_entry_syncs : forall s a v w en, syncs s (red_entry_at s a v w en).
Proof.
  intros. unfold red_entry_at, syncs. cbn [stake set_stake set_unbidx set_red dels idx71 ubds idx33 reds idx35].
  split; [apply sync_refl|]. split; [apply sync_refl|]. right. left. eexists _, _. split; reflexivity.
Qed.

Lemma slash_syncs_idxP : forall s v ih fr, idxP s -> idxP (slash_ubds s v ih fr).
Proof.
  intros s v ih fr (I1 & I2 & I3). destruct (slash_facts s v ih fr) as (Eu & _ & _ & _ & Ed & _ & (Er & _ & _) & _).
  assert (E71 : idx71 (stake (slash_ubds s v ih fr)) = idx71 (stake s)) by (unfold slash_ubds; rewrite stake_credit; reflexivity).
  assert (E33 : idx33 (stake (slash_ubds s v ih fr)) = idx33 (stake s)) by (unfold slash_ubds; rewrite stake_credit; reflexivity).
  assert (E35 : idx35 (stake (slash_ubds s v ih fr)) = idx35 (stake s)) by (unfold slash_ubds; rewrite stake_credit; reflexivity).
  split; [|split].
  - intros k. unfold idx71_ok, idx_matches in *. rewrite E71, Ed. apply I1.
  - intros k. unfold idx33_ok, idx_matches in *. rewrite E33, Eu. rewrite (I2 k). unfold shas.
    destruct k as [b w]. rewrite (sget_map_kv (slash_phi (now s) v ih fr)). destruct (sget k2_eqb (b, w) (ubds (stake s))); reflexivity.
  - intros k. unfold idx35_ok, idx_matches in *. rewrite E35, Er. apply I3.
Qed.

Section Follow.
  Variable env : Type.
  Variable ask : env -> query -> vans.
  Variable env_next : env -> query -> env.

  Lemma withdraw_syncs : forall e s a v e1 t, f_withdraw env ask env_next e s a v = Ok (e1, t) -> syncs s t.
  Proof.
    intros e s a v e1 t. unfold f_withdraw. destruct (sget k2_eqb (a, v) (dels (stake s))); [|discriminate].
    intros H. inversion H. subst. apply syncs_same_stake. cbn [stake set_start]. apply stake_credit.
  Qed.

  Lemma delegate_syncs : forall e s a v amt e1 t, f_delegate env ask env_next e s a v amt = Ok (e1, t) -> syncs s t.
  Proof.
    intros e s a v amt e1 t. unfold f_delegate. set (ans := ask e (mkq 1 s a v amt)). set (d := bond_denom (cfg s)).
    set (s1 := match sget k2_eqb (a, v) (dels (stake s)) with Some _ => credit a d (a_reward ans) s | None => s end).
    destruct (bal_of s1 a d <? amt); [discriminate|]. intros H. inversion H. subst e1 t. clear H.
    set (s3 := if a_bonded ans then credit a d (- amt) s1 else credit (pool_nb (cfg s)) d amt (credit a d (- amt) s1)).
    assert (K : stake s3 = stake s).
    { unfold s3, s1. destruct (a_bonded ans); destruct (sget k2_eqb (a, v) (dels (stake s))); rewrite ?stake_credit; reflexivity. }
    unfold syncs, set_dels_start. cbn [stake set_stake set_dels dels idx71 ubds idx33 reds idx35]. fold s3. rewrite K.
    split; [|split; apply sync_refl]. right. left. eexists _, _. split; reflexivity.
  Qed.

  Lemma undelegate_syncs : forall e s a v sh e1 t, wfP s -> f_undelegate env ask env_next e s a v sh = Ok (e1, t) -> syncs s t.
  Proof.
    intros e s a v sh e1 t W. unfold f_undelegate. rewrite (ubd_key_at s a v W).
    destruct (sget k2_eqb (a, v) (dels (stake s))) as [r|]; [|discriminate]. destruct (d_shares r <? sh); [discriminate|].
    set (ans := ask e (mkq 2 s a v sh)).
    match goal with |- (if ?c then _ else _) = _ -> _ => destruct c; [discriminate|] end.
    match goal with |- context [add_entry ?h ?tm ?x ?id ?es] => destruct (add_entry h tm x id es) as [es' isnew] end.
    set (d := bond_denom (cfg s)).
    set (s2 := if a_bonded ans then credit (pool_nb (cfg s)) d (a_amt ans) (credit a d (a_reward ans) s) else credit a d (a_reward ans) s).
    assert (K : stake s2 = stake s) by (unfold s2; destruct (a_bonded ans); rewrite ?stake_credit; reflexivity).
    intros H. inversion H. subst e1 t. clear H. cbn [fst snd].
    unfold syncs. destruct isnew; destruct (d_shares r - sh =? 0); unfold set_dels_start;
      cbn [stake set_stake set_unbidx set_ubd set_dels dels idx71 ubds idx33 reds idx35]; fold s2; rewrite ?K;
      (split; [|split; [|apply sync_refl]]);
      solve [ right; right; eexists; split; reflexivity | right; left; eexists _, _; split; reflexivity ].
  Qed.

  Theorem fstep_idxP : forall e s o e1 t, wfP s -> fstep env ask env_next e s o = Ok (e1, t) -> idxP s -> idxP t.
  Proof.
    intros e s o e1 t W H. destruct o as [a v amt | a v sh | a v | a v w sh]; cbn [fstep] in H.
    - apply syncs_idxP. eapply delegate_syncs; eassumption.
    - apply syncs_idxP. eapply undelegate_syncs; eassumption.
    - apply syncs_idxP. eapply withdraw_syncs; eassumption.
    - unfold f_redelegate in H. destruct (v =? w); [discriminate|]. destruct (receiving s a v); [discriminate|].
      destruct (sget k2_eqb (a, v) (dels (stake s))) as [r|]; [|discriminate]. destruct (d_shares r <? sh); [discriminate|].
      match type of H with (if ?c then _ else _) = _ => destruct c; [discriminate|] end.
      inversion H. subst e1 t. clear H. intros I.
      eapply syncs_idxP; [apply red_entry_syncs|]. eapply syncs_idxP; [apply deleg_syncs|].
      eapply syncs_idxP; [apply unbond_syncs|]. exact I.
  Qed.
End Follow.

(* ---------- the end of a block ---------- *)
Lemma cu_syncs : forall t s p, wfP s -> syncs s (complete_unbonding t s p).
Proof.
  intros t s p W. unfold complete_unbonding. destruct (sget k2_eqb p (ubds (stake s))) as [u|] eqn:E; [|apply syncs_same_stake; reflexivity].
  destruct (filter (fun e => negb (ubd_mature t e)) (u_entries u)); unfold syncs;
    cbn [stake set_stake set_unbidx set_ubd dels idx71 ubds idx33 reds idx35];
    (split; [apply sync_refl|]; split; [|apply sync_refl]).
  - right. right. eexists. split; reflexivity.
  - right. left. eexists _, _. split; reflexivity.
Qed.

Lemma cr_syncs : forall t s p, syncs s (complete_redelegation t s p).
Proof.
  intros t s p. unfold complete_redelegation. destruct (sget k3_eqb p (reds (stake s))) as [r|]; [|apply syncs_same_stake; reflexivity].
  destruct (filter (fun e => negb (red_mature t e)) (r_entries r)); unfold syncs;
    cbn [stake set_stake set_unbidx set_red dels idx71 ubds idx33 reds idx35];
    (split; [apply sync_refl|]; split; [apply sync_refl|]).
  - right. right. eexists. split; reflexivity.
  - right. left. eexists _, _. split; reflexivity.
Qed.

Lemma cu_fold_idxP : forall t ps s, wfP s -> idxP s -> idxP (fold_left (complete_unbonding t) ps s).
Proof.
  intros t. induction ps as [|p ps IH]; intros s W I; [exact I|]. cbn [fold_left].
  apply IH; [apply cu_wf, W | apply (syncs_idxP s); [apply cu_syncs, W | exact I]].
Qed.
Lemma cr_fold_idxP : forall t ps s, idxP s -> idxP (fold_left (complete_redelegation t) ps s).
Proof.
  intros t. induction ps as [|p ps IH]; intros s I; [exact I|]. cbn [fold_left].
  apply IH. apply (syncs_idxP s); [apply cr_syncs | exact I].
Qed.

Lemma staking_endblock_idxP : forall t s, wfP s -> idxP s -> idxP (staking_endblock t s).
Proof.
  intros t s W I. unfold staking_endblock. apply cr_fold_idxP.
  match goal with |- idxP (set_stake ?s2 (set_red (stake ?s2) _ _ _ ?q)) => assert (I2 : idxP s2) end.
  - apply cu_fold_idxP.
    + apply (wfP_same s); [exact W | reflexivity..].
    + destruct I as (I1 & I2 & I3). repeat split; assumption.
  - destruct I2 as (J1 & J2 & J3). repeat split; assumption.
Qed.

(* gov: the staking store is not touched *)
Lemma settle_stake : forall pid burn s, stake (settle_deposits pid burn s) = stake s.
Proof.
  intros pid burn s. unfold settle_deposits. cbn [stake set_gov].
  set (l := filter (fun kv : k2 * Z => fst (fst kv) =? pid) (deposits (gov s))). clearbody l.
  revert s. induction l as [|kv l IH]; intros s; [reflexivity|]. cbn [fold_left]. rewrite IH.
  destruct burn; [reflexivity|]. destruct (pay_keeps (gov_acc (cfg s)) (snd (fst kv)) (bond_denom (cfg s)) (snd kv) s) as ((_ & _ & _ & K) & _). exact K.
Qed.

Lemma gov_endblock_stake : forall t burns converts s, stake (gov_endblock t burns converts s) = stake s.
Proof.
  intros t burns converts s. unfold gov_endblock.
  assert (D : forall l s0, stake (fold_left drop_inactive l s0) = stake s0).
  { induction l as [|x l IH]; intros s0; [reflexivity|]. cbn [fold_left]. rewrite IH. unfold drop_inactive.
    destruct (sget Z.eqb (snd x) (props (gov s0))); [|reflexivity]. rewrite settle_stake. reflexivity. }
  assert (C : forall l s0, stake (fold_left (close_active burns converts) l s0) = stake s0).
  { induction l as [|x l IH]; intros s0; [reflexivity|]. cbn [fold_left]. rewrite IH. unfold close_active.
    destruct (sget Z.eqb (snd x) (props (gov s0))); [|reflexivity]. destruct (memZ (snd x) converts); [reflexivity|].
    rewrite settle_stake. reflexivity. }
  rewrite C, D. reflexivity.
Qed.

Lemma valset_syncs : forall vs s, syncs s (valset_update vs s).
Proof.
  intros vs s. unfold valset_update, syncs. destruct (v_pool vs =? 0);
    cbn [stake set_stake set_bal set_unbidx dels idx71 ubds idx33 reds idx35]; repeat split; apply sync_refl.
Qed.

Lemma end_block_idxP : forall t next burns converts vs s, Inv s -> idxP s -> idxP (end_block t next burns converts vs s).
Proof.
  intros t next burns converts vs s I X. unfold end_block.
  pose proof (gov_endblock_inv t burns converts _ (Inv_clock s t (height s) I)) as Ig.
  apply (idxP_same_stake (staking_endblock t (valset_update vs (gov_endblock t burns converts (set_clock s t (height s)))))); [reflexivity|].
  apply staking_endblock_idxP.
  - apply (iv_wf _ (valset_inv vs _ Ig)).
  - apply (syncs_idxP _ _ (valset_syncs vs _)). apply (idxP_same_stake s); [|exact X]. rewrite gov_endblock_stake. reflexivity.
Qed.

Lemma add_deposit_stake : forall pid a amt s s', add_deposit pid a amt s = Ok s' -> stake s' = stake s.
Proof.
  intros pid a amt s s'. unfold add_deposit. destruct (sget Z.eqb pid (props (gov s))) as [p|]; [|discriminate].
  destruct (pay_keeps a (gov_acc (cfg s)) (bond_denom (cfg s)) amt s) as ((_ & _ & _ & K) & _).
  destruct (p_status p); try discriminate;
    (destruct ((amt <? 0) || (bal_of s a (bond_denom (cfg s)) - Z.max 0 (locked_of s a (bond_denom (cfg s))) <? amt)); [discriminate|]);
    intros H; inversion H; cbn [stake set_gov]; exact K.
Qed.

(* ---------- every operation, every history ---------- *)
Theorem init_idxP : idxP init.
Proof.
  split; [|split].
  - apply (matchb_ok k2_eqb k2_eqb_ok). vm_compute. reflexivity.
  - apply (matchb_ok k2_eqb k2_eqb_ok). vm_compute. reflexivity.
  - apply (matchb_ok k3_eqb k3_eqb_ok). vm_compute. reflexivity.
Qed.

Section Reach.
  Variable sigT : Type.
  Variable recover : Z -> Z -> sigT -> option Z.
  Variable env : Type.
  Variable ask : env -> query -> vans.
  Variable env_next : env -> query -> env.
  Hypothesis Sane : sane_env env ask.

  Theorem hstep_idxP : forall es o, Inv (snd es) -> idxP (snd es) -> idxP (snd (hstep sigT recover env ask env_next es o)).
  Proof.
    intros [e s] o I X. cbn [snd] in I, X. destruct o; cbn [hstep snd].
    - destruct (migrate_tx sigT recover s from to sg) as [s'| |] eqn:H; cbn [keep]; try exact X.
      destruct (indexes sigT recover s from to sg s' (wf_pack s (iv_wf s I)) H) as (A & B & C & _).
      destruct X as (X1 & X2 & X3). split; [apply A, X1 | split; [apply B, X2 | apply C, X3]].
    - apply end_block_idxP; assumption.
    - destruct (submit_proposal a amt exp vp mind s) as [s'| |] eqn:H; cbn [keep]; try exact X.
      unfold submit_proposal in H.
      match type of H with context [add_deposit ?pid a amt ?x] => destruct (add_deposit pid a amt x) as [s2| |] eqn:A; try discriminate end.
      inversion H. subst s2. apply (idxP_same_stake s); [|exact X]. rewrite (add_deposit_stake _ _ _ _ _ A). reflexivity.
    - destruct (add_deposit pid a amt s) as [s'| |] eqn:H; cbn [keep]; try exact X.
      apply (idxP_same_stake s); [apply (add_deposit_stake _ _ _ _ _ H) | exact X].
    - destruct (cast_vote a pid s) as [s'| |] eqn:H; cbn [keep]; try exact X. unfold cast_vote in H.
      destruct (sget Z.eqb pid (props (gov s))) as [p|]; [|discriminate]. destruct (p_status p); try discriminate.
      inversion H. exact X.
    - unfold export_import. destruct Gen_C14.genesis_import_keeps_records; exact X.
    - destruct (fstep env ask env_next e s o) as [[e1 t]| |] eqn:H; cbn [fkeep snd]; try exact X.
      apply (fstep_idxP env ask env_next e s o e1 t (iv_wf s I) H X).
    - apply slash_syncs_idxP, X.
    - exact X.
    - exact X.
    - destruct (x <? 0); [exact X|]. apply (idxP_same_stake s); [apply stake_credit | exact X].
    - destruct ((a =? pool_nb (cfg s)) || (a =? gov_acc (cfg s))); exact X.
  Qed.

  Theorem reach_idxP : forall e ops, idxP (snd (hrun sigT recover env ask env_next (e, init) ops)).
  Proof.
    intros e ops.
    assert (G : forall ops es, Inv (snd es) -> idxP (snd es) ->
                  Inv (snd (hrun sigT recover env ask env_next es ops)) /\ idxP (snd (hrun sigT recover env ask env_next es ops))).
    { induction ops0 as [|o ops0 IH]; intros es I X; [split; assumption|]. cbn [hrun fold_left].
      apply IH; [apply (hstep_inv sigT recover env ask env_next Sane), I | apply hstep_idxP; assumption]. }
    apply (G ops (e, init) init_inv init_idxP).
  Qed.
End Reach.
