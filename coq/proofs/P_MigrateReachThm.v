(* P_MigrateReachThm.v — the C14 step theorems restated for every reachable state: every hypothesis about the shape of
   the state (wf, qcoverb, idx36_ok, govwfb, queued_exist, non-negative balances) is discharged by P_MigrateReach.v.
   What remains as hypotheses is named: `sane_env` (validator-side answers are non-negative amounts) and, where a
   balance sign is needed, that the target is not one of the two module accounts. *)
From Coq Require Import ZArith List Bool Lia.
From FxV Require Import model.M_Migrate model.M_MigrateSpec model.M_MigrateCorr model.M_MigrateFollow model.M_MigrateHistory
  proofs.P_MigrateBase proofs.P_MigrateMature proofs.P_MigrateHist proofs.P_Migrate proofs.P_MigrateFollow proofs.P_MigrateFollowR
  proofs.P_MigrateReachGov proofs.P_MigrateReach proofs.P_MigrateReachIdx.
Import ListNotations.
Open Scope Z_scope.

(* the decidable form of the extra invariant components, evaluated on the real states by the correspondence run *)
Lemma Inv_invb : forall s, Inv s -> invb s = true.
Proof.
  intros s I. destruct (iv_ent s I) as [EU ER]. destruct (iv_gov s I) as [G1 G2 G3 G4 G5 G6 G7 G8].
  unfold invb, entb, govqb. repeat rewrite andb_true_iff. repeat split.
  - apply forallb_forall. intros kv Ik. apply forallb_forall. intros e Ie. destruct (EU kv e Ik Ie).
    apply andb_true_iff. split; apply Z.leb_le; assumption.
  - apply forallb_forall. intros kv Ik. apply forallb_forall. intros e Ie. apply Z.leb_le. apply (ER kv e Ik Ie).
  - apply forallb_forall. intros [te pid] X. destruct (G3 _ _ X) as (p & Sp & St & ->). cbn [fst snd]. rewrite Sp, St. apply Z.eqb_refl.
  - apply forallb_forall. intros [te pid] X. destruct (G4 _ _ X) as (p & Sp & St & ->). cbn [fst snd]. rewrite Sp, St. apply Z.eqb_refl.
  - apply forallb_forall. intros [pid p] X. cbn [fst]. apply Z.ltb_lt. apply (G6 pid p). apply (in_sget_nodup Z.eqb Zeqb_ok); assumption.
  - apply forallb_forall. intros kv X. apply Z.leb_le. apply (G7 kv X).
  - apply (nodupb_complete Z.eqb Zeqb_ok). exact G8.
Qed.

Section ReachThm.
  Variable sigT : Type.
  Variable recover : Z -> Z -> sigT -> option Z.
  Variable env : Type.
  Variable ask : env -> query -> vans.
  Variable env_next : env -> query -> env.
  Hypothesis Sane : sane_env env ask.

  Definition reached (e : env) (ops : list (hop sigT)) : state := snd (hrun sigT recover env ask env_next (e, init) ops).

  Lemma reached_hyps : forall e ops, let s := reached e ops in
    wf s /\ qcoverb s = true /\ idx36_ok s /\ govwfb s = true /\ queued_exist s /\ invb s = true /\
    (forall a d, a <> pool_nb (cfg s) -> a <> gov_acc (cfg s) -> 0 <= bal_of s a d).
  Proof.
    intros e ops s. destruct (reach_hyps sigT recover env ask env_next Sane e ops) as (A & B & C & D & E & F).
    split; [exact A|]. split; [exact B|]. split; [exact C|]. split; [exact D|]. split; [exact E|]. split; [|exact F].
    apply Inv_invb. apply (reach_inv sigT recover env ask env_next Sane e ops).
  Qed.

  Theorem reach_moves_everything : forall e ops from to sg s', let s := reached e ops in
    migrate_tx sigT recover s from to sg = Ok s' -> moved from to s s'.
  Proof. intros e ops from to sg s' s H. destruct (reached_hyps e ops) as (W & _). apply (moves_everything sigT recover _ _ _ _ _ W H). Qed.

  Theorem reach_queue_others : forall e ops from to sg s', let s := reached e ops in
    migrate_tx sigT recover s from to sg = Ok s' ->
    forall t i, (forall p : Z * Z, fst p <> from -> nth_error (ubd_slice s t) i = Some p -> nth_error (ubd_slice s' t) i = Some p) /\
                (forall p : Z * (Z * Z), fst p <> from -> nth_error (red_slice s t) i = Some p -> nth_error (red_slice s' t) i = Some p) /\
                length (ubd_slice s' t) = length (ubd_slice s t).
  Proof. intros e ops from to sg s' s H. destruct (reached_hyps e ops) as (W & _). apply (queue_others sigT recover _ _ _ _ _ W H). Qed.

  (* the state after an accepted migration is again a state with the invariant (it is `reached e (ops ++ [HMigrate ..])`) *)
  Theorem reach_wf_preserved : forall e ops from to sg s', let s := reached e ops in
    migrate_tx sigT recover s from to sg = Ok s' -> s' = reached e (ops ++ [HMigrate sigT from to sg]) /\ Inv s'.
  Proof.
    intros e ops from to sg s' s H.
    assert (E : s' = reached e (ops ++ [HMigrate sigT from to sg])).
    { unfold reached, hrun. rewrite fold_left_app. cbn [fold_left]. fold (hrun sigT recover env ask env_next (e, init) ops).
      destruct (hrun sigT recover env ask env_next (e, init) ops) as [e0 s0] eqn:R. cbn [hstep snd].
      unfold s, reached in H. rewrite R in H. cbn [snd] in H. rewrite H. reflexivity. }
    split; [exact E|]. rewrite E. apply (reach_inv sigT recover env ask env_next Sane).
  Qed.

  Theorem reach_matured_funds : forall e ops from to sg s', let s := reached e ops in
    migrate_tx sigT recover s from to sg = Ok s' ->
    forall t,
    (forall a v, ubd_of (staking_endblock t s') a v =
       sel from to a (option_map (to_ubd to) (ubd_of (staking_endblock t s) from v)) None (ubd_of (staking_endblock t s) a v)) /\
    (from <> pool_nb (cfg s) -> to <> pool_nb (cfg s) -> forall a d, a <> pool_nb (cfg s) ->
       bal_of (staking_endblock t s') a d =
         sel from to a (bal_of (staking_endblock t s) to d + bal_of (staking_endblock t s) from d) 0
                       (bal_of (staking_endblock t s) a d)).
  Proof. intros e ops from to sg s' s H. destruct (reached_hyps e ops) as (W & Q & _). apply (matured_funds sigT recover _ _ _ _ _ W Q H). Qed.

  Theorem reach_endblock_pays : forall e ops t, let s := reached e ops in
    (forall a v, ubd_of (staking_endblock t s) a v = immature_opt t (ubd_of s a v)) /\
    (forall a d, a <> pool_nb (cfg s) ->
       bal_of (staking_endblock t s) a d = bal_of s a d + (if d =? bond_denom (cfg s) then payout t s a else 0)).
  Proof. intros e ops t s. destruct (reached_hyps e ops) as (W & Q & _). apply (endblock_pays s t W Q). Qed.

  Theorem reach_followups_commute : forall e ops from to sg s' e0 fops e1 t, let s := reached e ops in
    pool_nb (cfg s) <> from -> pool_nb (cfg s) <> to -> gov_acc (cfg s) <> to ->
    migrate_tx sigT recover s from to sg = Ok s' ->
    (forall o, In o fops -> factor o <> to) ->
    fruns env ask env_next e0 s fops = Ok (e1, t) ->
    exists t', fruns env ask env_next e0 s' (map (ren_fop from to) fops) = Ok (e1, t') /\ sim2 from to t t'.
  Proof.
    intros e ops from to sg s' e0 fops e1 t s Npf Npt Ngt H Ha R.
    destruct (reached_hyps e ops) as (W & Q & I36 & _ & _ & _ & B).
    apply (followups_commute_w sigT recover env ask env_next s from to sg s' e0 fops e1 t W Q); try assumption.
    intros d. apply B; intros X; [apply Npt | apply Ngt]; symmetry; exact X.
  Qed.

  Theorem reach_indexes : forall e ops from to sg s', let s := reached e ops in
    (idx71_ok s /\ idx33_ok s /\ idx35_ok s /\ idx36_ok s) /\
    (migrate_tx sigT recover s from to sg = Ok s' ->
     (idx71_ok s' /\ idx33_ok s' /\ idx35_ok s' /\ idx36_ok s') /\ (idx38_ok s -> idx38_ok s') /\
     (forall kv e, In kv (ubds (stake s)) -> fst (fst kv) = from -> In e (u_entries (snd kv)) ->
        exists k, sget Z.eqb (ue_id e) (unbidx (stake s')) = Some k /\ In (ue_id e, k) (unb_writes from to s)) /\
     (forall kv e, In kv (reds (stake s)) -> fst (fst kv) = from -> In e (r_entries (snd kv)) ->
        exists k, sget Z.eqb (re_id e) (unbidx (stake s')) = Some k /\ In (re_id e, k) (unb_writes from to s))).
  Proof.
    intros e ops from to sg s' s. destruct (reached_hyps e ops) as (W & _ & I36 & _).
    destruct (reach_idxP sigT recover env ask env_next Sane e ops) as (I71 & I33 & I35).
    split; [repeat split; assumption|]. intros H.
    destruct (indexes sigT recover _ _ _ _ _ W H) as (A & B & C & D & E & F & G).
    split; [split; [apply A, I71 | split; [apply B, I33 | split; [apply C, I35 | apply D, I36]]]|].
    split; [exact E|]. split; [exact F | exact G].
  Qed.

  Theorem reach_source_emptied : forall e ops from to sg s', let s := reached e ops in
    migrate_tx sigT recover s from to sg = Ok s' ->
    (forall d, bal_of s' from d = 0) /\
    (forall d x, sget k2_eqb (from, d) (bal s) = Some x -> locked_of s from d <= 0) /\
    accts s' = accts s /\ locked s' = locked s.
  Proof.
    intros e ops from to sg s' s H. destruct (reached_hyps e ops) as (W & _).
    destruct (source_emptied sigT recover _ _ _ _ _ W H) as [A B].
    destruct (vesting_not_carried sigT recover _ _ _ _ _ W H) as (C & D & _).
    split; [exact A|]. split; [exact B|]. split; [exact C | exact D].
  Qed.

  Theorem reach_gov_block : forall e ops from to sg, let s := reached e ops in
    involved_open s from \/ involved_open s to -> forall s', migrate_tx sigT recover s from to sg <> Ok s'.
  Proof. intros e ops from to sg s Hi. destruct (reached_hyps e ops) as (_ & _ & _ & G & _). apply (gov_block sigT recover s from to sg G Hi). Qed.

  Theorem reach_gov_exact : forall e ops from to, let s := reached e ops in
    (gov_validate from to s = Ok tt <-> ~ seen_inactive s from to /\ ~ seen_active s from to).
  Proof. intros e ops from to s. destruct (reached_hyps e ops) as (_ & _ & _ & _ & G & _). apply (gov_exact s from to G). Qed.
End ReachThm.

(* ---------- a reachable state with delegations, unbonding and redelegation entries and an open proposal ---------- *)
Definition h_next (e : Z) (_ : query) : Z := e + 1.
Definition h_ask (e : Z) (q : query) : vans :=
  {| a_reward := 7; a_start := {| st_period := 9; st_stake := 1; st_height := q_height q |};
     a_amt := Z.abs (q_arg q); a_bonded := true; a_time := q_now q + 1814400; a_id := 100 + e; a_max := 7 |}.

Lemma h_ask_sane : sane_env Z h_ask.
Proof. intros e q. cbn. lia. Qed.

Definition ex_hist : list (hop unit) :=
  [HAccount unit 1 2; HAccount unit 2 2; HAccount unit 3 2;
   HMint unit 1 0 100000; HMint unit 2 0 50000; HMint unit 3 0 50000; HMint unit 1 1 77;
   HFollow unit (FDelegate 1 13 1000); HFollow unit (FDelegate 3 13 500);
   HEndBlock unit 15 20 [] [] no_vside;
   HFollow unit (FUndelegate 1 13 100); HFollow unit (FRedelegate 1 13 14 200); HFollow unit (FUndelegate 3 13 50);
   HSubmit unit 2 500 false 1209600 10000;
   HEndBlock unit 25 30 [] [] no_vside;
   HFollow unit (FWithdraw 1 13)].

Definition ex_reach : state := reached unit sig_any Z h_ask h_next 0 ex_hist.
Definition ex_follow : list fop := [FUndelegate 1 13 100; FWithdraw 1 14; FDelegate 1 15 40].

Theorem reach_example :
  let s := ex_reach in
  (* the state: delegations, an unbonding and a redelegation entry of account 1, an open proposal of account 2 *)
  del_of s 1 13 = Some (D 1 13 700) /\ del_of s 1 14 = Some (D 1 14 200) /\
  ubd_of s 1 13 = Some (U 1 13 [UE 3 1814420 100 100 102 0]) /\
  red_of s 1 13 14 = Some (R 1 13 14 [RE 3 1814420 200 200 104 0]) /\
  ubd_slice s 1814420 = [(1, 13); (3, 13)] /\ involved_open s 2 /\ bal_of s 1 0 = 99021 /\
  (* the blocked and the accepted migration *)
  migrate_tx unit sig_any s 2 6 (Some tt) = Err EGov /\
  exists s', migrate_tx unit sig_any s 1 5 (Some tt) = Ok s' /\
    del_of s' 5 13 = Some (D 5 13 700) /\ del_of s' 1 13 = None /\
    ubd_of s' 5 13 = Some (U 5 13 [UE 3 1814420 100 100 102 0]) /\
    red_of s' 5 13 14 = Some (R 5 13 14 [RE 3 1814420 200 200 104 0]) /\
    ubd_slice s' 1814420 = [(5, 13); (3, 13)] /\ bal_of s' 5 0 = 99021 /\ bal_of s' 1 0 = 0 /\
    sget Z.eqb 102 (unbidx (stake s')) = Some (UKubd 5 13) /\ sget Z.eqb 104 (unbidx (stake s')) = Some (UKred 5 13 14) /\
    (* matured funds go to the target *)
    bal_of (staking_endblock 1814420 s') 5 0 = 99121 /\ bal_of (staking_endblock 1814420 s) 1 0 = 99121 /\
    (* the follow-ups the source could have made are accepted for the target *)
    (exists t t', fruns Z h_ask h_next 7 s ex_follow = Ok (10, t) /\
                  fruns Z h_ask h_next 7 s' (map (ren_fop 1 5) ex_follow) = Ok (10, t') /\
                  del_of t 1 15 = Some (D 1 15 40) /\ del_of t' 5 15 = Some (D 5 15 40) /\
                  bal_of t 1 0 = 98995 /\ bal_of t' 5 0 = 98995).
Proof.
  cbv zeta. repeat (split; [vm_compute; reflexivity|]).
  split.
  - exists 1, {| p_status := PDeposit; p_proposer := 2; p_total := 500; p_dep_end := 1209620; p_vote_end := 0;
                 p_vp := 1209600; p_min := 10000; p_exp := false |}. vm_compute. auto.
  - repeat (split; [vm_compute; reflexivity|]).
    eexists. split; [vm_compute; reflexivity|].
    repeat (split; [vm_compute; reflexivity|]).
    eexists. eexists. split; [vm_compute; reflexivity|]. split; [vm_compute; reflexivity|].
    repeat (split; [vm_compute; reflexivity|]). vm_compute. reflexivity.
Qed.
