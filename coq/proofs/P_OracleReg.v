(* P_OracleReg.v — proofs about model.M_OracleReg (property C13). *)
From Coq Require Import ZArith List Bool Lia.
From FxV Require Import model.M_OracleReg.
Import ListNotations.
Open Scope Z_scope.

(* ------------------------------------------------------------------ *)
(* generic helpers                                                     *)

Lemma upd_same : forall A (f : Z -> A) k v, upd f k v k = v.
Proof. intros. unfold upd. rewrite Z.eqb_refl. reflexivity. Qed.
Lemma upd_other : forall A (f : Z -> A) k v x, x <> k -> upd f k v x = f x.
Proof. intros. unfold upd. destruct (Z.eqb_spec x k); congruence. Qed.
Lemma upd_cases : forall A (f : Z -> A) k v x, (x = k /\ upd f k v x = v) \/ (x <> k /\ upd f k v x = f x).
Proof. intros. unfold upd. destruct (Z.eqb_spec x k); auto. Qed.

Lemma memZ_In : forall x l, memZ x l = true <-> In x l.
Proof.
  intros. unfold memZ. rewrite existsb_exists. split.
  - intros [y [Hy E]]. apply Z.eqb_eq in E. subst. exact Hy.
  - intros H. exists x. split; auto. apply Z.eqb_refl.
Qed.

Ltac proj := cbn [height now ubtime vals prm proposal keys recs by_bridger by_ext total_power deleg ubds reds
                  bal_o bal_d sets latest_set slashed_set last_slash_height batches slashed_batch_block calls
                  slashed_call next_call burned gov_und set_mem last_obs
                  o_addr o_bridger o_ext o_amount o_start o_online o_val o_slash
                  l_recs l_lsh l_has] in *.

Ltac unfold_power := unfold refresh_power, set_power in *; proj.

(* destruct the guards of a transition that returned Ok *)
Ltac norm_guards :=
  repeat match goal with
  | G : match ?x with Some _ => true | None => false end = false |- _ => destruct x eqn:?; [discriminate G | clear G]
  | G : match ?x with Some _ => true | None => false end = true |- _ => destruct x eqn:?; [clear G | discriminate G]
  | G : negb _ = false |- _ => apply Bool.negb_false_iff in G
  | G : negb _ = true |- _ => apply Bool.negb_true_iff in G
  end.

Ltac guards H :=
  repeat match type of H with
         | (if ?c then _ else _) = Ok _ => destruct c eqn:?; [try discriminate H | try discriminate H]
         | match ?x with Some _ => _ | None => _ end = Ok _ => destruct x eqn:?; [| try discriminate H]
         | (let (_, _) := ?p in _) = Ok _ => destruct p
         end;
  norm_guards.

(* ------------------------------------------------------------------ *)
(* C13_indexes: records and the two reverse indexes are mutually inverse *)

Definition idx_inv (s : state) : Prop :=
  (forall a r, recs s a = Some r ->
       o_addr r = a /\ by_bridger s (o_bridger r) = Some a /\ by_ext s (o_ext r) = Some a) /\
  (forall b a, by_bridger s b = Some a -> exists r, recs s a = Some r /\ o_bridger r = b) /\
  (forall e a, by_ext s e = Some a -> exists r, recs s a = Some r /\ o_ext r = e).

(* two record stores with the same domain and the same identifying fields *)
Definition same_ids (f g : Z -> option oracle) : Prop :=
  forall a, match f a, g a with
            | Some r, Some r' => o_addr r = o_addr r' /\ o_bridger r = o_bridger r' /\ o_ext r = o_ext r'
            | None, None => True
            | _, _ => False
            end.

Lemma same_ids_refl : forall f, same_ids f f.
Proof. intros f a. destruct (f a); auto. Qed.
Lemma same_ids_trans : forall f g h, same_ids f g -> same_ids g h -> same_ids f h.
Proof.
  intros f g h H1 H2 a. specialize (H1 a). specialize (H2 a).
  destruct (f a), (g a), (h a); try tauto. intuition congruence.
Qed.

Lemma idx_inv_same_ids : forall s s',
  idx_inv s -> same_ids (recs s) (recs s') ->
  by_bridger s' = by_bridger s -> by_ext s' = by_ext s -> idx_inv s'.
Proof.
  intros s s' (I1 & I2 & I3) HS HB HE. unfold idx_inv. rewrite HB, HE. repeat split.
  - specialize (HS a). rewrite H in HS. destruct (recs s a) eqn:E; [|tauto].
    destruct HS as (A1 & A2 & A3). destruct (I1 _ _ E) as (B1 & B2 & B3). congruence.
  - specialize (HS a). rewrite H in HS. destruct (recs s a) eqn:E; [|tauto].
    destruct HS as (A1 & A2 & A3). destruct (I1 _ _ E) as (B1 & B2 & B3). congruence.
  - specialize (HS a). rewrite H in HS. destruct (recs s a) eqn:E; [|tauto].
    destruct HS as (A1 & A2 & A3). destruct (I1 _ _ E) as (B1 & B2 & B3). congruence.
  - intros b a H. destruct (I2 _ _ H) as (r & Hr & Hb). specialize (HS a). rewrite Hr in HS.
    destruct (recs s' a) eqn:E; [|tauto]. exists o. split; auto. intuition congruence.
  - intros e a H. destruct (I3 _ _ H) as (r & Hr & Hb). specialize (HS a). rewrite Hr in HS.
    destruct (recs s' a) eqn:E; [|tauto]. exists o. split; auto. intuition congruence.
Qed.

(* updating one record without touching its identifying fields *)
Lemma same_ids_upd : forall f a r r',
  f a = Some r -> o_addr r' = o_addr r -> o_bridger r' = o_bridger r -> o_ext r' = o_ext r ->
  same_ids f (upd f a (Some r')).
Proof.
  intros f a r r' Hf A B E x. destruct (upd_cases _ f a (Some r') x) as [[-> ->]|[Hn ->]].
  - rewrite Hf. auto.
  - destruct (f x); auto.
Qed.

(* slashing loop *)
Lemma slash_one_same : forall h a st, same_ids (l_recs st) (l_recs (slash_one h a st)).
Proof.
  intros. unfold slash_one. destruct (l_recs st a) eqn:E; proj; try apply same_ids_refl.
  destruct (o_online o); proj; try apply same_ids_refl.
  eapply same_ids_upd; eauto.
Qed.

Lemma slash_obj_same : forall k h snap x st, same_ids (l_recs st) (l_recs (slash_obj k h snap st x)).
Proof.
  intros k h snap x. unfold slash_obj. induction snap as [|r t IH]; intros st; cbn [fold_left].
  - apply same_ids_refl.
  - destruct (must_sign k r x).
    + eapply same_ids_trans; [apply slash_one_same | apply IH].
    + apply IH.
Qed.

Lemma slash_objs_same : forall k h snap l st, same_ids (l_recs st) (l_recs (fold_left (slash_obj k h snap) l st)).
Proof.
  intros k h snap l. induction l as [|x t IH]; intros st; cbn [fold_left].
  - apply same_ids_refl.
  - eapply same_ids_trans; [apply slash_obj_same | apply IH].
Qed.

(* governance loop *)
Definition gov_frame (s s' : state) : Prop :=
  same_ids (recs s) (recs s') /\ by_bridger s' = by_bridger s /\ by_ext s' = by_ext s /\
  proposal s' = proposal s /\ keys s' = keys s /\ prm s' = prm s /\ height s' = height s /\
  burned s' = burned s /\ bal_o s' = bal_o s.

Lemma gov_frame_refl : forall s, gov_frame s s.
Proof. intros. unfold gov_frame. repeat split; auto using same_ids_refl. Qed.

Lemma gov_frame_trans : forall a b c, gov_frame a b -> gov_frame b c -> gov_frame a c.
Proof.
  unfold gov_frame. intros a b c (A1&A2&A3&A4&A5&A6&A7&A8&A9) (B1&B2&B3&B4&B5&B6&B7&B8&B9).
  repeat split; try congruence. eapply same_ids_trans; eauto.
Qed.

(* the snapshot record r agrees with the stored record on the identifying fields *)
Definition ids_match (f : Z -> option oracle) (r : oracle) : Prop :=
  match f (o_addr r) with
  | Some r0 => o_addr r0 = o_addr r /\ o_bridger r0 = o_bridger r /\ o_ext r0 = o_ext r
  | None => False
  end.

Lemma ids_match_same : forall f g r, same_ids f g -> ids_match f r -> ids_match g r.
Proof.
  unfold ids_match. intros f g r H M. specialize (H (o_addr r)).
  destruct (f (o_addr r)), (g (o_addr r)); try tauto. intuition congruence.
Qed.

(* inversion of one successful UnbondedOracleFromProposal *)
Ltac inv_gov1 H :=
  unfold gov_unbond1 in H;
  match type of H with context[match delegate_token ?a ?b ?c ?d with _ => _ end] =>
    let tok := fresh "tok" in let DT := fresh "DT" in
    destruct (delegate_token a b c d) as [tok|] eqn:DT; [|discriminate H] end;
  match type of H with context[if ?c then _ else _] => destruct c; [discriminate H|] end;
  match type of H with context[match stk_unbond ?a ?b ?c ?d ?e with _ => _ end] =>
    let V' := fresh "V'" in let dl' := fresh "dl'" in let back := fresh "back" in let SU := fresh "SU" in
    destruct (stk_unbond a b c d e) as [[[V' dl'] back]|] eqn:SU; [|discriminate H] end;
  inversion H; subst; clear H.

Lemma gov_unbond1_frame : forall rws s r s',
  gov_unbond1 rws (Some s) r = Some s' -> ids_match (recs s) r -> gov_frame s s'.
Proof.
  intros rws s r s' H Hr. inv_gov1 H. unfold gov_frame; proj. repeat split; auto.
  unfold ids_match in Hr. destruct (recs s (o_addr r)) eqn:E; [|tauto].
  intros x. destruct (upd_cases _ (recs s) (o_addr r) (Some (mkOracle (o_addr r) (o_bridger r) (o_ext r) (o_amount r) (o_start r) false (o_val r) (o_slash r))) x) as [[-> ->]|[Hn ->]].
  - rewrite E. proj. tauto.
  - destruct (recs s x); auto.
Qed.

Lemma gov_unbond1_none : forall rws l, fold_left (gov_unbond1 rws) l None = None.
Proof. induction l; cbn; auto. Qed.

Lemma gov_fold_frame : forall rws l s s',
  fold_left (gov_unbond1 rws) l (Some s) = Some s' ->
  (forall r, In r l -> ids_match (recs s) r) -> gov_frame s s'.
Proof.
  intros rws l. induction l as [|r t IH]; intros s s' H HM; cbn [fold_left] in H.
  - inversion H; subst. apply gov_frame_refl.
  - destruct (gov_unbond1 rws (Some s) r) as [s1|] eqn:E.
    + assert (F : gov_frame s s1) by (eapply gov_unbond1_frame; eauto; apply HM; left; auto).
      eapply gov_frame_trans; [exact F|]. apply IH; auto.
      intros r' Hr'. eapply ids_match_same; [apply F | apply HM; right; auto].
    + rewrite gov_unbond1_none in H. discriminate.
Qed.

Lemma all_recs_In : forall s r, In r (all_recs s) -> exists a, In a (keys s) /\ recs s a = Some r.
Proof.
  intros s r H. unfold all_recs in H. apply in_flat_map in H. destruct H as (a & Ha & Hr).
  exists a. split; auto. destruct (recs s a); cbn in Hr; [destruct Hr as [->|[]]; auto | tauto].
Qed.

Lemma all_recs_ids_match : forall s r, idx_inv s -> In r (all_recs s) -> ids_match (recs s) r.
Proof.
  intros s r (I1 & _) H. apply all_recs_In in H. destruct H as (a & _ & Hr).
  destruct (I1 _ _ Hr) as (A & _). unfold ids_match. rewrite A, Hr. auto.
Qed.

(* --- every accepted operation preserves the index invariant --- *)

Lemma bond_idx : forall s a b e v amt s', idx_inv s -> bond s a b e v amt = Ok s' -> idx_inv s'.
Proof.
  intros s a b e v amt s' (I1 & I2 & I3) H. unfold bond in H. guards H.
  inversion H; subst; clear H. unfold idx_inv. unfold_power. repeat split.
  - destruct (upd_cases _ (recs s) a (Some (mkOracle a b e amt (height s) true v 0)) a0) as [[-> E]|[Hn E]];
      rewrite E in H; [inversion H; subst; reflexivity | apply (I1 _ _ H)].
  - destruct (upd_cases _ (recs s) a (Some (mkOracle a b e amt (height s) true v 0)) a0) as [[-> E]|[Hn E]];
      rewrite E in H.
    + inversion H; subst; proj. apply upd_same.
    + destruct (I1 _ _ H) as (_ & B & _). rewrite upd_other; auto. intro; subst. congruence.
  - destruct (upd_cases _ (recs s) a (Some (mkOracle a b e amt (height s) true v 0)) a0) as [[-> E]|[Hn E]];
      rewrite E in H.
    + inversion H; subst; proj. apply upd_same.
    + destruct (I1 _ _ H) as (_ & _ & B). rewrite upd_other; auto. intro; subst. congruence.
  - intros b0 a0 H. destruct (upd_cases _ (by_bridger s) b (Some a) b0) as [[-> E]|[Hn E]]; rewrite E in H.
    + inversion H; subst. rewrite upd_same. eexists; split; eauto.
    + destruct (I2 _ _ H) as (r & Hr & Hb). exists r. split; auto.
      rewrite upd_other; auto. intro; subst. congruence.
  - intros e0 a0 H. destruct (upd_cases _ (by_ext s) e (Some a) e0) as [[-> E]|[Hn E]]; rewrite E in H.
    + inversion H; subst. rewrite upd_same. eexists; split; eauto.
    + destruct (I3 _ _ H) as (r & Hr & Hb). exists r. split; auto.
      rewrite upd_other; auto. intro; subst. congruence.
Qed.

Lemma add_delegate_idx : forall s a amt rw s', idx_inv s -> add_delegate s a amt rw = Ok s' -> idx_inv s'.
Proof.
  intros s a amt rw s' I H. unfold add_delegate in H. guards H.
  inversion H; subst; clear H. destruct I as (I1 & I2 & I3).
  eapply idx_inv_same_ids with (s := s); [unfold idx_inv; auto | | reflexivity | reflexivity].
  unfold_power. eapply same_ids_upd; eauto.
Qed.

Lemma re_delegate_idx : forall s a v rw s', idx_inv s -> re_delegate s a v rw = Ok s' -> idx_inv s'.
Proof.
  intros s a v rw s' I H. unfold re_delegate in H. guards H.
  inversion H; subst; clear H.
  eapply idx_inv_same_ids with (s := s); [auto | | reflexivity | reflexivity].
  proj. eapply same_ids_upd; eauto.
Qed.

Lemma edit_bridger_idx : forall s a b s', idx_inv s -> edit_bridger s a b = Ok s' -> idx_inv s'.
Proof.
  intros s a b s' (I1 & I2 & I3) H. unfold edit_bridger in H. guards H.
  inversion H; subst; clear H. rename o into r. rename Heqo into Hr.
  destruct (I1 _ _ Hr) as (RA & RB & RE).
  assert (Hnb : o_bridger r <> b) by (apply Z.eqb_neq; assumption).
  unfold idx_inv; proj. repeat split.
  - destruct (upd_cases _ (recs s) a (Some (mkOracle (o_addr r) b (o_ext r) (o_amount r) (o_start r) (o_online r) (o_val r) (o_slash r))) a0) as [[-> E]|[Hn E]];
      rewrite E in H; [inversion H; subst; proj; auto | apply (I1 _ _ H)].
  - destruct (upd_cases _ (recs s) a (Some (mkOracle (o_addr r) b (o_ext r) (o_amount r) (o_start r) (o_online r) (o_val r) (o_slash r))) a0) as [[-> E]|[Hn E]];
      rewrite E in H.
    + inversion H; subst; proj. apply upd_same.
    + destruct (I1 _ _ H) as (_ & B & _).
      rewrite upd_other by (intro; subst; congruence).
      rewrite upd_other; auto. intro E2. rewrite E2 in B. congruence.
  - destruct (upd_cases _ (recs s) a (Some (mkOracle (o_addr r) b (o_ext r) (o_amount r) (o_start r) (o_online r) (o_val r) (o_slash r))) a0) as [[-> E]|[Hn E]];
      rewrite E in H.
    + inversion H; subst; proj. auto.
    + apply (I1 _ _ H).
  - intros b0 a0 H.
    destruct (upd_cases _ (upd (by_bridger s) (o_bridger r) None) b (Some a) b0) as [[-> E]|[Hn E]]; rewrite E in H.
    + inversion H; subst. rewrite upd_same. eexists; split; eauto.
    + destruct (upd_cases _ (by_bridger s) (o_bridger r) None b0) as [[-> E2]|[Hn2 E2]]; rewrite E2 in H; [discriminate|].
      destruct (I2 _ _ H) as (r0 & Hr0 & Hb0). exists r0. split; auto.
      rewrite upd_other; auto. intro; subst. congruence.
  - intros e0 a0 H. destruct (I3 _ _ H) as (r0 & Hr0 & He0).
    destruct (upd_cases _ (recs s) a (Some (mkOracle (o_addr r) b (o_ext r) (o_amount r) (o_start r) (o_online r) (o_val r) (o_slash r))) a0) as [[-> E]|[Hn E]];
      rewrite E.
    + eexists; split; eauto. proj. congruence.
    + eauto.
Qed.

Lemma unbond_idx : forall s a s', idx_inv s -> unbond s a = Ok s' -> idx_inv s'.
Proof.
  intros s a s' (I1 & I2 & I3) H. unfold unbond, unbond_gen in H. guards H.
  inversion H; subst; clear H. rename o into r. rename Heqo into Hr.
  destruct (I1 _ _ Hr) as (RA & RB & RE).
  unfold idx_inv; proj. repeat split.
  - destruct (upd_cases _ (recs s) a None a0) as [[-> E]|[Hn E]]; rewrite E in H; [discriminate | apply (I1 _ _ H)].
  - destruct (upd_cases _ (recs s) a None a0) as [[-> E]|[Hn E]]; rewrite E in H; [discriminate|].
    destruct (I1 _ _ H) as (_ & B & _). rewrite upd_other; auto. intro E2. rewrite E2 in B. congruence.
  - destruct (upd_cases _ (recs s) a None a0) as [[-> E]|[Hn E]]; rewrite E in H; [discriminate|].
    destruct (I1 _ _ H) as (_ & _ & B). rewrite upd_other; auto. intro E2. rewrite E2 in B. congruence.
  - intros b0 a0 H.
    destruct (upd_cases _ (by_bridger s) (o_bridger r) None b0) as [[-> E2]|[Hn2 E2]]; rewrite E2 in H; [discriminate|].
    destruct (I2 _ _ H) as (r0 & Hr0 & Hb0). exists r0. split; auto.
    rewrite upd_other; auto. intro; subst. congruence.
  - intros e0 a0 H.
    destruct (upd_cases _ (by_ext s) (o_ext r) None e0) as [[-> E2]|[Hn2 E2]]; rewrite E2 in H; [discriminate|].
    destruct (I3 _ _ H) as (r0 & Hr0 & Hb0). exists r0. split; auto.
    rewrite upd_other; auto. intro; subst. congruence.
Qed.

Lemma gov_set_frame : forall s l rws s', idx_inv s -> gov_set s l rws = Ok s' ->
  same_ids (recs s) (recs s') /\ by_bridger s' = by_bridger s /\ by_ext s' = by_ext s /\
  proposal s' = l /\ keys s' = keys s /\ prm s' = prm s /\ height s' = height s /\ burned s' = burned s /\
  bal_o s' = bal_o s.
Proof.
  intros s l rws s' I H. unfold gov_set in H.
  destruct (match l with [] => true | _ => false end); [discriminate|].
  destruct (negb (nodupb l)); [discriminate|].
  destruct (max_oracle_size <? Z.of_nat (length l)); [discriminate|].
  match type of H with (if ?c then _ else _) = _ => destruct c; [discriminate|] end.
  match type of H with match fold_left ?f ?g (Some ?s1) with _ => _ end = _ =>
    destruct (fold_left f g (Some s1)) as [s2|] eqn:F; [|discriminate]; set (st1 := s1) in * end.
  inversion H; subst; clear H.
  assert (G : gov_frame st1 s').
  { eapply gov_fold_frame; eauto. intros r Hr. apply filter_In in Hr. destruct Hr as [Hr _].
    apply (all_recs_ids_match s r I Hr). }
  unfold gov_frame in G. subst st1. proj. tauto.
Qed.

Lemma gov_set_idx : forall s l rws s', idx_inv s -> gov_set s l rws = Ok s' -> idx_inv s'.
Proof.
  intros s l rws s' I H. destruct (gov_set_frame _ _ _ _ I H) as (A & B & C & _).
  eapply idx_inv_same_ids; eauto.
Qed.

Lemma confirm_idx : forall s k n b e ok s', idx_inv s -> confirm s k n b e ok = Ok s' -> idx_inv s'.
Proof.
  intros s k n b e ok s' I H. unfold confirm in H. guards H. inversion H; subst; clear H.
  unfold idx_inv, set_objs in *; proj. exact I.
Qed.

Lemma slash_three_same : forall h snap l1 l2 l3 f lsh b,
  same_ids f (l_recs (fold_left (slash_obj KCall h snap) l3 (fold_left (slash_obj KBatch h snap) l2
                        (fold_left (slash_obj KSet h snap) l1 (mkL f lsh b))))).
Proof.
  intros. eapply same_ids_trans; [exact (slash_objs_same KSet h snap l1 (mkL f lsh b))|].
  eapply same_ids_trans; apply slash_objs_same.
Qed.

Lemma recs_refresh_if : forall (b : bool) s, recs (if b then refresh_power s else s) = recs s.
Proof. intros. destruct b; reflexivity. Qed.

Lemma slashing_recs : forall s s2, slashing s = Some s2 ->
  same_ids (recs s) (recs s2) /\ by_bridger s2 = by_bridger s /\ by_ext s2 = by_ext s.
Proof.
  intros s s2 H. unfold slashing in H.
  match type of H with (if ?c then _ else _) = _ => destruct c; [discriminate|] end.
  inversion H; subst; clear H.
  match goal with |- context[if ?c then refresh_power ?x else ?x] => destruct c end;
    unfold_power; (split; [| split; reflexivity]); apply slash_three_same.
Qed.

(* createOracleSetRequest and pruneOracleSet touch oracle sets only *)
Definition same_registry (s s' : state) : Prop :=
  recs s' = recs s /\ by_bridger s' = by_bridger s /\ by_ext s' = by_ext s /\ keys s' = keys s /\
  proposal s' = proposal s /\ deleg s' = deleg s /\ gov_und s' = gov_und s /\ prm s' = prm s /\
  burned s' = burned s /\ bal_o s' = bal_o s /\ bal_d s' = bal_d s /\ ubds s' = ubds s /\
  height s' = height s /\ vals s' = vals s.

Lemma create_set_same : forall s s3, create_set s = Some s3 -> same_registry s s3.
Proof.
  intros s s3 H. unfold create_set in H. destruct (need_set s) as [need|]; [|discriminate].
  inversion H; subst; clear H.
  match goal with |- context[if ?c then _ else _] => destruct c end; unfold same_registry; unfold_power;
    repeat split; reflexivity.
Qed.

Lemma prune_sets_same : forall s, same_registry s (prune_sets s).
Proof.
  intros s. unfold prune_sets. destruct (last_obs s); [|unfold same_registry; repeat split; reflexivity].
  destruct (height s <? p_window (prm s)); unfold same_registry, set_objs; proj; repeat split; reflexivity.
Qed.

Lemma same_registry_trans : forall a b c, same_registry a b -> same_registry b c -> same_registry a c.
Proof. unfold same_registry. intros. intuition congruence. Qed.

Lemma end_block_inv : forall s t1 t2 pd s', end_block s t1 t2 pd = Ok s' ->
  exists s2 s3, slashing (staking_end s t1) = Some s2 /\ create_set s2 = Some s3 /\
                s' = next_block (prune_sets s3) t2.
Proof.
  intros s t1 t2 pd s' H. unfold end_block in H.
  destruct (slashing (staking_end s t1)) as [s2|]; [|discriminate].
  destruct (create_set s2) as [s3|] eqn:C; [|discriminate]. inversion H; subst. eauto.
Qed.

Lemma end_block_recs : forall s t1 t2 pd s', end_block s t1 t2 pd = Ok s' ->
  same_ids (recs s) (recs s') /\ by_bridger s' = by_bridger s /\ by_ext s' = by_ext s.
Proof.
  intros s t1 t2 pd s' H. apply end_block_inv in H. destruct H as (s2 & s3 & H2 & H3 & ->).
  apply slashing_recs in H2. destruct H2 as (A & B & C).
  destruct (same_registry_trans _ _ _ (create_set_same _ _ H3) (prune_sets_same s3)) as (D & E & F & _).
  unfold next_block; proj. rewrite D, E, F. auto.
Qed.

Lemma end_block_idx : forall s t1 t2 pd s', idx_inv s -> end_block s t1 t2 pd = Ok s' -> idx_inv s'.
Proof.
  intros s t1 t2 pd s' I H. destruct (end_block_recs _ _ _ _ _ H) as (A & B & C).
  eapply idx_inv_same_ids; eauto.
Qed.

(* ---------------- genesis export / import ---------------- *)

Section FoldUpd.
  Variable A : Type.
  Variables (kf : oracle -> Z) (vf : oracle -> A).
  Definition fold_upd (l : list oracle) (f0 : Z -> option A) : Z -> option A :=
    fold_left (fun f r => upd f (kf r) (Some (vf r))) l f0.

  Lemma fold_upd_some : forall l f0 k v,
    (forall r, In r l -> kf r = k -> vf r = v) ->
    (f0 k = Some v \/ exists r, In r l /\ kf r = k) -> fold_upd l f0 k = Some v.
  Proof.
    induction l as [|x t IH]; intros f0 k v HU HD; cbn.
    - destruct HD as [H|(r & [] & _)]; exact H.
    - apply IH; [intros r Hr; apply HU; right; exact Hr|].
      destruct (Z.eq_dec (kf x) k) as [E|N].
      + left. rewrite <- E, upd_same. f_equal. apply HU; [left; reflexivity | exact E].
      + destruct HD as [H|(r & [->|Hr] & Hk)].
        * left. rewrite upd_other; auto.
        * contradiction.
        * right. eauto.
  Qed.

  Lemma fold_upd_inv : forall l f0 k v, fold_upd l f0 k = Some v ->
    f0 k = Some v \/ exists r, In r l /\ kf r = k /\ vf r = v.
  Proof.
    induction l as [|x t IH]; intros f0 k v H; cbn in H; auto.
    apply IH in H. destruct H as [H|(r & Hr & Hk & Hv)].
    - destruct (upd_cases _ f0 (kf x) (Some (vf x)) k) as [[E E2]|[N E2]]; rewrite E2 in H.
      + right. exists x. inversion H. repeat split; auto. left; auto.
      + left; exact H.
    - right. exists r. repeat split; auto. right; auto.
  Qed.
End FoldUpd.

(* records taken from a consistent registry do not share an address, a bridger or an external address *)
Lemma all_recs_unique : forall s r1 r2, idx_inv s -> In r1 (all_recs s) -> In r2 (all_recs s) ->
  o_addr r1 = o_addr r2 \/ o_bridger r1 = o_bridger r2 \/ o_ext r1 = o_ext r2 -> r1 = r2.
Proof.
  intros s r1 r2 (I1 & _) H1 H2 E. apply all_recs_In in H1, H2.
  destruct H1 as (a1 & _ & R1). destruct H2 as (a2 & _ & R2).
  destruct (I1 _ _ R1) as (A1 & B1 & E1). destruct (I1 _ _ R2) as (A2 & B2 & E2).
  assert (a1 = a2) by (destruct E as [E|[E|E]]; congruence). subst. congruence.
Qed.

Lemma exported_sub : forall s r, In r (exported s) -> In r (all_recs s).
Proof.
  intros s r H. unfold exported in H. destruct Gen_OracleSlash.export_all_oracles; auto.
  unfold online_recs in H. apply filter_In in H. tauto.
Qed.

(* what the import leaves in the registry, whatever subset of the records was exported *)
Lemma export_import_registry : forall s s', idx_inv s -> export_import s = Ok s' ->
  keys s' = map o_addr (exported s) /\
  (forall a r, recs s' a = Some r <-> In r (exported s) /\ o_addr r = a) /\
  (forall b a, by_bridger s' b = Some a <-> exists r, In r (exported s) /\ o_bridger r = b /\ o_addr r = a) /\
  (forall e a, by_ext s' e = Some a <-> exists r, In r (exported s) /\ o_ext r = e /\ o_addr r = a).
Proof.
  intros s s' I H. unfold export_import in H. inversion H; subst; clear H. unfold_power.
  assert (U : forall r1 r2, In r1 (exported s) -> In r2 (exported s) ->
              o_addr r1 = o_addr r2 \/ o_bridger r1 = o_bridger r2 \/ o_ext r1 = o_ext r2 -> r1 = r2).
  { intros r1 r2 H1 H2. apply (all_recs_unique s); auto using exported_sub. }
  split; [reflexivity|]. split; [|split].
  - intros a r. split.
    + intros H. apply (fold_upd_inv _ o_addr (fun r => r)) in H. destruct H as [H|(r0 & Hr & Hk & Hv)]; [discriminate|].
      subst. auto.
    + intros (Hr & Ha). subst a. apply (fold_upd_some _ o_addr (fun r => r)).
      * intros r0 Hr0 E. apply U; auto.
      * right. eauto.
  - intros b a. split.
    + intros H. apply (fold_upd_inv _ o_bridger o_addr) in H. destruct H as [H|(r0 & Hr & Hk & Hv)]; [discriminate|]. eauto.
    + intros (r & Hr & Hb & Ha). subst. apply (fold_upd_some _ o_bridger o_addr).
      * intros r0 Hr0 E. f_equal. apply U; auto.
      * right. eauto.
  - intros e a. split.
    + intros H. apply (fold_upd_inv _ o_ext o_addr) in H. destruct H as [H|(r0 & Hr & Hk & Hv)]; [discriminate|]. eauto.
    + intros (r & Hr & Hb & Ha). subst. apply (fold_upd_some _ o_ext o_addr).
      * intros r0 Hr0 E. f_equal. apply U; auto.
      * right. eauto.
Qed.

Lemma export_import_idx : forall s s', idx_inv s -> export_import s = Ok s' -> idx_inv s'.
Proof.
  intros s s' I H. destruct (export_import_registry _ _ I H) as (_ & R & B & E).
  repeat split.
  - apply R in H0. tauto.
  - apply R in H0. destruct H0 as (Hr & Ha). apply B. eauto.
  - apply R in H0. destruct H0 as (Hr & Ha). apply E. eauto.
  - intros b a Hb. apply B in Hb. destruct Hb as (r & Hr & Hb & Ha). exists r. split; auto. apply R. auto.
  - intros e a He. apply E in He. destruct He as (r & Hr & He & Ha). exists r. split; auto. apply R. auto.
Qed.

(* an imported record is the stored record of its address *)
Lemma export_import_recs_sub : forall s s' a r, idx_inv s -> export_import s = Ok s' ->
  recs s' a = Some r -> recs s a = Some r.
Proof.
  intros s s' a r I H Hr. destruct (export_import_registry _ _ I H) as (_ & R & _).
  apply R in Hr. destruct Hr as (Hr & Ha). apply exported_sub, all_recs_In in Hr.
  destruct Hr as (a' & _ & Hr). destruct I as (I1 & _). destruct (I1 _ _ Hr) as (A & _). congruence.
Qed.

Theorem step_idx : forall s o s', idx_inv s -> step s o = Ok s' -> idx_inv s'.
Proof.
  intros s o s' I H. destruct o; cbn [step] in H.
  - eapply bond_idx; eauto.
  - eapply add_delegate_idx; eauto.
  - eapply re_delegate_idx; eauto.
  - eapply edit_bridger_idx; eauto.
  - unfold withdraw_reward in H. guards H. inversion H; subst. exact I.
  - eapply unbond_idx; eauto.
  - eapply gov_set_idx; eauto.
  - unfold set_params in H. guards H. inversion H; subst. exact I.
  - eapply confirm_idx; eauto.
  - unfold add_batch in H. guards H. inversion H; subst. exact I.
  - unfold del_batch in H. inversion H; subst. exact I.
  - unfold add_call in H. inversion H; subst. exact I.
  - unfold del_call in H. inversion H; subst. exact I.
  - unfold fund in H. inversion H; subst. exact I.
  - unfold slash_val in H. destruct (negb (has_val s v)); inversion H; subst; exact I.
  - unfold env_val in H. inversion H; subst. exact I.
  - unfold slash_past in H. inversion H; subst. exact I.
  - unfold env_stat in H. inversion H; subst. exact I.
  - unfold exec_batch in H. guards H. inversion H; subst. exact I.
  - eapply export_import_idx; eauto.
  - unfold observe_set in H. guards H. inversion H; subst. exact I.
  - eapply end_block_idx; eauto.
Qed.

Lemma exec_idx : forall s o, idx_inv s -> idx_inv (exec s o).
Proof.
  intros s o I. unfold exec. destruct (step s o) eqn:E; auto. eapply step_idx; eauto.
Qed.

Theorem run_idx : forall ops s, idx_inv s -> idx_inv (run s ops).
Proof.
  induction ops as [|o t IH]; intros s I; cbn [run fold_left]; auto.
  apply IH. apply exec_idx; auto.
Qed.

Lemma init_idx : forall h t ub vs p, idx_inv (init h t ub vs p).
Proof. intros. unfold idx_inv, init; proj. repeat split; intros; discriminate. Qed.

(* consequences in the wording of the property *)
Theorem indexes_one_to_one : forall h t ub vs p ops s, s = run (init h t ub vs p) ops ->
  (* each bridger address and each external address belongs to at most one oracle record *)
  (forall a1 a2 r1 r2, recs s a1 = Some r1 -> recs s a2 = Some r2 ->
      o_bridger r1 = o_bridger r2 \/ o_ext r1 = o_ext r2 -> a1 = a2) /\
  (* records are stored under their own oracle address *)
  (forall a r, recs s a = Some r -> o_addr r = a) /\
  (* the lookup indexes agree with the records, in both directions *)
  (forall a r, recs s a = Some r -> by_bridger s (o_bridger r) = Some a /\ by_ext s (o_ext r) = Some a) /\
  (forall b a, by_bridger s b = Some a -> exists r, recs s a = Some r /\ o_bridger r = b) /\
  (forall e a, by_ext s e = Some a -> exists r, recs s a = Some r /\ o_ext r = e).
Proof.
  intros h t ub vs p ops s ->. pose proof (run_idx ops _ (init_idx h t ub vs p)) as (I1 & I2 & I3).
  repeat split; auto; try (intros; apply (I1 _ _ H)).
  intros a1 a2 r1 r2 H1 H2 [E|E].
  - destruct (I1 _ _ H1) as (_ & B1 & _). destruct (I1 _ _ H2) as (_ & B2 & _). congruence.
  - destruct (I1 _ _ H1) as (_ & _ & B1). destruct (I1 _ _ H2) as (_ & _ & B2). congruence.
Qed.
