(* P_OracleReg2.v — stake accounting, penalties, slashing rule, unbonding (property C13). *)
From Coq Require Import ZArith List Bool Lia.
From FxV Require Import model.M_OracleReg proofs.P_OracleReg.
Import ListNotations.
Open Scope Z_scope.

Lemma upd2_same : forall f a b v, upd2 f a b v a b = v.
Proof. intros. unfold upd2. rewrite !Z.eqb_refl. reflexivity. Qed.
Lemma upd2_other_a : forall f a b v x y, x <> a -> upd2 f a b v x y = f x y.
Proof. intros. unfold upd2. destruct (Z.eqb_spec x a); [congruence|reflexivity]. Qed.
Lemma upd2_other_b : forall f a b v x y, y <> b -> upd2 f a b v x y = f x y.
Proof. intros. unfold upd2. destruct (Z.eqb_spec y b); [congruence|]. rewrite andb_false_r. reflexivity. Qed.

(* ------------------------------------------------------------------ *)
(* pointwise relations between record stores                           *)

Definition rel_recs (R : oracle -> oracle -> Prop) (f g : Z -> option oracle) : Prop :=
  forall a, match f a, g a with
            | Some r, Some r' => R r r'
            | None, None => True
            | _, _ => False
            end.

Lemma rel_recs_refl : forall (R : oracle -> oracle -> Prop), (forall r, R r r) -> forall f, rel_recs R f f.
Proof. intros R HR f a. destruct (f a); auto. Qed.
Lemma rel_recs_trans : forall (R : oracle -> oracle -> Prop),
  (forall x y z, R x y -> R y z -> R x z) -> forall f g h, rel_recs R f g -> rel_recs R g h -> rel_recs R f h.
Proof.
  intros R HT f g h H1 H2 a. specialize (H1 a). specialize (H2 a).
  destruct (f a), (g a), (h a); try tauto. eauto.
Qed.

(* SlashOracle on a record *)
Definition set_off (r : oracle) : oracle :=
  mkOracle (o_addr r) (o_bridger r) (o_ext r) (o_amount r) (o_start r) false (o_val r) (o_slash r + 1).
(* UnbondedOracleFromProposal on a record *)
Definition set_offline (r : oracle) : oracle :=
  mkOracle (o_addr r) (o_bridger r) (o_ext r) (o_amount r) (o_start r) false (o_val r) (o_slash r).

Definition slash_rel (r r' : oracle) : Prop := r' = r \/ (o_online r = true /\ r' = set_off r).

Lemma slash_rel_refl : forall r, slash_rel r r.
Proof. left; reflexivity. Qed.
Lemma slash_rel_trans : forall x y z, slash_rel x y -> slash_rel y z -> slash_rel x z.
Proof.
  intros x y z [->|[O ->]] [->|[O2 ->]]; unfold slash_rel; auto.
  cbn in O2. discriminate.
Qed.

Lemma slash_one_rel : forall h a st, rel_recs slash_rel (l_recs st) (l_recs (slash_one h a st)).
Proof.
  intros h a st x. unfold slash_one. destruct (l_recs st a) eqn:E.
  - destruct (o_online o) eqn:O; proj.
    + destruct (upd_cases _ (l_recs st) a (Some (mkOracle (o_addr o) (o_bridger o) (o_ext o) (o_amount o) (o_start o) false (o_val o) (o_slash o + 1))) x) as [[-> ->]|[Hn ->]].
      * rewrite E. right. split; auto.
      * destruct (l_recs st x); auto. apply slash_rel_refl.
    + destruct (l_recs st x); auto. apply slash_rel_refl.
  - proj. destruct (l_recs st x); auto. apply slash_rel_refl.
Qed.

Lemma slash_one_other : forall h a st x, x <> a -> l_recs (slash_one h a st) x = l_recs st x.
Proof.
  intros. unfold slash_one. destruct (l_recs st a); proj; auto.
  destruct (o_online o); proj; auto. apply upd_other; auto.
Qed.

Lemma slash_obj_rel : forall k h snap x st, rel_recs slash_rel (l_recs st) (l_recs (slash_obj k h snap st x)).
Proof.
  intros k h snap x. unfold slash_obj. induction snap as [|r t IH]; intros st; cbn [fold_left].
  - apply rel_recs_refl, slash_rel_refl.
  - destruct (must_sign k r x).
    + eapply rel_recs_trans; [apply slash_rel_trans | apply slash_one_rel | apply IH].
    + apply IH.
Qed.

Lemma slash_objs_rel : forall k h snap l st, rel_recs slash_rel (l_recs st) (l_recs (fold_left (slash_obj k h snap) l st)).
Proof.
  intros k h snap l. induction l as [|x t IH]; intros st; cbn [fold_left].
  - apply rel_recs_refl, slash_rel_refl.
  - eapply rel_recs_trans; [apply slash_rel_trans | apply slash_obj_rel | apply IH].
Qed.

(* a record is touched only for an object it had to sign *)
Definition hit (k : kind) (a : Z) (snap : list oracle) (x : obj) : bool :=
  existsb (fun q => (o_addr q =? a) && must_sign k q x) snap.

Lemma slash_obj_unchanged : forall k h snap x a st,
  hit k a snap x = false -> l_recs (slash_obj k h snap st x) a = l_recs st a.
Proof.
  intros k h snap x a. unfold slash_obj, hit. induction snap as [|r t IH]; intros st H; cbn [fold_left existsb] in *; auto.
  apply orb_false_iff in H. destruct H as [H1 H2].
  destruct (must_sign k r x) eqn:M.
  - rewrite andb_true_r in H1. apply Z.eqb_neq in H1.
    rewrite IH; auto. apply slash_one_other. congruence.
  - apply IH; auto.
Qed.

Lemma slash_objs_unchanged : forall k h snap l a st,
  existsb (hit k a snap) l = false -> l_recs (fold_left (slash_obj k h snap) l st) a = l_recs st a.
Proof.
  intros k h snap l a. induction l as [|x t IH]; intros st H; cbn [fold_left existsb] in *; auto.
  apply orb_false_iff in H. destruct H as [H1 H2].
  rewrite IH; auto. apply slash_obj_unchanged; auto.
Qed.

(* ------------------------------------------------------------------ *)
(* the invariants                                                      *)

Definition keys_inv (s : state) : Prop := forall a r, recs s a = Some r -> In a (keys s).

(* at most one unpaid penalty, and only while offline *)
Definition slash_inv (s : state) : Prop :=
  forall a r, recs s a = Some r -> o_slash r = 0 \/ (o_slash r = 1 /\ o_online r = false).

(* the stake equation.  [gov_und] is a history variable: what governance removal undelegated since the
   record was created *)
Definition stake_inv (s : state) : Prop :=
  (forall a r, recs s a = Some r -> o_amount r = deleg s a (o_val r) + gov_und s a) /\
  (forall a r v, recs s a = Some r -> v <> o_val r -> deleg s a v = 0) /\
  (forall a v, recs s a = None -> deleg s a v = 0) /\
  (forall a r, recs s a = Some r -> ~ In a (proposal s) -> deleg s a (o_val r) = 0).

Definition reg_inv (s : state) : Prop := idx_inv s /\ keys_inv s /\ slash_inv s /\ stake_inv s.

Lemma slash_amount_nonneg : forall r f, 0 <= slash_amount r f.
Proof. intros. unfold slash_amount. lia. Qed.
Lemma slash_amount_le : forall r f, slash_amount r f <= Z.max 0 (o_amount r).
Proof. intros. unfold slash_amount. lia. Qed.
Lemma slash_amount_zero : forall r f, o_slash r = 0 -> slash_amount r f = 0.
Proof.
  intros r f H. unfold slash_amount. rewrite H, Z.mul_0_r. cbn. lia.
Qed.

(* records related by [slash_rel] / offline-only changes keep amount and validator *)
Definition core_eq (r r' : oracle) : Prop :=
  o_addr r' = o_addr r /\ o_bridger r' = o_bridger r /\ o_ext r' = o_ext r /\
  o_amount r' = o_amount r /\ o_val r' = o_val r /\ o_start r' = o_start r.

Lemma slash_rel_core : forall r r', slash_rel r r' -> core_eq r r'.
Proof. intros r r' [->|[_ ->]]; unfold core_eq; cbn; tauto. Qed.

Lemma stake_inv_core : forall s s',
  stake_inv s -> rel_recs core_eq (recs s) (recs s') ->
  deleg s' = deleg s -> gov_und s' = gov_und s -> proposal s' = proposal s -> stake_inv s'.
Proof.
  intros s s' (S1 & S2 & S3 & S4) HR HD HG HP. unfold stake_inv. rewrite HD, HG, HP.
  repeat split.
  - intros a r' H. specialize (HR a). rewrite H in HR. destruct (recs s a) eqn:E; [|tauto].
    destruct HR as (_ & _ & _ & A & V & _). rewrite A, V. auto.
  - intros a r' v H Hv. specialize (HR a). rewrite H in HR. destruct (recs s a) eqn:E; [|tauto].
    destruct HR as (_ & _ & _ & A & V & _). rewrite V in Hv. eauto.
  - intros a v H. specialize (HR a). rewrite H in HR. destruct (recs s a) eqn:E; [tauto|]. auto.
  - intros a r' H Hp. specialize (HR a). rewrite H in HR. destruct (recs s a) eqn:E; [|tauto].
    destruct HR as (_ & _ & _ & A & V & _). rewrite V. eauto.
Qed.

Lemma rel_recs_impl : forall (R Q : oracle -> oracle -> Prop), (forall r r', R r r' -> Q r r') ->
  forall f g, rel_recs R f g -> rel_recs Q f g.
Proof. intros R Q H f g HR a. specialize (HR a). destruct (f a), (g a); auto. Qed.

Lemma keys_inv_rel : forall (R : oracle -> oracle -> Prop) s s',
  keys_inv s -> rel_recs R (recs s) (recs s') -> keys s' = keys s -> keys_inv s'.
Proof.
  intros R s s' K HR HK a r H. rewrite HK. specialize (HR a). rewrite H in HR.
  destruct (recs s a) eqn:E; [|tauto]. eauto.
Qed.

Lemma slash_inv_rel : forall s s', slash_inv s -> rel_recs slash_rel (recs s) (recs s') -> slash_inv s'.
Proof.
  intros s s' SI HR a r' H. specialize (HR a). rewrite H in HR. destruct (recs s a) eqn:E; [|tauto].
  destruct HR as [->|[O ->]]; [eauto|]. cbn. right. split; auto.
  destruct (SI _ _ E) as [Z0|[_ Off]]; [lia | congruence].
Qed.

(* ------------------------------------------------------------------ *)
(* preservation, operation by operation                                *)

Definition rest_inv (s : state) : Prop := keys_inv s /\ slash_inv s /\ stake_inv s.

Lemma bond_rest : forall s a b e v amt s', rest_inv s -> bond s a b e v amt = Ok s' -> rest_inv s'.
Proof.
  intros s a b e v amt s' (K & SL & S1 & S2 & S3 & S4) H. unfold bond in H. guards H.
  inversion H; subst; clear H. unfold rest_inv, keys_inv, slash_inv, stake_inv. unfold_power.
  assert (D0 : forall w, deleg s a w = 0) by (intro; apply S3; auto).
  repeat split.
  - intros a0 r H. destruct (upd_cases _ (recs s) a (Some (mkOracle a b e amt (height s) true v 0)) a0) as [[-> E]|[Hn E]]; rewrite E in H.
    + destruct (memZ a (keys s)) eqn:M; [apply memZ_In; auto | apply in_or_app; right; left; auto].
    + destruct (memZ a (keys s)); [eauto | apply in_or_app; left; eauto].
  - intros a0 r H. destruct (upd_cases _ (recs s) a (Some (mkOracle a b e amt (height s) true v 0)) a0) as [[-> E]|[Hn E]]; rewrite E in H.
    + inversion H; subst; cbn. auto.
    + eauto.
  - intros a0 r H. destruct (upd_cases _ (recs s) a (Some (mkOracle a b e amt (height s) true v 0)) a0) as [[-> E]|[Hn E]]; rewrite E in H.
    + inversion H; subst; proj. rewrite upd2_same, upd_same, D0. lia.
    + rewrite upd2_other_a, upd_other; auto.
  - intros a0 r v0 H Hv. destruct (upd_cases _ (recs s) a (Some (mkOracle a b e amt (height s) true v 0)) a0) as [[-> E]|[Hn E]]; rewrite E in H.
    + inversion H; subst; proj. rewrite upd2_other_b; auto.
    + rewrite upd2_other_a; eauto.
  - intros a0 v0 H. destruct (upd_cases _ (recs s) a (Some (mkOracle a b e amt (height s) true v 0)) a0) as [[-> E]|[Hn E]]; rewrite E in H.
    + discriminate.
    + rewrite upd2_other_a; eauto.
  - intros a0 r H Hp. destruct (upd_cases _ (recs s) a (Some (mkOracle a b e amt (height s) true v 0)) a0) as [[-> E]|[Hn E]]; rewrite E in H.
    + exfalso. apply Hp. apply memZ_In. auto.
    + rewrite upd2_other_a; eauto.
Qed.

Lemma add_delegate_rest : forall s a amt rw s', rest_inv s -> add_delegate s a amt rw = Ok s' -> rest_inv s'.
Proof.
  intros s a amt rw s' (K & SL & S1 & S2 & S3 & S4) H. unfold add_delegate in H. guards H.
  inversion H; subst; clear H. rename o into r. rename Heqo into Hr.
  pose proof (slash_amount_nonneg r (p_fraction (prm s))) as SN.
  set (sl := slash_amount r (p_fraction (prm s))) in *.
  assert (DC : 0 <= amt - sl).
  { apply Z.leb_gt in Heqb. destruct (0 <? sl) eqn:P; cbn [andb] in Heqb1.
    - apply Z.ltb_ge in Heqb1. lia.
    - apply Z.ltb_ge in P. lia. }
  unfold rest_inv, keys_inv, slash_inv, stake_inv. unfold_power.
  set (r' := mkOracle (o_addr r) (o_bridger r) (o_ext r) (o_amount r + (amt - sl))
                      (if o_online r then o_start r else height s) true (o_val r) 0) in *.
  repeat split.
  - intros a0 r0 H. destruct (upd_cases _ (recs s) a (Some r') a0) as [[-> E]|[Hn E]]; rewrite E in H; eauto.
  - intros a0 r0 H. destruct (upd_cases _ (recs s) a (Some r') a0) as [[-> E]|[Hn E]]; rewrite E in H; eauto.
    inversion H; subst; cbn. auto.
  - intros a0 r0 H. destruct (upd_cases _ (recs s) a (Some r') a0) as [[-> E]|[Hn E]]; rewrite E in H.
    + inversion H; subst r0; subst r'; proj. specialize (S1 _ _ Hr).
      destruct (0 <? amt - sl) eqn:P.
      * rewrite upd2_same. lia.
      * apply Z.ltb_ge in P. lia.
    + destruct (0 <? amt - sl); [rewrite upd2_other_a|]; eauto.
  - intros a0 r0 v0 H Hv. destruct (upd_cases _ (recs s) a (Some r') a0) as [[-> E]|[Hn E]]; rewrite E in H.
    + inversion H; subst r0; subst r'; proj. destruct (0 <? amt - sl); [rewrite upd2_other_b|]; eauto.
    + destruct (0 <? amt - sl); [rewrite upd2_other_a|]; eauto.
  - intros a0 v0 H. destruct (upd_cases _ (recs s) a (Some r') a0) as [[-> E]|[Hn E]]; rewrite E in H; [discriminate|].
    destruct (0 <? amt - sl); [rewrite upd2_other_a|]; eauto.
  - intros a0 r0 H Hp. destruct (upd_cases _ (recs s) a (Some r') a0) as [[-> E]|[Hn E]]; rewrite E in H.
    + exfalso. apply Hp. apply memZ_In. auto.
    + destruct (0 <? amt - sl); [rewrite upd2_other_a|]; eauto.
Qed.

Lemma re_delegate_rest : forall s a v rw s', rest_inv s -> re_delegate s a v rw = Ok s' -> rest_inv s'.
Proof.
  intros s a v rw s' (K & SL & S1 & S2 & S3 & S4) H. unfold re_delegate in H. guards H.
  inversion H; subst; clear H. rename o into r. rename Heqo into Hr.
  assert (Hv : v <> o_val r) by (intro; subst; rewrite Z.eqb_refl in Heqb0; discriminate).
  unfold rest_inv, keys_inv, slash_inv, stake_inv; proj.
  set (r' := mkOracle (o_addr r) (o_bridger r) (o_ext r) (o_amount r) (o_start r) (o_online r) v (o_slash r)) in *.
  repeat split.
  - intros a0 r0 H. destruct (upd_cases _ (recs s) a (Some r') a0) as [[-> E]|[Hn E]]; rewrite E in H; eauto.
  - intros a0 r0 H. destruct (upd_cases _ (recs s) a (Some r') a0) as [[-> E]|[Hn E]]; rewrite E in H; eauto.
    inversion H; subst r0; subst r'; cbn. eauto.
  - intros a0 r0 H. destruct (upd_cases _ (recs s) a (Some r') a0) as [[-> E]|[Hn E]]; rewrite E in H.
    + inversion H; subst r0; subst r'; proj. rewrite upd2_same. rewrite (S2 _ _ v Hr Hv). specialize (S1 _ _ Hr). lia.
    + rewrite !upd2_other_a; eauto.
  - intros a0 r0 v0 H Hv0. destruct (upd_cases _ (recs s) a (Some r') a0) as [[-> E]|[Hn E]]; rewrite E in H.
    + inversion H; subst r0; subst r'; proj. proj. rewrite upd2_other_b; auto.
      destruct (Z.eq_dec v0 (o_val r)) as [->|N]; [apply upd2_same | rewrite upd2_other_b; eauto].
    + rewrite !upd2_other_a; eauto.
  - intros a0 v0 H. destruct (upd_cases _ (recs s) a (Some r') a0) as [[-> E]|[Hn E]]; rewrite E in H; [discriminate|].
    rewrite !upd2_other_a; eauto.
  - intros a0 r0 H Hp. destruct (upd_cases _ (recs s) a (Some r') a0) as [[-> E]|[Hn E]]; rewrite E in H.
    + exfalso. apply Z.eqb_neq in Heqb1. apply Heqb1. eauto.
    + rewrite !upd2_other_a; eauto.
Qed.

(* operations that rewrite one record keeping amount / validator / slash / online *)
Lemma rest_inv_same_fields : forall s s' a r r',
  rest_inv s -> recs s a = Some r -> recs s' = upd (recs s) a (Some r') ->
  o_amount r' = o_amount r -> o_val r' = o_val r -> o_slash r' = o_slash r -> o_online r' = o_online r ->
  keys s' = keys s -> deleg s' = deleg s -> gov_und s' = gov_und s -> proposal s' = proposal s ->
  rest_inv s'.
Proof.
  intros s s' a r r' (K & SL & S1 & S2 & S3 & S4) Hr HR A V SLr O HK HD HG HP.
  unfold rest_inv, keys_inv, slash_inv, stake_inv. rewrite HR, HK, HD, HG, HP. repeat split.
  - intros a0 r0 H. destruct (upd_cases _ (recs s) a (Some r') a0) as [[-> E]|[Hn E]]; rewrite E in H; eauto.
  - intros a0 r0 H. destruct (upd_cases _ (recs s) a (Some r') a0) as [[-> E]|[Hn E]]; rewrite E in H; eauto.
    inversion H; subst r0. rewrite SLr, O. eauto.
  - intros a0 r0 H. destruct (upd_cases _ (recs s) a (Some r') a0) as [[-> E]|[Hn E]]; rewrite E in H; eauto.
    inversion H; subst r0. rewrite A, V. eauto.
  - intros a0 r0 v0 H Hv. destruct (upd_cases _ (recs s) a (Some r') a0) as [[-> E]|[Hn E]]; rewrite E in H; eauto.
    inversion H; subst r0. rewrite V in Hv. eauto.
  - intros a0 v0 H. destruct (upd_cases _ (recs s) a (Some r') a0) as [[-> E]|[Hn E]]; rewrite E in H; [discriminate|eauto].
  - intros a0 r0 H Hp. destruct (upd_cases _ (recs s) a (Some r') a0) as [[-> E]|[Hn E]]; rewrite E in H; eauto.
    inversion H; subst r0. rewrite V. eauto.
Qed.

Lemma edit_bridger_rest : forall s a b s', rest_inv s -> edit_bridger s a b = Ok s' -> rest_inv s'.
Proof.
  intros s a b s' I H. unfold edit_bridger in H. guards H. inversion H; subst; clear H.
  eapply rest_inv_same_fields with (s := s) (a := a) (r := o);
    [exact I | exact Heqo | proj; reflexivity | ..]; reflexivity.
Qed.

(* operations that do not touch records, delegations or the proposal list *)
Lemma rest_inv_frame : forall s s',
  rest_inv s -> recs s' = recs s -> keys s' = keys s -> deleg s' = deleg s -> gov_und s' = gov_und s ->
  proposal s' = proposal s -> rest_inv s'.
Proof.
  intros s s' I HR HK HD HG HP. unfold rest_inv, keys_inv, slash_inv, stake_inv in *.
  rewrite HR, HK, HD, HG, HP. exact I.
Qed.

Lemma unbond_rest : forall s a s', rest_inv s -> unbond s a = Ok s' -> rest_inv s'.
Proof.
  intros s a s' (K & SL & S1 & S2 & S3 & S4) H. unfold unbond in H. guards H.
  inversion H; subst; clear H. rename o into r. rename Heqo into Hr.
  assert (Hp : ~ In a (proposal s)) by (intro X; apply memZ_In in X; congruence).
  unfold rest_inv, keys_inv, slash_inv, stake_inv; proj. repeat split.
  - intros a0 r0 H. destruct (upd_cases _ (recs s) a None a0) as [[-> E]|[Hn E]]; rewrite E in H; [discriminate|].
    unfold remZ. apply filter_In. split; eauto. apply Bool.negb_true_iff. apply Z.eqb_neq. auto.
  - intros a0 r0 H. destruct (upd_cases _ (recs s) a None a0) as [[-> E]|[Hn E]]; rewrite E in H; [discriminate|eauto].
  - intros a0 r0 H. destruct (upd_cases _ (recs s) a None a0) as [[-> E]|[Hn E]]; rewrite E in H; [discriminate|eauto].
  - intros a0 r0 v0 H Hv. destruct (upd_cases _ (recs s) a None a0) as [[-> E]|[Hn E]]; rewrite E in H; [discriminate|eauto].
  - intros a0 v0 H. destruct (upd_cases _ (recs s) a None a0) as [[-> E]|[Hn E]]; rewrite E in H; [|eauto].
    destruct (Z.eq_dec v0 (o_val r)) as [->|N]; eauto.
  - intros a0 r0 H Hp0. destruct (upd_cases _ (recs s) a None a0) as [[-> E]|[Hn E]]; rewrite E in H; [discriminate|eauto].
Qed.

(* ---------------- governance list update ---------------- *)

Definition rest3 (s : state) : Prop :=
  keys_inv s /\ slash_inv s /\
  (forall a r, recs s a = Some r -> o_amount r = deleg s a (o_val r) + gov_und s a) /\
  (forall a r v, recs s a = Some r -> v <> o_val r -> deleg s a v = 0) /\
  (forall a v, recs s a = None -> deleg s a v = 0).

Definition gov_rel (r r' : oracle) : Prop := core_eq r r' /\ o_slash r' = o_slash r.

Lemma gov_rel_refl : forall r, gov_rel r r.
Proof. unfold gov_rel, core_eq. tauto. Qed.
Lemma gov_rel_trans : forall x y z, gov_rel x y -> gov_rel y z -> gov_rel x z.
Proof. unfold gov_rel, core_eq. intros. intuition congruence. Qed.

Definition cmatch (f : Z -> option oracle) (q : oracle) : Prop :=
  match f (o_addr q) with Some r0 => gov_rel q r0 | None => False end.

Lemma cmatch_rel : forall f g q, rel_recs gov_rel f g -> cmatch f q -> cmatch g q.
Proof.
  unfold cmatch. intros f g q H M. specialize (H (o_addr q)).
  destruct (f (o_addr q)), (g (o_addr q)); try tauto. eapply gov_rel_trans; eauto.
Qed.

Definition zero_mono (s s' : state) : Prop := forall x y, deleg s x y = 0 -> deleg s' x y = 0.

Lemma gov_unbond1_step : forall rws st q st1,
  gov_unbond1 rws (Some st) q = Some st1 -> rest3 st -> cmatch (recs st) q ->
  rest3 st1 /\ rel_recs gov_rel (recs st) (recs st1) /\ proposal st1 = proposal st /\ keys st1 = keys st /\
  zero_mono st st1 /\ deleg st1 (o_addr q) (o_val q) = 0 /\
  (forall a, recs st1 a = recs st a \/ (a = o_addr q /\ recs st1 a = Some (set_offline q))) /\
  burned st1 = burned st /\ bal_o st1 = bal_o st /\ prm st1 = prm st /\ height st1 = height st /\
  by_bridger st1 = by_bridger st /\ by_ext st1 = by_ext st.
Proof.
  intros rws st q st1 H (K & SL & S1 & S2 & S3) M. unfold gov_unbond1 in H.
  destruct (deleg st (o_addr q) (o_val q) =? 0) eqn:T; [discriminate|].
  destruct (negb (memZ (o_val q) (vals st))); [discriminate|].
  destruct (max_entries <=? count_ubd (o_addr q) (o_val q) (ubds st)); [discriminate|].
  inversion H; subst; clear H.
  unfold cmatch in M. destruct (recs st (o_addr q)) as [r0|] eqn:E0; [|tauto].
  destruct M as ((A1 & A2 & A3 & A4 & A5 & A6) & A7).
  fold (set_offline q).
  assert (REL : rel_recs gov_rel (recs st) (upd (recs st) (o_addr q) (Some (set_offline q)))).
  { intros x. destruct (upd_cases _ (recs st) (o_addr q) (Some (set_offline q)) x) as [[-> ->]|[Hn ->]].
    - rewrite E0. unfold gov_rel, core_eq, set_offline; cbn. intuition congruence.
    - destruct (recs st x); auto. apply gov_rel_refl. }
  unfold rest3, keys_inv, slash_inv, zero_mono; proj.
  repeat split; auto.
  - intros a r H. destruct (upd_cases _ (recs st) (o_addr q) (Some (set_offline q)) a) as [[-> E]|[Hn E]]; rewrite E in H; eauto.
  - intros a r H. destruct (upd_cases _ (recs st) (o_addr q) (Some (set_offline q)) a) as [[-> E]|[Hn E]]; rewrite E in H; eauto.
    inversion H; subst r; cbn. destruct (SL _ _ E0) as [Z0|[Z1 _]]; [left; congruence | right; split; congruence].
  - intros a r H. destruct (upd_cases _ (recs st) (o_addr q) (Some (set_offline q)) a) as [[-> E]|[Hn E]]; rewrite E in H.
    + inversion H; subst r; cbn. rewrite upd2_same, upd_same. specialize (S1 _ _ E0). rewrite A4, A5 in S1. lia.
    + rewrite upd2_other_a, upd_other; eauto.
  - intros a r v H Hv. destruct (upd_cases _ (recs st) (o_addr q) (Some (set_offline q)) a) as [[-> E]|[Hn E]]; rewrite E in H.
    + inversion H; subst r; cbn in Hv. rewrite upd2_other_b; auto. apply (S2 _ _ v E0). congruence.
    + rewrite upd2_other_a; eauto.
  - intros a v H. destruct (upd_cases _ (recs st) (o_addr q) (Some (set_offline q)) a) as [[-> E]|[Hn E]]; rewrite E in H; [discriminate|].
    rewrite upd2_other_a; eauto.
  - intros x y H. unfold upd2. destruct ((x =? o_addr q) && (y =? o_val q)); auto.
  - apply upd2_same.
  - intros a. destruct (upd_cases _ (recs st) (o_addr q) (Some (set_offline q)) a) as [[-> E]|[Hn E]]; rewrite E; auto.
Qed.

Lemma gov_fold_step : forall rws l st st',
  fold_left (gov_unbond1 rws) l (Some st) = Some st' -> rest3 st -> (forall q, In q l -> cmatch (recs st) q) ->
  rest3 st' /\ rel_recs gov_rel (recs st) (recs st') /\ proposal st' = proposal st /\ keys st' = keys st /\
  zero_mono st st' /\ (forall q, In q l -> deleg st' (o_addr q) (o_val q) = 0) /\
  (forall a, (forall q, In q l -> o_addr q <> a) -> recs st' a = recs st a) /\
  (forall a r r', recs st a = Some r -> recs st' a = Some r' -> r' = r \/ r' = set_offline r \/ exists q, In q l /\ r' = set_offline q) /\
  burned st' = burned st /\ bal_o st' = bal_o st /\ prm st' = prm st /\ height st' = height st /\
  by_bridger st' = by_bridger st /\ by_ext st' = by_ext st.
Proof.
  intros rws l. induction l as [|q t IH]; intros st st' H R M; cbn [fold_left] in H.
  - inversion H; subst.
    split; [exact R|]. split; [apply rel_recs_refl, gov_rel_refl|]. split; [reflexivity|]. split; [reflexivity|].
    split; [unfold zero_mono; auto|]. split; [intros ? []|]. split; [intros; reflexivity|].
    split; [intros a r r' H1 H2; left; congruence|]. repeat split; reflexivity.
  - destruct (gov_unbond1 rws (Some st) q) as [st1|] eqn:E; [|rewrite gov_unbond1_none in H; discriminate].
    destruct (gov_unbond1_step _ _ _ _ E R (M q (or_introl eq_refl))) as (R1 & L1 & P1 & K1 & Z1 & D1 & C1 & B1 & O1 & PR1 & H1 & BB1 & BE1).
    assert (M1 : forall q', In q' t -> cmatch (recs st1) q').
    { intros q' Hq'. eapply cmatch_rel; [exact L1 | apply M; right; auto]. }
    destruct (IH _ _ H R1 M1) as (R2 & L2 & P2 & K2 & Z2 & D2 & C2 & E2 & B2 & O2 & PR2 & H2 & BB2 & BE2).
    split; [exact R2|].
    split; [eapply rel_recs_trans; [apply gov_rel_trans | exact L1 | exact L2]|].
    split; [congruence|]. split; [congruence|].
    split; [unfold zero_mono in *; auto|].
    split; [intros q' [<-|Hq']; auto|].
    split.
    { intros a Ha. rewrite C2 by (intros; apply Ha; right; auto).
      destruct (C1 a) as [->|[Eq _]]; auto. exfalso. apply (Ha q); auto. left; auto. }
    split.
    { intros a r r' Hr Hr'.
      destruct (C1 a) as [Eq|[Eq Eq2]].
      * rewrite <- Eq in Hr. destruct (E2 _ _ _ Hr Hr') as [X|[X|(q' & Hq' & X)]]; auto.
        right; right. exists q'. split; auto. right; auto.
      * destruct (E2 _ _ _ Eq2 Hr') as [X|[X|(q' & Hq' & X)]].
        -- right; right. exists q. split; [left; auto | auto].
        -- right; right. exists q. split; [left; auto|]. rewrite X. unfold set_offline; cbn. reflexivity.
        -- right; right. exists q'. split; auto. right; auto. }
    repeat split; congruence.
Qed.

Lemma In_all_recs : forall s a r, In a (keys s) -> recs s a = Some r -> In r (all_recs s).
Proof.
  intros s a r Ha Hr. unfold all_recs. apply in_flat_map. exists a. split; auto. rewrite Hr. left; auto.
Qed.

(* what UpdateProposalOracles does, as one statement *)
Lemma gov_set_spec : forall s l rws s', idx_inv s -> rest_inv s -> gov_set s l rws = Ok s' ->
  rest_inv s' /\ proposal s' = l /\ keys s' = keys s /\ rel_recs gov_rel (recs s) (recs s') /\
  (forall a, In a l -> recs s' a = recs s a) /\
  (forall a r r', recs s a = Some r -> recs s' a = Some r' -> r' = r \/ r' = set_offline r) /\
  burned s' = burned s /\ bal_o s' = bal_o s /\ prm s' = prm s /\ height s' = height s /\
  l <> [] /\ nodupb l = true.
Proof.
  intros s l rws s' I (K & SL & S1 & S2 & S3 & S4) H. unfold gov_set in H.
  destruct l as [|l0 lt] eqn:EL; [discriminate|]. rewrite <- EL in *.
  assert (Lne : l <> []) by (rewrite EL; discriminate).
  replace (match l with [] => true | _ :: _ => false end) with false in H by (rewrite EL; reflexivity).
  destruct (negb (nodupb l)) eqn:ND; [discriminate|]. apply Bool.negb_false_iff in ND.
  destruct (max_oracle_size <? Z.of_nat (length l)); [discriminate|].
  match type of H with (if ?c then _ else _) = _ => destruct c; [discriminate|] end.
  match type of H with match fold_left ?f ?g (Some ?s1) with _ => _ end = _ =>
    destruct (fold_left f g (Some s1)) as [s2|] eqn:F; [|discriminate]; set (st1 := s1) in * end.
  inversion H; subst s2; clear H.
  set (gone := filter (fun r => negb (memZ (o_addr r) l) && memZ (o_addr r) (proposal s)) (all_recs s)) in *.
  assert (R1 : rest3 st1) by (unfold rest3, keys_inv, slash_inv; subst st1; proj; repeat split; auto).
  assert (M1 : forall q, In q gone -> cmatch (recs st1) q).
  { intros q Hq. apply filter_In in Hq. destruct Hq as [Hq _]. apply all_recs_In in Hq.
    destruct Hq as (a & Ha & Hr). destruct I as (I1 & _). destruct (I1 _ _ Hr) as (A & _).
    unfold cmatch. subst st1; proj. rewrite A, Hr. apply gov_rel_refl. }
  destruct (gov_fold_step _ _ _ _ F R1 M1) as ((K2 & SL2 & T1 & T2 & T3) & L2 & P2 & K2' & Z2 & D2 & C2 & E2 & B2 & O2 & PR2 & H2 & BB2 & BE2).
  subst st1; proj.
  assert (ADDR : forall a r, recs s a = Some r -> o_addr r = a) by (intros a r Hr; destruct I as (I1 & _); apply (I1 _ _ Hr)).
  split.
  { unfold rest_inv, stake_inv. repeat split; auto.
    intros a r' Hr' Hnl. rewrite P2 in Hnl.
    pose proof (L2 a) as La. rewrite Hr' in La. destruct (recs s a) as [r|] eqn:Hr; [|tauto].
    destruct La as ((_ & _ & _ & _ & V & _) & _). rewrite V.
    destruct (memZ a (proposal s)) eqn:MP.
    - assert (G : In r gone).
      { apply filter_In. split; [eapply In_all_recs; eauto|]. rewrite (ADDR _ _ Hr), MP.
        destruct (memZ a l) eqn:ML; [apply memZ_In in ML; tauto | reflexivity]. }
      specialize (D2 _ G). rewrite (ADDR _ _ Hr) in D2. exact D2.
    - apply Z2. apply S4; auto. intro X. apply memZ_In in X. congruence. }
  split; [exact P2|]. split; [exact K2'|]. split; [exact L2|].
  split.
  { intros a Ha. apply C2. intros q Hq Eq. apply filter_In in Hq. destruct Hq as [_ Hq].
    rewrite Eq in Hq. apply memZ_In in Ha. rewrite Ha in Hq. discriminate. }
  split.
  { intros a r r' Hr Hr'. destruct (E2 _ _ _ Hr Hr') as [X|[X|(q & Hq & X)]]; auto.
    right. apply filter_In in Hq. destruct Hq as [Hq _].
    (* q is the stored record of its own address, and it was written at address a *)
    apply all_recs_In in Hq. destruct Hq as (a' & _ & Hq).
    pose proof (L2 a) as La. rewrite Hr, Hr' in La. destruct La as ((A & _) & _).
    rewrite X in A. cbn in A. rewrite (ADDR _ _ Hq), (ADDR _ _ Hr) in A. subst a'. congruence. }
  repeat split; auto.
Qed.

Lemma gov_set_rest : forall s l rws s', idx_inv s -> rest_inv s -> gov_set s l rws = Ok s' -> rest_inv s'.
Proof. intros. eapply gov_set_spec; eauto. Qed.

(* ---------------- end blocker ---------------- *)

(* is the record at address a touched by one of the three loops in this block? *)
Definition due_hit (a : Z) (s : state) : bool :=
  existsb (hit KSet a (online_recs s)) (due_of s KSet) ||
  existsb (hit KBatch a (online_recs s)) (due_of s KBatch) ||
  existsb (hit KCall a (online_recs s)) (due_of s KCall).

Lemma slashing_spec : forall s s2, slashing s = Some s2 ->
  rel_recs slash_rel (recs s) (recs s2) /\
  (forall a, due_hit a s = false -> recs s2 a = recs s a) /\
  keys s2 = keys s /\ proposal s2 = proposal s /\ deleg s2 = deleg s /\ gov_und s2 = gov_und s /\
  prm s2 = prm s /\ burned s2 = burned s /\ bal_o s2 = bal_o s /\ bal_d s2 = bal_d s /\ ubds s2 = ubds s /\
  height s2 = height s /\ by_bridger s2 = by_bridger s /\ by_ext s2 = by_ext s.
Proof.
  intros s s2 H. unfold slashing in H.
  match type of H with (if ?c then _ else _) = _ => destruct c; [discriminate|] end.
  inversion H; subst; clear H.
  match goal with |- context[if ?c then refresh_power ?x else ?x] => destruct c end; unfold_power.
  all: split;
    [eapply rel_recs_trans; [apply slash_rel_trans | exact (slash_objs_rel KSet (height s) (online_recs s) (due_of s KSet) (mkL (recs s) (last_slash_height s) false)) |];
     eapply rel_recs_trans; [apply slash_rel_trans | apply slash_objs_rel | apply slash_objs_rel]|].
  all: split; [|repeat split; reflexivity].
  all: intros a Ha; unfold due_hit in Ha; apply orb_false_iff in Ha; destruct Ha as [Ha H3];
    apply orb_false_iff in Ha; destruct Ha as [H1 H2];
    rewrite slash_objs_unchanged by exact H3; rewrite slash_objs_unchanged by exact H2;
    exact (slash_objs_unchanged KSet (height s) (online_recs s) (due_of s KSet) a (mkL (recs s) (last_slash_height s) false) H1).
Qed.

Lemma create_set_frame : forall s pd,
  let s' := create_set s pd in
  recs s' = recs s /\ keys s' = keys s /\ proposal s' = proposal s /\ deleg s' = deleg s /\
  gov_und s' = gov_und s /\ prm s' = prm s /\ burned s' = burned s /\ bal_o s' = bal_o s /\
  bal_d s' = bal_d s /\ ubds s' = ubds s /\ height s' = height s /\
  by_bridger s' = by_bridger s /\ by_ext s' = by_ext s.
Proof.
  intros. subst s'. unfold create_set.
  match goal with |- context[if ?c then _ else _] => destruct c end; unfold_power; repeat split; reflexivity.
Qed.

Lemma end_block_spec : forall s t1 t2 pd s', end_block s t1 t2 pd = Ok s' ->
  rel_recs slash_rel (recs s) (recs s') /\
  (forall a, due_hit a s = false -> recs s' a = recs s a) /\
  keys s' = keys s /\ proposal s' = proposal s /\ deleg s' = deleg s /\ gov_und s' = gov_und s /\
  prm s' = prm s /\ burned s' = burned s /\ bal_o s' = bal_o s /\
  (forall a, bal_d s' a = bal_d s a + matured_sum t1 (ubds s) a) /\
  ubds s' = filter (fun u => negb (u_time u <=? t1)) (ubds s) /\
  height s' = height s + 1 /\ by_bridger s' = by_bridger s /\ by_ext s' = by_ext s.
Proof.
  intros s t1 t2 pd s' H. apply end_block_inv in H. destruct H as (s2 & H2 & ->).
  apply slashing_spec in H2.
  destruct H2 as (A1 & A2 & A3 & A4 & A5 & A6 & A7 & A8 & A9 & A10 & A11 & A12 & A13 & A14).
  destruct (create_set_frame s2 pd) as (B1 & B2 & B3 & B4 & B5 & B6 & B7 & B8 & B9 & B10 & B11 & B12 & B13).
  unfold next_block; proj.
  rewrite B1, B2, B3, B4, B5, B6, B7, B8, B9, B10, B11, B12, B13.
  rewrite A3, A4, A5, A6, A7, A8, A9, A10, A11, A12, A13, A14.
  repeat split; auto.
Qed.

Lemma end_block_rest : forall s t1 t2 pd s', rest_inv s -> end_block s t1 t2 pd = Ok s' -> rest_inv s'.
Proof.
  intros s t1 t2 pd s' (K & SL & ST) H. apply end_block_spec in H.
  destruct H as (R & _ & HK & HP & HD & HG & _).
  split; [eapply keys_inv_rel; eauto|]. split; [eapply slash_inv_rel; eauto|].
  eapply stake_inv_core; eauto. eapply rel_recs_impl; [apply slash_rel_core | exact R].
Qed.

Theorem step_rest : forall s o s', idx_inv s -> rest_inv s -> step s o = Ok s' -> rest_inv s'.
Proof.
  intros s o s' I R H. destruct o; cbn [step] in H.
  - eapply bond_rest; eauto.
  - eapply add_delegate_rest; eauto.
  - eapply re_delegate_rest; eauto.
  - eapply edit_bridger_rest; eauto.
  - unfold withdraw_reward in H. guards H. inversion H; subst. eapply rest_inv_frame; eauto.
  - eapply unbond_rest; eauto.
  - eapply gov_set_rest; eauto.
  - unfold set_params in H. guards H. inversion H; subst. eapply rest_inv_frame; eauto.
  - unfold confirm in H. guards H. inversion H; subst. eapply rest_inv_frame; eauto; destruct k; reflexivity.
  - unfold add_batch in H. guards H. inversion H; subst. eapply rest_inv_frame; eauto.
  - unfold del_batch in H. inversion H; subst. eapply rest_inv_frame; eauto.
  - unfold add_call in H. inversion H; subst. eapply rest_inv_frame; eauto.
  - unfold del_call in H. inversion H; subst. eapply rest_inv_frame; eauto.
  - unfold fund in H. inversion H; subst. eapply rest_inv_frame; eauto.
  - eapply end_block_rest; eauto.
Qed.

Theorem step_reg : forall s o s', reg_inv s -> step s o = Ok s' -> reg_inv s'.
Proof.
  intros s o s' (I & R) H. split; [eapply step_idx; eauto | eapply step_rest; eauto].
Qed.

Lemma exec_reg : forall s o, reg_inv s -> reg_inv (exec s o).
Proof. intros s o I. unfold exec. destruct (step s o) eqn:E; auto. eapply step_reg; eauto. Qed.

Theorem run_reg : forall ops s, reg_inv s -> reg_inv (run s ops).
Proof.
  induction ops as [|o t IH]; intros s I; cbn [run fold_left]; auto. apply IH, exec_reg; auto.
Qed.

Lemma init_reg : forall h t ub vs p, reg_inv (init h t ub vs p).
Proof.
  intros. split; [apply init_idx|]. unfold rest_inv, keys_inv, slash_inv, stake_inv, init; proj.
  repeat split; intros; try discriminate; reflexivity.
Qed.
