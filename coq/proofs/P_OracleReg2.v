(* P_OracleReg2.v — stake accounting, penalties, slashing rule, unbonding (property C13). *)
From Coq Require Import ZArith List Bool Lia.
From FxV Require Import model.M_OracleReg proofs.P_OracleReg.
Import ListNotations.
Open Scope Z_scope.

Lemma upd2_same : forall f a b v, upd2 f a b v a b = v.
Proof. intros. unfold upd2. rewrite !Z.eqb_refl. reflexivity. Qed.
Lemma upd2_other_a : forall f a b v x y, x <> a -> upd2 f a b v x y = f x y.
Proof. intros. unfold upd2. destruct (Z.eqb_spec x a); [congruence|reflexivity]. Qed.
Lemma upd2_other_b : forall f a b v x y, y <> b -> upd2 f a b v x y = f x y.
Proof. intros. unfold upd2. destruct (Z.eqb_spec y b); [congruence|]. rewrite andb_false_r. reflexivity. Qed.

(* ------------------------------------------------------------------ *)
(* pointwise relations between record stores                           *)

Definition rel_recs (R : oracle -> oracle -> Prop) (f g : Z -> option oracle) : Prop :=
  forall a, match f a, g a with
            | Some r, Some r' => R r r'
            | None, None => True
            | _, _ => False
            end.

Lemma rel_recs_refl : forall (R : oracle -> oracle -> Prop), (forall r, R r r) -> forall f, rel_recs R f f.
Proof. intros R HR f a. destruct (f a); auto. Qed.
Lemma rel_recs_trans : forall (R : oracle -> oracle -> Prop),
  (forall x y z, R x y -> R y z -> R x z) -> forall f g h, rel_recs R f g -> rel_recs R g h -> rel_recs R f h.
Proof.
  intros R HT f g h H1 H2 a. specialize (H1 a). specialize (H2 a).
  destruct (f a), (g a), (h a); try tauto. eauto.
Qed.

(* SlashOracle on a record *)
Definition set_off (r : oracle) : oracle :=
  mkOracle (o_addr r) (o_bridger r) (o_ext r) (o_amount r) (o_start r) false (o_val r) (o_slash r + 1).
(* UnbondedOracleFromProposal on a record *)
Definition set_offline (r : oracle) : oracle :=
  mkOracle (o_addr r) (o_bridger r) (o_ext r) (o_amount r) (o_start r) false (o_val r) (o_slash r).

Definition slash_rel (r r' : oracle) : Prop := r' = r \/ (o_online r = true /\ r' = set_off r).

Lemma slash_rel_refl : forall r, slash_rel r r.
Proof. left; reflexivity. Qed.
Lemma slash_rel_trans : forall x y z, slash_rel x y -> slash_rel y z -> slash_rel x z.
Proof.
  intros x y z [->|[O ->]] [->|[O2 ->]]; unfold slash_rel; auto.
  cbn in O2. discriminate.
Qed.

Lemma slash_one_rel : forall h a st, rel_recs slash_rel (l_recs st) (l_recs (slash_one h a st)).
Proof.
  intros h a st x. unfold slash_one. destruct (l_recs st a) eqn:E.
  - destruct (o_online o) eqn:O; proj.
    + destruct (upd_cases _ (l_recs st) a (Some (mkOracle (o_addr o) (o_bridger o) (o_ext o) (o_amount o) (o_start o) false (o_val o) (o_slash o + 1))) x) as [[-> ->]|[Hn ->]].
      * rewrite E. right. split; auto.
      * destruct (l_recs st x); auto. apply slash_rel_refl.
    + destruct (l_recs st x); auto. apply slash_rel_refl.
  - proj. destruct (l_recs st x); auto. apply slash_rel_refl.
Qed.

Lemma slash_one_other : forall h a st x, x <> a -> l_recs (slash_one h a st) x = l_recs st x.
Proof.
  intros. unfold slash_one. destruct (l_recs st a); proj; auto.
  destruct (o_online o); proj; auto. apply upd_other; auto.
Qed.

Lemma slash_obj_rel : forall k h snap x st, rel_recs slash_rel (l_recs st) (l_recs (slash_obj k h snap st x)).
Proof.
  intros k h snap x. unfold slash_obj. induction snap as [|r t IH]; intros st; cbn [fold_left].
  - apply rel_recs_refl, slash_rel_refl.
  - destruct (must_sign k r x).
    + eapply rel_recs_trans; [apply slash_rel_trans | apply slash_one_rel | apply IH].
    + apply IH.
Qed.

Lemma slash_objs_rel : forall k h snap l st, rel_recs slash_rel (l_recs st) (l_recs (fold_left (slash_obj k h snap) l st)).
Proof.
  intros k h snap l. induction l as [|x t IH]; intros st; cbn [fold_left].
  - apply rel_recs_refl, slash_rel_refl.
  - eapply rel_recs_trans; [apply slash_rel_trans | apply slash_obj_rel | apply IH].
Qed.

(* a record is touched only for an object it had to sign *)
Definition hit (k : kind) (a : Z) (snap : list oracle) (x : obj) : bool :=
  existsb (fun q => (o_addr q =? a) && must_sign k q x) snap.

Lemma slash_obj_unchanged : forall k h snap x a st,
  hit k a snap x = false -> l_recs (slash_obj k h snap st x) a = l_recs st a.
Proof.
  intros k h snap x a. unfold slash_obj, hit. induction snap as [|r t IH]; intros st H; cbn [fold_left existsb] in *; auto.
  apply orb_false_iff in H. destruct H as [H1 H2].
  destruct (must_sign k r x) eqn:M.
  - rewrite andb_true_r in H1. apply Z.eqb_neq in H1.
    rewrite IH; auto. apply slash_one_other. congruence.
  - apply IH; auto.
Qed.

Lemma slash_objs_unchanged : forall k h snap l a st,
  existsb (hit k a snap) l = false -> l_recs (fold_left (slash_obj k h snap) l st) a = l_recs st a.
Proof.
  intros k h snap l a. induction l as [|x t IH]; intros st H; cbn [fold_left existsb] in *; auto.
  apply orb_false_iff in H. destruct H as [H1 H2].
  rewrite IH; auto. apply slash_obj_unchanged; auto.
Qed.

(* ------------------------------------------------------------------ *)
(* the invariants                                                      *)

Definition keys_inv (s : state) : Prop := forall a r, recs s a = Some r -> In a (keys s).

(* at most one unpaid penalty, and only while offline *)
Definition slash_inv (s : state) : Prop :=
  forall a r, recs s a = Some r -> o_slash r = 0 \/ (o_slash r = 1 /\ o_online r = false).

Definition core_inv (s : state) : Prop := keys_inv s /\ slash_inv s.

(* the invariants that hold for EVERY operation list, validator slashing included *)
Definition reg_inv (s : state) : Prop := idx_inv s /\ keys_inv s /\ slash_inv s.

Lemma slash_amount_nonneg : forall r f, 0 <= slash_amount r f.
Proof. intros. unfold slash_amount. lia. Qed.
Lemma slash_amount_le : forall r f, slash_amount r f <= Z.max 0 (o_amount r).
Proof. intros. unfold slash_amount. lia. Qed.
Lemma slash_amount_zero : forall r f, o_slash r = 0 -> slash_amount r f = 0.
Proof.
  intros r f H. unfold slash_amount. rewrite H, Z.mul_0_r. cbn. lia.
Qed.

Definition core_eq (r r' : oracle) : Prop :=
  o_addr r' = o_addr r /\ o_bridger r' = o_bridger r /\ o_ext r' = o_ext r /\
  o_amount r' = o_amount r /\ o_val r' = o_val r /\ o_start r' = o_start r.

Lemma slash_rel_core : forall r r', slash_rel r r' -> core_eq r r'.
Proof. intros r r' [->|[_ ->]]; unfold core_eq; cbn; tauto. Qed.

Lemma rel_recs_impl : forall (R Q : oracle -> oracle -> Prop), (forall r r', R r r' -> Q r r') ->
  forall f g, rel_recs R f g -> rel_recs Q f g.
Proof. intros R Q H f g HR a. specialize (HR a). destruct (f a), (g a); auto. Qed.

Lemma keys_inv_rel : forall (R : oracle -> oracle -> Prop) s s',
  keys_inv s -> rel_recs R (recs s) (recs s') -> keys s' = keys s -> keys_inv s'.
Proof.
  intros R s s' K HR HK a r H. rewrite HK. specialize (HR a). rewrite H in HR.
  destruct (recs s a) eqn:E; [|tauto]. eauto.
Qed.

Lemma slash_inv_rel : forall s s', slash_inv s -> rel_recs slash_rel (recs s) (recs s') -> slash_inv s'.
Proof.
  intros s s' SI HR a r' H. specialize (HR a). rewrite H in HR. destruct (recs s a) eqn:E; [|tauto].
  destruct HR as [->|[O ->]]; [eauto|]. cbn. right. split; auto.
  destruct (SI _ _ E) as [Z0|[_ Off]]; [lia | congruence].
Qed.


(* ------------------------------------------------------------------ *)
(* keys / slash-counter invariant, operation by operation              *)

(* a transition that rewrites the record at address a (or leaves the store alone) *)
Lemma core_inv_upd : forall s s' a r',
  core_inv s -> recs s' = upd (recs s) a (Some r') -> incl (keys s) (keys s') -> In a (keys s') ->
  (o_slash r' = 0 \/ (o_slash r' = 1 /\ o_online r' = false)) -> core_inv s'.
Proof.
  intros s s' a r' (K & SL) HR HK Ha Hs. split.
  - intros a0 r0 H. rewrite HR in H. destruct (upd_cases _ (recs s) a (Some r') a0) as [[-> E]|[Hn E]]; rewrite E in H; eauto.
  - intros a0 r0 H. rewrite HR in H. destruct (upd_cases _ (recs s) a (Some r') a0) as [[-> E]|[Hn E]]; rewrite E in H; eauto.
    inversion H; subst; auto.
Qed.

Lemma core_inv_frame : forall s s', core_inv s -> recs s' = recs s -> keys s' = keys s -> core_inv s'.
Proof. intros s s' I HR HK. unfold core_inv, keys_inv, slash_inv in *. rewrite HR, HK. exact I. Qed.

Lemma bond_core : forall s a b e v amt s', core_inv s -> bond s a b e v amt = Ok s' -> core_inv s'.
Proof.
  intros s a b e v amt s' I H. unfold bond in H. guards H. inversion H; subst; clear H.
  eapply core_inv_upd with (s := s) (a := a); [exact I | unfold_power; reflexivity | | | cbn; auto]; unfold_power.
  - destruct (memZ a (keys s)); [apply incl_refl | apply incl_appl, incl_refl].
  - destruct (memZ a (keys s)) eqn:M; [apply memZ_In; auto | apply in_or_app; right; left; auto].
Qed.

Lemma add_delegate_core : forall s a amt rw s', core_inv s -> add_delegate s a amt rw = Ok s' -> core_inv s'.
Proof.
  intros s a amt rw s' I H. unfold add_delegate in H. guards H. inversion H; subst; clear H.
  eapply core_inv_upd with (s := s) (a := a); [exact I | unfold_power; reflexivity | unfold_power; apply incl_refl | | cbn; auto].
  unfold_power. destruct I as (K & _). eauto.
Qed.

Lemma re_delegate_core : forall s a v rw s', core_inv s -> re_delegate s a v rw = Ok s' -> core_inv s'.
Proof.
  intros s a v rw s' I H. unfold re_delegate in H. guards H. inversion H; subst; clear H.
  eapply core_inv_upd with (s := s) (a := a); [exact I | proj; reflexivity | proj; apply incl_refl | | ].
  - proj. destruct I as (K & _). eauto.
  - cbn. destruct I as (_ & SL). eauto.
Qed.

Lemma edit_bridger_core : forall s a b s', core_inv s -> edit_bridger s a b = Ok s' -> core_inv s'.
Proof.
  intros s a b s' I H. unfold edit_bridger in H. guards H. inversion H; subst; clear H.
  eapply core_inv_upd with (s := s) (a := a); [exact I | proj; reflexivity | proj; apply incl_refl | | ].
  - proj. destruct I as (K & _). eauto.
  - cbn. destruct I as (_ & SL). eauto.
Qed.

Lemma unbond_core : forall s a s', core_inv s -> unbond s a = Ok s' -> core_inv s'.
Proof.
  intros s a s' (K & SL) H. unfold unbond, unbond_gen in H. guards H. inversion H; subst; clear H.
  split; unfold keys_inv, slash_inv; proj.
  - intros a0 r0 H. destruct (upd_cases _ (recs s) a None a0) as [[-> E]|[Hn E]]; rewrite E in H; [discriminate|].
    unfold remZ. apply filter_In. split; eauto. apply Bool.negb_true_iff. apply Z.eqb_neq. auto.
  - intros a0 r0 H. destruct (upd_cases _ (recs s) a None a0) as [[-> E]|[Hn E]]; rewrite E in H; [discriminate|eauto].
Qed.

(* ---------------- governance list update: structure ---------------- *)

Definition gov_rel (r r' : oracle) : Prop := core_eq r r' /\ o_slash r' = o_slash r.

Lemma gov_rel_refl : forall r, gov_rel r r.
Proof. unfold gov_rel, core_eq. tauto. Qed.
Lemma gov_rel_trans : forall x y z, gov_rel x y -> gov_rel y z -> gov_rel x z.
Proof. unfold gov_rel, core_eq. intros. intuition congruence. Qed.

Definition cmatch (f : Z -> option oracle) (q : oracle) : Prop :=
  match f (o_addr q) with Some r0 => gov_rel q r0 | None => False end.

Lemma cmatch_rel : forall f g q, rel_recs gov_rel f g -> cmatch f q -> cmatch g q.
Proof.
  unfold cmatch. intros f g q H M. specialize (H (o_addr q)).
  destruct (f (o_addr q)), (g (o_addr q)); try tauto. eapply gov_rel_trans; eauto.
Qed.


(* one UnbondedOracleFromProposal: the record at the snapshot's address becomes [set_offline snapshot],
   nothing else in the registry moves *)
Lemma gov_unbond1_core : forall rws st q st1,
  gov_unbond1 rws (Some st) q = Some st1 -> core_inv st -> cmatch (recs st) q ->
  core_inv st1 /\ rel_recs gov_rel (recs st) (recs st1) /\ proposal st1 = proposal st /\ keys st1 = keys st /\
  (forall a, recs st1 a = recs st a \/ (a = o_addr q /\ recs st1 a = Some (set_offline q))) /\
  burned st1 = burned st /\ bal_o st1 = bal_o st /\ prm st1 = prm st /\ height st1 = height st /\
  by_bridger st1 = by_bridger st /\ by_ext st1 = by_ext st.
Proof.
  intros rws st q st1 H (K & SL) M. inv_gov1 H.
  unfold cmatch in M. destruct (recs st (o_addr q)) as [r0|] eqn:E0; [|tauto].
  destruct M as ((A1 & A2 & A3 & A4 & A5 & A6) & A7).
  fold (set_offline q).
  assert (REL : rel_recs gov_rel (recs st) (upd (recs st) (o_addr q) (Some (set_offline q)))).
  { intros x. destruct (upd_cases _ (recs st) (o_addr q) (Some (set_offline q)) x) as [[-> ->]|[Hn ->]].
    - rewrite E0. unfold gov_rel, core_eq, set_offline; cbn. intuition congruence.
    - destruct (recs st x); auto. apply gov_rel_refl. }
  proj. split; [|repeat split; auto].
  - eapply core_inv_upd with (s := st) (a := o_addr q); [split; auto | proj; reflexivity | proj; apply incl_refl | proj; eauto | ].
    cbn. destruct (SL _ _ E0) as [Z0|[Z1 _]]; [left; congruence | right; split; congruence].
  - intros a. destruct (upd_cases _ (recs st) (o_addr q) (Some (set_offline q)) a) as [[-> E]|[Hn E]]; rewrite E; auto.
Qed.

Lemma gov_fold_core : forall rws l st st',
  fold_left (gov_unbond1 rws) l (Some st) = Some st' -> core_inv st -> (forall q, In q l -> cmatch (recs st) q) ->
  core_inv st' /\ rel_recs gov_rel (recs st) (recs st') /\ proposal st' = proposal st /\ keys st' = keys st /\
  (forall a, (forall q, In q l -> o_addr q <> a) -> recs st' a = recs st a) /\
  (forall a r r', recs st a = Some r -> recs st' a = Some r' -> r' = r \/ r' = set_offline r \/ exists q, In q l /\ r' = set_offline q) /\
  burned st' = burned st /\ bal_o st' = bal_o st /\ prm st' = prm st /\ height st' = height st /\
  by_bridger st' = by_bridger st /\ by_ext st' = by_ext st.
Proof.
  intros rws l. induction l as [|q t IH]; intros st st' H R M; cbn [fold_left] in H.
  - inversion H; subst.
    split; [exact R|]. split; [apply rel_recs_refl, gov_rel_refl|]. split; [reflexivity|]. split; [reflexivity|].
    split; [intros; reflexivity|].
    split; [intros a r r' H1 H2; left; congruence|]. repeat split; reflexivity.
  - destruct (gov_unbond1 rws (Some st) q) as [st1|] eqn:E; [|rewrite gov_unbond1_none in H; discriminate].
    destruct (gov_unbond1_core _ _ _ _ E R (M q (or_introl eq_refl))) as (R1 & L1 & P1 & K1 & C1 & B1 & O1 & PR1 & H1 & BB1 & BE1).
    assert (M1 : forall q', In q' t -> cmatch (recs st1) q').
    { intros q' Hq'. eapply cmatch_rel; [exact L1 | apply M; right; auto]. }
    destruct (IH _ _ H R1 M1) as (R2 & L2 & P2 & K2 & C2 & E2 & B2 & O2 & PR2 & H2 & BB2 & BE2).
    split; [exact R2|].
    split; [eapply rel_recs_trans; [apply gov_rel_trans | exact L1 | exact L2]|].
    split; [congruence|]. split; [congruence|].
    split.
    { intros a Ha. rewrite C2 by (intros; apply Ha; right; auto).
      destruct (C1 a) as [->|[Eq _]]; auto. exfalso. apply (Ha q); auto. left; auto. }
    split.
    { intros a r r' Hr Hr'.
      destruct (C1 a) as [Eq|[Eq Eq2]].
      * rewrite <- Eq in Hr. destruct (E2 _ _ _ Hr Hr') as [X|[X|(q' & Hq' & X)]]; auto.
        right; right. exists q'. split; auto. right; auto.
      * destruct (E2 _ _ _ Eq2 Hr') as [X|[X|(q' & Hq' & X)]].
        -- right; right. exists q. split; [left; auto | auto].
        -- right; right. exists q. split; [left; auto|]. rewrite X. unfold set_offline; cbn. reflexivity.
        -- right; right. exists q'. split; auto. right; auto. }
    repeat split; congruence.
Qed.

Lemma In_all_recs : forall s a r, In a (keys s) -> recs s a = Some r -> In r (all_recs s).
Proof.
  intros s a r Ha Hr. unfold all_recs. apply in_flat_map. exists a. split; auto. rewrite Hr. left; auto.
Qed.


(* inversion of a successful UpdateProposalOracles *)
Lemma gov_set_inv : forall s l rws s', gov_set s l rws = Ok s' ->
  l <> [] /\ nodupb l = true /\
  fold_left (gov_unbond1 rws)
    (filter (fun r => negb (memZ (o_addr r) l) && memZ (o_addr r) (proposal s)) (all_recs s))
    (Some (mkState (height s) (now s) (ubtime s) (vals s) (prm s) l (keys s)
                  (recs s) (by_bridger s) (by_ext s) (total_power s) (deleg s) (ubds s) (reds s)
                  (bal_o s) (bal_d s) (sets s) (latest_set s) (slashed_set s) (last_slash_height s)
                  (batches s) (slashed_batch_block s) (calls s) (slashed_call s) (next_call s)
                  (burned s) (gov_und s) (set_mem s) (last_obs s))) = Some s'.
Proof.
  intros s l rws s' H. unfold gov_set in H.
  destruct l as [|l0 lt] eqn:EL; [discriminate|]. rewrite <- EL in *.
  assert (Lne : l <> []) by (rewrite EL; discriminate).
  replace (match l with [] => true | _ :: _ => false end) with false in H by (rewrite EL; reflexivity).
  destruct (negb (nodupb l)) eqn:ND; [discriminate|]. apply Bool.negb_false_iff in ND.
  destruct (max_oracle_size <? Z.of_nat (length l)); [discriminate|].
  match type of H with (if ?c then _ else _) = _ => destruct c; [discriminate|] end.
  match type of H with match fold_left ?f ?g (Some ?s1) with _ => _ end = _ =>
    destruct (fold_left f g (Some s1)) as [s2|] eqn:F; [|discriminate] end.
  inversion H; subst s2. auto.
Qed.

(* what UpdateProposalOracles does to the registry, as one statement *)
Lemma gov_set_spec : forall s l rws s', idx_inv s -> core_inv s -> gov_set s l rws = Ok s' ->
  core_inv s' /\ proposal s' = l /\ keys s' = keys s /\ rel_recs gov_rel (recs s) (recs s') /\
  (forall a, In a l -> recs s' a = recs s a) /\
  (forall a r r', recs s a = Some r -> recs s' a = Some r' -> r' = r \/ r' = set_offline r) /\
  burned s' = burned s /\ bal_o s' = bal_o s /\ prm s' = prm s /\ height s' = height s /\
  l <> [] /\ nodupb l = true.
Proof.
  intros s l rws s' I (K & SL) H. destruct (gov_set_inv _ _ _ _ H) as (Lne & ND & F).
  set (gone := filter (fun r => negb (memZ (o_addr r) l) && memZ (o_addr r) (proposal s)) (all_recs s)) in *.
  match type of F with fold_left _ _ (Some ?s1) = _ => set (st1 := s1) in * end.
  assert (R1 : core_inv st1) by (split; unfold keys_inv, slash_inv; subst st1; proj; auto).
  assert (ADDR : forall a r, recs s a = Some r -> o_addr r = a) by (intros a r Hr; destruct I as (I1 & _); apply (I1 _ _ Hr)).
  assert (M1 : forall q, In q gone -> cmatch (recs st1) q).
  { intros q Hq. apply filter_In in Hq. destruct Hq as [Hq _]. apply all_recs_In in Hq.
    destruct Hq as (a & Ha & Hr). unfold cmatch. subst st1; proj. rewrite (ADDR _ _ Hr), Hr. apply gov_rel_refl. }
  destruct (gov_fold_core _ _ _ _ F R1 M1) as (R2 & L2 & P2 & K2 & C2 & E2 & B2 & O2 & PR2 & H2 & BB2 & BE2).
  subst st1; proj.
  split; [exact R2|]. split; [exact P2|]. split; [exact K2|]. split; [exact L2|].
  split.
  { intros a Ha. apply C2. intros q Hq Eq. apply filter_In in Hq. destruct Hq as [_ Hq].
    rewrite Eq in Hq. apply memZ_In in Ha. rewrite Ha in Hq. discriminate. }
  split.
  { intros a r r' Hr Hr'. destruct (E2 _ _ _ Hr Hr') as [X|[X|(q & Hq & X)]]; auto.
    right. apply filter_In in Hq. destruct Hq as [Hq _].
    apply all_recs_In in Hq. destruct Hq as (a' & _ & Hq).
    pose proof (L2 a) as La. rewrite Hr, Hr' in La. destruct La as ((A & _) & _).
    rewrite X in A. cbn in A. rewrite (ADDR _ _ Hq), (ADDR _ _ Hr) in A. subst a'. congruence. }
  repeat split; auto.
Qed.

(* ---------------- end blocker ---------------- *)

(* is the record at address a touched by one of the three loops in this block? *)
Definition due_hit (a : Z) (s : state) : bool :=
  existsb (hit KSet a (online_recs s)) (due_of s KSet) ||
  existsb (hit KBatch a (online_recs s)) (due_of s KBatch) ||
  existsb (hit KCall a (online_recs s)) (due_of s KCall).

Lemma slashing_spec : forall s s2, slashing s = Some s2 ->
  rel_recs slash_rel (recs s) (recs s2) /\
  (forall a, due_hit a s = false -> recs s2 a = recs s a) /\
  keys s2 = keys s /\ proposal s2 = proposal s /\ deleg s2 = deleg s /\ gov_und s2 = gov_und s /\
  prm s2 = prm s /\ burned s2 = burned s /\ bal_o s2 = bal_o s /\ bal_d s2 = bal_d s /\ ubds s2 = ubds s /\
  height s2 = height s /\ by_bridger s2 = by_bridger s /\ by_ext s2 = by_ext s.
Proof.
  intros s s2 H. unfold slashing in H.
  match type of H with (if ?c then _ else _) = _ => destruct c; [discriminate|] end.
  inversion H; subst; clear H.
  match goal with |- context[if ?c then refresh_power ?x else ?x] => destruct c end; unfold_power.
  all: split;
    [eapply rel_recs_trans; [apply slash_rel_trans | exact (slash_objs_rel KSet (height s) (online_recs s) (due_of s KSet) (mkL (recs s) (last_slash_height s) false)) |];
     eapply rel_recs_trans; [apply slash_rel_trans | apply slash_objs_rel | apply slash_objs_rel]|].
  all: split; [|repeat split; reflexivity].
  all: intros a Ha; unfold due_hit in Ha; apply orb_false_iff in Ha; destruct Ha as [Ha H3];
    apply orb_false_iff in Ha; destruct Ha as [H1 H2];
    rewrite slash_objs_unchanged by exact H3; rewrite slash_objs_unchanged by exact H2;
    exact (slash_objs_unchanged KSet (height s) (online_recs s) (due_of s KSet) a (mkL (recs s) (last_slash_height s) false) H1).
Qed.

Lemma end_block_spec : forall s t1 t2 pd s', end_block s t1 t2 pd = Ok s' ->
  rel_recs slash_rel (recs s) (recs s') /\
  (forall a, due_hit a s = false -> recs s' a = recs s a) /\
  keys s' = keys s /\ proposal s' = proposal s /\ deleg s' = deleg s /\ gov_und s' = gov_und s /\
  prm s' = prm s /\ burned s' = burned s /\ bal_o s' = bal_o s /\
  (forall a, bal_d s' a = bal_d s a + matured_sum t1 (ubds s) a) /\
  ubds s' = filter (fun u => negb (u_time u <=? t1)) (ubds s) /\
  height s' = height s + 1 /\ by_bridger s' = by_bridger s /\ by_ext s' = by_ext s.
Proof.
  intros s t1 t2 pd s' H. apply end_block_inv in H. destruct H as (s2 & s3 & H2 & H3 & ->).
  apply slashing_spec in H2.
  destruct H2 as (A1 & A2 & A3 & A4 & A5 & A6 & A7 & A8 & A9 & A10 & A11 & A12 & A13 & A14).
  destruct (same_registry_trans _ _ _ (create_set_same _ _ H3) (prune_sets_same s3))
    as (B1 & B12 & B13 & B2 & B3 & B4 & B5 & B6 & B7 & B8 & B9 & B10 & B11 & _).
  unfold next_block; proj.
  rewrite B1, B2, B3, B4, B5, B6, B7, B8, B9, B10, B11, B12, B13.
  rewrite A3, A4, A5, A6, A7, A8, A9, A10, A11, A12, A13, A14.
  repeat split; auto.
Qed.

Lemma end_block_core : forall s t1 t2 pd s', core_inv s -> end_block s t1 t2 pd = Ok s' -> core_inv s'.
Proof.
  intros s t1 t2 pd s' (K & SL) H. apply end_block_spec in H.
  destruct H as (R & _ & HK & _).
  split; [eapply keys_inv_rel; eauto | eapply slash_inv_rel; eauto].
Qed.

Lemma end_block_vals : forall s t1 t2 pd s', end_block s t1 t2 pd = Ok s' -> vals s' = vals s.
Proof.
  intros s t1 t2 pd s' H. apply end_block_inv in H. destruct H as (s2 & s3 & H2 & H3 & ->).
  destruct (same_registry_trans _ _ _ (create_set_same _ _ H3) (prune_sets_same s3)) as (_ & _ & _ & _ & _ & _ & _ & _ & _ & _ & _ & _ & _ & V).
  unfold next_block; proj. rewrite V. clear H3 V.
  unfold slashing in H2.
  match type of H2 with (if ?c then _ else _) = _ => destruct c; [discriminate|] end.
  inversion H2; subst; clear H2.
  match goal with |- context[if ?c then _ else _] => destruct c end; unfold_power; reflexivity.
Qed.

Theorem step_core : forall s o s', idx_inv s -> core_inv s -> step s o = Ok s' -> core_inv s'.
Proof.
  intros s o s' I R H. destruct o; cbn [step] in H.
  - eapply bond_core; eauto.
  - eapply add_delegate_core; eauto.
  - eapply re_delegate_core; eauto.
  - eapply edit_bridger_core; eauto.
  - unfold withdraw_reward in H. guards H. inversion H; subst. eapply core_inv_frame; eauto.
  - eapply unbond_core; eauto.
  - eapply gov_set_spec; eauto.
  - unfold set_params in H. guards H. inversion H; subst. eapply core_inv_frame; eauto.
  - unfold confirm in H. guards H. inversion H; subst. eapply core_inv_frame; eauto; destruct k; reflexivity.
  - unfold add_batch in H. guards H. inversion H; subst. eapply core_inv_frame; eauto.
  - unfold del_batch in H. inversion H; subst. eapply core_inv_frame; eauto.
  - unfold add_call in H. inversion H; subst. eapply core_inv_frame; eauto.
  - unfold del_call in H. inversion H; subst. eapply core_inv_frame; eauto.
  - unfold fund in H. inversion H; subst. eapply core_inv_frame; eauto.
  - unfold slash_val in H. destruct (negb (has_val s v)); inversion H; subst; eapply core_inv_frame; eauto.
  - unfold env_val in H. inversion H; subst. eapply core_inv_frame; eauto.
  - unfold slash_past in H. inversion H; subst. eapply core_inv_frame; eauto.
  - unfold env_stat in H. inversion H; subst. eapply core_inv_frame; eauto.
  - unfold exec_batch in H. guards H. inversion H; subst. eapply core_inv_frame; eauto.
  - destruct R as (K & SL). destruct (export_import_registry _ _ I H) as (HK & HR & _). split.
    + intros a r Hr. apply HR in Hr. destruct Hr as (Hr & <-). rewrite HK. apply in_map. exact Hr.
    + intros a r Hr. apply (SL a r). eapply export_import_recs_sub; eauto.
  - unfold observe_set in H. guards H. inversion H; subst. eapply core_inv_frame; eauto.
  - eapply end_block_core; eauto.
Qed.

Theorem step_reg : forall s o s', reg_inv s -> step s o = Ok s' -> reg_inv s'.
Proof.
  intros s o s' (I & K & SL) H. pose proof (step_core _ _ _ I (conj K SL) H) as (K' & SL').
  split; [eapply step_idx; eauto | split; auto].
Qed.

Lemma exec_reg : forall s o, reg_inv s -> reg_inv (exec s o).
Proof. intros s o I. unfold exec. destruct (step s o) eqn:E; auto. eapply step_reg; eauto. Qed.

Theorem run_reg : forall ops s, reg_inv s -> reg_inv (run s ops).
Proof.
  induction ops as [|o t IH]; intros s I; cbn [run fold_left]; auto. apply IH, exec_reg; auto.
Qed.

Lemma init_reg : forall h t ub vs p, reg_inv (init h t ub vs p).
Proof.
  intros. split; [apply init_idx|]. unfold keys_inv, slash_inv, init; proj.
  split; intros; discriminate.
Qed.
