(* P_OracleReg3.v — the statements of property C13 over the model (bond rules, stake accounting,
   penalties, slashing rule, unbonding), derived from the invariants of P_OracleReg / P_OracleReg2. *)
From Coq Require Import ZArith List Bool Lia.
From FxV Require Import model.M_OracleReg proofs.P_OracleReg proofs.P_OracleReg2 proofs.P_OracleRegStake.
Import ListNotations.
Open Scope Z_scope.

Ltac boolprop :=
  repeat match goal with
  | H : (_ <? _) = true |- _ => apply Z.ltb_lt in H
  | H : (_ <? _) = false |- _ => apply Z.ltb_ge in H
  | H : (_ <=? _) = true |- _ => apply Z.leb_le in H
  | H : (_ <=? _) = false |- _ => apply Z.leb_gt in H
  | H : (_ =? _) = true |- _ => apply Z.eqb_eq in H
  | H : (_ =? _) = false |- _ => apply Z.eqb_neq in H
  | H : memZ _ _ = true |- _ => apply memZ_In in H
  | H : (_ && _) = true |- _ => apply andb_true_iff in H; destruct H
  end.

(* (0 <? x) && (y <? x) = false, with 0 <= x and 0 < y or so: used for the penalty guards *)
Lemma guard_pen : forall sl amt, ((0 <? sl) && (amt <? sl)) = false -> 0 <= sl -> 0 < amt -> 0 <= amt - sl.
Proof.
  intros sl amt H S A. destruct (0 <? sl) eqn:P; cbn [andb] in H.
  - apply Z.ltb_ge in H. lia.
  - apply Z.ltb_ge in P. lia.
Qed.

(* ------------------------------------------------------------------ *)
(* bonding rules                                                       *)

Theorem bond_rules : forall s a b e v amt s', bond s a b e v amt = Ok s' ->
  In a (proposal s) /\ recs s a = None /\ by_bridger s b = None /\ by_ext s e = None /\
  p_threshold (prm s) <= amt <= max_stake (prm s) /\
  recs s' a = Some (mkOracle a b e amt (height s) true v 0) /\
  bal_o s' a = bal_o s a - amt /\ bal_d s' = bal_d s /\ burned s' = burned s /\
  (* what staking's Delegate did: exactly [amt] tokens reached validator v, shares at its rate *)
  (exists V' dl', stk_delegate (vals s) (deleg s) a v amt = Some (V', dl') /\ vals s' = V' /\ deleg s' = dl' /\
                  v_tok V' v = vtok s v + amt) /\
  (rate1 s -> deleg s' a v = deleg s a v + amt * dec_one).
Proof.
  intros s a b e v amt s' H. unfold bond in H. guards H. inversion H; subst; clear H. unfold_power.
  boolprop. rewrite !upd_same.
  match goal with G : stk_delegate _ _ _ _ _ = Some (?V, ?dl) |- _ => rename G into SD end.
  repeat split; auto; try lia.
  - do 2 eexists. split; [reflexivity|]. split; [reflexivity|]. split; [reflexivity|].
    unfold stk_delegate in SD.
    destruct (negb (memZ v (v_ids (vals s)))); [discriminate|].
    destruct ((v_tok (vals s) v =? 0) && (0 <? v_shr (vals s) v)); [discriminate|].
    inversion SD; subst. cbn. rewrite upd_same. reflexivity.
  - intros R. destruct (stk_delegate_rate1 _ _ _ _ _ _ _ R SD) as (_ & ->). apply upd2_same.
Qed.

Theorem add_delegate_rules : forall s a amt rw s', add_delegate s a amt rw = Ok s' ->
  exists r, recs s a = Some r /\ In a (proposal s) /\
    let sl := slash_amount r (p_fraction (prm s)) in
    let dc := amt - sl in
    0 <= sl /\ 0 <= dc /\
    p_threshold (prm s) <= o_amount r + dc <= max_stake (prm s) /\
    recs s' a = Some (mkOracle (o_addr r) (o_bridger r) (o_ext r) (o_amount r + dc)
                               (if o_online r then o_start r else height s) true (o_val r) 0) /\
    bal_o s' a = bal_o s a - amt /\
    (rate1 s -> deleg s' a (o_val r) = deleg s a (o_val r) + dc * dec_one) /\
    burned s' = burned s + sl.
Proof.
  intros s a amt rw s' H. unfold add_delegate in H. guards H. inversion H; subst; clear H.
  rename o into r. exists r. unfold_power.
  pose proof (slash_amount_nonneg r (p_fraction (prm s))) as SN.
  set (sl := slash_amount r (p_fraction (prm s))) in *.
  assert (DC : 0 <= amt - sl).
  { match goal with G : ((0 <? sl) && (amt <? sl)) = false |- _ => apply (guard_pen _ _ G SN) end.
    match goal with G : (amt <=? 0) = false |- _ => apply Z.leb_gt in G; exact G end. }
  boolprop. rewrite !upd_same. repeat split; auto; try lia.
  - destruct (0 <? amt - sl) eqn:P; [apply Z.ltb_lt in P | apply Z.ltb_ge in P]; lia.
  - intros R. match goal with G : (if 0 <? amt - sl then _ else _) = Some (?V, ?dl) |- _ =>
      destruct (0 <? amt - sl) eqn:P;
      [ destruct (stk_delegate_rate1 _ _ _ _ _ _ _ R G) as (_ & ->); apply upd2_same
      | inversion G; subst; apply Z.ltb_ge in P; replace (amt - sl) with 0 by lia; ring ] end.
  - destruct (0 <? sl) eqn:P; [lia | apply Z.ltb_ge in P; lia].
Qed.

(* every reachable state satisfies all invariants *)
Theorem reachable_inv : forall h t ub vs p ops, reg_inv (run (init h t ub vs p) ops).
Proof. intros. apply run_reg, init_reg. Qed.

(* the stake equation, along every operation list without a staking slash of a validator (1 share = 1 token,
   [deleg] counts shares scaled 10^18): recorded stake = what is delegated on the oracle's behalf + what
   governance removal undelegated since the record was created; nothing is delegated elsewhere *)
Theorem stake_accounting : forall h t ub vs p ops s a r, rate1V vs -> Forall calm ops ->
  s = run (init h t ub vs p) ops -> recs s a = Some r ->
  deleg s a (o_val r) = (o_amount r - gov_und s a) * dec_one /\
  (forall v, v <> o_val r -> deleg s a v = 0) /\
  (gov_und s a = 0 -> deleg s a (o_val r) = o_amount r * dec_one) /\
  (~ In a (proposal s) -> deleg s a (o_val r) = 0) /\
  rate1 s.
Proof.
  intros h t ub vs p ops s a r RV F -> Hr.
  destruct (run_stake ops _ F (init_reg h t ub vs p) (init_sinv h t ub vs p RV)) as (R & S1 & S2 & _ & S4).
  repeat split; eauto. intros G. rewrite (S1 _ _ Hr), G. ring.
Qed.

(* [gov_und] only moves when governance removes the oracle (and restarts at 0 when it bonds) *)
Lemma gov_unbond1_govund : forall rws st q st1 a,
  gov_unbond1 rws (Some st) q = Some st1 -> a <> o_addr q -> gov_und st1 a = gov_und st a.
Proof.
  intros rws st q st1 a H Ha. inv_gov1 H. proj. apply upd_other; auto.
Qed.

Lemma gov_fold_govund : forall rws l st st' a,
  fold_left (gov_unbond1 rws) l (Some st) = Some st' -> (forall q, In q l -> o_addr q <> a) ->
  gov_und st' a = gov_und st a.
Proof.
  intros rws l. induction l as [|q t IH]; intros st st' a H Ha; cbn [fold_left] in H.
  - inversion H; auto.
  - destruct (gov_unbond1 rws (Some st) q) as [st1|] eqn:E; [|rewrite gov_unbond1_none in H; discriminate].
    rewrite (IH _ _ _ H) by (intros; apply Ha; right; auto).
    eapply gov_unbond1_govund; eauto. intro X. apply (Ha q); auto. left; auto.
Qed.

Lemma gov_set_govund' : forall s l rws s' a, gov_set s l rws = Ok s' ->
  memZ a l = true \/ memZ a (proposal s) = false -> gov_und s' a = gov_und s a.
Proof.
  intros s l rws s' a H C. unfold gov_set in H.
  destruct (match l with [] => true | _ => false end); [discriminate|].
  destruct (negb (nodupb l)); [discriminate|].
  destruct (max_oracle_size <? Z.of_nat (length l)); [discriminate|].
  match type of H with (if ?c then _ else _) = _ => destruct c; [discriminate|] end.
  match type of H with match fold_left ?f ?g (Some ?s1) with _ => _ end = _ =>
     destruct (fold_left f g (Some s1)) as [s2|] eqn:F; [|discriminate] end.
  inversion H; subst s2; clear H.
  rewrite (gov_fold_govund _ _ _ _ a F); [reflexivity|].
  intros q Hq Eq. apply filter_In in Hq. destruct Hq as [_ Hq]. rewrite Eq in Hq.
  destruct C as [C|C]; rewrite C in Hq; cbn in Hq; [discriminate | rewrite andb_false_r in Hq; discriminate].
Qed.

Theorem gov_und_moves_only_on_removal : forall s o s' a, step s o = Ok s' ->
  gov_und s' a = gov_und s a \/
  (exists b e v amt, o = Bond a b e v amt /\ gov_und s' a = 0) \/
  (exists l rws, o = GovSet l rws /\ ~ In a l /\ In a (proposal s)).
Proof.
  intros s o s' a H. destruct o; cbn [step] in H.
  - unfold bond in H. guards H. inversion H; subst; clear H. unfold_power.
    destruct (Z.eq_dec a a0) as [->|N]; [right; left; repeat eexists; apply upd_same | left; apply upd_other; auto].
  - unfold add_delegate in H. guards H. inversion H; subst. left; reflexivity.
  - unfold re_delegate in H. guards H. inversion H; subst. left; reflexivity.
  - unfold edit_bridger in H. guards H. inversion H; subst. left; reflexivity.
  - unfold withdraw_reward in H. guards H. inversion H; subst. left; reflexivity.
  - unfold unbond, unbond_gen in H. guards H. inversion H; subst. left; reflexivity.
  - destruct (memZ a l) eqn:ML.
    + left. eapply gov_set_govund'; eauto.
    + destruct (memZ a (proposal s)) eqn:MP.
      * right; right. exists l, rws. repeat split; auto.
        -- intro X. apply memZ_In in X. congruence.
        -- apply memZ_In; auto.
      * left. eapply gov_set_govund'; eauto.
  - unfold set_params in H. guards H. inversion H; subst. left; reflexivity.
  - unfold confirm in H. guards H. inversion H; subst. left; destruct k; reflexivity.
  - unfold add_batch in H. guards H. inversion H; subst. left; reflexivity.
  - unfold del_batch in H. inversion H; subst. left; reflexivity.
  - unfold add_call in H. inversion H; subst. left; reflexivity.
  - unfold del_call in H. inversion H; subst. left; reflexivity.
  - unfold fund in H. inversion H; subst. left; reflexivity.
  - unfold slash_val in H. destruct (negb (has_val s v)); inversion H; subst; left; reflexivity.
  - unfold env_val in H. inversion H; subst. left; reflexivity.
  - unfold slash_past in H. inversion H; subst. left; reflexivity.
  - unfold env_stat in H. inversion H; subst. left; reflexivity.
  - unfold exec_batch in H. guards H. inversion H; subst. left; reflexivity.
  - unfold export_import in H. inversion H; subst. left; reflexivity.
  - unfold observe_set in H. guards H. inversion H; subst. left; reflexivity.
  - apply end_block_spec in H. left. destruct H as (_ & _ & _ & _ & _ & G & _). rewrite G. reflexivity.
Qed.

(* ------------------------------------------------------------------ *)
(* penalties: bounded by the stake, charged at most once per offline period *)

Theorem penalty_bounded : forall r f, 0 <= slash_amount r f <= Z.max 0 (o_amount r).
Proof. intros. split; [apply slash_amount_nonneg | apply slash_amount_le]. Qed.

Theorem slash_count_bounded : forall h t ub vs p ops s a r, s = run (init h t ub vs p) ops ->
  recs s a = Some r -> o_slash r = 0 \/ (o_slash r = 1 /\ o_online r = false).
Proof.
  intros h t ub vs p ops s a r -> Hr. destruct (reachable_inv h t ub vs p ops) as (_ & _ & SL). eauto.
Qed.

Lemma charged_bounds : forall cap sl0 bal, 0 <= sl0 -> 0 <= charged cap sl0 bal <= sl0.
Proof.
  intros cap sl0 bal H. unfold charged. destruct cap.
  - destruct (0 <? Z.min sl0 bal) eqn:P; [apply Z.ltb_lt in P|]; lia.
  - destruct (0 <? sl0) eqn:P; [apply Z.ltb_lt in P|]; lia.
Qed.
Lemma charged_zero : forall cap bal, charged cap 0 bal = 0.
Proof. intros. pose proof (charged_bounds cap 0 bal ltac:(lia)). lia. Qed.
Lemma charged_refuse : forall sl0 bal, 0 <= sl0 -> charged false sl0 bal = sl0.
Proof. intros. unfold charged. destruct (0 <? sl0) eqn:P; [reflexivity | apply Z.ltb_ge in P; lia]. Qed.
Lemma charged_cap : forall sl0 bal, 0 <= sl0 -> 0 <= bal -> charged true sl0 bal = Z.min sl0 bal.
Proof. intros. unfold charged. destruct (0 <? Z.min sl0 bal) eqn:P; [reflexivity | apply Z.ltb_ge in P; lia]. Qed.

(* the only transitions that burn anything are AddDelegate and UnbondedOracle of an oracle with an
   unpaid penalty; AddDelegate burns exactly its penalty, UnbondedOracle what the checked tree's rule charges
   ([charged]: the penalty, or with the cap min(penalty, delegate balance)); no unpaid penalty is left behind *)
Theorem penalty_charged_once : forall s o s', reg_inv s -> step s o = Ok s' ->
  burned s' = burned s \/
  exists a r, recs s a = Some r /\ o_slash r = 1 /\ o_online r = false /\
    (((exists amt rw, o = AddDelegate a amt rw) /\ burned s' = burned s + slash_amount r (p_fraction (prm s))) \/
     (o = Unbond a /\
      burned s' = burned s + charged Gen_OracleSlash.unbond_penalty_capped (slash_amount r (p_fraction (prm s))) (bal_d s a) /\
      0 <= charged Gen_OracleSlash.unbond_penalty_capped (slash_amount r (p_fraction (prm s))) (bal_d s a)
        <= slash_amount r (p_fraction (prm s)))) /\
    slash_amount r (p_fraction (prm s)) <= Z.max 0 (o_amount r) /\
    (recs s' a = None \/ exists r', recs s' a = Some r' /\ o_slash r' = 0 /\ o_online r' = true).
Proof.
  intros s o s' (I & K & SL) H. destruct o; cbn [step] in H.
  - apply bond_rules in H. left. tauto.
  - destruct (add_delegate_rules _ _ _ _ _ H) as (r & Hr & _ & A0 & _ & _ & Hr' & _ & _ & B).
    destruct (SL _ _ Hr) as [Z0|[Z1 Off]].
    + left. rewrite B, (slash_amount_zero _ _ Z0). lia.
    + right. exists a, r. split; auto. split; auto. split; auto.
      split; [left; split; [eauto | exact B]|]. split; [apply slash_amount_le|].
      right. eexists. split; [exact Hr'|]. cbn. auto.
  - unfold re_delegate in H. guards H. inversion H; subst. left; reflexivity.
  - unfold edit_bridger in H. guards H. inversion H; subst. left; reflexivity.
  - unfold withdraw_reward in H. guards H. inversion H; subst. left; reflexivity.
  - unfold unbond, unbond_gen in H. guards H. inversion H; subst; clear H. rename o into r. proj.
    destruct (SL _ _ Heqo) as [Z0|[Z1 Off]].
    + left. rewrite (slash_amount_zero _ _ Z0), charged_zero. lia.
    + right. exists a, r. split; auto. split; auto. split; auto.
      split; [right; split; [reflexivity|]; split; [reflexivity | apply charged_bounds, slash_amount_nonneg]|].
      split; [apply slash_amount_le|]. left. apply upd_same.
  - left. destruct (gov_set_spec _ _ _ _ I (conj K SL) H) as (_ & _ & _ & _ & _ & _ & B & _). exact B.
  - unfold set_params in H. guards H. inversion H; subst. left; reflexivity.
  - unfold confirm in H. guards H. inversion H; subst. left; destruct k; reflexivity.
  - unfold add_batch in H. guards H. inversion H; subst. left; reflexivity.
  - unfold del_batch in H. inversion H; subst. left; reflexivity.
  - unfold add_call in H. inversion H; subst. left; reflexivity.
  - unfold del_call in H. inversion H; subst. left; reflexivity.
  - unfold fund in H. inversion H; subst. left; reflexivity.
  - unfold slash_val in H. destruct (negb (has_val s v)); inversion H; subst; left; reflexivity.
  - unfold env_val in H. inversion H; subst. left; reflexivity.
  - unfold slash_past in H. inversion H; subst. left; reflexivity.
  - unfold env_stat in H. inversion H; subst. left; reflexivity.
  - unfold exec_batch in H. guards H. inversion H; subst. left; reflexivity.
  - unfold export_import in H. inversion H; subst. left; reflexivity.
  - unfold observe_set in H. guards H. inversion H; subst. left; reflexivity.
  - apply end_block_spec in H. left. destruct H as (_ & _ & _ & _ & _ & _ & _ & B & _). exact B.
Qed.

(* ------------------------------------------------------------------ *)
(* the slashing rule                                                   *)

Lemma take_while_In : forall A (f : A -> bool) l x, In x (take_while f l) -> In x l /\ f x = true.
Proof.
  intros A f l. induction l as [|y t IH]; intros x H; cbn in H; [contradiction|].
  destruct (f y) eqn:F; [|contradiction]. destruct H as [->|H]; [split; [left|]; auto|].
  destruct (IH _ H). split; [right|]; auto.
Qed.

Lemma online_recs_In : forall s q, In q (online_recs s) -> In q (all_recs s) /\ o_online q = true.
Proof. intros s q H. apply filter_In in H. exact H. Qed.

(* what the proofs need about the definitions generated from the source (gen/Gen_OracleSlash.v):
   an oracle that is not skipped started at or before the creation height of the object, and an object
   a loop looks at is at least one signed window old.  If an operator in abci.go / the GetUnSlashed*
   selectors is edited so that one of these stops being true, this file no longer compiles. *)
Ltac zb H :=
  first [apply Z.ltb_ge in H | apply Z.leb_gt in H | apply Z.ltb_lt in H | apply Z.leb_le in H
        | apply Z.eqb_eq in H | apply Z.eqb_neq in H
        | (apply Bool.negb_true_iff in H; zb H) | (apply Bool.negb_false_iff in H; zb H)].

Lemma skip_sound : forall k start created, skip_of k start created = false -> start <= created.
Proof.
  intros k start created H.
  destruct k; cbn [skip_of] in H;
    [unfold Gen_OracleSlash.skip_set in H | unfold Gen_OracleSlash.skip_batch in H | unfold Gen_OracleSlash.skip_call in H];
    zb H; lia.
Qed.

Lemma old_set_sound : forall c b, Gen_OracleSlash.old_set c b = true -> c <= b.
Proof. intros c b H. unfold Gen_OracleSlash.old_set in H. zb H; lia. Qed.
Lemma old_batch_sound : forall c b, Gen_OracleSlash.old_batch c b = true -> c <= b.
Proof. intros c b H. unfold Gen_OracleSlash.old_batch in H. zb H; lia. Qed.
Lemma old_call_sound : forall c b, Gen_OracleSlash.old_call c b = true -> c <= b.
Proof. intros c b H. unfold Gen_OracleSlash.old_call in H. zb H; lia. Qed.

(* an object one of the loops looks at: it is stored, and at least one signed window old *)
Lemma due_of_In : forall s k x, In x (due_of s k) ->
  In x (objs_of s k) /\ ob_height x <= height s - p_window (prm s).
Proof.
  intros s k x H. unfold due_of in H. destruct (Gen_OracleSlash.slashing_off (height s) (p_window (prm s))); [contradiction|].
  destruct k; cbn [objs_of].
  - unfold due_sets in H. apply take_while_In in H. destruct H as [H F]. apply filter_In in H.
    split; [tauto | apply old_set_sound; auto].
  - unfold due_batches in H. apply filter_In in H. destruct H as [H F]. apply andb_true_iff in F.
    split; [auto | apply old_batch_sound; tauto].
  - unfold due_calls in H. apply take_while_In in H. destruct H as [H F]. apply filter_In in H.
    split; [tauto | apply old_call_sound; auto].
Qed.

(* who goes offline, and why: governance removal, or the end blocker for an oracle set / batch that
   was created at or after the oracle's start height, that the oracle has no stored confirm for, and
   that is older than the signed window *)
Theorem offline_only_if : forall s o s' a r r', reg_inv s -> step s o = Ok s' ->
  recs s a = Some r -> o_online r = true -> recs s' a = Some r' -> o_online r' = false ->
  (exists l rws, o = GovSet l rws /\ ~ In a l /\ r' = set_offline r) \/
  (exists t1 t2 pd k x, o = EndBlock t1 t2 pd /\ r' = set_off r /\ In x (due_of s k) /\
     In x (objs_of s k) /\
     o_start r <= ob_height x /\
     has_conf_ext (o_ext r) x = false /\
     height s - ob_height x >= p_window (prm s)).
Proof.
  intros s o s' a r r' (I & K & SL) H Hr On Hr' Off. destruct o; cbn [step] in H.
  - exfalso. unfold bond in H. guards H. inversion H; subst; clear H. unfold_power.
    destruct (Z.eq_dec a a0) as [->|N]; [congruence|]. rewrite upd_other in Hr' by auto. congruence.
  - exfalso. unfold add_delegate in H. guards H. inversion H; subst; clear H. unfold_power.
    destruct (Z.eq_dec a a0) as [->|N].
    + rewrite upd_same in Hr'. inversion Hr'; subst r'. cbn in Off. discriminate.
    + rewrite upd_other in Hr' by auto. congruence.
  - exfalso. unfold re_delegate in H. guards H. inversion H; subst; clear H. proj.
    destruct (Z.eq_dec a a0) as [->|N].
    + rewrite upd_same in Hr'. inversion Hr'; subst r'. cbn in Off. congruence.
    + rewrite upd_other in Hr' by auto. congruence.
  - exfalso. unfold edit_bridger in H. guards H. inversion H; subst; clear H. proj.
    destruct (Z.eq_dec a a0) as [->|N].
    + rewrite upd_same in Hr'. inversion Hr'; subst r'. cbn in Off. congruence.
    + rewrite upd_other in Hr' by auto. congruence.
  - exfalso. unfold withdraw_reward in H. guards H. inversion H; subst; clear H. proj. congruence.
  - exfalso. unfold unbond, unbond_gen in H. guards H. inversion H; subst; clear H. proj.
    destruct (Z.eq_dec a a0) as [->|N].
    + rewrite upd_same in Hr'. discriminate.
    + rewrite upd_other in Hr' by auto. congruence.
  - left. destruct (gov_set_spec _ _ _ _ I (conj K SL) H) as (_ & _ & _ & _ & C & E & _).
    exists l, rws. split; auto. split.
    + intros X. rewrite (C _ X) in Hr'. congruence.
    + destruct (E _ _ _ Hr Hr') as [->| ->]; [congruence | reflexivity].
  - exfalso. unfold set_params in H. guards H. inversion H; subst; clear H. proj. congruence.
  - exfalso. unfold confirm in H. guards H. inversion H; subst; clear H. destruct k; unfold set_objs in Hr'; proj; congruence.
  - exfalso. unfold add_batch in H. guards H. inversion H; subst; clear H. unfold set_objs in Hr'; proj; congruence.
  - exfalso. unfold del_batch in H. inversion H; subst; clear H. unfold set_objs in Hr'; proj; congruence.
  - exfalso. unfold add_call in H. inversion H; subst; clear H. proj; congruence.
  - exfalso. unfold del_call in H. inversion H; subst; clear H. unfold set_objs in Hr'; proj; congruence.
  - exfalso. unfold fund in H. inversion H; subst; clear H. proj; congruence.
  - exfalso. unfold slash_val in H. destruct (negb (has_val s v)); inversion H; subst; clear H; unfold set_vals_deleg in *; proj; congruence.
  - exfalso. unfold env_val in H. inversion H; subst; clear H. unfold set_vals_deleg in *; proj; congruence.
  - exfalso. unfold slash_past in H. inversion H; subst; clear H. proj; congruence.
  - exfalso. unfold env_stat in H. inversion H; subst; clear H. unfold set_vals_deleg in *; proj; congruence.
  - exfalso. unfold exec_batch in H. guards H. inversion H; subst; clear H. unfold set_objs in Hr'; proj; congruence.
  - exfalso. pose proof (export_import_recs_sub _ _ _ _ I H Hr'). congruence.
  - exfalso. unfold observe_set in H. guards H. inversion H; subst; clear H. proj; congruence.
  - right. apply end_block_spec in H. destruct H as (R & U & _).
    pose proof (R a) as Ra. rewrite Hr, Hr' in Ra. destruct Ra as [->|[_ ->]]; [congruence|].
    destruct (due_hit a s) eqn:EX.
    + assert (W : exists k x, In x (due_of s k) /\ hit k a (online_recs s) x = true).
      { unfold due_hit in EX. apply orb_true_iff in EX. destruct EX as [EX|EX]; [apply orb_true_iff in EX; destruct EX as [EX|EX]|];
          apply existsb_exists in EX; destruct EX as (x & Hx & Hh); eauto. }
      destruct W as (k & x & Hx & Hh).
      unfold hit in Hh. apply existsb_exists in Hh. destruct Hh as (q & Hq & Hc).
      apply andb_true_iff in Hc. destruct Hc as [Ha Hm]. apply Z.eqb_eq in Ha.
      apply online_recs_In in Hq. destruct Hq as [Hq _]. apply all_recs_In in Hq.
      destruct Hq as (a' & _ & Hq). destruct I as (I1 & _). destruct (I1 _ _ Hq) as (A & _).
      assert (a' = a) by congruence. subst a'. assert (q = r) by congruence. subst q.
      destruct (due_of_In _ _ _ Hx) as (Hin & Hh).
      unfold must_sign in Hm. apply andb_true_iff in Hm. destruct Hm as [M1 M2].
      apply Bool.negb_true_iff in M1, M2. apply skip_sound in M1.
      exists t_end, t_next, pd, k, x. repeat split; auto. lia.
    + rewrite (U _ EX) in Hr'. congruence.
Qed.

(* the slash counter never grows outside the end blocker, and there only by the rule above *)
Definition slash_count (s : state) (a : Z) : Z := match recs s a with Some r => o_slash r | None => 0 end.

Theorem slashed_only_if : forall s o s' a, reg_inv s -> step s o = Ok s' ->
  slash_count s a < slash_count s' a ->
  exists t1 t2 pd r k x, o = EndBlock t1 t2 pd /\ recs s a = Some r /\ o_online r = true /\
     recs s' a = Some (set_off r) /\ In x (due_of s k) /\
     In x (objs_of s k) /\ o_start r <= ob_height x /\
     has_conf_ext (o_ext r) x = false /\ height s - ob_height x >= p_window (prm s).
Proof.
  intros s o s' a RI H Lt. pose proof RI as (I & K & SL). unfold slash_count in Lt.
  assert (NN : forall r, recs s a = Some r -> 0 <= o_slash r).
  { intros r Hr. destruct (SL _ _ Hr) as [->|[-> _]]; lia. }
  destruct o; cbn [step] in H.
  - exfalso. unfold bond in H. guards H. inversion H; subst; clear H. unfold_power.
    match type of Lt with context[upd (recs s) a0 ?X a] =>
      destruct (upd_cases _ (recs s) a0 X a) as [[-> E]|[_ E]]; rewrite E in Lt end.
    + match goal with G : recs s a0 = None |- _ => rewrite G in Lt end. cbn in Lt. lia.
    + lia.
  - exfalso. unfold add_delegate in H. guards H. inversion H; subst; clear H. unfold_power.
    match type of Lt with context[upd (recs s) a0 ?X a] =>
      destruct (upd_cases _ (recs s) a0 X a) as [[-> E]|[_ E]]; rewrite E in Lt end.
    + match goal with G : recs s a0 = Some ?r |- _ => rewrite G in Lt; specialize (NN _ G) end. cbn in Lt. lia.
    + lia.
  - exfalso. unfold re_delegate in H. guards H. inversion H; subst; clear H. proj.
    destruct (upd_cases _ (recs s) a0 (Some (mkOracle (o_addr o) (o_bridger o) (o_ext o) (o_amount o) (o_start o) (o_online o) v (o_slash o))) a) as [[-> E]|[_ E]];
      rewrite E in Lt; [rewrite Heqo in Lt; cbn in Lt|]; lia.
  - exfalso. unfold edit_bridger in H. guards H. inversion H; subst; clear H. proj.
    destruct (upd_cases _ (recs s) a0 (Some (mkOracle (o_addr o) b (o_ext o) (o_amount o) (o_start o) (o_online o) (o_val o) (o_slash o))) a) as [[-> E]|[_ E]];
      rewrite E in Lt; [rewrite Heqo in Lt; cbn in Lt|]; lia.
  - exfalso. unfold withdraw_reward in H. guards H. inversion H; subst; clear H. proj. lia.
  - exfalso. unfold unbond, unbond_gen in H. guards H. inversion H; subst; clear H. proj.
    destruct (upd_cases _ (recs s) a0 None a) as [[-> E]|[_ E]]; rewrite E in Lt; [|lia].
    rewrite Heqo in Lt. specialize (NN _ Heqo). lia.
  - exfalso. destruct (gov_set_spec _ _ _ _ I (conj K SL) H) as (_ & _ & _ & L & _ & E & _).
    pose proof (L a) as La. destruct (recs s a) as [r|] eqn:Hr, (recs s' a) as [r'|] eqn:Hr'; try tauto; try lia.
    destruct (E _ _ _ Hr Hr') as [->| ->]; cbn in Lt; lia.
  - exfalso. unfold set_params in H. guards H. inversion H; subst; clear H. proj. lia.
  - exfalso. unfold confirm in H. guards H. inversion H; subst; clear H. destruct k; unfold set_objs in Lt; proj; lia.
  - exfalso. unfold add_batch in H. guards H. inversion H; subst; clear H. unfold set_objs in Lt; proj; lia.
  - exfalso. unfold del_batch in H. inversion H; subst; clear H. unfold set_objs in Lt; proj; lia.
  - exfalso. unfold add_call in H. inversion H; subst; clear H. proj; lia.
  - exfalso. unfold del_call in H. inversion H; subst; clear H. unfold set_objs in Lt; proj; lia.
  - exfalso. unfold fund in H. inversion H; subst; clear H. proj; lia.
  - exfalso. unfold slash_val in H. destruct (negb (has_val s v)); inversion H; subst; clear H; unfold set_vals_deleg in *; proj; lia.
  - exfalso. unfold env_val in H. inversion H; subst; clear H. unfold set_vals_deleg in *; proj; lia.
  - exfalso. unfold slash_past in H. inversion H; subst; clear H. proj; lia.
  - exfalso. unfold env_stat in H. inversion H; subst; clear H. unfold set_vals_deleg in *; proj; lia.
  - exfalso. unfold exec_batch in H. guards H. inversion H; subst; clear H. unfold set_objs in Lt; proj; lia.
  - exfalso. destruct (recs s' a) as [r'|] eqn:Hr'.
    + rewrite (export_import_recs_sub _ _ _ _ I H Hr') in Lt. lia.
    + destruct (recs s a) as [r|] eqn:Hr; [specialize (NN _ eq_refl)|]; lia.
  - exfalso. unfold observe_set in H. guards H. inversion H; subst; clear H. proj; lia.
  - pose proof (end_block_spec _ _ _ _ _ H) as (R & _).
    pose proof (R a) as Ra. destruct (recs s a) as [r|] eqn:Hr, (recs s' a) as [r'|] eqn:Hr'; try tauto; try lia.
    destruct Ra as [->|[On ->]]; [lia|].
    destruct (offline_only_if s (EndBlock t_end t_next pd) s' a r _ RI H Hr On Hr' eq_refl) as [(l & rws & X & _)|(t1 & t2 & pd' & k & x & X & _ & P0 & P1 & P2 & P3 & P4)];
      [discriminate|].
    inversion X; subst. exists t1, t2, pd', r, k, x. repeat split; auto.
Qed.

(* an oracle that has a stored confirm for every object the loops look at is never penalised *)
Fixpoint all_steps (P : state -> op -> Prop) (s : state) (ops : list op) : Prop :=
  match ops with [] => True | o :: t => P s o /\ all_steps P (exec s o) t end.

Definition signed_all_due (a : Z) (s : state) : Prop :=
  forall r k x, recs s a = Some r -> In x (due_of s k) -> o_start r <= ob_height x ->
                has_conf_ext (o_ext r) x = true.

Definition signs_in_time (a : Z) (s : state) (o : op) : Prop :=
  match o with EndBlock _ _ _ => signed_all_due a s | _ => True end.

Definition never_penalised (a : Z) (s : state) (o : op) : Prop :=
  slash_count (exec s o) a <= slash_count s a /\
  (forall r r', recs s a = Some r -> o_online r = true -> recs (exec s o) a = Some r' -> o_online r' = false ->
     exists l rws, o = GovSet l rws /\ ~ In a l).

Theorem confirmed_never_slashed : forall ops s a, reg_inv s ->
  all_steps (signs_in_time a) s ops -> all_steps (never_penalised a) s ops.
Proof.
  induction ops as [|o t IH]; intros s a RI H; cbn [all_steps] in *; auto.
  destruct H as [H0 H1]. split; [|apply IH; auto; apply exec_reg; auto].
  unfold never_penalised, exec. destruct (step s o) as [s'| |] eqn:E; try (split; [lia | intros; congruence]).
  split.
  - destruct (Z_le_gt_dec (slash_count s' a) (slash_count s a)) as [L|G]; auto. exfalso.
    destruct (slashed_only_if _ _ _ a RI E ltac:(lia)) as (t1 & t2 & pd & r & k & x & -> & Hr & On & _ & D & _ & St & Nc & _).
    cbn in H0. rewrite (H0 _ _ _ Hr D St) in Nc. discriminate.
  - intros r r' Hr On Hr' Off.
    destruct (offline_only_if _ _ _ _ _ _ RI E Hr On Hr' Off) as [(l & rws & -> & Nl & _)|(t1 & t2 & pd & k & x & -> & _ & D & _ & St & Nc & _)]; eauto.
    exfalso. cbn in H0. rewrite (H0 _ _ _ Hr D St) in Nc. discriminate.
Qed.

(* readable sufficient condition: a confirm for every stored oracle set / batch / bridge call created at or
   after the start height that is at least one signed window old *)
Lemma signed_all_old_due : forall a s,
  (forall r k x, recs s a = Some r -> In x (objs_of s k) -> o_start r <= ob_height x ->
                 height s - ob_height x >= p_window (prm s) -> has_conf_ext (o_ext r) x = true) ->
  signed_all_due a s.
Proof.
  intros a s H r k x Hr Hx St. destruct (due_of_In _ _ _ Hx) as (Hin & Hh). apply (H r k x); auto. lia.
Qed.

(* a loop that does not hand SlashOracle the oracle address never penalises anybody: it panics
   (the state of bridgeCallSlashing before the C07 fix) *)
Theorem loop_panic_halts : forall s t1 t2 pd k,
  loop_panics (staking_end s t1) k = true -> end_block s t1 t2 pd = Panic.
Proof.
  intros s t1 t2 pd k H. unfold end_block, slashing.
  destruct k; rewrite H; rewrite ?orb_true_r; reflexivity.
Qed.

(* ------------------------------------------------------------------ *)
(* unbonding: what an accepted UnbondedOracle does, for every variant of the two re-read points *)

Theorem unbond_gen_spec : forall ne cap s a s', unbond_gen ne cap s a = Ok s' ->
  exists r, recs s a = Some r /\ ~ In a (proposal s) /\ o_online r = false /\
    has_ubd a (o_val r) (ubds s) = ne /\
    (cap = false -> 0 < slash_amount r (p_fraction (prm s)) -> slash_amount r (p_fraction (prm s)) <= bal_d s a) /\
    let ch := charged cap (slash_amount r (p_fraction (prm s))) (bal_d s a) in
    bal_o s' a = bal_o s a + (bal_d s a - ch) /\ bal_d s' a = 0 /\ burned s' = burned s + ch /\
    recs s' a = None /\ by_bridger s' (o_bridger r) = None /\ by_ext s' (o_ext r) = None /\
    ubds s' = ubds s /\
    (forall ne' cap' s'', unbond_gen ne' cap' s' a <> Ok s'').
Proof.
  intros ne cap s a s' H. unfold unbond_gen in H. guards H. inversion H; subst; clear H. rename o into r.
  exists r. split; auto. split; [intro X; apply memZ_In in X; congruence|]. split; auto.
  split; [match goal with G : Bool.eqb _ _ = true |- _ => apply Bool.eqb_prop in G; exact G end|].
  split.
  { intros -> P. match goal with G : (negb false && _ && _) = false |- _ =>
      apply Z.ltb_lt in P; rewrite P in G; cbn [negb andb] in G; apply Z.ltb_ge in G; exact G end. }
  cbv zeta. proj. rewrite !upd_same. repeat split; auto.
  intros ne' cap' s'' H2. unfold unbond_gen in H2; proj. rewrite upd_same in H2.
  destruct (memZ a (proposal s)); discriminate.
Qed.

Lemma has_ubd_false : forall a v l, (forall u, In u l -> u_orc u <> a) -> has_ubd a v l = false.
Proof.
  intros a v l H. unfold has_ubd. apply Bool.not_true_iff_false. intro X. apply existsb_exists in X.
  destruct X as (u & Hu & Hc). apply andb_true_iff in Hc. destruct Hc as [Hc _]. apply Z.eqb_eq in Hc.
  apply (H u Hu Hc).
Qed.

(* when is it accepted: removed, offline, the entry test passes, and (refusing variant) the balance covers the penalty *)
Theorem unbond_gen_accepts : forall ne cap s a r, recs s a = Some r -> ~ In a (proposal s) -> o_online r = false ->
  has_ubd a (o_val r) (ubds s) = ne ->
  (cap = false -> 0 < slash_amount r (p_fraction (prm s)) -> slash_amount r (p_fraction (prm s)) <= bal_d s a) ->
  exists s', unbond_gen ne cap s a = Ok s'.
Proof.
  intros ne cap s a r Hr Hp Off HU HS. unfold unbond_gen.
  destruct (memZ a (proposal s)) eqn:MP; [exfalso; apply Hp; apply memZ_In; auto|].
  rewrite Hr, Off, HU, Bool.eqb_reflx. cbn [negb].
  destruct (negb cap && (0 <? slash_amount r (p_fraction (prm s))) && (bal_d s a <? slash_amount r (p_fraction (prm s)))) eqn:G.
  - exfalso. apply andb_true_iff in G. destruct G as [G G2]. apply andb_true_iff in G. destruct G as [G0 G1].
    apply Bool.negb_true_iff in G0. apply Z.ltb_lt in G1, G2. specialize (HS G0 G1). lia.
  - eexists. reflexivity.
Qed.

(* ------------------------------------------------------------------ *)
(* concrete histories: witnesses of the refuted statements and non-vacuity examples.
   They are the scripted histories of harness/c13 (replayed on the real application on every run). *)

Definition FX (n : Z) : Z := n * 10 ^ 18.
(* three validators with 100 FX of their own, 1 share = 1 token *)
Definition w_vals : vset := mkV [0; 1; 2] (fun _ => FX 100) (fun _ => FX 100 * dec_one) (fun _ => 0) (fun _ => 0).
Definition w_init : state := init 2 10 1814400 w_vals (mkParams (FX 10000) 10 (8 * 10 ^ 17) 2).
Definition w_setup : list op :=
  map (fun a => Fund a (FX 300000)) [0; 1; 2; 3; 4; 5; 6] ++
  [GovSet [0; 1; 2; 3; 4; 5; 6] []] ++
  map (fun a => Bond a (100 + a) (200 + a) (a mod 3) (FX 10000)) [0; 1; 2; 3; 4; 5; 6] ++
  [EndBlock 5 10 false].
Definition confirm_all (n : Z) (except : Z) : list op :=
  map (fun a => Confirm KSet n (100 + a) (200 + a) true)
      (filter (fun a => negb (a =? except)) [0; 1; 2; 3; 4; 5; 6]).
(* A: removed by governance, unbonding period passes *)
Definition w_A : list op :=
  w_setup ++ confirm_all 1 (-1) ++ [GovSet [1; 2; 3; 4; 5; 6] [(0, 7)]; EndBlock 1814500 1814505 true].
(* B: removed by governance, withdraws before maturity *)
Definition w_B : list op := w_setup ++ confirm_all 1 (-1) ++ [GovSet [1; 2; 3; 4; 5; 6] [(0, 7)]].
(* C: removed, approved again, adds one base unit *)
Definition w_C : list op :=
  w_setup ++ confirm_all 1 (-1) ++
  [GovSet [1; 2; 3; 4; 5; 6] [(0, 7)]; GovSet [0; 1; 2; 3; 4; 5; 6] []; AddDelegate 0 1 0].
(* D: oracle 3 does not sign oracle set 1; three blocks later the window (2) has elapsed *)
Definition w_D : list op :=
  w_setup ++ confirm_all 1 3 ++ [EndBlock 10 15 false; EndBlock 15 20 false; EndBlock 20 25 false].

(* "after governance removes an oracle and the unbonding period has passed the oracle can withdraw its
   stake minus penalties": FALSE of the code — the withdrawal is refused, the stake sits at the keyless
   delegate address, the record stays *)
Definition is_ok (r : res) : bool := match r with Ok _ => true | _ => false end.
Lemma step_exec_ok : forall s o, is_ok (step s o) = true -> step s o = Ok (exec s o).
Proof. intros s o H. unfold exec. destruct (step s o); cbn in H; try discriminate; reflexivity. Qed.
Lemma step_with_exec_ok : forall ne cap s o, is_ok (step_with ne cap s o) = true -> step_with ne cap s o = Ok (exec_with ne cap s o).
Proof. intros ne cap s o H. unfold exec_with. destruct (step_with ne cap s o); cbn in H; try discriminate; reflexivity. Qed.

(* "the stake recorded for an oracle is exactly what ... is delegated on its behalf": FALSE of the code —
   an online oracle with 10000 FX + 1 recorded (power 100) and ONE base unit delegated *)
Theorem stake_backed_refuted : exists ops a r,
  let s := run w_init ops in
  recs s a = Some r /\ In a (proposal s) /\ o_online r = true /\
  o_amount r = FX 10000 + 1 /\ deleg s a (o_val r) = 1 * dec_one /\ power r = 100.
Proof.
  exists w_C, 0, (mkOracle 0 100 200 (FX 10000 + 1) 3 true 0 0). cbv zeta.
  split; [vm_compute; reflexivity|]. split; [vm_compute; auto|]. split; [reflexivity|].
  split; [reflexivity|]. split; vm_compute; reflexivity.
Qed.

(* non-vacuity: the invariants and the slashing rule speak about states with records, slashed and
   unslashed oracles, paid penalties *)
Example c13_nonvacuous :
  let s := run w_init w_D in
  recs s 3 = Some (mkOracle 3 103 203 (FX 10000) 2 false 0 1) /\          (* did not sign set 1: penalised *)
  recs s 2 = Some (mkOracle 2 102 202 (FX 10000) 2 true 2 0) /\           (* signed: untouched *)
  by_bridger s 103 = Some 3 /\ by_ext s 203 = Some 3 /\ slashed_set s = 1 /\ total_power s = 600 /\
  slash_amount (mkOracle 3 103 203 (FX 10000) 2 false 0 1) (p_fraction (prm s)) = FX 8000 /\
  (* paying the penalty: exactly 8000 FX burned, 2000 FX more delegated, online again, counter reset *)
  let s' := exec s (AddDelegate 3 (FX 10000) 0) in
  recs s' 3 = Some (mkOracle 3 103 203 (FX 12000) 6 true 0 0) /\ burned s' = FX 8000 /\
  deleg s' 3 0 = FX 12000 * dec_one /\ bal_o s' 3 = FX 280000 /\
  (* below the penalty it is refused *)
  step s (AddDelegate 3 (FX 8000 - 1) 0) = Err e_invalid /\
  (* bounds *)
  step w_init (Bond 0 100 200 0 (FX 10000)) = Err e_notfound /\
  step (run w_init w_setup) (AddDelegate 0 (FX 90000 + 1) 0) = Err e_above /\
  step (exec (exec w_init (Fund 9 (FX 300000))) (GovSet [9] [])) (Bond 9 100 200 0 (FX 10000 - 1)) = Err e_below.
Proof. vm_compute. repeat split; reflexivity. Qed.

(* ------------------------------------------------------------------ *)
(* THE TREE AS IT IS: the facts the translator reads about UnbondedOracle, pinned.  A tree on which the entry test
   is the other way round makes [tree_unbond_rule] (and everything stated "on tree" below) fail to compile. *)
Theorem tree_unbond_rule : Gen_OracleSlash.unbond_needs_entry = false.
Proof. reflexivity. Qed.

Lemma unbond_on_tree : forall s a, unbond s a = unbond_gen false Gen_OracleSlash.unbond_penalty_capped s a.
Proof. intros. unfold unbond. rewrite tree_unbond_rule. reflexivity. Qed.

(* "after governance removes an oracle and the unbonding period has passed the oracle can withdraw its stake minus
   penalties exactly once", on the checked tree: removed, offline, nothing of it left in the unbonding queue (and, while
   the tree still refuses instead of capping, the delegate balance covers the penalty) => accepted; the oracle receives
   delegate balance - charge, the charge is burned, the delegate address ends empty, record and both index entries are
   deleted, a second withdrawal fails *)
Theorem unbond_once_on_tree : forall s a r, recs s a = Some r -> ~ In a (proposal s) -> o_online r = false ->
  (forall u, In u (ubds s) -> u_orc u <> a) ->
  (Gen_OracleSlash.unbond_penalty_capped = false ->
     0 < slash_amount r (p_fraction (prm s)) -> slash_amount r (p_fraction (prm s)) <= bal_d s a) ->
  let ch := charged Gen_OracleSlash.unbond_penalty_capped (slash_amount r (p_fraction (prm s))) (bal_d s a) in
  exists s', step s (Unbond a) = Ok s' /\
    bal_o s' a = bal_o s a + (bal_d s a - ch) /\ bal_d s' a = 0 /\ burned s' = burned s + ch /\
    0 <= ch <= slash_amount r (p_fraction (prm s)) /\
    recs s' a = None /\ by_bridger s' (o_bridger r) = None /\ by_ext s' (o_ext r) = None /\
    (forall s'', step s' (Unbond a) <> Ok s'').
Proof.
  intros s a r Hr Hp Off HU HS. cbv zeta. cbn [step]. rewrite unbond_on_tree.
  destruct (unbond_gen_accepts false _ s a r Hr Hp Off (has_ubd_false a (o_val r) (ubds s) HU) HS) as (s' & U).
  exists s'. split; [exact U|].
  destruct (unbond_gen_spec _ _ _ _ _ U) as (r0 & Hr0 & _ & _ & _ & _ & B & D & Bu & RN & IB & IE & _ & Tw).
  assert (r0 = r) by congruence. subst r0. repeat split; auto;
    try (apply charged_bounds, slash_amount_nonneg).
  intros s'' X. cbn [step] in X. unfold unbond in X. apply (Tw _ _ _ X).
Qed.

(* while stake is still in the queue it is refused, so nothing can be forfeited *)
Theorem unbond_refused_while_pending_on_tree : forall s a r,
  recs s a = Some r -> has_ubd a (o_val r) (ubds s) = true -> forall s', step s (Unbond a) <> Ok s'.
Proof.
  intros s a r Hr HU s' U. cbn [step] in U. rewrite unbond_on_tree in U.
  destruct (unbond_gen_spec _ _ _ _ _ U) as (r0 & Hr0 & _ & _ & HU0 & _).
  assert (r0 = r) by congruence. subst r0. congruence.
Qed.

(* the capped variant of the penalty rule (the C13-3 patch), whatever the tree says: always accepted once the entry
   test passes; the oracle receives max(0, matured - penalty), exactly min(penalty, matured) is burned, the delegate
   address ends empty, the records are deleted *)
Theorem unbond_capped_pays : forall ne s a r, recs s a = Some r -> ~ In a (proposal s) -> o_online r = false ->
  has_ubd a (o_val r) (ubds s) = ne -> 0 <= bal_d s a ->
  exists s', unbond_gen ne true s a = Ok s' /\
    bal_o s' a = bal_o s a + Z.max 0 (bal_d s a - slash_amount r (p_fraction (prm s))) /\
    burned s' = burned s + Z.min (slash_amount r (p_fraction (prm s))) (bal_d s a) /\
    bal_d s' a = 0 /\ recs s' a = None /\ by_bridger s' (o_bridger r) = None /\ by_ext s' (o_ext r) = None /\
    (forall ne' cap' s'', unbond_gen ne' cap' s' a <> Ok s'').
Proof.
  intros ne s a r Hr Hp Off HU HB.
  destruct (unbond_gen_accepts ne true s a r Hr Hp Off HU ltac:(discriminate)) as (s' & U).
  exists s'. split; [exact U|].
  destruct (unbond_gen_spec _ _ _ _ _ U) as (r0 & Hr0 & _ & _ & _ & _ & B & D & Bu & RN & IB & IE & _ & Tw).
  assert (r0 = r) by congruence. subst r0. cbv zeta in *.
  pose proof (slash_amount_nonneg r (p_fraction (prm s))) as SN.
  rewrite charged_cap in * by auto. repeat split; auto. rewrite B. lia.
Qed.

(* the penalty rule of the checked tree, pinned (C13-3 is repaired: the penalty is capped at what matured).  A tree that
   refuses instead makes this and [unbond_pays_on_tree] fail to compile. *)
Theorem tree_penalty_capped : Gen_OracleSlash.unbond_penalty_capped = true.
Proof. reflexivity. Qed.

(* hence, on the checked tree, with no condition on the balance: the withdrawal is accepted, the oracle receives
   max(0, matured - penalty), exactly min(penalty, matured) is burned, the delegate address ends empty, the record and
   both index entries are deleted, a second withdrawal fails *)
Theorem unbond_pays_on_tree : forall s a r, recs s a = Some r -> ~ In a (proposal s) -> o_online r = false ->
  (forall u, In u (ubds s) -> u_orc u <> a) -> 0 <= bal_d s a ->
  exists s', step s (Unbond a) = Ok s' /\
    bal_o s' a = bal_o s a + Z.max 0 (bal_d s a - slash_amount r (p_fraction (prm s))) /\
    burned s' = burned s + Z.min (slash_amount r (p_fraction (prm s))) (bal_d s a) /\
    bal_d s' a = 0 /\ recs s' a = None /\ by_bridger s' (o_bridger r) = None /\ by_ext s' (o_ext r) = None /\
    (forall s'', step s' (Unbond a) <> Ok s'').
Proof.
  intros s a r Hr Hp Off HU HB. cbn [step]. unfold unbond. rewrite tree_unbond_rule, tree_penalty_capped.
  destruct (unbond_capped_pays false s a r Hr Hp Off (has_ubd_false a (o_val r) (ubds s) HU) HB)
    as (s' & U & A & B & C & D & E & F & Tw).
  exists s'. split; [exact U|]. split; [exact A|]. split; [exact B|]. split; [exact C|]. split; [exact D|].
  split; [exact E|]. split; [exact F|].
  intros s'' X. cbn [step] in X. unfold unbond in X. apply (Tw _ _ _ X).
Qed.

(* the refusing variant (the tree before the C13-3 patch), whatever the tree says: refused when the balance is smaller
   than the penalty computed from the recorded stake *)
Theorem unbond_refusing_variant_refuses : forall ne s a r, recs s a = Some r ->
  0 < slash_amount r (p_fraction (prm s)) -> bal_d s a < slash_amount r (p_fraction (prm s)) ->
  forall s', unbond_gen ne false s a <> Ok s'.
Proof.
  intros ne s a r Hr P L s' U. destruct (unbond_gen_spec _ _ _ _ _ U) as (r0 & Hr0 & _ & _ & _ & G & _).
  assert (r0 = r) by congruence. subst r0. specialize (G eq_refl P). lia.
Qed.

(* ------------------------------------------------------------------ *)
(* REFUTATION OF THE PRE-FIX ENTRY TEST (finding C13-1, fixed in /repo by f3a025e), stated about the explicit variant
   [unbond_gen true _] / [step_with true _]; the witnesses are evaluated, not assumed away *)
Theorem prefix_unbond_refused_without_pending_entry : forall cap s a,
  (forall u, In u (ubds s) -> u_orc u <> a) -> forall s', unbond_gen true cap s a <> Ok s'.
Proof.
  intros cap s a H s' U. destruct (unbond_gen_spec _ _ _ _ _ U) as (r & _ & _ & _ & HU & _).
  rewrite (has_ubd_false a (o_val r) (ubds s) H) in HU. discriminate.
Qed.

Theorem prefix_unbond_refused_after_maturity : forall cap s t1 t2 pd s1 a, end_block s t1 t2 pd = Ok s1 ->
  (forall u, In u (ubds s) -> u_orc u = a -> u_time u <= t1) ->
  (forall s2, unbond_gen true cap s1 a <> Ok s2) /\ bal_d s1 a = bal_d s a + matured_sum t1 (ubds s) a.
Proof.
  intros cap s t1 t2 pd s1 a H M. apply end_block_spec in H.
  destruct H as (_ & _ & _ & _ & _ & _ & _ & _ & _ & BD & UB & _).
  split; [|apply BD].
  apply prefix_unbond_refused_without_pending_entry. rewrite UB. intros u Hu Eq.
  apply filter_In in Hu. destruct Hu as [Hu Hc]. apply Bool.negb_true_iff in Hc. apply Z.leb_gt in Hc.
  specialize (M u Hu Eq). lia.
Qed.

Theorem prefix_unbond_accepted_forfeits_pending_stake : forall cap s a s', unbond_gen true cap s a = Ok s' ->
  exists u, In u (ubds s') /\ u_orc u = a /\ recs s' a = None.
Proof.
  intros cap s a s' H. destruct (unbond_gen_spec _ _ _ _ _ H) as (r & _ & _ & _ & HU & _ & _ & _ & _ & RN & _ & _ & UE & _).
  unfold has_ubd in HU. apply existsb_exists in HU. destruct HU as (u & Hu & Hc).
  apply andb_true_iff in Hc. destruct Hc as [Hc _]. apply Z.eqb_eq in Hc.
  exists u. rewrite UE. repeat split; auto.
Qed.

(* after governance removal and maturity the withdrawal is refused, the stake sits at the keyless delegate address *)
Theorem prefix_unbond_after_maturity_refuted : exists ops a r,
  let s := run_with true false w_init ops in
  recs s a = Some r /\ ~ In a (proposal s) /\ o_online r = false /\ o_slash r = 0 /\
  (forall u, In u (ubds s) -> u_orc u <> a) /\
  o_amount r = FX 10000 /\ bal_d s a = FX 10000 + 7 /\
  step_with true false s (Unbond a) = Err e_staking.
Proof.
  exists w_A, 0, (mkOracle 0 100 200 (FX 10000) 2 false 0 0). cbv zeta.
  split; [vm_compute; reflexivity|].
  split; [vm_compute; intuition discriminate|].
  split; [reflexivity|]. split; [reflexivity|].
  split; [assert (E : ubds (run_with true false w_init w_A) = []) by (vm_compute; reflexivity); rewrite E; intros u []|].
  split; [reflexivity|]. split; vm_compute; reflexivity.
Qed.

(* before maturity it is accepted, pays only what is liquid (7 units of reward), deletes the records; the stake
   matures into the delegate address of an oracle that no longer exists; a second withdrawal is refused *)
Theorem prefix_unbond_before_maturity_refuted : exists ops a,
  let s := run_with true false w_init ops in
  let s1 := exec_with true false s (Unbond a) in
  step_with true false s (Unbond a) = Ok s1 /\
    bal_o s1 a - bal_o s a = 7 /\ recs s1 a = None /\ burned s1 = 0 /\
    (exists u, In u (ubds s1) /\ u_orc u = a /\ u_amt u = FX 10000) /\
    let s2 := exec_with true false s1 (EndBlock 1814500 1814505 true) in
    bal_d s2 a = FX 10000 /\ recs s2 a = None /\ step_with true false s2 (Unbond a) = Err e_notfound.
Proof.
  exists w_B, 0. cbv zeta.
  split; [apply step_with_exec_ok; vm_compute; reflexivity|].
  split; [vm_compute; reflexivity|]. split; [vm_compute; reflexivity|]. split; [vm_compute; reflexivity|].
  split; [exists (mkUbd 0 0 1814410 (FX 10000) 3 (FX 10000)); vm_compute; auto|].
  split; [vm_compute; reflexivity|]. split; vm_compute; reflexivity.
Qed.

(* ------------------------------------------------------------------ *)
(* the life cycles, computed on the model of the checked tree (no hypothesis: [run] / [step] use the generated facts) *)
Definition w_E : list op :=
  w_D ++ confirm_all 2 3 ++ [GovSet [0; 1; 2; 4; 5; 6] [(3, 5)]; EndBlock 1814600 1814605 true].

Theorem unbond_life_cycle_on_tree :
  (let s := run w_init w_A in
   let s' := exec s (Unbond 0) in
   is_ok (step s (Unbond 0)) = true /\ bal_o s' 0 - bal_o s 0 = FX 10000 + 7 /\ bal_d s' 0 = 0 /\
   recs s' 0 = None /\ by_bridger s' 100 = None /\ by_ext s' 200 = None /\ burned s' = 0 /\
   step s' (Unbond 0) = Err e_notfound) /\
  (let s := run w_init w_E in
   let s' := exec s (Unbond 3) in
   recs s 3 = Some (mkOracle 3 103 203 (FX 10000) 2 false 0 1) /\
   is_ok (step s (Unbond 3)) = true /\ bal_o s' 3 - bal_o s 3 = FX 2000 + 5 /\ burned s' = FX 8000 /\
   recs s' 3 = None /\ step s' (Unbond 3) = Err e_notfound) /\
  step (run w_init w_B) (Unbond 0) = Err e_staking.
Proof. cbv zeta; split; [|split]; vm_compute; repeat split; reflexivity. Qed.

Definition w_F : list op :=
  w_setup ++ confirm_all 1 (-1) ++
  [SlashVal 0 (FX 1505); ReDelegate 3 2 3; GovSet [1; 2; 3; 4; 5; 6] [(0, 7)]; EndBlock 1814500 1814505 true].

Theorem validator_slash_life_cycle_on_tree :
  let s := run w_init w_F in
  let s' := exec s (Unbond 0) in
  vtok s 0 = FX 9595 /\ vshr s 0 = FX 10100 * dec_one /\
  recs s 3 = Some (mkOracle 3 103 203 (FX 10000) 2 true 2 0) /\ deleg s 3 2 = FX 9500 * dec_one /\ deleg s 3 0 = 0 /\
  recs s 0 = Some (mkOracle 0 100 200 (FX 10000) 2 false 0 0) /\ deleg s 0 0 = 0 /\ ubds s = [] /\
  bal_d s 0 = FX 9500 + 7 /\
  is_ok (step s (Unbond 0)) = true /\ bal_o s' 0 - bal_o s 0 = FX 9500 + 7 /\ recs s' 0 = None /\
  step s' (Unbond 0) = Err e_notfound.
Proof. cbv zeta; vm_compute; repeat split; reflexivity. Qed.

(* ------------------------------------------------------------------ *)
(* oracle-set requests and pruning (computed, no input bit)            *)

(* pruneOracleSet removes only oracle sets that are past the signed window and older than the set the external
   chain has adopted; it never touches the registry or the stake *)
Theorem prune_only_old_observed : forall s x, In x (sets s) -> ~ In x (sets (prune_sets s)) ->
  exists lo, last_obs s = Some lo /\ ob_height x < height s - p_window (prm s) /\ ob_nonce x < lo.
Proof.
  intros s x Hin Hout. unfold prune_sets in Hout. destruct (last_obs s) as [lo|]; [|contradiction].
  destruct (height s <? p_window (prm s)); [contradiction|].
  unfold set_objs in Hout; proj. exists lo. split; auto.
  destruct ((ob_height x <? height s - p_window (prm s)) && (ob_nonce x <? lo)) eqn:E.
  - apply andb_true_iff in E. destruct E as [E1 E2]. apply Z.ltb_lt in E1, E2. auto.
  - exfalso. apply Hout. apply filter_In. split; auto. rewrite E. reflexivity.
Qed.

(* non-vacuity of the computed request rule and of pruning: the first block stores set 1; removing oracle 0
   (power 100 of 700: difference 2/7 >= 10 %) makes the end blocker request set 2 although nobody was slashed;
   an unchanged block requests nothing; once the external chain has adopted set 2, set 1 is pruned when it is
   past the window *)
Example oset_request_nonvacuous :
  let s1 := run w_init (w_setup ++ confirm_all 1 (-1)) in
  map ob_nonce (sets s1) = [1] /\ set_mem s1 1 <> [] /\
  map ob_nonce (sets (exec s1 (EndBlock 10 15 false))) = [1] /\
  let s2 := run s1 [GovSet [1; 2; 3; 4; 5; 6] []; EndBlock 10 15 false] in
  map ob_nonce (sets s2) = [1; 2] /\ length (set_mem s2 2) = 6%nat /\
  let s3 := run s2 (confirm_all 2 0 ++ [ObserveSet 2; EndBlock 15 20 false; EndBlock 20 25 false; EndBlock 25 30 false]) in
  map ob_nonce (sets s3) = [2] /\ last_obs s3 = Some 2 /\ recs s3 1 = recs s2 1.
Proof. vm_compute. repeat split; try reflexivity; discriminate. Qed.
