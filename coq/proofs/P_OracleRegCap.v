(* P_OracleRegCap.v — the 30 % power cap of UpdateProposalOracles (property C13, deepening):
   what an accepted governance list update can take away from the online oracle power, and what is
   left afterwards, for every state satisfying the registry invariants. *)
From Coq Require Import ZArith List Bool Lia.
From FxV Require Import model.M_OracleReg proofs.P_OracleReg proofs.P_OracleReg2 proofs.P_OracleRegStake proofs.P_OracleReg3.
Import ListNotations.
Open Scope Z_scope.

(* the oracles an update to list [l] drops: recorded, on the old list, not on the new one *)
Definition dropped (s : state) (l : list Z) (a : Z) : bool := negb (memZ a l) && memZ a (proposal s).

(* deleteTotalPower of UpdateProposalOracles: power of the ONLINE oracles among them *)
Definition removed_power (s : state) (l : list Z) : Z :=
  sumZ (map power (filter o_online (filter (fun r => dropped s l (o_addr r)) (all_recs s)))).

(* the guard, read off the transition *)
Lemma gov_set_guard : forall s l rws s', gov_set s l rws = Ok s' ->
  ((0 <? removed_power s l) && (Z.quot (change_power_pct * compute_power s) 100 <=? removed_power s l)) = false.
Proof.
  intros s l rws s' H. unfold gov_set in H.
  destruct (match l with [] => true | _ => false end); [discriminate|].
  destruct (negb (nodupb l)); [discriminate|].
  destruct (max_oracle_size <? Z.of_nat (length l)); [discriminate|].
  match type of H with (if ?c then _ else _) = _ => destruct c eqn:G; [discriminate|] end.
  exact G.
Qed.

(* and conversely the update is refused when the cap is reached *)
Theorem gov_set_refused_over_cap : forall s l rws,
  0 < removed_power s l -> Z.quot (change_power_pct * compute_power s) 100 <= removed_power s l ->
  forall s', gov_set s l rws <> Ok s'.
Proof.
  intros s l rws P C s' H. apply gov_set_guard in H.
  apply Z.ltb_lt in P. apply Z.leb_le in C. rewrite P, C in H. discriminate.
Qed.

(* ---------------- the records after an accepted update, exactly ---------------- *)

Lemma set_offline_idem : forall r, o_online r = false -> set_offline r = r.
Proof. intros r H. destruct r; cbn in *. subst. reflexivity. Qed.

Lemma gov_fold_offline : forall rws l st st',
  fold_left (gov_unbond1 rws) l (Some st) = Some st' -> core_inv st -> (forall q, In q l -> cmatch (recs st) q) ->
  (forall a r, recs st a = Some r -> o_online r = false -> exists r', recs st' a = Some r' /\ o_online r' = false) /\
  (forall q, In q l -> exists r', recs st' (o_addr q) = Some r' /\ o_online r' = false).
Proof.
  intros rws l. induction l as [|q t IH]; intros st st' H C M; cbn [fold_left] in H.
  - inversion H; subst. split; [eauto | intros ? []].
  - destruct (gov_unbond1 rws (Some st) q) as [st1|] eqn:E; [|rewrite gov_unbond1_none in H; discriminate].
    destruct (gov_unbond1_core _ _ _ _ E C (M q (or_introl eq_refl))) as (C1 & L1 & _ & _ & X1 & _).
    assert (M1 : forall q', In q' t -> cmatch (recs st1) q').
    { intros q' Hq'. eapply cmatch_rel; [exact L1 | apply M; right; auto]. }
    destruct (IH _ _ H C1 M1) as (K1 & K2).
    assert (S1 : forall a r, recs st a = Some r -> o_online r = false ->
                 exists r1, recs st1 a = Some r1 /\ o_online r1 = false).
    { intros a r Hr Off. destruct (X1 a) as [Eq|[_ Eq]]; [rewrite Eq; eauto | rewrite Eq; eexists; split; [reflexivity|reflexivity]]. }
    split.
    + intros a r Hr Off. destruct (S1 _ _ Hr Off) as (r1 & Hr1 & Off1). eauto.
    + intros q' [<-|Hq']; [|auto].
      destruct (X1 (o_addr q)) as [Eq|[_ Eq]].
      * (* cannot be unchanged unless it was already offline: the step wrote set_offline q there *)
        inv_gov1 E. proj. rewrite upd_same in Eq.
        apply (K1 (o_addr q) (set_offline q)); [proj; apply upd_same | reflexivity].
      * apply (K1 (o_addr q) (set_offline q)); [exact Eq | reflexivity].
Qed.

Lemma gov_set_records : forall s l rws s', idx_inv s -> core_inv s -> gov_set s l rws = Ok s' ->
  forall a, recs s' a = match recs s a with
                        | Some r => if dropped s l a then Some (set_offline r) else Some r
                        | None => None
                        end.
Proof.
  intros s l rws s' I C H a.
  destruct (gov_set_spec _ _ _ _ I C H) as (_ & _ & _ & L2 & C2 & E2 & _).
  destruct (gov_set_inv _ _ _ _ H) as (_ & _ & F).
  set (gone := filter (fun r => negb (memZ (o_addr r) l) && memZ (o_addr r) (proposal s)) (all_recs s)) in *.
  match type of F with fold_left _ _ (Some ?s1) = _ => set (st1 := s1) in * end.
  pose proof C as (K & SL).
  assert (C1 : core_inv st1) by (split; unfold keys_inv, slash_inv; subst st1; proj; auto).
  assert (ADDR : forall a r, recs s a = Some r -> o_addr r = a) by (intros a0 r Hr; destruct I as (I1 & _); apply (I1 _ _ Hr)).
  assert (M1 : forall q, In q gone -> cmatch (recs st1) q).
  { intros q Hq. apply filter_In in Hq. destruct Hq as [Hq _]. apply all_recs_In in Hq.
    destruct Hq as (a0 & Ha & Hr). unfold cmatch. subst st1; proj. rewrite (ADDR _ _ Hr), Hr. apply gov_rel_refl. }
  destruct (gov_fold_offline _ _ _ _ F C1 M1) as (_ & OFF).
  pose proof (L2 a) as La.
  destruct (recs s a) as [r|] eqn:Hr; destruct (recs s' a) as [r'|] eqn:Hr'; try tauto.
  unfold dropped. destruct (negb (memZ a l) && memZ a (proposal s)) eqn:D.
  - assert (G : In r gone).
    { apply filter_In. split; [eapply In_all_recs; eauto|]. rewrite (ADDR _ _ Hr). exact D. }
    destruct (OFF _ G) as (r2 & Hr2 & Off2). rewrite (ADDR _ _ Hr), Hr' in Hr2. inversion Hr2; subst r2.
    destruct (E2 _ _ _ Hr Hr') as [->| ->]; [|reflexivity]. rewrite set_offline_idem; auto.
  - destruct (gov_fold_core _ _ _ _ F C1 M1) as (_ & _ & _ & _ & U & _).
    rewrite <- Hr'. subst st1; proj. rewrite (U a); [exact Hr|].
    intros q Hq Eq. apply filter_In in Hq. destruct Hq as [_ Hq]. rewrite Eq in Hq. congruence.
Qed.

(* ---------------- online power before and after ---------------- *)

(* contribution of address a to the online power *)
Definition contrib (f : Z -> option oracle) (a : Z) : Z :=
  match f a with Some r => if o_online r then power r else 0 | None => 0 end.

Lemma sumZ_app : forall l1 l2, sumZ (l1 ++ l2) = sumZ l1 + sumZ l2.
Proof. intros. unfold sumZ. induction l1; cbn; [reflexivity | rewrite IHl1; lia]. Qed.
Lemma sumZ_cons : forall x l, sumZ (x :: l) = x + sumZ l.
Proof. reflexivity. Qed.

Lemma power_sum_keys : forall f ks,
  sumZ (map power (filter o_online (flat_map (fun a => match f a with Some r => [r] | None => [] end) ks)))
  = sumZ (map (contrib f) ks).
Proof.
  intros f ks. induction ks as [|a t IH]; cbn [flat_map map]; auto.
  rewrite filter_app, map_app, sumZ_app, sumZ_cons, IH. f_equal.
  unfold contrib. destruct (f a) as [r|]; cbn [filter map]; [|reflexivity].
  destruct (o_online r); cbn [map]; unfold sumZ; cbn; lia.
Qed.

Lemma removed_power_keys : forall s l, idx_inv s ->
  removed_power s l = sumZ (map (fun a => if dropped s l a then contrib (recs s) a else 0) (keys s)).
Proof.
  intros s l (I1 & _). unfold removed_power, all_recs. induction (keys s) as [|a t IH]; cbn [flat_map map]; auto.
  rewrite !filter_app, map_app, sumZ_app, sumZ_cons, IH. f_equal.
  unfold contrib. destruct (recs s a) as [r|] eqn:Hr; cbn [filter map].
  - destruct (I1 _ _ Hr) as (A & _). rewrite A.
    destruct (dropped s l a); cbn [filter map]; [|reflexivity].
    destruct (o_online r); cbn [map]; unfold sumZ; cbn; lia.
  - destruct (dropped s l a); reflexivity.
Qed.

(* What the code guarantees, for every reachable state and every accepted list update:
   - the online power it takes away is zero or strictly less than 30 % of the online power before
     (truncated: del < floor(30 * total / 100), hence 100 * del < 30 * total);
   - the online power afterwards is exactly the power before minus what was taken away, so more than 70 %
     of it stays online.  (LastTotalPower, the stored figure attestations are measured against, is NOT
     refreshed by the update: it keeps the old total until the next oracle-set request.) *)
Theorem gov_power_cap : forall s l rws s', reg_inv s -> gov_set s l rws = Ok s' ->
  let total := compute_power s in
  let del := removed_power s l in
  (del <= 0 \/ (del < Z.quot (change_power_pct * total) 100 /\ 100 * del < 30 * total)) /\
  compute_power s' = total - del /\
  (0 < del -> 70 * total < 100 * compute_power s') /\
  total_power s' = total_power s.
Proof.
  intros s l rws s' (I & K & SL) H. cbv zeta.
  pose proof (gov_set_guard _ _ _ _ H) as G.
  pose proof (gov_set_records _ _ _ _ I (conj K SL) H) as R.
  destruct (gov_set_spec _ _ _ _ I (conj K SL) H) as (_ & _ & HK & _).
  assert (CAP : removed_power s l <= 0 \/
                (removed_power s l < Z.quot (change_power_pct * compute_power s) 100 /\
                 100 * removed_power s l < 30 * compute_power s)).
  { destruct (0 <? removed_power s l) eqn:P; [|apply Z.ltb_ge in P; left; exact P].
    apply Z.ltb_lt in P. cbn [andb] in G. apply Z.leb_gt in G. right. split; [exact G|].
    unfold change_power_pct in *.
    assert (Q : 0 < Z.quot (30 * compute_power s) 100) by lia.
    assert (NN : 0 <= 30 * compute_power s).
    { destruct (Z_le_gt_dec 0 (30 * compute_power s)); auto. exfalso.
      pose proof (Z.quot_opp_l (30 * compute_power s) 100 ltac:(lia)) as Q2.
      assert (0 <= Z.quot (- (30 * compute_power s)) 100) by (apply Z.quot_pos; lia). lia. }
    rewrite Z.quot_div_nonneg in * by lia.
    pose proof (Z.mul_div_le (30 * compute_power s) 100 ltac:(lia)). lia. }
  assert (PW : compute_power s' = compute_power s - removed_power s l).
  { rewrite (removed_power_keys s l I). unfold compute_power, online_recs, all_recs.
    rewrite !power_sum_keys, HK. clear HK.
    induction (keys s) as [|a t IH]; cbn [map]; [reflexivity|].
    rewrite !sumZ_cons, IH.
    assert (E : contrib (recs s') a = contrib (recs s) a - (if dropped s l a then contrib (recs s) a else 0)).
    { unfold contrib. rewrite (R a). destruct (recs s a) as [r|].
      - destruct (dropped s l a); [cbn; destruct (o_online r); lia | destruct (o_online r); lia].
      - destruct (dropped s l a); lia. }
    rewrite E. lia. }
  split; [exact CAP|]. split; [exact PW|]. split.
  - intros P. rewrite PW. destruct CAP as [C|(_ & C)]; lia.
  - destruct (gov_set_inv _ _ _ _ H) as (_ & _ & F).
    match type of F with fold_left _ ?g (Some ?s1) = _ => assert (T : total_power s' = total_power s1) end.
    { clear - F. revert F. generalize (filter (fun r => negb (memZ (o_addr r) l) && memZ (o_addr r) (proposal s)) (all_recs s)).
      match goal with |- forall l0, fold_left _ l0 (Some ?s1) = _ -> _ => generalize s1 end.
      intros st g. revert st. induction g as [|q t IH]; intros st F; cbn [fold_left] in F.
      - inversion F; reflexivity.
      - destruct (gov_unbond1 rws (Some st) q) as [st1|] eqn:E; [|rewrite gov_unbond1_none in F; discriminate].
        rewrite (IH _ F). inv_gov1 E. reflexivity. }
    rewrite T. reflexivity.
Qed.

(* non-vacuity: 7 oracles of power 100 (cap floor(30*700/100) = 210): dropping two (200) is accepted and leaves
   500 online, dropping three (300) is refused; 10 oracles of power 100 (cap 300): dropping three hits the cap
   exactly and is refused, dropping two is accepted *)
Definition w_ten : list op :=
  map (fun a => Fund a (FX 300000)) [0; 1; 2; 3; 4; 5; 6; 7; 8; 9] ++
  [GovSet [0; 1; 2; 3; 4; 5; 6; 7; 8; 9] []] ++
  map (fun a => Bond a (100 + a) (200 + a) (a mod 3) (FX 10000)) [0; 1; 2; 3; 4; 5; 6; 7; 8; 9].

Example power_cap_nonvacuous :
  (let s := run w_init w_setup in
   compute_power s = 700 /\ removed_power s [2; 3; 4; 5; 6] = 200 /\
   is_ok (step s (GovSet [2; 3; 4; 5; 6] [])) = true /\ compute_power (exec s (GovSet [2; 3; 4; 5; 6] [])) = 500 /\
   total_power (exec s (GovSet [2; 3; 4; 5; 6] [])) = 700 /\
   removed_power s [3; 4; 5; 6] = 300 /\ step s (GovSet [3; 4; 5; 6] []) = Err e_invalid) /\
  (let s := run w_init w_ten in
   compute_power s = 1000 /\ removed_power s [3; 4; 5; 6; 7; 8; 9] = 300 /\
   step s (GovSet [3; 4; 5; 6; 7; 8; 9] []) = Err e_invalid /\
   is_ok (step s (GovSet [2; 3; 4; 5; 6; 7; 8; 9] [])) = true).
Proof. vm_compute. repeat split; reflexivity. Qed.
