(* P_OracleRegStake.v — stake accounting of model.M_OracleReg (property C13).
   The exact equation "recorded stake = delegated on the oracle's behalf + what governance removal
   undelegated" holds along every operation list in which the staking module does not slash a validator
   (then 1 share = 1 token); after a validator slash the recorded stake stays while the delegation loses
   value, and what the model proves instead is that the crosschain helper GetOracleDelegateToken always asks
   staking for an amount it will accept (the delegation can still be moved and undelegated). *)
From Coq Require Import ZArith List Bool Lia.
From FxV Require Import model.M_OracleReg proofs.P_OracleReg proofs.P_OracleReg2.
Import ListNotations.
Open Scope Z_scope.

Lemma D_pos : 0 < dec_one.
Proof. reflexivity. Qed.
Lemma D_nz : dec_one <> 0.
Proof. pose proof D_pos. lia. Qed.

(* ------------------------------------------------------------------ *)
(* share arithmetic at rate 1                                          *)

Lemma sft_rate1 : forall tok amt, tok <> 0 -> shares_from_tokens tok (tok * dec_one) amt = amt * dec_one.
Proof.
  intros tok amt H. unfold shares_from_tokens.
  replace (tok * dec_one * amt) with (amt * dec_one * tok) by ring. apply Z.div_mul; auto.
Qed.

Lemma tfst_rate1 : forall tok k, tok <> 0 -> tokens_from_shares_trunc tok (tok * dec_one) (k * dec_one) = k.
Proof.
  intros tok k H. unfold tokens_from_shares_trunc.
  replace (k * dec_one * tok * dec_one * dec_one) with (k * dec_one * dec_one * (tok * dec_one)) by ring.
  rewrite Z.div_mul by (pose proof D_nz; nia).
  rewrite !Z.div_mul by apply D_nz. reflexivity.
Qed.

Lemma sftt_rate1 : forall tok k, tok <> 0 -> shares_from_tokens_trunc tok (tok * dec_one) k = k * dec_one.
Proof.
  intros tok k H. unfold shares_from_tokens_trunc.
  replace (tok * dec_one * k * dec_one * dec_one) with (k * dec_one * dec_one * (tok * dec_one)) by ring.
  rewrite Z.div_mul by (pose proof D_nz; nia).
  rewrite Z.div_mul by apply D_nz. reflexivity.
Qed.

Lemma round_he_exact : forall x, round_he (x * dec_one) = x.
Proof.
  intros x. unfold round_he. rewrite Z.mod_mul by apply D_nz. rewrite Z.div_mul by apply D_nz. reflexivity.
Qed.

Lemma tfs_rate1 : forall tok k, tok <> 0 -> tokens_from_shares tok (tok * dec_one) (k * dec_one) = k.
Proof.
  intros tok k H. unfold tokens_from_shares.
  replace (k * dec_one * tok * dec_one * dec_one) with (k * dec_one * dec_one * (tok * dec_one)) by ring.
  rewrite Z.div_mul by (pose proof D_nz; nia).
  rewrite round_he_exact. apply Z.div_mul, D_nz.
Qed.

Definition rate1V (V : vset) : Prop := forall v, v_shr V v = v_tok V v * dec_one.
Definition rate1 (s : state) : Prop := rate1V (vals s).

Lemma rate1V_set : forall V v tok, rate1V V -> rate1V (set_val V v tok (tok * dec_one)).
Proof.
  intros V v tok R x. unfold set_val; cbn.
  destruct (upd_cases _ (v_tok V) v tok x) as [[-> E1]|[Hn E1]]; rewrite E1.
  - rewrite upd_same. reflexivity.
  - rewrite upd_other by auto. apply R.
Qed.

Lemma stk_delegate_rate1 : forall V dl a v amt V' dl', rate1V V ->
  stk_delegate V dl a v amt = Some (V', dl') ->
  rate1V V' /\ dl' = upd2 dl a v (dl a v + amt * dec_one).
Proof.
  intros V dl a v amt V' dl' R H. unfold stk_delegate in H.
  destruct (negb (memZ v (v_ids V))); [discriminate|].
  destruct ((v_tok V v =? 0) && (0 <? v_shr V v)); [discriminate|].
  pose proof (R v) as Rv.
  destruct (v_shr V v =? 0) eqn:Z0; inversion H; subst; clear H.
  - apply Z.eqb_eq in Z0. split; auto.
    replace (v_shr V v + amt * dec_one) with ((v_tok V v + amt) * dec_one) by (rewrite Z0 in *; lia).
    apply rate1V_set; auto.
  - apply Z.eqb_neq in Z0. assert (T : v_tok V v <> 0) by (intro X; rewrite X in Rv; lia).
    rewrite Rv, sft_rate1 by auto. split; auto.
    replace (v_tok V v * dec_one + amt * dec_one) with ((v_tok V v + amt) * dec_one) by ring.
    apply rate1V_set; auto.
Qed.

Lemma delegate_token_rate1 : forall V dl a v k tok, rate1V V -> dl a v = k * dec_one ->
  delegate_token V dl a v = Some tok -> tok = k.
Proof.
  intros V dl a v k tok R Hd H. unfold delegate_token in H.
  destruct (dl a v =? 0); [discriminate|].
  destruct (negb (memZ v (v_ids V))); [discriminate|].
  destruct (v_tok V v =? 0) eqn:T; [discriminate|]. apply Z.eqb_neq in T.
  rewrite (R v), Hd, tfst_rate1, sftt_rate1, Z.ltb_irrefl in H by auto. congruence.
Qed.

Lemma stk_unbond_rate1 : forall V dl a v k V' dl' back, rate1V V -> dl a v = k * dec_one ->
  stk_unbond V dl a v k = Some (V', dl', back) ->
  rate1V V' /\ back = k /\ dl' = upd2 dl a v 0.
Proof.
  intros V dl a v k V' dl' back R Hd H. unfold stk_unbond in H.
  destruct (k <=? 0); [discriminate|].
  destruct (negb (memZ v (v_ids V))); [discriminate|].
  destruct (dl a v =? 0); [discriminate|].
  destruct (v_tok V v =? 0) eqn:T; [discriminate|]. apply Z.eqb_neq in T.
  rewrite (R v), Hd, sft_rate1, sftt_rate1, Z.ltb_irrefl in H by auto.
  replace (k * dec_one - k * dec_one) with 0 in H by ring.
  destruct (v_tok V v * dec_one - k * dec_one =? 0) eqn:Rm; inversion H; subst; clear H.
  - apply Z.eqb_eq in Rm. assert (E : v_tok V v = k) by (pose proof D_pos; nia).
    split; [|split; auto].
    replace (v_tok V v * dec_one - k * dec_one) with ((v_tok V v - v_tok V v) * dec_one) by (rewrite E; ring).
    apply rate1V_set; auto.
  - rewrite tfs_rate1 by auto. split; [|split; auto].
    replace (v_tok V v * dec_one - k * dec_one) with ((v_tok V v - k) * dec_one) by ring.
    apply rate1V_set; auto.
Qed.

(* ------------------------------------------------------------------ *)
(* the stake equation                                                  *)

(* [deleg] holds shares (scaled 10^18); [gov_und] is a history variable: the tokens governance removal
   undelegated since the record was created *)
Definition stake_inv (s : state) : Prop :=
  (forall a r, recs s a = Some r -> deleg s a (o_val r) = (o_amount r - gov_und s a) * dec_one) /\
  (forall a r v, recs s a = Some r -> v <> o_val r -> deleg s a v = 0) /\
  (forall a v, recs s a = None -> deleg s a v = 0) /\
  (forall a r, recs s a = Some r -> ~ In a (proposal s) -> deleg s a (o_val r) = 0).

Definition sinv (s : state) : Prop := rate1 s /\ stake_inv s.

Lemma bond_stake : forall s a b e v amt s', sinv s -> bond s a b e v amt = Ok s' -> sinv s'.
Proof.
  intros s a b e v amt s' (R & S1 & S2 & S3 & S4) H. unfold bond in H. guards H.
  inversion H; subst; clear H.
  match goal with G : stk_delegate _ _ _ _ _ = Some _ |- _ => destruct (stk_delegate_rate1 _ _ _ _ _ _ _ R G) as (R' & ->) end.
  assert (D0 : forall w, deleg s a w = 0) by (intro; apply S3; auto).
  split; [exact R'|]. unfold stake_inv. unfold_power.
  set (r' := mkOracle a b e amt (height s) true v 0) in *.
  repeat split.
  - intros a0 r H. destruct (upd_cases _ (recs s) a (Some r') a0) as [[-> E]|[Hn E]]; rewrite E in H.
    + inversion H; subst r; subst r'; proj. rewrite upd2_same, upd_same, D0. ring.
    + rewrite upd2_other_a, upd_other; auto.
  - intros a0 r vx H Hv. destruct (upd_cases _ (recs s) a (Some r') a0) as [[-> E]|[Hn E]]; rewrite E in H.
    + inversion H; subst r; subst r'; proj. rewrite upd2_other_b; auto.
    + rewrite upd2_other_a; eauto.
  - intros a0 vx H. destruct (upd_cases _ (recs s) a (Some r') a0) as [[-> E]|[Hn E]]; rewrite E in H.
    + discriminate.
    + rewrite upd2_other_a; eauto.
  - intros a0 r H Hp. destruct (upd_cases _ (recs s) a (Some r') a0) as [[-> E]|[Hn E]]; rewrite E in H.
    + exfalso. apply Hp. apply memZ_In. auto.
    + rewrite upd2_other_a; eauto.
Qed.

Lemma add_delegate_stake : forall s a amt rw s', sinv s -> add_delegate s a amt rw = Ok s' -> sinv s'.
Proof.
  intros s a amt rw s' (R & S1 & S2 & S3 & S4) H. unfold add_delegate in H. guards H.
  inversion H; subst; clear H. rename o into r.
  pose proof (slash_amount_nonneg r (p_fraction (prm s))) as SN.
  set (sl := slash_amount r (p_fraction (prm s))) in *.
  assert (DC : 0 <= amt - sl).
  { match goal with G : ((0 <? sl) && (amt <? sl)) = false |- _ =>
      destruct (0 <? sl) eqn:P; cbn [andb] in G; [apply Z.ltb_ge in G; lia | apply Z.ltb_ge in P] end.
    match goal with G : (amt <=? 0) = false |- _ => apply Z.leb_gt in G; lia end. }
  assert (Hr : recs s a = Some r) by assumption.
  match goal with G : (if 0 <? amt - sl then _ else _) = Some (?V, ?dl) |- _ =>
    assert (VD : rate1V V /\ dl = (if 0 <? amt - sl then upd2 (deleg s) a (o_val r) (deleg s a (o_val r) + (amt - sl) * dec_one) else deleg s));
    [ destruct (0 <? amt - sl) eqn:P;
      [ apply (stk_delegate_rate1 _ _ _ _ _ _ _ R G) | inversion G; subst; split; auto ] | ] end.
  destruct VD as (R' & ->).
  split; [exact R'|]. unfold stake_inv. unfold_power.
  set (r' := mkOracle (o_addr r) (o_bridger r) (o_ext r) (o_amount r + (amt - sl))
                      (if o_online r then o_start r else height s) true (o_val r) 0) in *.
  repeat split.
  - intros a0 r0 H. destruct (upd_cases _ (recs s) a (Some r') a0) as [[-> E]|[Hn E]]; rewrite E in H.
    + inversion H; subst r0; subst r'; proj. specialize (S1 _ _ Hr).
      destruct (0 <? amt - sl) eqn:P.
      * rewrite upd2_same, S1. ring.
      * apply Z.ltb_ge in P. rewrite S1. replace (amt - sl) with 0 by lia. ring.
    + destruct (0 <? amt - sl); [rewrite upd2_other_a|]; eauto.
  - intros a0 r0 vx H Hv. destruct (upd_cases _ (recs s) a (Some r') a0) as [[-> E]|[Hn E]]; rewrite E in H.
    + inversion H; subst r0; subst r'; proj. destruct (0 <? amt - sl); [rewrite upd2_other_b|]; eauto.
    + destruct (0 <? amt - sl); [rewrite upd2_other_a|]; eauto.
  - intros a0 vx H. destruct (upd_cases _ (recs s) a (Some r') a0) as [[-> E]|[Hn E]]; rewrite E in H; [discriminate|].
    destruct (0 <? amt - sl); [rewrite upd2_other_a|]; eauto.
  - intros a0 r0 H Hp. destruct (upd_cases _ (recs s) a (Some r') a0) as [[-> E]|[Hn E]]; rewrite E in H.
    + exfalso. apply Hp. apply memZ_In. auto.
    + destruct (0 <? amt - sl); [rewrite upd2_other_a|]; eauto.
Qed.

Lemma re_delegate_stake : forall s a v rw s', sinv s -> re_delegate s a v rw = Ok s' -> sinv s'.
Proof.
  intros s a v rw s' (R & S1 & S2 & S3 & S4) H. unfold re_delegate in H. guards H.
  inversion H; subst; clear H. rename o into r.
  assert (Hr : recs s a = Some r) by assumption.
  assert (Hv : v <> o_val r) by (intro X; subst; match goal with G : (o_val r =? o_val r) = false |- _ => rewrite Z.eqb_refl in G; discriminate end).
  pose proof (S1 _ _ Hr) as E1.
  match goal with G : delegate_token _ _ _ _ = Some ?t |- _ =>
    pose proof (delegate_token_rate1 _ _ _ _ _ _ R E1 G) as Et; subst t end.
  match goal with G : stk_unbond _ _ _ _ _ = Some _ |- _ =>
    destruct (stk_unbond_rate1 _ _ _ _ _ _ _ _ R E1 G) as (R1 & -> & ->); pose proof G as GU end.
  match goal with G : stk_delegate _ _ _ _ _ = Some _ |- _ =>
    destruct (stk_delegate_rate1 _ _ _ _ _ _ _ R1 G) as (R2 & ->) end.
  split; [exact R2|]. unfold stake_inv; proj.
  set (k := o_amount r - gov_und s a) in *.
  set (r' := mkOracle (o_addr r) (o_bridger r) (o_ext r) (o_amount r) (o_start r) (o_online r) v (o_slash r)) in *.
  assert (D0 : deleg s a v = 0) by (apply (S2 _ _ v Hr Hv)).
  repeat split.
  - intros a0 r0 H. destruct (upd_cases _ (recs s) a (Some r') a0) as [[-> E]|[Hn E]]; rewrite E in H.
    + inversion H; subst r0; subst r'; proj. rewrite upd2_same, upd2_other_b, D0 by auto. subst k. ring.
    + rewrite !upd2_other_a; eauto.
  - intros a0 r0 vx H Hv0. destruct (upd_cases _ (recs s) a (Some r') a0) as [[-> E]|[Hn E]]; rewrite E in H.
    + inversion H; subst r0; subst r'; proj. rewrite upd2_other_b by auto.
      destruct (Z.eq_dec vx (o_val r)) as [->|N]; [apply upd2_same | rewrite upd2_other_b; eauto].
    + rewrite !upd2_other_a; eauto.
  - intros a0 vx H. destruct (upd_cases _ (recs s) a (Some r') a0) as [[-> E]|[Hn E]]; rewrite E in H; [discriminate|].
    rewrite !upd2_other_a; eauto.
  - intros a0 r0 H Hp. destruct (upd_cases _ (recs s) a (Some r') a0) as [[-> E]|[Hn E]]; rewrite E in H.
    + exfalso. pose proof (S4 _ _ Hr Hp) as Z0. rewrite E1 in Z0.
      assert (k = 0) by (pose proof D_pos; nia).
      unfold stk_unbond in GU. replace (k <=? 0) with true in GU by (symmetry; apply Z.leb_le; lia). discriminate.
    + rewrite !upd2_other_a; eauto.
Qed.

(* operations that rewrite one record keeping amount / validator, and nothing of staking *)
Lemma sinv_same_fields : forall s s' a r r',
  sinv s -> recs s a = Some r -> recs s' = upd (recs s) a (Some r') ->
  o_amount r' = o_amount r -> o_val r' = o_val r ->
  vals s' = vals s -> deleg s' = deleg s -> gov_und s' = gov_und s -> proposal s' = proposal s ->
  sinv s'.
Proof.
  intros s s' a r r' (R & S1 & S2 & S3 & S4) Hr HR A V HV HD HG HP.
  split; [unfold rate1; rewrite HV; exact R|].
  unfold stake_inv. rewrite HR, HD, HG, HP. repeat split.
  - intros a0 r0 H. destruct (upd_cases _ (recs s) a (Some r') a0) as [[-> E]|[Hn E]]; rewrite E in H; eauto.
    inversion H; subst r0. rewrite A, V. eauto.
  - intros a0 r0 vx H Hv. destruct (upd_cases _ (recs s) a (Some r') a0) as [[-> E]|[Hn E]]; rewrite E in H; eauto.
    inversion H; subst r0. rewrite V in Hv. eauto.
  - intros a0 vx H. destruct (upd_cases _ (recs s) a (Some r') a0) as [[-> E]|[Hn E]]; rewrite E in H; [discriminate|eauto].
  - intros a0 r0 H Hp. destruct (upd_cases _ (recs s) a (Some r') a0) as [[-> E]|[Hn E]]; rewrite E in H; eauto.
    inversion H; subst r0. rewrite V. eauto.
Qed.

Lemma sinv_frame : forall s s',
  sinv s -> recs s' = recs s -> vals s' = vals s -> deleg s' = deleg s -> gov_und s' = gov_und s ->
  proposal s' = proposal s -> sinv s'.
Proof.
  intros s s' I HR HV HD HG HP. unfold sinv, rate1, stake_inv in *.
  rewrite HR, HV, HD, HG, HP. exact I.
Qed.

Lemma unbond_stake : forall s a s', sinv s -> unbond s a = Ok s' -> sinv s'.
Proof.
  intros s a s' (R & S1 & S2 & S3 & S4) H. unfold unbond, unbond_gen in H. guards H.
  inversion H; subst; clear H. rename o into r.
  assert (Hr : recs s a = Some r) by assumption.
  assert (Hp : ~ In a (proposal s)) by (intro X; apply memZ_In in X; congruence).
  split; [exact R|]. unfold stake_inv; proj. repeat split.
  - intros a0 r0 H. destruct (upd_cases _ (recs s) a None a0) as [[-> E]|[Hn E]]; rewrite E in H; [discriminate|eauto].
  - intros a0 r0 vx H Hv. destruct (upd_cases _ (recs s) a None a0) as [[-> E]|[Hn E]]; rewrite E in H; [discriminate|eauto].
  - intros a0 vx H. destruct (upd_cases _ (recs s) a None a0) as [[-> E]|[Hn E]]; rewrite E in H; [|eauto].
    destruct (Z.eq_dec vx (o_val r)) as [->|N]; eauto.
  - intros a0 r0 H Hp0. destruct (upd_cases _ (recs s) a None a0) as [[-> E]|[Hn E]]; rewrite E in H; [discriminate|eauto].
Qed.

(* ---------------- governance removal ---------------- *)

Definition sinv3 (s : state) : Prop :=
  rate1 s /\
  (forall a r, recs s a = Some r -> deleg s a (o_val r) = (o_amount r - gov_und s a) * dec_one) /\
  (forall a r v, recs s a = Some r -> v <> o_val r -> deleg s a v = 0) /\
  (forall a v, recs s a = None -> deleg s a v = 0).

Definition zero_mono (s s' : state) : Prop := forall x y, deleg s x y = 0 -> deleg s' x y = 0.

Lemma gov_unbond1_stake : forall rws st q st1,
  gov_unbond1 rws (Some st) q = Some st1 -> sinv3 st -> cmatch (recs st) q ->
  sinv3 st1 /\ zero_mono st st1 /\ deleg st1 (o_addr q) (o_val q) = 0 /\
  (forall a, a <> o_addr q -> gov_und st1 a = gov_und st a).
Proof.
  intros rws st q st1 H (R & S1 & S2 & S3) M. inv_gov1 H.
  unfold cmatch in M. destruct (recs st (o_addr q)) as [r0|] eqn:E0; [|tauto].
  destruct M as ((A1 & A2 & A3 & A4 & A5 & A6) & A7).
  pose proof (S1 _ _ E0) as E1. rewrite A5 in E1.
  pose proof (delegate_token_rate1 _ _ _ _ _ _ R E1 DT) as Et. subst tok.
  destruct (stk_unbond_rate1 _ _ _ _ _ _ _ _ R E1 SU) as (R1 & -> & ->).
  fold (set_offline q).
  unfold sinv3, zero_mono; proj.
  split; [split; [exact R1|]; repeat split|].
  - intros a r H. destruct (upd_cases _ (recs st) (o_addr q) (Some (set_offline q)) a) as [[-> E]|[Hn E]]; rewrite E in H.
    + inversion H; subst r; cbn. rewrite upd2_same, upd_same. rewrite A4. ring.
    + rewrite upd2_other_a, upd_other; eauto.
  - intros a r v H Hv. destruct (upd_cases _ (recs st) (o_addr q) (Some (set_offline q)) a) as [[-> E]|[Hn E]]; rewrite E in H.
    + inversion H; subst r; cbn in Hv. rewrite upd2_other_b; auto. apply (S2 _ _ v E0). congruence.
    + rewrite upd2_other_a; eauto.
  - intros a v H. destruct (upd_cases _ (recs st) (o_addr q) (Some (set_offline q)) a) as [[-> E]|[Hn E]]; rewrite E in H; [discriminate|].
    rewrite upd2_other_a; eauto.
  - split; [|split].
    + intros x y H. unfold upd2. destruct ((x =? o_addr q) && (y =? o_val q)); auto.
    + apply upd2_same.
    + intros a Ha. apply upd_other; auto.
Qed.

Lemma gov_fold_stake : forall rws l st st',
  fold_left (gov_unbond1 rws) l (Some st) = Some st' -> core_inv st -> sinv3 st ->
  (forall q, In q l -> cmatch (recs st) q) ->
  sinv3 st' /\ zero_mono st st' /\ (forall q, In q l -> deleg st' (o_addr q) (o_val q) = 0) /\
  (forall a, (forall q, In q l -> o_addr q <> a) -> gov_und st' a = gov_und st a).
Proof.
  intros rws l. induction l as [|q t IH]; intros st st' H C R M; cbn [fold_left] in H.
  - inversion H; subst. split; [exact R|]. split; [unfold zero_mono; auto|]. split; [intros ? []|intros; reflexivity].
  - destruct (gov_unbond1 rws (Some st) q) as [st1|] eqn:E; [|rewrite gov_unbond1_none in H; discriminate].
    destruct (gov_unbond1_stake _ _ _ _ E R (M q (or_introl eq_refl))) as (R1 & Z1 & D1 & G1).
    destruct (gov_unbond1_core _ _ _ _ E C (M q (or_introl eq_refl))) as (C1 & L1 & _).
    assert (M1 : forall q', In q' t -> cmatch (recs st1) q').
    { intros q' Hq'. eapply cmatch_rel; [exact L1 | apply M; right; auto]. }
    destruct (IH _ _ H C1 R1 M1) as (R2 & Z2 & D2 & G2).
    split; [exact R2|]. split; [unfold zero_mono in *; auto|].
    split; [intros q' [<-|Hq']; auto|].
    intros a Ha. rewrite G2 by (intros; apply Ha; right; auto). apply G1. intro X. apply (Ha q); auto. left; auto.
Qed.

Lemma gov_set_stake : forall s l rws s', idx_inv s -> core_inv s -> sinv s -> gov_set s l rws = Ok s' -> sinv s'.
Proof.
  intros s l rws s' I C (R & S1 & S2 & S3 & S4) H.
  destruct (gov_set_spec _ _ _ _ I C H) as (_ & P2 & _ & L2 & _).
  destruct (gov_set_inv _ _ _ _ H) as (_ & _ & F).
  set (gone := filter (fun r => negb (memZ (o_addr r) l) && memZ (o_addr r) (proposal s)) (all_recs s)) in *.
  match type of F with fold_left _ _ (Some ?s1) = _ => set (st1 := s1) in * end.
  destruct C as (K & SL).
  assert (C1 : core_inv st1) by (split; unfold keys_inv, slash_inv; subst st1; proj; auto).
  assert (R1 : sinv3 st1) by (unfold sinv3, rate1; subst st1; proj; repeat split; auto).
  assert (ADDR : forall a r, recs s a = Some r -> o_addr r = a) by (intros a r Hr; destruct I as (I1 & _); apply (I1 _ _ Hr)).
  assert (M1 : forall q, In q gone -> cmatch (recs st1) q).
  { intros q Hq. apply filter_In in Hq. destruct Hq as [Hq _]. apply all_recs_In in Hq.
    destruct Hq as (a & Ha & Hr). unfold cmatch. subst st1; proj. rewrite (ADDR _ _ Hr), Hr. apply gov_rel_refl. }
  destruct (gov_fold_stake _ _ _ _ F C1 R1 M1) as ((R2 & T1 & T2 & T3) & Z2 & D2 & _).
  subst st1; proj.
  split; [exact R2|]. unfold stake_inv. repeat split; auto.
  intros a r' Hr' Hnl. rewrite P2 in Hnl.
  pose proof (L2 a) as La. rewrite Hr' in La. destruct (recs s a) as [r|] eqn:Hr; [|tauto].
  destruct La as ((_ & _ & _ & _ & V & _) & _). rewrite V.
  destruct (memZ a (proposal s)) eqn:MP.
  - assert (G : In r gone).
    { apply filter_In. split; [eapply In_all_recs; eauto|]. rewrite (ADDR _ _ Hr), MP.
      destruct (memZ a l) eqn:ML; [apply memZ_In in ML; tauto | reflexivity]. }
    specialize (D2 _ G). rewrite (ADDR _ _ Hr) in D2. exact D2.
  - apply Z2. apply S4; auto. intro X. apply memZ_In in X. congruence.
Qed.

Lemma gov_set_govund : forall s l rws s' a, idx_inv s -> core_inv s -> sinv s -> gov_set s l rws = Ok s' ->
  memZ a l = true \/ memZ a (proposal s) = false -> gov_und s' a = gov_und s a.
Proof.
  intros s l rws s' a I C (R & S1 & S2 & S3 & S4) H Cs.
  destruct (gov_set_inv _ _ _ _ H) as (_ & _ & F).
  set (gone := filter (fun r => negb (memZ (o_addr r) l) && memZ (o_addr r) (proposal s)) (all_recs s)) in *.
  match type of F with fold_left _ _ (Some ?s1) = _ => set (st1 := s1) in * end.
  destruct C as (K & SL).
  assert (C1 : core_inv st1) by (split; unfold keys_inv, slash_inv; subst st1; proj; auto).
  assert (R1 : sinv3 st1) by (unfold sinv3, rate1; subst st1; proj; repeat split; auto).
  assert (ADDR : forall a r, recs s a = Some r -> o_addr r = a) by (intros a0 r Hr; destruct I as (I1 & _); apply (I1 _ _ Hr)).
  assert (M1 : forall q, In q gone -> cmatch (recs st1) q).
  { intros q Hq. apply filter_In in Hq. destruct Hq as [Hq _]. apply all_recs_In in Hq.
    destruct Hq as (a0 & Ha & Hr). unfold cmatch. subst st1; proj. rewrite (ADDR _ _ Hr), Hr. apply gov_rel_refl. }
  destruct (gov_fold_stake _ _ _ _ F C1 R1 M1) as (_ & _ & _ & G).
  rewrite G; [subst st1; reflexivity|].
  intros q Hq Eq. apply filter_In in Hq. destruct Hq as [_ Hq]. rewrite Eq in Hq.
  destruct Cs as [Cs|Cs]; rewrite Cs in Hq; cbn in Hq; [discriminate | rewrite andb_false_r in Hq; discriminate].
Qed.

(* ---------------- genesis export / import ---------------- *)

Lemma In_all_recs_k : forall s a r, keys_inv s -> recs s a = Some r -> In r (all_recs s).
Proof. intros s a r K Hr. eapply In_all_recs; eauto. Qed.

(* export + import gives back exactly the registry that was there (ExportGenesis exporting every record) *)
Theorem export_import_preserves_registry : Gen_OracleSlash.export_all_oracles = true ->
  forall s s', idx_inv s -> keys_inv s -> export_import s = Ok s' ->
  (forall a, recs s' a = recs s a) /\
  (forall b, by_bridger s' b = by_bridger s b) /\
  (forall e, by_ext s' e = by_ext s e) /\
  proposal s' = proposal s /\ prm s' = prm s /\ deleg s' = deleg s /\ ubds s' = ubds s /\
  bal_o s' = bal_o s /\ bal_d s' = bal_d s /\ burned s' = burned s /\ gov_und s' = gov_und s /\ vals s' = vals s.
Proof.
  intros F s s' I K H. destruct (export_import_registry _ _ I H) as (_ & R & B & E).
  assert (EX : forall r, In r (exported s) <-> In r (all_recs s)) by (intro r; unfold exported; rewrite F; tauto).
  pose proof I as (I1 & I2 & I3).
  assert (RS : forall a, recs s' a = recs s a).
  { intros a. destruct (recs s a) as [r|] eqn:Hr.
    - apply R. split; [apply EX; eapply In_all_recs_k; eauto | apply (I1 _ _ Hr)].
    - destruct (recs s' a) as [r'|] eqn:Hr'; auto. exfalso.
      pose proof (export_import_recs_sub _ _ _ _ I H Hr'). congruence. }
  split; [exact RS|]. split; [|split].
  - intros b. destruct (by_bridger s b) as [a|] eqn:Hb.
    + destruct (I2 _ _ Hb) as (r & Hr & Hbr). apply B. exists r. repeat split; auto.
      * apply EX. eapply (In_all_recs_k s); eauto.
      * apply (I1 _ _ Hr).
    + destruct (by_bridger s' b) as [a|] eqn:Hb'; auto. exfalso.
      apply B in Hb'. destruct Hb' as (r & Hr & Hbr & Ha). apply EX, all_recs_In in Hr. destruct Hr as (a' & _ & Hr).
      destruct (I1 _ _ Hr) as (_ & X & _). congruence.
  - intros e. destruct (by_ext s e) as [a|] eqn:He.
    + destruct (I3 _ _ He) as (r & Hr & Her). apply E. exists r. repeat split; auto.
      * apply EX. eapply (In_all_recs_k s); eauto.
      * apply (I1 _ _ Hr).
    + destruct (by_ext s' e) as [a|] eqn:He'; auto. exfalso.
      apply E in He'. destruct He' as (r & Hr & Her & Ha). apply EX, all_recs_In in Hr. destruct Hr as (a' & _ & Hr).
      destruct (I1 _ _ Hr) as (_ & _ & X). congruence.
  - unfold export_import in H. inversion H; subst; clear H. unfold_power. repeat split; reflexivity.
Qed.

(* ---------------- all operations without a staking slash ---------------- *)

(* the operations under which validators keep the rate 1 share = 1 token: everything except a staking slash
   and an environment step that reports a validator at another rate *)
Definition calm (o : op) : Prop :=
  match o with
  | SlashVal _ _ => False
  | SlashValPast _ _ _ _ _ => False
  | EnvVal _ tok shr => shr = tok * dec_one
  | ExportImport => Gen_OracleSlash.export_all_oracles = true
  | _ => True
  end.

Lemma end_block_stake : forall s t1 t2 pd s', sinv s -> end_block s t1 t2 pd = Ok s' -> sinv s'.
Proof.
  intros s t1 t2 pd s' (R & ST) H. pose proof (end_block_vals _ _ _ _ _ H) as HV.
  apply end_block_spec in H. destruct H as (Rl & _ & _ & HP & HD & HG & _).
  split; [unfold rate1; rewrite HV; exact R|].
  destruct ST as (S1 & S2 & S3 & S4). unfold stake_inv. rewrite HD, HG, HP.
  assert (CE : rel_recs core_eq (recs s) (recs s')) by (eapply rel_recs_impl; [apply slash_rel_core | exact Rl]).
  repeat split.
  - intros a r' H. specialize (CE a). rewrite H in CE. destruct (recs s a) eqn:E; [|tauto].
    destruct CE as (_ & _ & _ & A & V & _). rewrite A, V. auto.
  - intros a r' v H Hv. specialize (CE a). rewrite H in CE. destruct (recs s a) eqn:E; [|tauto].
    destruct CE as (_ & _ & _ & A & V & _). rewrite V in Hv. eauto.
  - intros a v H. specialize (CE a). rewrite H in CE. destruct (recs s a) eqn:E; [tauto|]. auto.
  - intros a r' H Hp. specialize (CE a). rewrite H in CE. destruct (recs s a) eqn:E; [|tauto].
    destruct CE as (_ & _ & _ & A & V & _). rewrite V. eauto.
Qed.

Theorem step_stake : forall s o s', reg_inv s -> sinv s -> calm o -> step s o = Ok s' -> sinv s'.
Proof.
  intros s o s' (I & K & SL) ST Co H. destruct o; cbn [step] in H.
  - eapply bond_stake; eauto.
  - eapply add_delegate_stake; eauto.
  - eapply re_delegate_stake; eauto.
  - unfold edit_bridger in H. guards H. inversion H; subst; clear H.
    eapply sinv_same_fields with (s := s) (a := a) (r := o);
      [exact ST | assumption | proj; reflexivity | ..]; reflexivity.
  - unfold withdraw_reward in H. guards H. inversion H; subst. eapply sinv_frame; eauto.
  - eapply unbond_stake; eauto.
  - eapply gov_set_stake; eauto. split; auto.
  - unfold set_params in H. guards H. inversion H; subst. eapply sinv_frame; eauto.
  - unfold confirm in H. guards H. inversion H; subst. eapply sinv_frame; eauto; destruct k; reflexivity.
  - unfold add_batch in H. guards H. inversion H; subst. eapply sinv_frame; eauto.
  - unfold del_batch in H. inversion H; subst. eapply sinv_frame; eauto.
  - unfold add_call in H. inversion H; subst. eapply sinv_frame; eauto.
  - unfold del_call in H. inversion H; subst. eapply sinv_frame; eauto.
  - unfold fund in H. inversion H; subst. eapply sinv_frame; eauto.
  - contradiction.
  - cbn in Co. subst shr. unfold env_val in H. inversion H; subst; clear H. destruct ST as (R & ST).
    split; [unfold rate1, set_vals_deleg; proj; apply rate1V_set; exact R | exact ST].
  - contradiction.
  - unfold env_stat in H. inversion H; subst; clear H. destruct ST as (R & ST). split; [exact R | exact ST].
  - unfold exec_batch in H. guards H. inversion H; subst. eapply sinv_frame; eauto.
  - cbn in Co. destruct (export_import_preserves_registry Co _ _ I K H) as (RS & _ & _ & HP & _ & HD & _ & _ & _ & _ & HG & HV).
    destruct ST as (R & S1 & S2 & S3 & S4). split; [unfold rate1; rewrite HV; exact R|].
    unfold stake_inv. rewrite HD, HG, HP. repeat split; intros; rewrite RS in *; eauto.
  - unfold observe_set in H. guards H. inversion H; subst. eapply sinv_frame; eauto.
  - eapply end_block_stake; eauto.
Qed.

Theorem run_stake : forall ops s, Forall calm ops -> reg_inv s -> sinv s -> sinv (run s ops).
Proof.
  induction ops as [|o t IH]; intros s F RI ST; cbn [run fold_left]; auto.
  inversion F; subst. apply IH; auto.
  - apply exec_reg; auto.
  - unfold exec. destruct (step s o) eqn:E; auto. eapply step_stake; eauto.
Qed.

Lemma init_sinv : forall h t ub vs p, rate1V vs -> sinv (init h t ub vs p).
Proof.
  intros. split; [exact H|]. unfold stake_inv, init; proj. repeat split; intros; try discriminate; reflexivity.
Qed.

(* ------------------------------------------------------------------ *)
(* after a validator slash: the delegation can still be moved and undelegated *)

(* GetOracleDelegateToken never asks staking for more than the delegation is worth: ValidateUnbondAmount's
   "invalid shares amount" test cannot fire on it, whatever the validator's rate *)
Theorem delegate_token_unbondable : forall V dl a v tok,
  0 < v_tok V v -> 0 < v_shr V v -> 0 <= dl a v ->
  delegate_token V dl a v = Some tok ->
  shares_from_tokens_trunc (v_tok V v) (v_shr V v) tok <= dl a v.
Proof.
  intros V dl a v tok HT HS HD H. unfold delegate_token in H.
  destruct (dl a v =? 0); [discriminate|].
  destruct (negb (memZ v (v_ids V))); [discriminate|].
  destruct (v_tok V v =? 0); [discriminate|].
  set (T := v_tok V v) in *. set (S := v_shr V v) in *. set (d := dl a v) in *.
  destruct (d <? shares_from_tokens_trunc T S (tokens_from_shares_trunc T S d)) eqn:L; inversion H; subst; clear H.
  - (* the correction branch: it is in fact unreachable, see below *)
    exfalso. apply Z.ltb_lt in L.
    assert (X : shares_from_tokens_trunc T S (tokens_from_shares_trunc T S d) <= d); [|lia].
    unfold shares_from_tokens_trunc, tokens_from_shares_trunc.
    pose proof D_pos as DP.
    set (D2 := dec_one * dec_one).
    assert (D2P : 0 < D2) by (subst D2; nia).
    assert (E0 : d * T * dec_one * dec_one / S / dec_one / dec_one = d * T * D2 / (S * D2)).
    { rewrite Z.div_div by lia. rewrite Z.div_div by lia. subst D2. f_equal; ring. }
    rewrite E0. set (t0 := d * T * D2 / (S * D2)).
    assert (SP : 0 < S * D2) by nia.
    assert (B : (S * D2) * t0 <= d * T * D2) by (subst t0; apply Z.mul_div_le; exact SP).
    assert (B' : t0 * S <= d * T) by nia.
    assert (E1 : S * t0 * dec_one * dec_one / (T * dec_one) / dec_one = S * t0 * D2 / (T * D2)).
    { rewrite Z.div_div by lia. subst D2. f_equal; ring. }
    rewrite E1. apply Z.div_le_upper_bound; [nia|]. nia.
  - apply Z.ltb_ge in L. exact L.
Qed.

(* hence staking's Undelegate / BeginRedelegate accept the amount the crosschain keeper asks for, at any
   validator rate (seeded change C13-D computed the amount from the share count: refused after a slash) *)
Theorem delegate_token_accepted_by_staking : forall V dl a v tok,
  0 < v_tok V v -> 0 < v_shr V v -> 0 <= dl a v ->
  delegate_token V dl a v = Some tok -> 0 < tok ->
  exists V' dl' back, stk_unbond V dl a v tok = Some (V', dl', back).
Proof.
  intros V dl a v tok HT HS HD H Pt.
  pose proof (delegate_token_unbondable _ _ _ _ _ HT HS HD H) as U.
  unfold delegate_token in H. unfold stk_unbond.
  destruct (dl a v =? 0) eqn:E1; [discriminate|].
  destruct (negb (memZ v (v_ids V))) eqn:E2; [discriminate|].
  destruct (v_tok V v =? 0) eqn:E3; [discriminate|].
  replace (tok <=? 0) with false by (symmetry; apply Z.leb_gt; lia).
  replace (dl a v <? shares_from_tokens_trunc (v_tok V v) (v_shr V v) tok) with false
    by (symmetry; apply Z.ltb_ge; exact U).
  eauto.
Qed.
