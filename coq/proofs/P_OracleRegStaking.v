(* P_OracleRegStaking.v — staking-side events (property C13, deepening): a validator slashed for a current or a
   past infraction, jailed, unbonding, unbonded.  The oracle's real delegation moves; the recorded stake does not. *)
From Coq Require Import ZArith List Bool Lia.
From FxV Require Import model.M_OracleReg proofs.P_OracleReg proofs.P_OracleReg2 proofs.P_OracleRegStake proofs.P_OracleReg3.
Import ListNotations.
Open Scope Z_scope.

Definition staking_side (o : op) : Prop :=
  match o with
  | SlashVal _ _ | SlashValPast _ _ _ _ _ | EnvVal _ _ _ | EnvStat _ _ _ => True
  | _ => False
  end.

(* a staking-side event touches nothing of the crosschain module: records (so DelegateAmount, the slash counter, the
   online flag), both indexes, the governance list, the oracle accounts, what has been burned *)
Theorem staking_side_blind : forall s o s', staking_side o -> step s o = Ok s' ->
  recs s' = recs s /\ by_bridger s' = by_bridger s /\ by_ext s' = by_ext s /\ proposal s' = proposal s /\
  keys s' = keys s /\ bal_o s' = bal_o s /\ burned s' = burned s /\ total_power s' = total_power s /\ prm s' = prm s.
Proof.
  intros s o s' S H. destruct o; try contradiction; cbn [step] in H.
  - unfold slash_val in H. destruct (negb (has_val s v)); inversion H; subst; repeat split; reflexivity.
  - unfold env_val in H. inversion H; subst; repeat split; reflexivity.
  - unfold slash_past in H. inversion H; subst; repeat split; reflexivity.
  - unfold env_stat in H. inversion H; subst; repeat split; reflexivity.
Qed.

(* the recorded stake of an existing record changes in one place only: AddDelegate of that oracle.  Governance
   removal, crosschain slashing, re-delegation, export/import and every staking-side event leave it as it is *)
Theorem recorded_stake_moves_only_on_add_delegate : forall s o s' a r r', reg_inv s -> step s o = Ok s' ->
  recs s a = Some r -> recs s' a = Some r' ->
  o_amount r' = o_amount r \/ exists amt rw, o = AddDelegate a amt rw.
Proof.
  intros s o s' a r r' (I & K & SL) H Hr Hr'. destruct o; cbn [step] in H.
  - left. unfold bond in H. guards H. inversion H; subst; clear H. unfold_power.
    destruct (Z.eq_dec a a0) as [->|N]; [congruence|]. rewrite upd_other in Hr' by auto. congruence.
  - unfold add_delegate in H. guards H. inversion H; subst; clear H. unfold_power.
    destruct (Z.eq_dec a a0) as [->|N]; [right; eauto|]. left. rewrite upd_other in Hr' by auto. congruence.
  - left. unfold re_delegate in H. guards H. inversion H; subst; clear H. proj.
    destruct (Z.eq_dec a a0) as [->|N].
    + rewrite upd_same in Hr'. inversion Hr'; subst r'. cbn. congruence.
    + rewrite upd_other in Hr' by auto. congruence.
  - left. unfold edit_bridger in H. guards H. inversion H; subst; clear H. proj.
    destruct (Z.eq_dec a a0) as [->|N].
    + rewrite upd_same in Hr'. inversion Hr'; subst r'. cbn. congruence.
    + rewrite upd_other in Hr' by auto. congruence.
  - left. unfold withdraw_reward in H. guards H. inversion H; subst; clear H. proj. congruence.
  - left. unfold unbond, unbond_gen in H. guards H. inversion H; subst; clear H. proj.
    destruct (Z.eq_dec a a0) as [->|N]; [rewrite upd_same in Hr'; discriminate|]. rewrite upd_other in Hr' by auto. congruence.
  - left. destruct (gov_set_spec _ _ _ _ I (conj K SL) H) as (_ & _ & _ & _ & _ & E & _).
    destruct (E _ _ _ Hr Hr') as [->| ->]; reflexivity.
  - left. unfold set_params in H. guards H. inversion H; subst; clear H. proj. congruence.
  - left. unfold confirm in H. guards H. inversion H; subst; clear H. destruct k; unfold set_objs in Hr'; proj; congruence.
  - left. unfold add_batch in H. guards H. inversion H; subst; clear H. unfold set_objs in Hr'; proj; congruence.
  - left. unfold del_batch in H. inversion H; subst; clear H. unfold set_objs in Hr'; proj; congruence.
  - left. unfold add_call in H. inversion H; subst; clear H. proj; congruence.
  - left. unfold del_call in H. inversion H; subst; clear H. unfold set_objs in Hr'; proj; congruence.
  - left. unfold fund in H. inversion H; subst; clear H. proj; congruence.
  - left. unfold slash_val in H. destruct (negb (has_val s v)); inversion H; subst; clear H; unfold set_vals_deleg in *; proj; congruence.
  - left. unfold env_val in H. inversion H; subst; clear H. unfold set_vals_deleg in *; proj; congruence.
  - left. unfold slash_past in H. inversion H; subst; clear H. proj; congruence.
  - left. unfold env_stat in H. inversion H; subst; clear H. unfold set_vals_deleg in *; proj; congruence.
  - left. unfold exec_batch in H. guards H. inversion H; subst; clear H. unfold set_objs in Hr'; proj; congruence.
  - left. pose proof (export_import_recs_sub _ _ _ _ I H Hr'). congruence.
  - left. unfold observe_set in H. guards H. inversion H; subst; clear H. proj; congruence.
  - left. apply end_block_spec in H. destruct H as (R & _). pose proof (R a) as Ra. rewrite Hr, Hr' in Ra.
    destruct (slash_rel_core _ _ Ra) as (_ & _ & _ & A & _). exact A.
Qed.

(* what the withdrawal does then.  The penalty is computed from the RECORDED stake.  In the REFUSING variant of the
   penalty rule (`if balance < penalty { return error }`, finding C13-3) a staking-side slash that left less than the
   penalty at the delegate address makes UnbondedOracle refuse — in every state, so for ever once nothing more can
   mature; in the CAPPED variant (the C13-3 patch) the oracle receives max(0, matured - penalty) and min(penalty,
   matured) is burned ([unbond_capped_pays]).  Both are stated about the explicit variants; which one the checked
   tree has is the generated fact [unbond_penalty_capped]. *)
Theorem unbond_refused_when_penalty_exceeds_balance : forall ne s a r, recs s a = Some r ->
  0 < slash_amount r (p_fraction (prm s)) -> bal_d s a < slash_amount r (p_fraction (prm s)) ->
  forall s', unbond_gen ne false s a <> Ok s'.
Proof. exact unbond_refusing_variant_refuses. Qed.

(* the life cycle with slash fraction 1: oracle 3 (on validator 0) misses oracle set 1 and is penalised (penalty = its
   whole recorded stake), staking slashes validator 0 by 5 %, governance removes oracle 3, the unbonding matures:
   9500 FX + rewards sit at the delegate address, the penalty is 10000 FX.  Refusing variant: the withdrawal is
   refused; capped variant: it is accepted, the oracle receives nothing, 9500 FX + 9 are burned, records deleted *)
Definition w_init1 : state := init 2 10 1814400 w_vals (mkParams (FX 10000) 10 dec_one 2).
Definition w_J : list op :=
  w_setup ++ confirm_all 1 3 ++ [EndBlock 10 15 false; EndBlock 15 20 false; EndBlock 20 25 false] ++ confirm_all 2 3 ++
  [SlashVal 0 (FX 1505); GovSet [0; 1; 2; 4; 5; 6] [(3, 9)]; EndBlock 25 30 false; EndBlock 1814600 1814605 false].

Theorem penalty_exceeds_remaining_refuted : exists ops a r,
  let s := run_with false false w_init1 ops in
  recs s a = Some r /\ ~ In a (proposal s) /\ o_online r = false /\ o_slash r = 1 /\
  (forall u, In u (ubds s) -> u_orc u <> a) /\ deleg s a (o_val r) = 0 /\
  o_amount r = FX 10000 /\ slash_amount r (p_fraction (prm s)) = FX 10000 /\ bal_d s a = FX 9500 + 9 /\
  step_with false false s (Unbond a) = Err e_invalid.
Proof.
  exists w_J, 3, (mkOracle 3 103 203 (FX 10000) 2 false 0 1). cbv zeta.
  split; [vm_compute; reflexivity|].
  split; [vm_compute; intuition discriminate|].
  split; [reflexivity|]. split; [reflexivity|].
  split; [assert (E : ubds (run_with false false w_init1 w_J) = []) by (vm_compute; reflexivity); rewrite E; intros u []|].
  split; [vm_compute; reflexivity|]. split; [reflexivity|].
  split; vm_compute; try reflexivity. split; reflexivity.
Qed.

Example penalty_capped_life_cycle :
  let s := run_with false true w_init1 w_J in
  let s' := exec_with false true s (Unbond 3) in
  is_ok (step_with false true s (Unbond 3)) = true /\ bal_d s 3 = FX 9500 + 9 /\
  bal_o s' 3 = bal_o s 3 /\ burned s' = burned s + (FX 9500 + 9) /\ bal_d s' 3 = 0 /\
  recs s' 3 = None /\ by_bridger s' 103 = None /\ by_ext s' 203 = None /\
  step_with false true s' (Unbond 3) = Err e_notfound.
Proof. vm_compute. repeat split; reflexivity. Qed.

(* a past-infraction slash on the model: validator 0 slashed 5 % for an infraction at height 3; oracle 3 re-delegated
   from validator 0 to validator 2 at height 3 and oracle 0 was removed at height 3: the unbonding entry of oracle 0
   loses 5 % of its initial balance, the delegation of oracle 3 at validator 2 loses 5 % of the shares created there;
   records untouched *)
Definition w_K : list op :=
  w_setup ++ confirm_all 1 (-1) ++
  [ReDelegate 3 2 4; GovSet [1; 2; 3; 4; 5; 6] [(0, 7)];
   SlashValPast 0 3 (5 * 10 ^ 16) [(0, FX 9595, FX 10100 * dec_one); (2, FX 39600, FX 40100 * dec_one)] [(3, 2)]].

Example past_infraction_nonvacuous :
  let s0 := run w_init (w_setup ++ confirm_all 1 (-1) ++ [ReDelegate 3 2 4; GovSet [1; 2; 3; 4; 5; 6] [(0, 7)]]) in
  let s := run w_init w_K in
  map u_amt (ubds s0) = [FX 10000] /\ map u_amt (ubds s) = [FX 9500] /\
  deleg s0 3 2 = FX 10000 * dec_one /\ deleg s 3 2 = FX 9500 * dec_one /\
  bal_d s 3 = bal_d s0 3 + 2 /\ recs s 3 = recs s0 3 /\ recs s 0 = recs s0 0 /\
  (o_amount (mkOracle 3 103 203 (FX 10000) 2 true 2 0) = FX 10000 /\ recs s 3 = Some (mkOracle 3 103 203 (FX 10000) 2 true 2 0)).
Proof. vm_compute. repeat split; reflexivity. Qed.

(* the same life cycle on the model of the checked tree (C13-3 repaired): accepted, the oracle receives nothing, what
   matured is burned, the records are deleted — no hypothesis, [run] / [step] use the generated facts *)
Theorem penalty_capped_life_cycle_on_tree :
  let s := run w_init1 w_J in
  let s' := exec s (Unbond 3) in
  is_ok (step s (Unbond 3)) = true /\ bal_d s 3 = FX 9500 + 9 /\
  bal_o s' 3 = bal_o s 3 /\ burned s' = burned s + (FX 9500 + 9) /\ bal_d s' 3 = 0 /\
  recs s' 3 = None /\ by_bridger s' 103 = None /\ by_ext s' 203 = None /\
  step s' (Unbond 3) = Err e_notfound.
Proof. vm_compute. repeat split; reflexivity. Qed.
