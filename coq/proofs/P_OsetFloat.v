(* P_OsetFloat.v — the float64 division in isNeedOracleSetRequest never yields NaN or an infinity.
   Bridges the executable IEEE-754 specification the model runs (Coq.Floats.SpecFloat) to Flocq's verified
   binary_float operations (Flocq.IEEE754.PrimFloat: binary_normalize_equiv, binary_round_aux_equiv) and uses
   Flocq's Bdiv_correct / binary_normalize_correct.  Those theorems are stated over the real numbers, so the
   results below depend on the standard library's real-number axioms (ClassicalDedekindReals.sig_not_dec,
   sig_forall_dec, FunctionalExtensionality.functional_extensionality_dep, Classical_Prop.classic) — all
   declared by the standard library, none by this development. *)
From Coq Require Import ZArith Reals Lia Lra Floats.SpecFloat.
From Flocq Require Import Core.Core IEEE754.BinarySingleNaN IEEE754.PrimFloat.
From FxV Require Import model.M_EndBlock model.M_OsetPhase.
Open Scope Z_scope.
#[local] Existing Instance Hprec.
#[local] Existing Instance Hmax.

Notation P := FloatOps.prec.
Notation E := FloatOps.emax.
Notation fx := (SpecFloat.fexp P E).

#[local] Instance fx_valid : Valid_exp fx.
Proof. exact (FLT_exp_valid (SpecFloat.emin P E) P). Qed.

Definition bn (z : Z) : binary_float P E := binary_normalize P E Hprec Hmax mode_NE z 0 false.

Lemma SFdiv_B2SF (x y : binary_float P E) :
  SFdiv P E (B2SF x) (B2SF y) = B2SF (Bdiv mode_NE x y).
Proof.
  destruct x as [sx|sx| |sx mx ex Bx]; destruct y as [sy|sy| |sy my ey By]; try reflexivity.
  simpl. rewrite B2SF_SF2B.
  set (melz := SFdiv_core_binary _ _ _ _ _ _).
  destruct melz as [[mz ez] lz].
  apply binary_round_aux_equiv.
Qed.

Lemma fmt_pow (e : Z) : 0 <= e <= 1000 -> generic_format radix2 fx (bpow radix2 e).
Proof.
  intros H. apply generic_format_bpow. unfold SpecFloat.fexp, SpecFloat.emin.
  unfold FloatOps.prec, FloatOps.emax. lia.
Qed.

Lemma round_bounds (x : R) (e : Z) : 0 <= e <= 1000 -> (0 <= x <= bpow radix2 e)%R ->
  (0 <= round radix2 fx (round_mode mode_NE) x <= bpow radix2 e)%R.
Proof.
  intros He [H0 H1]. split.
  - apply round_ge_generic; auto with typeclass_instances. apply generic_format_0.
  - apply round_le_generic; auto with typeclass_instances. apply fmt_pow; exact He.
Qed.

Lemma small_lt_emax (x : R) (e : Z) : 0 <= e <= 1000 -> (0 <= x <= bpow radix2 e)%R ->
  Rlt_bool (Rabs x) (bpow radix2 E) = true.
Proof.
  intros He [H0 H1]. apply Rlt_bool_true. rewrite Rabs_pos_eq by exact H0.
  apply Rle_lt_trans with (1 := H1). apply bpow_lt. unfold E, FloatOps.emax. lia.
Qed.

Lemma bn_spec (z : Z) (e : Z) : 0 <= e <= 1000 -> 0 <= z <= 2 ^ e ->
  is_finite (bn z) = true /\ (0 <= B2R (bn z) <= bpow radix2 e)%R /\
  B2R (bn z) = round radix2 fx (round_mode mode_NE) (IZR z).
Proof.
  intros He Hz.
  assert (Hx : (0 <= IZR z <= bpow radix2 e)%R).
  { split. apply IZR_le; lia. rewrite <- IZR_Zpower by lia. apply IZR_le; simpl; lia. }
  pose proof (round_bounds _ _ He Hx) as Hr.
  pose proof (binary_normalize_correct P E Hprec Hmax mode_NE z 0 false) as C.
  cbv zeta in C. replace (F2R {| Fnum := z; Fexp := 0 |}) with (IZR z) in C
    by (unfold F2R; simpl; ring).
  rewrite (small_lt_emax _ e He Hr) in C. destruct C as [C1 [C2 _]].
  unfold bn. split; [exact C2|]. split; [rewrite C1; exact Hr| exact C1].
Qed.

Lemma div_finite (d : Z) : 0 <= d <= 2 ^ 1000 ->
  is_finite (Bdiv mode_NE (bn d) (bn 4294967295)) = true.
Proof.
  intros Hd.
  destruct (bn_spec d 1000 ltac:(lia) Hd) as [Fx [Bx _]].
  destruct (bn_spec 4294967295 32 ltac:(lia) ltac:(lia)) as [Fy [By Ey]].
  assert (Y1 : (1 <= B2R (bn 4294967295))%R).
  { rewrite Ey. apply round_ge_generic; auto with typeclass_instances.
    - change 1%R with (bpow radix2 0). apply fmt_pow; lia.
    - apply IZR_le; lia. }
  pose proof (Bdiv_correct P E Hprec Hmax mode_NE (bn d) (bn 4294967295)) as C.
  assert (Q : (0 <= B2R (bn d) / B2R (bn 4294967295) <= bpow radix2 1000)%R).
  { destruct Bx as [Bx0 Bx1]. split.
    - apply Rmult_le_pos; [exact Bx0|]. left. apply Rinv_0_lt_compat. lra.
    - apply Rle_trans with (B2R (bn d) / 1)%R.
      + unfold Rdiv. apply Rmult_le_compat_l; [exact Bx0|]. apply Rinv_le_contravar; lra.
      + unfold Rdiv. rewrite Rinv_1, Rmult_1_r. exact Bx1. }
  rewrite (small_lt_emax _ 1000 ltac:(lia) (round_bounds _ 1000 ltac:(lia) Q)) in C.
  destruct C as [_ [C _]]; [lra|]. rewrite C. exact Fx.
Qed.

(* the statement about the model's own definitions *)
Lemma power_diff_parses_of_delta (d : Z) : 0 <= d <= 2 ^ 1000 ->
  dec_of_fmt8 (SFabs (f_div (f_of_Z d) (f_of_Z max_u32))) <> None.
Proof.
  intros Hd. unfold f_div, f_of_Z, f64_prec, f64_emax, max_u32.
  change 53 with P. change 1024 with E.
  rewrite !binary_normalize_equiv. fold (bn d). fold (bn 4294967295).
  rewrite SFdiv_B2SF. pose proof (div_finite d Hd) as F.
  destruct (Bdiv mode_NE (bn d) (bn 4294967295)) as [s|s| |s m e H]; simpl in F; try discriminate; simpl; discriminate.
Qed.
