(* P_OsetPhase.v — the oracle-set phases of the crosschain EndBlocker (model M_OsetPhase):
   invariants of the stored oracle sets, bounds that keep the float64 computation finite, totality of the
   whole EndBlocker for every block of every history.  Only [endblock_full_total] and what follows from it
   use P_OsetFloat (and with it the standard library's real-number axioms); everything above is axiom-free. *)
From Coq Require Import ZArith List Bool Lia.
From FxV Require Import model.M_EndBlock model.M_OsetPhase proofs.P_EndBlock proofs.P_OsetFloat.
Import ListNotations.
Open Scope Z_scope.

Definition msum (m : list (Z * Z)) : Z := sumZ (map snd m).

Definition members_ok (m : list (Z * Z)) : Prop :=
  Forall (fun p => 0 <= snd p) m /\ msum m <= max_u32 /\ Z.of_nat (length m) < two64.

Definition sets_ok (p : ophase) : Prop := Forall (fun r => members_ok (or_members r)) (op_sets p).

(* ---- normalised powers: non-negative, sum at most MaxUint32 ---- *)

Lemma sumZ_nonneg l : Forall (fun x => 0 <= x) l -> 0 <= sumZ l.
Proof. induction 1 as [|x r Hx _ IH]; cbn; [lia|]. unfold sumZ in *. lia. Qed.

Lemma sum_div_le (T : Z) (a : list Z) : 0 < T -> Forall (fun x => 0 <= x) a ->
  sumZ (map (fun x => x / T) a) <= sumZ a / T.
Proof.
  intros HT H. induction H as [|x r Hx Hr IH]; cbn [map sumZ fold_right].
  - rewrite Z.div_0_l; lia.
  - fold (sumZ (map (fun x => x / T) r)). fold (sumZ r).
    apply Z.div_le_lower_bound; [exact HT|].
    pose proof (sumZ_nonneg r Hr) as Hs.
    pose proof (Z.mul_div_le x T HT). pose proof (Z.mul_div_le (sumZ r) T HT). nia.
Qed.

Lemma sumZ_map_mul (c : Z) (l : list Z) : sumZ (map (fun x => x * c) l) = sumZ l * c.
Proof. induction l as [|x r IH]; cbn; [lia|]. unfold sumZ in *. lia. Qed.

Lemma length_le_sum (l : list Z) : Forall (fun x => 1 <= x) l -> Z.of_nat (length l) <= sumZ l.
Proof.
  induction 1 as [|x r Hx _ IH]; cbn [length sumZ fold_right]; [lia|].
  fold (sumZ r). lia.
Qed.

Lemma current_oracle_set_members_ok l m :
  powers_ok l -> current_oracle_set l = Ok m -> members_ok m.
Proof.
  intros [Hnn Hsum]. unfold current_oracle_set.
  set (members := filter (fun o => o_online o && (0 <? o_power o)) l).
  assert (Hle : sumZ (powers members) <= sumZ (powers l)) by (apply sum_filter_le; exact Hnn).
  assert (Hpos1 : Forall (fun x => 1 <= x) (powers members)).
  { unfold powers, members. apply Forall_forall. intros p Hp. apply in_map_iff in Hp.
    destruct Hp as [o [<- Ho]]. apply filter_In in Ho. destruct Ho as [_ Ho].
    apply andb_true_iff in Ho. destruct Ho as [_ Ho]. apply Z.ltb_lt in Ho. lia. }
  destruct (existsb (fun o => two64 <=? o_power o) members); [discriminate|].
  rewrite fold_left_add_acc. fold (powers members). rewrite Z.add_0_l.
  destruct members as [|o r] eqn:M.
  - intro E. inversion E; subst. split; [apply Forall_nil|]. split; [cbn; unfold max_u32; lia|cbn; unfold two64; lia].
  - set (T := sumZ (powers (o :: r))) in *.
    assert (HT : 1 <= T).
    { pose proof (length_le_sum _ Hpos1) as Hl. fold T in Hl. unfold powers in Hl. cbn [map length] in Hl. lia. }
    rewrite Z.mod_small by (unfold two64 in *; lia).
    destruct (T =? 0) eqn:Z0; [apply Z.eqb_eq in Z0; lia|].
    remember (o :: r) as mm eqn:Emm.
    intro E. injection E as <-.
    split; [|split].
    + apply Forall_forall. intros p Hp. apply in_map_iff in Hp. destruct Hp as [x [<- Hx]]. cbn [snd].
      assert (1 <= o_power x).
      { rewrite Forall_forall in Hpos1. apply Hpos1. unfold powers. apply in_map. exact Hx. }
      apply Z.div_pos; [unfold max_u32; lia|lia].
    + unfold msum. rewrite map_map. cbn [snd].
      replace (map (fun x => o_power x * max_u32 / T) mm)
        with (map (fun x => x / T) (map (fun x => x * max_u32) (powers mm)))
        by (unfold powers; rewrite !map_map; reflexivity).
      eapply Z.le_trans.
      * apply sum_div_le; [lia|]. apply Forall_forall. intros y Hy. apply in_map_iff in Hy.
        destruct Hy as [x [<- Hx]]. rewrite Forall_forall in Hpos1. specialize (Hpos1 _ Hx). unfold max_u32. lia.
      * rewrite sumZ_map_mul. fold T. rewrite Z.mul_comm, Z.div_mul by lia. lia.
    + rewrite map_length. pose proof (length_le_sum _ Hpos1) as Hl. unfold powers in Hl. rewrite map_length in Hl.
      fold (powers mm) in Hl. fold T in Hl. lia.
Qed.

(* ---- bound on the power difference ---- *)

Lemma in_nonneg_le_sum (m : list (Z * Z)) p :
  Forall (fun q => 0 <= snd q) m -> In p m -> 0 <= snd p <= msum m.
Proof.
  unfold msum. induction 1 as [|x r Hx Hr IH]; intro Hin; [contradiction|].
  cbn [map sumZ fold_right]. fold (sumZ (map snd r)).
  assert (0 <= sumZ (map snd r)).
  { apply sumZ_nonneg. apply Forall_forall. intros y Hy. apply in_map_iff in Hy. destruct Hy as [q [<- Hq]].
    rewrite Forall_forall in Hr. apply Hr. exact Hq. }
  destruct Hin as [->|Hin]; [lia|]. specialize (IH Hin). lia.
Qed.

Lemma power_in_bound id m q :
  Forall (fun p => 0 <= snd p) m -> power_in id m = Some q -> 0 <= q <= msum m.
Proof.
  intros H. unfold power_in. destruct (find (fun p => fst p =? id) m) as [p|] eqn:F; [|discriminate].
  intro E. inversion E; subst q. apply find_some in F. destruct F as [Hin _].
  apply in_nonneg_le_sum; assumption.
Qed.

Lemma fold1_bound (lat cur : list (Z * Z)) : forall acc,
  Forall (fun p => 0 <= snd p) lat -> Forall (fun p => 0 <= snd p) cur ->
  acc <= fold_left (fun a p => a + Z.abs (snd p - match power_in (fst p) lat with Some q => q | None => 0 end)) cur acc
      <= acc + msum cur + Z.of_nat (length cur) * msum lat.
Proof.
  intros acc Hl Hc. revert acc. induction Hc as [|x r Hx Hr IH]; intro acc; cbn [fold_left length].
  - unfold msum; cbn; lia.
  - specialize (IH (acc + Z.abs (snd x - match power_in (fst x) lat with Some q => q | None => 0 end))).
    assert (B : 0 <= match power_in (fst x) lat with Some q => q | None => 0 end <= msum lat).
    { destruct (power_in (fst x) lat) as [q|] eqn:E.
      - eapply power_in_bound; eassumption.
      - split; [lia|]. unfold msum. apply sumZ_nonneg. apply Forall_forall. intros y Hy.
        apply in_map_iff in Hy. destruct Hy as [p [<- Hp]]. rewrite Forall_forall in Hl. apply Hl; exact Hp. }
    unfold msum in *. cbn [map sumZ fold_right]. fold (sumZ (map snd r)).
    rewrite Nat2Z.inj_succ. lia.
Qed.

Lemma fold2_bound (cur lat : list (Z * Z)) : forall acc,
  Forall (fun p => 0 <= snd p) lat ->
  acc <= fold_left (fun a p => match power_in (fst p) cur with Some _ => a | None => a + Z.abs (snd p) end) lat acc
      <= acc + msum lat.
Proof.
  intros acc Hl. revert acc. induction Hl as [|x r Hx Hr IH]; intro acc; cbn [fold_left].
  - unfold msum; cbn; lia.
  - unfold msum in *. cbn [map sumZ fold_right]. fold (sumZ (map snd r)).
    destruct (power_in (fst x) cur).
    + specialize (IH acc). lia.
    + specialize (IH (acc + Z.abs (snd x))). lia.
Qed.

Lemma power_delta_bound cur lat : members_ok cur -> members_ok lat ->
  0 <= power_delta cur lat <= 2 ^ 1000.
Proof.
  intros [Hc [Sc Lc]] [Hl [Sl _]]. unfold power_delta.
  pose proof (fold1_bound lat cur 0 Hl Hc) as B1. pose proof (fold2_bound cur lat 0 Hl) as B2.
  assert (0 <= msum lat) by (unfold msum; apply sumZ_nonneg; apply Forall_forall; intros y Hy;
    apply in_map_iff in Hy; destruct Hy as [p [<- Hp]]; rewrite Forall_forall in Hl; apply Hl; exact Hp).
  assert (0 <= msum cur) by (unfold msum; apply sumZ_nonneg; apply Forall_forall; intros y Hy;
    apply in_map_iff in Hy; destruct Hy as [p [<- Hp]]; rewrite Forall_forall in Hc; apply Hc; exact Hp).
  assert (P97 : 2 ^ 97 <= 2 ^ 1000) by (apply Z.pow_le_mono_r; lia).
  assert (Z.of_nat (length cur) * msum lat <= 2 ^ 64 * 2 ^ 32).
  { unfold two64, max_u32 in *. apply Z.mul_le_mono_nonneg; lia. }
  change (2 ^ 64 * 2 ^ 32) with (2 ^ 96) in *. unfold max_u32 in *.
  assert (2 ^ 96 + 2 * 4294967295 <= 2 ^ 97) by (vm_compute; discriminate).
  lia.
Qed.

(* ---- store_set / prune keep the invariant ---- *)

Lemma store_set_Forall (Q : oset_rec -> Prop) x l : Q x -> Forall Q l -> Forall Q (store_set x l).
Proof.
  intros Hx H. induction H as [|y r Hy Hr IH]; cbn [store_set]; [repeat constructor; exact Hx|].
  destruct (or_nonce x <? or_nonce y); [constructor; [exact Hx|constructor; assumption]|].
  destruct (or_nonce x =? or_nonce y); constructor; assumption.
Qed.

Lemma store_set_In x l : In x (store_set x l).
Proof.
  induction l as [|y r IH]; cbn [store_set]; [left; reflexivity|].
  destruct (or_nonce x <? or_nonce y); [left; reflexivity|].
  destruct (or_nonce x =? or_nonce y); [left; reflexivity|right; exact IH].
Qed.

Lemma prune_sets_ok p h w : sets_ok p -> sets_ok (prune p h w).
Proof.
  unfold sets_ok, prune. intro H. destruct (op_last_observed p); [|exact H].
  destruct (h <? w); [exact H|]. cbn [op_sets]. apply Forall_forall. intros r Hr.
  apply filter_In in Hr. rewrite Forall_forall in H. apply H. tauto.
Qed.

(* pruning removes nothing the external chain has not moved past, and nothing younger than the window *)
Lemma prune_keeps p h w r :
  In r (op_sets p) ->
  (match op_last_observed p with None => True | Some lo => lo <= or_nonce r \/ h - w <= or_height r end) ->
  In r (op_sets (prune p h w)).
Proof.
  intros Hin Hk. unfold prune. destruct (op_last_observed p) as [lo|]; [|exact Hin].
  destruct (h <? w); [exact Hin|]. cbn [op_sets]. apply filter_In. split; [exact Hin|].
  unfold prunable. apply negb_true_iff. apply andb_false_iff.
  destruct Hk as [Hk|Hk]; [right|left]; apply Z.ltb_ge; lia.
Qed.

Lemma prune_incl p h w r : In r (op_sets (prune p h w)) -> In r (op_sets p).
Proof.
  unfold prune. destruct (op_last_observed p); [|tauto]. destruct (h <? w); [tauto|].
  cbn [op_sets]. intro H. apply filter_In in H. tauto.
Qed.

Lemma prune_other_fields p h w :
  op_latest (prune p h w) = op_latest p /\ op_last_observed (prune p h w) = op_last_observed p /\
  op_pct (prune p h w) = op_pct p.
Proof. unfold prune. destruct (op_last_observed p) eqn:E; [destruct (h <? w)|]; cbn; rewrite ?E; repeat split; reflexivity. Qed.

(* ---- createOracleSetRequest ---- *)

Lemma latest_set_In p r : latest_set p = Some r -> In r (op_sets p).
Proof. unfold latest_set. intro F. apply find_some in F. tauto. Qed.

Definition created (p p' : ophase) (m : list (Z * Z)) (h : Z) : Prop :=
  op_latest p' = op_latest p + 1 /\
  In {| or_nonce := op_latest p + 1; or_height := h; or_members := m |} (op_sets p') /\ m <> [].

Lemma create_request_ok p m h sl p' :
  create_request p m h sl = Ok p' ->
  (p' = p \/ created p p' m h) /\ op_last_observed p' = op_last_observed p /\ op_pct p' = op_pct p.
Proof.
  unfold create_request. destruct (need_request _ _ _ _) as [[|]|]; [| |discriminate].
  - destruct m as [|x r] eqn:M; intro E; inversion E; subst p'; [auto|].
    split; [right|cbn; auto]. unfold created. cbn [op_latest op_sets]. repeat split; [apply store_set_In|discriminate].
  - intro E; inversion E; auto.
Qed.

Lemma create_request_sets_ok p m h sl p' :
  sets_ok p -> members_ok m -> create_request p m h sl = Ok p' -> sets_ok p'.
Proof.
  unfold create_request. intros Hs Hm. destruct (need_request _ _ _ _) as [[|]|]; [| |discriminate].
  - destruct m as [|x r] eqn:M; intro E; inversion E; subst p'; [exact Hs|].
    unfold sets_ok. cbn [op_sets]. apply store_set_Forall; [exact Hm|exact Hs].
  - intro E; inversion E; subst; exact Hs.
Qed.

Lemma need_request_total cur latest sl pct :
  members_ok cur -> (forall lm, latest = Some lm -> members_ok lm) ->
  exists b, need_request cur latest sl pct = Ok b.
Proof.
  intros Hc Hl. unfold need_request. destruct latest as [lm|]; [|eauto].
  destruct sl; [eauto|]. unfold power_diff.
  pose proof (power_diff_parses_of_delta _ (power_delta_bound cur lm Hc (Hl lm eq_refl))) as H.
  destruct (dec_of_fmt8 _); [eauto|congruence].
Qed.

Lemma create_request_total p m h sl :
  sets_ok p -> members_ok m -> exists p', create_request p m h sl = Ok p'.
Proof.
  intros Hs Hm. unfold create_request.
  destruct (need_request_total m (option_map or_members (latest_set p)) sl (op_pct p) Hm) as [b E].
  { intros lm H. destruct (latest_set p) as [r|] eqn:L; [|discriminate]. cbn in H. inversion H; subst lm.
    apply latest_set_In in L. unfold sets_ok in Hs. rewrite Forall_forall in Hs. apply Hs; exact L. }
  rewrite E. destruct b; [destruct m|]; eauto.
Qed.

(* ---- the whole EndBlocker, one block ---- *)

Theorem endblock_full_total a s p h :
  all_addrb a = true -> powers_ok (oracles s) -> sets_ok p ->
  exists r m p', endblock_full a s p h = Ok (r, m, p') /\ sets_ok p' /\
                 op_latest p <= op_latest p' <= op_latest p + 1.
Proof.
  intros Ha Hp Hs. unfold endblock_full.
  destruct (endblock_total a s h (all_addrb_spec a Ha) Hp) as [[r m] E]. rewrite E.
  assert (Hm : members_ok m).
  { unfold endblock in E. destruct (slashing a s h) as [r0|] eqn:S; [|discriminate].
    destruct (current_oracle_set (r_oracles r0)) as [m0|] eqn:C; [|discriminate]. inversion E; subst r0 m0.
    eapply current_oracle_set_members_ok; [|exact C].
    unfold powers_ok in *. rewrite (slashing_keeps_powers a s h r (all_addrb_spec a Ha) S). exact Hp. }
  destruct (create_request_total p m h (r_last_slash_height r =? h) Hs Hm) as [p1 C]. rewrite C.
  exists r, m, (prune p1 h (window s)). split; [reflexivity|]. split.
  - apply prune_sets_ok. eapply create_request_sets_ok; eassumption.
  - destruct (prune_other_fields p1 h (window s)) as [-> _].
    destruct (create_request_ok _ _ _ _ _ C) as [[->|[L _]] _]; lia.
Qed.

(* ---- every block of every history ---- *)

(* what may differ between two end blockers: the slashing-relevant state (arbitrary), the height, the last
   observed oracle-set nonce and the change-percent parameter; the stored sets and the latest nonce are written
   by the end blocker only (writer call sites: gen_oset_writers, regenerated from source) *)
Record block_in := { b_state : xstate; b_h : Z; b_observed : option Z; b_pct : Z }.

Definition with_env (p : ophase) (b : block_in) : ophase :=
  {| op_sets := op_sets p; op_latest := op_latest p; op_last_observed := b_observed b; op_pct := b_pct b |}.

Fixpoint run_blocks (a : slash_args) (p : ophase) (bs : list block_in) : outcome ophase :=
  match bs with
  | [] => Ok p
  | b :: r => match endblock_full a (b_state b) (with_env p b) (b_h b) with
              | Panic => Panic
              | Ok (_, _, p') => run_blocks a p' r
              end
  end.

Definition genesis_phase : ophase := {| op_sets := []; op_latest := 0; op_last_observed := None; op_pct := 10 ^ 17 |}.

Theorem run_blocks_total a bs : forall p,
  all_addrb a = true -> sets_ok p -> Forall (fun b => powers_ok (oracles (b_state b))) bs ->
  exists p', run_blocks a p bs = Ok p' /\ sets_ok p' /\ op_latest p <= op_latest p'.
Proof.
  induction bs as [|b r IH]; intros p Ha Hs Hb; cbn [run_blocks].
  - exists p. repeat split; [exact Hs|lia].
  - inversion Hb as [|b' r' Hb1 Hb2]; subst.
    destruct (endblock_full_total a (b_state b) (with_env p b) (b_h b) Ha Hb1 Hs) as [x [m [p1 [E [S1 L1]]]]].
    rewrite E. destruct (IH p1 Ha S1 Hb2) as [p' [E' [S' L']]]. exists p'. cbn [with_env op_latest] in L1.
    repeat split; [exact E'|exact S'|lia].
Qed.

Corollary run_blocks_never_panics a bs :
  all_addrb a = true -> Forall (fun b => powers_ok (oracles (b_state b))) bs ->
  run_blocks a genesis_phase bs <> Panic.
Proof.
  intros Ha Hb. destruct (run_blocks_total a bs genesis_phase Ha) as [p' [E _]]; [constructor|exact Hb|].
  rewrite E. discriminate.
Qed.

(* non-vacuity: a two-oracle chain creates its first oracle set, an oracle is slashed, a second set is created,
   the first is observed and pruned once the window has passed *)
Definition ex_o (id : Z) (on : bool) (pw : Z) : oracle :=
  {| o_id := id; o_online := on; o_start := 1; o_slash_times := 0; o_power := pw |}.
Definition ex_st (os : list oracle) (sets : list obj) : xstate :=
  {| oracles := os; osets := sets; last_slashed_oset := 0; batches := []; last_slashed_batch_block := 0;
     bcalls := []; last_slashed_bcall := 0; last_slash_height := 0; window := 3 |}.
Definition ex_blocks : list block_in :=
  [ {| b_state := ex_st [ex_o 0 true 200; ex_o 1 true 100] []; b_h := 2; b_observed := None; b_pct := 10 ^ 17 |};
    {| b_state := ex_st [ex_o 0 true 200; ex_o 1 true 100] [{| ob_key := 1; ob_height := 2; ob_confirms := [0] |}];
       b_h := 6; b_observed := None; b_pct := 10 ^ 17 |};
    {| b_state := ex_st [ex_o 0 true 200; ex_o 1 false 100] []; b_h := 12; b_observed := Some 2; b_pct := 10 ^ 17 |} ].

Lemma ex_blocks_run :
  exists p, run_blocks good_args genesis_phase ex_blocks = Ok p /\
            map or_nonce (op_sets p) = [2] /\ op_latest p = 2 /\
            option_map or_members (latest_set p) = Some [(0, 4294967295)].
Proof. eexists. split; [vm_compute; reflexivity|]. repeat split. Qed.
