(* C17 — proofs: every consumer of unordered iteration modelled in model/M_Perm.v computes the same
   result for every permutation of the entries. *)
From Coq Require Import ZArith Arith List Bool Lia Permutation Sorted.
From FxV Require Import model.M_NondetTypes model.M_NondetAllow gen.Gen_NondetSites model.M_Perm model.M_State proofs.P_State.
Import ListNotations.
Open Scope Z_scope.

(* ------------------------------------------------------------------ *)
(* generic: a fold whose step commutes is permutation invariant *)

Lemma fold_left_perm_comm : forall (A B : Type) (f : A -> B -> A),
  (forall a x y, f (f a x) y = f (f a y) x) ->
  forall l l', Permutation l l' -> forall a, fold_left f l a = fold_left f l' a.
Proof.
  intros A B f C l l' P. induction P; intro a0; simpl.
  - reflexivity.
  - apply IHP.
  - rewrite C. reflexivity.
  - rewrite IHP1. apply IHP2.
Qed.

(* ------------------------------------------------------------------ *)
(* 1. PowerDiff *)

Lemma sum_abs_acc : forall vals a, fold_left (fun acc v => acc + Z.abs v) vals a = a + sum_abs vals.
Proof.
  unfold sum_abs. induction vals as [|v r IH]; intro a; simpl; [lia|].
  rewrite IH. rewrite (IH (Z.abs v)). lia.
Qed.

Lemma sum_abs_nonneg : forall vals, 0 <= sum_abs vals.
Proof.
  induction vals as [|v r IH]; [unfold sum_abs; simpl; lia|].
  unfold sum_abs in *. simpl. rewrite sum_abs_acc. unfold sum_abs. lia.
Qed.

Lemma sum_abs_cons : forall v r, sum_abs (v :: r) = Z.abs v + sum_abs r.
Proof. intros. unfold sum_abs at 1. simpl. rewrite sum_abs_acc. lia. Qed.

Lemma sum_abs_perm : forall l l', Permutation l l' -> sum_abs l = sum_abs l'.
Proof. intros. unfold sum_abs. apply fold_left_perm_comm; [intros; lia|assumption]. Qed.

Lemma sum_abs_bound : forall B vals, 0 <= B -> Forall (fun v => Z.abs v <= B) vals ->
  sum_abs vals <= B * Z.of_nat (length vals).
Proof.
  intros B vals HB F. induction F as [|v r Hv _ IH].
  - unfold sum_abs. simpl. lia.
  - rewrite sum_abs_cons. cbn [length]. rewrite Nat2Z.inj_succ. lia.
Qed.

Section FloatExact.
  Variable rnd : Z -> Z.
  Hypothesis rnd_exact : forall z, Z.abs z <= two53 -> rnd z = z.

  Lemma fsum_exact_acc : forall vals a, 0 <= a -> a + sum_abs vals <= two53 ->
    fold_left (fun acc v => rnd (acc + Z.abs (rnd v))) vals a = a + sum_abs vals.
  Proof.
    induction vals as [|v r IH]; intros a Ha Hb.
    - simpl. unfold sum_abs. simpl. lia.
    - rewrite sum_abs_cons in Hb. pose proof (sum_abs_nonneg r) as Hr.
      cbn [fold_left].
      assert (Hv : rnd v = v) by (apply rnd_exact; lia).
      rewrite Hv.
      assert (Hs : rnd (a + Z.abs v) = a + Z.abs v) by (apply rnd_exact; lia).
      rewrite Hs. rewrite IH; [rewrite sum_abs_cons; lia|lia|lia].
  Qed.

  (* all partial sums are integers below 2^53: the float accumulation is exact *)
  Lemma fsum_exact : forall vals, sum_abs vals <= two53 -> fsum rnd vals = sum_abs vals.
  Proof. intros. unfold fsum. rewrite fsum_exact_acc; lia. Qed.

  Lemma fsum_perm : forall vals vals', Permutation vals vals' -> sum_abs vals <= two53 ->
    fsum rnd vals' = fsum rnd vals.
  Proof.
    intros vals vals' P H. rewrite (fsum_exact vals H).
    rewrite fsum_exact; [symmetry; apply sum_abs_perm; exact P|].
    rewrite <- (sum_abs_perm _ _ P). exact H.
  Qed.
End FloatExact.

(* the bound comes from the code's constants: at most 2*MaxOracleSize map entries, each of
   magnitude at most 2^32 (normalised powers) *)
Lemma power_sum_below_two53 : forall vals n,
  Forall (fun v => Z.abs v <= two32) vals -> Z.of_nat (length vals) <= 2 * n -> 0 <= n <= 2 ^ 20 ->
  sum_abs vals <= two53.
Proof.
  intros vals n F L N.
  pose proof (sum_abs_bound two32 vals ltac:(unfold two32; lia) F) as B.
  assert (two32 * Z.of_nat (length vals) <= two32 * (2 * 2 ^ 20)) by (apply Z.mul_le_mono_nonneg_l; [unfold two32; lia|lia]).
  assert (E : two32 * (2 * 2 ^ 20) = two53) by (vm_compute; reflexivity).
  lia.
Qed.

Lemma max_oracle_size_small : 0 <= gen_max_oracle_size <= 2 ^ 20.
Proof. vm_compute. split; discriminate. Qed.

Theorem power_diff_order_irrelevant : forall (rnd : Z -> Z),
  (forall z, Z.abs z <= two53 -> rnd z = z) ->
  forall vals vals', Permutation vals vals' ->
  Forall (fun v => Z.abs v <= two32) vals ->
  Z.of_nat (length vals) <= 2 * gen_max_oracle_size ->
  fsum rnd vals = sum_abs vals /\ fsum rnd vals' = fsum rnd vals.
Proof.
  intros rnd R vals vals' P F L.
  assert (S : sum_abs vals <= two53) by (eapply power_sum_below_two53; [exact F|exact L|exact max_oracle_size_small]).
  split; [apply fsum_exact; assumption|apply fsum_perm; assumption].
Qed.

(* the map PowerDiff builds has at most |b| + |c| entries *)
Lemma pm_set_length : forall m k v, (length (pm_set m k v) <= S (length m))%nat.
Proof.
  induction m as [|[k' v'] r IH]; intros k v; simpl; [lia|].
  destruct (k =? k'); simpl; [lia|]. specialize (IH k v). lia.
Qed.

Lemma powers_of_length : forall b c, (length (powers_of b c) <= length b + length c)%nat.
Proof.
  intros b c. unfold powers_of.
  assert (G1 : forall l m, (length (fold_left (fun m bv => pm_set m (fst bv) (snd bv)) l m) <= length m + length l)%nat).
  { induction l as [|x l IH]; intro m; simpl; [lia|]. specialize (IH (pm_set m (fst x) (snd x))).
    pose proof (pm_set_length m (fst x) (snd x)). lia. }
  assert (G2 : forall l m, (length (fold_left (fun m bv => match pm_get m (fst bv) with
                                                            | Some v => pm_set m (fst bv) (v - snd bv)
                                                            | None => pm_set m (fst bv) (- snd bv) end) l m) <= length m + length l)%nat).
  { induction l as [|x l IH]; intro m; simpl; [lia|].
    destruct (pm_get m (fst x)) as [v|].
    - specialize (IH (pm_set m (fst x) (v - snd x))). pose proof (pm_set_length m (fst x) (v - snd x)). lia.
    - specialize (IH (pm_set m (fst x) (- snd x))). pose proof (pm_set_length m (fst x) (- snd x)). lia. }
  cbv zeta. eapply Nat.le_trans; [apply G2|]. specialize (G1 b []). cbn [length] in G1.
  apply Nat.add_le_mono_r. exact G1.
Qed.

(* ------------------------------------------------------------------ *)
(* 2. collect, then sort by a unique key *)

Section SortUnique.
  Variable A : Type.
  Variable key : A -> Z.
  Definition klt (a b : A) : Prop := key a < key b.
  Definition kle (a b : A) : Prop := key a <= key b.

  (* two strictly ascending lists with the same elements are the same list *)
  Lemma sorted_perm_unique : forall l1 l2,
    StronglySorted klt l1 -> StronglySorted klt l2 -> Permutation l1 l2 -> l1 = l2.
  Proof.
    induction l1 as [|a l1 IH]; intros l2 S1 S2 P.
    - apply Permutation_nil in P. congruence.
    - destruct l2 as [|b l2]; [apply Permutation_sym, Permutation_nil in P; discriminate|].
      inversion S1 as [|? ? S1' F1]; subst. inversion S2 as [|? ? S2' F2]; subst.
      assert (E : a = b).
      { assert (Ia : In a (b :: l2)) by (eapply Permutation_in; [exact P|left; reflexivity]).
        assert (Ib : In b (a :: l1)) by (eapply Permutation_in; [apply Permutation_sym; exact P|left; reflexivity]).
        destruct Ia as [Ea|Ia]; [congruence|]. destruct Ib as [Eb|Ib]; [congruence|].
        rewrite Forall_forall in F1, F2. specialize (F1 b Ib). specialize (F2 a Ia). unfold klt in *. lia. }
      subst b. f_equal. apply IH; auto. eapply Permutation_cons_inv. exact P.
  Qed.

  Lemma le_sorted_nodup_strict : forall l,
    StronglySorted kle l -> NoDup (map key l) -> StronglySorted klt l.
  Proof.
    induction l as [|a l IH]; intros S N; [constructor|].
    inversion S as [|? ? S' F]; subst. simpl in N. inversion N as [|? ? Nin N']; subst.
    constructor; [apply IH; assumption|].
    rewrite Forall_forall in *. intros x Hx. specialize (F x Hx). unfold kle, klt in *.
    assert (key a <> key x) by (intro E; apply Nin; rewrite E; apply in_map; exact Hx). lia.
  Qed.

  (* ANY sorting function *)
  Variable srt : list A -> list A.
  Hypothesis srt_perm : forall l, Permutation (srt l) l.
  Hypothesis srt_sorted : forall l, NoDup (map key l) -> StronglySorted klt (srt l).

  Theorem sort_after_collect_deterministic : forall l l',
    NoDup (map key l) -> Permutation l l' -> srt l = srt l'.
  Proof.
    intros l l' N P.
    assert (N' : NoDup (map key l')) by (eapply Permutation_NoDup; [apply Permutation_map; exact P|exact N]).
    apply sorted_perm_unique; [apply srt_sorted; exact N|apply srt_sorted; exact N'|].
    eapply Permutation_trans; [apply srt_perm|]. eapply Permutation_trans; [exact P|]. apply Permutation_sym, srt_perm.
  Qed.
End SortUnique.

(* insertion sort is such a function (so the hypotheses above are satisfiable), and it is the one the
   executable batch-fee model uses *)
Section ISort.
  Variable A : Type.
  Variable key : A -> Z.

  Lemma insert_perm : forall x l, Permutation (insert A key x l) (x :: l).
  Proof.
    induction l as [|y r IH]; simpl; [apply Permutation_refl|].
    destruct (key x <=? key y); [apply Permutation_refl|].
    eapply Permutation_trans; [apply perm_skip; exact IH|apply perm_swap].
  Qed.

  Lemma isort_perm : forall l, Permutation (isort A key l) l.
  Proof.
    induction l as [|x r IH]; simpl; [constructor|].
    eapply Permutation_trans; [apply insert_perm|apply perm_skip; exact IH].
  Qed.

  Lemma insert_sorted : forall x l, StronglySorted (kle A key) l -> StronglySorted (kle A key) (insert A key x l).
  Proof.
    induction l as [|y r IH]; intro S; simpl; [repeat constructor|].
    inversion S as [|? ? S' F]; subst.
    destruct (key x <=? key y) eqn:E.
    - apply Z.leb_le in E. constructor; [exact S|]. constructor; [exact E|].
      rewrite Forall_forall in *. intros z Hz. specialize (F z Hz). unfold kle in *. lia.
    - apply Z.leb_gt in E. constructor; [apply IH; exact S'|].
      rewrite Forall_forall in *. intros z Hz.
      assert (Hz' : In z (x :: r)) by (eapply Permutation_in; [apply insert_perm|exact Hz]).
      destruct Hz' as [->|Hz']; [unfold kle; lia|apply F; exact Hz'].
  Qed.

  Lemma isort_sorted : forall l, StronglySorted (kle A key) (isort A key l).
  Proof. induction l as [|x r IH]; simpl; [constructor|apply insert_sorted; exact IH]. Qed.

  Lemma isort_strict : forall l, NoDup (map key l) -> StronglySorted (klt A key) (isort A key l).
  Proof.
    intros l N. apply le_sorted_nodup_strict; [apply isort_sorted|].
    eapply Permutation_NoDup; [apply Permutation_map, Permutation_sym, isort_perm|exact N].
  Qed.

  Theorem isort_deterministic : forall l l', NoDup (map key l) -> Permutation l l' -> isort A key l = isort A key l'.
  Proof. apply sort_after_collect_deterministic; [apply isort_perm|apply isort_strict]. Qed.
End ISort.

(* GetAllBatchFees: whatever order the map yields its entries in, the sorted result is the same *)
Theorem all_batch_fees_deterministic : forall (entries entries' : list fee_entry),
  NoDup (map fst entries) -> Permutation entries entries' ->
  isort fee_entry fst entries = isort fee_entry fst entries'.
Proof. apply isort_deterministic. Qed.

(* the map createBatchFees builds has one entry per contract: its keys are distinct *)
Lemma fm_add_keys : forall m c f a mx k, In k (map fst (fm_add m c f a mx)) -> k = c \/ In k (map fst m).
Proof.
  induction m as [|[c' [f' [n' a']]] r IH]; intros c f a mx k H; simpl in *.
  - destruct H as [H|[]]; auto.
  - destruct (c =? c') eqn:E.
    + destruct (n' <? mx); simpl in H; destruct H as [H|H]; auto.
    + simpl in H. destruct H as [H|H]; [auto|]. apply IH in H. destruct H; auto.
Qed.

Lemma fm_add_nodup : forall m c f a mx, NoDup (map fst m) -> NoDup (map fst (fm_add m c f a mx)).
Proof.
  induction m as [|[c' [f' [n' a']]] r IH]; intros c f a mx N; simpl.
  - constructor; [intros []|constructor].
  - inversion N as [|? ? Nin N']; subst. destruct (c =? c') eqn:E.
    + destruct (n' <? mx); simpl; constructor; assumption.
    + simpl. constructor; [|apply IH; exact N'].
      intro H. apply fm_add_keys in H. destruct H as [H|H]; [|contradiction].
      apply Z.eqb_neq in E. congruence.
Qed.

Lemma create_batch_fees_nodup : forall mx pool, NoDup (map fst (create_batch_fees mx pool)).
Proof.
  intros mx pool. unfold create_batch_fees.
  assert (G : forall l m, NoDup (map fst m) ->
            NoDup (map fst (fold_left (fun m tx => fm_add m (fst tx) (fst (snd tx)) (snd (snd tx)) mx) l m))).
  { induction l as [|x l IH]; intros m N; simpl; [exact N|]. apply IH. apply fm_add_nodup. exact N. }
  apply G. constructor.
Qed.

(* ------------------------------------------------------------------ *)
(* 3. gov tally *)

Lemma tadd_comm_step : forall a x y, tadd (tadd a x) y = tadd (tadd a y) x.
Proof. intros [] [] []. unfold tadd. simpl. f_equal; lia. Qed.

Theorem tally_order_irrelevant : forall (mq : Z -> Z -> Z -> Z) (mul : Z -> Z -> Z) acc vals vals',
  Permutation vals vals' -> tally_validators mq mul acc vals = tally_validators mq mul acc vals'.
Proof.
  intros. unfold tally_validators.
  apply (fold_left_perm_comm tally gov_val (fun a v => tadd a (contrib mq mul v))); [|assumption].
  intros. apply tadd_comm_step.
Qed.

(* the shape "accumulate-exact" in general: every iteration adds a per-element contribution [g x] into the
   accumulators with an addition that is commutative and associative (exact integer / LegacyDec addition is;
   floating point addition is not) — whatever the accumulators and the contribution are *)
Theorem accumulate_order_irrelevant : forall (A S : Type) (add : S -> S -> S) (g : A -> S),
  (forall a b, add a b = add b a) -> (forall a b c, add (add a b) c = add a (add b c)) ->
  forall acc l l', Permutation l l' ->
  fold_left (fun a x => add a (g x)) l acc = fold_left (fun a x => add a (g x)) l' acc.
Proof.
  intros A S add g C As acc l l' P.
  apply (fold_left_perm_comm S A (fun a x => add a (g x))); [|exact P].
  intros a x y. rewrite !As. f_equal. apply C.
Qed.

(* ... of which the gov tally is the instance with five Z accumulators *)
Lemma tadd_comm : forall a b, tadd a b = tadd b a.
Proof. intros [] []. unfold tadd. simpl. f_equal; lia. Qed.
Lemma tadd_assoc : forall a b c, tadd (tadd a b) c = tadd a (tadd b c).
Proof. intros [] [] []. unfold tadd. simpl. f_equal; lia. Qed.

(* ------------------------------------------------------------------ *)
(* PowerDiff, the integer-exactness argument from the normalisation alone: the members of an oracle set carry
   non-negative powers that sum to at most MaxUint32 (GetCurrentOracleSet divides by the total; C07's invariant
   members_ok), so the sum of |differences| is at most sum(b) + sum(c) <= 2^33 — every partial sum of every
   iteration order is an integer below 2^53 *)
Definition psum (m : list member) : Z := fold_right (fun p a => snd p + a) 0 m.

Lemma sum_abs_map_snd_cons : forall k v (m : pmap), sum_abs (map snd ((k, v) :: m)) = Z.abs v + sum_abs (map snd m).
Proof. intros. cbn [map snd]. apply sum_abs_cons. Qed.

Lemma pm_set_sum : forall m k v,
  sum_abs (map snd (pm_set m k v)) =
  sum_abs (map snd m) - Z.abs (match pm_get m k with Some o => o | None => 0 end) + Z.abs v.
Proof.
  induction m as [|[k' v'] r IH]; intros k v; cbn [pm_set pm_get].
  - rewrite sum_abs_map_snd_cons. unfold sum_abs; simpl. lia.
  - destruct (k =? k') eqn:E.
    + rewrite !sum_abs_map_snd_cons. lia.
    + rewrite !sum_abs_map_snd_cons. rewrite IH. lia.
Qed.

Lemma powers_of_sum_bound : forall b c,
  Forall (fun p => 0 <= snd p) b -> Forall (fun p => 0 <= snd p) c ->
  sum_abs (map snd (powers_of b c)) <= psum b + psum c.
Proof.
  intros b c Hb Hc. unfold powers_of.
  assert (G1 : forall l m, Forall (fun p => 0 <= snd p) l ->
            sum_abs (map snd (fold_left (fun m bv => pm_set m (fst bv) (snd bv)) l m)) <= sum_abs (map snd m) + psum l).
  { induction l as [|x l IH]; intros m H; cbn [fold_left psum fold_right]; [lia|].
    inversion H as [|? ? Hx Hl]; subst. specialize (IH (pm_set m (fst x) (snd x)) Hl).
    rewrite pm_set_sum in IH. fold (psum l).
    pose proof (Z.abs_nonneg (match pm_get m (fst x) with Some o => o | None => 0 end)). lia. }
  assert (G2 : forall l m, Forall (fun p => 0 <= snd p) l ->
            sum_abs (map snd (fold_left (fun m bv => match pm_get m (fst bv) with
                                                     | Some v => pm_set m (fst bv) (v - snd bv)
                                                     | None => pm_set m (fst bv) (- snd bv) end) l m)) <= sum_abs (map snd m) + psum l).
  { induction l as [|x l IH]; intros m H; cbn [fold_left psum fold_right]; [lia|].
    inversion H as [|? ? Hx Hl]; subst. fold (psum l).
    destruct (pm_get m (fst x)) as [v|] eqn:E.
    - specialize (IH (pm_set m (fst x) (v - snd x)) Hl). rewrite pm_set_sum, E in IH. lia.
    - specialize (IH (pm_set m (fst x) (- snd x)) Hl). rewrite pm_set_sum, E in IH. simpl in IH. lia. }
  cbv zeta. eapply Z.le_trans; [apply G2; exact Hc|].
  specialize (G1 b [] Hb). unfold sum_abs in G1 at 2. simpl in G1. lia.
Qed.

Theorem power_diff_exact_from_normalisation : forall (rnd : Z -> Z),
  (forall z, Z.abs z <= two53 -> rnd z = z) ->
  forall b c, Forall (fun p => 0 <= snd p) b -> Forall (fun p => 0 <= snd p) c ->
  psum b <= max_uint32 -> psum c <= max_uint32 ->
  forall order, Permutation (map snd (powers_of b c)) order ->
  (* every partial sum of every iteration order is an exact integer below 2^53 ... *)
  (forall n, sum_abs (firstn n order) <= two53 /\ fsum rnd (firstn n order) = sum_abs (firstn n order)) /\
  (* ... so the accumulated value is the exact sum, whatever the order *)
  fsum rnd order = power_diff_sum b c.
Proof.
  intros rnd R b c Hb Hc Sb Sc order P.
  pose proof (powers_of_sum_bound b c Hb Hc) as B.
  assert (T : sum_abs order <= two53).
  { rewrite <- (sum_abs_perm _ _ P). unfold max_uint32, two53 in *. lia. }
  split.
  - intro n. assert (L : sum_abs (firstn n order) <= sum_abs order).
    { rewrite <- (firstn_skipn n order) at 2. unfold sum_abs at 2. rewrite fold_left_app. rewrite sum_abs_acc.
      pose proof (sum_abs_nonneg (skipn n order)). fold (sum_abs (firstn n order)). lia. }
    split; [lia|apply fsum_exact; [exact R|lia]].
  - rewrite fsum_exact; [|exact R|exact T]. unfold power_diff_sum. symmetry. apply sum_abs_perm. exact P.
Qed.

(* ------------------------------------------------------------------ *)
(* 4./5. map rebuild and key deletion (pointwise) *)

Lemma fold_upd_ext : forall l (m m' : fmap), (forall k, m k = m' k) ->
  forall k, fold_left (fun m e => fm_upd m (fst e) (snd e)) l m k = fold_left (fun m e => fm_upd m (fst e) (snd e)) l m' k.
Proof.
  induction l as [|x l IH]; intros m m' E k; simpl; [apply E|].
  apply IH. intro k0. unfold fm_upd. destruct (k0 =? fst x); auto.
Qed.

Lemma rebuild_perm_gen : forall l l', Permutation l l' -> NoDup (map fst l) ->
  forall m k, fold_left (fun m e => fm_upd m (fst e) (snd e)) l m k = fold_left (fun m e => fm_upd m (fst e) (snd e)) l' m k.
Proof.
  intros l l' P. induction P; intros N m k.
  - reflexivity.
  - simpl. apply IHP. simpl in N. inversion N; assumption.
  - simpl. apply fold_upd_ext. intro k0. unfold fm_upd.
    simpl in N. inversion N as [|? ? Nin _]; subst.
    destruct (k0 =? fst x) eqn:E1; destruct (k0 =? fst y) eqn:E2; auto.
    apply Z.eqb_eq in E1. apply Z.eqb_eq in E2. exfalso. apply Nin. left. congruence.
  - rewrite IHP1 by exact N. apply IHP2.
    eapply Permutation_NoDup; [apply Permutation_map; exact P1|exact N].
Qed.

Theorem map_rebuild_order_irrelevant : forall entries entries',
  NoDup (map fst entries) -> Permutation entries entries' ->
  forall k, rebuild entries k = rebuild entries' k.
Proof. intros. unfold rebuild. apply rebuild_perm_gen; assumption. Qed.

Lemma fold_del_ext : forall l (m m' : fmap), (forall k, m k = m' k) ->
  forall k, fold_left fm_del l m k = fold_left fm_del l m' k.
Proof.
  induction l as [|x l IH]; intros m m' E k; simpl; [apply E|].
  apply IH. intro k0. unfold fm_del. destruct (k0 =? x); auto.
Qed.

Theorem delete_order_irrelevant : forall keys keys', Permutation keys keys' ->
  forall m k, delete_all m keys k = delete_all m keys' k.
Proof.
  intros keys keys' P. unfold delete_all. induction P; intros m k.
  - reflexivity.
  - simpl. apply IHP.
  - simpl. apply fold_del_ext. intro k0. unfold fm_del. destruct (k0 =? x); destruct (k0 =? y); auto.
  - rewrite IHP1. apply IHP2.
Qed.

(* 6. membership *)
Theorem membership_order_irrelevant : forall x l l', Permutation l l' -> member_of x l = member_of x l'.
Proof.
  intros x l l' P. unfold member_of. induction P; simpl.
  - reflexivity.
  - rewrite IHP. reflexivity.
  - destruct (x =? y); destruct (x =? x0); reflexivity.
  - congruence.
Qed.

(* ------------------------------------------------------------------ *)
(* the allow-table: what each discharge class claims, and that the claim is a theorem *)

Definition discharge_stmt (d : discharge) : Prop :=
  match d with
  | D_SortUnique =>
      forall (A : Type) (key : A -> Z) (srt : list A -> list A),
        (forall l, Permutation (srt l) l) ->
        (forall l, NoDup (map key l) -> StronglySorted (klt A key) (srt l)) ->
        forall l l', NoDup (map key l) -> Permutation l l' -> srt l = srt l'
  | D_CommSum =>
      forall (A S : Type) (add : S -> S -> S) (g : A -> S),
        (forall a b, add a b = add b a) -> (forall a b c, add (add a b) c = add a (add b c)) ->
        forall acc l l', Permutation l l' ->
        fold_left (fun a x => add a (g x)) l acc = fold_left (fun a x => add a (g x)) l' acc
  | D_ExactFloatSum =>
      forall (rnd : Z -> Z), (forall z, Z.abs z <= two53 -> rnd z = z) ->
        forall vals vals', Permutation vals vals' ->
        Forall (fun v => Z.abs v <= two32) vals ->
        Z.of_nat (length vals) <= 2 * gen_max_oracle_size ->
        fsum rnd vals = sum_abs vals /\ fsum rnd vals' = fsum rnd vals
  | D_MapRebuild =>
      forall entries entries', NoDup (map fst entries) -> Permutation entries entries' ->
        forall k, rebuild entries k = rebuild entries' k
  | D_PureFloat => True     (* classification by reading: see model/M_NondetAllow.v *)
  | D_Telemetry => True     (* classification by reading *)
  | D_WiringOnly => writers_wiring_only = true   (* finite check over the generated writer / caller lists *)
  end.

Lemma discharge_sound : forall d, discharge_stmt d.
Proof.
  intros []; simpl; auto; try (exact (proj1 state_wiring_only)).
  - intros. eapply sort_after_collect_deterministic; eauto.
  - intros. apply accumulate_order_irrelevant; assumption.
  - intros. apply power_diff_order_irrelevant; assumption.
  - intros. apply map_rebuild_order_irrelevant; assumption.
Qed.

Lemma sites_allowed : all_sites_allowed gen_sites = true.
Proof. vm_compute. reflexivity. Qed.

Theorem all_sites_discharged : forall s, In s gen_sites ->
  exists d, lookup_allow s = Some d /\ discharge_fits d s = true /\ discharge_stmt d.
Proof.
  intros s Hs. pose proof sites_allowed as H. unfold all_sites_allowed in H.
  rewrite forallb_forall in H. specialize (H s Hs).
  destruct (lookup_allow s) as [d|] eqn:E; [|discriminate].
  exists d. split; [reflexivity|]. split; [exact H|apply discharge_sound].
Qed.

(* the sources contain no wall-clock reads, no math/rand, no goroutines or selects at all *)
Definition banned_kind (k : site_kind) : bool :=
  match k with K_timenow | K_rand | K_goroutine | K_select | K_mapkeys | K_stack | K_ptrfmt => true | _ => false end.

Lemma no_banned_sites : forallb (fun s => negb (banned_kind (s_kind s))) gen_sites = true.
Proof. vm_compute. reflexivity. Qed.

(* non-vacuity *)
Definition ex_b : list member := [(1, 3000000000); (2, 1294967295)].
Definition ex_c : list member := [(2, 294967295); (3, 4000000000)].

Lemma perm_examples :
  power_diff_sum ex_b ex_c = 8000000000 /\
  fsum (fun z => z) (map snd (powers_of ex_b ex_c)) = fsum (fun z => z) (rev (map snd (powers_of ex_b ex_c))) /\
  all_batch_fees 2 [(7, (5, 100)); (7, (4, 50)); (7, (3, 10)); (2, (9, 1))] = [(2, (9, (1, 1))); (7, (9, (2, 150)))] /\
  isort fee_entry fst [(7, (9, (2, 150))); (2, (9, (1, 1)))] = isort fee_entry fst [(2, (9, (1, 1))); (7, (9, (2, 150)))] /\
  tally_validators (fun s b t => s * b / t) (fun p w => p * w / 100) tzero
     [mk_gov_val 100 10 50 [(1, 100)]; mk_gov_val 200 0 80 []; mk_gov_val 300 30 90 [(1, 60); (3, 40)]] =
  tally_validators (fun s b t => s * b / t) (fun p w => p * w / 100) tzero
     [mk_gov_val 300 30 90 [(1, 60); (3, 40)]; mk_gov_val 100 10 50 [(1, 100)]; mk_gov_val 200 0 80 []] /\
  t_total (tally_validators (fun s b t => s * b / t) (fun p w => p * w / 100) tzero
     [mk_gov_val 100 10 50 [(1, 100)]; mk_gov_val 200 0 80 []; mk_gov_val 300 30 90 [(1, 60); (3, 40)]]) = 126 /\
  (0 < Z.of_nat (length gen_sites)) /\ (20 <= gen_packages_checked).
Proof. vm_compute. repeat split; try reflexivity; discriminate. Qed.

(* ------------------------------------------------------------------ *)
(* UpdateProposalOracles: the two maps are only indexed, so the order in which they were filled (the order of
   the two address lists) is irrelevant *)
Lemma member_of_perm_ext : forall l l', Permutation l l' -> forall x, member_of x l = member_of x l'.
Proof. intros. apply membership_order_irrelevant. assumption. Qed.

Theorem upo_order_irrelevant : forall max_size all old old' new new',
  Permutation old old' -> Permutation new new' ->
  upo max_size all old new = upo max_size all old' new'.
Proof.
  intros max_size all old old' new new' Po Pn. unfold upo.
  rewrite (Permutation_length Pn).
  assert (E : filter (fun o => negb (member_of (o_addr o) new) && member_of (o_addr o) old) all =
              filter (fun o => negb (member_of (o_addr o) new') && member_of (o_addr o) old') all).
  { apply filter_ext. intro o. rewrite (member_of_perm_ext _ _ Pn), (member_of_perm_ext _ _ Po). reflexivity. }
  rewrite E. reflexivity.
Qed.

(* pruneAttestations: the remaining attestations do not depend on the order in which the collected nonces are
   deleted, nor on the order the attestations were walked in *)
Lemma fold_del_absent : forall dels (m : fmap) k, m k = None -> fold_left fm_del dels m k = None.
Proof.
  induction dels as [|d r IH]; intros m k H; simpl; [exact H|].
  apply IH. unfold fm_del. destruct (k =? d); auto.
Qed.

Lemma fold_del_spec : forall dels (m : fmap) k,
  fold_left fm_del dels m k = if member_of k dels then None else m k.
Proof.
  induction dels as [|d r IH]; intros m k; simpl; [reflexivity|].
  rewrite IH. unfold fm_del. destruct (k =? d) eqn:E; simpl.
  - destruct (member_of k r); reflexivity.
  - reflexivity.
Qed.

(* what prune leaves: exactly the attestations above the cut-off *)
Theorem prune_spec : forall keep last atts k,
  keep < last ->
  prune keep last atts k = if k <=? last - keep then None else present atts k.
Proof.
  intros keep last atts k H. unfold prune.
  destruct (last <=? keep) eqn:E; [apply Z.leb_le in E; lia|].
  unfold delete_all. rewrite fold_del_spec.
  destruct (k <=? last - keep) eqn:C.
  - destruct (member_of k (filter (fun n => n <=? last - keep) atts)) eqn:M; [reflexivity|].
    (* k is not among the deleted ones: then it was not present at all *)
    unfold present, rebuild.
    assert (G : forall l (m : fmap), m k = None -> member_of k (filter (fun n => n <=? last - keep) l) = false ->
                fold_left (fun m e => fm_upd m (fst e) (snd e)) (map (fun k0 => (k0, 1)) l) m k = None).
    { induction l as [|x l IH]; intros m Hm Hf; simpl; [exact Hm|].
      simpl in Hf. destruct (x <=? last - keep) eqn:X.
      - simpl in Hf. apply orb_false_iff in Hf. destruct Hf as [Hx Hf]. apply IH; [|exact Hf].
        unfold fm_upd. simpl. rewrite Hx. exact Hm.
      - apply IH; [|exact Hf]. unfold fm_upd. simpl.
        destruct (k =? x) eqn:KX; [apply Z.eqb_eq in KX; subst; rewrite C in X; discriminate|exact Hm]. }
    apply G; [reflexivity|exact M].
  - destruct (member_of k (filter (fun n => n <=? last - keep) atts)) eqn:M; [|reflexivity].
    unfold member_of in M. apply existsb_exists in M. destruct M as [x [Hx Ex]].
    apply Z.eqb_eq in Ex. subst x. apply filter_In in Hx. destruct Hx as [_ Hx]. rewrite C in Hx. discriminate.
Qed.
