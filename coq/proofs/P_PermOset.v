(* C17 x C07: the hypothesis of the PowerDiff exactness lemma is C07's invariant of stored oracle sets
   (proofs/P_OsetPhase.v: members_ok — non-negative normalised powers summing to at most MaxUint32).
   Import only; nothing of C07's development is changed or re-proved here. *)
From Coq Require Import ZArith List Bool Lia Permutation.
From FxV Require Import model.M_EndBlock model.M_OsetPhase proofs.P_OsetPhase model.M_Perm proofs.P_Perm.
Import ListNotations.
Open Scope Z_scope.

Lemma psum_msum : forall m, psum m = msum m.
Proof.
  induction m as [|p r IH]; [reflexivity|].
  unfold msum in *. cbn [psum fold_right map]. fold (psum r). rewrite IH. reflexivity.
Qed.

Theorem power_diff_exact_members_ok : forall (rnd : Z -> Z),
  (forall z, Z.abs z <= two53 -> rnd z = z) ->
  forall cur lat, members_ok cur -> members_ok lat ->
  forall order, Permutation (map snd (powers_of cur lat)) order ->
  (forall n, sum_abs (firstn n order) <= two53 /\ fsum rnd (firstn n order) = sum_abs (firstn n order)) /\
  fsum rnd order = power_diff_sum cur lat.
Proof.
  intros rnd R cur lat [Hc [Sc _]] [Hl [Sl _]] order P.
  apply power_diff_exact_from_normalisation; auto; rewrite psum_msum; unfold M_Perm.max_uint32, M_EndBlock.max_u32 in *; lia.
Qed.
