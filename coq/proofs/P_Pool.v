(* P_Pool.v — lemmas about model.M_Pool: how the set of live transfers / bridge calls changes in a step *)
From Coq Require Import ZArith List Bool Lia Permutation.
From FxV Require Import gen.Gen_TimeoutRules model.M_Pool.
Import ListNotations.
Open Scope Z_scope.

Arguments key3_ltb : simpl never.
Arguments key3_eqb : simpl never.
Arguments key2_ltb : simpl never.
Arguments tx_key : simpl never.
Arguments batch_is : simpl never.
Arguments key_eqb : simpl never.

(* ---------- the result monad ---------- *)
Lemma bind_ok : forall A B (r : R A) (f : A -> R B) x,
  bind r f = ROk x -> exists a, r = ROk a /\ f a = ROk x.
Proof. intros A B [a| |] f x H; simpl in H; try discriminate. eauto. Qed.

Lemma must_ok : forall A (r : R A) x, must r = ROk x -> r = ROk x.
Proof. intros A [a| |] x H; simpl in H; congruence. Qed.

Ltac inv H := inversion H; subst; clear H.

Ltac mon :=
  repeat match goal with
  | H : bind _ _ = ROk _ |- _ => apply bind_ok in H; destruct H as (? & ? & H)
  | H : must _ = ROk _ |- _ => apply must_ok in H
  | H : ROk _ = ROk _ |- _ => inv H
  | H : RErr = ROk _ |- _ => discriminate H
  | H : RPanic = ROk _ |- _ => discriminate H
  end.

(* ---------- keys ---------- *)
Lemma key3_eqb_eq : forall a b, key3_eqb a b = true <-> a = b.
Proof.
  intros [[a1 a2] a3] [[b1 b2] b3]; unfold key3_eqb. rewrite !andb_true_iff, !Z.eqb_eq.
  split; [intros [[-> ->] ->]; reflexivity | intros H; inv H; auto].
Qed.

Lemma tx_key_id : forall x y, tx_key x = tx_key y -> tx_id x = tx_id y.
Proof. unfold tx_key; intros x y H; inv H; auto. Qed.

(* ---------- pool primitives ---------- *)
Lemma pool_insert_perm : forall x l, Permutation (pool_insert x l) (x :: l).
Proof.
  induction l as [|y r IH]; simpl; auto.
  destruct (key3_ltb (tx_key y) (tx_key x)); auto.
  eapply perm_trans; [apply perm_skip, IH | apply perm_swap].
Qed.

Lemma pool_has_ex : forall k l, pool_has k l = true -> exists y, In y l /\ tx_key y = k.
Proof.
  unfold pool_has; intros k l H. apply existsb_exists in H. destruct H as (y & Hy & E).
  apply key3_eqb_eq in E. eauto.
Qed.

Lemma pool_remove_perm : forall k l, pool_has k l = true ->
  exists y, In y l /\ tx_key y = k /\ Permutation l (y :: pool_remove k l).
Proof.
  induction l as [|y r IH]; simpl; intros H; [discriminate|].
  destruct (key3_eqb (tx_key y) k) eqn:E.
  - apply key3_eqb_eq in E. exists y; auto.
  - simpl in H. destruct (IH H) as (z & Hz & Kz & P). exists z; repeat split; auto.
    eapply perm_trans; [apply perm_skip, P | apply perm_swap].
Qed.

Definition ids (l : list tx) : list Z := map tx_id l.

Lemma ids_perm : forall a b, Permutation a b -> Permutation (ids a) (ids b).
Proof. intros; apply Permutation_map; auto. Qed.

Lemma nodup_ids_unique : forall l x y, NoDup (ids l) -> In x l -> In y l -> tx_id x = tx_id y -> x = y.
Proof.
  induction l as [|z r IH]; simpl; intros x y ND Hx Hy E; [contradiction|].
  inv ND. destruct Hx as [->|Hx], Hy as [->|Hy]; auto.
  - exfalso; apply H1. rewrite E. apply in_map; auto.
  - exfalso; apply H1. rewrite <- E. apply in_map; auto.
Qed.

(* removing x (present, ids unique) removes exactly x *)
Lemma remove_unbatched_perm : forall x l l', NoDup (ids l) -> In x l ->
  remove_unbatched x l = ROk l' -> Permutation l (x :: l').
Proof.
  unfold remove_unbatched; intros x l l' ND Hx H.
  destruct (pool_has (tx_key x) l) eqn:E; [|discriminate]. inv H.
  destruct (pool_remove_perm _ _ E) as (y & Hy & Ky & P).
  assert (y = x) by (eapply nodup_ids_unique; eauto using tx_key_id). subst; auto.
Qed.

Lemma remove_unbatched_in : forall x l l', remove_unbatched x l = ROk l' -> exists y, In y l /\ tx_key y = tx_key x.
Proof.
  unfold remove_unbatched; intros x l l' H. destruct (pool_has (tx_key x) l) eqn:E; [|discriminate].
  apply pool_has_ex; auto.
Qed.

Lemma add_unbatched_perm : forall x l l', add_unbatched x l = ROk l' -> Permutation l' (x :: l).
Proof.
  unfold add_unbatched; intros x l l' H. destruct (pool_has (tx_key x) l); [discriminate|]. inv H.
  apply pool_insert_perm.
Qed.

Lemma readd_perm : forall txs p p', readd txs p = ROk p' -> Permutation p' (txs ++ p).
Proof.
  induction txs as [|x r IH]; simpl; intros p p' H; [inv H; auto|].
  mon. apply add_unbatched_perm in H0. apply IH in H.
  eapply perm_trans; [exact H|]. eapply perm_trans; [apply Permutation_app_head, H0|].
  apply Permutation_sym, Permutation_middle.
Qed.

Lemma find_by_id_in : forall id l x, find_by_id id l = Some x -> In x l /\ tx_id x = id.
Proof.
  unfold find_by_id; intros id l x H. apply find_some in H. destruct H as [H E]. apply Z.eqb_eq in E; auto.
Qed.

(* pick returns members of the list, each at most as often as in the list *)
Lemma pick_sub : forall token base max l cnt, exists rest, Permutation l (pick token base max cnt l ++ rest).
Proof.
  induction l as [|y r IH]; simpl; intros cnt; [exists []; auto|].
  destruct (tx_token y =? token).
  - destruct (tx_fee y <? base); [exists (y :: r); auto|].
    destruct (cnt + 1 =? max); [exists r; auto|].
    destruct (IH (cnt + 1)) as (rest & P). exists rest. simpl. apply perm_skip; auto.
  - destruct (IH cnt) as (rest & P). exists (y :: rest).
    eapply perm_trans; [apply perm_skip, P | apply Permutation_middle].
Qed.

Lemma pick_token : forall token base max l cnt x, In x (pick token base max cnt l) -> tx_token x = token.
Proof.
  induction l as [|y r IH]; simpl; intros cnt x H; [contradiction|].
  destruct (tx_token y =? token) eqn:E.
  - apply Z.eqb_eq in E. destruct (tx_fee y <? base); [contradiction|].
    destruct (cnt + 1 =? max); simpl in H; destruct H as [<-|H]; auto; try contradiction. eauto.
  - eauto.
Qed.

Lemma nodup_perm_ids : forall a b, Permutation a b -> NoDup (ids a) -> NoDup (ids b).
Proof. intros a b P ND. eapply Permutation_NoDup; [apply ids_perm; eauto|auto]. Qed.

(* removing a picked selection from the pool *)
Lemma remove_all_perm : forall sel p p',
  NoDup (ids p) -> (exists rest, Permutation p (sel ++ rest)) ->
  fold_left (fun acc x => do a <- acc; remove_unbatched x a) sel (ROk p) = ROk p' ->
  Permutation p (sel ++ p').
Proof.
  induction sel as [|x r IH]; simpl; intros p p' ND (rest & P) H.
  - inv H; auto.
  - destruct (remove_unbatched x p) as [p1| |] eqn:E.
    + assert (Hx : In x p) by (eapply Permutation_in; [apply Permutation_sym, P|]; simpl; auto).
      pose proof (remove_unbatched_perm _ _ _ ND Hx E) as P1.
      assert (ND1 : NoDup (ids p1)).
      { pose proof (nodup_perm_ids _ _ P1 ND) as N. simpl in N. inv N; auto. }
      assert (P2 : Permutation p1 (r ++ rest)).
      { eapply Permutation_cons_inv with (a := x). eapply perm_trans; [apply Permutation_sym, P1|]. exact P. }
      specialize (IH p1 p' ND1 (ex_intro _ rest P2) H).
      eapply perm_trans; [exact P1|]. apply perm_skip; auto.
    + exfalso. clear -H. induction r; simpl in H; [discriminate|auto].
    + exfalso. clear -H. induction r; simpl in H; [discriminate|auto].
Qed.

(* ---------- live transfers ---------- *)
Definition batch_txs (bs : list batch) : list tx := flat_map b_txs bs.
Definition live (s : state) : list tx := pool s ++ batch_txs (batches s).

Lemma batch_is_spec : forall t n b, batch_is t n b = true <-> b_token b = t /\ b_nonce b = n.
Proof. unfold batch_is; intros. rewrite andb_true_iff, !Z.eqb_eq. tauto. Qed.

Lemma find_batch_in : forall t n l b, find_batch t n l = Some b -> In b l /\ b_token b = t /\ b_nonce b = n.
Proof. unfold find_batch; intros t n l b H. apply find_some in H. destruct H as [H E]. apply batch_is_spec in E. tauto. Qed.

Definition bnonces (l : list batch) : list Z := map b_nonce l.

Lemma filter_all : forall A (p : A -> bool) l, (forall x, In x l -> p x = true) -> filter p l = l.
Proof.
  induction l as [|x r IH]; simpl; intros H; auto.
  rewrite (H x) by auto. f_equal. apply IH. auto.
Qed.

Lemma batch_remove_perm : forall t n l b, NoDup (bnonces l) -> find_batch t n l = Some b ->
  Permutation l (b :: batch_remove t n l).
Proof.
  induction l as [|y r IH]; simpl; intros b ND H; [discriminate|].
  unfold find_batch in H; simpl in H. inv ND.
  destruct (batch_is t n y) eqn:E.
  - inv H. simpl. apply perm_skip.
    assert (F : batch_remove t n r = r).
    { unfold batch_remove. apply filter_all. intros z Hz.
      destruct (batch_is t n z) eqn:Ez; auto. exfalso. apply batch_is_spec in E, Ez.
      apply H2. destruct E as [_ <-], Ez as [_ <-]. apply in_map; auto. }
    rewrite F; auto.
  - simpl. eapply perm_trans; [apply perm_skip, (IH b H3 H) | apply perm_swap].
Qed.

Lemma batch_txs_perm : forall a b, Permutation a b -> Permutation (batch_txs a) (batch_txs b).
Proof. unfold batch_txs; induction 1; simpl; auto.
  - apply Permutation_app_head; auto.
  - rewrite !app_assoc. apply Permutation_app_tail, Permutation_app_comm.
  - eapply perm_trans; eauto.
Qed.

Lemma batch_remove_sub : forall t n l b, In b (batch_remove t n l) -> In b l.
Proof. unfold batch_remove; intros t n l b H. apply filter_In in H; tauto. Qed.

Lemma nodup_map_filter : forall A (f : A -> Z) (p : A -> bool) l, NoDup (map f l) -> NoDup (map f (filter p l)).
Proof.
  induction l as [|x r IH]; simpl; intros ND; auto. inv ND.
  destruct (p x); simpl; auto. constructor; auto.
  intros H; apply H1. apply in_map_iff in H. destruct H as (y & E & Hy). apply filter_In in Hy.
  rewrite <- E. apply in_map; tauto.
Qed.

(* structural invariant of the outgoing state *)
Record Inv (s : state) : Prop := {
  inv_ids : NoDup (ids (live s));
  inv_idlt : forall x, In x (live s) -> tx_id x < next_tx s;
  inv_bn : NoDup (bnonces (batches s));
  inv_bnlt : forall b, In b (batches s) -> b_nonce b < next_batch s;
  inv_cn : NoDup (map c_nonce (calls s));
  inv_cnlt : forall c, In c (calls s) -> c_nonce c < next_call s;
  inv_rel : forall r, In r (relation s) -> In r (ids (live s));
  inv_reln : NoDup (relation s)
}.

(* cancel_batch: the transfers move to the pool; nothing else about transfers changes *)
Lemma cancel_batch_spec : forall c s b s' evs,
  NoDup (bnonces (batches s)) ->
  cancel_batch c s b = ROk (s', evs) ->
  exists b0, In b0 (batches s) /\ b_token b0 = b_token b /\ b_nonce b0 = b_nonce b /\
    evs = [EvBatchCanceled (b_token b0) (b_nonce b0) c] /\
    Permutation (pool s') (b_txs b0 ++ pool s) /\
    Permutation (batches s) (b0 :: batches s') /\
    batches s' = batch_remove (b_token b0) (b_nonce b0) (batches s) /\
    next_tx s' = next_tx s /\ next_batch s' = next_batch s /\ next_call s' = next_call s /\
    calls s' = calls s /\ by_sender s' = by_sender s /\ from_msg s' = from_msg s /\ pending s' = pending s /\
    evn s' = evn s /\ obs_ext s' = obs_ext s /\ obs_fx s' = obs_fx s /\ fxh s' = fxh s /\ bal s' = bal s /\
    prm s' = prm s /\ toks s' = toks s /\ relation s' = relation s.
Proof.
  unfold cancel_batch; intros c s b s' evs ND H.
  destruct (find_batch (b_token b) (b_nonce b) (batches s)) as [b0|] eqn:F; [|discriminate].
  mon. pose proof (find_batch_in _ _ _ _ F) as (Hin & Ht & Hn).
  exists b0. simpl.
  split; [auto|]. split; [auto|]. split; [auto|]. split; [auto|].
  split; [apply readd_perm; auto|].
  split; [|repeat split; auto].
  apply batch_remove_perm; auto. rewrite Ht, Hn; auto.
Qed.

Lemma live_cancel : forall s s' b0,
  Permutation (pool s') (b_txs b0 ++ pool s) -> Permutation (batches s) (b0 :: batches s') ->
  Permutation (live s') (live s).
Proof.
  unfold live; intros s s' b0 P1 P2.
  apply batch_txs_perm in P2. simpl in P2.
  eapply perm_trans; [apply Permutation_app_tail, P1|].
  eapply perm_trans; [|apply Permutation_app_head, Permutation_sym, P2].
  rewrite <- app_assoc. eapply perm_trans; [apply Permutation_app_comm|].
  rewrite <- app_assoc. apply Permutation_app_head. apply Permutation_app_comm.
Qed.

(* what a loop of cancellations preserves *)
Record same_but_batches (s s' : state) : Prop := {
  sb_live : Permutation (live s') (live s);
  sb_sub : forall b, In b (batches s') -> In b (batches s);
  sb_bn : NoDup (bnonces (batches s)) -> NoDup (bnonces (batches s'));
  sb_tx : next_tx s' = next_tx s; sb_nb : next_batch s' = next_batch s; sb_nc : next_call s' = next_call s;
  sb_calls : calls s' = calls s; sb_bs : by_sender s' = by_sender s; sb_fm : from_msg s' = from_msg s;
  sb_pend : pending s' = pending s; sb_evn : evn s' = evn s; sb_ext : obs_ext s' = obs_ext s; sb_fx : obs_fx s' = obs_fx s;
  sb_fxh : fxh s' = fxh s; sb_bal : bal s' = bal s; sb_prm : prm s' = prm s; sb_toks : toks s' = toks s;
  sb_rel : relation s' = relation s
}.

Lemma sbb_refl : forall s, same_but_batches s s.
Proof. intros; constructor; auto. Qed.

Lemma sbb_trans : forall a b c, same_but_batches a b -> same_but_batches b c -> same_but_batches a c.
Proof.
  intros a b c [] []; constructor; try congruence; auto.
  eapply perm_trans; eauto.
Qed.

Lemma cancel_batch_sbb : forall c s b s' evs, NoDup (bnonces (batches s)) ->
  cancel_batch c s b = ROk (s', evs) -> same_but_batches s s'.
Proof.
  intros c s b s' evs ND H. destruct (cancel_batch_spec _ _ _ _ _ ND H) as (b0 & Hin & Ht & Hn & Ev & P1 & P2 & Eb & R).
  decompose [and] R. constructor; auto.
  - eapply live_cancel; eauto.
  - rewrite Eb. intros x Hx. eapply batch_remove_sub; eauto.
  - intros _. rewrite Eb. unfold bnonces, batch_remove. apply nodup_map_filter; auto.
Qed.

Lemma cancel_where_spec : forall c f once snap s s' evs,
  NoDup (bnonces (batches s)) ->
  cancel_where c f once snap s = ROk (s', evs) ->
  same_but_batches s s' /\
  (forall e, In e evs -> exists b, In b snap /\ f b = true /\ e = EvBatchCanceled (b_token b) (b_nonce b) c).
Proof.
  induction snap as [|b r IH]; simpl; intros s s' evs ND H.
  - inv H. split; [apply sbb_refl | intros e []].
  - destruct (f b) eqn:Fb.
    + mon. destruct x as [s1 e1].
      pose proof (cancel_batch_sbb _ _ _ _ _ ND H0) as S1.
      destruct (cancel_batch_spec _ _ _ _ _ ND H0) as (b0 & _ & Ht & Hn & Ev & _).
      destruct once.
      * inv H. split; auto. intros e He. simpl in He. destruct He as [<-|[]]. exists b. rewrite Ht, Hn. auto.
      * mon. destruct x as [s2 e2]. simpl in *.
        destruct (IH _ _ _ (sb_bn _ _ S1 ND) H1) as (S2 & E2).
        split; [eapply sbb_trans; eauto|].
        intros e He. destruct He as [<-|He].
        -- exists b. rewrite Ht, Hn. auto.
        -- destruct (E2 e He) as (b' & Hb' & Fb' & ->). exists b'; auto.
    + destruct (IH _ _ _ ND H) as (S & E). split; auto.
      intros e He. destruct (E e He) as (b' & Hb' & Fb' & ->). exists b'; auto.
Qed.

(* ---------- bridge-call loops ---------- *)
Definition cnonces (l : list bcall) : list Z := map c_nonce l.

Record shrink (s s' : state) : Prop := {
  sh_live : Permutation (live s') (live s);
  sh_bsub : forall b, In b (batches s') -> In b (batches s);
  sh_bn : NoDup (bnonces (batches s)) -> NoDup (bnonces (batches s'));
  sh_csub : forall c, In c (calls s') -> In c (calls s);
  sh_cn : NoDup (cnonces (calls s)) -> NoDup (cnonces (calls s'));
  sh_tx : next_tx s' = next_tx s; sh_nb : next_batch s' = next_batch s; sh_nc : next_call s' = next_call s;
  sh_pend : pending s' = pending s; sh_evn : evn s' = evn s; sh_ext : obs_ext s' = obs_ext s; sh_fx : obs_fx s' = obs_fx s;
  sh_fxh : fxh s' = fxh s; sh_prm : prm s' = prm s; sh_toks : toks s' = toks s;
  sh_rel : relation s' = relation s
}.

Lemma shrink_refl : forall s, shrink s s.
Proof. intros; constructor; auto. Qed.

Lemma shrink_trans : forall a b c, shrink a b -> shrink b c -> shrink a c.
Proof.
  intros a b c [] []; constructor; try congruence; auto.
  eapply perm_trans; eauto.
Qed.

Lemma sbb_shrink : forall s s', same_but_batches s s' -> shrink s s'.
Proof.
  intros s s' []; constructor; auto; try congruence; rewrite sb_calls0; auto.
Qed.

Lemma call_remove_sub : forall n l c, In c (call_remove n l) -> In c l.
Proof. unfold call_remove; intros n l c H. apply filter_In in H; tauto. Qed.

Lemma delete_call_shrink : forall s n, shrink s (delete_call s n).
Proof.
  intros s n. unfold delete_call. destruct (find_call n (calls s)); constructor; simpl; auto.
  - intros c Hc. eapply call_remove_sub; eauto.
  - intros ND. unfold cnonces, call_remove. apply nodup_map_filter; auto.
Qed.

Lemma delete_call_bal : forall s n, bal (delete_call s n) = bal s.
Proof. intros; unfold delete_call; destruct (find_call n (calls s)); reflexivity. Qed.

Lemma refund_call_spec : forall cs s c s' evs, refund_call cs s c = ROk (s', evs) ->
  shrink s s' /\ calls s' = calls s /\ evs = [EvCallRefund (c_nonce c) (c_refund c) (c_tokens c) cs] /\
  refund_coins (toks s) (existsb (Z.eqb (c_nonce c)) (from_msg s)) (bal s) (c_refund c) (c_tokens c) = ROk (bal s').
Proof.
  unfold refund_call; intros cs s c s' evs H. mon. simpl. repeat split; auto.
Qed.

Lemma cleanup_calls_from_spec : forall snap s s' evs,
  cleanup_calls_from snap s = ROk (s', evs) ->
  shrink s s' /\
  (forall e, In e evs -> exists c, In c snap /\ call_cleanup_stop (c_timeout c) (obs_ext s) = false /\
                                   e = EvCallRefund (c_nonce c) (c_refund c) (c_tokens c) ByTimeout).
Proof.
  induction snap as [|c r IH]; simpl; intros s s' evs H.
  - inv H. split; [apply shrink_refl | intros e []].
  - destruct (call_cleanup_stop (c_timeout c) (obs_ext s)) eqn:St.
    + inv H. split; [apply shrink_refl | intros e []].
    + mon. destruct x as [s1 e1], x0 as [s2 e2]. simpl in *.
      destruct (refund_call_spec _ _ _ _ _ H0) as (S1 & _ & -> & _).
      destruct (IH _ _ _ H1) as (S2 & E2).
      split.
      * eapply shrink_trans; [exact S1|]. eapply shrink_trans; [apply delete_call_shrink | exact S2].
      * intros e [<-|He]; [exists c; auto|].
        destruct (E2 e He) as (c' & Hc' & St' & ->). exists c'. repeat split; auto.
        rewrite <- St'. f_equal. rewrite (sh_ext _ _ (delete_call_shrink s1 (c_nonce c))). symmetry. apply (sh_ext _ _ S1).
Qed.

Lemma cleanups_spec : forall s s' evs, NoDup (bnonces (batches s)) ->
  cleanups s = ROk (s', evs) ->
  shrink s s' /\
  (forall e, In e evs ->
     (exists b, In b (batches s) /\ batch_cleanup_cancel (b_timeout b) (obs_ext s) = true /\
                e = EvBatchCanceled (b_token b) (b_nonce b) ByTimeout) \/
     (exists c, In c (calls s) /\ call_cleanup_stop (c_timeout c) (obs_ext s) = false /\
                e = EvCallRefund (c_nonce c) (c_refund c) (c_tokens c) ByTimeout)).
Proof.
  unfold cleanups, cleanup_batches, cleanup_calls; intros s s' evs ND H. mon.
  destruct x as [s1 e1], x0 as [s2 e2]. simpl in *.
  destruct (cancel_where_spec _ _ _ _ _ _ _ ND H0) as (S1 & E1).
  destruct (cleanup_calls_from_spec _ _ _ _ H1) as (S2 & E2).
  split; [eapply shrink_trans; [apply sbb_shrink; eauto | eauto]|].
  intros e He. apply in_app_or in He. destruct He as [He|He].
  - left. destruct (E1 e He) as (b & Hb & Fb & ->). exists b; auto.
  - right. destruct (E2 e He) as (c & Hc & St & ->). exists c. repeat split; auto.
    + rewrite <- (sb_calls _ _ S1); auto.
    + rewrite <- (sb_ext _ _ S1); auto.
Qed.

(* ---------- specifications of the single operations ---------- *)
Ltac des H :=
  match type of H with
  | (if ?c then _ else _) = _ => let E := fresh "E" in destruct c eqn:E; try discriminate H
  | (match ?c with _ => _ end) = _ => let E := fresh "E" in destruct c eqn:E; try discriminate H
  end.

Lemma pool_live_perm : forall s s' L, batches s' = batches s -> Permutation (pool s') L ->
  Permutation (live s') (L ++ batch_txs (batches s)).
Proof. unfold live; intros s s' L -> P. apply Permutation_app_tail; auto. Qed.

Lemma send_spec : forall s sender dest amount fee token s' evs,
  do_send s sender dest amount fee token = ROk (s', evs) ->
  0 < amount /\ 0 < fee /\
  Permutation (pool s') (mk_tx (next_tx s) sender dest token amount fee :: pool s) /\
  batches s' = batches s /\ calls s' = calls s /\
  next_tx s' = next_tx s + 1 /\ next_batch s' = next_batch s /\ next_call s' = next_call s /\
  obs_ext s' = obs_ext s /\ evs = [EvTxCreated (next_tx s)] /\ relation s' = relation s /\
  exists k, kind_of (toks s) token = Some k /\ base_to_bridge (bal s) k sender token (amount + fee) = ROk (bal s').
Proof.
  unfold do_send; intros. des H. des H. mon. simpl.
  apply orb_false_iff in E. destruct E as [E1 E2]. apply Z.leb_gt in E1, E2.
  apply add_unbatched_perm in H1. simpl in *.
  repeat split; auto. exists t; auto.
Qed.

(* a transfer started from the EVM (crossChain precompile): same record, paid from the FX value or from ERC-20 tokens;
   the erc20 outgoing relation is set for the ERC-20 case only *)
Lemma send_p_spec : forall s sender dest amount fee token s' evs,
  do_send_p s sender dest amount fee token = ROk (s', evs) ->
  0 < amount /\ 0 <= fee /\
  Permutation (pool s') (mk_tx (next_tx s) sender dest token amount fee :: pool s) /\
  batches s' = batches s /\ calls s' = calls s /\
  next_tx s' = next_tx s + 1 /\ next_batch s' = next_batch s /\ next_call s' = next_call s /\
  obs_ext s' = obs_ext s /\ evs = [EvTxCreated (next_tx s)] /\ pending s' = pending s /\
  ((kind_of (toks s) token = Some KNative /\ relation s' = relation s /\
    base_to_bridge (bal s) KNative sender token (amount + fee) = ROk (bal s')) \/
   (exists k, kind_of (toks s) token = Some k /\ erc20_kind k = true /\ relation s' = next_tx s :: relation s /\
    exists l0, erc20_in (bal s) k sender token (amount + fee) = ROk l0 /\
      base_to_bridge l0 k sender token (amount + fee) = ROk (bal s'))).
Proof.
  unfold do_send_p; intros. des H.
  apply orb_false_iff in E. destruct E as [E1 E2]. apply Z.leb_gt in E1. apply Z.ltb_ge in E2.
  destruct (kind_of (toks s) token) as [k|] eqn:K; [|discriminate].
  destruct k; cbn [erc20_kind negb] in H; try discriminate; mon; simpl.
  - apply add_unbatched_perm in H1. simpl in H1. repeat split; auto.
  - apply add_unbatched_perm in H2. simpl in H2. repeat split; auto. right. exists KCoin. repeat split; auto. eauto.
  - apply add_unbatched_perm in H2. simpl in H2. repeat split; auto. right. exists KErc. repeat split; auto. eauto.
Qed.

Lemma cancel_spec : forall s id who s' evs, NoDup (ids (pool s)) ->
  do_cancel s id who = ROk (s', evs) ->
  exists x, In x (pool s) /\ tx_id x = id /\ tx_sender x = who /\
    Permutation (pool s) (x :: pool s') /\
    batches s' = batches s /\ calls s' = calls s /\
    next_tx s' = next_tx s /\ next_batch s' = next_batch s /\ next_call s' = next_call s /\
    obs_ext s' = obs_ext s /\ evs = [EvTxRefund id who (tx_amount x + tx_fee x) (tx_token x)] /\ pending s' = pending s /\
    exists k l, kind_of (toks s) (tx_token x) = Some k /\
      bridge_to_base (bal s) k who (tx_token x) (tx_amount x + tx_fee x) = ROk l /\
      (if existsb (Z.eqb id) (relation s)
       then hook_refund l k who (tx_token x) (tx_amount x + tx_fee x) = ROk (bal s') /\
            relation s' = filter (fun r => negb (r =? id)) (relation s)
       else bal s' = l /\ relation s' = relation s).
Proof.
  unfold do_cancel; intros s id who s' evs ND H. des H. des H. des H. mon. des H. des H. mon.
  apply find_by_id_in in E0. destruct E0 as [Hin Hid].
  apply negb_false_iff, Z.eqb_eq in E1.
  exists t. destruct (existsb (Z.eqb id) (relation s)) eqn:Rl; mon; simpl.
  - repeat split; auto; [eapply remove_unbatched_perm; eauto|]. exists t0, x0. auto.
  - repeat split; auto; [eapply remove_unbatched_perm; eauto|]. exists t0, x0. auto.
Qed.

Definition with_fee (x : tx) (f : Z) : tx := mk_tx (tx_id x) (tx_sender x) (tx_dest x) (tx_token x) (tx_amount x) f.

Lemma increase_spec : forall s id who add token which s' evs, NoDup (ids (pool s)) ->
  do_increase s id who add token which = ROk (s', evs) ->
  0 < add /\
  exists x L, In x (pool s) /\ tx_id x = id /\ tx_token x = token /\
    Permutation (pool s) (x :: L) /\ Permutation (pool s') (with_fee x (tx_fee x + add) :: L) /\
    batches s' = batches s /\ calls s' = calls s /\
    next_tx s' = next_tx s /\ next_batch s' = next_batch s /\ next_call s' = next_call s /\
    obs_ext s' = obs_ext s /\ evs = [] /\ relation s' = relation s /\
    exists k, kind_of (toks s) token = Some k /\ pay_added_fee (bal s) k who token add = ROk (bal s').
Proof.
  unfold do_increase; intros s id who add token which s' evs ND H. des H. des H. des H. des H. des H. mon. simpl.
  apply orb_false_iff in E. destruct E as [_ E]. apply Z.leb_gt in E.
  apply find_by_id_in in E0. destruct E0 as [Hin Hid].
  apply negb_false_iff, Z.eqb_eq in E3.
  split; auto. exists t, x0. repeat split; auto.
  - eapply remove_unbatched_perm; eauto.
  - apply add_unbatched_perm in H2. exact H2.
  - exists t0; auto.
Qed.

Lemma increase_p_spec : forall s id who add token s' evs, NoDup (ids (pool s)) ->
  do_increase_p s id who add token = ROk (s', evs) ->
  0 < add /\
  exists x L, In x (pool s) /\ tx_id x = id /\ tx_token x = token /\
    Permutation (pool s) (x :: L) /\ Permutation (pool s') (with_fee x (tx_fee x + add) :: L) /\
    batches s' = batches s /\ calls s' = calls s /\
    next_tx s' = next_tx s /\ next_batch s' = next_batch s /\ next_call s' = next_call s /\
    obs_ext s' = obs_ext s /\ evs = [] /\ relation s' = relation s /\ pending s' = pending s /\
    exists k, kind_of (toks s) token = Some k /\ fee_in (bal s) k who token add = ROk (bal s').
Proof.
  unfold do_increase_p; intros s id who add token s' evs ND H. des H. des H. mon. des H. des H. mon. simpl.
  apply orb_false_iff in E. destruct E as [_ E]. apply Z.leb_gt in E.
  apply find_by_id_in in E1. destruct E1 as [Hin Hid].
  apply negb_false_iff, Z.eqb_eq in E2.
  split; auto. exists t0, x0. repeat split; auto.
  - eapply remove_unbatched_perm; eauto.
  - apply add_unbatched_perm in H2. exact H2.
  - exists t; auto.
Qed.

Lemma batch_insert_perm : forall x l, (forall y, In y l -> b_nonce y <> b_nonce x) ->
  Permutation (batch_insert x l) (x :: l).
Proof.
  induction l as [|y r IH]; simpl; intros F; auto.
  destruct (key2_ltb (b_key y) (b_key x)); auto.
  destruct ((b_token y =? b_token x) && (b_nonce y =? b_nonce x)) eqn:E.
  - apply andb_true_iff in E. destruct E as [_ E]. apply Z.eqb_eq in E. exfalso. apply (F y); auto.
  - eapply perm_trans; [apply perm_skip, IH; auto | apply perm_swap].
Qed.

Lemma request_batch_spec : forall s token which feercv basefee minfee auth s' evs,
  NoDup (ids (pool s)) -> (forall b, In b (batches s) -> b_nonce b < next_batch s) ->
  do_request_batch s token which feercv basefee minfee auth = ROk (s', evs) ->
  exists b, Permutation (pool s) (b_txs b ++ pool s') /\
    Permutation (batches s') (b :: batches s) /\
    b_nonce b = next_batch s /\ b_token b = token /\ b_feercv b = feercv /\ b_block b = fxh s /\ b_txs b <> [] /\
    cal_timeout s (p_batch_timeout (prm s)) = ROk (b_timeout b) /\ batch_build_reject (b_timeout b) = false /\
    (forall x, In x (b_txs b) -> tx_token x = token) /\
    calls s' = calls s /\
    next_tx s' = next_tx s /\ next_batch s' = next_batch s + 1 /\ next_call s' = next_call s /\
    obs_ext s' = obs_ext s /\ bal s' = bal s /\ evs = [EvBatchCreated token (next_batch s) (b_timeout b)] /\ relation s' = relation s.
Proof.
  unfold do_request_batch; intros s token which feercv basefee minfee auth s' evs ND BN H.
  des H. des H. des H. des H. des H. des H. mon.
  destruct (pick token basefee (p_max_elems (prm s)) 0 (pool s)) as [|x0 sel0] eqn:Sel; [discriminate|].
  des H. mon. des H. des H. inv H. simpl.
  eexists {| b_nonce := next_batch s; b_timeout := x1; b_txs := x0 :: sel0; b_token := token; b_feercv := feercv; b_block := fxh s |}.
  simpl. repeat split; auto.
  - change (x0 :: sel0 ++ x) with ((x0 :: sel0) ++ x). eapply remove_all_perm; [exact ND | rewrite <- Sel; apply pick_sub | exact H0].
  - apply batch_insert_perm. simpl. intros y Hy. specialize (BN y Hy). lia.
  - discriminate.
  - intros z Hz. assert (Hz' : In z (x0 :: sel0)) by exact Hz. rewrite <- Sel in Hz'. eapply pick_token; eauto.
Qed.

Lemma cancel_batch_keep : forall c s b s' evs x, NoDup (bnonces (batches s)) ->
  cancel_batch c s b = ROk (s', evs) -> In x (batches s) -> b_nonce x <> b_nonce b -> In x (batches s').
Proof.
  intros c s b s' evs x ND H Hx Ne.
  destruct (cancel_batch_spec _ _ _ _ _ ND H) as (b0 & _ & _ & Hn & _ & _ & _ & Eb & _).
  rewrite Eb. unfold batch_remove. apply filter_In. split; auto.
  destruct (batch_is (b_token b0) (b_nonce b0) x) eqn:E; auto.
  apply batch_is_spec in E. destruct E as [_ E]. congruence.
Qed.

Lemma cancel_where_keep : forall c f once snap s s' evs x, NoDup (bnonces (batches s)) ->
  cancel_where c f once snap s = ROk (s', evs) -> In x (batches s) ->
  (forall b, In b snap -> f b = true -> b_nonce b <> b_nonce x) -> In x (batches s').
Proof.
  induction snap as [|b r IH]; simpl; intros s s' evs x ND H Hx F.
  - inv H; auto.
  - destruct (f b) eqn:Fb.
    + mon. destruct x0 as [s1 e1].
      assert (Hx1 : In x (batches s1)).
      { eapply cancel_batch_keep; eauto. intro E. apply (F b); auto. }
      destruct once; [inv H; auto|]. mon. destruct x0 as [s2 e2]. simpl in *.
      assert (ND1 : NoDup (bnonces (batches s1))) by (apply (sb_bn _ _ (cancel_batch_sbb _ _ _ _ _ ND H0)); auto).
      apply (IH s1 s2 e2 x ND1 H1 Hx1). intros; apply F; auto.
    + apply (IH s s' evs x ND H Hx). intros; apply F; auto.
Qed.

Lemma find_batch_nodup : forall l b, NoDup (bnonces l) -> In b l -> find_batch (b_token b) (b_nonce b) l = Some b.
Proof.
  induction l as [|y r IH]; simpl; intros b ND Hb; [contradiction|]. inv ND.
  unfold find_batch; simpl. destruct (batch_is (b_token b) (b_nonce b) y) eqn:E.
  - destruct Hb as [->|Hb]; auto. apply batch_is_spec in E. destruct E as [_ E].
    exfalso. apply H1. rewrite E. apply in_map; auto.
  - destruct Hb as [->|Hb].
    + assert (batch_is (b_token b) (b_nonce b) b = true) by (apply batch_is_spec; auto). congruence.
    + apply IH; auto.
Qed.

Lemma nodup_bnonce_unique : forall l x y, NoDup (bnonces l) -> In x l -> In y l -> b_nonce x = b_nonce y -> x = y.
Proof.
  induction l as [|z r IH]; simpl; intros x y ND Hx Hy E; [contradiction|].
  inv ND. destruct Hx as [->|Hx], Hy as [->|Hy]; auto.
  - exfalso; apply H1. rewrite E. apply in_map; auto.
  - exfalso; apply H1. rewrite <- E. apply in_map; auto.
Qed.

Lemma batch_executed_spec : forall s token nonce s' evs, NoDup (bnonces (batches s)) ->
  batch_executed s token nonce = ROk (s', evs) ->
  exists b, In b (batches s) /\ b_token b = token /\ b_nonce b = nonce /\
    Permutation (live s) (b_txs b ++ live s') /\
    (forall x, In x (batches s') -> In x (batches s) /\ b_nonce x <> nonce) /\
    NoDup (bnonces (batches s')) /\
    calls s' = calls s /\ next_tx s' = next_tx s /\ next_batch s' = next_batch s /\ next_call s' = next_call s /\
    pending s' = pending s /\ evn s' = evn s /\ obs_ext s' = obs_ext s /\ obs_fx s' = obs_fx s /\ fxh s' = fxh s /\
    bal s' = bal s /\ prm s' = prm s /\ toks s' = toks s /\
    (forall e, In e evs -> e = EvBatchExecuted token nonce \/
        exists ib, In ib (batches s) /\ b_nonce ib < nonce /\ b_token ib = token /\
                   e = EvBatchCanceled (b_token ib) (b_nonce ib) BySupersede).
Proof.
  unfold batch_executed; intros s token nonce s' evs ND H.
  destruct (find_batch token nonce (batches s)) as [b|] eqn:F; [|discriminate].
  mon. destruct x as [s1 e1]. simpl in *.
  pose proof (find_batch_in _ _ _ _ F) as (Hin & Ht & Hn).
  destruct (cancel_where_spec _ _ _ _ _ _ _ ND H0) as (S1 & E1).
  assert (ND1 : NoDup (bnonces (batches s1))) by (apply (sb_bn _ _ S1); auto).
  assert (Hin1 : In b (batches s1)).
  { apply (cancel_where_keep _ _ _ _ _ _ _ b ND H0 Hin). intros ib _ Fi. apply andb_true_iff in Fi. destruct Fi as [Fi _].
    apply Z.ltb_lt in Fi. lia. }
  pose proof (find_batch_nodup _ _ ND1 Hin1) as F1. rewrite Ht, Hn in F1.
  pose proof (batch_remove_perm _ _ _ _ ND1 F1) as P1.
  exists b. repeat split; auto; try (destruct S1; congruence).
  - unfold live. simpl.
    eapply perm_trans; [apply Permutation_sym, (sb_live _ _ S1)|]. unfold live.
    apply batch_txs_perm in P1. simpl in P1.
    eapply perm_trans; [apply Permutation_app_head, P1|].
    rewrite !app_assoc. apply Permutation_app_tail, Permutation_app_comm.
  - apply (sb_sub _ _ S1). eapply batch_remove_sub; eauto.
  - unfold batch_remove in H. apply filter_In in H. destruct H as [Hx1 H].
    intro E. assert (x = b) by (eapply nodup_bnonce_unique; eauto; congruence). subst x.
    assert (B : batch_is token nonce b = true) by (apply batch_is_spec; auto).
    rewrite B in H. discriminate.
  - unfold bnonces, batch_remove. apply nodup_map_filter; auto.
  - intros e He. apply in_app_or in He. destruct He as [He|[<-|[]]]; auto.
    right. destruct (E1 e He) as (ib & Hib & Fi & ->). apply andb_true_iff in Fi. destruct Fi as [F1' F2'].
    apply Z.ltb_lt in F1'. apply Z.eqb_eq in F2'. exists ib. repeat split; auto; lia.
Qed.

Lemma batch_executed_relation : forall s token nonce s' evs, NoDup (bnonces (batches s)) ->
  batch_executed s token nonce = ROk (s', evs) ->
  exists b, find_batch token nonce (batches s) = Some b /\
    relation s' = filter (fun r => negb (existsb (fun x => tx_id x =? r) (b_txs b))) (relation s).
Proof.
  unfold batch_executed; intros s token nonce s' evs ND H.
  destruct (find_batch token nonce (batches s)) as [b|] eqn:F; [|discriminate].
  mon. destruct x as [s1 e1]. simpl in *.
  destruct (cancel_where_spec _ _ _ _ _ _ _ ND H0) as (S1 & _).
  exists b. split; auto. rewrite (sb_rel _ _ S1). reflexivity.
Qed.

Lemma bridge_call_relation : forall s a b c d e f s' evs, do_bridge_call s a b c d e f = ROk (s', evs) -> relation s' = relation s.
Proof. unfold do_bridge_call; intros. des H. des H. mon. des H. inv H. reflexivity. Qed.
Lemma bridge_call_p_relation : forall s a b c d e f g s' evs, do_bridge_call_p s a b c d e f g = ROk (s', evs) -> relation s' = relation s.
Proof. unfold do_bridge_call_p; intros. des H. mon. des H. inv H. reflexivity. Qed.
Lemma exec_result_relation : forall s e s' evs, do_exec_result s e = ROk (s', evs) -> relation s' = relation s.
Proof.
  unfold do_exec_result; intros s e s' evs H.
  destruct (find (fun p => fst p =? e) (pending s)) as [[e' [n ok]]|]; [|discriminate]. simpl in H.
  destruct (find_call n (calls s)) as [c|]; [|discriminate].
  apply bind_ok in H. destruct H as ([s1 e1] & H0 & H). simpl in H. injection H as <- _.
  assert (relation s1 = relation s).
  { destruct ok; [injection H0 as <- _; reflexivity|]. unfold refund_call in H0.
    apply bind_ok in H0. destruct H0 as (l & _ & H0). injection H0 as <- _. reflexivity. }
  rewrite <- H. unfold delete_call. destruct (find_call n (calls s1)); reflexivity.
Qed.

(* ---------- what one accepted operation does to transfers, batches and calls ---------- *)
Definition is_send (o : op) (sender dest amount fee token : Z) : Prop :=
  o = Send sender dest amount fee token \/ o = SendP sender dest amount fee token.
Definition evm_erc20_send (s : state) (o : op) : Prop :=
  exists a b c d t k, o = SendP a b c d t /\ kind_of (toks s) t = Some k /\ erc20_kind k = true.
Definition is_fee_inc (o : op) (id who add token : Z) : Prop :=
  (exists which, o = IncreaseFee id who add token which) \/ o = IncreaseFeeP id who add token.

Inductive tx_change (s s' : state) : op -> Prop :=
| TC_none : forall o, Permutation (live s') (live s) -> next_tx s' = next_tx s ->
    (match o with Send _ _ _ _ _ | SendP _ _ _ _ _ | Cancel _ _ | IncreaseFee _ _ _ _ _ | IncreaseFeeP _ _ _ _ | BatchExecuted _ _ _ => False | _ => True end) ->
    tx_change s s' o
| TC_send : forall o sender dest amount fee token, is_send o sender dest amount fee token ->
    Permutation (live s') (mk_tx (next_tx s) sender dest token amount fee :: live s) ->
    In (mk_tx (next_tx s) sender dest token amount fee) (pool s') ->
    next_tx s' = next_tx s + 1 -> tx_change s s' o
| TC_cancel : forall id who x, In x (pool s) -> tx_id x = id -> tx_sender x = who ->
    Permutation (live s) (x :: live s') -> next_tx s' = next_tx s -> tx_change s s' (Cancel id who)
| TC_fee : forall o id who add token x L, is_fee_inc o id who add token -> In x (pool s) -> tx_id x = id -> 0 < add ->
    Permutation (live s) (x :: L) -> Permutation (live s') (with_fee x (tx_fee x + add) :: L) ->
    In (with_fee x (tx_fee x + add)) (pool s') ->
    next_tx s' = next_tx s -> tx_change s s' o
| TC_exec : forall token nonce h b, In b (batches s) -> b_token b = token -> b_nonce b = nonce ->
    Permutation (live s) (b_txs b ++ live s') -> next_tx s' = next_tx s ->
    tx_change s s' (BatchExecuted token nonce h).

Record step_rel (s s' : state) (o : op) : Prop := {
  sr_tx : tx_change s s' o;
  sr_batches : forall b, In b (batches s') ->
     In b (batches s) \/
     (b_nonce b = next_batch s /\ next_batch s' = next_batch s + 1 /\ b_block b = fxh s /\
      exists w bf mf au, o = RequestBatch (b_token b) w (b_feercv b) bf mf au);
  sr_bn : NoDup (bnonces (batches s'));
  sr_nb : next_batch s <= next_batch s';
  sr_calls : forall c, In c (calls s') ->
     In c (calls s) \/
     (c_nonce c = next_call s /\ next_call s' = next_call s + 1 /\ c_evnonce c = 0 /\ c_block c = fxh s /\
      (o = BridgeCall (c_sender c) (c_refund c) (c_tokens c) (c_to c) (c_data c) (c_memo c) \/
       exists value tokens, o = BridgeCallP (c_sender c) (c_refund c) value tokens (c_to c) (c_data c) (c_memo c) /\
                            c_tokens c = (if 0 <? value then [(0, value)] else []) ++ tokens));
  sr_cn : NoDup (cnonces (calls s'));
  sr_nc : next_call s <= next_call s'
}.

(* the erc20 outgoing relation: kept exactly while the transfer is live, created only by an ERC-20 send from the EVM *)
Definition rel_rel (s s' : state) (o : op) : Prop :=
  (forall r, In r (relation s') <-> (In r (relation s) /\ In r (ids (live s'))) \/ (r = next_tx s /\ evm_erc20_send s o)) /\
  NoDup (relation s').

Lemma nodup_app_l : forall A (a b : list A), NoDup (a ++ b) -> NoDup a.
Proof.
  induction a as [|x r IH]; simpl; intros b N; [constructor|]. inv N. constructor; eauto.
  intro H; apply H1. apply in_or_app; auto.
Qed.

Lemma inv_pool_nodup : forall s, Inv s -> NoDup (ids (pool s)).
Proof.
  intros s I. pose proof (inv_ids _ I) as N. unfold live, ids in N. rewrite map_app in N.
  eapply nodup_app_l; eauto.
Qed.

Lemma shrink_obs : forall s h s', shrink (observed s h) s' ->
  Permutation (live s') (live s) /\ (forall b, In b (batches s') -> In b (batches s)) /\
  (NoDup (bnonces (batches s)) -> NoDup (bnonces (batches s'))) /\
  (forall c, In c (calls s') -> In c (calls s)) /\ (NoDup (cnonces (calls s)) -> NoDup (cnonces (calls s'))) /\
  next_tx s' = next_tx s /\ next_batch s' = next_batch s /\ next_call s' = next_call s /\
  obs_ext s' = h /\ obs_fx s' = fxh s /\ evn s' = evn s + 1 /\ fxh s' = fxh s /\ prm s' = prm s /\ toks s' = toks s.
Proof. intros s h s' []; simpl in *. repeat split; auto. Qed.

Lemma rel_keep : forall s s' o, Inv s -> relation s' = relation s ->
  (forall r, In r (ids (live s)) -> In r (ids (live s'))) -> ~ evm_erc20_send s o ->
  (forall r, In r (relation s') <-> (In r (relation s) /\ In r (ids (live s'))) \/ (r = next_tx s /\ evm_erc20_send s o)) /\
  NoDup (relation s').
Proof.
  intros s s' o I E L N. rewrite E. split; [|apply I].
  intros r. split.
  - intros Hr. left. split; auto. apply L, (inv_rel _ I); auto.
  - intros [[Hr _]|[_ Hs]]; auto. contradiction.
Qed.

Lemma not_send_not_evm : forall s o,
  (match o with Send _ _ _ _ _ | SendP _ _ _ _ _ | Cancel _ _ | IncreaseFee _ _ _ _ _ | IncreaseFeeP _ _ _ _ | BatchExecuted _ _ _ => False | _ => True end) ->
  ~ evm_erc20_send s o.
Proof. intros s o H (a & b & c & d & t & k & -> & _). exact H. Qed.

Lemma perm_ids_in : forall a b r, Permutation a b -> In r (ids a) -> In r (ids b).
Proof. intros a b r P H. eapply Permutation_in; [apply ids_perm; eauto|auto]. Qed.

Lemma shrink_rel : forall s s' o, Inv s -> shrink s s' ->
  (match o with Send _ _ _ _ _ | SendP _ _ _ _ _ | Cancel _ _ | IncreaseFee _ _ _ _ _ | IncreaseFeeP _ _ _ _ | BatchExecuted _ _ _ => False | _ => True end) ->
  step_rel s s' o.
Proof.
  intros s s' o I S Ho. destruct S. destruct I. constructor; auto; try lia.
  constructor; auto.
Qed.

Lemma observe_spec : forall s h s' evs, Inv s -> do_observe s h = ROk (s', evs) ->
  0 < h /\ shrink (observed s h) s' /\
  (forall e, In e evs ->
     (exists b, In b (batches s) /\ batch_cleanup_cancel (b_timeout b) h = true /\
                e = EvBatchCanceled (b_token b) (b_nonce b) ByTimeout) \/
     (exists c, In c (calls s) /\ call_cleanup_stop (c_timeout c) h = false /\
                e = EvCallRefund (c_nonce c) (c_refund c) (c_tokens c) ByTimeout)).
Proof.
  unfold do_observe; intros s h s' evs I H. des H. apply Z.leb_gt in E.
  destruct (cleanups_spec (observed s h) s' evs) as (S & Ev); auto. { apply (inv_bn _ I). }
Qed.

Lemma observe_result_spec : forall s n ok h s' evs, Inv s -> do_observe_result s n ok h = ROk (s', evs) ->
  0 < h /\ 0 < n /\
  shrink (set_pending (observed s h) ((evn s + 1, (n, ok)) :: pending s)) s' /\
  (forall e, In e evs ->
     (exists b, In b (batches s) /\ batch_cleanup_cancel (b_timeout b) h = true /\
                e = EvBatchCanceled (b_token b) (b_nonce b) ByTimeout) \/
     (exists c, In c (calls s) /\ call_cleanup_stop (c_timeout c) h = false /\
                e = EvCallRefund (c_nonce c) (c_refund c) (c_tokens c) ByTimeout)).
Proof.
  unfold do_observe_result; intros s n ok h s' evs I H. des H.
  apply orb_false_iff in E. destruct E as [E1 E2]. apply Z.leb_gt in E1, E2.
  simpl in H.
  destruct (cleanups_spec (set_pending (observed s h) ((evn s + 1, (n, ok)) :: pending s)) s' evs (inv_bn _ I) H) as (S & Ev); auto.
Qed.

Lemma batch_executed_op_spec : forall s token nonce h s' evs, Inv s ->
  do_batch_executed s token nonce h = ROk (s', evs) ->
  0 < h /\ 0 < nonce /\
  exists s1 e1 e2, batch_executed (observed s h) token nonce = ROk (s1, e1) /\ cleanups s1 = ROk (s', e2) /\ evs = e1 ++ e2 /\
    shrink s1 s' /\ NoDup (bnonces (batches s1)).
Proof.
  unfold do_batch_executed; intros s token nonce h s' evs I H. des H.
  apply orb_false_iff in E. destruct E as [E1 E2]. apply Z.leb_gt in E1, E2. mon.
  destruct x as [s1 e1], x0 as [s2 e2]. simpl in *.
  destruct (batch_executed_spec (observed s h) _ _ _ _ (inv_bn _ I) H0) as (b & _ & _ & _ & _ & _ & ND1 & _).
  destruct (cleanups_spec _ _ _ ND1 H1) as (S & _).
  repeat split; auto. exists s1, e1, e2. auto.
Qed.

Lemma lock_coins_toks : forall ts l holder coins l', lock_coins ts l holder coins = ROk l' -> True.
Proof. auto. Qed.

Lemma bridge_call_spec : forall s sender refund coins to data memo s' evs,
  do_bridge_call s sender refund coins to data memo = ROk (s', evs) ->
  exists t, cal_timeout s (p_call_timeout (prm s)) = ROk t /\ call_build_reject t = false /\
    calls s' = calls s ++ [{| c_nonce := next_call s; c_timeout := t; c_block := fxh s; c_sender := sender; c_refund := refund;
                              c_tokens := coins; c_to := to; c_data := data; c_memo := memo; c_evnonce := 0 |}] /\
    pool s' = pool s /\ batches s' = batches s /\
    next_tx s' = next_tx s /\ next_batch s' = next_batch s /\ next_call s' = next_call s + 1 /\
    obs_ext s' = obs_ext s /\ evs = [EvCallCreated (next_call s) t] /\
    lock_coins (toks s) (bal s) sender coins = ROk (bal s').
Proof.
  unfold do_bridge_call; intros. des H. des H. mon. des H. inv H. simpl.
  exists x0. repeat split; auto.
Qed.

Lemma bridge_call_p_spec : forall s sender refund value tokens to data memo s' evs,
  do_bridge_call_p s sender refund value tokens to data memo = ROk (s', evs) ->
  exists t l0, cal_timeout s (p_call_timeout (prm s)) = ROk t /\ call_build_reject t = false /\
    calls s' = calls s ++ [{| c_nonce := next_call s; c_timeout := t; c_block := fxh s; c_sender := sender; c_refund := refund;
                              c_tokens := (if 0 <? value then [(0, value)] else []) ++ tokens; c_to := to; c_data := data; c_memo := memo; c_evnonce := 0 |}] /\
    pool s' = pool s /\ batches s' = batches s /\ from_msg s' = from_msg s /\ pending s' = pending s /\
    next_tx s' = next_tx s /\ next_batch s' = next_batch s /\ next_call s' = next_call s + 1 /\
    obs_ext s' = obs_ext s /\ evs = [EvCallCreated (next_call s) t] /\
    erc20_to_base (toks s) (bal s) sender tokens = ROk l0 /\
    lock_coins (toks s) l0 sender ((if 0 <? value then [(0, value)] else []) ++ tokens) = ROk (bal s').
Proof.
  unfold do_bridge_call_p; intros. des H. mon. des H. inv H. simpl.
  exists x1, x. repeat split; auto.
Qed.

Lemma exec_result_spec : forall s e s' evs, do_exec_result s e = ROk (s', evs) ->
  exists n ok c, In (e, (n, ok)) (pending s) /\ In c (calls s) /\ c_nonce c = n /\
    pool s' = pool s /\ batches s' = batches s /\
    (forall c', In c' (calls s') -> In c' (calls s) /\ c_nonce c' <> n) /\
    (NoDup (cnonces (calls s)) -> NoDup (cnonces (calls s'))) /\
    next_tx s' = next_tx s /\ next_batch s' = next_batch s /\ next_call s' = next_call s /\
    obs_ext s' = obs_ext s /\
    (if ok then bal s' = bal s /\ evs = [EvCallDone n true]
     else refund_coins (toks s) (existsb (Z.eqb (c_nonce c)) (from_msg s)) (bal s) (c_refund c) (c_tokens c) = ROk (bal s') /\
          evs = [EvCallRefund n (c_refund c) (c_tokens c) ByFailure; EvCallDone n false]).
Proof.
  unfold do_exec_result; intros s e s' evs H.
  destruct (find (fun p => fst p =? e) (pending s)) as [[e' [n ok]]|] eqn:F; [|discriminate].
  apply find_some in F. destruct F as [Fin Fe]. simpl in Fe. apply Z.eqb_eq in Fe. subst e'.
  simpl in H.
  destruct (find_call n (calls s)) as [c|] eqn:Fc; [|discriminate].
  unfold find_call in Fc. apply find_some in Fc. destruct Fc as [Cin Cn]. apply Z.eqb_eq in Cn.
  assert (D : forall s1, calls s1 = calls s ->
              (forall c', In c' (calls (delete_call s1 n)) -> In c' (calls s) /\ c_nonce c' <> n) /\
              (NoDup (cnonces (calls s)) -> NoDup (cnonces (calls (delete_call s1 n))))).
  { intros s2 E2. unfold delete_call. rewrite E2.
    assert (Fc : find_call n (calls s) <> None).
    { unfold find_call. intro Fn. eapply find_none in Fn; eauto. simpl in Fn. rewrite Cn, Z.eqb_refl in Fn. discriminate. }
    destruct (find_call n (calls s)) as [c0|]; [|congruence]. simpl. split.
    - intros c' Hc'. unfold call_remove in Hc'. apply filter_In in Hc'. destruct Hc' as [Hc' Hn].
      split; auto. apply negb_true_iff, Z.eqb_neq in Hn; auto.
    - intros ND. unfold cnonces, call_remove. apply nodup_map_filter; auto. }
  exists n, ok, c. destruct ok.
  - simpl in H. injection H as <- <-.
    destruct (D (set_pending s (filter (fun p => negb (fst p =? e)) (pending s))) eq_refl) as (D1 & D2).
    unfold delete_call in *. simpl in *.
    destruct (find_call n (calls s)); simpl in *; repeat split; auto; try apply D1; auto.
  - apply bind_ok in H. destruct H as ([s1 e1] & H0 & H). simpl in H. injection H as <- <-.
    destruct (refund_call_spec _ _ _ _ _ H0) as (S1 & Ec & -> & Rf). simpl in *.
    destruct (D s1 Ec) as (D1 & D2).
    assert (P : pool s1 = pool s /\ batches s1 = batches s).
    { unfold refund_call in H0. apply bind_ok in H0. destruct H0 as (l & _ & H0). injection H0 as <-. simpl. auto. }
    destruct P as [P1 P2]. destruct S1. simpl in *.
    unfold delete_call in *. destruct (find_call n (calls s1)); simpl in *; repeat split; auto; try apply D1; auto; congruence.
Qed.

Lemma perm_in : forall A (a b : list A) x, Permutation a b -> In x a -> In x b.
Proof. intros; eapply Permutation_in; eauto. Qed.

Lemma same_core_rel : forall s s' o, Inv s ->
  (match o with Send _ _ _ _ _ | SendP _ _ _ _ _ | Cancel _ _ | IncreaseFee _ _ _ _ _ | IncreaseFeeP _ _ _ _ | BatchExecuted _ _ _ => False | _ => True end) ->
  pool s' = pool s -> batches s' = batches s -> calls s' = calls s ->
  next_tx s' = next_tx s -> next_batch s' = next_batch s -> next_call s' = next_call s -> step_rel s s' o.
Proof.
  intros s s' o I Ho Ep Eb Ec Et Enb Enc.
  constructor; try rewrite Eb; try rewrite Ec; try apply I; auto; try lia.
  apply TC_none; auto. unfold live. rewrite Ep, Eb; auto.
Qed.

Lemma exec_rel : forall s o s' evs, Inv s -> exec s o = ROk (s', evs) -> step_rel s s' o.
Proof.
  intros s o s' evs I H. pose proof (inv_pool_nodup _ I) as NDp. destruct o; simpl in H.
  - (* Send *)
    destruct (send_spec _ _ _ _ _ _ _ _ H) as (_ & _ & P & Eb & Ec & Et & Enb & Enc & _).
    constructor; try rewrite Eb; try rewrite Ec; try apply I; auto; try lia.
    eapply TC_send; [left; reflexivity| | |]; auto.
    + unfold live. rewrite Eb. change (?x :: ?a ++ ?b) with ((x :: a) ++ b). apply Permutation_app_tail; auto.
    + eapply perm_in; [apply Permutation_sym, P|]. simpl; auto.
  - (* SendP *)
    destruct (send_p_spec _ _ _ _ _ _ _ _ H) as (_ & _ & P & Eb & Ec & Et & Enb & Enc & _).
    constructor; try rewrite Eb; try rewrite Ec; try apply I; auto; try lia.
    eapply TC_send; [right; reflexivity| | |]; auto.
    + unfold live. rewrite Eb. change (?x :: ?a ++ ?b) with ((x :: a) ++ b). apply Permutation_app_tail; auto.
    + eapply perm_in; [apply Permutation_sym, P|]. simpl; auto.
  - (* Cancel *)
    destruct (cancel_spec _ _ _ _ _ NDp H) as (x & Hin & Hid & Hs & P & Eb & Ec & Et & Enb & Enc & _).
    constructor; try rewrite Eb; try rewrite Ec; try apply I; auto; try lia.
    eapply TC_cancel; eauto.
    unfold live. rewrite Eb. change (?x :: ?a ++ ?b) with ((x :: a) ++ b). apply Permutation_app_tail; auto.
  - (* IncreaseFee *)
    destruct (increase_spec _ _ _ _ _ _ _ _ NDp H) as (Ha & x & L & Hin & Hid & Htok & P & P' & Eb & Ec & Et & Enb & Enc & _).
    constructor; try rewrite Eb; try rewrite Ec; try apply I; auto; try lia.
    eapply TC_fee with (L := L ++ batch_txs (batches s)) (who := who) (token := token); eauto.
    + left; eauto.
    + unfold live. change (?x :: ?a ++ ?b) with ((x :: a) ++ b). apply Permutation_app_tail; auto.
    + unfold live. rewrite Eb. change (?x :: ?a ++ ?b) with ((x :: a) ++ b). apply Permutation_app_tail; auto.
    + eapply perm_in; [apply Permutation_sym, P'|]. simpl; auto.
  - (* IncreaseFeeP *)
    destruct (increase_p_spec _ _ _ _ _ _ _ NDp H) as (Ha & x & L & Hin & Hid & Htok & P & P' & Eb & Ec & Et & Enb & Enc & _).
    constructor; try rewrite Eb; try rewrite Ec; try apply I; auto; try lia.
    eapply TC_fee with (L := L ++ batch_txs (batches s)) (who := who) (token := token); eauto.
    + right; reflexivity.
    + unfold live. change (?x :: ?a ++ ?b) with ((x :: a) ++ b). apply Permutation_app_tail; auto.
    + unfold live. rewrite Eb. change (?x :: ?a ++ ?b) with ((x :: a) ++ b). apply Permutation_app_tail; auto.
    + eapply perm_in; [apply Permutation_sym, P'|]. simpl; auto.
  - (* RequestBatch *)
    destruct (request_batch_spec _ _ _ _ _ _ _ _ _ NDp (inv_bnlt _ I) H)
      as (b & P & Pb & Hn & Ht & Hf & Hblk & _ & _ & _ & _ & Ec & Et & Enb & Enc & _).
    constructor; try rewrite Ec; try apply I; auto; try lia.
    + apply TC_none; auto. unfold live.
      apply batch_txs_perm in Pb. simpl in Pb.
      eapply perm_trans; [apply Permutation_app_head, Pb|].
      rewrite app_assoc. apply Permutation_app_tail.
      eapply perm_trans; [apply Permutation_app_comm|]. apply Permutation_sym; auto.
    + intros b' Hb'. apply (perm_in _ _ _ _ Pb) in Hb'. destruct Hb' as [<-|Hb']; auto.
      right. repeat split; auto. rewrite Ht, Hf. eauto.
    + eapply Permutation_NoDup; [apply Permutation_map, Permutation_sym, Pb|].
      simpl. constructor; [|apply I]. intro Hx. apply in_map_iff in Hx. destruct Hx as (y & Ey & Hy).
      apply (inv_bnlt _ I) in Hy. lia.
  - (* BatchExecuted *)
    destruct (batch_executed_op_spec _ _ _ _ _ _ I H) as (_ & _ & s1 & e1 & e2 & H1 & H2 & _ & S & ND1).
    destruct (batch_executed_spec (observed s h) _ _ _ _ (inv_bn _ I) H1)
      as (b & Hin & Ht & Hn & P & Sub & _ & Ec & Et & Enb & Enc & _).
    simpl in *. destruct S.
    constructor; try lia.
    + eapply TC_exec; eauto; try congruence.
      eapply perm_trans; [exact P|]. apply Permutation_app_head, Permutation_sym; auto.
    + intros b' Hb'. left. apply sh_bsub0, Sub in Hb'. tauto.
    + auto.
    + intros c Hc. left. apply sh_csub0 in Hc. rewrite Ec in Hc; auto.
    + apply sh_cn0. rewrite Ec. apply I.
  - (* Observe *)
    destruct (observe_spec _ _ _ _ I H) as (_ & S & _).
    destruct (shrink_obs _ _ _ S) as (P & Bs & Bn & Cs & Cn & Et & Enb & Enc & _).
    constructor; auto; try lia; try (apply Bn || apply Cn; apply I).
    apply TC_none; auto.
  - (* BridgeCall *)
    destruct (bridge_call_spec _ _ _ _ _ _ _ _ _ H) as (t & _ & _ & Ec & Ep & Eb & Et & Enb & Enc & _).
    constructor; try rewrite Eb; try apply I; auto; try lia.
    + apply TC_none; auto. unfold live. rewrite Ep, Eb; auto.
    + intros c Hc. rewrite Ec in Hc. apply in_app_or in Hc. destruct Hc as [Hc|[<-|[]]]; auto.
      right. simpl. repeat split; auto.
    + rewrite Ec. unfold cnonces. rewrite map_app. simpl.
      eapply Permutation_NoDup; [apply Permutation_cons_append|].
      constructor; [|apply I]. intro Hx. apply in_map_iff in Hx. destruct Hx as (y & Ey & Hy).
      apply (inv_cnlt _ I) in Hy. lia.
  - (* BridgeCallP: a bridge call queued by the precompile; for the relation it is a BridgeCall with the assembled coins *)
    destruct (bridge_call_p_spec _ _ _ _ _ _ _ _ _ _ H) as (t & l0 & _ & _ & Ec & Ep & Eb & _ & _ & Et & Enb & Enc & _).
    constructor; try rewrite Eb; try apply I; auto; try lia.
    + apply TC_none; auto. unfold live. rewrite Ep, Eb; auto.
    + intros c Hc. rewrite Ec in Hc. apply in_app_or in Hc. destruct Hc as [Hc|[<-|[]]]; auto.
      right. simpl. repeat split; auto. right. eauto 10.
    + rewrite Ec. unfold cnonces. rewrite map_app. simpl.
      eapply Permutation_NoDup; [apply Permutation_cons_append|].
      constructor; [|apply I]. intro Hx. apply in_map_iff in Hx. destruct Hx as (y & Ey & Hy).
      apply (inv_cnlt _ I) in Hy. lia.
  - (* ObserveResult *)
    destruct (observe_result_spec _ _ _ _ _ _ I H) as (_ & _ & S & _).
    destruct S; simpl in *.
    constructor; auto; try lia; try (apply sh_bn0 || apply sh_cn0; apply I).
    apply TC_none; auto.
  - (* ExecResult *)
    destruct (exec_result_spec _ _ _ _ H) as (n & ok & c & _ & _ & _ & Ep & Eb & Cs & Cn & Et & Enb & Enc & _).
    constructor; try rewrite Eb; try apply I; auto; try lia.
    + apply TC_none; auto. unfold live. rewrite Ep, Eb; auto.
    + intros c' Hc'. left. apply Cs in Hc'. tauto.
    + apply Cn, I.
  - (* NextBlock *)
    inv H. apply same_core_rel; simpl; auto.
  - (* SetParams *)
    des H. inv H. apply same_core_rel; simpl; auto.
  - (* Migrate *)
    des H. inv H. apply same_core_rel; simpl; auto.
Qed.

(* ---------- the invariant is inductive ---------- *)
Lemma with_fee_id : forall x f, tx_id (with_fee x f) = tx_id x.
Proof. reflexivity. Qed.

Lemma nodup_app_r : forall A (a b : list A), NoDup (a ++ b) -> NoDup b.
Proof. induction a; simpl; intros b N; auto. inv N; auto. Qed.

Lemma step_rel_inv : forall s s' o, Inv s -> step_rel s s' o -> rel_rel s s' o -> Inv s'.
Proof.
  intros s s' o I [TX BS BN NB CS CN NC] [RR RN].
  assert (IDS : NoDup (ids (live s')) /\ forall x, In x (live s') -> tx_id x < next_tx s').
  { destruct TX as [o P E _ | o sender dest amount fee token _ P Hin E | id who x Hin Hid Hs P E
                   | o1 id who add token x L Hfi Hin Hid Ha P P' Hin' E | token nonce h b Hb Ht Hn P E].
    - split; [eapply nodup_perm_ids; [apply Permutation_sym; eauto | apply I]|].
      intros x Hx. rewrite E. apply (inv_idlt _ I). eapply perm_in; eauto.
    - split.
      + eapply nodup_perm_ids; [apply Permutation_sym; eauto|]. simpl. constructor; [|apply I].
        intro Hx. apply in_map_iff in Hx. destruct Hx as (y & Ey & Hy). apply (inv_idlt _ I) in Hy. lia.
      + intros x Hx. apply (perm_in _ _ _ _ P) in Hx. destruct Hx as [<-|Hx]; simpl; [lia|].
        apply (inv_idlt _ I) in Hx. lia.
    - pose proof (nodup_perm_ids _ _ P (inv_ids _ I)) as N. simpl in N. inv N. split; auto.
      intros y Hy. rewrite E. apply (inv_idlt _ I). eapply perm_in; [apply Permutation_sym; eauto|]. simpl; auto.
    - pose proof (nodup_perm_ids _ _ P (inv_ids _ I)) as N. split.
      + eapply nodup_perm_ids; [apply Permutation_sym; eauto|]. exact N.
      + intros y Hy. rewrite E. apply (perm_in _ _ _ _ P') in Hy.
        assert (F : forall z, In z (x :: L) -> tx_id z < next_tx s).
        { intros z Hz. apply (inv_idlt _ I). eapply perm_in; [apply Permutation_sym; eauto|auto]. }
        destruct Hy as [<-|Hy]; [rewrite with_fee_id; apply F; simpl; auto | apply F; simpl; auto].
    - pose proof (nodup_perm_ids _ _ P (inv_ids _ I)) as N. unfold ids in N. rewrite map_app in N.
      apply nodup_app_r in N. split; auto.
      intros y Hy. rewrite E. apply (inv_idlt _ I). eapply perm_in; [apply Permutation_sym; eauto|].
      apply in_or_app; auto. }
  destruct IDS as [I1 I2]. constructor; auto.
  - intros b Hb. destruct (BS b Hb) as [Hb'|(E & E' & _)]; [apply (inv_bnlt _ I) in Hb'|]; lia.
  - intros c Hc. destruct (CS c Hc) as [Hc'|(E & E' & _)]; [apply (inv_cnlt _ I) in Hc'|]; lia.
  - intros r Hr. apply RR in Hr. destruct Hr as [[_ Hr]|[-> (a & b & c & d & t & k & -> & _)]]; auto.
    inversion TX as [? ? ? F | ? sender dest amount fee token Hs P Hin E | | ? ? ? ? ? ? ? Hfi |]; subst;
      [contradiction| |destruct Hfi as [(wh & Hfi)|Hfi]; discriminate Hfi].
    apply (in_map tx_id) in Hin. unfold live, ids. rewrite map_app. apply in_or_app. left. exact Hin.
Qed.

Lemma init_inv : forall p ts l h0, Inv (init p ts l h0).
Proof. intros; constructor; simpl; try constructor; intros; contradiction. Qed.

Lemma step_state_cases : forall s o, (exists evs, exec s o = ROk (step_state s o, evs)) \/ step_state s o = s.
Proof.
  intros s o. unfold step_state, step. destruct (exec s o) as [[s' evs]| |]; simpl; eauto.
Qed.

(* ---------- the erc20 outgoing relation ---------- *)
Lemma existsb_id_false : forall l r, existsb (fun x => tx_id x =? r) l = false <-> ~ In r (ids l).
Proof.
  intros l r. split.
  - intros E H. unfold ids in H. apply in_map_iff in H. destruct H as (x & Ex & Hx).
    assert (existsb (fun x => tx_id x =? r) l = true); [|congruence].
    apply existsb_exists. exists x. split; auto. apply Z.eqb_eq; auto.
  - intros N. destruct (existsb (fun x => tx_id x =? r) l) eqn:E; auto. exfalso. apply N.
    apply existsb_exists in E. destruct E as (x & Hx & Ex). apply Z.eqb_eq in Ex. rewrite <- Ex. apply in_map; auto.
Qed.

Lemma existsb_z : forall id l, existsb (Z.eqb id) l = true <-> In id l.
Proof.
  intros id l. rewrite existsb_exists. split.
  - intros (x & Hx & E). apply Z.eqb_eq in E. subst; auto.
  - intros H. exists id. split; auto. apply Z.eqb_refl.
Qed.

Lemma nodup_app_disj : forall (a b : list Z) x, NoDup (a ++ b) -> In x a -> In x b -> False.
Proof.
  induction a as [|y r IH]; simpl; intros b x N Ha Hb; [contradiction|]. inv N.
  destruct Ha as [->|Ha]; [apply H1, in_or_app; auto | eauto].
Qed.

Ltac nosend := match goal with H : is_send _ _ _ _ _ _ |- _ => destruct H as [H|H]; discriminate H end.

Ltac nofee := match goal with H : is_fee_inc _ _ _ _ _ |- _ => destruct H as [(? & H)|H]; discriminate H end.

Lemma exec_relation : forall s o s' evs, Inv s -> exec s o = ROk (s', evs) -> rel_rel s s' o.
Proof.
  intros s o s' evs I H. pose proof (exec_rel _ _ _ _ I H) as [TX _ _ _ _ _ _].
  pose proof (inv_pool_nodup _ I) as NDp.
  assert (KEEP : relation s' = relation s -> ~ evm_erc20_send s o ->
                 (forall r, In r (ids (live s)) -> In r (ids (live s'))) -> rel_rel s s' o).
  { intros E N L. apply rel_keep; auto. }
  assert (PERM : Permutation (live s') (live s) -> forall r, In r (ids (live s)) -> In r (ids (live s'))).
  { intros P r. apply perm_ids_in, Permutation_sym, P. }
  destruct o; simpl in H.
  - (* Send *)
    destruct (send_spec _ _ _ _ _ _ _ _ H) as (_ & _ & _ & _ & _ & _ & _ & _ & _ & _ & Er & _).
    apply KEEP; auto. { intros (a & b & c & d & t & k9 & E9 & _). discriminate. }
    inversion TX as [ | ? ? ? ? ? ? _ P _ _ | | |]; subst; try contradiction; try nosend; try nofee.
    intros r Hr. eapply perm_ids_in; [apply Permutation_sym, P|]. simpl. auto.
  - (* SendP *)
    destruct (send_p_spec _ _ _ _ _ _ _ _ H) as (_ & _ & _ & _ & _ & _ & _ & _ & _ & _ & _ & [(K & Er & _)|(k & K & Ke & Er & _)]);
      inversion TX as [ | ? ? ? ? ? ? Hsend P Hin _ | | |]; subst; try contradiction; try nofee; destruct Hsend as [Hsend|Hsend]; inv Hsend.
    + apply KEEP; auto. { intros (a & b & c & d & t & k9 & E9 & K1 & K2). inv E9. rewrite K in K1. inv K1. discriminate K2. }
      intros r Hr. eapply perm_ids_in; [apply Permutation_sym, P|]. simpl. auto.
    + assert (L : forall r, In r (ids (live s)) -> In r (ids (live s'))).
      { intros r Hr. eapply perm_ids_in; [apply Permutation_sym, P|]. simpl. auto. }
      split.
      * intros r. rewrite Er. simpl. split.
        -- intros [<-|Hr]; [right; split; auto; do 6 eexists; split; [reflexivity | split; [exact K | exact Ke]]|].
           left. split; auto. apply L, (inv_rel _ I); auto.
        -- intros [[Hr _]|[-> _]]; auto.
      * rewrite Er. constructor; [|apply I]. intro Hr. apply (inv_rel _ I) in Hr.
        unfold ids in Hr. apply in_map_iff in Hr. destruct Hr as (y & Ey & Hy). apply (inv_idlt _ I) in Hy. lia.
  - (* Cancel *)
    destruct (cancel_spec _ _ _ _ _ NDp H) as (x & Hin & Hid & Hs & _ & _ & _ & _ & _ & _ & _ & _ & _ & k & l & _ & _ & R).
    inversion TX as [ | | ? ? x' Hin' Hid' Hs' P E | |]; subst; try contradiction; try nosend; try nofee.
    pose proof (nodup_perm_ids _ _ P (inv_ids _ I)) as N. simpl in N. inversion N as [|? ? N1 N2]; subst.
    assert (x' = x) by (eapply nodup_ids_unique; [apply NDp| | |]; auto). subst x'.
    assert (LS : forall r, In r (ids (live s)) -> r <> tx_id x -> In r (ids (live s'))).
    { intros r Hr Ne. apply (perm_ids_in _ _ _ P) in Hr. simpl in Hr. destruct Hr; [congruence|auto]. }
    destruct (existsb (Z.eqb (tx_id x)) (relation s)) eqn:Rl.
    + destruct R as [_ Er]. split.
      * intros r. rewrite Er, filter_In, negb_true_iff, Z.eqb_neq. split.
        -- intros [Hr Ne]. left. split; auto. apply LS; auto. apply (inv_rel _ I); auto.
        -- intros [[Hr Hl]|[_ (a & b & c & d & t & k9 & E9 & _)]]; [|discriminate]. split; auto.
           intro E0. subst r. contradiction.
      * rewrite Er. apply NoDup_filter, I.
    + destruct R as [_ Er]. split; [|rewrite Er; apply I].
      intros r. rewrite Er. split.
      * intros Hr. left. split; auto. apply LS; [apply (inv_rel _ I); auto|].
        intro E0. subst r. apply existsb_z in Hr. congruence.
      * intros [[Hr _]|[_ (a & b & c & d & t & k9 & E9 & _)]]; [auto|discriminate].
  - (* IncreaseFee *)
    destruct (increase_spec _ _ _ _ _ _ _ _ NDp H) as (_ & x & L & _ & _ & _ & _ & _ & _ & _ & _ & _ & _ & _ & _ & Er & _).
    apply KEEP; auto. { intros (a & b & c & d & t & k9 & E9 & _). discriminate. }
    inversion TX as [ | | | ? ? ? ? ? x' L' _ _ _ _ P P' _ _ |]; subst; try contradiction; try nosend.
    intros r Hr. apply (perm_ids_in _ _ _ P) in Hr. eapply perm_ids_in; [apply Permutation_sym, P'|]. exact Hr.
  - (* IncreaseFeeP *)
    destruct (increase_p_spec _ _ _ _ _ _ _ NDp H) as (_ & x & L & _ & _ & _ & _ & _ & _ & _ & _ & _ & _ & _ & _ & Er & _).
    apply KEEP; auto. { intros (a & b & c & d & t & k9 & E9 & _). discriminate. }
    inversion TX as [ | | | ? ? ? ? ? x' L' _ _ _ _ P P' _ _ |]; subst; try contradiction; try nosend.
    intros r Hr. apply (perm_ids_in _ _ _ P) in Hr. eapply perm_ids_in; [apply Permutation_sym, P'|]. exact Hr.
  - (* RequestBatch *)
    destruct (request_batch_spec _ _ _ _ _ _ _ _ _ NDp (inv_bnlt _ I) H) as (b & R). decompose [and] R.
    apply KEEP; auto. { intros (a & b' & c & d & t & k9 & E9 & _). discriminate. }
    inversion TX as [? P _ _ | | | |]; subst; try nosend; try nofee. auto.
  - (* BatchExecuted *)
    destruct (batch_executed_op_spec _ _ _ _ _ _ I H) as (_ & _ & s1 & e1 & e2 & H1 & H2 & _ & S & ND1).
    destruct (batch_executed_relation (observed s h) _ _ _ _ (inv_bn _ I) H1) as (b & F & Er). simpl in F, Er.
    destruct (find_batch_in _ _ _ _ F) as (Hb & Ht & Hn).
    inversion TX as [ | | | | ? ? ? b' Hb' Ht' Hn' P E]; subst; try contradiction; try nosend; try nofee.
    assert (b' = b) by (eapply nodup_bnonce_unique; [apply I| | |]; auto; congruence). subst b'.
    pose proof (nodup_perm_ids _ _ P (inv_ids _ I)) as N. unfold ids in N. rewrite map_app in N.
    unfold rel_rel. rewrite (sh_rel _ _ S), Er. split; [|apply NoDup_filter, I].
    intros r. rewrite filter_In, negb_true_iff, existsb_id_false. split.
    + intros [Hr Nb]. left. split; auto. apply (inv_rel _ I) in Hr. apply (perm_ids_in _ _ _ P) in Hr.
      unfold ids in Hr. rewrite map_app in Hr. apply in_app_or in Hr. destruct Hr; [contradiction|auto].
    + intros [[Hr Hl]|[_ (a & b0 & c & d & t & k9 & E9 & _)]]; [|discriminate]. split; auto.
      intro Hb0. eapply nodup_app_disj; eauto.
  - (* Observe *)
    destruct (observe_spec _ _ _ _ I H) as (_ & S & _).
    apply KEEP; [apply (sh_rel _ _ S) | intros (a & b & c & d & t & k9 & E9 & _); discriminate|].
    inversion TX as [? P _ _ | | | |]; subst; try nosend; try nofee. auto.
  - (* BridgeCall *)
    apply KEEP; [eapply bridge_call_relation; eauto | intros (a & b & c & d & t & k9 & E9 & _); discriminate|].
    inversion TX as [? P _ _ | | | |]; subst; try nosend; try nofee. auto.
  - (* BridgeCallP *)
    apply KEEP; [eapply bridge_call_p_relation; eauto | intros (a & b & c & d & t & k9 & E9 & _); discriminate|].
    inversion TX as [? P _ _ | | | |]; subst; try nosend; try nofee. auto.
  - (* ObserveResult *)
    destruct (observe_result_spec _ _ _ _ _ _ I H) as (_ & _ & S & _).
    apply KEEP; [apply (sh_rel _ _ S) | intros (a & b & c & d & t & k9 & E9 & _); discriminate|].
    inversion TX as [? P _ _ | | | |]; subst; try nosend; try nofee. auto.
  - (* ExecResult *)
    apply KEEP; [eapply exec_result_relation; eauto | intros (a & b & c & d & t & k9 & E9 & _); discriminate|].
    inversion TX as [? P _ _ | | | |]; subst; try nosend; try nofee. auto.
  - inv H. apply KEEP; auto. intros (a & b & c & d & t & k9 & E9 & _); discriminate.
  - des H. inv H. apply KEEP; auto. intros (a & b & c & d & t & k9 & E9 & _); discriminate.
  - des H. inv H. apply KEEP; auto. intros (a & b & c & d & t & k9 & E9 & _); discriminate.
Qed.

Lemma step_inv : forall s o, Inv s -> Inv (step_state s o).
Proof.
  intros s o I. destruct (step_state_cases s o) as [(evs & H)|E]; [|rewrite E; auto].
  eapply step_rel_inv; eauto; [eapply exec_rel; eauto | eapply exec_relation; eauto].
Qed.

Lemma run_inv : forall ops s, Inv s -> Inv (run s ops).
Proof. induction ops as [|o r IH]; simpl; intros s I; auto. apply IH, step_inv; auto. Qed.

Definition reachable (s : state) : Prop := exists p ts l h0 ops, s = run (init p ts l h0) ops.

Lemma reachable_inv : forall s, reachable s -> Inv s.
Proof. intros s (p & ts & l & h0 & ops & ->). apply run_inv, init_inv. Qed.
