(* P_Precompile — proofs for C10 over model.M_Precompile and the generated method table. *)
From Coq Require Import ZArith List Bool String Lia.
From FxV Require Import gen.Gen_Precompiles model.M_Precompile.
Import ListNotations.
Open Scope Z_scope.

(* ------------------------------------------------------------------ *)
(* what may happen to an account that is not the direct caller *)

Definition rwd_nonneg (s : pst) : Prop := forall a v, 0 <= rwd s a v.

Definition tp_ok (caller : acct) (c : call) (s s' : pst) : Prop :=
  forall a, a <> caller ->
    bal s a <= bal s' a /\
    (forall v, unb s a v <= unb s' a v) /\
    (forall v, dlg s a v <= dlg s' a v \/
               exists to sh, c = CTransferFromShares v a to sh /\ dlg s a v - sh <= dlg s' a v /\
                             0 < sh <= alw s v a caller /\ alw s' v a caller = alw s v a caller - sh) /\
    (forall v, rwd s' a v = rwd s a v \/
               (rwd s' a v = 0 /\ bal s (wdr s a) + rwd s a v <= bal s' (wdr s a))) /\
    (forall v sp, alw s' v a sp = alw s v a sp \/
                  (sp = caller /\ exists to sh, c = CTransferFromShares v a to sh /\
                                 0 < sh <= alw s v a sp /\ alw s' v a sp = alw s v a sp - sh)) /\
    pool_kept s s' a /\ bcalls_kept s s' a.

Ltac zb :=
  repeat match goal with
         | H : Z.eqb _ _ = true |- _ => apply Z.eqb_eq in H
         | H : Z.eqb _ _ = false |- _ => apply Z.eqb_neq in H
         | H : Z.ltb _ _ = true |- _ => apply Z.ltb_lt in H
         | H : Z.ltb _ _ = false |- _ => apply Z.ltb_ge in H
         | H : Z.leb _ _ = true |- _ => apply Z.leb_le in H
         | H : Z.leb _ _ = false |- _ => apply Z.leb_gt in H
         | H : negb _ = true |- _ => apply negb_true_iff in H
         | H : negb _ = false |- _ => apply negb_false_iff in H
         | H : _ && _ = true |- _ => apply andb_true_iff in H; destruct H
         | H : _ || _ = false |- _ => apply orb_false_iff in H; destruct H
         end.

Lemma pool_kept_refl s a : pool_kept s s a.
Proof. intros id amt fee H. exists fee. split; [exact H|lia]. Qed.
Lemma bcalls_kept_refl s a : bcalls_kept s s a.
Proof. intros n r x H. exact H. Qed.

Lemma pool_kept_eq s s' a : pool s' = pool s -> pool_kept s s' a.
Proof. intros E id amt fee H. exists fee. rewrite E. split; [exact H|lia]. Qed.
Lemma bcalls_kept_eq s s' a : bcalls s' = bcalls s -> bcalls_kept s s' a.
Proof. intros E n r x H. rewrite E. exact H. Qed.

(* a state change that leaves everything of third parties alone *)
Lemma tp_ok_same caller c s : tp_ok caller c s s.
Proof.
  intros a _. repeat split; try lia; try (intros; left; reflexivity); try (intros; left; lia).
  - apply pool_kept_refl.
  - apply bcalls_kept_refl.
Qed.

(* ---- building blocks ---- *)

Lemma pay_bal s x k a : bal (pay s x k) a = if Z.eqb a x then bal s x + k else bal s a.
Proof. unfold pay, set_bal, up1. cbn. destruct (Z.eqb a x) eqn:E; [apply Z.eqb_eq in E; subst|]; reflexivity. Qed.

Lemma wr_bal s d v a : rwd_nonneg s -> bal s a <= bal (withdraw_rewards s d v) a.
Proof.
  intro N. unfold withdraw_rewards. cbn. unfold up1. destruct (Z.eqb a (wdr s d)) eqn:E.
  - apply Z.eqb_eq in E. subst. specialize (N d v). lia.
  - lia.
Qed.

Lemma wr_nonneg s d v : rwd_nonneg s -> rwd_nonneg (withdraw_rewards s d v).
Proof.
  intros N a v'. unfold withdraw_rewards. cbn. unfold up2.
  destruct (Z.eqb a d && Z.eqb v' v); [lia|apply N].
Qed.

(* ---- transfer_shares ---- *)

Ltac ifs H :=
  repeat match type of H with
         | context [if ?b then _ else _] => let E := fresh "E" in destruct b eqn:E; try discriminate H
         end.

Ltac eqbs :=
  repeat match goal with
         | |- context [Z.eqb ?a ?b] => let E := fresh "Q" in destruct (Z.eqb a b) eqn:E
         end.

Ltac fin :=
  zb; subst; cbn;
  repeat match goal with
         | H : ?x = ?y |- _ => first [subst x | subst y | (rewrite H in *; clear H)]
         end;
  try lia.

Lemma ts_spec s v from to sh s' :
  rwd_nonneg s -> 0 < sh -> transfer_shares s v from to sh = Ok s' ->
  (forall a, bal s a <= bal s' a) /\
  unb s' = unb s /\ alw s' = alw s /\ pool s' = pool s /\ bcalls s' = bcalls s /\ wdr s' = wdr s /\
  (forall a v', (a <> from \/ v' <> v) -> dlg s a v' <= dlg s' a v') /\
  dlg s from v - sh <= dlg s' from v /\
  (forall a v', rwd s' a v' = rwd s a v' \/
                (rwd s' a v' = 0 /\ bal s (wdr s a) + rwd s a v' <= bal s' (wdr s a))).
Proof.
  intros N Hsh H. unfold transfer_shares in H. ifs H; inversion H; subst s'; clear H; zb;
    pose proof (N from v) as Nf; pose proof (N to v) as Nt; repeat split.
  (* balances only grow *)
  1,5: intro a; cbn; unfold up1, up2; eqbs; fin.
  (* other delegations *)
  1,4: intros a v' D; cbn; unfold up1, up2; cbn;
      destruct (Z.eqb a to && Z.eqb v' v) eqn:A1; destruct (Z.eqb a from && Z.eqb v' v) eqn:A2; zb; subst; try lia;
      try (destruct D; congruence).
  (* the source delegation *)
  1,3: cbn; unfold up1, up2; cbn; destruct (Z.eqb from to && Z.eqb v v) eqn:A1; rewrite ?Z.eqb_refl; cbn; zb; subst; try lia.
  (* rewards *)
  all: intros a v'; cbn; unfold up1, up2; cbn;
    destruct (Z.eqb a to && Z.eqb v' v) eqn:A1; destruct (Z.eqb a from && Z.eqb v' v) eqn:A2; cbn;
    first [ left; reflexivity
          | right; split; [reflexivity | zb; subst; rewrite ?Z.eqb_refl; cbn; eqbs; fin ] ].
Qed.

(* ------------------------------------------------------------------ *)
(* every method, every argument: third parties *)

Definition wf_state (s : pst) : Prop :=
  rwd_nonneg s /\ (forall id, next_tx s < id -> pool s id = None) /\ (forall n, next_bc s < n -> bcalls s n = None).

Ltac unf_all := unfold withdraw_rewards, pay, set_bal, set_dlg, set_rwd, set_alw, set_unb, set_rrd, set_pool, set_bcalls,
                       up1, up2, up3 in *; cbn in *.

(* projections through withdraw_rewards, without unfolding it *)
Lemma wrp_bal s d v x : bal (withdraw_rewards s d v) x = if Z.eqb x (wdr s d) then bal s x + rwd s d v else bal s x.
Proof. unfold withdraw_rewards, pay, set_rwd, set_bal, up1. cbn. destruct (Z.eqb x (wdr s d)) eqn:E; [apply Z.eqb_eq in E; subst|]; reflexivity. Qed.
Lemma wrp_rwd s d v a v' : rwd (withdraw_rewards s d v) a v' = if Z.eqb a d && Z.eqb v' v then 0 else rwd s a v'.
Proof. reflexivity. Qed.
Lemma wrp_dlg s d v : dlg (withdraw_rewards s d v) = dlg s. Proof. reflexivity. Qed.
Lemma wrp_wdr s d v : wdr (withdraw_rewards s d v) = wdr s. Proof. reflexivity. Qed.
Lemma wrp_alw s d v : alw (withdraw_rewards s d v) = alw s. Proof. reflexivity. Qed.
Lemma wrp_unb s d v : unb (withdraw_rewards s d v) = unb s. Proof. reflexivity. Qed.
Lemma wrp_rrd s d v : rrd (withdraw_rewards s d v) = rrd s. Proof. reflexivity. Qed.
Lemma wrp_pool s d v : pool (withdraw_rewards s d v) = pool s. Proof. reflexivity. Qed.
Lemma wrp_bcalls s d v : bcalls (withdraw_rewards s d v) = bcalls s. Proof. reflexivity. Qed.
Lemma wrp_next_tx s d v : next_tx (withdraw_rewards s d v) = next_tx s. Proof. reflexivity. Qed.
Lemma wrp_next_bc s d v : next_bc (withdraw_rewards s d v) = next_bc s. Proof. reflexivity. Qed.

Ltac proj :=
  repeat progress
    (cbn [bal dlg rwd wdr alw unb rrd isval pool next_tx bcalls next_bc xready switch
          set_bal set_dlg set_rwd set_alw set_unb set_rrd set_pool set_bcalls pay];
     rewrite ?wrp_bal, ?wrp_rwd, ?wrp_dlg, ?wrp_wdr, ?wrp_alw, ?wrp_unb, ?wrp_rrd, ?wrp_pool, ?wrp_bcalls,
             ?wrp_next_tx, ?wrp_next_bc;
     unfold up1, up2, up3).

Ltac nonneg N :=
  repeat match goal with
         | |- context [rwd ?s ?x ?v] =>
             lazymatch goal with
             | _ : 0 <= rwd s x v |- _ => fail
             | _ => pose proof (N x v)
             end
         end.

(* third-party clauses when only entries keyed by the caller (and balances upward) change *)
Ltac tp_simple N :=
  let a := fresh "a" in let Ha := fresh "Ha" in let Hf := fresh "Hf" in
  intros a Ha;
  match goal with
  | Ha' : a <> ?c |- _ =>
      assert (Hf : Z.eqb a c = false) by (apply Z.eqb_neq; exact Ha')
  end;
  repeat split;
  [ proj; rewrite ?Hf; cbn [andb]; proj; eqbs; nonneg N; fin
  | intros ?; proj; rewrite ?Hf; cbn [andb]; eqbs; fin
  | intros ?; left; proj; rewrite ?Hf; cbn [andb]; eqbs; fin
  | intros ?; left; proj; rewrite ?Hf; cbn [andb]; eqbs; fin
  | intros ? ?; left; proj; rewrite ?Hf; cbn [andb]; eqbs; fin
  | idtac | idtac ].

Lemma method_run_tp caller value c s s' :
  0 <= value -> wf_state s -> method_run caller value c s = Ok s' -> tp_ok caller c s s'.
Proof.
  intros Hv (N & PF & BF) H. destruct c; cbn [method_run] in H.
  1-3,11-15: (inversion H; subst; apply tp_ok_same).
  - (* approveShares *)
    ifs H. inversion H; subst; clear H. tp_simple N; [apply pool_kept_eq; reflexivity|apply bcalls_kept_eq; reflexivity].
  - (* transferShares *)
    ifs H. zb. destruct (ts_spec _ _ _ _ _ _ N E H) as (B & U & A & P & BC & W & D & DS & R).
    intros a Ha. repeat split.
    + apply B.
    + intro v0. rewrite U. lia.
    + intro v0. left. apply D. left. exact Ha.
    + intro v0. apply R.
    + intros v0 sp. left. rewrite A. reflexivity.
    + intros id amt fee Hp. exists fee. rewrite P. split; [exact Hp|lia].
    + intros n r x Hb. rewrite BC. exact Hb.
  - (* transferFromShares *)
    ifs H. zb.
    set (s0 := set_alw s (up3 (alw s) v from caller (alw s v from caller - sh))) in *.
    assert (N0 : rwd_nonneg s0) by exact N.
    destruct (ts_spec _ _ _ _ _ _ N0 E H) as (B & U & A & P & BC & W & D & DS & R).
    intros a Ha. repeat split.
    + apply (B a).
    + intro v0. rewrite U. cbn. lia.
    + intro v0. destruct (Z.eq_dec a from) as [->|Na]; [destruct (Z.eq_dec v0 v) as [->|Nv]|].
      * right. exists to, sh. split; [reflexivity|]. split; [exact DS|]. split; [lia|].
        rewrite A. unfold s0. cbn. unfold up3. rewrite !Z.eqb_refl. reflexivity.
      * left. apply (D from v0). right. exact Nv.
      * left. apply (D a v0). left. exact Na.
    + intro v0. apply (R a v0).
    + intros v0 sp. rewrite A. unfold s0. cbn. unfold up3.
      destruct (Z.eqb v0 v && Z.eqb a from && Z.eqb sp caller) eqn:K.
      * right. zb. subst. split; [reflexivity|]. exists to, sh. repeat split; lia.
      * left. reflexivity.
    + intros id amt fee Hp. exists fee. rewrite P. split; [exact Hp|lia].
    + intros n r x Hb. rewrite BC. exact Hb.
  - (* withdraw *)
    ifs H. inversion H; subst; clear H. tp_simple N; [apply pool_kept_eq; reflexivity|apply bcalls_kept_eq; reflexivity].
  - (* delegateV2 *)
    ifs H; inversion H; subst; clear H; tp_simple N; try (apply pool_kept_eq; reflexivity); try (apply bcalls_kept_eq; reflexivity).
  - (* redelegateV2 *)
    ifs H; inversion H; subst; clear H; tp_simple N; try (apply pool_kept_eq; reflexivity); try (apply bcalls_kept_eq; reflexivity).
  - (* undelegateV2 *)
    ifs H; inversion H; subst; clear H; tp_simple N; try (apply pool_kept_eq; reflexivity); try (apply bcalls_kept_eq; reflexivity).
  - (* cancelSendToExternal *)
    ifs H. destruct (pool s txid) as [[[sd am] fe]|] eqn:P; [|discriminate]. ifs H. inversion H; subst; clear H. zb. subst sd.
    tp_simple N.
    + intros id amt fee Hp. exists fee. split; [|lia]. unf_all.
      destruct (Z.eqb id txid) eqn:Q; [|exact Hp]. zb. subst. rewrite P in Hp. inversion Hp. congruence.
    + apply bcalls_kept_eq; reflexivity.
  - (* increaseBridgeFee *)
    ifs H. destruct (pool s txid) as [[[sd am] fe]|] eqn:P; [|discriminate]. inversion H; subst; clear H. zb.
    tp_simple N.
    + intros id amt fee0 Hp. unf_all.
      destruct (Z.eqb id txid) eqn:Q.
      * zb. subst. rewrite P in Hp. inversion Hp; subst. eexists. split; [reflexivity|lia].
      * exists fee0. split; [exact Hp|lia].
    + apply bcalls_kept_eq; reflexivity.
  - (* crossChain *)
    ifs H. inversion H; subst; clear H. zb.
    tp_simple N.
    + intros id amt0 fee0 Hp. exists fee0. split; [|lia]. unf_all.
      destruct (Z.eqb id (next_tx s + 1)) eqn:Q; [|exact Hp]. zb. subst. rewrite PF in Hp by lia. discriminate.
    + apply bcalls_kept_eq; reflexivity.
  - (* bridgeCall *)
    ifs H. inversion H; subst; clear H.
    tp_simple N.
    + apply pool_kept_eq; reflexivity.
    + intros n r x Hb. unf_all.
      destruct (Z.eqb n (next_bc s + 1)) eqn:Q; [|exact Hb]. zb. subst. rewrite BF in Hb by lia. discriminate.
  - discriminate.
  - discriminate.
  - discriminate.
Qed.

(* ------------------------------------------------------------------ *)
(* Contract.Run with the guard order found in the source *)

Definition expected_guards : list guard := [GInputLen; GLookup; GReadonly; GDisabled; GDispatch].

Lemma guards_expected c : guards_of c = expected_guards.
Proof. destruct c; reflexivity. Qed.

Definition mid_of (c : call) : string :=
  match find_method methods c with Some m => pm_selector m | None => EmptyString end.

Lemma contract_run_ok ro caller v c s s' :
  contract_run methods expected_guards ro caller v c s = Ok s' ->
  c <> CShortInput /\
  (exists m, find_method methods c = Some m /\ (ro && negb (pm_readonly m)) = false) /\
  is_disabled (switch s) (contract_addr (call_contract c)) (mid_of c) = false /\
  method_run caller v c s = Ok s'.
Proof.
  unfold expected_guards, mid_of. cbn [contract_run run_guard].
  destruct c; try (destruct (find_method methods _) as [m|] eqn:F; [|discriminate]);
    try discriminate;
    (destruct (negb (ro && negb (pm_readonly m))) eqn:G; [|discriminate]);
    (destruct (negb (is_disabled _ _ _)) eqn:D; [|discriminate]);
    intro H; (split; [discriminate|]); (split; [exists m; split; [reflexivity|apply negb_true_iff; exact G]|]);
    (split; [apply negb_true_iff; exact D|exact H]).
Qed.

Lemma evm_readonly_values :
  evm_readonly evm_sites CALL = Some false /\ evm_readonly evm_sites CALLCODE = Some true /\
  evm_readonly evm_sites DELEGATECALL = Some true /\ evm_readonly evm_sites STATICCALL = Some true.
Proof. repeat split; reflexivity. Qed.

Definition eff_value (k : callkind) (value : Z) : Z := match k with CALL | CALLCODE => value | _ => 0 end.

Lemma entry_ok_inv k st caller value c s s' :
  entry k st caller value c s = Some (Ok s') ->
  exists ro, evm_readonly evm_sites k = Some ro /\
             contract_run methods expected_guards ro caller (eff_value k value) c s = Ok s'.
Proof.
  unfold entry, precompile_entry. destruct (evm_readonly evm_sites k) as [ro|] eqn:R; [|discriminate].
  intro H. exists ro. split; [reflexivity|]. injection H as H1.
  rewrite guards_expected in H1.
  destruct (match k with CALL => st && (0 <? value) | _ => false end); [discriminate H1|].
  destruct (match k with CALL | CALLCODE => bal s caller <? value | _ => false end); [discriminate H1|].
  exact H1.
Qed.

(* C10, part 1 *)
Theorem only_caller_pays : forall k st caller value c s s',
  0 <= value -> wf_state s ->
  entry k st caller value c s = Some (Ok s') -> tp_ok caller c s s'.
Proof.
  intros k st caller value c s s' Hv W H.
  destruct (entry_ok_inv _ _ _ _ _ _ _ H) as (ro & _ & R).
  destruct (contract_run_ok _ _ _ _ _ _ R) as (_ & _ & _ & M).
  apply (method_run_tp caller (eff_value k value)); try assumption.
  destruct k; cbn; lia.
Qed.

(* the allowance rule spelled out for transferFromShares *)
Corollary transfer_from_bounded : forall k st caller value v from to sh s s',
  0 <= value -> wf_state s -> from <> caller ->
  entry k st caller value (CTransferFromShares v from to sh) s = Some (Ok s') ->
  0 < sh <= alw s v from caller /\ alw s' v from caller = alw s v from caller - sh /\
  dlg s from v - sh <= dlg s' from v.
Proof.
  intros k st caller value v from to sh s s' Hv W Hf H.
  destruct (entry_ok_inv _ _ _ _ _ _ _ H) as (ro & _ & R).
  destruct (contract_run_ok _ _ _ _ _ _ R) as (_ & _ & _ & M).
  cbn [method_run] in M. ifs M. zb.
  destruct W as (N & _ & _).
  set (s0 := set_alw s (up3 (alw s) v from caller (alw s v from caller - sh))) in *.
  destruct (ts_spec _ _ _ _ _ _ (N : rwd_nonneg s0) E M) as (_ & _ & A & _ & _ & _ & _ & DS & _).
  split; [lia|]. split; [|exact DS].
  rewrite A. unfold s0. cbn. unfold up3. rewrite !Z.eqb_refl. reflexivity.
Qed.

(* without an allowance (a never-granted one reads 0) transferFromShares fails for every amount, zero included *)
Theorem no_allowance_no_transfer : forall k st caller value v from to sh s,
  alw s v from caller <= 0 ->
  entry k st caller value (CTransferFromShares v from to sh) s = Some Err \/
  entry k st caller value (CTransferFromShares v from to sh) s = None.
Proof.
  intros k st caller value v from to sh s A.
  destruct (entry k st caller value (CTransferFromShares v from to sh) s) as [[s'|]|] eqn:H; auto.
  exfalso.
  destruct (entry_ok_inv _ _ _ _ _ _ _ H) as (ro & _ & R).
  destruct (contract_run_ok _ _ _ _ _ _ R) as (_ & _ & _ & M).
  cbn [method_run] in M. ifs M. zb. lia.
Qed.

(* C10, part 2: state-changing methods are refused through STATICCALL, DELEGATECALL and CALLCODE *)
Theorem readonly_guard : forall k st caller value c s m,
  k <> CALL -> find_method methods c = Some m -> pm_readonly m = false ->
  entry k st caller value c s = Some Err.
Proof.
  intros k st caller value c s m Hk F Hro. unfold entry, precompile_entry.
  assert (R : evm_readonly evm_sites k = Some true) by (destruct k; [congruence| | |]; reflexivity).
  rewrite R. f_equal.
  destruct (match k with CALL => st && (0 <? value) | _ => false end); [reflexivity|].
  destruct (match k with CALL | CALLCODE => bal s caller <? value | _ => false end); [reflexivity|].
  rewrite guards_expected. unfold expected_guards. cbn [contract_run run_guard].
  destruct c; try reflexivity; rewrite F; cbn [negb andb]; rewrite Hro; reflexivity.
Qed.

(* every method the table declares state-changing is covered by the guard *)
Lemma write_methods_listed :
  map pm_name (filter (fun m => negb (pm_readonly m)) methods) =
  ["approveShares"; "transferShares"; "transferFromShares"; "withdraw"; "delegateV2"; "redelegateV2"; "undelegateV2";
   "cancelSendToExternal"; "increaseBridgeFee"; "crossChain"; "bridgeCall"; "executeClaim"]%string.
Proof. reflexivity. Qed.

(* C10, part 3: a disabled address, or address/method, cannot execute at all *)
Lemma existsb_in {A} (f : A -> bool) l x : In x l -> f x = true -> existsb f l = true.
Proof. intros I F. apply existsb_exists. exists x. split; assumption. Qed.

Lemma is_disabled_true entries addr mid e :
  In e entries -> (lower e = addr \/ lower e = (addr ++ "/" ++ mid)%string) ->
  is_disabled entries addr mid = true.
Proof.
  intros I L. unfold is_disabled. destruct entries as [|e0 es]; [destruct I|].
  apply (existsb_in _ _ e I). cbn zeta. destruct L as [L|L]; rewrite L, String.eqb_refl; [reflexivity|apply orb_true_r].
Qed.

Theorem switch_blocks : forall k st caller value c s r e,
  entry k st caller value c s = Some r ->
  In e (switch s) ->
  (lower e = contract_addr (call_contract c) \/
   lower e = (contract_addr (call_contract c) ++ "/" ++ mid_of c)%string) ->
  r = Err.
Proof.
  intros k st caller value c s r e H I L. destruct r as [s'|]; [exfalso|reflexivity].
  destruct (entry_ok_inv _ _ _ _ _ _ _ H) as (ro & _ & R).
  destruct (contract_run_ok _ _ _ _ _ _ R) as (_ & _ & D & _).
  rewrite (is_disabled_true _ _ _ e I L) in D. discriminate.
Qed.

(* what the code does with a static context (finding C10-1): the flag the precompile receives does not depend on it,
   so a value-free CALL made inside a STATICCALL behaves exactly like one made outside ... *)
Theorem static_context_invisible : forall k caller c s,
  entry k true caller 0 c s = entry k false caller 0 c s.
Proof.
  intros. unfold entry, precompile_entry. destruct (evm_readonly evm_sites k); [|reflexivity].
  destruct k; cbn; rewrite ?andb_false_r; reflexivity.
Qed.

(* ... and therefore a state-changing method DOES execute there: the demand "fails in a static context" is refuted *)
Theorem static_context_write_refuted :
  exists s', entry CALL true 0 0 (CApproveShares 0 2 5) ex_state = Some (Ok s') /\
             alw ex_state 0 0 2 = 0 /\ alw s' 0 0 2 = 5.
Proof. eexists. split; [vm_compute; reflexivity|]. split; reflexivity. Qed.

(* examples *)
Theorem precompile_nonvacuous :
  (* the victim (1) granted the caller (0) 30 shares: 10 move, the allowance drops to 20 *)
  (exists s', entry CALL false 0 0 (CTransferFromShares 0 1 0 10) ex_state = Some (Ok s') /\
              dlg s' 1 0 = 90 /\ dlg s' 0 0 = 10 /\ alw s' 0 1 0 = 20 /\ bal s' 1 = 1007 /\ rwd s' 1 0 = 0) /\
  entry CALL false 0 0 (CTransferFromShares 0 1 0 31) ex_state = Some Err /\
  (* the victim's pool entry cannot be cancelled by somebody else, it can by the victim *)
  entry CALL false 0 0 (CCancelSendToExternal 1) ex_state = Some Err /\
  (exists s', entry CALL false 1 0 (CCancelSendToExternal 1) ex_state = Some (Ok s') /\ pool s' 1 = None /\ bal s' 1 = 1055) /\
  entry STATICCALL false 0 0 (CApproveShares 0 2 5) ex_state = Some Err /\
  entry DELEGATECALL false 0 0 (CDelegateV2 0 5) ex_state = Some Err /\
  entry CALLCODE false 0 0 (CCrossChain 5 1) ex_state = Some Err /\
  (exists s', entry STATICCALL false 0 0 (CDelegation 0 1) ex_state = Some (Ok s')).
Proof.
  repeat split; try (vm_compute; reflexivity);
    try (eexists; split; [vm_compute; reflexivity|repeat split; reflexivity]).
  eexists. vm_compute. reflexivity.
Qed.

Definition ex_disabled : pst :=
  mkp (bal ex_state) (dlg ex_state) (rwd ex_state) (wdr ex_state) (alw ex_state) (unb ex_state) (rrd ex_state)
      (isval ex_state) (pool ex_state) (next_tx ex_state) (bcalls ex_state) (next_bc ex_state) true
      ["0X0000000000000000000000000000000000001003/49DA433E"%string].

Theorem switch_nonvacuous :
  entry CALL false 0 0 (CApproveShares 0 2 5) ex_disabled = Some Err /\
  (exists s', entry CALL false 0 0 (CDelegateV2 0 5) ex_disabled = Some (Ok s')).
Proof. split; [vm_compute; reflexivity|eexists; vm_compute; reflexivity]. Qed.
