(* P_Precompile — proofs for C10 over model.M_Precompile and the generated method table. *)
From Coq Require Import ZArith List Bool String Lia.
From FxV Require Import gen.Gen_Precompiles model.M_Precompile.
Import ListNotations.
Open Scope Z_scope.

(* ------------------------------------------------------------------ *)
(* what may happen to an account that is not the direct caller *)

Definition rwd_nonneg (s : pst) : Prop := forall a v, 0 <= rwd s a v.

Definition tp_ok (caller : acct) (c : call) (s s' : pst) : Prop :=
  forall a, a <> caller ->
    bal s a <= bal s' a /\
    (forall v, unb s a v <= unb s' a v) /\
    (forall v, dlg s a v <= dlg s' a v \/
               exists to sh, c = CTransferFromShares v a to sh /\ dlg s a v - sh <= dlg s' a v /\
                             0 < sh <= alw s v a caller /\ alw s' v a caller = alw s v a caller - sh) /\
    (forall v, rwd s' a v = rwd s a v \/
               (rwd s' a v = 0 /\ bal s (wdr s a) + rwd s a v <= bal s' (wdr s a))) /\
    (forall v sp, alw s' v a sp = alw s v a sp \/
                  (sp = caller /\ exists to sh, c = CTransferFromShares v a to sh /\
                                 0 < sh <= alw s v a sp /\ alw s' v a sp = alw s v a sp - sh)) /\
    pool_kept s s' a /\ bcalls_kept c s s' a /\
    tok s a <= tok s' a /\ tka s' a = tka s a.

Ltac zb :=
  repeat match goal with
         | H : Z.eqb _ _ = true |- _ => apply Z.eqb_eq in H
         | H : Z.eqb _ _ = false |- _ => apply Z.eqb_neq in H
         | H : Z.ltb _ _ = true |- _ => apply Z.ltb_lt in H
         | H : Z.ltb _ _ = false |- _ => apply Z.ltb_ge in H
         | H : Z.leb _ _ = true |- _ => apply Z.leb_le in H
         | H : Z.leb _ _ = false |- _ => apply Z.leb_gt in H
         | H : negb _ = true |- _ => apply negb_true_iff in H
         | H : negb _ = false |- _ => apply negb_false_iff in H
         | H : _ && _ = true |- _ => apply andb_true_iff in H; destruct H
         | H : _ || _ = false |- _ => apply orb_false_iff in H; destruct H
         end.

Lemma pool_kept_refl s a : pool_kept s s a.
Proof. intros id amt fee tk H. exists fee. split; [exact H|lia]. Qed.
Lemma bcalls_kept_refl c s a : bcalls_kept c s s a.
Proof. intros n r x t H. left. exact H. Qed.

Lemma pool_kept_eq s s' a : pool s' = pool s -> pool_kept s s' a.
Proof. intros E id amt fee tk H. exists fee. rewrite E. split; [exact H|lia]. Qed.
Lemma bcalls_kept_eq c s s' a : bcalls s' = bcalls s -> bcalls_kept c s s' a.
Proof. intros E n r x t H. left. rewrite E. exact H. Qed.

(* a state change that leaves everything of third parties alone *)
Lemma tp_ok_same caller c s : tp_ok caller c s s.
Proof.
  intros a _. repeat split; try lia; try (intros; left; reflexivity); try (intros; left; lia).
  - apply pool_kept_refl.
  - apply bcalls_kept_refl.
Qed.

(* ---- building blocks ---- *)

Lemma pay_bal s x k a : bal (pay s x k) a = if Z.eqb a x then bal s x + k else bal s a.
Proof. unfold pay, set_bal, up1. cbn. destruct (Z.eqb a x) eqn:E; [apply Z.eqb_eq in E; subst|]; reflexivity. Qed.

Lemma wr_bal s d v a : rwd_nonneg s -> bal s a <= bal (withdraw_rewards s d v) a.
Proof.
  intro N. unfold withdraw_rewards. cbn. unfold up1. destruct (Z.eqb a (wdr s d)) eqn:E.
  - apply Z.eqb_eq in E. subst. specialize (N d v). lia.
  - lia.
Qed.

Lemma wr_nonneg s d v : rwd_nonneg s -> rwd_nonneg (withdraw_rewards s d v).
Proof.
  intros N a v'. unfold withdraw_rewards. cbn. unfold up2.
  destruct (Z.eqb a d && Z.eqb v' v); [lia|apply N].
Qed.

(* ---- transfer_shares ---- *)

Ltac ifs H :=
  repeat match type of H with
         | context [if ?b then _ else _] => let E := fresh "E" in destruct b eqn:E; try discriminate H
         end.

Ltac eqbs :=
  repeat match goal with
         | |- context [Z.eqb ?a ?b] => let E := fresh "Q" in destruct (Z.eqb a b) eqn:E
         end.

Ltac fin :=
  zb; subst; cbn;
  repeat match goal with
         | H : ?x = ?y |- _ => first [subst x | subst y | (rewrite H in *; clear H)]
         end;
  try lia.

Lemma ts_spec s v from to sh s' :
  rwd_nonneg s -> 0 < sh -> transfer_shares s v from to sh = Ok s' ->
  (forall a, bal s a <= bal s' a) /\
  unb s' = unb s /\ alw s' = alw s /\ pool s' = pool s /\ bcalls s' = bcalls s /\ wdr s' = wdr s /\
  (tok s' = tok s /\ tka s' = tka s /\ claims s' = claims s /\ next_tx s' = next_tx s /\ next_bc s' = next_bc s) /\
  (forall a v', (a <> from \/ v' <> v) -> dlg s a v' <= dlg s' a v') /\
  dlg s from v - sh <= dlg s' from v /\
  (forall a v', rwd s' a v' = rwd s a v' \/
                (rwd s' a v' = 0 /\ bal s (wdr s a) + rwd s a v' <= bal s' (wdr s a))).
Proof.
  intros N Hsh H. unfold transfer_shares in H. ifs H; inversion H; subst s'; clear H; zb;
    pose proof (N from v) as Nf; pose proof (N to v) as Nt; repeat split.
  (* balances only grow *)
  1,5: intro a; cbn; unfold up1, up2; eqbs; fin.
  (* other delegations *)
  1,4: intros a v' D; cbn; unfold up1, up2; cbn;
      destruct (Z.eqb a to && Z.eqb v' v) eqn:A1; destruct (Z.eqb a from && Z.eqb v' v) eqn:A2; zb; subst; try lia;
      try (destruct D; congruence).
  (* the source delegation *)
  1,3: cbn; unfold up1, up2; cbn; destruct (Z.eqb from to && Z.eqb v v) eqn:A1; rewrite ?Z.eqb_refl; cbn; zb; subst; try lia.
  (* rewards *)
  all: intros a v'; cbn; unfold up1, up2; cbn;
    destruct (Z.eqb a to && Z.eqb v' v) eqn:A1; destruct (Z.eqb a from && Z.eqb v' v) eqn:A2; cbn;
    first [ left; reflexivity
          | right; split; [reflexivity | zb; subst; rewrite ?Z.eqb_refl; cbn; eqbs; fin ] ].
Qed.

(* ------------------------------------------------------------------ *)
(* every method, every argument: third parties *)

Definition wf_state (s : pst) : Prop :=
  rwd_nonneg s /\ (forall id, next_tx s < id -> pool s id = None) /\ (forall n, next_bc s < n -> bcalls s n = None) /\
  (forall v o sp, 0 <= alw s v o sp) /\
  (forall n r x, claims s n = Some (PSendToFx r x) -> 0 <= x).

Ltac unf_all := unfold withdraw_rewards, pay, payt, set_bal, set_dlg, set_rwd, set_alw, set_unb, set_rrd, set_pool, set_bcalls,
                       set_tok, set_tka, set_claims, up1, up2, up3 in *; cbn in *.

(* projections through withdraw_rewards, without unfolding it *)
Lemma wrp_bal s d v x : bal (withdraw_rewards s d v) x = if Z.eqb x (wdr s d) then bal s x + rwd s d v else bal s x.
Proof. unfold withdraw_rewards, pay, set_rwd, set_bal, up1. cbn. destruct (Z.eqb x (wdr s d)) eqn:E; [apply Z.eqb_eq in E; subst|]; reflexivity. Qed.
Lemma wrp_rwd s d v a v' : rwd (withdraw_rewards s d v) a v' = if Z.eqb a d && Z.eqb v' v then 0 else rwd s a v'.
Proof. reflexivity. Qed.
Lemma wrp_dlg s d v : dlg (withdraw_rewards s d v) = dlg s. Proof. reflexivity. Qed.
Lemma wrp_wdr s d v : wdr (withdraw_rewards s d v) = wdr s. Proof. reflexivity. Qed.
Lemma wrp_alw s d v : alw (withdraw_rewards s d v) = alw s. Proof. reflexivity. Qed.
Lemma wrp_unb s d v : unb (withdraw_rewards s d v) = unb s. Proof. reflexivity. Qed.
Lemma wrp_rrd s d v : rrd (withdraw_rewards s d v) = rrd s. Proof. reflexivity. Qed.
Lemma wrp_pool s d v : pool (withdraw_rewards s d v) = pool s. Proof. reflexivity. Qed.
Lemma wrp_bcalls s d v : bcalls (withdraw_rewards s d v) = bcalls s. Proof. reflexivity. Qed.
Lemma wrp_next_tx s d v : next_tx (withdraw_rewards s d v) = next_tx s. Proof. reflexivity. Qed.
Lemma wrp_next_bc s d v : next_bc (withdraw_rewards s d v) = next_bc s. Proof. reflexivity. Qed.
Lemma wrp_tok s d v : tok (withdraw_rewards s d v) = tok s. Proof. reflexivity. Qed.
Lemma wrp_tka s d v : tka (withdraw_rewards s d v) = tka s. Proof. reflexivity. Qed.
Lemma wrp_claims s d v : claims (withdraw_rewards s d v) = claims s. Proof. reflexivity. Qed.

Ltac proj :=
  repeat progress
    (cbn [bal dlg rwd wdr alw unb rrd isval pool next_tx bcalls next_bc xready switch tok tka claims
          set_bal set_dlg set_rwd set_alw set_unb set_rrd set_pool set_bcalls set_tok set_tka set_claims pay payt];
     rewrite ?wrp_bal, ?wrp_rwd, ?wrp_dlg, ?wrp_wdr, ?wrp_alw, ?wrp_unb, ?wrp_rrd, ?wrp_pool, ?wrp_bcalls,
             ?wrp_next_tx, ?wrp_next_bc, ?wrp_tok, ?wrp_tka, ?wrp_claims;
     unfold up1, up2, up3).

Ltac nonneg N :=
  repeat match goal with
         | |- context [rwd ?s ?x ?v] =>
             lazymatch goal with
             | _ : 0 <= rwd s x v |- _ => fail
             | _ => pose proof (N x v)
             end
         end.

(* third-party clauses when only entries keyed by the caller (and balances upward) change;
   leaves the pool and bridge-call clauses *)
Ltac tp_simple N :=
  let a := fresh "a" in let Ha := fresh "Ha" in let Hf := fresh "Hf" in
  intros a Ha;
  match goal with
  | Ha' : a <> ?c |- _ =>
      assert (Hf : Z.eqb a c = false) by (apply Z.eqb_neq; exact Ha')
  end;
  repeat split;
  first [ match goal with |- pool_kept _ _ _ => idtac | |- bcalls_kept _ _ _ _ => idtac end
        | (intros; first [left|idtac]; proj; rewrite ?Hf; cbn [andb]; proj; eqbs; nonneg N; fin) ].

Lemma take_tok_spec s a x s1 : take_tok s a x = Some s1 ->
  s1 = set_tka (payt s a (- x)) (up1 (tka (payt s a (- x))) a (tka (payt s a (- x)) a - x)) /\ x <= tka s a /\ x <= tok s a.
Proof.
  unfold take_tok. destruct ((tka s a <? x) || (tok s a <? x)) eqn:E; [discriminate|].
  intro H. inversion H. zb. repeat split; lia.
Qed.

Lemma method_run_tp caller value c s s' :
  0 <= value -> wf_state s -> method_run caller value c s = Ok s' -> tp_ok caller c s s'.
Proof.
  intros Hv (N & PF & BF & AN & CN) H. destruct c; cbn [method_run] in H.
  1-3,11-15: (inversion H; subst; apply tp_ok_same).
  - (* approveShares *)
    ifs H. inversion H; subst; clear H. tp_simple N; [apply pool_kept_eq; reflexivity|apply bcalls_kept_eq; reflexivity].
  - (* transferShares *)
    ifs H. zb. destruct (ts_spec _ _ _ _ _ _ N E H) as (B & U & A & P & BC & W & (T1 & T2 & _) & D & DS & R).
    intros a Ha. repeat split.
    + apply B.
    + intro v0. rewrite U. lia.
    + intro v0. left. apply D. left. exact Ha.
    + intro v0. apply R.
    + intros v0 sp. left. rewrite A. reflexivity.
    + apply pool_kept_eq. exact P.
    + apply bcalls_kept_eq. exact BC.
    + rewrite T1. lia.
    + rewrite T2. reflexivity.
  - (* transferFromShares *)
    ifs H. zb.
    set (s0 := set_alw s (up3 (alw s) v from caller (alw s v from caller - sh))) in *.
    assert (N0 : rwd_nonneg s0) by exact N.
    destruct (ts_spec _ _ _ _ _ _ N0 E H) as (B & U & A & P & BC & W & (T1 & T2 & _) & D & DS & R).
    intros a Ha. repeat split.
    + apply (B a).
    + intro v0. rewrite U. cbn. lia.
    + intro v0. destruct (Z.eq_dec a from) as [->|Na]; [destruct (Z.eq_dec v0 v) as [->|Nv]|].
      * right. exists to, sh. split; [reflexivity|]. split; [exact DS|]. split; [lia|].
        rewrite A. unfold s0. cbn. unfold up3. rewrite !Z.eqb_refl. reflexivity.
      * left. apply (D from v0). right. exact Nv.
      * left. apply (D a v0). left. exact Na.
    + intro v0. apply (R a v0).
    + intros v0 sp. rewrite A. unfold s0. cbn. unfold up3.
      destruct (Z.eqb v0 v && Z.eqb a from && Z.eqb sp caller) eqn:K.
      * right. zb. subst. split; [reflexivity|]. exists to, sh. repeat split; lia.
      * left. reflexivity.
    + apply pool_kept_eq. exact P.
    + apply bcalls_kept_eq. exact BC.
    + rewrite T1. cbn. lia.
    + rewrite T2. reflexivity.
  - (* withdraw *)
    ifs H. inversion H; subst; clear H. tp_simple N; [apply pool_kept_eq; reflexivity|apply bcalls_kept_eq; reflexivity].
  - (* delegateV2 *)
    ifs H; inversion H; subst; clear H; tp_simple N; try (apply pool_kept_eq; reflexivity); try (apply bcalls_kept_eq; reflexivity).
  - (* redelegateV2 *)
    ifs H; inversion H; subst; clear H; tp_simple N; try (apply pool_kept_eq; reflexivity); try (apply bcalls_kept_eq; reflexivity).
  - (* undelegateV2 *)
    ifs H; inversion H; subst; clear H; tp_simple N; try (apply pool_kept_eq; reflexivity); try (apply bcalls_kept_eq; reflexivity).
  - (* cancelSendToExternal *)
    ifs H. destruct (pool s txid) as [[[[sd am] fe] tk]|] eqn:P; [|discriminate].
    destruct (negb (sd =? caller)) eqn:SD; [discriminate|]. zb. subst sd.
    destruct tk; inversion H; subst; clear H; tp_simple N;
      try (apply bcalls_kept_eq; reflexivity);
      (intros id amt fee tk0 Hp; exists fee; split; [|lia]; unf_all;
       destruct (Z.eqb id txid) eqn:Q; [|exact Hp]; zb; subst; rewrite P in Hp; inversion Hp; congruence).
  - (* increaseBridgeFee *)
    ifs H. destruct (pool s txid) as [[[[sd am] fe] tk]|] eqn:P; [|discriminate]. destruct tk; [discriminate|].
    inversion H; subst; clear H. zb.
    tp_simple N.
    + intros id amt fee0 tk0 Hp. unf_all.
      destruct (Z.eqb id txid) eqn:Q.
      * zb. subst. rewrite P in Hp. inversion Hp; subst. eexists. split; [reflexivity|lia].
      * exists fee0. split; [exact Hp|lia].
    + apply bcalls_kept_eq; reflexivity.
  - (* crossChain *)
    ifs H. inversion H; subst; clear H. zb.
    tp_simple N.
    + intros id amt0 fee0 tk0 Hp. exists fee0. split; [|lia]. unf_all.
      destruct (Z.eqb id (next_tx s + 1)) eqn:Q; [|exact Hp]. zb. subst. rewrite PF in Hp by lia. discriminate.
    + apply bcalls_kept_eq; reflexivity.
  - (* bridgeCall *)
    ifs H. inversion H; subst; clear H.
    tp_simple N.
    + apply pool_kept_eq; reflexivity.
    + intros n r x t Hb. left. unf_all.
      destruct (Z.eqb n (next_bc s + 1)) eqn:Q; [|exact Hb]. zb. subst. rewrite BF in Hb by lia. discriminate.
  - (* crossChain, ERC-20 *)
    ifs H. destruct (take_tok s caller (amt + fee)) as [s1|] eqn:T; [|discriminate].
    destruct (take_tok_spec _ _ _ _ T) as (-> & _ & _). inversion H; subst; clear H. zb.
    tp_simple N.
    + intros id amt0 fee0 tk0 Hp. exists fee0. split; [|lia]. unf_all.
      destruct (Z.eqb id (next_tx s + 1)) eqn:Q; [|exact Hp]. zb. subst. rewrite PF in Hp by lia. discriminate.
    + apply bcalls_kept_eq; reflexivity.
  - (* increaseBridgeFee, ERC-20 *)
    ifs H. destruct (take_tok s caller fee) as [s1|] eqn:T; [|discriminate].
    destruct (take_tok_spec _ _ _ _ T) as (-> & _ & _).
    match type of H with context [pool ?x txid] => change (pool x txid) with (pool s txid) in H end.
    destruct (pool s txid) as [[[[sd am] fe] tk]|] eqn:P; [|discriminate]. destruct tk; [|discriminate].
    inversion H; subst; clear H. zb.
    tp_simple N.
    + intros id amt fee0 tk0 Hp. unf_all.
      destruct (Z.eqb id txid) eqn:Q.
      * zb. subst. rewrite P in Hp. inversion Hp; subst. eexists. split; [reflexivity|lia].
      * exists fee0. split; [exact Hp|lia].
    + apply bcalls_kept_eq; reflexivity.
  - (* bridgeCall, ERC-20 *)
    ifs H. inversion H; subst; clear H. zb.
    tp_simple N.
    + apply pool_kept_eq; reflexivity.
    + intros n r x t Hb. left. unf_all.
      destruct (Z.eqb n (next_bc s + 1)) eqn:Q; [|exact Hb]. zb. subst. rewrite BF in Hb by lia. discriminate.
  - (* executeClaim *)
    ifs H. destruct (claims s nonce) as [[r amt|n]|] eqn:C; [| |discriminate].
    + inversion H; subst; clear H.
      intros a Ha. repeat split; try (intros; left; reflexivity); try (intros; lia); try reflexivity.
      * pose proof (CN _ _ _ C). proj. eqbs; fin.
      * apply pool_kept_eq; reflexivity.
      * apply bcalls_kept_eq; reflexivity.
    + destruct (bcalls s n) as [bc|] eqn:B; [|discriminate]. inversion H; subst; clear H.
      intros a Ha. repeat split; try (intros; left; reflexivity); try (intros; lia); try reflexivity.
      * apply pool_kept_eq; reflexivity.
      * intros n0 r x t Hb. unf_all. destruct (Z.eqb n0 n) eqn:Q.
        -- right. zb. subst. exists nonce. split; [reflexivity|exact C].
        -- left. exact Hb.
  - discriminate.
  - discriminate.
Qed.

(* ------------------------------------------------------------------ *)
(* Contract.Run with the guard order found in the source *)

Definition expected_guards : list guard := [GInputLen; GLookup; GReadonly; GDisabled; GDispatch].

Lemma guards_expected c : guards_of c = expected_guards.
Proof. destruct c; reflexivity. Qed.

Definition mid_of (c : call) : string :=
  match find_method methods c with Some m => pm_selector m | None => EmptyString end.

Lemma contract_run_ok ro caller v c s s' :
  contract_run methods expected_guards ro caller v c s = Ok s' ->
  c <> CShortInput /\
  (exists m, find_method methods c = Some m /\ (ro && negb (pm_readonly m)) = false) /\
  is_disabled (switch s) (contract_addr (call_contract c)) (mid_of c) = false /\
  method_run caller v c s = Ok s'.
Proof.
  unfold expected_guards, mid_of. cbn [contract_run run_guard].
  destruct c; try (destruct (find_method methods _) as [m|] eqn:F; [|discriminate]);
    try discriminate;
    (destruct (negb (ro && negb (pm_readonly m))) eqn:G; [|discriminate]);
    (destruct (negb (is_disabled _ _ _)) eqn:D; [|discriminate]);
    intro H; (split; [discriminate|]); (split; [exists m; split; [reflexivity|apply negb_true_iff; exact G]|]);
    (split; [apply negb_true_iff; exact D|exact H]).
Qed.

Lemma evm_readonly_values :
  evm_readonly evm_sites CALL = Some false /\ evm_readonly evm_sites CALLCODE = Some true /\
  evm_readonly evm_sites DELEGATECALL = Some true /\ evm_readonly evm_sites STATICCALL = Some true.
Proof. repeat split; reflexivity. Qed.

Definition eff_value (k : callkind) (value : Z) : Z := match k with CALL | CALLCODE => value | _ => 0 end.

Lemma entry_ok_inv k st caller value c s s' :
  entry k st caller value c s = Some (Ok s') ->
  exists ro, evm_readonly evm_sites k = Some ro /\
             contract_run methods expected_guards ro caller (eff_value k value) c s = Ok s'.
Proof.
  unfold entry, precompile_entry. destruct (evm_readonly evm_sites k) as [ro|] eqn:R; [|discriminate].
  intro H. exists ro. split; [reflexivity|]. injection H as H1.
  rewrite guards_expected in H1.
  destruct (match k with CALL => st && (0 <? value) | _ => false end); [discriminate H1|].
  destruct (match k with CALL | CALLCODE => bal s caller <? value | _ => false end); [discriminate H1|].
  exact H1.
Qed.

(* C10, part 1 *)
Theorem only_caller_pays : forall k st caller value c s s',
  0 <= value -> wf_state s ->
  entry k st caller value c s = Some (Ok s') -> tp_ok caller c s s'.
Proof.
  intros k st caller value c s s' Hv W H.
  destruct (entry_ok_inv _ _ _ _ _ _ _ H) as (ro & _ & R).
  destruct (contract_run_ok _ _ _ _ _ _ R) as (_ & _ & _ & M).
  apply (method_run_tp caller (eff_value k value)); try assumption.
  destruct k; cbn; lia.
Qed.

(* the allowance rule spelled out for transferFromShares *)
Corollary transfer_from_bounded : forall k st caller value v from to sh s s',
  0 <= value -> wf_state s -> from <> caller ->
  entry k st caller value (CTransferFromShares v from to sh) s = Some (Ok s') ->
  0 < sh <= alw s v from caller /\ alw s' v from caller = alw s v from caller - sh /\
  dlg s from v - sh <= dlg s' from v.
Proof.
  intros k st caller value v from to sh s s' Hv W Hf H.
  destruct (entry_ok_inv _ _ _ _ _ _ _ H) as (ro & _ & R).
  destruct (contract_run_ok _ _ _ _ _ _ R) as (_ & _ & _ & M).
  cbn [method_run] in M. ifs M. zb.
  destruct W as (N & _).
  set (s0 := set_alw s (up3 (alw s) v from caller (alw s v from caller - sh))) in *.
  destruct (ts_spec _ _ _ _ _ _ (N : rwd_nonneg s0) E M) as (_ & _ & A & _ & _ & _ & _ & _ & DS & _).
  split; [lia|]. split; [|exact DS].
  rewrite A. unfold s0. cbn. unfold up3. rewrite !Z.eqb_refl. reflexivity.
Qed.

(* without an allowance (a never-granted one reads 0) transferFromShares fails for every amount, zero included *)
Theorem no_allowance_no_transfer : forall k st caller value v from to sh s,
  alw s v from caller <= 0 ->
  entry k st caller value (CTransferFromShares v from to sh) s = Some Err \/
  entry k st caller value (CTransferFromShares v from to sh) s = None.
Proof.
  intros k st caller value v from to sh s A.
  destruct (entry k st caller value (CTransferFromShares v from to sh) s) as [[s'|]|] eqn:H; auto.
  exfalso.
  destruct (entry_ok_inv _ _ _ _ _ _ _ H) as (ro & _ & R).
  destruct (contract_run_ok _ _ _ _ _ _ R) as (_ & _ & _ & M).
  cbn [method_run] in M. ifs M. zb. lia.
Qed.

(* C10, part 2: state-changing methods are refused through STATICCALL, DELEGATECALL and CALLCODE *)
Theorem readonly_guard : forall k st caller value c s m,
  k <> CALL -> find_method methods c = Some m -> pm_readonly m = false ->
  entry k st caller value c s = Some Err.
Proof.
  intros k st caller value c s m Hk F Hro. unfold entry, precompile_entry.
  assert (R : evm_readonly evm_sites k = Some true) by (destruct k; [congruence| | |]; reflexivity).
  rewrite R. f_equal.
  destruct (match k with CALL => st && (0 <? value) | _ => false end); [reflexivity|].
  destruct (match k with CALL | CALLCODE => bal s caller <? value | _ => false end); [reflexivity|].
  rewrite guards_expected. unfold expected_guards. cbn [contract_run run_guard].
  destruct c; try reflexivity; rewrite F; cbn [negb andb]; rewrite Hro; reflexivity.
Qed.

(* every method the table declares state-changing is covered by the guard *)
Lemma write_methods_listed :
  map pm_name (filter (fun m => negb (pm_readonly m)) methods) =
  ["approveShares"; "transferShares"; "transferFromShares"; "withdraw"; "delegateV2"; "redelegateV2"; "undelegateV2";
   "cancelSendToExternal"; "increaseBridgeFee"; "crossChain"; "bridgeCall"; "executeClaim"]%string.
Proof. reflexivity. Qed.

(* C10, part 3: a disabled address, or address/method, cannot execute at all *)
Lemma existsb_in {A} (f : A -> bool) l x : In x l -> f x = true -> existsb f l = true.
Proof. intros I F. apply existsb_exists. exists x. split; assumption. Qed.

Lemma is_disabled_true entries addr mid e :
  In e entries -> (lower e = addr \/ lower e = (addr ++ "/" ++ mid)%string) ->
  is_disabled entries addr mid = true.
Proof.
  intros I L. unfold is_disabled. destruct entries as [|e0 es]; [destruct I|].
  apply (existsb_in _ _ e I). cbn zeta. destruct L as [L|L]; rewrite L, String.eqb_refl; [reflexivity|apply orb_true_r].
Qed.

Theorem switch_blocks : forall k st caller value c s r e,
  entry k st caller value c s = Some r ->
  In e (switch s) ->
  (lower e = contract_addr (call_contract c) \/
   lower e = (contract_addr (call_contract c) ++ "/" ++ mid_of c)%string) ->
  r = Err.
Proof.
  intros k st caller value c s r e H I L. destruct r as [s'|]; [exfalso|reflexivity].
  destruct (entry_ok_inv _ _ _ _ _ _ _ H) as (ro & _ & R).
  destruct (contract_run_ok _ _ _ _ _ _ R) as (_ & _ & D & _).
  rewrite (is_disabled_true _ _ _ e I L) in D. discriminate.
Qed.

(* what the code does with a static context (finding C10-1): the flag the precompile receives does not depend on it,
   so a value-free CALL made inside a STATICCALL behaves exactly like one made outside ... *)
Theorem static_context_invisible : forall k caller c s,
  entry k true caller 0 c s = entry k false caller 0 c s.
Proof.
  intros. unfold entry, precompile_entry. destruct (evm_readonly evm_sites k); [|reflexivity].
  destruct k; cbn; rewrite ?andb_false_r; reflexivity.
Qed.

(* ... and therefore a state-changing method DOES execute there: the demand "fails in a static context" is refuted *)
Theorem static_context_write_refuted :
  exists s', entry CALL true 0 0 (CApproveShares 0 2 5) ex_state = Some (Ok s') /\
             alw ex_state 0 0 2 = 0 /\ alw s' 0 0 2 = 5.
Proof. eexists. split; [vm_compute; reflexivity|]. split; reflexivity. Qed.

(* examples *)
Theorem precompile_nonvacuous :
  (* the victim (1) granted the caller (0) 30 shares: 10 move, the allowance drops to 20 *)
  (exists s', entry CALL false 0 0 (CTransferFromShares 0 1 0 10) ex_state = Some (Ok s') /\
              dlg s' 1 0 = 90 /\ dlg s' 0 0 = 10 /\ alw s' 0 1 0 = 20 /\ bal s' 1 = 1007 /\ rwd s' 1 0 = 0) /\
  entry CALL false 0 0 (CTransferFromShares 0 1 0 31) ex_state = Some Err /\
  (* the victim's pool entry cannot be cancelled by somebody else, it can by the victim *)
  entry CALL false 0 0 (CCancelSendToExternal 1) ex_state = Some Err /\
  (exists s', entry CALL false 1 0 (CCancelSendToExternal 1) ex_state = Some (Ok s') /\ pool s' 1 = None /\ bal s' 1 = 1055) /\
  entry STATICCALL false 0 0 (CApproveShares 0 2 5) ex_state = Some Err /\
  entry DELEGATECALL false 0 0 (CDelegateV2 0 5) ex_state = Some Err /\
  entry CALLCODE false 0 0 (CCrossChain 5 1) ex_state = Some Err /\
  (exists s', entry STATICCALL false 0 0 (CDelegation 0 1) ex_state = Some (Ok s')).
Proof.
  repeat split; try (vm_compute; reflexivity);
    try (eexists; split; [vm_compute; reflexivity|repeat split; reflexivity]).
  eexists. vm_compute. reflexivity.
Qed.

Definition ex_disabled : pst :=
  mkp (bal ex_state) (dlg ex_state) (rwd ex_state) (wdr ex_state) (alw ex_state) (unb ex_state) (rrd ex_state)
      (isval ex_state) (pool ex_state) (next_tx ex_state) (bcalls ex_state) (next_bc ex_state) true
      ["0X0000000000000000000000000000000000001003/49DA433E"%string] (tok ex_state) (tka ex_state) (claims ex_state).

Theorem switch_nonvacuous :
  entry CALL false 0 0 (CApproveShares 0 2 5) ex_disabled = Some Err /\
  (exists s', entry CALL false 0 0 (CDelegateV2 0 5) ex_disabled = Some (Ok s')).
Proof. split; [vm_compute; reflexivity|eexists; vm_compute; reflexivity]. Qed.

(* ================================================================== *)
(* the invariant is preserved: histories *)

Lemma pool_some_le s id e : (forall i, next_tx s < i -> pool s i = None) -> pool s id = Some e -> id <= next_tx s.
Proof. intros PF H. destruct (Z_le_gt_dec id (next_tx s)) as [L|G]; [exact L|]. rewrite PF in H by lia. discriminate. Qed.

Ltac wf_goal N PF BF AN CN :=
  repeat split;
  [ (* rwd_nonneg *) intros ?a ?v; proj; eqbs; try (pose proof (N a v)); fin; try apply N
  | (* pool fresh *) intros ?id ?L; proj; proj; cbn in *; eqbs; fin; try reflexivity; try (apply PF; cbn in *; lia)
  | (* bcalls fresh *) intros ?n ?L; proj; proj; cbn in *; eqbs; fin; try reflexivity; try (apply BF; cbn in *; lia)
  | (* allowances *) intros ?v ?o ?sp; proj; eqbs; fin; try apply AN
  | (* claims *) intros ?n ?r ?x; proj; eqbs; fin; try (discriminate); try apply CN; try (intro; discriminate) ].

Lemma method_run_wf caller value c s s' :
  0 <= value -> wf_state s -> method_run caller value c s = Ok s' -> wf_state s'.
Proof.
  intros Hv W H. pose proof W as (N & PF & BF & AN & CN). destruct c; cbn [method_run] in H.
  1-3,11-15: (inversion H; subst; exact W).
  - (* approveShares *)
    ifs H. inversion H; subst; clear H. zb. wf_goal N PF BF AN CN.
  - (* transferShares *)
    ifs H. zb. destruct (ts_spec _ _ _ _ _ _ N E H) as (B & U & A & P & BC & Wd & (T1 & T2 & T3 & T4 & T5) & D & DS & R).
    repeat split.
    + intros a v0. destruct (R a v0) as [->|[-> _]]; [apply N|lia].
    + intros id L. rewrite P. apply PF. rewrite <- T4. exact L.
    + intros n L. rewrite BC. apply BF. rewrite <- T5. exact L.
    + intros v0 o sp. rewrite A. apply AN.
    + intros n r x. rewrite T3. apply CN.
  - (* transferFromShares *)
    ifs H. zb.
    set (s0 := set_alw s (up3 (alw s) v from caller (alw s v from caller - sh))) in *.
    destruct (ts_spec _ _ _ _ _ _ (N : rwd_nonneg s0) E H) as (B & U & A & P & BC & Wd & (T1 & T2 & T3 & T4 & T5) & D & DS & R).
    repeat split.
    + intros a v0. destruct (R a v0) as [->|[-> _]]; [apply N|lia].
    + intros id L. rewrite P. apply PF. change (next_tx s) with (next_tx s0). rewrite <- T4. exact L.
    + intros n L. rewrite BC. apply BF. change (next_bc s) with (next_bc s0). rewrite <- T5. exact L.
    + intros v0 o sp. rewrite A. unfold s0. cbn. unfold up3.
      destruct (Z.eqb v0 v && Z.eqb o from && Z.eqb sp caller); [lia|apply AN].
    + intros n r x. rewrite T3. apply CN.
  - ifs H. inversion H; subst; clear H. zb. wf_goal N PF BF AN CN.
  - ifs H; inversion H; subst; clear H; zb; wf_goal N PF BF AN CN.
  - ifs H; inversion H; subst; clear H; zb; wf_goal N PF BF AN CN.
  - ifs H; inversion H; subst; clear H; zb; wf_goal N PF BF AN CN.
  - (* cancel *)
    ifs H. destruct (pool s txid) as [[[[sd am] fe] tk]|] eqn:P; [|discriminate].
    destruct (negb (sd =? caller)) eqn:SD; [discriminate|].
    destruct tk; inversion H; subst; clear H; wf_goal N PF BF AN CN.
  - (* increaseBridgeFee *)
    ifs H. destruct (pool s txid) as [[[[sd am] fe] tk]|] eqn:P; [|discriminate]. destruct tk; [discriminate|].
    pose proof (pool_some_le _ _ _ PF P). inversion H; subst; clear H. wf_goal N PF BF AN CN.
  - (* crossChain *)
    ifs H. inversion H; subst; clear H. wf_goal N PF BF AN CN.
  - (* bridgeCall *)
    ifs H. inversion H; subst; clear H. wf_goal N PF BF AN CN.
  - (* crossChain, ERC-20 *)
    ifs H. destruct (take_tok s caller (amt + fee)) as [s1|] eqn:T; [|discriminate].
    destruct (take_tok_spec _ _ _ _ T) as (-> & _ & _). inversion H; subst; clear H. wf_goal N PF BF AN CN.
  - (* increaseBridgeFee, ERC-20 *)
    ifs H. destruct (take_tok s caller fee) as [s1|] eqn:T; [|discriminate].
    destruct (take_tok_spec _ _ _ _ T) as (-> & _ & _).
    match type of H with context [pool ?x txid] => change (pool x txid) with (pool s txid) in H end.
    destruct (pool s txid) as [[[[sd am] fe] tk]|] eqn:P; [|discriminate]. destruct tk; [|discriminate].
    pose proof (pool_some_le _ _ _ PF P). inversion H; subst; clear H. wf_goal N PF BF AN CN.
  - (* bridgeCall, ERC-20 *)
    ifs H. inversion H; subst; clear H. wf_goal N PF BF AN CN.
  - (* executeClaim *)
    ifs H. destruct (claims s nonce) as [[r amt|n]|] eqn:C; [| |discriminate].
    + inversion H; subst; clear H. wf_goal N PF BF AN CN.
    + destruct (bcalls s n) as [bc|] eqn:B; [|discriminate]. inversion H; subst; clear H. wf_goal N PF BF AN CN.
  - discriminate.
  - discriminate.
Qed.

Lemma entry_wf k st caller value c s s' :
  0 <= value -> wf_state s -> entry k st caller value c s = Some (Ok s') -> wf_state s'.
Proof.
  intros Hv W H. destruct (entry_ok_inv _ _ _ _ _ _ _ H) as (ro & _ & R).
  destruct (contract_run_ok _ _ _ _ _ _ R) as (_ & _ & _ & M).
  apply (method_run_wf caller (eff_value k value) c s s'); try assumption. destruct k; cbn; lia.
Qed.

(* the precompiles never touch a reward withdraw address: nobody's rewards can be redirected through them *)
Lemma method_run_wdr caller value c s s' : method_run caller value c s = Ok s' -> wdr s' = wdr s.
Proof.
  intro H. destruct c; cbn [method_run] in H; try (inversion H; subst; reflexivity); try discriminate.
  all: try (ifs H; inversion H; subst; reflexivity).
  - ifs H. unfold transfer_shares in H. ifs H; inversion H; subst; reflexivity.
  - ifs H. unfold transfer_shares in H. ifs H; inversion H; subst; reflexivity.
  - ifs H. destruct (pool s txid) as [[[[sd am] fe] tk]|]; [|discriminate]. ifs H; inversion H; subst; reflexivity.
  - ifs H. destruct (pool s txid) as [[[[sd am] fe] tk]|]; [|discriminate]. destruct tk; [discriminate|]. inversion H; subst; reflexivity.
  - ifs H. destruct (take_tok s caller (amt + fee)) as [s1|] eqn:T; [|discriminate].
    destruct (take_tok_spec _ _ _ _ T) as (-> & _). inversion H; subst; reflexivity.
  - ifs H. destruct (take_tok s caller fee) as [s1|] eqn:T; [|discriminate].
    destruct (take_tok_spec _ _ _ _ T) as (-> & _).
    match type of H with context [pool ?x txid] => destruct (pool x txid) as [[[[sd am] fe] tk]|] end; [|discriminate].
    destruct tk; [|discriminate]. inversion H; subst; reflexivity.
  - ifs H. destruct (claims s nonce) as [[r amt|n]|]; [| |discriminate].
    + inversion H; subst; reflexivity.
    + destruct (bcalls s n); [|discriminate]. inversion H; subst; reflexivity.
Qed.

(* what a non-CALL opcode lets through (read-only methods) changes nothing *)
Lemma non_call_changes_nothing k st caller value c s s' :
  k <> CALL -> entry k st caller value c s = Some (Ok s') -> s' = s.
Proof.
  intros Hk H. destruct (entry_ok_inv _ _ _ _ _ _ _ H) as (ro & Rr & R).
  assert (ro = true) by (destruct k; [congruence| | |]; cbn in Rr; congruence). subst ro.
  destruct (contract_run_ok _ _ _ _ _ _ R) as (_ & (m & F & G) & _ & M).
  cbn [andb] in G. apply negb_false_iff in G.
  destruct c; cbn [method_run] in M; try (inversion M; subst; reflexivity); try discriminate;
    vm_compute in F; inversion F; subst m; discriminate G.
Qed.

(* ---- histories ---- *)

Record hstep := mkstep { h_kind : callkind; h_static : bool; h_caller : acct; h_value : Z; h_call : call }.

(* one precompile call of a history: a failed call leaves the state as it was (property C09) *)
Definition do_step (s : pst) (x : hstep) : pst :=
  match entry (h_kind x) (h_static x) (h_caller x) (h_value x) (h_call x) s with
  | Some (Ok s') => s'
  | _ => s
  end.
Definition run_hist (h : list hstep) (s : pst) : pst := fold_left do_step h s.
Definition values_ok (h : list hstep) : Prop := Forall (fun x => 0 <= h_value x) h.

Lemma do_step_wf s x : 0 <= h_value x -> wf_state s -> wf_state (do_step s x).
Proof.
  intros Hv W. unfold do_step.
  destruct (entry (h_kind x) (h_static x) (h_caller x) (h_value x) (h_call x) s) as [[s'|]|] eqn:E; try exact W.
  eapply entry_wf; eassumption.
Qed.

Theorem hist_wf : forall h s, wf_state s -> values_ok h -> wf_state (run_hist h s).
Proof.
  induction h as [|x h IH]; intros s W V; [exact W|].
  inversion V; subst. cbn. apply IH; [apply do_step_wf; assumption|assumption].
Qed.

Lemma do_step_tp s x : 0 <= h_value x -> wf_state s -> tp_ok (h_caller x) (h_call x) s (do_step s x).
Proof.
  intros Hv W. unfold do_step.
  destruct (entry (h_kind x) (h_static x) (h_caller x) (h_value x) (h_call x) s) as [[s'|]|] eqn:E;
    try apply tp_ok_same.
  eapply only_caller_pays; eassumption.
Qed.

(* every step of every history from a well-formed state: only the direct caller pays *)
Theorem hist_only_caller_pays : forall h1 x h2 s0,
  wf_state s0 -> values_ok (h1 ++ x :: h2) ->
  tp_ok (h_caller x) (h_call x) (run_hist h1 s0) (do_step (run_hist h1 s0) x).
Proof.
  intros h1 x h2 s0 W V. unfold values_ok in V. apply Forall_app in V as [V1 V2]. inversion V2; subst.
  apply do_step_tp; [assumption|apply hist_wf; assumption].
Qed.

(* an account that never calls and never granted an allowance loses nothing, over any history *)
Definition never_calls (a : acct) (h : list hstep) : Prop := Forall (fun x => h_caller x <> a) h.

Theorem hist_bystander : forall h s0 a,
  wf_state s0 -> values_ok h -> never_calls a h -> (forall v sp, alw s0 v a sp = 0) ->
  let s := run_hist h s0 in
  bal s0 a <= bal s a /\ (forall v, dlg s0 a v <= dlg s a v) /\ (forall v, unb s0 a v <= unb s a v) /\
  tok s0 a <= tok s a /\ tka s a = tka s0 a /\ (forall v sp, alw s v a sp = 0) /\
  (forall id amt fee tk, pool s0 id = Some (a, amt, fee, tk) -> exists fee', pool s id = Some (a, amt, fee', tk) /\ fee <= fee').
Proof.
  induction h as [|x h IH]; intros s0 a W V NC A0; cbn zeta.
  - cbn. repeat split; try lia; try reflexivity; try assumption.
    intros id amt fee tk H. exists fee. split; [exact H|lia].
  - inversion V; subst. inversion NC; subst.
    pose proof (do_step_tp s0 x H1 W a (not_eq_sym H3)) as (B & U & D & _ & AL & PK & _ & TK & TA).
    assert (A1 : forall v sp, alw (do_step s0 x) v a sp = 0).
    { intros v sp. destruct (AL v sp) as [E|(_ & to & sh & _ & L & _)]; [rewrite E; apply A0|rewrite A0 in L; lia]. }
    assert (D1 : forall v, dlg s0 a v <= dlg (do_step s0 x) a v).
    { intro v. destruct (D v) as [L|(to & sh & _ & _ & L & _)]; [exact L|rewrite A0 in L; lia]. }
    destruct (IH (do_step s0 x) a (do_step_wf _ _ H1 W) H2 H4 A1) as (B' & D' & U' & TK' & TA' & A' & P').
    cbn [run_hist fold_left]. fold (run_hist h (do_step s0 x)).
    repeat split.
    + lia.
    + intro v. specialize (D1 v). specialize (D' v). lia.
    + intro v. specialize (U v). specialize (U' v). lia.
    + lia.
    + congruence.
    + exact A'.
    + intros id amt fee tk Hp. destruct (PK _ _ _ _ Hp) as (f1 & Hp1 & L1).
      destruct (P' _ _ _ _ Hp1) as (f2 & Hp2 & L2). exists f2. split; [exact Hp2|lia].
Qed.

(* the allowance bounds what spenders can move out of a delegation, over any history *)
Definition salw (s : pst) (v : valid) (a : acct) (L : list acct) : Z := fold_right (fun sp acc => alw s v a sp + acc) 0 L.

Lemma salw_le s s' v a L : (forall sp, alw s' v a sp <= alw s v a sp) -> salw s' v a L <= salw s v a L.
Proof. intro H. unfold salw. induction L as [|x L IH]; cbn; [lia|specialize (H x); lia]. Qed.

Lemma salw_nonneg s v a L : (forall sp, 0 <= alw s v a sp) -> 0 <= salw s v a L.
Proof. intro H. unfold salw. induction L as [|x L IH]; cbn; [lia|specialize (H x); lia]. Qed.

Lemma salw_same s s' v a L : (forall sp, In sp L -> alw s' v a sp = alw s v a sp) -> salw s' v a L = salw s v a L.
Proof.
  unfold salw. induction L as [|x L IH]; intro H; [reflexivity|]. cbn.
  rewrite (H x (or_introl eq_refl)), IH; [reflexivity|]. intros sp I. apply H. right. exact I.
Qed.

Lemma salw_one s s' v a L c sh :
  NoDup L -> In c L -> (forall sp, sp <> c -> alw s' v a sp = alw s v a sp) -> alw s' v a c = alw s v a c - sh ->
  salw s' v a L = salw s v a L - sh.
Proof.
  intros ND I O C. induction L as [|x L IH]; [destruct I|].
  inversion ND as [|x' L' NI ND']; subst.
  change (salw s' v a (x :: L)) with (alw s' v a x + salw s' v a L).
  change (salw s v a (x :: L)) with (alw s v a x + salw s v a L).
  destruct (Z.eq_dec x c) as [->|Nx].
  - rewrite C, (salw_same s s' v a L); [lia|]. intros sp Isp. apply O. intro; subst. contradiction.
  - rewrite (O x Nx). destruct I as [->|I]; [congruence|]. rewrite (IH ND' I). lia.
Qed.

Theorem hist_allowance_bound : forall h s0 a v L,
  wf_state s0 -> values_ok h -> never_calls a h -> NoDup L -> Forall (fun x => In (h_caller x) L) h ->
  dlg s0 a v - salw s0 v a L <= dlg (run_hist h s0) a v.
Proof.
  intros h s0 a v L W V NC ND CL.
  assert (G : dlg s0 a v - salw s0 v a L <= dlg (run_hist h s0) a v - salw (run_hist h s0) v a L).
  { revert s0 W V NC CL. induction h as [|x h IH]; intros s0 W V NC CL; [cbn; lia|].
    inversion V; subst. inversion NC; subst. inversion CL; subst.
    pose proof (do_step_tp s0 x H1 W a (not_eq_sym H3)) as (_ & _ & D & _ & AL & _).
    cbn [run_hist fold_left]. fold (run_hist h (do_step s0 x)).
    specialize (IH (do_step s0 x) (do_step_wf _ _ H1 W) H2 H4 H6).
    assert (dlg s0 a v - salw s0 v a L <= dlg (do_step s0 x) a v - salw (do_step s0 x) v a L); [|lia].
    destruct (D v) as [Lq|(to & sh & Ec & Ld & La & Ea)].
    - assert (salw (do_step s0 x) v a L <= salw s0 v a L); [|lia].
      apply salw_le. intro sp. destruct (AL v sp) as [E|(_ & to & sh & _ & Lx & Ex)]; [rewrite E; lia|rewrite Ex; lia].
    - rewrite (salw_one s0 (do_step s0 x) v a L (h_caller x) sh ND H5); [lia| |exact Ea].
      intros sp Nsp. destruct (AL v sp) as [E|(Esp & _)]; [exact E|congruence]. }
  destruct (hist_wf h s0 W V) as (_ & _ & _ & AN & _).
  pose proof (salw_nonneg (run_hist h s0) v a L (AN v a)). lia.
Qed.

(* calls that do not come through CALL change nothing, over any history *)
Theorem hist_readonly_context : forall h s,
  Forall (fun x => h_kind x <> CALL) h -> run_hist h s = s.
Proof.
  induction h as [|x h IH]; intros s F; [reflexivity|]. inversion F; subst. cbn.
  assert (do_step s x = s).
  { unfold do_step. destruct (entry (h_kind x) (h_static x) (h_caller x) (h_value x) (h_call x) s) as [[s'|]|] eqn:E; try reflexivity.
    eapply non_call_changes_nothing; eassumption. }
  rewrite H. apply IH. assumption.
Qed.

(* reward withdraw addresses are never changed, over any history *)
Theorem hist_withdraw_address : forall h s, wdr (run_hist h s) = wdr s.
Proof.
  induction h as [|x h IH]; intro s; [reflexivity|]. cbn. rewrite IH. unfold do_step.
  destruct (entry (h_kind x) (h_static x) (h_caller x) (h_value x) (h_call x) s) as [[s'|]|] eqn:E; try reflexivity.
  destruct (entry_ok_inv _ _ _ _ _ _ _ E) as (ro & _ & R).
  destruct (contract_run_ok _ _ _ _ _ _ R) as (_ & _ & _ & M). eapply method_run_wdr; exact M.
Qed.

(* a worked history on the example state: the victim (1) approved 30 to account 0; account 0 moves 10, then tries 25
   (refused: 20 are left), a bystander (2) tries to take some (refused), account 0 moves the remaining 20, somebody
   executes the pending deposit for account 2 and the attested result that closes the victim's bridge call *)
Definition ex_hist : list hstep :=
  [mkstep CALL false 0 0 (CTransferFromShares 0 1 0 10);
   mkstep CALL false 0 0 (CTransferFromShares 0 1 0 25);
   mkstep CALL false 2 0 (CTransferFromShares 0 1 2 1);
   mkstep STATICCALL false 0 0 (CTransferFromShares 0 1 0 5);
   mkstep CALL false 0 0 (CTransferFromShares 0 1 3 20);
   mkstep CALL false 0 0 (CBridgeCallTok 1 600);
   mkstep CALL false 0 0 (CBridgeCallTok 1 100);
   mkstep CALL false 3 0 (CExecuteClaim 7);
   mkstep CALL false 3 0 (CExecuteClaim 8)].

Lemma ex_state_wf : wf_state ex_state.
Proof.
  repeat split; unfold rwd_nonneg; cbn.
  - intros a v. destruct (Z.eqb a 1); lia.
  - intros id L. destruct (Z.eqb id 1) eqn:E; [apply Z.eqb_eq in E; lia|reflexivity].
  - intros n L. destruct (Z.eqb n 1) eqn:E; [apply Z.eqb_eq in E; lia|reflexivity].
  - intros v o sp. destruct (Z.eqb o 1 && Z.eqb sp 0); lia.
  - intros n r x. destruct (Z.eqb n 7); [intro H; inversion H; lia|]. destruct (Z.eqb n 8); discriminate.
Qed.

Theorem history_nonvacuous :
  let s := run_hist ex_hist ex_state in
  dlg s 1 0 = 70 /\ alw s 0 1 0 = 0 /\ dlg s 0 0 = 10 /\ dlg s 3 0 = 20 /\ dlg s 2 0 = 0 /\
  tok s 0 = 400 /\ tok s 1 = 500 /\ bal s 2 = 1090 /\ bcalls s 1 = None /\ claims s 7 = None /\ claims s 8 = None /\
  bcalls s 2 = Some (0, 1, 0, 100).
Proof. vm_compute. repeat split. Qed.

(* ERC-20: a call can only take the direct caller's tokens, and only consumes the direct caller's allowance *)
Corollary tokens_only_callers : forall k st caller value c s s',
  0 <= value -> wf_state s -> entry k st caller value c s = Some (Ok s') ->
  forall a, a <> caller -> tok s a <= tok s' a /\ tka s' a = tka s a.
Proof.
  intros k st caller value c s s' Hv W H a Ha.
  destruct (only_caller_pays _ _ _ _ _ _ _ Hv W H a Ha) as (_ & _ & _ & _ & _ & _ & _ & T & A). split; assumption.
Qed.

(* executeClaim carries the authority of the attested claim, not of whoever submits it: the outcome does not depend
   on the caller, and a missing claim or a result for a vanished call is refused *)
Theorem execute_claim_authority : forall c1 c2 v1 v2 n s,
  method_run c1 v1 (CExecuteClaim n) s = method_run c2 v2 (CExecuteClaim n) s.
Proof. reflexivity. Qed.

Theorem execute_claim_needs_pending : forall k st caller value n s,
  claims s n = None -> entry k st caller value (CExecuteClaim n) s <> None ->
  entry k st caller value (CExecuteClaim n) s = Some Err.
Proof.
  intros k st caller value n s C NN.
  destruct (entry k st caller value (CExecuteClaim n) s) as [[s'|]|] eqn:H; [|reflexivity|congruence].
  exfalso. destruct (entry_ok_inv _ _ _ _ _ _ _ H) as (ro & _ & R).
  destruct (contract_run_ok _ _ _ _ _ _ R) as (_ & _ & _ & M).
  cbn [method_run] in M. rewrite C in M. destruct (n <=? 0); discriminate.
Qed.
