(* P_Precompile — proofs for C10 over model.M_Precompile and the generated method table. *)
From Coq Require Import ZArith List Bool String Lia.
From FxV Require Import gen.Gen_Precompiles model.M_Precompile.
Import ListNotations.
Open Scope Z_scope.

(* ------------------------------------------------------------------ *)
(* what may happen to an account that is not the direct caller *)

Definition rwd_nonneg (s : pst) : Prop := forall a v, 0 <= rwd s a v.

Definition tp_ok (caller : acct) (c : call) (s s' : pst) : Prop :=
  forall a, a <> caller ->
    bal s a <= bal s' a /\
    (forall v, unb s a v <= unb s' a v) /\
    (forall v, dlg s a v <= dlg s' a v \/
               exists to sh, c = CTransferFromShares v a to sh /\ dlg s a v - sh <= dlg s' a v /\
                             0 < sh <= alw s v a caller /\ alw s' v a caller = alw s v a caller - sh) /\
    (forall v, rwd s' a v = rwd s a v \/
               (rwd s' a v = 0 /\ bal s (wdr s a) + rwd s a v <= bal s' (wdr s a))) /\
    (forall v sp, alw s' v a sp = alw s v a sp \/
                  (sp = caller /\ exists to sh, c = CTransferFromShares v a to sh /\
                                 0 < sh <= alw s v a sp /\ alw s' v a sp = alw s v a sp - sh)) /\
    pool_kept s s' a /\ bcalls_kept s s' a.

Ltac zb :=
  repeat match goal with
         | H : Z.eqb _ _ = true |- _ => apply Z.eqb_eq in H
         | H : Z.eqb _ _ = false |- _ => apply Z.eqb_neq in H
         | H : Z.ltb _ _ = true |- _ => apply Z.ltb_lt in H
         | H : Z.ltb _ _ = false |- _ => apply Z.ltb_ge in H
         | H : Z.leb _ _ = true |- _ => apply Z.leb_le in H
         | H : Z.leb _ _ = false |- _ => apply Z.leb_gt in H
         | H : negb _ = true |- _ => apply negb_true_iff in H
         | H : negb _ = false |- _ => apply negb_false_iff in H
         | H : _ && _ = true |- _ => apply andb_true_iff in H; destruct H
         | H : _ || _ = false |- _ => apply orb_false_iff in H; destruct H
         end.

Lemma pool_kept_refl s a : pool_kept s s a.
Proof. intros id amt fee H. exists fee. split; [exact H|lia]. Qed.
Lemma bcalls_kept_refl s a : bcalls_kept s s a.
Proof. intros n r x H. exact H. Qed.

(* a state change that leaves everything of third parties alone *)
Lemma tp_ok_same caller c s : tp_ok caller c s s.
Proof.
  intros a _. repeat split; try lia; try (intros; left; reflexivity); try (intros; left; lia).
  - apply pool_kept_refl.
  - apply bcalls_kept_refl.
Qed.

(* ---- building blocks ---- *)

Lemma pay_bal s x k a : bal (pay s x k) a = if Z.eqb a x then bal s x + k else bal s a.
Proof. unfold pay, set_bal, up1. cbn. destruct (Z.eqb a x) eqn:E; [apply Z.eqb_eq in E; subst|]; reflexivity. Qed.

Lemma wr_bal s d v a : rwd_nonneg s -> bal s a <= bal (withdraw_rewards s d v) a.
Proof.
  intro N. unfold withdraw_rewards. cbn. unfold up1. destruct (Z.eqb a (wdr s d)) eqn:E.
  - apply Z.eqb_eq in E. subst. specialize (N d v). lia.
  - lia.
Qed.

Lemma wr_nonneg s d v : rwd_nonneg s -> rwd_nonneg (withdraw_rewards s d v).
Proof.
  intros N a v'. unfold withdraw_rewards. cbn. unfold up2.
  destruct (Z.eqb a d && Z.eqb v' v); [lia|apply N].
Qed.

(* ---- transfer_shares ---- *)

Ltac ifs H :=
  repeat match type of H with
         | context [if ?b then _ else _] => let E := fresh "E" in destruct b eqn:E; try discriminate H
         end.

Ltac eqbs :=
  repeat match goal with
         | |- context [Z.eqb ?a ?b] => let E := fresh "Q" in destruct (Z.eqb a b) eqn:E
         end.

Ltac fin :=
  zb; subst; cbn;
  repeat match goal with
         | H : ?x = ?y |- _ => first [subst x | subst y | (rewrite H in *; clear H)]
         end;
  try lia.

Lemma ts_spec s v from to sh s' :
  rwd_nonneg s -> 0 < sh -> transfer_shares s v from to sh = Ok s' ->
  (forall a, bal s a <= bal s' a) /\
  unb s' = unb s /\ alw s' = alw s /\ pool s' = pool s /\ bcalls s' = bcalls s /\ wdr s' = wdr s /\
  (forall a v', (a <> from \/ v' <> v) -> dlg s a v' <= dlg s' a v') /\
  dlg s from v - sh <= dlg s' from v /\
  (forall a v', rwd s' a v' = rwd s a v' \/
                (rwd s' a v' = 0 /\ bal s (wdr s a) + rwd s a v' <= bal s' (wdr s a))).
Proof.
  intros N Hsh H. unfold transfer_shares in H. ifs H; inversion H; subst s'; clear H; zb;
    pose proof (N from v) as Nf; pose proof (N to v) as Nt; repeat split.
  (* balances only grow *)
  1,6: intro a; cbn; unfold up1, up2; eqbs; fin.
  (* other delegations *)
  1,5: intros a v' D; cbn; unfold up1, up2; cbn;
      destruct (Z.eqb a to && Z.eqb v' v) eqn:A1; destruct (Z.eqb a from && Z.eqb v' v) eqn:A2; zb; subst; try lia;
      try (destruct D; congruence).
  (* the source delegation *)
  1,4: cbn; unfold up1, up2; cbn; destruct (Z.eqb from to && Z.eqb v v) eqn:A1; rewrite ?Z.eqb_refl; cbn; zb; subst; try lia.
  (* rewards *)
  all: intros a v'; cbn; unfold up1, up2; cbn;
    destruct (Z.eqb a to && Z.eqb v' v) eqn:A1; destruct (Z.eqb a from && Z.eqb v' v) eqn:A2; cbn;
    first [ left; reflexivity
          | right; split; [reflexivity | zb; subst; rewrite ?Z.eqb_refl; cbn; eqbs; fin ] ].
Qed.
