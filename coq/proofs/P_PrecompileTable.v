(* P_PrecompileTable — finite facts about the method tables of both precompile contracts as generated from the
   current source (gen/Gen_Precompiles.v), and their link to the well-formedness hypothesis of the C09 theorem. *)
From Coq Require Import ZArith List String Bool.
From FxV Require Import gen.Gen_Precompiles model.M_Frames.
Import ListNotations.
Open Scope Z_scope.

(* ---- dependencies: M_Frames transcribes exactly these files ---- *)
Definition pinned_digests : list (string * string) := [
  ("ethermint/x/evm/statedb/native.go"%string, "95322a79ab643fc7ce3c7a2081ec5d6b7f825d7c7967cffa4f7d1b289dc1ae4f"%string);
  ("ethermint/x/evm/statedb/journal.go"%string, "02b61fd7f973ee3be0c7bff661bae6e71c4b79eccb015423cdd959a8a6bea02b"%string);
  ("ethermint/x/evm/statedb/statedb.go"%string, "fa442e6a88ec9a8b2b8fd7809f14b031a33b11897de32406103d0f727d058aa8"%string);
  ("ethermint/x/evm/statedb/state_object.go"%string, "feb0094ef3b1cef997b08a7a528e539198bd91dc03c380c5bbdfb3553cec7bd8"%string);
  ("go-ethereum/core/vm/evm.go"%string, "4df3ef6e3ed518c5c5e27de72f14e8a2e5c67f956abcf333b738cfa81641efd4"%string);
  ("go-ethereum/core/vm/contracts.go"%string, "ac577ffaedf9203bda0c87e2aa8adef129c156952006576bf61eff0a6bbff3e3"%string)
].

Lemma deps_pinned : dep_digests = pinned_digests.
Proof. reflexivity. Qed.

(* ---- step sequences ---- *)

Inductive bs := BRd | BWr | BLg | BEv.

(* all execution paths of a step list (SAlt = either branch) *)
Fixpoint paths1 (s : step) : list (list bs) :=
  match s with
  | SRead | SScratch => [[BRd]]
  | SWrite | SNestedDB => [[BWr]]
  | SLog => [[BLg]]
  | SEvmCall | SEvmStatic => [[BEv]]
  | SAlt a b =>
      let go := fix go (l : list step) : list (list bs) :=
        match l with
        | [] => [[]]
        | x :: r => flat_map (fun p => map (fun q => (p ++ q)%list) (go r)) (paths1 x)
        end in
      (go a ++ go b)%list
  end.
Fixpoint paths (l : list step) : list (list bs) :=
  match l with
  | [] => [[]]
  | x :: r => flat_map (fun p => map (fun q => (p ++ q)%list) (paths r)) (paths1 x)
  end.

(* W2 on a path: no call through the EVM after a native write *)
Fixpoint flat_okd (d : bool) (p : list bs) : bool :=
  match p with
  | [] => true
  | BEv :: r => negb d && flat_okd d r
  | BWr :: r => flat_okd true r
  | _ :: r => flat_okd d r
  end.

Fixpoint no_write1 (s : step) : bool :=
  match s with
  | SRead | SScratch | SEvmStatic => true
  | SWrite | SNestedDB | SLog | SEvmCall => false
  | SAlt a b => (fix go (l : list step) : bool := match l with [] => true | x :: r => no_write1 x && go r end) a &&
                (fix go (l : list step) : bool := match l with [] => true | x :: r => no_write1 x && go r end) b
  end.
Definition no_write (l : list step) : bool := forallb no_write1 l.

Definition expected_guards : list guard := [GInputLen; GLookup; GReadonly; GDisabled; GDispatch].

Definition str_suffix (suf s : string) : bool :=
  let n := String.length s in let k := String.length suf in
  Nat.leb k n && String.eqb (substring (n - k) k s) suf.

(* W1 for the table: a method declared state-changing does all its native work inside exactly one
   ExecuteNativeAction closure and never touches the live context outside it *)
Lemma table_writes_journaled :
  forallb (fun m => pm_readonly m || (Z.eqb (pm_actions m) 1 && negb (pm_outer_ctx m))) methods = true.
Proof. vm_compute. reflexivity. Qed.

(* a method declared read-only starts no action and only reads the live context (work on a CacheContext branch
   that is never written back counts as reading) *)
Lemma table_readonly_pure :
  forallb (fun m => negb (pm_readonly m) || (Z.eqb (pm_actions m) 0 && no_write (pm_steps m))) methods = true.
Proof. vm_compute. reflexivity. Qed.

(* W2 for the table, on every path through every state-changing closure *)
Lemma table_paths_ok :
  forallb (fun m => pm_readonly m || forallb (flat_okd false) (paths (pm_steps m))) methods = true.
Proof. vm_compute. reflexivity. Qed.

(* Contract.Run of both contracts: input length, method lookup, readonly guard, governance switch, dispatch — in
   this order; every error leaves through PackRetErr* with a non-nil error (the EVM then reverts the frame) *)
Lemma table_guards :
  staking_run_guards = expected_guards /\ crosschain_run_guards = expected_guards /\
  staking_errors_packed = true /\ crosschain_errors_packed = true /\
  staking_guards_flat = true /\ crosschain_guards_flat = true.
Proof. repeat split. Qed.

(* nothing between the EVM and the keepers intercepts a panic: no defer / recover() in Contract.Run nor in any
   method's Run. A keeper panic therefore unwinds through ExecuteNativeAction and the interpreter out of
   ApplyMessage, and the SDK drops the whole transaction (M_Frames: status Panic). Were it intercepted, the writes
   made before the panic would be neither restored nor journalled. *)
Lemma table_panics_abort :
  staking_run_recovers = false /\ crosschain_run_recovers = false /\
  staking_pkg_recover_calls = 0 /\ crosschain_pkg_recover_calls = 0 /\
  forallb (fun m => negb (pm_defers m)) methods = true.
Proof. repeat split. Qed.

(* the sign tests of the argument validation are the ones the model's guards transcribe (M_Precompile.method_run:
   approveShares refuses sh < 0; every transfer / delegate / undelegate / redelegate amount, pool id, fee increase and
   claim nonce is refused when <= 0; crossChain refuses amount <= 0 and fee < 0). Accepting a zero amount would let a
   caller with no allowance (a never-granted allowance reads 0) run transferFromShares on anybody's delegation. *)
Lemma arg_sign_checks_expected :
  arg_sign_checks =
  [("ApproveSharesArgs", "Shares", "<", "0"); ("DelegateV2Args", "Amount", "<=", "0");
   ("RedelegateArgs", "Shares", "<=", "0"); ("RedelegateV2Args", "Amount", "<=", "0");
   ("TransferSharesArgs", "Shares", "<=", "0"); ("TransferFromSharesArgs", "Shares", "<=", "0");
   ("UndelegateArgs", "Shares", "<=", "0"); ("UndelegateV2Args", "Amount", "<=", "0");
   ("CancelSendToExternalArgs", "TxID", "<=", "0"); ("CrossChainArgs", "Amount", "<=", "0");
   ("CrossChainArgs", "Fee", "<", "0"); ("IncreaseBridgeFeeArgs", "TxID", "<=", "0");
   ("IncreaseBridgeFeeArgs", "Fee", "<=", "0"); ("BridgeCallArgs", "Value", "!=", "0");
   ("ExecuteClaimArgs", "EventNonce", "<=", "0")]%string.
Proof. reflexivity. Qed.

(* the acting identity is contract.Caller(); evm.Origin only ever flows into event constructors *)
Lemma table_identities :
  forallb (fun m => pm_readonly m ||
                    (existsb (String.eqb "caller") (pm_identities m) &&
                     forallb (str_suffix "Event") (pm_origin_sinks m))) methods = true.
Proof. vm_compute. reflexivity. Qed.

(* the four entry points of the EVM hand the precompile: the executing context as caller; readOnly = false for
   CALL and true for the other three — as literals, never the interpreter's own flag *)
Lemma evm_sites_expected :
  evm_sites = [(CALL, "caller", "value", "false"); (CALLCODE, "caller", "value", "true");
               (DELEGATECALL, "caller", "nil", "true"); (STATICCALL, "caller", "new(big.Int)", "true")]%string /\
  evm_entry_consults_interpreter_readonly = false.
Proof. split; reflexivity. Qed.

(* ---- link to M_Frames.wf_a: whatever a closure of the table does is a well-formed action body ---- *)

Section Link.
Variable eff : Type.
Notation nodes := (nodes eff).

(* l is what an execution along path p did: reads leave no node, an EVM call is any well-formed frame,
   and the closure may return early (error) at any point *)
Inductive realize : list bs -> nodes -> Prop :=
| r_nil : realize [] nnil
| r_stop p : realize p nnil
| r_rd p l : realize p l -> realize (BRd :: p) l
| r_wr e p l : realize p l -> realize (BWr :: p) (ncons (NStep e) l)
| r_lg t p l : realize p l -> realize (BLg :: p) (ncons (Log t) l)
| r_ev b en c p l : wf_fl eff b = true -> realize p l -> realize (BEv :: p) (ncons (Frame b en c) l).

Lemma realize_wf : forall p l, realize p l -> forall d, flat_okd d p = true -> wf_a eff l d = true.
Proof.
  induction 1 as [ | p | p l R IH | e p l R IH | t p l R IH | b en c p l Wb R IH]; intros d H; try reflexivity.
  - apply IH. exact H.
  - change (wf_a eff l true = true). apply IH. exact H.
  - change (wf_a eff l d = true). apply IH. exact H.
  - cbn [flat_okd] in H. apply andb_true_iff in H as [Hd Hr]. apply negb_true_iff in Hd. subst d.
    change (wf_fl eff b && true && wf_a eff l false = true). rewrite Wb, (IH _ Hr). reflexivity.
Qed.

Theorem table_actions_wf : forall m p l evs,
  In m methods -> pm_readonly m = false -> In p (paths (pm_steps m)) -> realize p l ->
  wf_f eff (Action l evs) = true.
Proof.
  intros m p l evs Hm Hro Hp Hr. change (wf_a eff l false = true). apply (realize_wf p l Hr).
  pose proof table_paths_ok as T. rewrite forallb_forall in T. specialize (T m Hm). rewrite Hro in T.
  cbn [orb] in T. rewrite forallb_forall in T. apply T. exact Hp.
Qed.
End Link.
