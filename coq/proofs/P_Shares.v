(* P_Shares.v — proofs about model.M_Shares (property C11). *)
From Coq Require Import ZArith List Bool Lia.
From FxV Require Import lib.Dec model.M_Shares gen.Gen_C11.
Import ListNotations.
Open Scope Z_scope.

(* ====================================================================== *)
(* 1. association lists                                                     *)
(* ====================================================================== *)
Section KVFacts.
  Context {A : Type}.
  Implicit Types (m : list (Z * A)) (k : Z) (a : A).

  Fixpoint sorted m : Prop :=
    match m with
    | [] => True
    | (k, _) :: r => Forall (fun e => k < fst e) r /\ sorted r
    end.

  Lemma kget_kset_same : forall m k a, kget k (kset k a m) = Some a.
  Proof.
    induction m as [|[k' a'] r IH]; intros k a; cbn.
    - now rewrite Z.eqb_refl.
    - destruct (k <? k') eqn:L; cbn; [now rewrite Z.eqb_refl|].
      destruct (k =? k') eqn:E; cbn; [now rewrite Z.eqb_refl|].
      rewrite E. apply IH.
  Qed.

  Lemma kget_kset_other : forall m k j a, j <> k -> kget j (kset k a m) = kget j m.
  Proof.
    induction m as [|[k' a'] r IH]; intros k j a N; cbn.
    - destruct (j =? k) eqn:E; [apply Z.eqb_eq in E; lia|reflexivity].
    - destruct (k <? k') eqn:L; cbn.
      + destruct (j =? k) eqn:E; [apply Z.eqb_eq in E; lia|reflexivity].
      + destruct (k =? k') eqn:E; cbn.
        * apply Z.eqb_eq in E; subst k'.
          destruct (j =? k) eqn:E2; [apply Z.eqb_eq in E2; lia|reflexivity].
        * destruct (j =? k'); [reflexivity|]. now apply IH.
  Qed.

  Lemma kget_kdel_same : forall m k, kget k (kdel k m) = None.
  Proof.
    induction m as [|[k' a'] r IH]; intros k; cbn; [reflexivity|].
    destruct (k =? k') eqn:E; cbn; [apply IH|]. rewrite E. apply IH.
  Qed.

  Lemma kget_kdel_other : forall m k j, j <> k -> kget j (kdel k m) = kget j m.
  Proof.
    induction m as [|[k' a'] r IH]; intros k j N; cbn; [reflexivity|].
    destruct (k =? k') eqn:E; cbn.
    - apply Z.eqb_eq in E; subst k'.
      destruct (j =? k) eqn:E2; [apply Z.eqb_eq in E2; lia|]. now apply IH.
    - destruct (j =? k'); [reflexivity|]. now apply IH.
  Qed.

  Lemma Forall_kset : forall (P : Z * A -> Prop) m k a,
    Forall P m -> P (k, a) -> Forall P (kset k a m).
  Proof.
    induction m as [|[k' a'] r IH]; intros k a F Pk; cbn.
    - constructor; [assumption|constructor].
    - inversion F; subst.
      destruct (k <? k'); [constructor; assumption|].
      destruct (k =? k'); constructor; auto.
  Qed.

  Lemma Forall_kdel : forall (P : Z * A -> Prop) m k, Forall P m -> Forall P (kdel k m).
  Proof.
    induction m as [|[k' a'] r IH]; intros k F; cbn; [constructor|].
    inversion F; subst. destruct (k =? k'); [auto|constructor; auto].
  Qed.

  Lemma sorted_kset : forall m k a, sorted m -> sorted (kset k a m).
  Proof.
    induction m as [|[k' a'] r IH]; intros k a S; cbn.
    - split; [constructor|exact I].
    - destruct S as [F S].
      destruct (k <? k') eqn:L.
      + apply Z.ltb_lt in L. cbn. split; [|split; assumption].
        constructor; [exact L|]. eapply Forall_impl; [|exact F]. cbn. intros; lia.
      + destruct (k =? k') eqn:E.
        * apply Z.eqb_eq in E; subst k'. cbn. split; assumption.
        * apply Z.ltb_ge in L. apply Z.eqb_neq in E. cbn. split; [|apply IH; assumption].
          apply Forall_kset; [assumption|cbn; lia].
  Qed.

  Lemma sorted_kdel : forall m k, sorted m -> sorted (kdel k m).
  Proof.
    induction m as [|[k' a'] r IH]; intros k S; cbn; [exact I|].
    destruct S as [F S]. destruct (k =? k'); [auto|]. cbn. split; [apply Forall_kdel; assumption|auto].
  Qed.

  Lemma lb_kget_none : forall m k, Forall (fun e => k < fst e) m -> kget k m = None.
  Proof.
    induction m as [|[k' a'] r IH]; intros k F; cbn; [reflexivity|].
    inversion F; subst. cbn in *. destruct (k =? k') eqn:E; [apply Z.eqb_eq in E; lia|auto].
  Qed.

  (* sums of a function of the values *)
  Fixpoint ksumf (g : A -> Z) m : Z :=
    match m with [] => 0 | (_, a) :: r => g a + ksumf g r end.

  Definition gof (g : A -> Z) (o : option A) : Z := match o with Some a => g a | None => 0 end.

  Lemma ksumf_kset : forall g m k a, sorted m ->
    ksumf g (kset k a m) = ksumf g m - gof g (kget k m) + g a.
  Proof.
    induction m as [|[k' a'] r IH]; intros k a S; cbn.
    - lia.
    - destruct S as [F S].
      destruct (k <? k') eqn:L.
      + apply Z.ltb_lt in L. cbn.
        destruct (k =? k') eqn:E; [apply Z.eqb_eq in E; lia|].
        rewrite lb_kget_none; [cbn; lia|].
        eapply Forall_impl; [|exact F]. cbn; intros; lia.
      + destruct (k =? k') eqn:E; cbn; [lia|]. rewrite IH by assumption. lia.
  Qed.

  Lemma ksumf_kdel : forall g m k, sorted m ->
    ksumf g (kdel k m) = ksumf g m - gof g (kget k m).
  Proof.
    induction m as [|[k' a'] r IH]; intros k S; cbn; [lia|].
    destruct S as [F S].
    destruct (k =? k') eqn:E; cbn.
    - apply Z.eqb_eq in E; subst k'. rewrite IH by assumption.
      rewrite (lb_kget_none r k F). cbn. lia.
    - rewrite IH by assumption. lia.
  Qed.

  Lemma ksumf_nonneg : forall g m, (forall a, 0 <= g a) -> 0 <= ksumf g m.
  Proof.
    intros g m G. induction m as [|[k a] r IH]; cbn; [lia|]. specialize (G a). lia.
  Qed.

  Lemma ksumf_ge : forall g m k a, (forall a, 0 <= g a) -> kget k m = Some a -> g a <= ksumf g m.
  Proof.
    intros g m k a G. induction m as [|[k' a'] r IH]; cbn; [discriminate|].
    destruct (k =? k').
    - intros E; inversion E; subst. pose proof (ksumf_nonneg g r G). lia.
    - intros E. specialize (IH E). specialize (G a'). lia.
  Qed.

  Lemma ksumf_zero : forall g m, Forall (fun e => g (snd e) = 0) m -> ksumf g m = 0.
  Proof.
    intros g m F. induction F as [|[k a] r H F IH]; cbn in *; [reflexivity|lia].
  Qed.

  Lemma kget_Forall : forall (P : Z * A -> Prop) m k a, Forall P m -> kget k m = Some a -> exists k', P (k', a).
  Proof.
    intros P m k a F. induction F as [|[k' a'] r H F IH]; cbn; [discriminate|].
    destruct (k =? k'); [intros E; inversion E; subst; eauto|auto].
  Qed.
End KVFacts.

Lemma khas_kset : forall {A} (m : list (Z * A)) k j a,
  khas j (kset k a m) = if j =? k then true else khas j m.
Proof.
  intros. unfold khas. destruct (Z.eqb_spec j k) as [->|N].
  - now rewrite kget_kset_same.
  - now rewrite kget_kset_other.
Qed.

Lemma khas_kdel : forall {A} (m : list (Z * A)) k j,
  khas j (kdel k m) = if j =? k then false else khas j m.
Proof.
  intros. unfold khas. destruct (Z.eqb_spec j k) as [->|N].
  - now rewrite kget_kdel_same.
  - now rewrite kget_kdel_other.
Qed.

(* ====================================================================== *)
(* 2. the distribution primitives: what they do to the reference counts,   *)
(*    the cumulative ratios and the reward pots                            *)
(* ====================================================================== *)
Definition b2z (b : bool) : Z := if b then 1 else 0.

Ltac psimpl := cbn [v_tokens v_shares v_status v_jailed v_ubh v_dels v_period v_cur v_out v_hist v_ratio
                    v_start v_slashes set_tokens set_shares set_status set_jailed set_ubh set_dels set_period
                    set_cur set_out set_hist set_ratio set_start set_slashes].
Tactic Notation "psimpl" "in" hyp(H) :=
  cbn [v_tokens v_shares v_status v_jailed v_ubh v_dels v_period v_cur v_out v_hist v_ratio
       v_start v_slashes set_tokens set_shares set_status set_jailed set_ubh set_dels set_period
       set_cur set_out set_hist set_ratio set_start set_slashes] in H.
Tactic Notation "psimpl" "in" "*" :=
  cbn [v_tokens v_shares v_status v_jailed v_ubh v_dels v_period v_cur v_out v_hist v_ratio
       v_start v_slashes set_tokens set_shares set_status set_jailed set_ubh set_dels set_period
       set_cur set_out set_hist set_ratio set_start set_slashes] in *.

(* the staking side and the delegator-level distribution records *)
Definition rest_same (v v' : vstate) : Prop :=
  v_tokens v' = v_tokens v /\ v_shares v' = v_shares v /\ v_dels v' = v_dels v /\
  v_start v' = v_start v /\ v_slashes v' = v_slashes v /\
  (v_status v' = v_status v /\ v_jailed v' = v_jailed v /\ v_ubh v' = v_ubh v).

Lemma rest_same_refl : forall v, rest_same v v.
Proof. intros; repeat split. Qed.

Lemma rest_same_trans : forall a b c, rest_same a b -> rest_same b c -> rest_same a c.
Proof.
  unfold rest_same; intros a b c (?&?&?&?&?&?&?&?) (?&?&?&?&?&?&?&?); repeat split; congruence.
Qed.

Lemma href_kset : forall hm q c p,
  match kget p (kset q c hm) with Some x => x | None => 0 end =
  if p =? q then c else match kget p hm with Some x => x | None => 0 end.
Proof.
  intros. destruct (Z.eqb_spec p q) as [->|N].
  - now rewrite kget_kset_same.
  - now rewrite kget_kset_other.
Qed.

Lemma href_kdel : forall (hm : list (Z * Z)) q p,
  match kget p (kdel q hm) with Some x => x | None => 0 end =
  if p =? q then 0 else match kget p hm with Some x => x | None => 0 end.
Proof.
  intros. destruct (Z.eqb_spec p q) as [->|N].
  - now rewrite kget_kdel_same.
  - now rewrite kget_kdel_other.
Qed.

(* what dec_ref leaves alone *)
Definition pots_same (v v' : vstate) : Prop :=
  v_period v' = v_period v /\ v_cur v' = v_cur v /\ v_out v' = v_out v.

Lemma dec_ref_spec : forall q v v', dec_ref q v = Ok v' ->
  rest_same v v' /\ v_period v' = v_period v /\ href q v <> 0 /\
  (forall p, href p v' = href p v - b2z (p =? q)).
Proof.
  unfold dec_ref; intros q v v' H.
  destruct (href q v =? 0) eqn:Z0; [discriminate|]. apply Z.eqb_neq in Z0.
  destruct (href q v - 1 =? 0) eqn:Z1; inversion H; subst; clear H.
  - apply Z.eqb_eq in Z1. repeat split; try assumption.
    intros p. unfold href in *. psimpl. rewrite href_kdel. unfold b2z. destruct (Z.eqb_spec p q); subst; lia.
  - repeat split; try assumption.
    intros p. unfold href in *. psimpl. rewrite href_kset. unfold b2z. destruct (Z.eqb_spec p q); subst; lia.
Qed.

(* ... and to the ratios: only the record of q can go, and only when its last reference went *)
Lemma dec_ref_ratio : forall q v v', dec_ref q v = Ok v' ->
  v_cur v' = v_cur v /\ v_out v' = v_out v /\
  (forall p, p <> q \/ href q v <> 1 -> hratio p v' = hratio p v).
Proof.
  unfold dec_ref; intros q v v' H.
  destruct (href q v =? 0) eqn:Z0; [discriminate|].
  destruct (href q v - 1 =? 0) eqn:Z1; inversion H; subst; clear H.
  - apply Z.eqb_eq in Z1. repeat split. intros p [N|N]; [|lia].
    unfold hratio. psimpl. now rewrite kget_kdel_other.
  - repeat split.
Qed.

Lemma inc_ref_spec : forall q v v', inc_ref q v = Ok v' ->
  rest_same v v' /\ v_period v' = v_period v /\
  (forall p, href p v' = href p v + b2z (p =? q)).
Proof.
  unfold inc_ref; intros q v v' H.
  destruct (2 <? href q v); inversion H; subst; clear H.
  repeat split. intros p. unfold href. psimpl. rewrite href_kset. unfold b2z. destruct (Z.eqb_spec p q); subst; lia.
Qed.

Lemma inc_ref_precompile_spec : forall q v v', inc_ref_precompile q v = Ok v' ->
  rest_same v v' /\ v_period v' = v_period v /\
  (forall p, href p v' = href p v + b2z (p =? q)).
Proof.
  unfold inc_ref_precompile; intros q v v' H.
  destruct (2 <? href q v); inversion H; subst; clear H.
  repeat split. intros p. unfold href. psimpl. rewrite href_kset. unfold b2z. destruct (Z.eqb_spec p q); subst; lia.
Qed.

Lemma inc_ref_ratio : forall q v v', inc_ref q v = Ok v' ->
  v_cur v' = v_cur v /\ v_out v' = v_out v /\ v_ratio v' = v_ratio v.
Proof. unfold inc_ref; intros q v v' H. destruct (2 <? href q v); inversion H; subst. repeat split. Qed.

Lemma inc_ref_precompile_ratio : forall q v v', inc_ref_precompile q v = Ok v' ->
  v_cur v' = v_cur v /\ v_out v' = v_out v /\ v_ratio v' = v_ratio v.
Proof. unfold inc_ref_precompile; intros q v v' H. destruct (2 <? href q v); inversion H; subst. repeat split. Qed.

Lemma inc_ref_ok : forall q v, href q v <= 2 -> exists v', inc_ref q v = Ok v'.
Proof. unfold inc_ref; intros q v H. destruct (2 <? href q v) eqn:E; [apply Z.ltb_lt in E; lia|eauto]. Qed.

Lemma dec_ref_ok : forall q v, href q v <> 0 -> exists v', dec_ref q v = Ok v'.
Proof.
  unfold dec_ref; intros q v H. destruct (href q v =? 0) eqn:E; [apply Z.eqb_eq in E; lia|].
  destruct (href q v - 1 =? 0); eauto.
Qed.

Lemma bind_ok : forall {A B} (r : res A) (f : A -> res B) b,
  bind r f = Ok b -> exists a, r = Ok a /\ f a = Ok b.
Proof. intros A B [a| |] f b H; cbn in H; try discriminate. eauto. Qed.

(* the ratio increment of the period that ends, and what is left outstanding *)
Definition period_ratio (v : vstate) : Z :=
  if v_tokens v =? 0 then 0 else dec_quo_trunc (v_cur v) (dec_of_int (v_tokens v)).
Definition out_after_period (v : vstate) : Z :=
  if v_tokens v =? 0 then v_out v - v_cur v else v_out v.

Lemma incr_period_spec : forall v v', incr_period v = Ok v' ->
  rest_same v v' /\ v_period v' = v_period v + 1 /\ href (v_period v - 1) v <> 0 /\
  (forall p, href p v' = if p =? v_period v then 1 else href p v - b2z (p =? v_period v - 1)).
Proof.
  unfold incr_period; intros v v' H.
  apply bind_ok in H as ([current out'] & _ & H).
  apply bind_ok in H as (v1 & D & H). inversion H; subst; clear H.
  apply dec_ref_spec in D as (R & P & NZ & HR).
  split; [|split; [|split]].
  - destruct R as (?&?&?&?&?&?&?&?). repeat split; psimpl; assumption.
  - reflexivity.
  - assumption.
  - intros p. specialize (HR p). unfold href in *. psimpl.
    destruct (Z.eqb_spec p (v_period v)) as [->|N].
    + now rewrite kget_kset_same.
    + rewrite kget_kset_other by assumption. exact HR.
Qed.

Lemma incr_period_ratio : forall v v', incr_period v = Ok v' ->
  v_cur v' = 0 /\ v_out v' = out_after_period v /\
  (v_tokens v = 0 -> 0 <= v_out v - v_cur v) /\
  hratio (v_period v) v' = hratio (v_period v - 1) v + period_ratio v /\
  (forall p, p <> v_period v -> (p <> v_period v - 1 \/ href (v_period v - 1) v <> 1) ->
             hratio p v' = hratio p v).
Proof.
  unfold incr_period, period_ratio, out_after_period; intros v v' H.
  apply bind_ok in H as ([current out'] & E & H).
  apply bind_ok in H as (v1 & D & H). inversion H; subst; clear H.
  apply dec_ref_ratio in D as (_ & _ & HR).
  assert (EE : current = (if v_tokens v =? 0 then 0 else dec_quo_trunc (v_cur v) (dec_of_int (v_tokens v))) /\
               out' = (if v_tokens v =? 0 then v_out v - v_cur v else v_out v) /\
               (v_tokens v = 0 -> 0 <= v_out v - v_cur v)).
  { destruct (Z.eqb_spec (v_tokens v) 0).
    - destruct (v_out v - v_cur v <? 0) eqn:L; [discriminate|]. inversion E; subst. apply Z.ltb_ge in L.
      repeat split; lia.
    - inversion E; subst. repeat split; lia. }
  destruct EE as (-> & -> & Hpos).
  psimpl. split; [reflexivity|]. split; [reflexivity|]. split; [exact Hpos|]. split.
  - unfold hratio at 1. psimpl. now rewrite kget_kset_same.
  - intros p N C. unfold hratio at 1. psimpl. rewrite kget_kset_other by assumption.
    fold (hratio p v1). apply HR. exact C.
Qed.

Lemma incr_period_ok : forall v,
  href (v_period v - 1) v <> 0 -> (v_tokens v = 0 -> 0 <= v_out v - v_cur v) ->
  exists v', incr_period v = Ok v'.
Proof.
  intros v H C. unfold incr_period. destruct (dec_ref_ok _ _ H) as [v1 E].
  destruct (Z.eqb_spec (v_tokens v) 0) as [T|T].
  - destruct (v_out v - v_cur v <? 0) eqn:L; [apply Z.ltb_lt in L; specialize (C T); lia|].
    cbn [bind]. rewrite E. cbn [bind]. eauto.
  - cbn [bind]. rewrite E. cbn [bind]. eauto.
Qed.

(* ====================================================================== *)
(* 3. the SDK's reference-count invariant (distribution ReferenceCountInvariant,
      per validator and per period) and its preservation by the primitives  *)
(* ====================================================================== *)
Definition cnt_start (p : Z) (m : list (Z * sinfo)) : Z := ksumf (fun si => b2z (si_prev si =? p)) m.
Definition sl_period (e : Z * Z * Z) : Z := snd (fst e).
Fixpoint cnt_slash (p : Z) (l : list (Z * Z * Z)) : Z :=
  match l with [] => 0 | e :: r => b2z (sl_period e =? p) + cnt_slash p r end.

Record F1 (v : vstate) : Prop := {
  F_ss : sorted (v_start v);
  F_ref : forall p, href p v = cnt_start p (v_start v) + cnt_slash p (v_slashes v) + b2z (p =? v_period v - 1);
  F_sp : Forall (fun e => si_prev (snd e) < v_period v) (v_start v);
  F_slp : Forall (fun e => sl_period e < v_period v) (v_slashes v)
}.

(* lia with the remaining b2z terms abstracted (zify trips over Z.eqb under an unknown function) *)
Ltac bz := cbn [b2z];
  repeat match goal with
         | |- context [b2z ?b] => let x := fresh "bz" in set (x := b2z b) in *; clearbody x
         end; lia.

Lemma b2z_nonneg : forall b, 0 <= b2z b. Proof. destruct b; cbn; lia. Qed.

Lemma cnt_start_nonneg : forall p m, 0 <= cnt_start p m.
Proof. intros. apply ksumf_nonneg. intros; apply b2z_nonneg. Qed.

Lemma cnt_slash_nonneg : forall p l, 0 <= cnt_slash p l.
Proof. induction l; cbn; [lia|]. pose proof (b2z_nonneg (sl_period a =? p)). lia. Qed.

Lemma cnt_start_zero_ge : forall P p m,
  Forall (fun e => si_prev (snd e) < P) m -> P <= p -> cnt_start p m = 0.
Proof.
  intros P p m F L. apply ksumf_zero. eapply Forall_impl; [|exact F]. cbn. intros e H.
  destruct (Z.eqb_spec (si_prev (snd e)) p); [lia|reflexivity].
Qed.

Lemma cnt_slash_zero_ge : forall P p l,
  Forall (fun e => sl_period e < P) l -> P <= p -> cnt_slash p l = 0.
Proof.
  intros P p l F L. induction F as [|e r H F IH]; cbn; [reflexivity|].
  rewrite IH. destruct (Z.eqb_spec (sl_period e) p); [lia|reflexivity].
Qed.

Lemma cnt_slash_app : forall p l e, cnt_slash p (l ++ [e]) = cnt_slash p l + b2z (sl_period e =? p).
Proof. induction l; intros; cbn; [lia|]. rewrite IHl. lia. Qed.

Lemma cnt_start_ge1 : forall a m si, kget a m = Some si -> 1 <= cnt_start (si_prev si) m.
Proof.
  intros a m si H. unfold cnt_start.
  pose proof (ksumf_ge (fun s => b2z (si_prev s =? si_prev si)) m a si (fun s => b2z_nonneg _) H) as G.
  cbn in G. rewrite Z.eqb_refl in G. exact G.
Qed.

Lemma href_ext : forall v v' p, v_hist v' = v_hist v -> href p v' = href p v.
Proof. intros v v' p H. unfold href. now rewrite H. Qed.

Lemma F1_ext : forall v v',
  v_hist v' = v_hist v -> v_start v' = v_start v -> v_slashes v' = v_slashes v -> v_period v' = v_period v ->
  F1 v -> F1 v'.
Proof.
  intros v v' Hh Hs Hl Hp [S R SP SL]. constructor.
  - now rewrite Hs.
  - intros p. rewrite (href_ext v v' p Hh), Hs, Hl, Hp. apply R.
  - now rewrite Hs, Hp.
  - now rewrite Hl, Hp.
Qed.

Lemma incr_period_F1 : forall v v', F1 v -> incr_period v = Ok v' -> F1 v'.
Proof.
  intros v v' [S R SP SL] H. apply incr_period_spec in H as ((_&_&_&Hs&Hl&_) & Hp & _ & HR).
  constructor.
  - now rewrite Hs.
  - intros p. rewrite HR, Hs, Hl, Hp.
    destruct (Z.eqb_spec p (v_period v)) as [->|N].
    + rewrite (cnt_start_zero_ge (v_period v)) by (assumption || lia).
      rewrite (cnt_slash_zero_ge (v_period v)) by (assumption || lia).
      replace (v_period v + 1 - 1) with (v_period v) by lia. rewrite Z.eqb_refl. reflexivity.
    + rewrite R. replace (v_period v + 1 - 1) with (v_period v) by lia.
      destruct (Z.eqb_spec p (v_period v)); [lia|]. bz.
  - rewrite Hs, Hp. eapply Forall_impl; [|exact SP]. cbn; intros; lia.
  - rewrite Hl, Hp. eapply Forall_impl; [|exact SL]. cbn; intros; lia.
Qed.

(* releasing a delegator's reference and deleting its starting info (withdrawDelegationRewards, and the
   hand-written copy in handlerTransferShares) *)
Lemma F1_remove : forall v a si v2,
  F1 v -> kget a (v_start v) = Some si -> dec_ref (si_prev si) v = Ok v2 ->
  F1 (set_start (kdel a (v_start v2)) v2).
Proof.
  intros v a si v2 [S R SP SL] G D.
  apply dec_ref_spec in D as ((_&_&_&Hs&Hl&_) & Hp & _ & HR).
  constructor; psimpl.
  - rewrite Hs. now apply sorted_kdel.
  - intros p. rewrite (href_ext v2 _ p) by reflexivity. rewrite HR, Hs, Hl, Hp.
    unfold cnt_start. rewrite ksumf_kdel by assumption. rewrite G. cbn [gof].
    fold (cnt_start p (v_start v)). rewrite R. rewrite (Z.eqb_sym p (si_prev si)). bz.
  - rewrite Hs, Hp. now apply Forall_kdel.
  - now rewrite Hl, Hp.
Qed.

(* taking a reference on the period that just ended and writing a fresh starting info
   (initializeDelegation, and the hand-written copy in handlerTransferShares) *)
Lemma F1_add : forall v v1 a si,
  F1 v -> kget a (v_start v) = None ->
  rest_same v v1 -> v_period v1 = v_period v ->
  (forall p, href p v1 = href p v + b2z (p =? v_period v - 1)) ->
  si_prev si = v_period v - 1 ->
  F1 (set_start (kset a si (v_start v1)) v1).
Proof.
  intros v v1 a si [S R SP SL] G (_&_&_&Hs&Hl&_) Hp HR Hsi.
  constructor; psimpl.
  - rewrite Hs. now apply sorted_kset.
  - intros p. rewrite (href_ext v1 _ p) by reflexivity. rewrite HR, Hs, Hl, Hp.
    unfold cnt_start. rewrite ksumf_kset by assumption. rewrite G. cbn [gof].
    fold (cnt_start p (v_start v)). rewrite R, Hsi. rewrite (Z.eqb_sym p). bz.
  - rewrite Hs, Hp. apply Forall_kset; [assumption|cbn; lia].
  - now rewrite Hl, Hp.
Qed.

(* rewriting the stake of an existing starting info *)
Lemma F1_restake : forall v a si si',
  F1 v -> kget a (v_start v) = Some si -> si_prev si' = si_prev si ->
  F1 (set_start (kset a si' (v_start v)) v).
Proof.
  intros v a si si' [S R SP SL] G E.
  constructor; psimpl.
  - now apply sorted_kset.
  - intros p. rewrite (href_ext v _ p) by reflexivity.
    unfold cnt_start. rewrite ksumf_kset by assumption. rewrite G. cbn [gof].
    fold (cnt_start p (v_start v)). rewrite R, E. bz.
  - apply Forall_kset; [assumption|]. cbn. rewrite E.
    destruct (kget_Forall _ _ _ _ SP G) as [k' H]. exact H.
  - assumption.
Qed.


(* ====================================================================== *)
(* 4. withdrawDelegationRewards / initializeDelegation                      *)
(* ====================================================================== *)
Definition stk_same (v v' : vstate) : Prop :=
  v_tokens v' = v_tokens v /\ v_shares v' = v_shares v /\ v_dels v' = v_dels v.
Definition meta_same (v v' : vstate) : Prop :=
  v_status v' = v_status v /\ v_jailed v' = v_jailed v /\ v_ubh v' = v_ubh v.

Lemma khas_true : forall {A} (m : list (Z * A)) k, khas k m = true -> exists a, kget k m = Some a.
Proof. unfold khas; intros A m k H. destruct (kget k m); [eauto|discriminate]. Qed.
Lemma khas_false : forall {A} (m : list (Z * A)) k, khas k m = false -> kget k m = None.
Proof. unfold khas; intros A m k H. destruct (kget k m); [discriminate|reflexivity]. Qed.
Lemma kget_khas : forall {A} (m : list (Z * A)) k a, kget k m = Some a -> khas k m = true.
Proof. unfold khas; intros A m k a H. now rewrite H. Qed.
Lemma kget_khas_none : forall {A} (m : list (Z * A)) k, kget k m = None -> khas k m = false.
Proof. unfold khas; intros A m k H. now rewrite H. Qed.

(* the pieces of withdraw_rewards, named *)
Lemma withdraw_rewards_inv : forall h a v v' paid, withdraw_rewards h a v = Ok (v', paid) ->
  exists si v1 raw v2,
    kget a (v_start v) = Some si /\ incr_period v = Ok v1 /\
    calc_rewards h (v_period v) si (match kget a (v_dels v) with Some d => d | None => 0 end) v1 = Ok raw /\
    paid = dec_trunc_int (Z.min raw (v_out v1)) /\
    dec_ref (si_prev si) (set_out (v_out v1 - Z.min raw (v_out v1)) v1) = Ok v2 /\
    v' = set_start (kdel a (v_start v2)) v2.
Proof.
  unfold withdraw_rewards; intros h a v v' paid H.
  destruct (kget a (v_start v)) as [s|] eqn:G; [|discriminate].
  apply bind_ok in H as (v1 & I & H).
  pose proof (incr_period_spec _ _ I) as ((_&_&_&St1&_) & _).
  rewrite St1, G in H.
  apply bind_ok in H as (raw & C & H).
  apply bind_ok in H as (v2 & D & H). inversion H; subst; clear H.
  exists s, v1, raw, v2. repeat split; assumption.
Qed.

Lemma withdraw_rewards_frame : forall h a v v' paid, withdraw_rewards h a v = Ok (v', paid) ->
  stk_same v v' /\ v_slashes v' = v_slashes v /\ meta_same v v' /\ v_period v' = v_period v + 1 /\
  v_start v' = kdel a (v_start v) /\ khas a (v_start v) = true /\ v_cur v' = 0.
Proof.
  intros h a v v' paid H.
  apply withdraw_rewards_inv in H as (si & v1 & raw & v2 & G & I & _ & _ & D & ->).
  pose proof (incr_period_ratio _ _ I) as (C1 & _).
  apply incr_period_spec in I as ((T1&S1&D1&St1&Sl1&M1a&M1b&M1c) & P1 & _ & _).
  pose proof (dec_ref_ratio _ _ _ D) as (C2 & _).
  apply dec_ref_spec in D as ((T2&S2&D2&St2&Sl2&M2a&M2b&M2c) & P2 & _ & _).
  psimpl in *. unfold stk_same, meta_same. psimpl.
  repeat split; try congruence. apply (kget_khas _ _ _ G).
Qed.

Lemma F1_set_out : forall x v, F1 v -> F1 (set_out x v).
Proof. intros x v F. eapply F1_ext; [| | | |exact F]; reflexivity. Qed.

Lemma withdraw_rewards_F1 : forall h a v v' paid, F1 v -> withdraw_rewards h a v = Ok (v', paid) -> F1 v'.
Proof.
  intros h a v v' paid F H.
  apply withdraw_rewards_inv in H as (si & v1 & raw & v2 & G & I & _ & _ & D & ->).
  pose proof (incr_period_F1 _ _ F I) as F1'.
  apply incr_period_spec in I as ((_&_&_&St1&_) & _).
  eapply F1_remove; [apply F1_set_out; exact F1'| |exact D]. psimpl. now rewrite St1.
Qed.

Lemma init_delegation_frame : forall h a v v', init_delegation h a v = Ok v' ->
  stk_same v v' /\ v_slashes v' = v_slashes v /\ meta_same v v' /\ v_period v' = v_period v /\
  v_cur v' = v_cur v /\ v_out v' = v_out v /\ v_ratio v' = v_ratio v /\
  khas a (v_dels v) = true /\
  exists si, v_start v' = kset a si (v_start v) /\ si_prev si = v_period v - 1 /\ si_height si = h.
Proof.
  unfold init_delegation; intros h a v v' H.
  apply bind_ok in H as (v1 & I & H).
  pose proof (inc_ref_ratio _ _ _ I) as (C1 & O1 & R1).
  apply inc_ref_spec in I as ((T1&S1&D1&St1&Sl1&Ma&Mb&Mc) & P1 & _).
  destruct (kget a (v_dels v1)) as [sh|] eqn:G; [|discriminate].
  apply bind_ok in H as (stake & _ & H). inversion H; subst; clear H.
  unfold stk_same, meta_same. psimpl.
  repeat split; try congruence.
  - rewrite D1 in G. apply (kget_khas _ _ _ G).
  - eexists; split; [rewrite St1; reflexivity|]. cbn. split; reflexivity.
Qed.

Lemma init_delegation_F1 : forall h a v v',
  F1 v -> kget a (v_start v) = None -> init_delegation h a v = Ok v' -> F1 v'.
Proof.
  unfold init_delegation; intros h a v v' F N H.
  apply bind_ok in H as (v1 & I & H).
  apply inc_ref_spec in I as (R1 & P1 & HR).
  destruct (kget a (v_dels v1)) as [sh|] eqn:G; [|discriminate].
  apply bind_ok in H as (stake & _ & H). inversion H; subst; clear H.
  eapply F1_add; eauto.
Qed.

Lemma wdr_frame : forall h a v v' paid, withdraw_delegation_rewards h a v = Ok (v', paid) ->
  stk_same v v' /\ v_slashes v' = v_slashes v /\ meta_same v v' /\ v_period v' = v_period v + 1 /\
  khas a (v_dels v) = true /\ khas a (v_start v) = true /\ v_cur v' = 0 /\
  exists si, v_start v' = kset a si (kdel a (v_start v)) /\ si_prev si = v_period v /\ si_height si = h.
Proof.
  unfold withdraw_delegation_rewards; intros h a v v' paid H.
  destruct (kget a (v_dels v)) as [d|] eqn:G; [|discriminate].
  apply bind_ok in H as ([v1 p1] & W & H). cbn [fst snd] in H.
  apply bind_ok in H as (v2 & I & H). inversion H; subst; clear H.
  apply withdraw_rewards_frame in W as ((T1&S1&D1) & Sl1 & (Ma&Mb&Mc) & P1 & St1 & K1 & C1).
  apply init_delegation_frame in I as ((T2&S2&D2) & Sl2 & (Na&Nb&Nc) & P2 & C2 & _ & _ & K2 & si & St2 & Pv & Hh).
  unfold stk_same, meta_same.
  split; [repeat split; congruence|]. split; [congruence|]. split; [repeat split; congruence|].
  split; [congruence|]. split; [apply (kget_khas _ _ _ G)|]. split; [assumption|]. split; [congruence|].
  exists si. split; [congruence|]. split; [rewrite Pv, P1; lia|assumption].
Qed.

Lemma wdr_F1 : forall h a v v' paid, F1 v -> withdraw_delegation_rewards h a v = Ok (v', paid) -> F1 v'.
Proof.
  unfold withdraw_delegation_rewards; intros h a v v' paid F H.
  destruct (kget a (v_dels v)) as [d|] eqn:G; [|discriminate].
  apply bind_ok in H as ([v1 p1] & W & H). cbn [fst snd] in H.
  apply bind_ok in H as (v2 & I & H). inversion H; subst; clear H.
  pose proof (withdraw_rewards_F1 _ _ _ _ _ F W) as F1'.
  apply withdraw_rewards_frame in W as (_ & _ & _ & _ & St1 & _).
  eapply init_delegation_F1; [exact F1'| |exact I]. rewrite St1. apply kget_kdel_same.
Qed.

(* ====================================================================== *)
(* 5. the three blocks of handlerTransferShares                            *)
(* ====================================================================== *)
Lemma ts_read_to_frame : forall h to v1 v2 toDel toFound pt,
  ts_read_to h to v1 = Ok (v2, toDel, toFound, pt) ->
  stk_same v1 v2 /\ v_slashes v2 = v_slashes v1 /\ v_period v2 = v_period v1 + 1 /\
  ((toFound = false /\ kget to (v_dels v1) = None /\ toDel = 0 /\ v_start v2 = v_start v1) \/
   (toFound = true /\ kget to (v_dels v1) = Some toDel /\ khas to (v_start v1) = true /\
    exists si, v_start v2 = kset to si (kdel to (v_start v1)) /\ si_height si = h)).
Proof.
  unfold ts_read_to; intros h to v1 v2 toDel toFound pt H.
  destruct (kget to (v_dels v1)) as [d|] eqn:G.
  - apply bind_ok in H as ([w pw] & W & H). cbn [fst snd] in H. inversion H; subst; clear H.
    apply wdr_frame in W as (S & Sl & _ & P & _ & K & _ & si & St & _ & Hh).
    repeat split; try apply S; try assumption. right. repeat split; try assumption. eauto.
  - apply bind_ok in H as (w & I & H). inversion H; subst; clear H.
    apply incr_period_spec in I as ((T&S&D&St&Sl&_) & P & _ & _).
    unfold stk_same. repeat split; try assumption. left. repeat split; assumption.
Qed.

Lemma ts_read_to_F1 : forall h to v1 v2 toDel toFound pt,
  F1 v1 -> ts_read_to h to v1 = Ok (v2, toDel, toFound, pt) -> F1 v2.
Proof.
  unfold ts_read_to; intros h to v1 v2 toDel toFound pt F H.
  destruct (kget to (v_dels v1)) as [d|] eqn:G.
  - apply bind_ok in H as ([w pw] & W & H). cbn [fst snd] in H. inversion H; subst; clear H. eapply wdr_F1; eauto.
  - apply bind_ok in H as (w & I & H). inversion H; subst; clear H. eapply incr_period_F1; eauto.
Qed.

Lemma ts_write_from_frame : forall tok vsh from fromDel shares v2 v3,
  ts_write_from tok vsh from fromDel shares v2 = Ok v3 ->
  v_tokens v3 = v_tokens v2 /\ v_shares v3 = v_shares v2 /\
  v_slashes v3 = v_slashes v2 /\ v_period v3 = v_period v2 /\
  v_dels v3 = (if fromDel - shares =? 0 then kdel from (v_dels v2)
               else kset from (fromDel - shares) (v_dels v2)) /\
  exists si, v_start v3 = (if fromDel - shares =? 0 then kdel from (v_start v2)
                           else kset from si (v_start v2)).
Proof.
  unfold ts_write_from; intros tok vsh from fromDel shares v2 v3 H.
  destruct (fromDel - shares =? 0).
  - apply bind_ok in H as (w & D & H). inversion H; subst; clear H.
    apply dec_ref_spec in D as ((T&S&Dl&St&Sl&_) & P & _ & _).
    psimpl in *.
    repeat split; try congruence. all: try (exists sinfo_zero; congruence).
  - apply bind_ok in H as (stake & _ & H). inversion H; subst; clear H.
    psimpl.
    repeat split. eauto.
Qed.

Lemma F1_set_dels : forall d v, F1 v -> F1 (set_dels d v).
Proof. intros d v F. eapply F1_ext; [| | | |exact F]; reflexivity. Qed.

Lemma ts_write_from_F1 : forall tok vsh from fromDel shares v2 v3 si,
  F1 v2 -> kget from (v_start v2) = Some si ->
  ts_write_from tok vsh from fromDel shares v2 = Ok v3 -> F1 v3.
Proof.
  unfold ts_write_from; intros tok vsh from fromDel shares v2 v3 si F G H.
  rewrite G in H.
  destruct (fromDel - shares =? 0).
  - apply bind_ok in H as (w & D & H). inversion H; subst; clear H.
    eapply (F1_remove (set_dels (kdel from (v_dels v2)) v2) from si w).
    + now apply F1_set_dels.
    + exact G.
    + exact D.
  - apply bind_ok in H as (stake & _ & H). inversion H; subst; clear H.
    apply (F1_restake (set_dels (kset from (fromDel - shares) (v_dels v2)) v2) from si).
    + now apply F1_set_dels.
    + exact G.
    + reflexivity.
Qed.

Lemma ts_write_to_frame : forall h tok vsh to toDel shares toFound v3 v5,
  ts_write_to h tok vsh to toDel shares toFound v3 = Ok v5 ->
  v_tokens v5 = v_tokens v3 /\ v_shares v5 = v_shares v3 /\
  v_slashes v5 = v_slashes v3 /\ v_period v5 = v_period v3 /\
  v_dels v5 = kset to (toDel + shares) (v_dels v3) /\
  exists si, v_start v5 = kset to si (v_start v3).
Proof.
  unfold ts_write_to; intros h tok vsh to toDel shares toFound v3 v5 H.
  destruct (negb toFound).
  - apply bind_ok in H as (w & I & H).
    apply inc_ref_precompile_spec in I as ((T&S&D&St&Sl&_) & P & _).
    apply bind_ok in H as (stake & _ & H). inversion H; subst; clear H.
    psimpl in *.
    repeat split; try congruence. eexists. rewrite St. reflexivity.
  - apply bind_ok in H as (stake & _ & H). inversion H; subst; clear H.
    psimpl.
    repeat split. eauto.
Qed.

Lemma ts_write_to_F1 : forall h tok vsh to toDel shares (toFound : bool) v3 v5,
  F1 v3 ->
  (if toFound return Prop then khas to (v_start v3) = true else kget to (v_start v3) = None) ->
  ts_write_to h tok vsh to toDel shares toFound v3 = Ok v5 -> F1 v5.
Proof.
  unfold ts_write_to; intros h tok vsh to toDel shares toFound v3 v5 F K H.
  destruct toFound; cbn [negb] in H.
  - apply khas_true in K as (si & G).
    psimpl in H. rewrite G in H.
    apply bind_ok in H as (stake & _ & H). inversion H; subst; clear H.
    apply (F1_restake (set_dels (kset to (toDel + shares) (v_dels v3)) v3) to si).
    + now apply F1_set_dels.
    + exact G.
    + reflexivity.
  - apply bind_ok in H as (w & I & H).
    apply inc_ref_precompile_spec in I as (R & P & HR).
    apply bind_ok in H as (stake & _ & H). inversion H; subst; clear H.
    eapply (F1_add (set_dels (kset to (toDel + shares) (v_dels v3)) v3) w to).
    + now apply F1_set_dels.
    + exact K.
    + exact R.
    + exact P.
    + exact HR.
    + reflexivity.
Qed.


(* ====================================================================== *)
(* 6. transferShares: exactness (no invariant needed)                      *)
(* ====================================================================== *)
Definition idf (x : Z) : Z := x.
Definition dsum (m : list (Z * Z)) : Z := ksumf idf m.
Definition dget (a : Z) (v : vstate) : Z := gof idf (kget a (v_dels v)).

Lemma transfer_dels : forall h recv from to x v v' pf pt,
  transfer_shares_prefix h recv from to x v = Ok (v', pf, pt) ->
  exists fd, kget from (v_dels v) = Some fd /\ dec_of_int x <= fd /\ recv = false /\
  v_tokens v' = v_tokens v /\ v_shares v' = v_shares v /\ v_slashes v' = v_slashes v /\
  v_dels v' = kset to (dget to v + dec_of_int x)
                (if fd - dec_of_int x =? 0 then kdel from (v_dels v)
                 else kset from (fd - dec_of_int x) (v_dels v)).
Proof.
  unfold transfer_shares_prefix; intros h recv from to x v v' pf pt H.
  destruct (kget from (v_dels v)) as [fd|] eqn:Gf; [|discriminate].
  destruct recv; [discriminate|].
  destruct (fd <? dec_of_int x) eqn:L; [discriminate|]. apply Z.ltb_ge in L.
  apply bind_ok in H as ([v1 p1] & W & H). cbn [fst snd] in H.
  apply bind_ok in H as (r & R & H). destruct r as [[[v2 toDel] toFound] p2].
  apply bind_ok in H as (v3 & WF & H).
  apply bind_ok in H as (v5 & WT & H).
  apply bind_ok in H as (t & _ & H). inversion H; subst v5 pf pt; clear H.
  apply wdr_frame in W as ((T1&S1&D1) & Sl1 & _).
  apply ts_read_to_frame in R as ((T2&S2&D2) & Sl2 & _ & C).
  apply ts_write_from_frame in WF as (T3 & S3 & Sl3 & _ & D3 & _).
  apply ts_write_to_frame in WT as (T5 & S5 & Sl5 & _ & D5 & _).
  exists fd. split; [reflexivity|]. split; [assumption|]. split; [reflexivity|].
  split; [congruence|]. split; [congruence|]. split; [congruence|].
  rewrite D5, D3, D2, D1.
  replace toDel with (dget to v); [reflexivity|].
  unfold dget. rewrite <- D1.
  destruct C as [(_ & G & E & _)|(_ & G & _)]; rewrite G; cbn; [now rewrite E|reflexivity].
Qed.

Lemma transfer_shares_ok : forall h recv from to x v r,
  transfer_shares h recv from to x v = Ok r ->
  from <> to /\ transfer_shares_prefix h recv from to x v = Ok r.
Proof.
  unfold transfer_shares; intros h recv from to x v r H.
  destruct (Z.eqb_spec from to); [discriminate|]. auto.
Qed.

(* sender == recipient is refused *)
Lemma self_transfer_refused_v : forall h recv a x v, transfer_shares h recv a a x v = Err.
Proof. intros. unfold transfer_shares. now rewrite Z.eqb_refl. Qed.

(* the statement of the property for an accepted transfer (then sender <> recipient) *)
Lemma transfer_exact_v : forall h recv from to x v v' pf pt,
  transfer_shares h recv from to x v = Ok (v', pf, pt) ->
  from <> to /\
  dget from v' = dget from v - dec_of_int x /\
  dget to v' = dget to v + dec_of_int x /\
  (forall c, c <> from -> c <> to -> kget c (v_dels v') = kget c (v_dels v)) /\
  v_tokens v' = v_tokens v /\ v_shares v' = v_shares v /\ dec_of_int x <= dget from v.
Proof.
  intros h recv from to x v v' pf pt H.
  apply transfer_shares_ok in H as (N & H). split; [exact N|].
  apply transfer_dels in H as (fd & Gf & L & _ & T & S & _ & D).
  unfold dget. rewrite D, Gf. cbn [gof idf].
  split; [|split; [|split; [|repeat split; assumption]]].
  - rewrite kget_kset_other by assumption.
    destruct (fd - dec_of_int x =? 0) eqn:E.
    + apply Z.eqb_eq in E. rewrite kget_kdel_same. cbn [gof]. unfold idf. lia.
    + rewrite kget_kset_same. reflexivity.
  - rewrite kget_kset_same. unfold idf. reflexivity.
  - intros c Nf Nt. rewrite kget_kset_other by assumption.
    destruct (fd - dec_of_int x =? 0); [now rewrite kget_kdel_other|now rewrite kget_kset_other].
Qed.

(* PRE-FIX code only (before commit 458669b): what a transfer to oneself did, in every state *)
Lemma prefix_self_transfer_v : forall h recv a x v v' pf pt,
  transfer_shares_prefix h recv a a x v = Ok (v', pf, pt) ->
  dget a v' = dget a v + dec_of_int x /\ v_shares v' = v_shares v /\ v_tokens v' = v_tokens v.
Proof.
  intros h recv a x v v' pf pt H.
  apply transfer_dels in H as (fd & Gf & L & _ & T & S & _ & D).
  unfold dget. rewrite D. unfold dget. rewrite Gf, kget_kset_same. cbn [gof]. unfold idf. repeat split; (assumption || reflexivity).
Qed.

(* ====================================================================== *)
(* 7. the per-validator invariant and its preservation                     *)
(* ====================================================================== *)
Record VInv (v : vstate) : Prop := {
  I_f1 : F1 v;
  I_sd : sorted (v_dels v);
  I_sum : dsum (v_dels v) = v_shares v;
  I_nn : Forall (fun e => 0 <= snd e) (v_dels v);
  I_keys : forall a, khas a (v_dels v) = khas a (v_start v);
  I_tok : 0 <= v_tokens v;
  I_pots : 0 <= v_cur v <= v_out v     (* undistributed rewards are part of the outstanding rewards *)
}.

Lemma nn_get : forall m a d, Forall (fun e : Z * Z => 0 <= snd e) m -> kget a m = Some d -> 0 <= d.
Proof. intros m a d F G. destruct (kget_Forall _ _ _ _ F G) as [k H]. exact H. Qed.

Lemma nn_gof : forall m a, Forall (fun e : Z * Z => 0 <= snd e) m -> 0 <= gof idf (kget a m).
Proof. intros m a F. destruct (kget a m) eqn:G; cbn; [eapply nn_get; eauto|lia]. Qed.

Lemma dsum_nonneg : forall m, Forall (fun e : Z * Z => 0 <= snd e) m -> 0 <= dsum m.
Proof. intros m F. unfold dsum. induction F as [|[k a] r H F IH]; cbn [ksumf snd] in *; unfold idf in *; lia. Qed.

Lemma dec_of_int_nonneg : forall x, 0 <= x -> 0 <= dec_of_int x.
Proof. intros. unfold dec_of_int. pose proof prec_pos. nia. Qed.

Lemma quot_nonneg : forall a b, 0 <= a -> 0 <= b -> 0 <= Z.quot a b.
Proof.
  intros a b A B. destruct (Z.eq_dec b 0) as [->|N]; [now rewrite Z.quot_0_r_ext|].
  apply Z.quot_pos; lia.
Qed.

(* ---------- reward amounts are never negative; the pots stay ordered ---------- *)
Definition pots_ok (v : vstate) : Prop := 0 <= v_cur v <= v_out v.

Lemma rewards_between_nonneg : forall sp ep stake v r, rewards_between sp ep stake v = Ok r -> 0 <= r.
Proof.
  unfold rewards_between, dec_mul_trunc; intros sp ep stake v r H.
  destruct (ep <? sp); [discriminate|]. destruct (stake <? 0) eqn:S; [discriminate|]. apply Z.ltb_ge in S.
  destruct (hratio ep v - hratio sp v <? 0) eqn:D; [discriminate|]. apply Z.ltb_ge in D.
  inversion H; subst. apply quot_nonneg; [nia|pose proof prec_pos; lia].
Qed.

Lemma slash_walk_nonneg : forall evs sh eh v rw st sp rw' st' sp',
  0 <= rw -> slash_walk evs sh eh v (rw, st, sp) = Ok (rw', st', sp') -> 0 <= rw'.
Proof.
  induction evs as [|[[hh p] f] r IH]; intros sh eh v rw st sp rw' st' sp' R H; cbn [slash_walk] in H.
  - inversion H; subst; assumption.
  - destruct ((sh <=? hh) && (hh <=? eh) && (sp <? p)).
    + apply bind_ok in H as (dr & B & H). apply rewards_between_nonneg in B.
      eapply IH; [|exact H]. lia.
    + eapply IH; eauto.
Qed.

Lemma calc_rewards_nonneg : forall h e si d v raw, calc_rewards h e si d v = Ok raw -> 0 <= raw.
Proof.
  unfold calc_rewards; intros h e si d v raw H.
  destruct (si_height si =? h); [inversion H; lia|].
  apply bind_ok in H as ([[rw st] sp] & W & H).
  assert (0 <= rw).
  { destruct (si_height si <? h); [eapply slash_walk_nonneg; [|exact W]; lia|inversion W; lia]. }
  apply bind_ok in H as (cs & _ & H). apply bind_ok in H as (st' & _ & H).
  apply bind_ok in H as (dr & B & H). apply rewards_between_nonneg in B. inversion H; subst. lia.
Qed.

Lemma incr_period_pots : forall v v', pots_ok v -> incr_period v = Ok v' ->
  v_cur v' = 0 /\ 0 <= v_out v' <= v_out v.
Proof.
  unfold pots_ok; intros v v' P H. apply incr_period_ratio in H as (C & O & _).
  rewrite C, O. unfold out_after_period. destruct (v_tokens v =? 0); lia.
Qed.

Lemma trunc_le : forall x, 0 <= x -> 0 <= dec_trunc_int x /\ dec_of_int (dec_trunc_int x) <= x.
Proof.
  intros x X. unfold dec_trunc_int, dec_of_int. pose proof prec_pos.
  rewrite Z.quot_div_nonneg by lia. split; [apply Z.div_pos; lia|].
  pose proof (Z.mul_div_le x prec ltac:(lia)). lia.
Qed.

(* a withdrawal pays whole coins out of the outstanding rewards, never more than it takes out of them *)
Lemma withdraw_rewards_pots : forall h a v v' paid, pots_ok v -> withdraw_rewards h a v = Ok (v', paid) ->
  v_cur v' = 0 /\ 0 <= v_out v' /\ 0 <= paid /\ dec_of_int paid <= v_out v - v_out v'.
Proof.
  intros h a v v' paid P H.
  apply withdraw_rewards_inv in H as (si & v1 & raw & v2 & G & I & C & -> & D & ->).
  apply calc_rewards_nonneg in C.
  destruct (incr_period_pots _ _ P I) as (C1 & O1).
  apply dec_ref_ratio in D as (C2 & O2 & _). psimpl in *.
  assert (0 <= Z.min raw (v_out v1)) by lia.
  destruct (trunc_le _ H). rewrite C2, O2. repeat split; lia.
Qed.

Lemma pots_ok_of : forall v, v_cur v = 0 -> 0 <= v_out v -> pots_ok v.
Proof. unfold pots_ok; intros; lia. Qed.

(* ====================================================================== *)
(* 7b. preservation of the per-validator invariant                         *)
(* ====================================================================== *)
Lemma wdr_pots : forall h a v v' paid, pots_ok v -> withdraw_delegation_rewards h a v = Ok (v', paid) ->
  v_cur v' = 0 /\ 0 <= v_out v' /\ 0 <= paid /\ dec_of_int paid <= v_out v - v_out v'.
Proof.
  unfold withdraw_delegation_rewards; intros h a v v' paid P H.
  destruct (kget a (v_dels v)) as [d|] eqn:G; [|discriminate].
  apply bind_ok in H as ([v1 p1] & W & H). cbn [fst snd] in H.
  apply bind_ok in H as (v2 & I & H). inversion H; subst; clear H.
  destruct (withdraw_rewards_pots _ _ _ _ _ P W) as (C & O & Pd & Le).
  apply init_delegation_frame in I as (_ & _ & _ & _ & C2 & O2 & _). rewrite C2, O2. auto.
Qed.

Lemma wdr_inv : forall h a v v' paid, VInv v -> withdraw_delegation_rewards h a v = Ok (v', paid) -> VInv v'.
Proof.
  intros h a v v' paid [F SD SU NN K T PO] H.
  pose proof (wdr_F1 _ _ _ _ _ F H) as F'.
  destruct (wdr_pots _ _ _ _ _ PO H) as (C & O & _).
  apply wdr_frame in H as ((T1&S1&D1) & _ & _ & _ & Kd & Ks & _ & si & St & _).
  constructor; try (rewrite ?D1, ?S1, ?T1; assumption).
  - intros j. rewrite D1, St, khas_kset, khas_kdel.
    destruct (Z.eqb_spec j a) as [->|]; [assumption|apply K].
  - lia.
Qed.

Lemma ts_read_to_pots : forall h to v1 v2 toDel toFound pt,
  pots_ok v1 -> ts_read_to h to v1 = Ok (v2, toDel, toFound, pt) ->
  v_cur v2 = 0 /\ 0 <= v_out v2 /\ 0 <= pt /\ dec_of_int pt <= v_out v1 - v_out v2.
Proof.
  unfold ts_read_to; intros h to v1 v2 toDel toFound pt P H.
  destruct (kget to (v_dels v1)) as [d|] eqn:G.
  - apply bind_ok in H as ([w pw] & W & H). cbn [fst snd] in H. inversion H; subst; clear H.
    eapply wdr_pots; eauto.
  - apply bind_ok in H as (w & I & H). inversion H; subst; clear H.
    destruct (incr_period_pots _ _ P I). unfold dec_of_int. repeat split; lia.
Qed.

Lemma ts_write_from_pots : forall tok vsh from fromDel shares v2 v3,
  ts_write_from tok vsh from fromDel shares v2 = Ok v3 -> v_cur v3 = v_cur v2 /\ v_out v3 = v_out v2.
Proof.
  unfold ts_write_from; intros tok vsh from fromDel shares v2 v3 H.
  destruct (fromDel - shares =? 0).
  - apply bind_ok in H as (w & D & H). inversion H; subst; clear H.
    apply dec_ref_ratio in D as (C & O & _). psimpl in *. auto.
  - apply bind_ok in H as (stake & _ & H). inversion H; subst; clear H. psimpl. auto.
Qed.

Lemma ts_write_to_pots : forall h tok vsh to toDel shares toFound v3 v5,
  ts_write_to h tok vsh to toDel shares toFound v3 = Ok v5 -> v_cur v5 = v_cur v3 /\ v_out v5 = v_out v3.
Proof.
  unfold ts_write_to; intros h tok vsh to toDel shares toFound v3 v5 H.
  destruct (negb toFound).
  - apply bind_ok in H as (w & I & H). apply inc_ref_precompile_ratio in I as (C & O & _).
    apply bind_ok in H as (stake & _ & H). inversion H; subst; clear H. psimpl in *. auto.
  - apply bind_ok in H as (stake & _ & H). inversion H; subst; clear H. psimpl. auto.
Qed.

(* conservation: what a transfer pays to both parties comes out of the validator's outstanding rewards,
   which never go negative; rounding only ever leaves coins in the pool *)
Lemma transfer_pots : forall h recv from to x v v' pf pt,
  pots_ok v -> transfer_shares h recv from to x v = Ok (v', pf, pt) ->
  v_cur v' = 0 /\ 0 <= v_out v' /\ 0 <= pf /\ 0 <= pt /\
  dec_of_int pf + dec_of_int pt <= v_out v - v_out v'.
Proof.
  intros h recv from to x v v' pf pt P H.
  apply transfer_shares_ok in H as (_ & H). unfold transfer_shares_prefix in H.
  destruct (kget from (v_dels v)) as [fd|]; [|discriminate].
  destruct recv; [discriminate|].
  destruct (fd <? dec_of_int x); [discriminate|].
  apply bind_ok in H as ([v1 p1] & W & H). cbn [fst snd] in H.
  apply bind_ok in H as (r & R & H). destruct r as [[[v2 toDel] toFound] p2].
  apply bind_ok in H as (v3 & WF & H).
  apply bind_ok in H as (v5 & WT & H).
  apply bind_ok in H as (t & _ & H). inversion H; subst v5 pf pt; clear H.
  destruct (wdr_pots _ _ _ _ _ P W) as (C1 & O1 & P1 & L1).
  destruct (ts_read_to_pots _ _ _ _ _ _ _ (pots_ok_of _ C1 O1) R) as (C2 & O2 & P2 & L2).
  destruct (ts_write_from_pots _ _ _ _ _ _ _ WF) as (C3 & O3).
  destruct (ts_write_to_pots _ _ _ _ _ _ _ _ _ WT) as (C5 & O5).
  rewrite C5, C3, O5, O3. repeat split; lia.
Qed.

Lemma transfer_inv : forall h recv from to x v v' pf pt,
  0 <= x -> VInv v -> transfer_shares h recv from to x v = Ok (v', pf, pt) -> VInv v'.
Proof.
  intros h recv from to x v v' pf pt X [F SD SU NN K T PO] H.
  pose proof (transfer_pots _ _ _ _ _ _ _ _ _ PO H) as (PC & PO' & _).
  apply transfer_shares_ok in H as (N & H).
  pose proof (transfer_dels _ _ _ _ _ _ _ _ _ H) as (fd & Gf & L & _ & Tk & Sh & _ & D).
  pose proof (dec_of_int_nonneg x X) as X'.
  (* replay the blocks for the distribution part *)
  unfold transfer_shares_prefix in H. rewrite Gf in H.
  destruct recv; [discriminate|].
  destruct (fd <? dec_of_int x); [discriminate|].
  apply bind_ok in H as ([v1 p1] & W & H). cbn [fst snd] in H.
  apply bind_ok in H as (r & R & H). destruct r as [[[v2 toDel] toFound] p2].
  apply bind_ok in H as (v3 & WF & H).
  apply bind_ok in H as (v5 & WT & H).
  apply bind_ok in H as (t & _ & H). inversion H; subst v5 pf pt; clear H.
  pose proof (wdr_F1 _ _ _ _ _ F W) as F1v.
  apply wdr_frame in W as ((_&_&D1) & _ & _ & _ & _ & Ksf & _ & si1 & St1 & _).
  pose proof (ts_read_to_F1 _ _ _ _ _ _ _ F1v R) as F2v.
  apply ts_read_to_frame in R as (_ & _ & _ & C).
  assert (Gf2 : exists si, kget from (v_start v2) = Some si).
  { destruct C as [(_&_&_&St2)|(_&_&_&si2&St2&_)]; rewrite St2.
    - rewrite St1, kget_kset_same. eauto.
    - rewrite kget_kset_other, kget_kdel_other by assumption. rewrite St1, kget_kset_same. eauto. }
  destruct Gf2 as (si2 & Gf2).
  pose proof (ts_write_from_F1 _ _ _ _ _ _ _ _ F2v Gf2 WF) as F3v.
  apply ts_write_from_frame in WF as (_ & _ & _ & _ & _ & s3 & St3).
  assert (Kto3 : if toFound return Prop then khas to (v_start v3) = true else kget to (v_start v3) = None).
  { assert (E3 : kget to (v_start v3) = kget to (v_start v2)).
    { rewrite St3. destruct (fd - dec_of_int x =? 0); [apply kget_kdel_other|apply kget_kset_other]; congruence. }
    destruct C as [(-> & Gt & _ & St2)|(-> & Gt & _ & si & St2 & _)].
    - rewrite E3, St2, St1, kget_kset_other, kget_kdel_other by congruence.
      apply khas_false. rewrite <- K. rewrite <- D1. now apply kget_khas_none.
    - unfold khas. rewrite E3, St2, kget_kset_same. reflexivity. }
  pose proof (ts_write_to_F1 _ _ _ _ _ _ _ _ _ F3v Kto3 WT) as F5v.
  apply ts_write_to_frame in WT as (_ & _ & _ & _ & _ & si5 & St5).
  (* assemble *)
  set (X1 := if fd - dec_of_int x =? 0 then kdel from (v_dels v) else kset from (fd - dec_of_int x) (v_dels v)) in *.
  assert (SX : sorted X1) by (unfold X1; destruct (fd - dec_of_int x =? 0); [now apply sorted_kdel|now apply sorted_kset]).
  assert (GX : kget to X1 = kget to (v_dels v)).
  { unfold X1; destruct (fd - dec_of_int x =? 0); [apply kget_kdel_other|apply kget_kset_other]; congruence. }
  constructor.
  - exact F5v.
  - rewrite D. now apply sorted_kset.
  - rewrite D, Sh. unfold dsum. rewrite ksumf_kset by assumption. rewrite GX.
    fold (dget to v). unfold idf at 2.
    unfold X1. destruct (fd - dec_of_int x =? 0) eqn:E.
    + apply Z.eqb_eq in E. rewrite ksumf_kdel by assumption. rewrite Gf. cbn [gof]. unfold idf at 2.
      fold (dsum (v_dels v)). lia.
    + rewrite ksumf_kset by assumption. rewrite Gf. cbn [gof]. unfold idf at 2 3.
      fold (dsum (v_dels v)). lia.
  - rewrite D. apply Forall_kset.
    + unfold X1. destruct (fd - dec_of_int x =? 0); [now apply Forall_kdel|].
      apply Forall_kset; [assumption|cbn; lia].
    + cbn. pose proof (nn_gof (v_dels v) to NN). unfold dget. lia.
  - intros j. rewrite D, St5, !khas_kset.
    destruct (Z.eqb_spec j to) as [->|Nt]; [reflexivity|].
    assert (E2 : khas j (v_start v2) = if j =? from then true else khas j (v_start v)).
    { destruct C as [(_&_&_&St2)|(_&_&_&si&St2&_)]; rewrite St2.
      - rewrite St1, khas_kset, khas_kdel. destruct (j =? from); reflexivity.
      - rewrite khas_kset, khas_kdel. destruct (Z.eqb_spec j to); [contradiction|].
        rewrite St1, khas_kset, khas_kdel. destruct (j =? from); reflexivity. }
    unfold X1. rewrite St3. destruct (fd - dec_of_int x =? 0).
    + rewrite !khas_kdel. destruct (Z.eqb_spec j from) as [->|Nf]; [reflexivity|].
      rewrite E2. destruct (Z.eqb_spec j from); [contradiction|apply K].
    + rewrite !khas_kset.
      destruct (Z.eqb_spec j from) as [->|Nf]; [reflexivity|].
      rewrite E2. destruct (Z.eqb_spec j from); [contradiction|apply K].
  - now rewrite Tk.
  - lia.
Qed.


Lemma shares_from_tokens_nonneg : forall tok vsh amt s,
  0 <= tok -> 0 <= vsh -> 0 <= amt -> shares_from_tokens tok vsh amt = Ok s -> 0 <= s.
Proof.
  unfold shares_from_tokens, dec_quo_int, dec_mul_int; intros tok vsh amt s T V A H.
  destruct (tok =? 0); inversion H; subst. apply quot_nonneg; nia.
Qed.

Lemma delegate_v_inv : forall h a amt v v' iss paid,
  VInv v -> 0 <= amt -> delegate_v h a amt v = Ok (v', iss, paid) -> VInv v' /\ 0 <= paid /\ 0 <= iss.
Proof.
  unfold delegate_v; intros h a amt v v' iss paid [F SD SU NN K T PO] A H.
  destruct ((v_tokens v =? 0) && (0 <? v_shares v)); [discriminate|].
  apply bind_ok in H as ([v1 p1] & H1 & H).
  assert (P1 : F1 v1 /\ stk_same v v1 /\ kget a (v_start v1) = None /\
               (forall j, j <> a -> khas j (v_start v1) = khas j (v_start v)) /\
               v_cur v1 = 0 /\ 0 <= v_out v1 /\ 0 <= p1).
  { destruct (kget a (v_dels v)) as [d|] eqn:G.
    - pose proof (withdraw_rewards_F1 _ _ _ _ _ F H1) as F'.
      destruct (withdraw_rewards_pots _ _ _ _ _ PO H1) as (C & O & Pd & _).
      apply withdraw_rewards_frame in H1 as (S & _ & _ & _ & St & _).
      split; [exact F'|]. split; [exact S|]. split; [rewrite St; apply kget_kdel_same|]. split; [|auto].
      intros j Nj. rewrite St, khas_kdel. destruct (Z.eqb_spec j a); [contradiction|reflexivity].
    - apply bind_ok in H1 as (w & I & H1). inversion H1; subst w p1; clear H1.
      pose proof (incr_period_F1 _ _ F I) as F'.
      destruct (incr_period_pots _ _ PO I) as (C & O).
      apply incr_period_spec in I as ((T1&S1&D1&St&_) & _ & _ & _).
      split; [exact F'|]. split; [unfold stk_same; auto|]. split.
      + rewrite St. apply khas_false. rewrite <- K. now apply kget_khas_none.
      + split; [intros j _; now rewrite St|]. repeat split; lia. }
  destruct P1 as (F1v & (T1&S1&D1) & N1 & O1 & C1 & Out1 & Pd1).
  assert (VS : 0 <= v_shares v) by (rewrite <- SU; now apply dsum_nonneg).
  apply bind_ok in H as (issued & HI & H).
  assert (I0 : 0 <= issued).
  { destruct (v_shares v1 =? 0).
    - inversion HI; subst. now apply dec_of_int_nonneg.
    - destruct (shares_from_tokens (v_tokens v1) (v_shares v1) amt) as [s| |] eqn:E; inversion HI; subst.
      eapply shares_from_tokens_nonneg; [| | |exact E]; rewrite ?T1, ?S1; assumption. }
  apply bind_ok in H as (v3 & HD & H). inversion H; subst v3 iss paid; clear H.
  match type of HD with init_delegation _ _ ?w = _ => set (v2 := w) in * end.
  assert (F2 : F1 v2) by (eapply F1_ext; [| | | |exact F1v]; reflexivity).
  pose proof (init_delegation_F1 _ _ _ _ F2 N1 HD) as F3.
  apply init_delegation_frame in HD as ((T3&S3&D3) & _ & _ & _ & C3 & O3 & _ & _ & si & St3 & _).
  unfold v2 in T3, S3, D3, St3, C3, O3. psimpl in *.
  rewrite D1 in D3. rewrite S1 in S3. rewrite T1 in T3.
  split; [|split; [exact Pd1|exact I0]].
  constructor.
  - exact F3.
  - rewrite D3. now apply sorted_kset.
  - rewrite D3, S3. unfold dsum. rewrite ksumf_kset by assumption.
    fold (dsum (v_dels v)). unfold idf at 2.
    destruct (kget a (v_dels v)); cbn [gof]; unfold idf; lia.
  - rewrite D3. apply Forall_kset; [assumption|]. cbn.
    pose proof (nn_gof (v_dels v) a NN). destruct (kget a (v_dels v)); cbn [gof] in *; unfold idf in *; lia.
  - intros j. rewrite D3, St3, !khas_kset.
    destruct (Z.eqb_spec j a) as [->|Nj]; [reflexivity|]. rewrite O1 by assumption. apply K.
  - rewrite T3. lia.
  - lia.
Qed.

Lemma tokens_from_shares_nonneg : forall tok vsh sh t,
  0 <= tok -> 0 <= vsh -> 0 <= sh -> tokens_from_shares tok vsh sh = Ok t -> 0 <= dec_trunc_int t.
Proof.
  unfold tokens_from_shares, dec_quo, dec_mul_int, dec_trunc_int; intros tok vsh sh t T V S H.
  destruct (vsh =? 0); inversion H; subst.
  apply quot_nonneg; [|pose proof prec_pos; lia].
  apply chop_round_nonneg. apply quot_nonneg; [|assumption]. pose proof prec_pos. nia.
Qed.

Lemma unbond_v_inv : forall h a sh v v' t paid,
  VInv v -> 0 <= sh -> unbond_v h a sh v = Ok (v', t, paid) -> VInv v' /\ 0 <= t /\ 0 <= paid.
Proof.
  unfold unbond_v; intros h a sh v v' t paid [F SD SU NN K T PO] A H.
  destruct (kget a (v_dels v)) as [dsh|] eqn:G; [|discriminate].
  apply bind_ok in H as ([v1 p1] & W & H).
  pose proof (withdraw_rewards_F1 _ _ _ _ _ F W) as F1v.
  destruct (withdraw_rewards_pots _ _ _ _ _ PO W) as (C1 & O1 & Pd1 & _).
  apply withdraw_rewards_frame in W as ((T1&S1&D1) & _ & _ & _ & St1 & _).
  destruct (dsh <? sh) eqn:L; [discriminate|]. apply Z.ltb_ge in L.
  apply bind_ok in H as (v2 & H2 & H).
  assert (P2 : F1 v2 /\ v_tokens v2 = v_tokens v /\ v_shares v2 = v_shares v /\
               v_dels v2 = (if dsh - sh =? 0 then kdel a (v_dels v) else kset a (dsh - sh) (v_dels v)) /\
               (forall j, khas j (v_start v2) = if j =? a then negb (dsh - sh =? 0) else khas j (v_start v)) /\
               v_cur v2 = 0 /\ 0 <= v_out v2).
  { destruct (dsh - sh =? 0).
    - inversion H2; subst v2; clear H2. psimpl.
      split; [now apply F1_set_dels|]. repeat split; try congruence.
      intros j. rewrite St1, khas_kdel. reflexivity.
    - match type of H2 with init_delegation _ _ ?w = _ => set (w1 := w) in * end.
      assert (Fw : F1 w1) by (now apply F1_set_dels).
      assert (Nw : kget a (v_start w1) = None) by (unfold w1; psimpl; rewrite St1; apply kget_kdel_same).
      pose proof (init_delegation_F1 _ _ _ _ Fw Nw H2) as F2.
      apply init_delegation_frame in H2 as ((T2&S2&D2) & _ & _ & _ & C2 & O2 & _ & _ & si & St2 & _).
      unfold w1 in T2, S2, D2, St2, C2, O2. psimpl in *.
      split; [exact F2|]. repeat split; try congruence.
      intros j. rewrite St2, St1, khas_kset, khas_kdel. destruct (j =? a); reflexivity. }
  destruct P2 as (F2 & T2 & S2 & D2 & K2 & C2 & O2).
  assert (VI : VInv (set_shares (v_shares v2 - sh) v2)).
  { constructor; psimpl.
    - eapply F1_ext; [| | | |exact F2]; reflexivity.
    - rewrite D2. destruct (dsh - sh =? 0); [now apply sorted_kdel|now apply sorted_kset].
    - rewrite D2, S2. unfold dsum. destruct (dsh - sh =? 0) eqn:E.
      + apply Z.eqb_eq in E. rewrite ksumf_kdel by assumption. rewrite G. cbn [gof].
        fold (dsum (v_dels v)). unfold idf. lia.
      + rewrite ksumf_kset by assumption. rewrite G. cbn [gof].
        fold (dsum (v_dels v)). unfold idf. lia.
    - rewrite D2. destruct (dsh - sh =? 0); [now apply Forall_kdel|].
      apply Forall_kset; [assumption|cbn; lia].
    - intros j. rewrite K2, D2. destruct (dsh - sh =? 0).
      + rewrite khas_kdel. destruct (j =? a); [reflexivity|apply K].
      + rewrite khas_kset. destruct (j =? a); [reflexivity|apply K].
    - rewrite T2. assumption.
    - lia. }
  destruct VI as [Fa SDa SUa NNa Ka Ta POa]. psimpl in *.
  destruct (v_shares v2 - sh =? 0).
  - inversion H; subst v' t paid; clear H. split; [|lia].
    constructor; psimpl; try assumption; [|lia].
    eapply F1_ext; [| | | |exact F2]; reflexivity.
  - apply bind_ok in H as (tk & TK & H).
    destruct (v_tokens v2 - dec_trunc_int tk <? 0) eqn:L2; [discriminate|]. apply Z.ltb_ge in L2.
    inversion H; subst v' t paid; clear H. split.
    + constructor; psimpl; try assumption.
      eapply F1_ext; [| | | |exact F2]; reflexivity.
    + split; [|exact Pd1]. eapply tokens_from_shares_nonneg; [| | |exact TK]; try lia.
      rewrite S2, <- SU. now apply dsum_nonneg.
Qed.

Lemma slash_burn_inv : forall h rem v v', VInv v -> slash_burn h rem v = Ok v' -> VInv v'.
Proof.
  unfold slash_burn; intros h rem v v' I H.
  set (burn := Z.max (Z.min rem (v_tokens v)) 0) in *.
  destruct (burn =? 0); [inversion H; subst; assumption|].
  destruct I as [[S R SP SL] SD SU NN K T PO].
  apply bind_ok in H as (v1 & IP & H).
  destruct (incr_period_pots _ _ PO IP) as (C1 & O1).
  apply incr_period_spec in IP as ((T1&S1&D1&St1&Sl1&_) & P1 & _ & HR1).
  apply bind_ok in H as (v2 & IR & H). inversion H; subst v'; clear H.
  pose proof (inc_ref_ratio _ _ _ IR) as (C2 & O2 & _).
  apply inc_ref_spec in IR as ((T2&S2&D2&St2&Sl2&_) & P2 & HR2).
  constructor; psimpl.
  - constructor; psimpl.
    + now rewrite St2, St1.
    + intros p.
      rewrite (href_ext v2 _ p) by reflexivity.
      rewrite HR2, HR1, St2, St1, Sl2, Sl1, P2, P1, cnt_slash_app. change (sl_period (h, v_period v, (if prec <? dec_quo_roundup (dec_of_int burn) (dec_of_int (v_tokens v)) then prec else dec_quo_roundup (dec_of_int burn) (dec_of_int (v_tokens v))))) with (v_period v).
      replace (v_period v + 1 - 1) with (v_period v) by lia.
      rewrite (Z.eqb_sym (v_period v) p).
      destruct (Z.eqb_spec p (v_period v)) as [->|Np].
      * rewrite (cnt_start_zero_ge (v_period v)) by (assumption || lia).
        rewrite (cnt_slash_zero_ge (v_period v)) by (assumption || lia). reflexivity.
      * rewrite R. bz.
    + rewrite St2, St1, P2, P1. eapply Forall_impl; [|exact SP]. cbn; intros; lia.
    + rewrite Sl2, Sl1, P2, P1. apply Forall_app. split.
      * eapply Forall_impl; [|exact SL]. cbn; intros; lia.
      * constructor; [unfold sl_period; cbn; lia|constructor].
  - now rewrite D2, D1.
  - now rewrite D2, D1, S2, S1.
  - now rewrite D2, D1.
  - intros j. rewrite D2, D1, St2, St1. apply K.
  - rewrite T2, T1. unfold burn. lia.
  - lia.
Qed.

(* ====================================================================== *)
(* 8. whole-state invariant, all operation lists                           *)
(* ====================================================================== *)
Definition SInv (s : state) : Prop :=
  Forall VInv (s_vals s) /\ Forall (fun e => 0 <= r_sh e) (s_reds s).

(* VInv only reads these fields *)
Lemma VInv_ext : forall v v',
  v_tokens v' = v_tokens v -> v_shares v' = v_shares v -> v_dels v' = v_dels v ->
  v_period v' = v_period v -> v_cur v' = v_cur v -> v_out v' = v_out v -> v_hist v' = v_hist v ->
  v_start v' = v_start v -> v_slashes v' = v_slashes v -> VInv v -> VInv v'.
Proof.
  intros v v' E1 E2 E3 E4 E5 E6 E7 E8 E9 [F SD SU NN K T PO].
  constructor; rewrite ?E1, ?E2, ?E3, ?E5, ?E6, ?E8; try assumption.
  eapply F1_ext; [| | | |exact F]; assumption.
Qed.

Lemma vnth_Forall : forall (P : vstate -> Prop) l i v, Forall P l -> vnth i l = Some v -> P v.
Proof.
  intros P l. induction l as [|x r IH]; intros i v F H; [destruct i; discriminate|].
  inversion F; subst. destruct i; cbn in H; [inversion H; subst; assumption|eauto].
Qed.

Lemma Forall_vupd : forall (P : vstate -> Prop) l i v, Forall P l -> P v -> Forall P (vupd i v l).
Proof.
  intros P l. induction l as [|x r IH]; intros i v F Pv; cbn; [destruct i; constructor|].
  inversion F; subst. destruct i; constructor; auto.
Qed.

Lemma get_val_inv : forall s i v, SInv s -> get_val i s = Some v -> VInv v.
Proof.
  unfold SInv, get_val; intros s i v [F _] H. destruct (i <? 0); [discriminate|]. eapply vnth_Forall; eauto.
Qed.

Lemma put_val_inv : forall s i v, SInv s -> VInv v -> SInv (put_val i v s).
Proof. unfold SInv, put_val; intros s i v [F R] V; cbn. split; [now apply Forall_vupd|exact R]. Qed.

Lemma pay_inv : forall s a x, SInv s -> SInv (pay a x s).
Proof. unfold SInv, pay; intros; cbn; assumption. Qed.

Lemma set_ubds_inv : forall s l, SInv s -> SInv (set_ubds l s).
Proof. unfold SInv; intros; cbn; assumption. Qed.

Lemma set_allow_inv : forall s l, SInv s -> SInv (set_allow l s).
Proof. unfold SInv; intros; cbn; assumption. Qed.

Lemma red_insert_Forall : forall (P : red -> Prop) x l, P x -> Forall P l -> Forall P (red_insert x l).
Proof.
  intros P x l Px F. induction F as [|e r Pe F IH]; cbn; [constructor; [assumption|constructor]|].
  destruct (red_le e x); [constructor; auto|]. constructor; [assumption|]. constructor; assumption.
Qed.

Lemma validate_unbond_nonneg : forall a amt v sh,
  VInv v -> 0 <= amt -> validate_unbond a amt v = Ok sh -> 0 <= sh.
Proof.
  unfold validate_unbond; intros a amt v sh [F SD SU NN K T PO] A H.
  destruct (kget a (v_dels v)) as [dsh|] eqn:G; [|discriminate].
  apply bind_ok in H as (s1 & E1 & H). apply bind_ok in H as (s2 & _ & H).
  destruct (dsh <? s2); [discriminate|]. inversion H; subst; clear H.
  assert (0 <= dsh) by (eapply nn_get; eauto).
  assert (0 <= s1).
  { eapply shares_from_tokens_nonneg; [| | |exact E1]; try assumption. rewrite <- SU. now apply dsum_nonneg. }
  destruct (dsh <? s1); assumption.
Qed.

Lemma do_transfer_inv : forall v from to x s s',
  0 <= x -> SInv s -> do_transfer v from to x s = Ok s' -> SInv s'.
Proof.
  unfold do_transfer; intros v from to x s s' X I H.
  destruct (get_val v s) as [vs|] eqn:G; [|discriminate].
  apply bind_ok in H as ([[vs' pf] pt] & T & H). inversion H; subst.
  apply pay_inv, pay_inv. apply put_val_inv; [assumption|]. eapply transfer_inv; eauto. eapply get_val_inv; eauto.
Qed.

(* SlashRedelegation over the entries: every step is an Unbond on some destination validator *)
Lemma slash_reds_inv : forall v ih frac l s tot s' tot',
  0 <= frac -> Forall (fun e => 0 <= r_sh e) l -> SInv s ->
  slash_reds v ih frac l s tot = Ok (s', tot') -> SInv s' /\ s_reds s' = s_reds s.
Proof.
  intros v ih frac l. induction l as [|e r IH]; intros s tot s' tot' FR FL I H; cbn [slash_reds] in H.
  - inversion H; subst. auto.
  - inversion FL as [|? ? Pe FL']; subst.
    destruct ((r_src e =? v) && (ih <=? r_h e)); [|eapply IH; eauto].
    destruct (slash_ubds_of (r_del e) (r_dst e) ih (dec_trunc_int (dec_mul_int frac (r_bal e))) (s_ubds s)) as [ubds' rest] eqn:SU.
    set (s1 := set_ubds ubds' s) in *.
    assert (I1 : SInv s1) by (apply set_ubds_inv; assumption).
    destruct ((dec_mul frac (r_sh e) =? 0) || (rest =? 0)).
    { destruct (IH _ _ _ _ FR FL' I1 H) as (A & B). split; [exact A|rewrite B; reflexivity]. }
    destruct (get_val (r_dst e) s1) as [vd|] eqn:G; [|discriminate].
    destruct (kget (r_del e) (v_dels vd)) as [dsh|] eqn:Gd.
    2:{ destruct (IH _ _ _ _ FR FL' I1 H) as (A & B). split; [exact A|rewrite B; reflexivity]. }
    apply bind_ok in H as ([[vd' tk] pd] & U & H).
    pose proof (get_val_inv _ _ _ I1 G) as VI.
    assert (SH : 0 <= (if dsh <? dec_mul frac (r_sh e) then dsh else dec_mul frac (r_sh e))).
    { destruct VI as [_ _ _ NN _ _ _]. pose proof (nn_get _ _ _ NN Gd).
      pose proof (dec_mul_nonneg frac (r_sh e) FR Pe). destruct (dsh <? dec_mul frac (r_sh e)); lia. }
    destruct (unbond_v_inv _ _ _ _ _ _ _ VI SH U) as (VI' & _).
    assert (I2 : SInv (pay (r_del e) pd (put_val (r_dst e) vd' s1))) by (apply pay_inv, put_val_inv; assumption).
    destruct (IH _ _ _ _ FR FL' I2 H) as (A & B). split; [exact A|rewrite B; reflexivity].
Qed.

Lemma allocate_inv : forall r v, VInv v -> VInv (allocate r v).
Proof.
  intros r v [F SD SU NN K T PO]. unfold allocate.
  constructor; psimpl; try assumption; [|lia].
  eapply F1_ext; [| | | |exact F]; reflexivity.
Qed.

Lemma alloc_all_inv : forall rs l, Forall VInv l -> Forall VInv (alloc_all rs l).
Proof.
  intros rs l F. revert rs. induction F as [|v l V F IH]; intros rs; destruct rs; cbn; try constructor; auto.
  now apply allocate_inv.
Qed.

Lemma end_block_v_inv : forall h m v, VInv v -> VInv (end_block_v h m v).
Proof.
  intros h m v V. unfold end_block_v.
  destruct (active v); [eapply VInv_ext; [| | | | | | | | |exact V]; reflexivity|].
  destruct (v_status v =? 0); [eapply VInv_ext; [| | | | | | | | |exact V]; reflexivity|].
  destruct ((v_status v =? 1) && m); [eapply VInv_ext; [| | | | | | | | |exact V]; reflexivity|exact V].
Qed.

Lemma block_vals_inv : forall h m rs l, Forall VInv l -> Forall VInv (map (end_block_v h m) (alloc_all rs l)).
Proof.
  intros h m rs l F. apply Forall_map. eapply Forall_impl; [|apply alloc_all_inv; exact F].
  intros v V. now apply end_block_v_inv.
Qed.

(* ---------- zero-height export + import ---------- *)
Lemma withdraw_all_inv : forall h ord v acc v' l,
  VInv v -> withdraw_all h ord v acc = Ok (v', l) -> VInv v'.
Proof.
  intros h ord. induction ord as [|a r IH]; intros v acc v' l V H; cbn [withdraw_all] in H.
  - inversion H; subst; assumption.
  - destruct (kget a (v_dels v)); [|eapply IH; eauto].
    apply bind_ok in H as ([v1 p1] & W & H). cbn [fst snd] in H.
    eapply IH; [|exact H]. eapply wdr_inv; eauto.
Qed.

Lemma In_khas : forall {A} (m : list (Z * A)) e, In e m -> khas (fst e) m = true.
Proof.
  intros A m e. unfold khas. induction m as [|[k a] r IH]; intros IN; [destruct IN|]. cbn [kget].
  destruct IN as [<-|IN]; cbn [fst]; [now rewrite Z.eqb_refl|].
  destruct (fst e =? k); [reflexivity|]. now apply IH.
Qed.

Lemma khas_In : forall {A} (m : list (Z * A)) a, khas a m = true -> In a (map fst m).
Proof.
  intros A m a. unfold khas. induction m as [|[k x] r IH]; cbn [kget map fst]; [discriminate|].
  destruct (Z.eqb_spec a k) as [->|N]; [left; reflexivity|]. intros H. right. now apply IH.
Qed.

Lemma filter_none : forall {A} (f : A -> bool) l, Forall (fun e => f e = false) l -> filter f l = [].
Proof. intros A f l F. induction F as [|e r He F IH]; cbn [filter]; [reflexivity|]. now rewrite He. Qed.

Lemma reset_v_start : forall v, (forall a, khas a (v_dels v) = khas a (v_start v)) -> v_start (reset_v v) = [].
Proof.
  intros v K. unfold reset_v. psimpl. apply filter_none.
  apply Forall_forall. intros e IN. rewrite K, (In_khas _ _ IN). reflexivity.
Qed.

(* the loop invariant of "reinitialize all delegations" *)
Record RI (v0 v : vstate) : Prop := {
  R_f1 : F1 v;
  R_stk : stk_same v0 v;
  R_sub : forall a, khas a (v_start v) = true -> khas a (v_dels v) = true;
  R_pots : v_cur v = 0 /\ v_out v = 0
}.

Lemma reinit_step : forall v0 v a v1 v2,
  RI v0 v -> khas a (v_dels v) = true -> khas a (v_start v) = false ->
  incr_period v = Ok v1 -> init_delegation 0 a v1 = Ok v2 ->
  RI v0 v2 /\ (forall b, khas b (v_start v2) = if b =? a then true else khas b (v_start v)).
Proof.
  intros v0 v a v1 v2 [F (T0&S0&D0) SUB (C0&O0)] Kd Ks I1 I2.
  pose proof (incr_period_F1 _ _ F I1) as F1'.
  pose proof (incr_period_ratio _ _ I1) as (C1 & O1 & _).
  pose proof (incr_period_spec _ _ I1) as ((T1&S1&D1&St1&Sl1&_) & _).
  assert (N1 : kget a (v_start v1) = None) by (rewrite St1; now apply khas_false).
  pose proof (init_delegation_F1 _ _ _ _ F1' N1 I2) as F2.
  apply init_delegation_frame in I2 as ((T2&S2&D2) & _ & _ & _ & C2 & O2 & _ & _ & si & St2 & _).
  assert (OUT : v_out v2 = 0).
  { rewrite O2, O1. unfold out_after_period. rewrite C0, O0. destruct (v_tokens v =? 0); reflexivity. }
  split.
  - constructor.
    + exact F2.
    + unfold stk_same. repeat split; congruence.
    + intros b. rewrite St2, St1, D2, D1, khas_kset. destruct (Z.eqb_spec b a) as [->|]; [intros _; exact Kd|apply SUB].
    + split; [congruence|exact OUT].
  - intros b. rewrite St2, St1. apply khas_kset.
Qed.

Lemma reinit_all_RI : forall l v0 v v',
  RI v0 v -> reinit_all l v = Ok v' ->
  RI v0 v' /\ (forall b, khas b (v_start v) = true -> khas b (v_start v') = true) /\
  (forall a, In a l -> khas a (v_dels v) = true -> khas a (v_start v') = true).
Proof.
  induction l as [|a r IH]; intros v0 v v' R H; cbn [reinit_all] in H.
  - inversion H; subst. split; [exact R|]. split; [auto|]. intros a [].
  - destruct (khas a (v_dels v) && negb (khas a (v_start v))) eqn:C.
    + apply andb_prop in C as (Kd & Ks). apply negb_true_iff in Ks.
      apply bind_ok in H as (v1 & I1 & H). apply bind_ok in H as (v2 & I2 & H).
      destruct (reinit_step _ _ _ _ _ R Kd Ks I1 I2) as (R2 & KS).
      destruct (IH _ _ _ R2 H) as (R' & MONO & COV).
      assert (D2 : v_dels v2 = v_dels v).
      { destruct R as [_ (_&_&Da) _ _]. destruct R2 as [_ (_&_&Db) _ _]. congruence. }
      split; [exact R'|]. split.
      * intros b Hb. apply MONO. rewrite KS. destruct (b =? a); [reflexivity|exact Hb].
      * intros b [->|IN] Hb.
        -- apply MONO. rewrite KS, Z.eqb_refl. reflexivity.
        -- apply COV; [exact IN|now rewrite D2].
    + destruct (IH _ _ _ R H) as (R' & MONO & COV).
      split; [exact R'|]. split; [exact MONO|].
      intros b [->|IN] Hb; [|now apply COV].
      rewrite Hb in C. cbn [andb] in C. apply negb_false_iff in C. now apply MONO.
Qed.

Lemma export_zero_v_inv : forall h ord v v' pays,
  VInv v -> export_zero_v h ord v = Ok (v', pays) -> VInv v'.
Proof.
  unfold export_zero_v; intros h ord v v' pays V H.
  apply bind_ok in H as ([v1 l1] & W & H). cbn [fst snd] in H.
  apply bind_ok in H as (v2 & RA & H). inversion H; subst v2 pays; clear H.
  pose proof (withdraw_all_inv _ _ _ _ _ _ V W) as [F SD SU NN K T PO].
  pose proof (reset_v_start v1 K) as ST.
  assert (R0 : RI (reset_v v1) (reset_v v1)).
  { constructor.
    - constructor.
      + rewrite ST. exact I.
      + intros p. rewrite ST. unfold reset_v, href. psimpl. cbn [kget cnt_start ksumf cnt_slash].
        replace (1 - 1) with 0 by reflexivity. destruct (p =? 0); reflexivity.
      + rewrite ST. constructor.
      + unfold reset_v. psimpl. constructor.
    - unfold stk_same. repeat split.
    - intros a. rewrite ST. unfold khas. cbn. discriminate.
    - unfold reset_v. psimpl. split; reflexivity. }
  destruct (reinit_all_RI _ _ _ _ R0 RA) as ([F' (T'&S'&D') SUB (C'&O')] & _ & COV).
  unfold reset_v in T', S', D'. psimpl in *.
  constructor; rewrite ?D', ?S', ?T'; try assumption.
  - intros a. destruct (khas a (v_dels v1)) eqn:Kd.
    + symmetry. apply COV; [apply in_or_app; right; now apply khas_In|unfold reset_v; psimpl; exact Kd].
    + destruct (khas a (v_start v')) eqn:Ks; [|reflexivity]. apply SUB in Ks. rewrite D' in Ks. congruence.
  - lia.
Qed.

Lemma export_vals_inv : forall h ord l l' pays,
  Forall VInv l -> export_vals h ord l = Ok (l', pays) -> Forall VInv l'.
Proof.
  intros h ord l. induction l as [|v r IH]; intros l' pays F H; cbn [export_vals] in H.
  - inversion H; subst. constructor.
  - inversion F; subst.
    apply bind_ok in H as ([v' p1] & E & H). apply bind_ok in H as ([r' p2] & ER & H).
    inversion H; subst; clear H. cbn [fst]. constructor; [eapply export_zero_v_inv; eauto|eapply IH; eauto].
Qed.

Lemma pay_all_frame : forall l s, s_vals (pay_all l s) = s_vals s /\ s_reds (pay_all l s) = s_reds s.
Proof.
  unfold pay_all. induction l as [|p r IH]; intros s; cbn [fold_left]; [auto|].
  destruct (IH (pay (fst p) (snd p) s)) as (A & B). rewrite A, B. auto.
Qed.

(* ---------- account migration: re-keying from -> to ---------- *)
Lemma kget_krename : forall {A} (m : list (Z * A)) from to j,
  from <> to -> kget to m = None ->
  kget j (krename from to m) = if j =? to then kget from m else if j =? from then None else kget j m.
Proof.
  intros A m from to j N T. unfold krename. destruct (kget from m) as [x|] eqn:G.
  - destruct (Z.eqb_spec j to) as [->|Nt]; [apply kget_kset_same|].
    rewrite kget_kset_other by assumption.
    destruct (Z.eqb_spec j from) as [->|Nf]; [apply kget_kdel_same|now apply kget_kdel_other].
  - destruct (Z.eqb_spec j to) as [->|Nt]; [exact T|].
    destruct (Z.eqb_spec j from) as [->|Nf]; [exact G|reflexivity].
Qed.

Lemma ksumf_krename : forall {A} (g : A -> Z) (m : list (Z * A)) from to,
  sorted m -> from <> to -> kget to m = None -> ksumf g (krename from to m) = ksumf g m.
Proof.
  intros A g m from to S N T. unfold krename. destruct (kget from m) as [x|] eqn:G; [|reflexivity].
  rewrite ksumf_kset by (now apply sorted_kdel). rewrite kget_kdel_other by congruence. rewrite T. cbn [gof].
  rewrite ksumf_kdel by assumption. rewrite G. cbn [gof]. lia.
Qed.

Lemma sorted_krename : forall {A} (m : list (Z * A)) from to, sorted m -> sorted (krename from to m).
Proof.
  intros A m from to S. unfold krename. destruct (kget from m); [|assumption].
  now apply sorted_kset, sorted_kdel.
Qed.

Lemma Forall_krename : forall {A} (P : A -> Prop) (m : list (Z * A)) from to,
  Forall (fun e => P (snd e)) m -> Forall (fun e => P (snd e)) (krename from to m).
Proof.
  intros A P m from to F. unfold krename. destruct (kget from m) as [x|] eqn:G; [|assumption].
  apply Forall_kset; [now apply Forall_kdel|].
  destruct (kget_Forall _ _ _ _ F G) as [k' H]. exact H.
Qed.

Lemma migrate_v_inv : forall from to v,
  from <> to -> khas to (v_dels v) = false -> VInv v -> VInv (migrate_v from to v).
Proof.
  intros from to v N KT [[SS RF SP SL] SD SU NN K T PO].
  assert (TD : kget to (v_dels v) = None) by (now apply khas_false).
  assert (TS : kget to (v_start v) = None) by (apply khas_false; now rewrite <- K).
  unfold migrate_v. constructor; psimpl.
  - constructor; psimpl.
    + now apply sorted_krename.
    + intros p. rewrite (href_ext v _ p) by reflexivity. rewrite RF.
      unfold cnt_start. now rewrite ksumf_krename.
    + apply (Forall_krename (fun si => si_prev si < v_period v)). exact SP.
    + exact SL.
  - now apply sorted_krename.
  - unfold dsum. now rewrite ksumf_krename.
  - apply (Forall_krename (fun x => 0 <= x)). exact NN.
  - intros j. unfold khas. rewrite !kget_krename by assumption.
    destruct (j =? to); [apply K|]. destruct (j =? from); [reflexivity|apply K].
  - exact T.
  - exact PO.
Qed.

Lemma fold_red_insert_Forall : forall (P : red -> Prop) (f : red -> red) l acc,
  Forall P acc -> Forall (fun e => P (f e)) l ->
  Forall P (fold_left (fun a e => red_insert (f e) a) l acc).
Proof.
  intros P f l. induction l as [|e r IH]; intros acc FA FL; cbn [fold_left]; [assumption|].
  inversion FL; subst. apply IH; [|assumption]. now apply red_insert_Forall.
Qed.

Lemma Forall_filter : forall {A} (P : A -> Prop) f l, Forall P l -> Forall P (filter f l).
Proof.
  intros A P f l F. induction F as [|e r He F IH]; cbn [filter]; [constructor|].
  destruct (f e); [constructor; assumption|assumption].
Qed.

Lemma exec_inv : forall s o s', SInv s -> exec s o = Ok s' -> SInv s'.
Proof.
  intros s o s' I H. destruct o; cbn [exec] in *.
  - (* Delegate *)
    destruct (amt <=? 0) eqn:A; [discriminate|]. apply Z.leb_gt in A.
    destruct (get_val v s) as [vs|] eqn:G; [|discriminate].
    apply bind_ok in H as ([[v' iss] pd] & D & H). inversion H; subst.
    apply pay_inv, put_val_inv; [assumption|].
    eapply delegate_v_inv; [eapply get_val_inv; eauto| |exact D]. lia.
  - (* Undelegate *)
    destruct (amt <=? 0) eqn:A; [discriminate|]. apply Z.leb_gt in A.
    destruct (get_val v s) as [vs|] eqn:G; [|discriminate].
    pose proof (get_val_inv _ _ _ I G) as VI.
    apply bind_ok in H as (sh & V & H).
    destruct (max_entries <=? ubd_entries a v s); [discriminate|].
    apply bind_ok in H as ([[v' t] pd] & U & H). inversion H; subst.
    apply set_ubds_inv, pay_inv, put_val_inv; [assumption|].
    eapply unbond_v_inv; [exact VI| |exact U].
    eapply validate_unbond_nonneg; [exact VI| |exact V]. lia.
  - (* Redelegate *)
    destruct (amt <=? 0) eqn:A; [discriminate|]. apply Z.leb_gt in A.
    destruct (get_val src s) as [vsrc|] eqn:Gs; [|discriminate].
    pose proof (get_val_inv _ _ _ I Gs) as VIs.
    apply bind_ok in H as (sh & V & H).
    destruct (src =? dst); [discriminate|].
    destruct (get_val dst s) as [vdst|] eqn:Gd; [|discriminate].
    pose proof (get_val_inv _ _ _ I Gd) as VId.
    destruct (has_receiving a src s); [discriminate|].
    destruct (max_entries <=? red_entries a src dst s); [discriminate|].
    apply bind_ok in H as ([[v1 t] p1] & U & H).
    destruct (t =? 0); [discriminate|].
    apply bind_ok in H as ([[v2 iss] p2] & D & H).
    assert (0 <= sh) by (eapply validate_unbond_nonneg; [exact VIs| |exact V]; lia).
    destruct (unbond_v_inv _ _ _ _ _ _ _ VIs H0 U) as (VI1 & T0 & _).
    destruct (delegate_v_inv _ _ _ _ _ _ _ VId T0 D) as (VI2 & _ & ISS).
    assert (I1 : SInv (pay a p2 (pay a p1 (put_val dst v2 (put_val src v1 s))))).
    { apply pay_inv, pay_inv, put_val_inv; [apply put_val_inv; assumption|assumption]. }
    destruct (v_status v1 =? 2); inversion H; subst; [exact I1|].
    destruct I1 as (IA & IB). split; [exact IA|]. cbn [s_reds set_reds].
    apply red_insert_Forall; [cbn; exact ISS|exact IB].
  - (* Withdraw *)
    destruct (get_val v s) as [vs|] eqn:G; [|discriminate].
    apply bind_ok in H as ([vs' pd] & W & H). inversion H; subst. cbn [fst snd].
    apply pay_inv, put_val_inv; [assumption|]. eapply wdr_inv; [eapply get_val_inv; eauto|exact W].
  - (* Approve *)
    destruct (x <? 0); inversion H; subst. now apply set_allow_inv.
  - (* Transfer *)
    destruct (x <=? 0) eqn:A; [discriminate|]. apply Z.leb_gt in A.
    eapply do_transfer_inv; [|exact I|exact H]. lia.
  - (* TransferFrom *)
    destruct (x <=? 0) eqn:A; [discriminate|]. apply Z.leb_gt in A.
    destruct (aget (v, from, spender) (s_allow s) <? x); [discriminate|].
    eapply do_transfer_inv; [| |exact H]; [lia|now apply set_allow_inv].
  - (* Block *)
    inversion H; subst. destruct I as (IA & IB). split; cbn; [now apply block_vals_inv|exact IB].
  - (* Mature *)
    inversion H; subst. destruct I as (IA & IB). split; cbn; [now apply block_vals_inv|constructor].
  - (* SlashVal *)
    destruct (get_val v s) as [vs|] eqn:G; [|discriminate].
    pose proof (get_val_inv _ _ _ I G) as VI.
    destruct (frac <? 0) eqn:FR; [discriminate|]. apply Z.ltb_ge in FR.
    destruct (v_status vs =? 2); [discriminate|].
    destruct (s_height s <? ih); [discriminate|].
    destruct (ih =? s_height s).
    + apply bind_ok in H as (vs' & B & H). inversion H; subst.
      apply put_val_inv; [assumption|]. eapply slash_burn_inv; eauto.
    + destruct (slash_ubds v ih frac (s_ubds s)) as [ubds' t1].
      apply bind_ok in H as ([s1 t2] & R & H).
      apply bind_ok in H as (vs' & B & H). inversion H; subst.
      assert (I0 : SInv (set_ubds ubds' s)) by (now apply set_ubds_inv).
      destruct I as (_ & IR).
      destruct (slash_reds_inv _ _ _ _ _ _ _ _ FR IR I0 R) as (I1 & _).
      apply put_val_inv; [assumption|]. eapply slash_burn_inv; eauto.
  - (* Jail *)
    destruct (get_val v s) as [vs|] eqn:G; [|discriminate].
    destruct (v_jailed vs); inversion H; subst.
    apply put_val_inv; [assumption|].
    eapply VInv_ext; [| | | | | | | | |eapply get_val_inv; eauto]; reflexivity.
  - (* Unjail *)
    destruct (get_val v s) as [vs|] eqn:G; [|discriminate].
    destruct (v_jailed vs); inversion H; subst.
    apply put_val_inv; [assumption|].
    eapply VInv_ext; [| | | | | | | | |eapply get_val_inv; eauto]; reflexivity.
  - (* ExportImport *)
    destruct zero.
    + apply bind_ok in H as ([l' pays] & E & H). inversion H; subst; clear H. cbn [fst snd].
      destruct I as (IA & IB). split; cbn [s_vals s_reds set_height set_allow set_reds set_ubds].
      * rewrite (proj1 (pay_all_frame _ _)). cbn [s_vals set_vals]. eapply export_vals_inv; eauto.
      * apply Forall_map. eapply Forall_impl; [|exact IB]. intros e He. exact He.
    + inversion H; subst. now apply set_allow_inv.
  - (* Reverted *)
    discriminate.
  - (* Migrate *)
    destruct (migrate_ok from to s) eqn:MO; [|discriminate]. inversion H; subst; clear H.
    unfold migrate_ok in MO. repeat (apply andb_prop in MO as (MO & ?)).
    apply negb_true_iff in MO. apply Z.eqb_neq in MO.
    match goal with X : negb (existsb (fun v => khas to (v_dels v)) (s_vals s)) = true |- _ =>
      apply negb_true_iff in X; rename X into NE end.
    destruct I as (IA & IB). split; cbn [s_vals s_reds set_mig set_reds set_ubds set_vals].
    + apply Forall_map. apply Forall_forall. intros v IN.
      apply migrate_v_inv; [exact MO| |rewrite Forall_forall in IA; now apply IA].
      destruct (khas to (v_dels v)) eqn:E; [|reflexivity].
      assert (X : existsb (fun v => khas to (v_dels v)) (s_vals s) = true) by (apply existsb_exists; eauto).
      congruence.
    + unfold reds_rename.
      apply (fold_red_insert_Forall (fun e => 0 <= r_sh e)
               (fun e => {| r_del := to; r_src := r_src e; r_dst := r_dst e; r_h := r_h e; r_bal := r_bal e; r_sh := r_sh e |})).
      * now apply Forall_filter.
      * apply Forall_filter. exact IB.
Qed.

Lemma step_inv : forall s o, SInv s -> SInv (fst (step s o)).
Proof.
  intros s o I. unfold step. destruct (exec s o) as [s'| |] eqn:E; cbn [fst]; [|assumption|assumption].
  eapply exec_inv; eauto.
Qed.

Theorem run_inv : forall ops s, SInv s -> SInv (run s ops).
Proof.
  unfold run. induction ops as [|o r IH]; intros s I; cbn [fold_left]; [assumption|].
  apply IH. now apply step_inv.
Qed.

(* ====================================================================== *)
(* 9. genesis satisfies the invariant                                      *)
(* ====================================================================== *)
Lemma gen_v_inv : forall i, VInv (gen_v i).
Proof.
  intros i. constructor.
  - constructor.
    + cbn [gen_v v_start sorted]. split; [constructor|exact I].
    + intros p. unfold href, cnt_start.
      cbn [gen_v v_hist v_start v_slashes v_period kget ksumf cnt_slash si_prev snd fst].
      replace (2 - 1) with 1 by reflexivity. rewrite (Z.eqb_sym 1 p).
      destruct (p =? 1); reflexivity.
    + cbn [gen_v v_start v_period]. constructor; [cbn; lia|constructor].
    + cbn [gen_v v_slashes]. constructor.
  - cbn [gen_v v_dels sorted]. split; [constructor|exact I].
  - unfold dsum, idf. cbn [gen_v v_dels v_shares ksumf]. lia.
  - cbn [gen_v v_dels]. constructor; [|constructor]. cbn [snd]. unfold dec_of_int, power_reduction, prec. lia.
  - intros a. unfold khas. cbn [gen_v v_dels v_start kget]. destruct (a =? op_base + i); reflexivity.
  - cbn [gen_v v_tokens]. unfold power_reduction, prec. lia.
  - cbn [gen_v v_cur v_out]. lia.
Qed.

Lemma gen_vals_inv : forall n i, Forall VInv (gen_vals n i).
Proof. induction n; intros i; cbn; constructor; [apply gen_v_inv|apply IHn]. Qed.

Theorem gen_state_inv : forall n, SInv (gen_state n).
Proof. intros n. unfold SInv; cbn. split; [apply gen_vals_inv|constructor]. Qed.

(* ====================================================================== *)
(* 10. the property, stated on states                                      *)
(* ====================================================================== *)
Lemma vnth_vupd_same : forall l i v x, vnth i l = Some x -> vnth i (vupd i v l) = Some v.
Proof.
  induction l as [|y r IH]; intros i v x H; [destruct i; discriminate|].
  destruct i; cbn in *; [reflexivity|eauto].
Qed.

Lemma vnth_vupd_other : forall l i j v, i <> j -> vnth j (vupd i v l) = vnth j l.
Proof.
  induction l as [|y r IH]; intros i j v N; [destruct i, j; reflexivity|].
  destruct i, j; cbn; try reflexivity; [contradiction|]. apply IH. congruence.
Qed.

Lemma get_put_same : forall s i v x, get_val i s = Some x -> get_val i (put_val i v s) = Some v.
Proof.
  unfold get_val, put_val; intros s i v x H. cbn. destruct (i <? 0); [discriminate|].
  eapply vnth_vupd_same; eauto.
Qed.

Lemma get_put_other : forall s i j v x, get_val i s = Some x -> j <> i -> get_val j (put_val i v s) = get_val j s.
Proof.
  unfold get_val, put_val; intros s i j v x H N. cbn.
  destruct (i <? 0) eqn:I; [discriminate|]. apply Z.ltb_ge in I.
  destruct (j <? 0) eqn:J; [reflexivity|]. apply Z.ltb_ge in J.
  apply vnth_vupd_other. intros E. apply N. apply Z2Nat.inj in E; lia.
Qed.

Definition val_dget (s : state) (v a : Z) : Z :=
  match get_val v s with Some vs => dget a vs | None => 0 end.

Lemma get_val_pay : forall s a x w, get_val w (pay a x s) = get_val w s.
Proof. reflexivity. Qed.

Lemma paid_of_pay_same : forall s a x, paid_of a (pay a x s) = paid_of a s + x.
Proof. intros. unfold paid_of at 1, pay. cbn [s_paid set_paid]. now rewrite kget_kset_same. Qed.

Lemma paid_of_pay_other : forall s a b x, b <> a -> paid_of b (pay a x s) = paid_of b s.
Proof. intros. unfold paid_of, pay. cbn [s_paid set_paid]. now rewrite kget_kset_other. Qed.

Lemma do_transfer_exact : forall v from to x s s',
  do_transfer v from to x s = Ok s' ->
  from <> to /\ exists vs vs', get_val v s = Some vs /\ get_val v s' = Some vs' /\
    dget from vs' = dget from vs - dec_of_int x /\
    dget to vs' = dget to vs + dec_of_int x /\
    (forall c, c <> from -> c <> to -> kget c (v_dels vs') = kget c (v_dels vs)) /\
    v_tokens vs' = v_tokens vs /\ v_shares vs' = v_shares vs /\
    dec_of_int x <= dget from vs /\
    (forall w, w <> v -> get_val w s' = get_val w s) /\
    s_allow s' = s_allow s /\ has_receiving from v s = false.
Proof.
  unfold do_transfer; intros v from to x s s' H.
  destruct (get_val v s) as [vs|] eqn:G; [|discriminate].
  apply bind_ok in H as ([[vs' pf] pt] & T & H). inversion H; subst; clear H.
  pose proof (transfer_shares_ok _ _ _ _ _ _ _ T) as (N & TP).
  pose proof (transfer_dels _ _ _ _ _ _ _ _ _ TP) as (_ & _ & _ & RV & _).
  pose proof (transfer_exact_v _ _ _ _ _ _ _ _ _ T) as (_ & A & B & C & D & E & F).
  split; [exact N|]. exists vs, vs'. split; [reflexivity|].
  split; [rewrite !get_val_pay; eapply get_put_same; eauto|].
  repeat (split; [assumption|]).
  split; [intros w Nw; rewrite !get_val_pay; eapply get_put_other; eauto|]. split; [reflexivity|exact RV].
Qed.

(* C11, transfer part: an accepted transfer has sender <> recipient and moves exactly x shares; the
   validator's tokens and total shares, every other delegation, every other validator and all allowances
   are untouched; accepted only for 0 < x <= sender's shares and no incoming redelegation *)
Theorem transfer_exact : forall s s' v from to x,
  exec s (Transfer v from to x) = Ok s' ->
  from <> to /\ exists vs vs', get_val v s = Some vs /\ get_val v s' = Some vs' /\
    dget from vs' = dget from vs - dec_of_int x /\
    dget to vs' = dget to vs + dec_of_int x /\
    (forall c, c <> from -> c <> to -> kget c (v_dels vs') = kget c (v_dels vs)) /\
    v_tokens vs' = v_tokens vs /\ v_shares vs' = v_shares vs /\
    dec_of_int x <= dget from vs /\
    (forall w, w <> v -> get_val w s' = get_val w s) /\
    s_allow s' = s_allow s /\ has_receiving from v s = false /\ 0 < x.
Proof.
  intros s s' v from to x H. cbn [exec] in H.
  destruct (x <=? 0) eqn:A; [discriminate|]. apply Z.leb_gt in A.
  destruct (do_transfer_exact _ _ _ _ _ _ H) as (N & vs & vs' & P).
  split; [exact N|]. exists vs, vs'. intuition.
Qed.

(* allowances *)
Lemma akey_eqb_refl : forall k, akey_eqb k k = true.
Proof. intros [[a b] c]. cbn. now rewrite !Z.eqb_refl. Qed.

Lemma akey_eqb_eq : forall k k', akey_eqb k k' = true -> k = k'.
Proof.
  intros [[a b] c] [[a' b'] c']. cbn. intros H.
  apply andb_prop in H as (H & C). apply andb_prop in H as (A & B).
  apply Z.eqb_eq in A, B, C. congruence.
Qed.

Lemma aget_adel_same : forall m k, aget k (adel k m) = 0.
Proof.
  induction m as [|[k' a] r IH]; intros k; cbn; [reflexivity|].
  destruct (akey_eqb k k') eqn:E; cbn; [apply IH|]. rewrite E. apply IH.
Qed.

Lemma aget_adel_other : forall m k j, j <> k -> aget j (adel k m) = aget j m.
Proof.
  induction m as [|[k' a] r IH]; intros k j N; cbn; [reflexivity|].
  destruct (akey_eqb k k') eqn:E; cbn.
  - apply akey_eqb_eq in E; subst k'.
    destruct (akey_eqb j k) eqn:E2; [apply akey_eqb_eq in E2; contradiction|]. now apply IH.
  - destruct (akey_eqb j k'); [reflexivity|]. now apply IH.
Qed.

Lemma aget_aset_same : forall m k a, aget k (aset k a m) = a.
Proof. intros. unfold aset; cbn. now rewrite akey_eqb_refl. Qed.

Lemma aget_aset_other : forall m k j a, j <> k -> aget j (aset k a m) = aget j m.
Proof.
  intros m k j a N. unfold aset; cbn.
  destruct (akey_eqb j k) eqn:E; [apply akey_eqb_eq in E; contradiction|]. now apply aget_adel_other.
Qed.

(* C11, transferFrom: accepted only within the allowance, which drops by exactly x (nothing else in the
   allowance table changes), and the shares move exactly as for transfer *)
Theorem transfer_from_exact : forall s s' v spender from to x,
  exec s (TransferFrom v spender from to x) = Ok s' ->
  from <> to /\
  x <= aget (v, from, spender) (s_allow s) /\
  aget (v, from, spender) (s_allow s') = aget (v, from, spender) (s_allow s) - x /\
  (forall k, k <> (v, from, spender) -> aget k (s_allow s') = aget k (s_allow s)) /\
  exists vs vs', get_val v s = Some vs /\ get_val v s' = Some vs' /\
    dget from vs' = dget from vs - dec_of_int x /\
    dget to vs' = dget to vs + dec_of_int x /\
    (forall c, c <> from -> c <> to -> kget c (v_dels vs') = kget c (v_dels vs)) /\
    v_tokens vs' = v_tokens vs /\ v_shares vs' = v_shares vs /\
    dec_of_int x <= dget from vs /\
    (forall w, w <> v -> get_val w s' = get_val w s) /\ 0 < x.
Proof.
  intros s s' v spender from to x H. cbn [exec] in H.
  destruct (x <=? 0) eqn:A; [discriminate|]. apply Z.leb_gt in A.
  destruct (aget (v, from, spender) (s_allow s) <? x) eqn:L; [discriminate|]. apply Z.ltb_ge in L.
  destruct (do_transfer_exact _ _ _ _ _ _ H) as (N & vs & vs' & G & G' & P1 & P2 & P3 & P4 & P5 & P6 & P7 & P8 & _).
  cbn [s_allow set_allow] in P8. rewrite P8.
  split; [exact N|]. split; [assumption|]. split; [apply aget_aset_same|]. split; [intros k Nk; now apply aget_aset_other|].
  exists vs, vs'. unfold get_val in *. cbn [s_vals set_allow] in *. intuition.
Qed.

(* a transfer never touches allowances; a transferFrom beyond the allowance is refused *)
Theorem transfer_from_over_allowance : forall s v spender from to x,
  aget (v, from, spender) (s_allow s) < x -> step s (TransferFrom v spender from to x) = (s, false).
Proof.
  intros s v spender from to x L. unfold step. cbn [exec].
  destruct (x <=? 0); [reflexivity|].
  destruct (aget (v, from, spender) (s_allow s) <? x) eqn:E; [reflexivity|]. apply Z.ltb_ge in E. lia.
Qed.

Theorem approve_exact : forall s s' v owner spender x,
  exec s (Approve v owner spender x) = Ok s' ->
  aget (v, owner, spender) (s_allow s') = x /\
  (forall k, k <> (v, owner, spender) -> aget k (s_allow s') = aget k (s_allow s)) /\ s_vals s' = s_vals s.
Proof.
  intros s s' v owner spender x H. cbn [exec] in H. destruct (x <? 0); inversion H; subst.
  cbn [s_allow set_allow s_vals].
  split; [apply aget_aset_same|]. split; [|reflexivity].
  intros k Nk. now apply aget_aset_other.
Qed.

(* a refused call changes nothing *)
Theorem failed_call_no_effect : forall s o s', step s o = (s', false) -> s' = s.
Proof. intros s o s'. unfold step. destruct (exec s o); intros H; inversion H; reflexivity. Qed.

(* C11: a transfer to oneself changes nothing — it is refused, whatever the state and the amount *)
Theorem self_transfer_refused : forall s v a x, step s (Transfer v a a x) = (s, false).
Proof.
  intros s v a x. unfold step. cbn [exec]. destruct (x <=? 0); [reflexivity|].
  unfold do_transfer. destruct (get_val v s); [|reflexivity].
  now rewrite self_transfer_refused_v.
Qed.

Theorem self_transfer_from_refused : forall s v spender a x, step s (TransferFrom v spender a a x) = (s, false).
Proof.
  intros s v spender a x. unfold step. cbn [exec]. destruct (x <=? 0); [reflexivity|].
  destruct (aget (v, a, spender) (s_allow s) <? x); [reflexivity|].
  unfold do_transfer. cbn [get_val s_vals set_allow]. unfold get_val.
  cbn [s_vals set_allow s_height]. fold (get_val v s). destruct (get_val v s); [|reflexivity].
  now rewrite self_transfer_refused_v.
Qed.

(* ---------- corollaries of the invariant for histories from genesis ---------- *)
Theorem sum_shares : forall n ops v vs,
  get_val v (run (gen_state n) ops) = Some vs -> dsum (v_dels vs) = v_shares vs.
Proof.
  intros n ops v vs G. apply (I_sum vs). eapply get_val_inv; [|exact G].
  apply run_inv. apply gen_state_inv.
Qed.

Theorem refcount : forall n ops v vs p,
  get_val v (run (gen_state n) ops) = Some vs ->
  href p vs = cnt_start p (v_start vs) + cnt_slash p (v_slashes vs) + b2z (p =? v_period vs - 1).
Proof.
  intros n ops v vs p G. apply (F_ref vs). apply (I_f1 vs). eapply get_val_inv; [|exact G].
  apply run_inv. apply gen_state_inv.
Qed.

Theorem start_iff_delegation : forall n ops v vs a,
  get_val v (run (gen_state n) ops) = Some vs ->
  khas a (v_dels vs) = khas a (v_start vs).
Proof.
  intros n ops v vs a G. apply (I_keys vs). eapply get_val_inv; [|exact G].
  apply run_inv. apply gen_state_inv.
Qed.


(* ====================================================================== *)
(* 11. withdrawing / undelegating is never blocked by the bookkeeping       *)
(* ====================================================================== *)
(* The only thing left that can stop a withdrawal is the SDK's own sanity check inside
   CalculateDelegationRewards (stake vs. current worth of the shares, negative ratio difference): *)
Definition calc_ok (h a : Z) (v : vstate) : Prop :=
  forall v1 si, incr_period v = Ok v1 -> kget a (v_start v) = Some si ->
  exists raw, calc_rewards h (v_period v) si (dget a v) v1 = Ok raw.

Lemma dsum_ge : forall m a d,
  Forall (fun e : Z * Z => 0 <= snd e) m -> kget a m = Some d -> d <= dsum m.
Proof.
  intros m a d F. unfold dsum.
  induction F as [|[k x] r H F IH]; cbn [kget ksumf]; [discriminate|].
  pose proof (dsum_nonneg r F) as NNr. unfold dsum in NNr. cbn [snd] in H.
  destruct (a =? k); intros E.
  - inversion E; subst. unfold idf at 1. lia.
  - specialize (IH E). unfold idf at 1. lia.
Qed.

Lemma withdraw_rewards_live : forall h a v si,
  F1 v -> pots_ok v -> kget a (v_start v) = Some si -> calc_ok h a v ->
  exists v1 paid, withdraw_rewards h a v = Ok (v1, paid) /\ href (v_period v1 - 1) v1 = 1.
Proof.
  intros h a v si [S R SP SL] PO Gs CO.
  assert (Psi : si_prev si < v_period v) by (destruct (kget_Forall _ _ _ _ SP Gs) as [k' Hk]; exact Hk).
  unfold withdraw_rewards. rewrite Gs.
  destruct (incr_period_ok v) as (v1 & I1).
  { rewrite R, Z.eqb_refl. pose proof (cnt_start_nonneg (v_period v - 1) (v_start v)).
    pose proof (cnt_slash_nonneg (v_period v - 1) (v_slashes v)). cbn [b2z]. lia. }
  { unfold pots_ok in PO. lia. }
  rewrite I1. cbn [bind].
  destruct (CO v1 si I1 Gs) as (raw & C).
  pose proof (incr_period_spec _ _ I1) as ((T1&S1&D1&St1&Sl1&_) & P1 & _ & HR1).
  rewrite St1, Gs. unfold dget in C. cbn [gof] in C.
  replace (match kget a (v_dels v) with Some d => d | None => 0 end) with (gof idf (kget a (v_dels v)))
    by (destruct (kget a (v_dels v)); reflexivity).
  rewrite C. cbn [bind].
  set (v1' := set_out (v_out v1 - Z.min raw (v_out v1)) v1).
  destruct (dec_ref_ok (si_prev si) v1') as (v2 & I2).
  { rewrite (href_ext v1 v1') by reflexivity.
    rewrite HR1. destruct (Z.eqb_spec (si_prev si) (v_period v)); [lia|]. rewrite R.
    pose proof (cnt_start_ge1 _ _ _ Gs). pose proof (cnt_slash_nonneg (si_prev si) (v_slashes v)). bz. }
  rewrite I2. cbn [bind].
  pose proof (dec_ref_spec _ _ _ I2) as (_ & P2 & _ & HR2).
  eexists. eexists. split; [reflexivity|].
  psimpl. rewrite (href_ext v2 _ _) by reflexivity. rewrite HR2, P2.
  rewrite (href_ext v1 v1') by reflexivity. unfold v1'. psimpl. rewrite HR1, P1.
  replace (v_period v + 1 - 1) with (v_period v) by lia. rewrite Z.eqb_refl.
  destruct (Z.eqb_spec (v_period v) (si_prev si)); [lia|]. cbn [b2z]. lia.
Qed.

Lemma init_delegation_live : forall h a v d,
  href (v_period v - 1) v <= 2 -> kget a (v_dels v) = Some d -> v_shares v <> 0 ->
  exists v', init_delegation h a v = Ok v'.
Proof.
  intros h a v d H G NZ. unfold init_delegation.
  destruct (inc_ref_ok _ _ H) as (v1 & I1). rewrite I1. cbn [bind].
  pose proof (inc_ref_spec _ _ _ I1) as ((T1&S1&D1&St1&Sl1&_) & P1 & _).
  rewrite D1, G. unfold tokens_from_shares_trunc. rewrite S1.
  destruct (v_shares v =? 0) eqn:E; [apply Z.eqb_eq in E; contradiction|]. cbn [bind]. eauto.
Qed.

Lemma withdraw_live_v : forall h a v d,
  VInv v -> kget a (v_dels v) = Some d -> 0 < d -> calc_ok h a v ->
  exists r, withdraw_delegation_rewards h a v = Ok r.
Proof.
  intros h a v d [F SD SU NN K T PO] G D CO.
  unfold withdraw_delegation_rewards. rewrite G.
  assert (Ks : khas a (v_start v) = true) by (rewrite <- K; eapply kget_khas; eauto).
  apply khas_true in Ks as (si & Gs).
  destruct (withdraw_rewards_live h a v si F PO Gs CO) as (v1 & paid & W & H1).
  rewrite W. cbn [bind fst snd].
  apply withdraw_rewards_frame in W as ((T1&S1&D1) & _).
  destruct (init_delegation_live h a v1 d) as (v2 & I2).
  - lia.
  - now rewrite D1.
  - rewrite S1, <- SU. pose proof (dsum_ge _ _ _ NN G). lia.
  - rewrite I2. cbn [bind]. eauto.
Qed.

Theorem withdraw_live : forall n ops v vs a d,
  let s := run (gen_state n) ops in
  get_val v s = Some vs -> kget a (v_dels vs) = Some d -> 0 < d -> calc_ok (s_height s) a vs ->
  snd (step s (Withdraw v a)) = true.
Proof.
  intros n ops v vs a d s G Gd D CO.
  assert (VI : VInv vs).
  { eapply get_val_inv; [|exact G]. apply run_inv. apply gen_state_inv. }
  destruct (withdraw_live_v (s_height s) a vs d VI Gd D CO) as (r & W).
  unfold step. cbn [exec]. rewrite G, W. reflexivity.
Qed.

(* RemoveDelShares never asks for more tokens than the validator has *)
Lemma issued_le_tokens : forall tok vsh sh,
  0 <= tok -> 0 < vsh -> 0 <= sh <= vsh ->
  dec_trunc_int (dec_quo (dec_mul_int sh tok) vsh) <= tok.
Proof.
  intros tok vsh sh T V S. unfold dec_trunc_int, dec_quo, dec_mul_int.
  pose proof prec_pos as PP. pose proof half_twice as HT.
  set (X := Z.quot (sh * tok * (prec * prec)) vsh).
  assert (X0 : 0 <= X) by (apply quot_nonneg; nia).
  assert (XU : X <= tok * prec * prec).
  { unfold X. rewrite Z.quot_div_nonneg by nia. apply Z.div_le_upper_bound; [lia|]. nia. }
  assert (CU : chop_round X <= tok * prec).
  { unfold chop_round. destruct (X <? 0) eqn:L; [apply Z.ltb_lt in L; lia|].
    pose proof (chop_round_pos_bounds X X0) as (_ & B). nia. }
  assert (C0 : 0 <= chop_round X) by (now apply chop_round_nonneg).
  rewrite Z.quot_div_nonneg by lia. apply Z.div_le_upper_bound; lia.
Qed.

Lemma unbond_live_v : forall h a sh v d,
  VInv v -> kget a (v_dels v) = Some d -> 0 < d -> 0 <= sh <= d -> calc_ok h a v ->
  exists r, unbond_v h a sh v = Ok r.
Proof.
  intros h a sh v d VI G D SH CO. pose proof VI as [F SD SU NN K T PO].
  assert (Ks : khas a (v_start v) = true) by (rewrite <- K; eapply kget_khas; eauto).
  apply khas_true in Ks as (si & Gs).
  destruct (withdraw_rewards_live h a v si F PO Gs CO) as (v1 & paid & W & H1).
  pose proof (withdraw_rewards_frame _ _ _ _ _ W) as ((T1&S1&D1) & _ & _ & _ & St1 & _).
  assert (VS : d <= v_shares v) by (rewrite <- SU; eapply dsum_ge; eauto).
  unfold unbond_v. rewrite G, W. cbn [bind].
  destruct (d <? sh) eqn:L; [apply Z.ltb_lt in L; lia|].
  assert (E2 : exists v2, (if d - sh =? 0 then Ok (set_dels (kdel a (v_dels v1)) v1)
                           else init_delegation h a (set_dels (kset a (d - sh) (v_dels v1)) v1)) = Ok v2 /\
                          v_tokens v2 = v_tokens v /\ v_shares v2 = v_shares v).
  { destruct (d - sh =? 0).
    - eexists. split; [reflexivity|]. psimpl. auto.
    - destruct (init_delegation_live h a (set_dels (kset a (d - sh) (v_dels v1)) v1) (d - sh)) as (v2 & I2).
      + psimpl. rewrite (href_ext v1 _ _) by reflexivity. lia.
      + psimpl. apply kget_kset_same.
      + psimpl. lia.
      + exists v2. split; [exact I2|].
        apply init_delegation_frame in I2 as ((T2&S2&_) & _). psimpl in *. split; congruence. }
  destruct E2 as (v2 & E2 & T2 & S2). rewrite E2. cbn [bind].
  destruct (v_shares v2 - sh =? 0); [eauto|].
  unfold tokens_from_shares. rewrite S2, T2.
  destruct (v_shares v =? 0) eqn:E; [apply Z.eqb_eq in E; lia|]. cbn [bind].
  pose proof (issued_le_tokens (v_tokens v) (v_shares v) sh T ltac:(lia) ltac:(lia)) as IL.
  destruct (v_tokens v - dec_trunc_int (dec_quo (dec_mul_int sh (v_tokens v)) (v_shares v)) <? 0) eqn:L2;
    [apply Z.ltb_lt in L2; lia|]. eauto.
Qed.

Lemma validate_unbond_le : forall a amt v sh d,
  kget a (v_dels v) = Some d -> validate_unbond a amt v = Ok sh -> sh <= d.
Proof.
  unfold validate_unbond; intros a amt v sh d G H. rewrite G in H.
  apply bind_ok in H as (s1 & _ & H). apply bind_ok in H as (s2 & _ & H).
  destruct (d <? s2); [discriminate|]. inversion H; subst; clear H.
  destruct (d <? s1) eqn:L; [lia|apply Z.ltb_ge in L; lia].
Qed.

Theorem undelegate_live : forall n ops v vs a d amt sh,
  let s := run (gen_state n) ops in
  get_val v s = Some vs -> kget a (v_dels vs) = Some d -> 0 < d ->
  0 < amt -> validate_unbond a amt vs = Ok sh -> ubd_entries a v s < max_entries ->
  calc_ok (s_height s) a vs ->
  snd (step s (Undelegate v a amt)) = true.
Proof.
  intros n ops v vs a d amt sh s G Gd D A V U CO.
  assert (VI : VInv vs).
  { eapply get_val_inv; [|exact G]. apply run_inv. apply gen_state_inv. }
  assert (0 <= sh) by (eapply validate_unbond_nonneg; [exact VI| |exact V]; lia).
  pose proof (validate_unbond_le _ _ _ _ _ Gd V).
  destruct (unbond_live_v (s_height s) a sh vs d VI Gd D ltac:(lia) CO) as ([[v' t] pd] & R).
  unfold step. cbn [exec].
  destruct (amt <=? 0) eqn:E; [apply Z.leb_le in E; lia|].
  rewrite G, V. cbn [bind].
  destruct (max_entries <=? ubd_entries a v s) eqn:E2; [apply Z.leb_le in E2; lia|].
  rewrite R. cbn [bind]. reflexivity.
Qed.

(* ====================================================================== *)
(* 12. reward entitlements across a transfer                               *)
(* ====================================================================== *)
(* what each party is paid: the sender exactly what a withdrawal on the pre-state pays; the recipient
   nothing if it had no delegation, otherwise what a withdrawal pays right after the sender's *)
Lemma transfer_pays : forall h recv from to x v v' pf pt,
  transfer_shares h recv from to x v = Ok (v', pf, pt) ->
  exists v1, withdraw_delegation_rewards h from v = Ok (v1, pf) /\
    match kget to (v_dels v) with
    | None => pt = 0
    | Some _ => exists v2, withdraw_delegation_rewards h to v1 = Ok (v2, pt)
    end.
Proof.
  intros h recv from to x v v' pf pt H.
  apply transfer_shares_ok in H as (_ & H). unfold transfer_shares_prefix in H.
  destruct (kget from (v_dels v)) as [fd|]; [|discriminate].
  destruct recv; [discriminate|].
  destruct (fd <? dec_of_int x); [discriminate|].
  apply bind_ok in H as ([v1 p1] & W & H). cbn [fst snd] in H.
  apply bind_ok in H as (r & R & H). destruct r as [[[v2 toDel] toFound] p2].
  apply bind_ok in H as (v3 & WF & H).
  apply bind_ok in H as (v5 & WT & H).
  apply bind_ok in H as (t & _ & H). inversion H; subst v5 pf pt; clear H.
  exists v1. split; [exact W|].
  pose proof (wdr_frame _ _ _ _ _ W) as ((_&_&D1) & _).
  unfold ts_read_to in R. rewrite D1 in R.
  destruct (kget to (v_dels v)) as [d|].
  - apply bind_ok in R as ([w pw] & W2 & R). cbn [fst snd] in R. inversion R; subst. eauto.
  - apply bind_ok in R as (w & _ & R). inversion R; subst. reflexivity.
Qed.

Lemma ts_write_from_height : forall tok vsh from fromDel shares v2 v3 si0,
  ts_write_from tok vsh from fromDel shares v2 = Ok v3 -> kget from (v_start v2) = Some si0 ->
  (forall si, kget from (v_start v3) = Some si -> si_height si = si_height si0) /\
  (forall c, c <> from -> kget c (v_start v3) = kget c (v_start v2)).
Proof.
  unfold ts_write_from; intros tok vsh from fromDel shares v2 v3 si0 H G. rewrite G in H.
  destruct (fromDel - shares =? 0).
  - apply bind_ok in H as (w & D & H). inversion H; subst; clear H.
    apply dec_ref_spec in D as ((_&_&_&St&_) & _). psimpl in *. rewrite St. split.
    + intros si E. rewrite kget_kdel_same in E. discriminate.
    + intros c N. now apply kget_kdel_other.
  - apply bind_ok in H as (stake & _ & H). inversion H; subst; clear H. psimpl. split.
    + intros si E. rewrite kget_kset_same in E. inversion E; subst. reflexivity.
    + intros c N. now apply kget_kset_other.
Qed.

Lemma ts_write_to_height : forall h tok vsh to toDel shares toFound v3 v5,
  ts_write_to h tok vsh to toDel shares toFound v3 = Ok v5 ->
  (forall si, kget to (v_start v5) = Some si ->
     if toFound then forall si0, kget to (v_start v3) = Some si0 -> si_height si = si_height si0
     else si_height si = h) /\
  (forall c, c <> to -> kget c (v_start v5) = kget c (v_start v3)).
Proof.
  unfold ts_write_to; intros h tok vsh to toDel shares toFound v3 v5 H.
  destruct toFound; cbn [negb] in H.
  - apply bind_ok in H as (stake & _ & H). inversion H; subst; clear H. psimpl. split.
    + intros si E. rewrite kget_kset_same in E. inversion E; subst. cbn [si_height].
      intros si0 G. now rewrite G.
    + intros c N. now apply kget_kset_other.
  - apply bind_ok in H as (w & I & H).
    apply inc_ref_precompile_spec in I as ((_&_&_&St&_) & _).
    apply bind_ok in H as (stake & _ & H). inversion H; subst; clear H. psimpl in *. rewrite St. split.
    + intros si E. rewrite kget_kset_same in E. inversion E; subst. reflexivity.
    + intros c N. now apply kget_kset_other.
Qed.

(* after a transfer both parties' starting infos begin at this height *)
Lemma transfer_start_heights : forall h recv from to x v v' pf pt,
  transfer_shares h recv from to x v = Ok (v', pf, pt) ->
  forall a si, a = from \/ a = to -> kget a (v_start v') = Some si -> si_height si = h.
Proof.
  intros h recv from to x v v' pf pt H.
  apply transfer_shares_ok in H as (N & H). unfold transfer_shares_prefix in H.
  destruct (kget from (v_dels v)) as [fd|]; [|discriminate].
  destruct recv; [discriminate|].
  destruct (fd <? dec_of_int x); [discriminate|].
  apply bind_ok in H as ([v1 p1] & W & H). cbn [fst snd] in H.
  apply bind_ok in H as (r & R & H). destruct r as [[[v2 toDel] toFound] p2].
  apply bind_ok in H as (v3 & WF & H).
  apply bind_ok in H as (v5 & WT & H).
  apply bind_ok in H as (t & _ & H). inversion H; subst v5 pf pt; clear H.
  apply wdr_frame in W as (_ & _ & _ & _ & _ & _ & _ & s1 & St1 & _ & H1).
  apply ts_read_to_frame in R as (_ & _ & _ & C).
  assert (G2 : kget from (v_start v2) = Some s1).
  { destruct C as [(_&_&_&St2)|(_&_&_&s2&St2&_)]; rewrite St2.
    - now rewrite St1, kget_kset_same.
    - rewrite kget_kset_other, kget_kdel_other by assumption. now rewrite St1, kget_kset_same. }
  destruct (ts_write_from_height _ _ _ _ _ _ _ _ WF G2) as (HF & OF).
  destruct (ts_write_to_height _ _ _ _ _ _ _ _ _ WT) as (HT & OT).
  intros a si [->| ->] E.
  - rewrite OT in E by assumption. rewrite (HF _ E). exact H1.
  - specialize (HT _ E). destruct C as [(-> & _)|(-> & _ & _ & s2 & St2 & H2)]; [exact HT|].
    (* found: to's starting info was rewritten by its own withdrawal at this height *)
    assert (G3 : kget to (v_start v3) = Some s2).
    { rewrite OF by congruence. now rewrite St2, kget_kset_same. }
    rewrite (HT _ G3). exact H2.
Qed.

Lemma calc_zero_same_height : forall h e si d v, si_height si = h -> calc_rewards h e si d v = Ok 0.
Proof. intros h e si d v E. unfold calc_rewards. rewrite E, Z.eqb_refl. reflexivity. Qed.

(* nothing is pending for a delegation whose starting info begins at this height *)
Lemma pending_zero : forall h a v si r,
  pots_ok v -> kget a (v_start v) = Some si -> si_height si = h -> pending h a v = Ok r -> r = 0.
Proof.
  unfold pending, withdraw_delegation_rewards; intros h a v si r PO G E H.
  apply bind_ok in H as ([v' p] & H & R). cbn [snd] in R. inversion R as [Rp]; clear R.
  destruct (kget a (v_dels v)) as [d|]; [|discriminate].
  apply bind_ok in H as ([v1 p1] & W & H). cbn [fst snd] in H.
  apply bind_ok in H as (v2 & _ & H). inversion H as [[Hv Hp]]; clear H.
  apply withdraw_rewards_inv in W as (si' & w1 & raw & w2 & G' & I & C & Pd & _).
  rewrite G in G'. inversion G' as [Gs]. rewrite <- Gs in C.
  rewrite (calc_zero_same_height h _ si _ _ E) in C. inversion C as [Cr].
  destruct (incr_period_pots _ _ PO I) as (_ & O).
  rewrite <- Rp, <- Hp, Pd, <- Cr. rewrite Z.min_l by lia. reflexivity.
Qed.

(* C11, rewards: what a transfer pays, to whom, out of which pot, and that nothing stays pending *)
Definition transfer_rewards_spec (s s' : state) (v from to : Z) : Prop :=
  exists vs vs' pf pt,
    get_val v s = Some vs /\ get_val v s' = Some vs' /\
    (* the sender is paid exactly what a withdrawal on the pre-state pays, the recipient only if it had a delegation *)
    pending (s_height s) from vs = Ok pf /\
    (kget to (v_dels vs) = None -> pt = 0) /\
    paid_of from s' = paid_of from s + pf /\ paid_of to s' = paid_of to s + pt /\
    (forall c, c <> from -> c <> to -> paid_of c s' = paid_of c s) /\
    (* it comes out of the validator's outstanding rewards, which stay non-negative *)
    0 <= pf /\ 0 <= pt /\ dec_of_int pf + dec_of_int pt <= v_out vs - v_out vs' /\ 0 <= v_out vs' /\
    (* and afterwards nothing is pending for either party, no undistributed rewards are left behind *)
    v_cur vs' = 0 /\
    (forall a r, a = from \/ a = to -> pending (s_height s) a vs' = Ok r -> r = 0).

Lemma do_transfer_rewards : forall s s' v from to x,
  SInv s -> do_transfer v from to x s = Ok s' -> transfer_rewards_spec s s' v from to.
Proof.
  intros s s' v from to x I H.
  unfold do_transfer in H. destruct (get_val v s) as [vs|] eqn:G; [|discriminate].
  apply bind_ok in H as ([[vs' pf] pt] & T & H). inversion H; subst; clear H.
  pose proof (get_val_inv _ _ _ I G) as [_ _ _ _ _ _ PO].
  destruct (transfer_pots _ _ _ _ _ _ _ _ _ PO T) as (C' & O' & Pf & Pt & Le).
  destruct (transfer_pays _ _ _ _ _ _ _ _ _ T) as (v1 & W & Wt).
  pose proof (transfer_start_heights _ _ _ _ _ _ _ _ _ T) as SH.
  pose proof (transfer_shares_ok _ _ _ _ _ _ _ T) as (N & _).
  exists vs, vs', pf, pt.
  split; [exact G|]. split; [rewrite !get_val_pay; eapply get_put_same; eauto|].
  split; [unfold pending; rewrite W; reflexivity|].
  split; [intros E; rewrite E in Wt; exact Wt|].
  split; [rewrite paid_of_pay_other by assumption; now rewrite paid_of_pay_same|].
  split; [rewrite paid_of_pay_same; now rewrite paid_of_pay_other by congruence|].
  split; [intros c N1 N2; now rewrite !paid_of_pay_other by assumption|].
  repeat (split; [assumption|]).
  intros a r Ha P.
  unfold pending in P. destruct (withdraw_delegation_rewards (s_height s) a vs') as [[w pw]| |] eqn:W2; cbn in P; try discriminate.
  pose proof (wdr_frame _ _ _ _ _ W2) as (_ & _ & _ & _ & _ & Ks & _).
  apply khas_true in Ks as (si & Gs).
  eapply (pending_zero (s_height s) a vs' si r); [apply pots_ok_of; assumption|exact Gs|eapply SH; eauto|].
  unfold pending. rewrite W2. exact P.
Qed.

Theorem transfer_rewards : forall s s' v from to x,
  SInv s -> exec s (Transfer v from to x) = Ok s' -> transfer_rewards_spec s s' v from to.
Proof.
  intros s s' v from to x I H. cbn [exec] in H. destruct (x <=? 0); [discriminate|].
  eapply do_transfer_rewards; eauto.
Qed.

Theorem transfer_from_rewards : forall s s' v spender from to x,
  SInv s -> exec s (TransferFrom v spender from to x) = Ok s' -> transfer_rewards_spec s s' v from to.
Proof.
  intros s s' v spender from to x I H. cbn [exec] in H. destruct (x <=? 0); [discriminate|].
  destruct (aget (v, from, spender) (s_allow s) <? x); [discriminate|].
  apply (do_transfer_rewards _ _ _ _ _ _ (set_allow_inv _ _ I)) in H. exact H.
Qed.

(* ====================================================================== *)
(* 13. the PRE-FIX defect (documentation only) and non-vacuity             *)
(* ====================================================================== *)
Definition wit_setup : list op := [Block []; Delegate 0 0 (100 * prec); Block []].
Definition wit_pre : state := run (gen_state 2) wit_setup.

(* PRE-FIX code only: with the body of handlerTransferShares as it was before commit 458669b
   (transfer_shares_prefix, i.e. without the sender <> recipient guard), account 0 — having delegated
   100 FX — sends itself 40 shares and holds 40 shares more while the validator's shares are unchanged.
   This was finding C11-1; the current function refuses the call (self_transfer_refused). *)
Theorem prefix_self_transfer_witness :
  exists vs vs' pf pt, get_val 0 wit_pre = Some vs /\
    transfer_shares_prefix (s_height wit_pre) false 0 0 40 vs = Ok (vs', pf, pt) /\
    dget 0 vs = dec_of_int (100 * prec) /\
    dget 0 vs' = dec_of_int (100 * prec) + dec_of_int 40 /\
    v_shares vs' = dec_of_int (200 * prec) /\
    dsum (v_dels vs') = dec_of_int (200 * prec) + dec_of_int 40.
Proof.
  eexists. eexists. eexists. eexists. split; [vm_compute; reflexivity|].
  split; [vm_compute; reflexivity|]. repeat split; vm_compute; reflexivity.
Qed.

Definition all_ok (s : state) (ops : list op) : bool :=
  snd (fold_left (fun acc o => let '(st, ok) := acc in let '(st', b) := step st o in (st', ok && b)) ops (s, true)).

(* a history in which every kind of operation is accepted: rewards flow, transfers to an existing and to a
   new delegator, a full transfer, transferFrom within an allowance, slashing now and for a past height
   (with a redelegation and an unbonding entry in reach), jailing (the validator leaves the bonded set),
   a transfer on the unbonding validator, unjailing, redelegation, undelegation *)
Definition ex_ops : list op :=
  [Block []; Delegate 0 0 (1000 * prec); Delegate 0 1 (500 * prec); Block [3 * prec * prec; 2 * prec * prec];
   SlashVal 0 3 10 (prec / 20); Delegate 1 2 (77 * prec + 5); Block [5 * prec * prec + 7; prec * prec];
   Transfer 0 0 1 (100 * prec); Approve 0 1 2 (50 * prec); TransferFrom 0 2 1 0 (50 * prec);
   Transfer 0 1 3 7; Redelegate 0 1 1 (10 * prec); Undelegate 0 0 (5 * prec); Withdraw 0 1;
   Block [prec * prec; prec * prec];
   SlashVal 0 4 3 (prec / 10);
   Jail 0; Block [prec * prec; prec * prec]; Transfer 0 0 3 (20 * prec);
   Block [prec * prec; prec * prec]; Withdraw 0 3; Unjail 0;
   Block [prec * prec; prec * prec];
   ExportImport true [2; 100; 0; 1; 3; 101];
   Block [prec * prec; prec * prec]; SlashVal 0 2 3 (prec / 20); Block [prec * prec; prec * prec];
   Withdraw 0 1; Transfer 0 1 2 3;
   Block [prec * prec; prec * prec]; ExportImport false [2; 100; 0; 1; 3; 101];
   Mature [0; 0]].

Theorem nonvacuous :
  all_ok (gen_state 2) ex_ops = true /\
  val_dget (run (gen_state 2) ex_ops) 0 3 = dec_of_int 7 + dec_of_int (20 * prec) /\
  aget (0, 1, 2) (s_allow (run (gen_state 2) ex_ops)) = 0 /\
  0 < paid_of 0 (run (gen_state 2) ex_ops) /\ 0 < paid_of 1 (run (gen_state 2) ex_ops) /\
  0 < paid_of 3 (run (gen_state 2) ex_ops) /\
  step (run (gen_state 2) ex_ops) (Transfer 0 1 1 1) = (run (gen_state 2) ex_ops, false).
Proof.
  split; [vm_compute; reflexivity|]. split; [vm_compute; reflexivity|].
  split; [vm_compute; reflexivity|]. split; [vm_compute; reflexivity|].
  split; [vm_compute; reflexivity|]. split; [vm_compute; reflexivity|]. apply self_transfer_refused.
Qed.

(* ====================================================================== *)
(* 14. the incoming-redelegation guard in both entry points                *)
(*     (over the call-path facts generated from the source, gen/Gen_C11.v)  *)
(* ====================================================================== *)
Lemma has_receiving_set_allow : forall a v l s, has_receiving a v (set_allow l s) = has_receiving a v s.
Proof. reflexivity. Qed.

(* whatever the facts are: if the sender is among the guarded values, an accepted call means the sender
   has no incoming redelegation on that validator *)
Lemma entry_guard : forall ef v caller afrom ato x s s',
  In (ef_sender ef) (ef_guards ef) -> exec_entry ef v caller afrom ato x s = Ok s' ->
  has_receiving (subj_eval (ef_sender ef) caller afrom ato) v s = false.
Proof.
  unfold exec_entry; intros ef v caller afrom ato x s s' IN H.
  destruct (x <=? 0); [discriminate|].
  apply bind_ok in H as (s1 & A & H).
  assert (R : forall a, has_receiving a v s1 = has_receiving a v s).
  { destruct (ef_allow ef) as [[o sp]|]; [|inversion A; reflexivity].
    destruct (aget _ _ <? x); [discriminate|]. inversion A; subst. reflexivity. }
  destruct (get_val v s1) as [vs|]; [|discriminate].
  apply bind_ok in H as ([[vs' pf] pt] & T & _).
  apply transfer_shares_ok in T as (_ & T).
  apply transfer_dels in T as (_ & _ & _ & RV & _).
  rewrite <- R.
  destruct (has_receiving (subj_eval (ef_sender ef) caller afrom ato) v s1) eqn:E; [|reflexivity].
  exfalso. assert (X : existsb (fun g => has_receiving (subj_eval g caller afrom ato) v s1) (ef_guards ef) = true).
  { apply existsb_exists. exists (ef_sender ef). split; assumption. }
  rewrite X in RV. discriminate.
Qed.

(* the model's two operations are the entry points the generated facts describe *)
Theorem entry_transfer_agrees : forall s v from to x,
  exec_entry gen_transfer_facts v from from to x s = exec s (Transfer v from to x).
Proof.
  intros. unfold exec_entry, gen_transfer_facts.
  cbn [ef_allow ef_guards ef_sender ef_recipient subj_eval existsb bind exec].
  destruct (x <=? 0); [reflexivity|]. unfold do_transfer. rewrite orb_false_r. reflexivity.
Qed.

Theorem entry_transfer_from_agrees : forall s v spender from to x,
  exec_entry gen_transfer_from_facts v spender from to x s = exec s (TransferFrom v spender from to x).
Proof.
  intros. unfold exec_entry, gen_transfer_from_facts.
  cbn [ef_allow ef_guards ef_sender ef_recipient subj_eval existsb exec].
  destruct (x <=? 0); [reflexivity|].
  destruct (aget (v, from, spender) (s_allow s) <? x); [reflexivity|]. cbn [bind].
  unfold do_transfer. rewrite orb_false_r. reflexivity.
Qed.

(* in BOTH entry points the guard is applied to the account whose shares leave *)
Theorem guard_both_entry_points :
  In (ef_sender gen_transfer_facts) (ef_guards gen_transfer_facts) /\
  In (ef_sender gen_transfer_from_facts) (ef_guards gen_transfer_from_facts) /\
  (forall s s' v from to x, exec s (Transfer v from to x) = Ok s' -> has_receiving from v s = false) /\
  (forall s s' v spender from to x,
     exec s (TransferFrom v spender from to x) = Ok s' -> has_receiving from v s = false).
Proof.
  assert (A : In (ef_sender gen_transfer_facts) (ef_guards gen_transfer_facts)) by (cbn; auto).
  assert (B : In (ef_sender gen_transfer_from_facts) (ef_guards gen_transfer_from_facts)) by (cbn; auto).
  split; [exact A|]. split; [exact B|]. split.
  - intros s s' v from to x H. rewrite <- entry_transfer_agrees in H.
    exact (entry_guard _ _ _ _ _ _ _ _ A H).
  - intros s s' v spender from to x H. rewrite <- entry_transfer_from_agrees in H.
    exact (entry_guard _ _ _ _ _ _ _ _ B H).
Qed.

(* ====================================================================== *)
(* 15. the recipient's entitlement does not depend on the sender's withdrawal *)
(* ====================================================================== *)
(* the reward CalculateDelegationRewards computes for a at the end of the current period, before it is
   clipped to the outstanding rewards and truncated to whole coins *)
Definition raw_reward (h a : Z) (v : vstate) : res Z :=
  v1 <- incr_period v ;;
  match kget a (v_start v) with
  | Some si => calc_rewards h (v_period v) si (dget a v) v1
  | None => Err
  end.

Lemma rewards_between_ext : forall sp ep ep' stake va vb,
  hratio sp va = hratio sp vb -> hratio ep va = hratio ep' vb -> sp <= ep -> sp <= ep' ->
  rewards_between sp ep stake va = rewards_between sp ep' stake vb.
Proof.
  unfold rewards_between; intros sp ep ep' stake va vb H1 H2 L1 L2.
  destruct (ep <? sp) eqn:E1; [apply Z.ltb_lt in E1; lia|].
  destruct (ep' <? sp) eqn:E2; [apply Z.ltb_lt in E2; lia|].
  now rewrite H1, H2.
Qed.

(* the walk over the slash events reads the ratios only at the starting period and at event periods *)
Lemma slash_walk_ext : forall evs sh eh va vb rw st sp,
  (forall e, In e evs -> hratio (sl_period e) va = hratio (sl_period e) vb) ->
  hratio sp va = hratio sp vb ->
  slash_walk evs sh eh va (rw, st, sp) = slash_walk evs sh eh vb (rw, st, sp).
Proof.
  induction evs as [|[[hh p] f] r IH]; intros sh eh va vb rw st sp HE HS; cbn [slash_walk]; [reflexivity|].
  destruct ((sh <=? hh) && (hh <=? eh) && (sp <? p)) eqn:C.
  - apply andb_prop in C as (_ & C). apply Z.ltb_lt in C.
    assert (HP : hratio p va = hratio p vb) by (apply (HE (hh, p, f)); left; reflexivity).
    rewrite (rewards_between_ext sp p p st va vb HS HP) by lia.
    destruct (rewards_between sp p st vb); cbn [bind]; try reflexivity.
    apply IH; [intros e IN; apply HE; right; exact IN|exact HP].
  - apply IH; [intros e IN; apply HE; right; exact IN|exact HS].
Qed.

Lemma slash_walk_sp : forall evs sh eh v rw st sp rw' st' sp',
  slash_walk evs sh eh v (rw, st, sp) = Ok (rw', st', sp') ->
  sp' = sp \/ exists e, In e evs /\ sp' = sl_period e.
Proof.
  induction evs as [|[[hh p] f] r IH]; intros sh eh v rw st sp rw' st' sp' H; cbn [slash_walk] in H.
  - inversion H; auto.
  - destruct ((sh <=? hh) && (hh <=? eh) && (sp <? p)).
    + apply bind_ok in H as (dr & _ & H). apply IH in H as [->|(e & IN & ->)].
      * right. exists (hh, p, f). split; [left; reflexivity|reflexivity].
      * right. exists e. split; [right; exact IN|reflexivity].
    + apply IH in H as [->|(e & IN & ->)]; [auto|]. right. exists e. split; [right; exact IN|reflexivity].
Qed.

Lemma calc_ext : forall h ea eb si d va vb,
  v_slashes va = v_slashes vb -> v_tokens va = v_tokens vb -> v_shares va = v_shares vb ->
  hratio (si_prev si) va = hratio (si_prev si) vb ->
  (forall e, In e (v_slashes va) -> hratio (sl_period e) va = hratio (sl_period e) vb) ->
  hratio ea va = hratio eb vb ->
  si_prev si <= ea -> si_prev si <= eb ->
  (forall e, In e (v_slashes va) -> sl_period e <= ea /\ sl_period e <= eb) ->
  calc_rewards h ea si d va = calc_rewards h eb si d vb.
Proof.
  unfold calc_rewards; intros h ea eb si d va vb SL TK SH H0 HE HEnd B1 B2 BE.
  destruct (si_height si =? h); [reflexivity|].
  rewrite <- SL, <- TK, <- SH.
  assert (W : (if si_height si <? h then slash_walk (v_slashes va) (si_height si) h va (0, si_stake si, si_prev si)
               else Ok (0, si_stake si, si_prev si)) =
              (if si_height si <? h then slash_walk (v_slashes va) (si_height si) h vb (0, si_stake si, si_prev si)
               else Ok (0, si_stake si, si_prev si))).
  { destruct (si_height si <? h); [|reflexivity]. now apply slash_walk_ext. }
  rewrite <- W.
  destruct (if si_height si <? h then slash_walk (v_slashes va) (si_height si) h va (0, si_stake si, si_prev si)
            else Ok (0, si_stake si, si_prev si)) as [[[rw st] sp]| |] eqn:WA; cbn [bind]; try reflexivity.
  assert (SP : sp = si_prev si \/ exists e, In e (v_slashes va) /\ sp = sl_period e).
  { destruct (si_height si <? h); [eapply slash_walk_sp; exact WA|inversion WA; auto]. }
  destruct (tokens_from_shares (v_tokens va) (v_shares va) d); cbn [bind]; try reflexivity.
  destruct (if a <? st then if st <=? a + 3 then Ok a else Pan else Ok st); cbn [bind]; try reflexivity.
  rewrite (rewards_between_ext sp ea eb a0 va vb); [reflexivity| |exact HEnd| |].
  - destruct SP as [->|(e & IN & ->)]; [exact H0|now apply HE].
  - destruct SP as [->|(e & IN & ->)]; [exact B1|apply (BE e IN)].
  - destruct SP as [->|(e & IN & ->)]; [exact B2|apply (BE e IN)].
Qed.

Lemma cnt_slash_ge1 : forall q l e, In e l -> sl_period e = q -> 1 <= cnt_slash q l.
Proof.
  induction l as [|x r IH]; intros e IN E; [destruct IN|]. cbn [cnt_slash].
  pose proof (cnt_slash_nonneg q r). destruct IN as [->|IN].
  - rewrite E, Z.eqb_refl. cbn [b2z]. lia.
  - specialize (IH _ IN E). pose proof (b2z_nonneg (sl_period x =? q)). lia.
Qed.

Lemma cnt_start_ge2 : forall m a b sa sb,
  sorted m -> a <> b -> kget a m = Some sa -> kget b m = Some sb -> si_prev sa = si_prev sb ->
  2 <= cnt_start (si_prev sa) m.
Proof.
  intros m a b sa sb S N Ga Gb E.
  assert (G' : kget b (kdel a m) = Some sb) by (rewrite kget_kdel_other by congruence; assumption).
  pose proof (cnt_start_ge1 _ _ _ G') as H1. rewrite <- E in H1.
  unfold cnt_start in *. rewrite ksumf_kdel in H1 by assumption. rewrite Ga in H1. cbn [gof] in H1.
  rewrite Z.eqb_refl in H1. cbn [b2z] in H1. lia.
Qed.

Lemma period_ratio_zero : forall v, v_cur v = 0 -> period_ratio v = 0.
Proof.
  intros v C. unfold period_ratio, dec_quo_trunc. rewrite C. destruct (v_tokens v =? 0); reflexivity.
Qed.

(* "a transfer can neither lose nor duplicate reward entitlement": after the sender's rewards have been
   withdrawn (the first thing a transfer does), the reward computed for the recipient is the one computed on
   the state before the transfer *)
Theorem recipient_entitlement_unchanged : forall h from to v v1 pf,
  VInv v -> from <> to -> withdraw_delegation_rewards h from v = Ok (v1, pf) ->
  raw_reward h to v1 = raw_reward h to v.
Proof.
  intros h from to v v1 pf VI N W. pose proof VI as [F SD SU NN K T PO].
  pose proof (wdr_F1 _ _ _ _ _ F W) as F1v1.
  destruct (wdr_pots _ _ _ _ _ PO W) as (C1 & O1 & _).
  pose proof (wdr_frame _ _ _ _ _ W) as ((T1&S1&D1) & Sl1 & _ & P1 & _ & _ & _ & s1 & St1 & Pv1 & _).
  (* open the sender's withdrawal *)
  unfold withdraw_delegation_rewards in W.
  destruct (kget from (v_dels v)) as [fd|]; [|discriminate].
  apply bind_ok in W as ([w pw] & WR & W). cbn [fst snd] in W.
  apply bind_ok in W as (w2 & ID & W). inversion W; subst w2 pw; clear W.
  apply withdraw_rewards_inv in WR as (sf & vA & raw & v2 & Gf & IA & _ & _ & DR & ->).
  pose proof (incr_period_F1 _ _ F IA) as FA.
  pose proof (incr_period_spec _ _ IA) as ((TA&SA&DA&StA&SlA&_) & PA & _ & HRA).
  pose proof (incr_period_ratio _ _ IA) as (_ & _ & _ & RAe & RAo).
  pose proof (dec_ref_ratio _ _ _ DR) as (_ & _ & R2).
  pose proof (dec_ref_spec _ _ _ DR) as ((T2&S2&D2&St2&Sl2&_) & P2 & _ & _).
  assert (R1 : v_ratio v1 = v_ratio v2).
  { unfold init_delegation in ID. apply bind_ok in ID as (x & IR & ID).
    apply inc_ref_ratio in IR as (_ & _ & RR). psimpl in RR.
    destruct (kget from (v_dels x)); [|discriminate]. apply bind_ok in ID as (st & _ & ID).
    inversion ID; subst. psimpl. exact RR. }
  assert (H12 : forall q, hratio q v1 = hratio q v2) by (intros q; unfold hratio; now rewrite R1).
  assert (Pf : si_prev sf < v_period v).
  { destruct F as [_ _ SP _]. destruct (kget_Forall _ _ _ _ SP Gf) as [k' Hk]. exact Hk. }
  (* the ratios the recipient's reward reads survive the sender's release of its starting period *)
  assert (KEEP : forall q, q < v_period v ->
            (q = si_prev sf -> 2 <= cnt_start q (v_start v) + cnt_slash q (v_slashes v)) ->
            hratio q v1 = hratio q vA).
  { intros q Lq C2. rewrite H12. psimpl in R2. rewrite R2; [reflexivity|].
    destruct (Z.eq_dec q (si_prev sf)) as [E|E]; [right|left; exact E].
    rewrite (href_ext vA _ _) by reflexivity.
    destruct FA as [_ RA _ _]. rewrite RA, StA, SlA, <- E.
    pose proof (b2z_nonneg (q =? v_period vA - 1)). specialize (C2 E). lia. }
  (* the second period end adds nothing: no rewards arrived in between *)
  assert (HP1 : 2 <= href (v_period v) v1).
  { destruct F1v1 as [_ R1' _ _]. rewrite R1', P1.
    replace (v_period v + 1 - 1) with (v_period v) by lia. rewrite Z.eqb_refl. cbn [b2z].
    assert (G1 : kget from (v_start v1) = Some s1) by (rewrite St1; apply kget_kset_same).
    pose proof (cnt_start_ge1 _ _ _ G1) as X. rewrite Pv1 in X.
    pose proof (cnt_slash_nonneg (v_period v) (v_slashes v1)). lia. }
  unfold raw_reward.
  assert (Gto : kget to (v_start v1) = kget to (v_start v)).
  { rewrite St1, kget_kset_other, kget_kdel_other by congruence. reflexivity. }
  rewrite Gto, IA. cbn [bind].
  destruct (incr_period_ok v1) as (vB & IB).
  { rewrite P1. replace (v_period v + 1 - 1) with (v_period v) by lia. lia. }
  { intros _. lia. }
  rewrite IB. cbn [bind].
  destruct (kget to (v_start v)) as [st|] eqn:Gt; [|reflexivity].
  pose proof (incr_period_spec _ _ IB) as ((TB&SB&DB&StB&SlB&_) & PB & _ & _).
  pose proof (incr_period_ratio _ _ IB) as (_ & _ & _ & RBe & RBo).
  rewrite P1 in RBe, RBo. replace (v_period v + 1 - 1) with (v_period v) in RBe, RBo by lia.
  rewrite (period_ratio_zero _ C1) in RBe.
  assert (HB : forall q, q <> v_period v + 1 -> hratio q vB = hratio q v1).
  { intros q Nq. apply RBo; [exact Nq|]. right. lia. }
  destruct F as [SS RF SP SL].
  assert (Pt : si_prev st < v_period v) by (destruct (kget_Forall _ _ _ _ SP Gt) as [k' Hk]; exact Hk).
  unfold dget. rewrite D1, P1.
  apply calc_ext.
  - congruence.
  - congruence.
  - congruence.
  - rewrite HB by lia. apply KEEP; [exact Pt|]. intros E.
    pose proof (cnt_start_ge2 _ _ _ _ _ SS (not_eq_sym N) Gt Gf E) as X.
    pose proof (cnt_slash_nonneg (si_prev st) (v_slashes v)). lia.
  - intros e IN. rewrite SlB, Sl1 in IN.
    assert (Le : sl_period e < v_period v) by (rewrite Forall_forall in SL; exact (SL e IN)).
    rewrite HB by lia. apply KEEP; [exact Le|]. intros E.
    pose proof (cnt_slash_ge1 _ _ _ IN E) as X. pose proof (cnt_start_ge1 _ _ _ Gf) as Y. rewrite E. lia.
  - rewrite RBe. rewrite H12. psimpl in R2. rewrite R2 by (left; lia). unfold hratio. psimpl. lia.
  - lia.
  - lia.
  - intros e IN. rewrite SlB, Sl1 in IN.
    assert (Le : sl_period e < v_period v) by (rewrite Forall_forall in SL; exact (SL e IN)). lia.
Qed.

(* ====================================================================== *)
(* 16. export + import is the identity on shares and stake                 *)
(* ====================================================================== *)
Lemma withdraw_all_stk : forall h ord v acc v' l,
  withdraw_all h ord v acc = Ok (v', l) -> stk_same v v'.
Proof.
  intros h ord. induction ord as [|a r IH]; intros v acc v' l H; cbn [withdraw_all] in H.
  - inversion H; subst. unfold stk_same; auto.
  - destruct (kget a (v_dels v)); [|eapply IH; eauto].
    apply bind_ok in H as ([v1 p1] & W & H). cbn [fst snd] in H.
    apply wdr_frame in W as ((T1&S1&D1) & _). apply IH in H as (T2&S2&D2).
    unfold stk_same. repeat split; congruence.
Qed.

Lemma export_zero_v_stk : forall h ord v v' pays,
  VInv v -> export_zero_v h ord v = Ok (v', pays) -> stk_same v v'.
Proof.
  unfold export_zero_v; intros h ord v v' pays V H.
  apply bind_ok in H as ([v1 l1] & W & H). cbn [fst snd] in H.
  apply bind_ok in H as (v2 & RA & H). inversion H; subst v2 pays; clear H.
  pose proof (withdraw_all_inv _ _ _ _ _ _ V W) as [F SD SU NN K T PO].
  apply withdraw_all_stk in W as (T1&S1&D1).
  pose proof (reset_v_start v1 K) as ST.
  assert (R0 : RI (reset_v v1) (reset_v v1)).
  { constructor.
    - constructor.
      + rewrite ST. exact I.
      + intros p. rewrite ST. unfold reset_v, href. psimpl. cbn [kget cnt_start ksumf cnt_slash].
        replace (1 - 1) with 0 by reflexivity. destruct (p =? 0); reflexivity.
      + rewrite ST. constructor.
      + unfold reset_v. psimpl. constructor.
    - unfold stk_same. repeat split.
    - intros a. rewrite ST. unfold khas. cbn. discriminate.
    - unfold reset_v. psimpl. split; reflexivity. }
  destruct (reinit_all_RI _ _ _ _ R0 RA) as ([_ (T'&S'&D') _ _] & _).
  unfold reset_v in T', S', D'. psimpl in *. unfold stk_same. repeat split; congruence.
Qed.

Lemma export_vals_stk : forall h ord l l' pays i v',
  Forall VInv l -> export_vals h ord l = Ok (l', pays) -> vnth i l' = Some v' ->
  exists v, vnth i l = Some v /\ stk_same v v'.
Proof.
  intros h ord l. induction l as [|x r IH]; intros l' pays i v' F H N; cbn [export_vals] in H.
  - inversion H; subst. destruct i; discriminate.
  - inversion F; subst.
    apply bind_ok in H as ([x' p1] & E & H). apply bind_ok in H as ([r' p2] & ER & H).
    inversion H; subst; clear H. cbn [fst] in N. destruct i; cbn [vnth] in *.
    + inversion N; subst. exists x. split; [reflexivity|eapply export_zero_v_stk; eauto].
    + eapply IH; eauto.
Qed.

(* C11: an application export (for zero height or not) followed by an import keeps every validator's
   tokens and shares and every delegation; the invariants (hence liveness, sum of shares, reference
   counts) are preserved (exec_inv / run_inv cover the operation) *)
Theorem export_import_identity_on_stake : forall s s' zero ord v vs',
  SInv s -> exec s (ExportImport zero ord) = Ok s' -> get_val v s' = Some vs' ->
  SInv s' /\ exists vs, get_val v s = Some vs /\
    v_tokens vs' = v_tokens vs /\ v_shares vs' = v_shares vs /\ v_dels vs' = v_dels vs.
Proof.
  intros s s' zero ord v vs' I H G.
  split; [eapply exec_inv; eauto|].
  cbn [exec] in H. destruct zero.
  - apply bind_ok in H as ([l' pays] & E & H). inversion H; subst; clear H. cbn [fst snd] in G.
    unfold get_val in *. cbn [s_vals set_height set_allow set_reds set_ubds] in G.
    rewrite (proj1 (pay_all_frame _ _)) in G. cbn [s_vals set_vals] in G.
    destruct (v <? 0); [discriminate|].
    destruct I as (IA & _).
    destruct (export_vals_stk _ _ _ _ _ _ _ IA E G) as (vs & N & (T&S&D)). exists vs. auto.
  - inversion H; subst. exists vs'. unfold get_val in *. cbn [s_vals set_allow] in G. auto.
Qed.

(* an operation performed in a call frame that reverts afterwards takes no effect; in particular an
   approveShares made there grants no allowance *)
Theorem reverted_no_effect : forall s o, step s (Reverted o) = (s, false).
Proof. reflexivity. Qed.

(* ====================================================================== *)
(* 17. account migration keeps shares, stake and the redelegation guard     *)
(* ====================================================================== *)
Lemma existsb_red_insert : forall f x l, existsb f (red_insert x l) = f x || existsb f l.
Proof.
  intros f x l. induction l as [|e r IH]; cbn [red_insert existsb]; [reflexivity|].
  destruct (red_le e x); cbn [existsb]; [rewrite IH|reflexivity].
  destruct (f e), (f x); reflexivity.
Qed.

Lemma existsb_fold_insert : forall f (g : red -> red) l acc,
  existsb f (fold_left (fun a e => red_insert (g e) a) l acc) = existsb (fun e => f (g e)) l || existsb f acc.
Proof.
  intros f g l. induction l as [|e r IH]; intros acc; cbn [fold_left existsb]; [reflexivity|].
  rewrite IH, existsb_red_insert. destruct (f (g e)), (existsb (fun e0 => f (g e0)) r), (existsb f acc); reflexivity.
Qed.

Lemma existsb_filter_split : forall {A} (f p : A -> bool) l,
  existsb f l = existsb f (filter p l) || existsb f (filter (fun e => negb (p e)) l).
Proof.
  intros A f p l. induction l as [|e r IH]; cbn [existsb filter]; [reflexivity|].
  destruct (p e); cbn [negb existsb]; rewrite IH;
    destruct (f e), (existsb f (filter p r)), (existsb f (filter (fun e0 => negb (p e0)) r)); reflexivity.
Qed.

Lemma existsb_ext_in : forall {A} (f g : A -> bool) l, (forall e, In e l -> f e = g e) -> existsb f l = existsb g l.
Proof.
  intros A f g l H. induction l as [|e r IH]; cbn [existsb]; [reflexivity|].
  rewrite (H e) by (left; reflexivity). rewrite IH; [reflexivity|]. intros x IN. apply H. right. exact IN.
Qed.

(* the guard follows the account: after the migration the new address has an incoming redelegation on a
   validator exactly if the old one had *)
Lemma migrate_guard : forall from to dst l,
  from <> to -> existsb (fun e => r_del e =? to) l = false ->
  existsb (fun e => (r_del e =? to) && (r_dst e =? dst)) (reds_rename from to l) =
  existsb (fun e => (r_del e =? from) && (r_dst e =? dst)) l.
Proof.
  intros from to dst l N NT. unfold reds_rename. rewrite existsb_fold_insert. cbn [r_del r_dst].
  rewrite Z.eqb_refl.
  rewrite (existsb_filter_split (fun e => (r_del e =? from) && (r_dst e =? dst)) (fun e => r_del e =? from) l).
  assert (A : existsb (fun e => (r_del e =? to) && (r_dst e =? dst)) (filter (fun e => negb (r_del e =? from)) l) = false).
  { clear N. induction l as [|e r IH]; cbn [filter existsb] in *; [reflexivity|].
    apply orb_false_iff in NT as (NE & NR). destruct (negb (r_del e =? from)); cbn [existsb]; rewrite ?NE; cbn [andb orb]; auto. }
  assert (B : existsb (fun e => (r_del e =? from) && (r_dst e =? dst)) (filter (fun e => negb (r_del e =? from)) l) = false).
  { clear. induction l as [|e r IH]; cbn [filter existsb]; [reflexivity|].
    destruct (r_del e =? from) eqn:E; cbn [negb]; [exact IH|]. cbn [existsb]. rewrite E. cbn [andb orb]. exact IH. }
  rewrite A, B, !orb_false_r.
  apply existsb_ext_in. intros e IN. apply filter_In in IN as (_ & E). rewrite E. reflexivity.
Qed.

Lemma vnth_map : forall f l i x, vnth i l = Some x -> vnth i (map f l) = Some (f x).
Proof.
  intros f l. induction l as [|y r IH]; intros i x G; [destruct i; discriminate|].
  destruct i; cbn [vnth map] in *; [inversion G; subst; reflexivity|eauto].
Qed.

Lemma vnth_In : forall l i x, vnth i l = Some x -> In x l.
Proof.
  induction l as [|y r IH]; intros i x G; [destruct i; discriminate|].
  destruct i; cbn [vnth] in G; [inversion G; left; reflexivity|right; eauto].
Qed.

Theorem migrate_conserves : forall s s' from to,
  SInv s -> exec s (Migrate from to) = Ok s' ->
  SInv s' /\ from <> to /\
  (forall dst, has_receiving to dst s' = has_receiving from dst s) /\
  (forall v vs, get_val v s = Some vs ->
     exists vs', get_val v s' = Some vs' /\
       v_tokens vs' = v_tokens vs /\ v_shares vs' = v_shares vs /\
       dget to vs' = dget from vs /\ dget from vs' = 0 /\
       (forall c, c <> from -> c <> to -> kget c (v_dels vs') = kget c (v_dels vs))).
Proof.
  intros s s' from to I H. split; [eapply exec_inv; eauto|].
  cbn [exec] in H. destruct (migrate_ok from to s) eqn:MO; [|discriminate]. inversion H; subst; clear H.
  unfold migrate_ok in MO. repeat (apply andb_prop in MO as (MO & ?)).
  apply negb_true_iff in MO. apply Z.eqb_neq in MO.
  repeat match goal with X : negb _ = true |- _ => apply negb_true_iff in X end.
  split; [exact MO|]. split.
  - intros dst. unfold has_receiving. cbn [s_reds set_mig set_reds]. now apply migrate_guard.
  - intros v vs G. unfold get_val in *. cbn [s_vals set_mig set_reds set_ubds set_vals].
    destruct (v <? 0); [discriminate|].
    assert (NV : khas to (v_dels vs) = false).
    { destruct (khas to (v_dels vs)) eqn:E; [|reflexivity].
      assert (X : existsb (fun v => khas to (v_dels v)) (s_vals s) = true).
      { apply existsb_exists. exists vs. split; [eapply vnth_In; eauto|exact E]. }
      congruence. }
    exists (migrate_v from to vs). split.
    + now apply vnth_map.
    + unfold migrate_v, dget. psimpl. split; [reflexivity|]. split; [reflexivity|].
      rewrite !kget_krename by (assumption || now apply khas_false).
      rewrite Z.eqb_refl. destruct (Z.eqb_spec from to); [contradiction|]. rewrite Z.eqb_refl.
      split; [reflexivity|]. split; [reflexivity|].
      intros c N1 N2. rewrite kget_krename by (assumption || now apply khas_false).
      destruct (Z.eqb_spec c to); [contradiction|]. destruct (Z.eqb_spec c from); [contradiction|]. reflexivity.
Qed.
