(* C17 / K_state proofs *)
From Coq Require Import String ZArith List Bool.
From FxV Require Import model.M_NondetTypes gen.Gen_NondetSites model.M_State.
Import ListNotations.
Open Scope Z_scope.

(* finite: every write to process-level state under x/ happens in a function that is only called while the
   app is wired; and the facts the router lemma needs hold of the source *)
Lemma state_wiring_only : writers_wiring_only = true /\ router_facts = true.
Proof. vm_compute. split; reflexivity. Qed.

(* once sealed, whatever is called on the router afterwards — any sequence of AddRoute / Seal / HasRoute /
   GetRoute that does not kill the process — leaves the route map exactly as it was *)
Lemma rstep_sealed : forall r o r', r_sealed r = true -> rstep r o = Some r' -> r' = r.
Proof.
  intros [routes sealed] o r' S H. simpl in S. subst sealed. destruct o; simpl in H.
  - discriminate.
  - discriminate.
  - inversion H. reflexivity.
  - destruct (r_has (mk_rtr routes true) path); [inversion H; reflexivity|discriminate].
Qed.

Theorem routes_frozen_after_seal : forall ops r r',
  r_sealed r = true -> rrun r ops = Some r' -> r' = r.
Proof.
  induction ops as [|o ops IH]; intros r r' S H; simpl in H.
  - inversion H. reflexivity.
  - destruct (rstep r o) as [r1|] eqn:E; [|discriminate].
    assert (r1 = r) by (eapply rstep_sealed; eassumption). subst r1. apply IH; assumption.
Qed.

(* the wiring phase builds the map; the seal ends it: AddRoute* ; Seal ; anything *)
Theorem router_lifecycle : forall adds later r0 r1 r2,
  rrun r0 adds = Some r1 -> rstep r1 RSeal = Some r2 -> forall r3, rrun r2 later = Some r3 ->
  r_routes r3 = r_routes r1 /\ r_sealed r3 = true.
Proof.
  intros adds later r0 r1 r2 _ HS r3 HL.
  simpl in HS. destruct (r_sealed r1) eqn:S; [discriminate|]. inversion HS; subst r2.
  assert (r3 = mk_rtr (r_routes r1) true) by (eapply routes_frozen_after_seal; [reflexivity|exact HL]).
  subst r3. split; reflexivity.
Qed.

Lemma router_example :
  rrun (mk_rtr [] false) [RAddRoute 1 10; RAddRoute 2 20; RSeal; RHasRoute 3; RGetRoute 2] = Some (mk_rtr [(2, 20); (1, 10)] true) /\
  rrun (mk_rtr [] false) [RAddRoute 1 10; RSeal; RAddRoute 2 20] = None.
Proof. vm_compute. split; reflexivity. Qed.
