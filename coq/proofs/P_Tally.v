From Coq Require Import ZArith List Bool Lia.
From FxV Require Import model.M_Tally.
Import ListNotations.
Open Scope Z_scope.

(* tally inputs the vote-summing phase can produce: non-negative powers, abstain part of the total *)
Definition wf_in (i : tally_in) : Prop := 0 <= t_bonded i /\ 0 <= t_abstain i <= t_total i.

Definition holds (f : facts) (i : tally_in) : Prop :=
  (f_bonded_nz f = true -> t_bonded i <> 0) /\
  (f_total_nz f = true -> t_total i <> 0) /\
  (f_nonabstain_nz f = true -> t_total i - t_abstain i <> 0).

Lemma learn_holds g f i others b o' :
  wf_in i -> holds f i -> guard_returns g i others = (b, o') -> b = false -> holds (learn g f) i.
Proof.
  intros [Hb [Ha Ht]] [H1 [H2 H3]] Hg Hb0. subst b. destruct g; cbn [learn]; cbn [guard_returns] in Hg.
  - injection Hg as E _. apply Z.eqb_neq in E. unfold holds; cbn. repeat split; auto.
  - unfold holds; repeat split; auto.
  - injection Hg as E _. apply Z.eqb_neq in E. unfold holds; cbn. repeat split; intros; auto; lia.
  - unfold holds; repeat split; auto.
Qed.

Theorem safe_sound : forall ss f i others,
  wf_in i -> holds f i -> safe ss f = true -> run ss i others <> TPanic.
Proof.
  induction ss as [|s r IH]; intros f i others Hwf Hh Hs; cbn [run]; [discriminate|].
  destruct s as [d|g]; cbn [safe] in Hs.
  - apply andb_true_iff in Hs. destruct Hs as [Hk Hr].
    assert (div_ok d i = true) as ->.
    { destruct Hh as [H1 [H2 H3]]. destruct d; cbn [div_known div_ok] in *;
        try (apply negb_true_iff, Z.eqb_neq; auto); discriminate. }
    eapply IH; eauto.
  - destruct (guard_returns g i others) as [b o'] eqn:Hg. destruct b; [discriminate|].
    eapply IH; [exact Hwf| |exact Hs]. eapply learn_holds; eauto.
Qed.

Lemma no_facts_hold i : holds no_facts i.
Proof. unfold holds, no_facts; cbn. repeat split; discriminate. Qed.

(* the order of steps as the code has it *)
Definition steps_as_coded : list step :=
  [SGuard GBondedZero; SDiv DBonded; SGuard GQuorum; SGuard GAllAbstain; SDiv DTotal; SGuard GOther;
   SDiv DNonAbstain; SGuard GOther].

(* the same steps with the veto division hoisted above the all-abstain guard panic on an unvoted proposal
   once the quorum is 0 (a legal parameter value) *)
Definition steps_hoisted : list step :=
  [SGuard GBondedZero; SDiv DBonded; SGuard GQuorum; SDiv DTotal; SGuard GOther; SGuard GAllAbstain;
   SDiv DNonAbstain; SGuard GOther].
Definition unvoted : tally_in :=
  {| t_bonded := 100 * dec_one; t_total := 0; t_abstain := 0; t_quorum := 0; t_other := [] |}.

Lemma hoisted_panics : wf_in unvoted /\ run steps_hoisted unvoted [] = TPanic /\ safe steps_hoisted no_facts = false.
Proof. repeat split; try (vm_compute; congruence); vm_compute; reflexivity. Qed.

Lemma coded_example : run steps_as_coded unvoted [] = TDone /\ safe steps_as_coded no_facts = true.
Proof. split; vm_compute; reflexivity. Qed.
